import Tuc.Model.CutStr
import Tuc.Model.FastLane
import Tuc.Model.Stream
import Tuc.Model.Lines
import Tuc.Model.Chars
import Tuc.Lemmas.Run
import Tuc.Lemmas.Natural
/-!
# C11 — `-z` is newline mode with the roles of LF and NUL exchanged

`swapByte` is the transposition of LF (10) and NUL (0), `swap` its bytewise extension.  For every
engine that reads records or lines, running with the other terminator on the swapped input gives
the swapped output, provided the literal texts of the options (delimiter, replacement, fillers,
fallbacks) contain neither LF nor NUL (argv cannot contain NUL), `--json` is off and the delimiter
is not a regex.  Everything is an instance of a naturality statement for an injective
`σ : UInt8 → UInt8` (`Tuc.Lemmas.Natural` for the text primitives, the `*_map` lemmas here for the
engines).

Main statements (all for every input):
* `records_swap`                       — the record reader;
* `readAndCutStr_swap`                 — general engine, `-f` (`NoLfNulOpt`);
  `readAndCutStr_swapAll`              — same, LF/NUL also exchanged inside the delimiter;
* `readAndCutFast_swap`                — fast lane;
* `cutBytesStream_swap`                — `-M`, every read segmentation;
* `fieldMode_fast_swap`, `fieldMode_stream_swap` — the engine `main` picks does not depend on `-z`;
* `utf8Chars_swap`, `validUtf8_swap`, `readAndCutStr_swap_chars` — `-c`;
* `cutLinesForwardOnly_swap`, `cutLines_swap`, `readAndCutLines_swap` — `-l`, both algorithms.

History: the `-l` statement was false on the line-at-a-time path of the original code (in LF mode
`read_line` rejects a line that is not UTF-8, in `-z` mode `read_until` did not: `-l 1` on `ff 0a`
failed while `-z -l 1` on `ff 00` printed the line).  The code now validates in both modes and the
model's `fwdLines` tests `!validUtf8 line` unconditionally; the test is isolated in
`fwdCheck_swap`.
-/

namespace Tuc

/-! ## 1. Basics -/

/-- the transposition of LF and NUL -/
def swapByte (b : UInt8) : UInt8 := if b = 10 then 0 else if b = 0 then 10 else b

def swap : Bytes → Bytes := List.map swapByte

def EOL.swap : EOL → EOL
  | .newline => .zero
  | .zero => .newline

/-- no LF and no NUL in the text -/
def NoLfNul (x : Bytes) : Prop := ∀ b ∈ x, b ≠ 10 ∧ b ≠ 0

instance (x : Bytes) : Decidable (NoLfNul x) := by unfold NoLfNul; infer_instance

def Run.mapOut (f : Bytes → Bytes) (r : Run) : Run := ⟨f r.out, r.status⟩

theorem swapByte_swapByte (b : UInt8) : swapByte (swapByte b) = b := by
  unfold swapByte
  by_cases h1 : b = 10
  · subst h1; decide
  · by_cases h2 : b = 0
    · subst h2; decide
    · simp [h1, h2]

theorem swapByte_injective : Function.Injective swapByte := by
  intro a b h
  have := congrArg swapByte h
  simpa [swapByte_swapByte] using this

theorem swap_swap (x : Bytes) : swap (swap x) = x := by
  simp [swap, List.map_map, Function.comp_def, swapByte_swapByte]

theorem EOL.swap_swap (e : EOL) : e.swap.swap = e := by cases e <;> rfl

theorem EOL.swap_byte (e : EOL) : e.swap.byte = swapByte e.byte := by cases e <;> decide

theorem swapByte_of_ne {b : UInt8} (h1 : b ≠ 10) (h2 : b ≠ 0) : swapByte b = b := by
  simp [swapByte, h1, h2]

theorem swap_of_noLfNul {x : Bytes} (h : NoLfNul x) : swap x = x := by
  induction x with
  | nil => rfl
  | cons b t ih =>
    have hb := h b (by simp)
    have ht : NoLfNul t := fun c hc => h c (by simp [hc])
    simp only [swap, List.map_cons] at ih ⊢
    rw [ih ht, swapByte_of_ne hb.1 hb.2]

theorem swap_append (x y : Bytes) : swap (x ++ y) = swap x ++ swap y := by simp [swap]

theorem swap_length (x : Bytes) : (swap x).length = x.length := by simp [swap]

/-! ### `Run.mapOut` -/

section mapOut
variable (σ : UInt8 → UInt8)

@[simp] theorem Run.mapOut_ok (f : Bytes → Bytes) (w : Bytes) : (Run.ok w).mapOut f = Run.ok (f w) := rfl
@[simp] theorem Run.mapOut_empty : Run.empty.mapOut (List.map σ) = Run.empty := rfl
@[simp] theorem Run.mapOut_fail : Run.fail.mapOut (List.map σ) = Run.fail := rfl
@[simp] theorem Run.mapOut_panic : Run.panic.mapOut (List.map σ) = Run.panic := rfl
@[simp] theorem Run.mapOut_hang : Run.hang.mapOut (List.map σ) = Run.hang := rfl

theorem Run.mapOut_seq (a b : Run) :
    (a.seq b).mapOut (List.map σ) = (a.mapOut (List.map σ)).seq (b.mapOut (List.map σ)) := by
  obtain ⟨ao, as⟩ := a
  cases as <;> simp [Run.seq, Run.mapOut]

theorem Run.mapOut_pre (w : Bytes) (r : Run) :
    (Run.pre w r).mapOut (List.map σ) = Run.pre (w.map σ) (r.mapOut (List.map σ)) := by
  simp [Run.pre, Run.mapOut]

end mapOut

/-! ## 3. The record reader -/

theorem records_swap (eol : UInt8) (input : Bytes) :
    records (swapByte eol) (swap input) = (records eol input).map swap :=
  records_map swapByte_injective eol input

/-! ## 4. The general field engine (`read_and_cut_str`) -/

section general
variable {σ : UInt8 → UInt8}

/-- the literal text carried by a bound or filler is fixed by `σ` -/
def BoFFixed (σ : UInt8 → UInt8) : BoF → Prop
  | .filler f => f.map σ = f
  | .bound b => ∀ f, b.fallback = some f → f.map σ = f

/-- the options with the delimiter renamed by `σ` and the terminator replaced -/
@[reducible] def Opt.mapLit (σ : UInt8 → UInt8) (e : EOL) (o : Opt) : Opt :=
  { o with delimiter := o.delimiter.map σ, eol := e }

section mapLitProj
variable (σ : UInt8 → UInt8) (e : EOL) (o : Opt)
theorem Opt.mapLit_delimiter : (o.mapLit σ e).delimiter = o.delimiter.map σ := rfl
theorem Opt.mapLit_eol : (o.mapLit σ e).eol = e := rfl
theorem Opt.mapLit_bounds : (o.mapLit σ e).bounds = o.bounds := rfl
theorem Opt.mapLit_boundsType : (o.mapLit σ e).boundsType = o.boundsType := rfl
theorem Opt.mapLit_onlyDelimited : (o.mapLit σ e).onlyDelimited = o.onlyDelimited := rfl
theorem Opt.mapLit_greedyDelimiter : (o.mapLit σ e).greedyDelimiter = o.greedyDelimiter := rfl
theorem Opt.mapLit_compressDelimiter : (o.mapLit σ e).compressDelimiter = o.compressDelimiter := rfl
theorem Opt.mapLit_replaceDelimiter : (o.mapLit σ e).replaceDelimiter = o.replaceDelimiter := rfl
theorem Opt.mapLit_trim : (o.mapLit σ e).trim = o.trim := rfl
theorem Opt.mapLit_complement : (o.mapLit σ e).complement = o.complement := rfl
theorem Opt.mapLit_join : (o.mapLit σ e).join = o.join := rfl
theorem Opt.mapLit_json : (o.mapLit σ e).json = o.json := rfl
theorem Opt.mapLit_fallbackOob : (o.mapLit σ e).fallbackOob = o.fallbackOob := rfl
theorem Opt.mapLit_regexBag : (o.mapLit σ e).regexBag = o.regexBag := rfl
end mapLitProj

/-- `simp only` with the projections of `Opt.mapLit` -/
macro "simp_mapLit" "[" args:Lean.Parser.Tactic.simpLemma,* "]" : tactic =>
  `(tactic| simp only [Opt.mapLit_delimiter, Opt.mapLit_eol, Opt.mapLit_bounds,
    Opt.mapLit_boundsType, Opt.mapLit_onlyDelimited, Opt.mapLit_greedyDelimiter,
    Opt.mapLit_compressDelimiter, Opt.mapLit_replaceDelimiter, Opt.mapLit_trim,
    Opt.mapLit_complement, Opt.mapLit_join, Opt.mapLit_json, Opt.mapLit_fallbackOob,
    Opt.mapLit_regexBag, $args,*])

/-- every literal text of the options other than the delimiter is fixed by `σ`, the regex (if
    any) finds the same matches in a text and in its `σ`-image, and `--json` is off -/
structure OptFixed (σ : UInt8 → UInt8) (o : Opt) : Prop where
  replace : ∀ r, o.replaceDelimiter = some r → r.map σ = r
  fallbackOob : ∀ f, o.fallbackOob = some f → f.map σ = f
  bounds : ∀ b ∈ o.bounds.list, BoFFixed σ b
  regex : ∀ bag, o.regexBag = some bag →
    ∀ l : Bytes, bag.normal (l.map σ) = bag.normal l ∧ bag.greedy (l.map σ) = bag.greedy l
  noJson : o.json = false

theorem maybeReplaceDelimiter_map (hσ : Function.Injective σ) {o : Opt} (ho : OptFixed σ o)
    (e : EOL) (text : Bytes) (c : Bool) :
    maybeReplaceDelimiter (text.map σ) (o.mapLit σ e) c =
      (maybeReplaceDelimiter text o c).map σ := by
  unfold maybeReplaceDelimiter
  simp_mapLit []
  by_cases hc : o.boundsType = .characters
  · simp only [hc, if_true]
  · simp only [hc, if_false]
    cases h : o.replaceDelimiter with
    | none => rfl
    | some nd =>
      cases hb : o.regexBag with
      | none =>
        have := replaceAll_map hσ text o.delimiter nd
        rw [ho.replace nd h] at this
        simpa using this
      | some bag =>
        simp only
        cases c with
        | true => rfl
        | false =>
          have := replaceMatches_map σ text nd (bag.normal text) 0
          rw [ho.replace nd h] at this
          simp only [Bool.false_eq_true, if_false, (ho.regex bag hb text).1, this]

theorem joiner_fixed {o : Opt} (ho : OptFixed σ o) :
    (o.replaceDelimiter.getD o.delimiter).map σ = o.replaceDelimiter.getD (o.delimiter.map σ) := by
  cases h : o.replaceDelimiter with
  | none => simp
  | some r => simpa using ho.replace r h

theorem outputBof_map (hσ : Function.Injective σ) {o : Opt} (ho : OptFixed σ o) (e : EOL)
    (line : Bytes) (fields : List Range) (n : Nat) (c : Bool) (bof : BoF) (hb : BoFFixed σ bof) :
    outputBof (line.map σ) fields n (o.mapLit σ e) c bof =
      (outputBof line fields n o c bof).mapOut (List.map σ) := by
  cases bof with
  | filler f => simp only [outputBof, Run.mapOut_ok]; rw [show f.map σ = f from hb]
  | bound b =>
    have hj : ∀ x : Bool,
        (if x then Run.ok (o.replaceDelimiter.getD (o.delimiter.map σ)) else Run.empty) =
        (if x then Run.ok (o.replaceDelimiter.getD o.delimiter) else Run.empty).mapOut (List.map σ) := by
      intro x; cases x
      · rfl
      · simp [joiner_fixed ho]
    simp_mapLit [outputBof, ho.noJson, writeMaybeAsJson, List.length_map]
    split
    · split
      · split
        · rw [Run.mapOut_seq, ← hj, slice_map, maybeReplaceDelimiter_map hσ ho e]
          simp
        · rfl
      · rfl
    · cases hfb : b.fallback with
      | some f =>
        simp only [Bool.false_eq_true, if_false]
        rw [Run.mapOut_seq, ← hj, Run.mapOut_ok, hb f hfb]
      | none =>
        cases hoob : o.fallbackOob with
        | some f =>
          simp only [Bool.false_eq_true, if_false]
          rw [Run.mapOut_seq, ← hj, Run.mapOut_ok, ho.fallbackOob f hoob]
        | none => rfl

theorem outputLoop_map (hσ : Function.Injective σ) {o : Opt} (ho : OptFixed σ o) (e : EOL)
    (line : Bytes) (fields : List Range) (n : Nat) (c : Bool) :
    ∀ (l : List BoF), (∀ b ∈ l, BoFFixed σ b) →
      outputLoop (line.map σ) fields n (o.mapLit σ e) c l =
        (outputLoop line fields n o c l).mapOut (List.map σ)
  | [], _ => rfl
  | bof :: t, h => by
    simp only [outputLoop]
    rw [Run.mapOut_seq, outputBof_map hσ ho e _ _ _ _ _ (h bof (by simp)),
      outputLoop_map hσ ho e line fields n c t (fun b hb => h b (by simp [hb]))]

theorem markLast_fixed : ∀ (l l' : List BoF), markLast l = some l' →
    (∀ b ∈ l, BoFFixed σ b) → ∀ b ∈ l', BoFFixed σ b
  | [], _, h, _ => by simp [markLast] at h
  | .filler f :: t, l', h, hl => by
    simp only [markLast, Option.map_eq_some_iff] at h
    obtain ⟨t', ht', rfl⟩ := h
    intro b hb
    rcases List.mem_cons.mp hb with rfl | hb
    · exact hl _ (by simp)
    · exact markLast_fixed t t' ht' (fun b hb => hl b (by simp [hb])) b hb
  | .bound u :: t, l', h, hl => by
    simp only [markLast] at h
    cases ht : markLast t with
    | some t' =>
      rw [ht] at h
      simp only [Option.some.injEq] at h
      subst h
      intro b hb
      rcases List.mem_cons.mp hb with rfl | hb
      · exact hl _ (by simp)
      · exact markLast_fixed t t' ht (fun b hb => hl b (by simp [hb])) b hb
    | none =>
      rw [ht] at h
      simp only [Option.some.injEq] at h
      subst h
      intro b hb
      rcases List.mem_cons.mp hb with rfl | hb
      · exact hl (.bound u) (by simp)
      · exact hl b (by simp [hb])

theorem fromVec_fixed (l : List BoF) (bl : UserBoundsList) (h : fromVec l = .ok bl)
    (hl : ∀ b ∈ l, BoFFixed σ b) : ∀ b ∈ bl.list, BoFFixed σ b := by
  unfold fromVec at h
  cases hm : markLast l with
  | none => simp [hm] at h
  | some l' =>
    simp only [hm, Res.ok.injEq] at h
    subst h
    exact markLast_fixed l l' hm hl

theorem complementBof_fixed (n : Nat) (b : BoF) (hb : BoFFixed σ b) :
    ∀ x ∈ complementBof n b, BoFFixed σ x := by
  cases b with
  | filler f => simpa [complementBof] using hb
  | bound u =>
    simp only [complementBof]
    cases hc : u.complement n with
    | none =>
      intro x hx
      simp only [List.mem_singleton] at hx
      subst hx
      exact hb
    | some bs =>
      intro x hx
      simp only [List.mem_map] at hx
      obtain ⟨y, hy, rfl⟩ := hx
      simp only [UserBounds.complement, Option.map_eq_some_iff] at hc
      obtain ⟨r, _, rfl⟩ := hc
      simp only [List.mem_map] at hy
      obtain ⟨q, _, rfl⟩ := hy
      intro f hf
      simp [UserBounds.ofRange] at hf

theorem complementList_fixed (l : List BoF) (n : Nat) (bl : UserBoundsList)
    (h : complementList l n = .ok bl) (hl : ∀ b ∈ l, BoFFixed σ b) :
    ∀ b ∈ bl.list, BoFFixed σ b := by
  unfold complementList at h
  simp only at h
  split at h
  · cases h
  · refine fromVec_fixed _ bl h ?_
    intro b hb
    simp only [List.mem_flatMap] at hb
    obtain ⟨a, ha, hb⟩ := hb
    exact complementBof_fixed n a (hl a ha) b hb

theorem unpackBof_fixed (n : Nat) (b : BoF) (hb : BoFFixed σ b) :
    ∀ x ∈ unpackBof n b, BoFFixed σ x := by
  cases b with
  | filler f => simpa [unpackBof] using hb
  | bound u =>
    simp only [unpackBof, UserBounds.unpack]
    cases u.tryIntoRange n with
    | none =>
      intro x hx
      simp only [List.map_cons, List.map_nil, List.mem_singleton] at hx
      subst hx
      exact hb
    | some r =>
      intro x hx
      simp only [List.mem_map] at hx
      obtain ⟨y, hy, rfl⟩ := hx
      obtain ⟨i, _, rfl⟩ := hy
      intro f hf
      simp [UserBounds.single] at hf

theorem unpackList_fixed (l : List BoF) (n : Nat) (bl : UserBoundsList)
    (h : unpackList l n = .ok bl) (hl : ∀ b ∈ l, BoFFixed σ b) :
    ∀ b ∈ bl.list, BoFFixed σ b := by
  unfold unpackList at h
  refine fromVec_fixed _ bl h ?_
  intro b hb
  simp only [List.mem_flatMap] at hb
  obtain ⟨a, ha, hb⟩ := hb
  exact unpackBof_fixed n a (hl a ha) b hb

theorem emitRecord_map (hσ : Function.Injective σ) {o : Opt} (ho : OptFixed σ o) (e : EOL)
    (line : Bytes) (fields : List Range) (c : Bool) (eol : Bytes) :
    emitRecord (line.map σ) fields (o.mapLit σ e) c (eol.map σ) =
      (emitRecord line fields o c eol).mapOut (List.map σ) := by
  simp_mapLit [emitRecord, ho.noJson, Bool.false_or, Bool.false_eq_true,
    if_false, Run.empty_seq, Run.seq_empty]
  by_cases h1 : (o.onlyDelimited && fields.length == 1) = true
  · simp only [h1, if_true]; rfl
  · simp only [h1, Bool.false_eq_true, if_false]
    generalize hbl : (if o.complement = true then complementList o.bounds.list fields.length
      else Res.ok o.bounds) = r
    cases r with
    | fail => rfl
    | panic => rfl
    | ok bl =>
      simp only
      have hbl' : ∀ b ∈ bl.list, BoFFixed σ b := by
        split at hbl
        · exact complementList_fixed _ _ _ hbl ho.bounds
        · cases hbl; exact ho.bounds
      generalize hbl2 : (if (decide (o.boundsType = BoundsType.characters) &&
          o.replaceDelimiter.isSome && bl.list.any needsUnpack) = true then
          unpackList bl.list fields.length else Res.ok bl) = r2
      cases r2 with
      | fail => rfl
      | panic => rfl
      | ok bl2 =>
        simp only
        rw [Run.mapOut_seq, Run.mapOut_ok]
        congr 1
        refine outputLoop_map hσ ho e line fields _ c bl2.list ?_
        split at hbl2
        · exact unpackList_fixed _ _ _ hbl2 hbl'
        · cases hbl2; exact hbl'

/-! `cut_str` cut into its stages (same text as the model, only named) -/

/-- the `trim` step -/
def trimStage (line : Bytes) (opt : Opt) : Bytes :=
  match opt.trim with
  | some kind =>
    match opt.regexBag with
    | some bag => trimRegex line kind (bag.greedy line)
    | none => trimLiteral line kind opt.delimiter
  | none => line

/-- the `compress` step: (line, delimiter, build ranges with the regex?, compressed_line_buf,
    compressed with regex?) -/
def compressStage (line : Bytes) (opt : Opt) : Option (Bytes × Bytes × Bool × Option Bytes × Bool) :=
  if opt.compressDelimiter && (opt.boundsType = .fields || opt.boundsType = .lines) then
    match opt.regexBag with
    | some bag =>
      match opt.replaceDelimiter with
      | some nd => some (replaceMatches line nd 0 (bag.greedy line), nd, false, none, true)
      | none => none
    | none =>
      let c := compressDelimiter line opt.delimiter []
      some (c, opt.delimiter, false, some c, false)
  else some (line, opt.delimiter, opt.regexBag.isSome, none, false)

/-- the split step (and the `pop`/`drain` of character mode) -/
def fieldsStage (line delimiter : Bytes) (useRegex : Bool) (opt : Opt) : List Range :=
  let fields : List Range :=
    match useRegex, opt.regexBag with
    | true, some bag =>
      fillWithFieldsLocationsUsingRegex [] line
        ((if opt.greedyDelimiter then bag.greedy else bag.normal) line)
    | _, _ =>
      if opt.greedyDelimiter then fillWithFieldsLocationsGreedy [] line delimiter
      else fillWithFieldsLocations [] line delimiter
  if opt.boundsType = .characters && fields.length > 2 then fields.dropLast.drop 1 else fields

/-- everything after the trim step -/
def cutTail (line : Bytes) (opt : Opt) (eol : Bytes) : Run × Option (List Range) × Option Bytes :=
  if line.isEmpty then ((if !opt.onlyDelimited then Run.ok eol else Run.empty), none, none)
  else
    match compressStage line opt with
    | none => (Run.panic, none, none)
    | some (line, delimiter, useRegex, buf, compressedWithRegex) =>
      let fields := fieldsStage line delimiter useRegex opt
      (emitRecord line fields opt compressedWithRegex eol, some fields, buf)

theorem cutStrCore_eq_stages (line : Bytes) (opt : Opt) (eol : Bytes) :
    cutStrCore line opt eol =
      if opt.regexBag.isSome && opt.compressDelimiter && opt.replaceDelimiter.isNone then
        (Run.fail, none, none)
      else if opt.regexBag.isSome && opt.join && opt.replaceDelimiter.isNone then
        (Run.fail, none, none)
      else cutTail (trimStage line opt) opt eol := rfl

theorem trimStage_map (hσ : Function.Injective σ) {o : Opt} (ho : OptFixed σ o) (e : EOL)
    (line : Bytes) : trimStage (line.map σ) (o.mapLit σ e) = (trimStage line o).map σ := by
  unfold trimStage
  simp_mapLit []
  cases o.trim with
  | none => rfl
  | some k =>
    cases hb : o.regexBag with
    | none => exact trimLiteral_map hσ line k o.delimiter
    | some bag =>
      simp only
      rw [(ho.regex bag hb line).2, trimRegex_map]

theorem compressStage_map (hσ : Function.Injective σ) {o : Opt} (ho : OptFixed σ o) (e : EOL)
    (line : Bytes) :
    compressStage (line.map σ) (o.mapLit σ e) =
      (compressStage line o).map fun p =>
        (p.1.map σ, p.2.1.map σ, p.2.2.1, p.2.2.2.1.map (List.map σ), p.2.2.2.2) := by
  unfold compressStage
  simp_mapLit []
  split
  · cases hb : o.regexBag with
    | none => simp only [Option.map_some, compressDelimiter_map hσ line o.delimiter [] []]
    | some bag =>
      cases hr : o.replaceDelimiter with
      | none => rfl
      | some nd =>
        have := replaceMatches_map σ line nd (bag.greedy line) 0
        rw [ho.replace nd hr] at this
        simp only [Option.map_some, (ho.regex bag hb line).2, this, ho.replace nd hr,
          Option.map_none]
  · simp only [Option.map_some, Option.map_none]

theorem fieldsStage_map (hσ : Function.Injective σ) {o : Opt} (ho : OptFixed σ o) (e : EOL)
    (line d : Bytes) (u : Bool) :
    fieldsStage (line.map σ) (d.map σ) u (o.mapLit σ e) = fieldsStage line d u o := by
  unfold fieldsStage
  simp_mapLit []
  cases hb : o.regexBag with
  | none =>
    simp only [fillWithFieldsLocationsGreedy_map hσ, fillWithFieldsLocations_map hσ]
  | some bag =>
    cases u with
    | false => simp only [fillWithFieldsLocationsGreedy_map hσ, fillWithFieldsLocations_map hσ]
    | true =>
      have : (if o.greedyDelimiter = true then bag.greedy else bag.normal) (line.map σ) =
          (if o.greedyDelimiter = true then bag.greedy else bag.normal) line := by
        split
        · exact (ho.regex bag hb line).2
        · exact (ho.regex bag hb line).1
      simp only [this, fillWithFieldsLocationsUsingRegex_map]

theorem cutTail_map (hσ : Function.Injective σ) {o : Opt} (ho : OptFixed σ o) (e : EOL)
    (line eol : Bytes) :
    cutTail (line.map σ) (o.mapLit σ e) (eol.map σ) =
      ((cutTail line o eol).1.mapOut (List.map σ), (cutTail line o eol).2.1,
        (cutTail line o eol).2.2.map (List.map σ)) := by
  unfold cutTail
  rw [compressStage_map hσ ho]
  simp only [List.isEmpty_map]
  split
  · rw [Opt.mapLit_onlyDelimited]
    split <;> rfl
  · cases compressStage line o with
    | none => rfl
    | some p =>
      obtain ⟨l, d, u, b, c⟩ := p
      simp only [Option.map_some, fieldsStage_map hσ ho, emitRecord_map hσ ho]

theorem cutStrCore_map (hσ : Function.Injective σ) {o : Opt} (ho : OptFixed σ o) (e : EOL)
    (line eol : Bytes) :
    cutStrCore (line.map σ) (o.mapLit σ e) (eol.map σ) =
      ((cutStrCore line o eol).1.mapOut (List.map σ), (cutStrCore line o eol).2.1,
        (cutStrCore line o eol).2.2.map (List.map σ)) := by
  rw [cutStrCore_eq_stages, cutStrCore_eq_stages, trimStage_map hσ ho, cutTail_map hσ ho]
  simp_mapLit []
  split
  · rfl
  · split <;> rfl

end general

/-! ### the record loop -/

/-- `-z` given / not given -/
def Opt.swapped (o : Opt) : Opt := { o with eol := o.eol.swap }

/-- `-z` given / not given, and LF and NUL exchanged in the delimiter (`-l`: the delimiter *is*
    the terminator) -/
def Opt.swappedAll (o : Opt) : Opt := { o with eol := o.eol.swap, delimiter := swap o.delimiter }

/-- the domain of C11 for the general engine, delimiter apart -/
structure NoLfNulLits (o : Opt) : Prop where
  replace : ∀ r, o.replaceDelimiter = some r → NoLfNul r
  fallbackOob : ∀ f, o.fallbackOob = some f → NoLfNul f
  fillers : ∀ f, BoF.filler f ∈ o.bounds.list → NoLfNul f
  fallbacks : ∀ b f, BoF.bound b ∈ o.bounds.list → b.fallback = some f → NoLfNul f
  regex : ∀ bag, o.regexBag = some bag →
    ∀ l : Bytes, bag.normal (swap l) = bag.normal l ∧ bag.greedy (swap l) = bag.greedy l
  noJson : o.json = false

/-- the domain of C11 for the general engine (field mode, literal delimiter) -/
structure NoLfNulOpt (o : Opt) : Prop where
  delimiter : NoLfNul o.delimiter
  replace : ∀ r, o.replaceDelimiter = some r → NoLfNul r
  fallbackOob : ∀ f, o.fallbackOob = some f → NoLfNul f
  fillers : ∀ f, BoF.filler f ∈ o.bounds.list → NoLfNul f
  fallbacks : ∀ b f, BoF.bound b ∈ o.bounds.list → b.fallback = some f → NoLfNul f
  noRegex : o.regexBag = none
  noJson : o.json = false
  notChars : o.boundsType ≠ .characters

theorem NoLfNulOpt.lits {o : Opt} (h : NoLfNulOpt o) : NoLfNulLits o where
  replace := h.replace
  fallbackOob := h.fallbackOob
  fillers := h.fillers
  fallbacks := h.fallbacks
  regex := by intro bag hb; rw [h.noRegex] at hb; cases hb
  noJson := h.noJson

theorem NoLfNulLits.fixed {o : Opt} (h : NoLfNulLits o) : OptFixed swapByte o where
  replace := fun r hr => swap_of_noLfNul (h.replace r hr)
  fallbackOob := fun f hf => swap_of_noLfNul (h.fallbackOob f hf)
  bounds := by
    intro b hb
    cases b with
    | filler f => exact swap_of_noLfNul (h.fillers f hb)
    | bound u => exact fun f hf => swap_of_noLfNul (h.fallbacks u f hb hf)
  regex := h.regex
  noJson := h.noJson

theorem Opt.swappedAll_eq (o : Opt) : o.swappedAll = o.mapLit swapByte o.eol.swap := rfl

theorem Opt.swappedAll_eq_swapped {o : Opt} (h : NoLfNul o.delimiter) : o.swappedAll = o.swapped := by
  simp only [Opt.swappedAll, Opt.swapped, swap_of_noLfNul h]

/-- one record (`cut_str` with the terminator of the options) -/
theorem cutStr_swap {o : Opt} (h : NoLfNulLits o) (r : Bytes) (f f' : List Range) (b b' : Bytes) :
    (cutStr (swap r) o.swappedAll f b [o.swappedAll.eol.byte]).1 =
      (cutStr r o f' b' [o.eol.byte]).1.mapOut swap := by
  have hc := cutStrCore_map swapByte_injective h.fixed o.eol.swap r [o.eol.byte]
  simp only [List.map_cons, List.map_nil, ← EOL.swap_byte] at hc
  simp only [cutStr, Opt.swappedAll_eq]
  exact congrArg (·.1) hc

theorem cutRecords_swap {o : Opt} (h : NoLfNulLits o) :
    ∀ (recs : List Bytes) (f f' : List Range) (b b' : Bytes),
      cutRecords o.swappedAll (recs.map swap) f b = (cutRecords o recs f' b').mapOut swap
  | [], _, _, _, _ => rfl
  | r :: t, f, f', b, b' => by
    have hc := cutStr_swap h r f f' b b'
    simp only [List.map_cons, cutRecords]
    rw [hc]
    simp only [swap, Run.mapOut_seq]
    congr 1
    exact cutRecords_swap h t _ _ _ _

/-- **C11, general engine**, in the form that also exchanges LF and NUL inside the delimiter (no
    condition on the delimiter; the regex, if any, must not tell LF from NUL). -/
theorem readAndCutStr_swapAll {o : Opt} (h : NoLfNulLits o) (input : Bytes) :
    readAndCutStr o.swappedAll (swap input) = (readAndCutStr o input).mapOut swap := by
  unfold readAndCutStr
  have : o.swappedAll.eol.byte = swapByte o.eol.byte := EOL.swap_byte o.eol
  rw [this, records_swap]
  exact cutRecords_swap h _ _ _ _ _

/-- **C11, general engine.** -/
theorem readAndCutStr_swap {o : Opt} (h : NoLfNulOpt o) (input : Bytes) :
    readAndCutStr o.swapped (swap input) = (readAndCutStr o input).mapOut swap := by
  rw [← Opt.swappedAll_eq_swapped h.delimiter]
  exact readAndCutStr_swapAll h.lits input

/-! ## 5. The fast lane (`read_and_cut_text_as_bytes`) -/

section fast
variable {σ : UInt8 → UInt8}

theorem dropWhileEq_map (hσ : Function.Injective σ) (d : UInt8) :
    ∀ l : Bytes, dropWhileEq (σ d) (l.map σ) = (dropWhileEq d l).map σ
  | [] => rfl
  | c :: t => by
    simp only [List.map_cons, dropWhileEq]
    by_cases h : c = d
    · subst h; simp [dropWhileEq_map hσ c t]
    · have h' : σ c ≠ σ d := fun e => h (hσ e)
      simp [h, h']

theorem fastTrim_map (hσ : Function.Injective σ) (l : Bytes) (k : Trim) (d : UInt8) :
    fastTrim (l.map σ) k (σ d) = (fastTrim l k d).map σ := by
  cases k <;> simp only [fastTrim, dropWhileEq_map hσ, ← List.map_reverse]

theorem fastScan_map (hσ : Function.Injective σ) (d : UInt8) (lif : Side) :
    ∀ (l : Bytes) (pos : Nat) (curr : Int),
      fastScan (σ d) lif pos curr (l.map σ) = fastScan d lif pos curr l
  | [], _, _ => rfl
  | c :: t, pos, curr => by
    simp only [List.map_cons, fastScan]
    by_cases h : c = d
    · subst h; simp [fastScan_map hσ c lif t]
    · have h' : σ c ≠ σ d := fun e => h (hσ e)
      simp [h, h', fastScan_map hσ d lif t]

/-- every literal text of the fast-lane options is fixed by `σ` -/
structure FastFixed (σ : UInt8 → UInt8) (o : FastOpt) : Prop where
  delimiter : σ o.delimiter = o.delimiter
  fallbackOob : ∀ f, o.fallbackOob = some f → f.map σ = f
  bounds : ∀ b ∈ o.bounds.list, BoFFixed σ b

theorem outputParts_map {o : FastOpt} (ho : FastFixed σ o) (e : EOL) (line : Bytes)
    (b : UserBounds) (hb : BoFFixed σ (.bound b)) (fields : List Nat) :
    outputParts (line.map σ) b fields { o with eol := e } =
      (outputParts line b fields o).mapOut (List.map σ) := by
  have hj : ∀ x : Bool, (if x then Run.ok [o.delimiter] else Run.empty) =
      (if x then Run.ok [o.delimiter] else Run.empty).mapOut (List.map σ) := by
    intro x; cases x
    · rfl
    · simp [ho.delimiter]
  simp only [outputParts, List.length_map]
  split
  · rfl
  · split
    · split
      · split
        · rw [Run.mapOut_seq, ← hj, slice_map]; rfl
        · rfl
      · rfl
    · cases hfb : b.fallback with
      | some f =>
        simp only
        rw [Run.mapOut_seq, ← hj, Run.mapOut_ok, hb f hfb]
      | none =>
        cases hoob : o.fallbackOob with
        | some f =>
          simp only
          rw [Run.mapOut_seq, ← hj, Run.mapOut_ok, ho.fallbackOob f hoob]
        | none => rfl

theorem fastOutputLoop_map {o : FastOpt} (ho : FastFixed σ o) (e : EOL) (line : Bytes)
    (fields : List Nat) :
    ∀ l : List BoF, (∀ b ∈ l, BoFFixed σ b) →
      fastOutputLoop (line.map σ) fields { o with eol := e } l =
        (fastOutputLoop line fields o l).mapOut (List.map σ)
  | [], _ => rfl
  | .filler f :: t, h => by
    simp only [fastOutputLoop]
    rw [Run.mapOut_seq, Run.mapOut_ok, show f.map σ = f from h (.filler f) (by simp),
      fastOutputLoop_map ho e line fields t (fun b hb => h b (by simp [hb]))]
  | .bound b :: t, h => by
    simp only [fastOutputLoop]
    rw [Run.mapOut_seq, outputParts_map ho e line b (h (.bound b) (by simp)),
      fastOutputLoop_map ho e line fields t (fun b hb => h b (by simp [hb]))]

/-- the `trim` step of `cut_str_fast_lane` -/
def fastTrimOpt (buf : Bytes) (o : FastOpt) : Bytes :=
  match o.trim with
  | some k => fastTrim buf k o.delimiter
  | none => buf

/-- `cut_str_fast_lane` after the trim step -/
def fastTail (buffer : Bytes) (opt : FastOpt) (lastInterestingField : Side) :
    Run × Option (List Nat) :=
  if buffer.isEmpty then
    ((if !opt.onlyDelimited then Run.ok [opt.eol.byte] else Run.empty), none)
  else
    let (pushed, currField) := fastScan opt.delimiter lastInterestingField 0 0 buffer
    let fields := 0 :: pushed
    if currField == 0 && opt.onlyDelimited then (Run.empty, some fields)
    else
      let fields :=
        if Side.some currField ≠ lastInterestingField then fields ++ [buffer.length + 1] else fields
      ((fastOutputLoop buffer fields opt opt.bounds.list).seq (Run.ok [opt.eol.byte]), some fields)

theorem cutStrFastLaneCore_eq_fastTail (buf : Bytes) (o : FastOpt) (lif : Side) :
    cutStrFastLaneCore buf o lif = fastTail (fastTrimOpt buf o) o lif := rfl

theorem fastTrimOpt_map (hσ : Function.Injective σ) {o : FastOpt} (ho : FastFixed σ o) (e : EOL)
    (buf : Bytes) : fastTrimOpt (buf.map σ) { o with eol := e } = (fastTrimOpt buf o).map σ := by
  unfold fastTrimOpt
  cases h : o.trim with
  | none => simp only
  | some k =>
    simp only
    have := fastTrim_map hσ buf k o.delimiter
    rw [ho.delimiter] at this
    exact this

theorem fastTail_map (hσ : Function.Injective σ) {o : FastOpt} (ho : FastFixed σ o)
    (e : EOL) (he : e.byte = σ o.eol.byte) (ln : Bytes) (lif : Side) :
    fastTail (ln.map σ) { o with eol := e } lif =
      ((fastTail ln o lif).1.mapOut (List.map σ), (fastTail ln o lif).2) := by
  have hscan : fastScan o.delimiter lif 0 0 (ln.map σ) = fastScan o.delimiter lif 0 0 ln := by
    have := fastScan_map hσ o.delimiter lif ln 0 0
    rwa [ho.delimiter] at this
  unfold fastTail
  simp only [List.isEmpty_map, he, hscan, List.length_map]
  split
  · split <;> rfl
  · split
    · rfl
    · simp only [fastOutputLoop_map ho e ln _ _ ho.bounds, Run.mapOut_seq, Run.mapOut_ok,
        List.map_cons, List.map_nil]

theorem cutStrFastLaneCore_map (hσ : Function.Injective σ) {o : FastOpt} (ho : FastFixed σ o)
    (e : EOL) (he : e.byte = σ o.eol.byte) (buf : Bytes) (lif : Side) :
    cutStrFastLaneCore (buf.map σ) { o with eol := e } lif =
      ((cutStrFastLaneCore buf o lif).1.mapOut (List.map σ), (cutStrFastLaneCore buf o lif).2) := by
  rw [cutStrFastLaneCore_eq_fastTail, cutStrFastLaneCore_eq_fastTail, fastTrimOpt_map hσ ho,
    fastTail_map hσ ho e he]

end fast

def FastOpt.swapped (o : FastOpt) : FastOpt := { o with eol := o.eol.swap }

/-- the domain of C11 for the fast lane -/
structure NoLfNulFast (o : FastOpt) : Prop where
  delimiter : o.delimiter ≠ 10 ∧ o.delimiter ≠ 0
  fallbackOob : ∀ f, o.fallbackOob = some f → NoLfNul f
  fillers : ∀ f, BoF.filler f ∈ o.bounds.list → NoLfNul f
  fallbacks : ∀ b f, BoF.bound b ∈ o.bounds.list → b.fallback = some f → NoLfNul f

theorem NoLfNulFast.fixed {o : FastOpt} (h : NoLfNulFast o) : FastFixed swapByte o where
  delimiter := swapByte_of_ne h.delimiter.1 h.delimiter.2
  fallbackOob := fun f hf => swap_of_noLfNul (h.fallbackOob f hf)
  bounds := by
    intro b hb
    cases b with
    | filler f => exact swap_of_noLfNul (h.fillers f hb)
    | bound u => exact fun f hf => swap_of_noLfNul (h.fallbacks u f hb hf)

theorem fastRecords_swap {o : FastOpt} (h : NoLfNulFast o) (lif : Side) :
    ∀ (recs : List Bytes) (f f' : List Nat),
      fastRecords o.swapped lif (recs.map swap) f = (fastRecords o lif recs f').mapOut swap
  | [], _, _ => rfl
  | r :: t, f, f' => by
    have hc := cutStrFastLaneCore_map swapByte_injective h.fixed o.eol.swap (EOL.swap_byte o.eol) r lif
    simp only [List.map_cons, fastRecords, cutStrFastLane, FastOpt.swapped]
    rw [show swap r = r.map swapByte from rfl, hc]
    simp only [swap, Run.mapOut_seq]
    congr 1
    exact fastRecords_swap h lif t _ _

/-- **C11, fast lane.** -/
theorem readAndCutFast_swap {o : FastOpt} (h : NoLfNulFast o) (input : Bytes) :
    readAndCutFast o.swapped (swap input) = (readAndCutFast o input).mapOut swap := by
  unfold readAndCutFast
  have : o.swapped.eol.byte = swapByte o.eol.byte := EOL.swap_byte o.eol
  rw [this, records_swap]
  exact fastRecords_swap h _ _ _ _

/-! ## 6. The fixed-memory cutter (`-M`, `cut_bytes_stream`) -/

section stream
variable {σ : UInt8 → UInt8}

/-- every literal text of the `-M` options is fixed by `σ` -/
structure StreamFixed (σ : UInt8 → UInt8) (o : StreamOpt) : Prop where
  delimiter : σ o.delimiter = o.delimiter
  replace : ∀ r, o.replaceDelimiter = some r → σ r = r
  fallbackOob : ∀ f, o.fallbackOob = some f → f.map σ = f
  bounds : ∀ b ∈ o.bounds, BoFFixed σ b

@[reducible] def SState.map (σ : UInt8 → UInt8) (st : SState) : SState := { st with piece := st.piece.map σ }

theorem StreamFixed.joiner {o : StreamOpt} (ho : StreamFixed σ o) : σ o.joiner = o.joiner := by
  unfold StreamOpt.joiner
  cases h : o.replaceDelimiter with
  | none => simpa using ho.delimiter
  | some r => simpa using ho.replace r h

/-- first half of `print_bof`: a filler standing at `bof_idx` -/
def printBofPre (o : StreamOpt) (bofIdx : Nat) : Bytes × Nat :=
  match o.bounds[bofIdx]? with
  | some (.filler f) => (f, bofIdx + 1)
  | _ => ([], bofIdx)

/-- second half of `print_bof` -/
def printBofPost (o : StreamOpt) (w0 : Bytes) (i : Nat) (currField : Int) (trunc : Bool)
    (piece : Bytes) (fieldComplete : Bool) : Option (Bytes × Nat) :=
  match o.bounds[i]? with
  | some (.bound b) =>
    match b.matches currField with
    | none => none
    | some false => some (w0, i)
    | some true =>
      let prepend := !trunc && decide (currField > 1) && decide (b.l ≠ .some currField)
      let w1 := (if prepend then [o.joiner] else []) ++ piece
      if fieldComplete && decide (b.r = .some currField) then
        some (w0 ++ w1 ++ (if o.join && !b.isLast then [o.joiner] else []), i + 1)
      else some (w0 ++ w1, i)
  | _ => some (w0, i)

theorem printBof_eq (o : StreamOpt) (bofIdx : Nat) (currField : Int) (trunc : Bool) (piece : Bytes)
    (fc : Bool) :
    printBof o bofIdx currField trunc piece fc =
      printBofPost o (printBofPre o bofIdx).1 (printBofPre o bofIdx).2 currField trunc piece fc := rfl

theorem printBofPre_map {o : StreamOpt} (ho : StreamFixed σ o) (e : EOL) (bofIdx : Nat) :
    printBofPre { o with eol := e } bofIdx = printBofPre o bofIdx ∧
      (printBofPre o bofIdx).1.map σ = (printBofPre o bofIdx).1 := by
  refine ⟨rfl, ?_⟩
  unfold printBofPre
  split
  · rename_i f hf
    exact ho.bounds _ (List.mem_of_getElem? hf)
  · rfl

theorem printBofPost_map {o : StreamOpt} (ho : StreamFixed σ o) (e : EOL) (w0 : Bytes) (i : Nat)
    (currField : Int) (trunc : Bool) (piece : Bytes) (fc : Bool) (hw0 : w0.map σ = w0) :
    printBofPost { o with eol := e } w0 i currField trunc (piece.map σ) fc =
      (printBofPost o w0 i currField trunc piece fc).map (fun p => (p.1.map σ, p.2)) := by
  have hj : ({ o with eol := e } : StreamOpt).joiner = o.joiner := rfl
  simp only [printBofPost, hj]
  split
  · split
    · rfl
    · simp [hw0]
    · split <;> (simp only [Option.map_some, List.map_append, hw0]; congr 3 <;> split <;> simp [ho.joiner])
  · simp [hw0]

theorem printBof_map {o : StreamOpt} (ho : StreamFixed σ o) (e : EOL) (bofIdx : Nat)
    (currField : Int) (trunc : Bool) (piece : Bytes) (fc : Bool) :
    printBof { o with eol := e } bofIdx currField trunc (piece.map σ) fc =
      (printBof o bofIdx currField trunc piece fc).map (fun p => (p.1.map σ, p.2)) := by
  rw [printBof_eq, printBof_eq, (printBofPre_map ho e bofIdx).1,
    printBofPost_map ho e _ _ _ _ _ _ (printBofPre_map ho e bofIdx).2]

theorem printFillerOrFallbacks_map {o : StreamOpt} (ho : StreamFixed σ o) (e : EOL) (n : Int) :
    ∀ l : List BoF, (∀ b ∈ l, BoFFixed σ b) →
      printFillerOrFallbacks { o with eol := e } n l =
        (printFillerOrFallbacks o n l).mapOut (List.map σ)
  | [], _ => rfl
  | .filler f :: t, h => by
    simp only [printFillerOrFallbacks]
    rw [Run.mapOut_seq, Run.mapOut_ok, show f.map σ = f from h (.filler f) (by simp),
      printFillerOrFallbacks_map ho e n t (fun b hb => h b (by simp [hb]))]
  | .bound b :: t, h => by
    have ih := printFillerOrFallbacks_map ho e n t (fun b hb => h b (by simp [hb]))
    have hb : ∀ f, b.fallback = some f → f.map σ = f := h (.bound b) (by simp)
    have hj : ({ o with eol := e } : StreamOpt).joiner = o.joiner := rfl
    have hjj : (if (o.join && !b.isLast) = true then [o.joiner] else []).map σ =
        (if (o.join && !b.isLast) = true then [o.joiner] else []) := by
      split <;> simp [ho.joiner]
    simp only [printFillerOrFallbacks, hj, ih]
    split
    · rfl
    · split
      · rfl
      · cases hfb : b.fallback with
        | some f =>
          simp only
          rw [Run.mapOut_seq, Run.mapOut_ok, List.map_append, hb f hfb, hjj]
        | none =>
          cases hoob : o.fallbackOob with
          | some f =>
            simp only
            rw [Run.mapOut_seq, Run.mapOut_ok, List.map_append, ho.fallbackOob f hoob, hjj]
          | none => rfl

theorem drop_fixed {o : StreamOpt} (ho : StreamFixed σ o) (i : Nat) :
    ∀ b ∈ o.bounds.drop i, BoFFixed σ b :=
  fun b hb => ho.bounds b (List.mem_of_mem_drop hb)

theorem endOfRecord_map {o : StreamOpt} (ho : StreamFixed σ o) (e : EOL)
    (he : e.byte = σ o.eol.byte) (st : SState) :
    endOfRecord { o with eol := e } (st.map σ) = (endOfRecord o st).mapOut (List.map σ) := by
  simp only [endOfRecord, printBof_map ho, he]
  cases printBof o st.bofIdx st.currField st.trunc st.piece true with
  | none => rfl
  | some p =>
    simp only [Option.map_some, Run.mapOut_seq, Run.mapOut_ok,
      printFillerOrFallbacks_map ho e _ _ (drop_fixed ho _), List.map_cons, List.map_nil]

theorem streamStep_map (hσ : Function.Injective σ) {o : StreamOpt} (ho : StreamFixed σ o) (e : EOL)
    (he : e.byte = σ o.eol.byte) (st : SState) (c : UInt8) (last : Bool) :
    streamStep { o with eol := e } (st.map σ) (σ c) last =
      ((streamStep o st c last).1.mapOut (List.map σ), (streamStep o st c last).2.map σ) := by
  have h1 : (σ c = σ o.eol.byte) = (c = o.eol.byte) :=
    propext ⟨fun h => hσ h, fun h => h ▸ rfl⟩
  have h2 : (σ c = o.delimiter) = (c = o.delimiter) :=
    propext ⟨fun h => hσ (h.trans ho.delimiter.symm), fun h => by rw [h, ho.delimiter]⟩
  unfold streamStep
  simp only [he, h1, h2, SState.map, List.isEmpty_map, printBof_map ho]
  split
  · split <;> rfl
  · split
    · split
      · rfl
      · have := endOfRecord_map ho e he st
        simp only [SState.map] at this
        simp only [this, List.map_nil]
    · split
      · cases printBof o st.bofIdx st.currField st.trunc st.piece true with
        | none => rfl
        | some p =>
          simp only [Option.map_some]
          by_cases hl : Side.some st.currField = o.lastInterestingField
          · rw [if_pos hl, if_pos hl]
            simp only [Run.mapOut_seq, Run.mapOut_ok,
              printFillerOrFallbacks_map ho e _ _ (drop_fixed ho _), List.map_nil]
          · rw [if_neg hl, if_neg hl]
            simp only [Run.mapOut_ok, List.map_nil]
      · split
        · have := printBof_map ho e st.bofIdx st.currField st.trunc (st.piece ++ [c]) false
          simp only [List.map_append, List.map_cons, List.map_nil] at this
          simp only [this]
          cases printBof o st.bofIdx st.currField st.trunc (st.piece ++ [c]) false with
          | none => rfl
          | some p => simp only [Option.map_some, Run.mapOut_ok, List.map_nil]
        · simp only [Run.mapOut_empty, List.map_append, List.map_cons, List.map_nil]

theorem streamEof_map {o : StreamOpt} (ho : StreamFixed σ o) (e : EOL)
    (he : e.byte = σ o.eol.byte) (st : SState) :
    streamEof { o with eol := e } (st.map σ) = (streamEof o st).mapOut (List.map σ) := by
  unfold streamEof
  simp only [he, List.isEmpty_map, printBof_map ho]
  split
  · rfl
  · split
    · rfl
    · split
      · exact endOfRecord_map ho e he st
      · cases printBof o st.bofIdx st.currField st.trunc st.piece false with
        | none => rfl
        | some p =>
          simp only [Option.map_some, Run.mapOut_seq, Run.mapOut_ok]
          congr 1
          exact endOfRecord_map ho e he { st with bofIdx := p.2, trunc := true, piece := [] }

theorem streamRun_map (hσ : Function.Injective σ) {o : StreamOpt} (ho : StreamFixed σ o) (e : EOL)
    (he : e.byte = σ o.eol.byte) :
    ∀ (l : List (UInt8 × Bool)) (st : SState),
      streamRun { o with eol := e } (st.map σ) (l.map fun p => (σ p.1, p.2)) =
        (streamRun o st l).mapOut (List.map σ)
  | [], st => streamEof_map ho e he st
  | (c, last) :: t, st => by
    simp only [List.map_cons, streamRun, streamStep_map hσ ho e he, Run.mapOut_seq]
    congr 1
    exact streamRun_map hσ ho e he t _

theorem tagSegment_map (σ : UInt8 → UInt8) :
    ∀ s : Bytes, tagSegment (s.map σ) = (tagSegment s).map fun p => (σ p.1, p.2)
  | [] => rfl
  | [c] => rfl
  | c :: d :: t => by
    have := tagSegment_map σ (d :: t)
    simp only [List.map_cons] at this
    simp only [List.map_cons, tagSegment, this]

theorem tagSegments_map (σ : UInt8 → UInt8) (segs : List Bytes) :
    tagSegments (segs.map (List.map σ)) = (tagSegments segs).map fun p => (σ p.1, p.2) := by
  simp only [tagSegments, List.flatMap_map, List.map_flatMap, tagSegment_map]

end stream

def StreamOpt.swapped (o : StreamOpt) : StreamOpt := { o with eol := o.eol.swap }

/-- the domain of C11 for `-M` -/
structure NoLfNulStream (o : StreamOpt) : Prop where
  delimiter : o.delimiter ≠ 10 ∧ o.delimiter ≠ 0
  replace : ∀ r, o.replaceDelimiter = some r → r ≠ 10 ∧ r ≠ 0
  fallbackOob : ∀ f, o.fallbackOob = some f → NoLfNul f
  fillers : ∀ f, BoF.filler f ∈ o.bounds → NoLfNul f
  fallbacks : ∀ b f, BoF.bound b ∈ o.bounds → b.fallback = some f → NoLfNul f

theorem NoLfNulStream.fixed {o : StreamOpt} (h : NoLfNulStream o) : StreamFixed swapByte o where
  delimiter := swapByte_of_ne h.delimiter.1 h.delimiter.2
  replace := fun r hr => swapByte_of_ne (h.replace r hr).1 (h.replace r hr).2
  fallbackOob := fun f hf => swap_of_noLfNul (h.fallbackOob f hf)
  bounds := by
    intro b hb
    cases b with
    | filler f => exact swap_of_noLfNul (h.fillers f hb)
    | bound u => exact fun f hf => swap_of_noLfNul (h.fallbacks u f hb hf)

theorem cutBytesStream_swap_of_fixed {o : StreamOpt} (h : StreamFixed swapByte o)
    (segs : List Bytes) :
    cutBytesStream o.swapped (segs.map swap) = (cutBytesStream o segs).mapOut swap := by
  unfold cutBytesStream
  have := streamRun_map swapByte_injective h o.eol.swap (EOL.swap_byte o.eol)
    (tagSegments segs) {}
  rw [show (segs.map swap) = segs.map (List.map swapByte) from rfl, tagSegments_map]
  exact this

/-- **C11, `-M`**: for every read segmentation. -/
theorem cutBytesStream_swap {o : StreamOpt} (h : NoLfNulStream o) (segs : List Bytes) :
    cutBytesStream o.swapped (segs.map swap) = (cutBytesStream o segs).mapOut swap :=
  cutBytesStream_swap_of_fixed h.fixed segs

/-! ## 7. UTF-8 segmentation and character mode (`-c`)

LF and NUL are both one-byte characters, and no other byte class of Table 3-7 contains one and
not the other, so the segmentation into scalar values commutes with the swap. -/

/-- comparisons against a bound above LF do not tell `b` from `swapByte b` -/
theorem range_swapByte (lo hi : UInt8) (hlo : 10 < lo) (b : UInt8) :
    (decide (lo ≤ swapByte b) && decide (swapByte b ≤ hi)) = (decide (lo ≤ b) && decide (b ≤ hi)) := by
  by_cases h1 : b = 10
  · subst h1
    have e : swapByte 10 = 0 := by decide
    have a1 : ¬ lo ≤ 0 := by
      rw [UInt8.le_iff_toNat_le]; rw [UInt8.lt_iff_toNat_lt] at hlo
      simp at hlo ⊢; omega
    have a2 : ¬ lo ≤ 10 := by
      rw [UInt8.le_iff_toNat_le]; rw [UInt8.lt_iff_toNat_lt] at hlo
      simp at hlo ⊢; omega
    simp [e, a1, a2]
  · by_cases h2 : b = 0
    · subst h2
      have e : swapByte 0 = 10 := by decide
      have a1 : ¬ lo ≤ 0 := by
        rw [UInt8.le_iff_toNat_le]; rw [UInt8.lt_iff_toNat_lt] at hlo
        simp at hlo ⊢; omega
      have a2 : ¬ lo ≤ 10 := by
        rw [UInt8.le_iff_toNat_le]; rw [UInt8.lt_iff_toNat_lt] at hlo
        simp at hlo ⊢; omega
      simp [e, a1, a2]
    · rw [swapByte_of_ne h1 h2]

theorem isCont_swapByte (b : UInt8) : isCont (swapByte b) = isCont b :=
  range_swapByte 0x80 0xBF (by decide) b

theorem charLen_swap : ∀ l : Bytes, charLen (swap l) = charLen l
  | [] => rfl
  | b0 :: t => by
    by_cases h1 : b0 = 10
    · subst h1; rfl
    · by_cases h2 : b0 = 0
      · subst h2; rfl
      · simp only [swap, List.map_cons, swapByte_of_ne h1 h2]
        simp only [charLen]
        by_cases c1 : b0 < 0x80
        · simp only [c1, if_true]
        · simp only [c1, if_false]
          by_cases c2 : (decide (0xC2 ≤ b0) && decide (b0 ≤ 0xDF)) = true
          · simp only [c2, if_true]
            rcases t with _ | ⟨b1, t1⟩
            · rfl
            · simp only [List.map_cons, isCont_swapByte]
          · simp only [c2, if_false, Bool.false_eq_true]
            by_cases c3 : (decide (0xE0 ≤ b0) && decide (b0 ≤ 0xEF)) = true
            · simp only [c3, if_true]
              rcases t with _ | ⟨b1, _ | ⟨b2, t2⟩⟩
              · rfl
              · rfl
              · simp only [List.map_cons, isCont_swapByte, range_swapByte 160 191 (by decide),
                  range_swapByte 128 159 (by decide)]
            · simp only [c3, if_false, Bool.false_eq_true]
              by_cases c4 : (decide (0xF0 ≤ b0) && decide (b0 ≤ 0xF4)) = true
              · simp only [c4, if_true]
                rcases t with _ | ⟨b1, _ | ⟨b2, _ | ⟨b3, t3⟩⟩⟩
                · rfl
                · rfl
                · rfl
                · simp only [List.map_cons, isCont_swapByte, range_swapByte 144 191 (by decide),
                    range_swapByte 128 143 (by decide)]
              · simp only [c4, if_false, Bool.false_eq_true]

theorem utf8CharsFuel_swap : ∀ (fuel : Nat) (l : Bytes),
    utf8CharsFuel fuel (swap l) = (utf8CharsFuel fuel l).map (List.map swap)
  | _, [] => by simp [swap, utf8CharsFuel]
  | 0, b :: t => by simp [swap, utf8CharsFuel]
  | fuel + 1, b :: t => by
    have e1 : utf8CharsFuel (fuel + 1) (swap (b :: t)) =
        match charLen (swap (b :: t)) with
        | none => none
        | some k => (utf8CharsFuel fuel ((swap (b :: t)).drop k)).map ((swap (b :: t)).take k :: ·) := rfl
    have e2 : utf8CharsFuel (fuel + 1) (b :: t) =
        match charLen (b :: t) with
        | none => none
        | some k => (utf8CharsFuel fuel ((b :: t).drop k)).map ((b :: t).take k :: ·) := rfl
    rw [e1, e2, charLen_swap]
    cases charLen (b :: t) with
    | none => rfl
    | some k =>
      simp only
      rw [show (swap (b :: t)).drop k = swap ((b :: t).drop k) from List.map_drop.symm,
        utf8CharsFuel_swap fuel, Option.map_map, Option.map_map]
      congr 1
      funext x
      simp [swap, List.map_take]

/-- C11 for the scalar-value segmentation (`-c`): LF and NUL are both one-byte characters -/
theorem utf8Chars_swap (l : Bytes) : utf8Chars (swap l) = (utf8Chars l).map (List.map swap) := by
  unfold utf8Chars
  rw [swap_length, utf8CharsFuel_swap]

theorem validUtf8_swap (l : Bytes) : validUtf8 (swap l) = validUtf8 l := by
  simp [validUtf8, utf8Chars_swap]


theorem boundariesFrom_map_swap : ∀ (cs : List Bytes) (pos : Nat),
    boundariesFrom pos (cs.map (List.map swapByte)) = boundariesFrom pos cs
  | [], _ => rfl
  | c :: t, pos => by
    simp only [List.map_cons, boundariesFrom, List.length_map, boundariesFrom_map_swap t]

/-- the regex of `-c` (`\b|\B` over valid UTF-8) does not tell LF from NUL -/
theorem charMatches_swap (l : Bytes) : charMatches (swap l) = charMatches l := by
  unfold charMatches
  rw [utf8Chars_swap]
  cases utf8Chars l with
  | none => rfl
  | some cs =>
    simp only [Option.map_some]
    rw [show List.map swap cs = cs.map (List.map swapByte) from rfl, boundariesFrom_map_swap]

/-- the domain of C11 for `-c` (the delimiter is empty there) -/
structure NoLfNulChars (o : Opt) : Prop where
  delimiter : NoLfNul o.delimiter
  replace : ∀ r, o.replaceDelimiter = some r → NoLfNul r
  fallbackOob : ∀ f, o.fallbackOob = some f → NoLfNul f
  fillers : ∀ f, BoF.filler f ∈ o.bounds.list → NoLfNul f
  fallbacks : ∀ b f, BoF.bound b ∈ o.bounds.list → b.fallback = some f → NoLfNul f
  bag : o.regexBag = some charsBag
  noJson : o.json = false

theorem NoLfNulChars.lits {o : Opt} (h : NoLfNulChars o) : NoLfNulLits o where
  replace := h.replace
  fallbackOob := h.fallbackOob
  fillers := h.fillers
  fallbacks := h.fallbacks
  regex := by
    intro bag hb l
    rw [h.bag] at hb
    cases hb
    exact ⟨charMatches_swap l, charMatches_swap l⟩
  noJson := h.noJson

/-- **C11, `-c`** (for every input, UTF-8 or not: the model's "no match" on text that is not
    UTF-8 is symmetric too). -/
theorem readAndCutStr_swap_chars {o : Opt} (h : NoLfNulChars o) (input : Bytes) :
    readAndCutStr o.swapped (swap input) = (readAndCutStr o input).mapOut swap := by
  rw [← Opt.swappedAll_eq_swapped h.delimiter]
  exact readAndCutStr_swapAll h.lits input

/-! ## 8. Line mode (`-l`) -/

section lines
variable {σ : UInt8 → UInt8}

theorem lineJoiner_map_swap (e : EOL) (o : Opt) (he : e.byte = σ o.eol.byte) (rest : List BoF) :
    lineJoiner (o.mapLit σ e) rest = (lineJoiner o rest).map σ := by
  unfold lineJoiner
  simp_mapLit [he]
  split <;> rfl

theorem fwdLine_map (e : EOL) (o : Opt) (he : e.byte = σ o.eol.byte) (line : Bytes) (idx : Int) :
    ∀ (l : List BoF) (addNl : Bool), (∀ b ∈ l, BoFFixed σ b) →
      fwdLine (o.mapLit σ e) (line.map σ) idx l addNl =
        ((fwdLine o line idx l addNl).1.map σ, (fwdLine o line idx l addNl).2.1,
          (fwdLine o line idx l addNl).2.2)
  | [], _, _ => rfl
  | .filler f :: t, addNl, h => by
    have ih := fwdLine_map e o he line idx t addNl (fun b hb => h b (by simp [hb]))
    have hf : f.map σ = f := h (.filler f) (by simp)
    simp only [fwdLine, ih, lineJoiner_map_swap e o he, List.map_append, hf]
  | .bound b :: t, addNl, h => by
    have ih := fwdLine_map e o he line idx t false (fun b hb => h b (by simp [hb]))
    simp only [fwdLine]
    split
    · simp_mapLit [he]
      split
      · simp only [ih, lineJoiner_map_swap e o he, List.map_append]
        cases addNl <;> rfl
      · simp only [List.map_append]
        cases addNl <;> rfl
    · rfl

theorem fwdLine_rest_mem (o : Opt) (line : Bytes) (idx : Int) :
    ∀ (l : List BoF) (addNl : Bool), ∀ b ∈ (fwdLine o line idx l addNl).2.1, b ∈ l
  | [], _ => by simp [fwdLine]
  | .filler f :: t, addNl => by
    intro b hb
    simp only [fwdLine] at hb
    exact List.mem_cons_of_mem _ (fwdLine_rest_mem o line idx t addNl b hb)
  | .bound u :: t, addNl => by
    intro b hb
    simp only [fwdLine] at hb
    split at hb
    · split at hb
      · exact List.mem_cons_of_mem _ (fwdLine_rest_mem o line idx t false b hb)
      · exact hb
    · exact hb

theorem fwdEnd_map (e : EOL) (o : Opt) (he : e.byte = σ o.eol.byte)
    (hoob : ∀ f, o.fallbackOob = some f → f.map σ = f) :
    ∀ (l : List BoF) (a : Bool), (∀ b ∈ l, BoFFixed σ b) →
      fwdEnd (o.mapLit σ e) l a = (fwdEnd o l a).mapOut (List.map σ)
  | [], _, _ => by simp [fwdEnd, he]
  | .filler f :: t, a, h => by
    have ih := fwdEnd_map e o he hoob t a (fun b hb => h b (by simp [hb]))
    have hf : f.map σ = f := h (.filler f) (by simp)
    simp only [fwdEnd, ih, lineJoiner_map_swap e o he, Run.mapOut_pre, List.map_append, hf]
  | .bound b :: t, a, h => by
    have ih := fwdEnd_map e o he hoob t false (fun b hb => h b (by simp [hb]))
    have hb : ∀ f, b.fallback = some f → f.map σ = f := h (.bound b) (by simp)
    simp only [fwdEnd]
    cases a with
    | true =>
      simp only [if_true]
      split
      · rfl
      · simp only [ih, lineJoiner_map_swap e o he, Run.mapOut_pre]
    | false =>
      simp only [Bool.false_eq_true, if_false]
      cases hfb : b.fallback with
      | some f =>
        simp only [ih, lineJoiner_map_swap e o he, Run.mapOut_pre, List.map_append, hb f hfb]
      | none =>
        simp_mapLit []
        cases ho : o.fallbackOob with
        | some f =>
          simp only [ih, lineJoiner_map_swap e o he, Run.mapOut_pre, List.map_append, hoob f ho]
        | none => rfl

theorem stripEol_map (hσ : Function.Injective σ) (eol : UInt8) (l : Bytes) :
    stripEol (σ eol) (l.map σ) = (stripEol eol l).map σ := by
  unfold stripEol
  rw [List.getLast?_map]
  cases l.getLast? with
  | none => rfl
  | some c =>
    simp only [Option.map_some]
    by_cases h : c = eol
    · subst h; simp [List.map_dropLast]
    · have h' : σ c ≠ σ eol := fun e => h (hσ e)
      simp [h, h']

end lines

/-- the UTF-8 test of the line-at-a-time reader, isolated: both readers (`read_line`, and
    `read_until` followed by the same validation in `-z` mode) reject a line that is not UTF-8,
    and validity does not tell LF from NUL -/
theorem fwdCheck_swap (line : Bytes) : (!validUtf8 (swap line)) = (!validUtf8 line) := by
  rw [validUtf8_swap]

theorem fwdLines_swap {o : Opt} (h : NoLfNulLits o) :
    ∀ (recs : List Bytes) (idx : Int) (rest : List BoF) (a : Bool),
      (∀ b ∈ rest, BoFFixed swapByte b) →
      fwdLines o.swappedAll (recs.map swap) idx rest a = (fwdLines o recs idx rest a).mapOut swap
  | [], idx, rest, a, hr => by
    simp only [List.map_nil, fwdLines]
    exact fwdEnd_map o.eol.swap o (EOL.swap_byte o.eol) h.fixed.fallbackOob rest a hr
  | line :: t, idx, rest, a, hr => by
    have hl := fwdLine_map o.eol.swap o (EOL.swap_byte o.eol) line (idx + 1) rest a hr
    have hrest : ∀ b ∈ (fwdLine o line (idx + 1) rest a).2.1, BoFFixed swapByte b :=
      fun b hb => hr b (fwdLine_rest_mem o line (idx + 1) rest a b hb)
    have ih := fwdLines_swap h t (idx + 1) (fwdLine o line (idx + 1) rest a).2.1
      (fwdLine o line (idx + 1) rest a).2.2 hrest
    simp only [List.map_cons, fwdLines, fwdCheck_swap line]
    split
    · rfl
    · rw [Opt.swappedAll_eq, show swap line = line.map swapByte from rfl, hl]
      simp only
      split
      · simp_mapLit [EOL.swap_byte, Run.mapOut_ok, swap, List.map_append, List.map_cons, List.map_nil]
      · rw [← Opt.swappedAll_eq, ih]
        simp only [swap, Run.mapOut_pre]

/-- **C11, `-l`, line-at-a-time algorithm** (full). -/
theorem cutLinesForwardOnly_swap {o : Opt} (h : NoLfNulLits o) (input : Bytes) :
    cutLinesForwardOnly o.swappedAll (swap input) = (cutLinesForwardOnly o input).mapOut swap := by
  unfold cutLinesForwardOnly
  have : o.swappedAll.eol.byte = swapByte o.eol.byte := EOL.swap_byte o.eol
  rw [this, records_swap]
  exact fwdLines_swap h _ 0 _ false h.fixed.bounds

/-- **C11, `-l`, buffered algorithm** (full). -/
theorem cutLines_swap {o : Opt} (h : NoLfNulLits o) (input : Bytes) :
    cutLines o.swappedAll (swap input) = (cutLines o input).mapOut swap := by
  unfold cutLines
  rw [validUtf8_swap]
  split
  · rfl
  · have : o.swappedAll.eol.byte = swapByte o.eol.byte := EOL.swap_byte o.eol
    rw [this, show swap input = input.map swapByte from rfl, stripEol_map swapByte_injective,
      ← this]
    exact cutStr_swap h _ _ _ _ _

theorem forwardTest_swappedAll (o : Opt) :
    (!o.swappedAll.complement && !o.swappedAll.compressDelimiter &&
        isForwardOnly o.swappedAll.bounds.list) =
      (!o.complement && !o.compressDelimiter && isForwardOnly o.bounds.list) := rfl

/-- **C11, `-l`** (both algorithms, every input).  `o.swappedAll` also exchanges LF and NUL in the
    delimiter: in line mode the delimiter is the terminator. -/
theorem readAndCutLines_swap {o : Opt} (h : NoLfNulLits o) (input : Bytes) :
    readAndCutLines o.swappedAll (swap input) = (readAndCutLines o input).mapOut swap := by
  unfold readAndCutLines
  rw [forwardTest_swappedAll]
  split
  · exact cutLinesForwardOnly_swap h input
  · exact cutLines_swap h input

/-- `-l`, lists served by the buffered algorithm (instance of `readAndCutLines_swap`). -/
theorem readAndCutLines_swap_buffered {o : Opt} (h : NoLfNulLits o) (input : Bytes)
    (_hb : (!o.complement && !o.compressDelimiter && isForwardOnly o.bounds.list) = false) :
    readAndCutLines o.swappedAll (swap input) = (readAndCutLines o input).mapOut swap :=
  readAndCutLines_swap h input

theorem fastOptOf_swapped (o : Opt) : fastOptOf o.swapped = (fastOptOf o).map FastOpt.swapped := by
  generalize ho' : o.swapped = o'
  have h1 : o'.delimiter = o.delimiter := by subst ho'; rfl
  have h2 : o'.complement = o.complement := by subst ho'; rfl
  have h3 : o'.greedyDelimiter = o.greedyDelimiter := by subst ho'; rfl
  have h4 : o'.compressDelimiter = o.compressDelimiter := by subst ho'; rfl
  have h5 : o'.json = o.json := by subst ho'; rfl
  have h6 : o'.boundsType = o.boundsType := by subst ho'; rfl
  have h7 : o'.replaceDelimiter = o.replaceDelimiter := by subst ho'; rfl
  have h8 : o'.regexBag = o.regexBag := by subst ho'; rfl
  have h9 : o'.join = o.join := by subst ho'; rfl
  have h10 : o'.eol = o.eol.swap := by subst ho'; rfl
  have h11 : o'.bounds = o.bounds := by subst ho'; rfl
  have h12 : o'.onlyDelimited = o.onlyDelimited := by subst ho'; rfl
  have h13 : o'.trim = o.trim := by subst ho'; rfl
  have h14 : o'.fallbackOob = o.fallbackOob := by subst ho'; rfl
  unfold fastOptOf
  rw [h1, h2, h3, h4, h5, h6, h7, h8, h9, h10, h11, h12, h13, h14]
  split
  · split <;> rfl
  · rfl

theorem NoLfNulOpt.fast {o : Opt} (h : NoLfNulOpt o) {fo : FastOpt} (hf : fastOptOf o = some fo) :
    NoLfNulFast fo := by
  unfold fastOptOf at hf
  split at hf
  · rename_i d hd
    split at hf
    · cases hf
    · cases hf
      refine ⟨?_, h.fallbackOob, h.fillers, h.fallbacks⟩
      exact h.delimiter d (by rw [hd]; simp)
  · cases hf

theorem streamOptOf_swapped (o : Opt) :
    streamOptOf o.swapped = (streamOptOf o).map StreamOpt.swapped := by
  generalize ho' : o.swapped = o'
  have h1 : o'.delimiter = o.delimiter := by subst ho'; rfl
  have h2 : o'.complement = o.complement := by subst ho'; rfl
  have h3 : o'.greedyDelimiter = o.greedyDelimiter := by subst ho'; rfl
  have h4 : o'.compressDelimiter = o.compressDelimiter := by subst ho'; rfl
  have h5 : o'.json = o.json := by subst ho'; rfl
  have h6 : o'.boundsType = o.boundsType := by subst ho'; rfl
  have h7 : o'.replaceDelimiter = o.replaceDelimiter := by subst ho'; rfl
  have h8 : o'.regexBag = o.regexBag := by subst ho'; rfl
  have h9 : o'.join = o.join := by subst ho'; rfl
  have h10 : o'.eol = o.eol.swap := by subst ho'; rfl
  have h11 : o'.bounds = o.bounds := by subst ho'; rfl
  have h12 : o'.onlyDelimited = o.onlyDelimited := by subst ho'; rfl
  have h13 : o'.trim = o.trim := by subst ho'; rfl
  have h14 : o'.fallbackOob = o.fallbackOob := by subst ho'; rfl
  unfold streamOptOf
  rw [h1, h2, h3, h4, h5, h6, h7, h8, h9, h10, h11, h12, h13, h14]
  split
  · rcases o.replaceDelimiter with _ | ⟨_ | ⟨r, _ | ⟨r2, t⟩⟩⟩ <;> simp only <;> (try rfl) <;>
    · split
      · rfl
      · cases forwardBoundsOf o.bounds with
        | none => rfl
        | some bs =>
          simp only
          cases lastBoundRight (boundsOnly bs) <;> rfl
  · rfl

theorem streamOptOf_some {o : Opt} {so : StreamOpt} (hs : streamOptOf o = some so) :
    o.delimiter = [so.delimiter] ∧
      (∀ r, so.replaceDelimiter = some r → o.replaceDelimiter = some [r]) ∧
      so.fallbackOob = o.fallbackOob ∧ forwardBoundsOf o.bounds = some so.bounds := by
  unfold streamOptOf at hs
  split at hs
  · rename_i d hd
    rcases hr : o.replaceDelimiter with _ | ⟨_ | ⟨r, _ | ⟨r2, t⟩⟩⟩ <;> rw [hr] at hs <;>
      simp only at hs
    · split at hs
      · cases hs
      · cases hf : forwardBoundsOf o.bounds with
        | none => rw [hf] at hs; cases hs
        | some bs =>
          rw [hf] at hs
          simp only at hs
          cases hl : lastBoundRight (boundsOnly bs) with
          | none => rw [hl] at hs; cases hs
          | some last => rw [hl] at hs; cases hs; simp [hd]
    · cases hs
    · split at hs
      · cases hs
      · cases hf : forwardBoundsOf o.bounds with
        | none => rw [hf] at hs; cases hs
        | some bs =>
          rw [hf] at hs
          simp only at hs
          cases hl : lastBoundRight (boundsOnly bs) with
          | none => rw [hl] at hs; cases hs
          | some last => rw [hl] at hs; cases hs; simp [hd]
    · cases hs
  · cases hs

theorem NoLfNulOpt.streamFixed {o : Opt} (h : NoLfNulOpt o) {so : StreamOpt}
    (hs : streamOptOf o = some so) : StreamFixed swapByte so := by
  obtain ⟨hd, hr, hf, hb⟩ := streamOptOf_some hs
  have hdd := h.delimiter so.delimiter (by rw [hd]; simp)
  refine ⟨swapByte_of_ne hdd.1 hdd.2, ?_, ?_, ?_⟩
  · intro r hrr
    have := h.replace [r] (hr r hrr) r (by simp)
    exact swapByte_of_ne this.1 this.2
  · intro f hff
    rw [hf] at hff
    exact swap_of_noLfNul (h.fallbackOob f hff)
  · unfold forwardBoundsOf at hb
    split at hb
    · cases hb
    · split at hb
      · split at hb
        · cases hv : fromVec o.bounds.list with
          | ok l' =>
            rw [hv] at hb
            simp only [Option.some.injEq] at hb
            rw [← hb]
            exact fromVec_fixed _ l' hv h.lits.fixed.bounds
          | fail => rw [hv] at hb; cases hb
          | panic => rw [hv] at hb; cases hb
        · cases hb
      · cases hb

/-- **C11, field mode, whichever engine `main` picks**: the fast lane applies to `o` iff it applies
    to `o` with `-z`, and then the two runs correspond. -/
theorem fieldMode_fast_swap {o : Opt} (h : NoLfNulOpt o) {fo : FastOpt} (hf : fastOptOf o = some fo)
    (input : Bytes) :
    fastOptOf o.swapped = some fo.swapped ∧
      readAndCutFast fo.swapped (swap input) = (readAndCutFast fo input).mapOut swap :=
  ⟨by rw [fastOptOf_swapped, hf]; rfl, readAndCutFast_swap (h.fast hf) input⟩

/-- the same for `-M` -/
theorem fieldMode_stream_swap {o : Opt} (h : NoLfNulOpt o) {so : StreamOpt}
    (hs : streamOptOf o = some so) (segs : List Bytes) :
    streamOptOf o.swapped = some so.swapped ∧
      cutBytesStream so.swapped (segs.map swap) = (cutBytesStream so segs).mapOut swap :=
  ⟨by rw [streamOptOf_swapped, hs]; rfl, cutBytesStream_swap_of_fixed (h.streamFixed hs) segs⟩

/-! ## 10. Concrete instances -/

section examples

/-- `-d - -f 2,1` -/
def exOpt : Opt :=
  { delimiter := [45],
    bounds := { list := [.bound { l := .some 2, r := .some 2 },
                         .bound { l := .some 1, r := .some 1, isLast := true }],
                lastInteresting := .some 2 } }

/-- `a-b\nc-d\n` -/
def exInput : Bytes := [97, 45, 98, 10, 99, 45, 100, 10]

example : readAndCutStr exOpt exInput = ⟨[98, 97, 10, 100, 99, 10], .ok⟩ := by decide
example : readAndCutStr exOpt.swapped (swap exInput) = ⟨[98, 97, 0, 100, 99, 0], .ok⟩ := by decide
example : readAndCutStr exOpt.swapped (swap exInput) = (readAndCutStr exOpt exInput).mapOut swap := by
  decide

/-- `-l 1` (after the repair of D13 the delimiter of line mode is the terminator) -/
def exLines : Opt :=
  { delimiter := [10], boundsType := .lines, join := true,
    bounds := { list := [.bound { l := .some 1, r := .some 1, isLast := true }],
                lastInteresting := .some 1 } }

/-- a line that is not UTF-8 is rejected in both modes (it used to be printed with `-z`) -/
example : readAndCutLines exLines [0xFF, 10] = ⟨[], .fail⟩ ∧
    readAndCutLines exLines.swappedAll (swap [0xFF, 10]) = ⟨[], .fail⟩ := by decide

example : readAndCutLines exLines.swappedAll (swap [97, 10, 98, 10]) =
    (readAndCutLines exLines [97, 10, 98, 10]).mapOut swap := by decide

end examples

end Tuc
