import Tuc.Model.BoundsListLit
import Tuc.Props.BoundsLit
import Tuc.Props.C12
/-!
# Tuc.Props.BoundsListLit — `userboundslist.rs` as written computes what the model says

`Tuc.Model.BoundsListLit` follows `src/bounds/userboundslist.rs` statement by statement: the Rust locals
under their names, `i32` sides (`I32`), the per-bound callees of `Tuc.Model.BoundsLit`, strings as
`List Char` with BYTE offsets (`char_indices`, `s.len()`), every `&s[a..b]` / `&s[a..]` a CHECKED operation
(out of range, `a > b`, or an offset that is not a char boundary = `Res.panic`), every `unwrap` / `expect` /
`usize` subtraction checked.  This file proves each function equal to its counterpart of
`Tuc.Model.Bounds` (`toModel` reads a Rust value in the model; `bofOfModel` / `listOfModel` store a model
value in the Rust types — `toModel` is injective, `listOfModel_of_toModel`).

NO hypothesis at all — every string, every list:

* `parseBoundsListLit_eq` / `parseBoundsListLit_toModel` — **`parse_bounds_list(s)` = `parseBoundsList s`
  for EVERY string `s`**.  New information: no `&s[part_start..idx]`, no `&s[part_start..]` of the scanner is
  ever out of range or off a char boundary, whatever multi-byte characters stand inside fillers, inside
  `{…}` or next to a bracket; `idx - part_start` and `s.len() - part_start` never underflow
  (`parseBoundsListLit_never_panics`).  The reason (`scanLoop_eq`, `scanBody_eq`): `part_start` is only
  ever `idx + 1` where `idx` is the offset of a `{` or `}` — one byte — so it is always the byte length of a
  prefix of whole characters (`strSlice_mid`, `strSliceFrom_suffix`), and every `idx` comes from
  `char_indices`.  That `w1` defaults to `'x'` at the end of the string is harmless (`'x'` is no bracket).
* `fromStrLit_eq` / `fromStrLit_toModel` — `UserBoundsList::from_str` = `boundsListOfString`
  (`strTrim_isEmpty`: `s.trim().is_empty()` is "all white space"); `fromStrLit_never_panics`.
* `fromVec_eq` — `impl From<Vec<BoundOrFiller>>` = `fromVec`: `rightmost_bound.unwrap()` (l.37) cannot
  panic, the `Side` comparison cannot overflow, the reference `last_bound` points at the bound that
  `markLast` marks, and `expect` (l.50) panics exactly on a list without a bound — as the model says.
* `isSortable_eq`, `isSorted_eq`, `hasNegativeIndices_eq`, `isForwardOnly_eq`.
* `parseBoundsList_allInI32` — a parsed bound always fits an `i32` (`AllInI32`, `allInI32_iff_exists`:
  a model list is the image of a Rust value iff all its sides fit); `*_model`: the same theorems on the
  model's own values under `AllInI32`.

Hypotheses `num_fields < 2³¹` and `leftNonzero` ("no bound of the list has the literal `0` as its left
side" — a decidable predicate), inherited from `UserBounds::unpack` / `complement`
(`BoundsLit.unpack_eq`, `BoundsLit.complement_eq`: `i as i32 + 1`, `try_into::<i32>().expect(..)`,
`start as usize`; `try_into_range` itself, repaired, computes in `i64` and no longer needs it):

* `unpack_eq` — `UserBoundsList::unpack` = `unpackList`
* `complement_eq` — `UserBoundsList::complement` = `complementList` (fillers kept, unresolvable bounds kept,
  "the complement is empty" exactly when the model says so, `is_last` re-marked by `from`)
* `parsed_list` — on what `UserBoundsList::from_str` accepted only `num_fields < 2³¹` is left
  (`parsed_leftNonzero`: the parser refuses 0).

The hypotheses are NECESSARY (section 8, by evaluation of both sides):

* `num_fields < 2³¹`: with 2³¹ fields `-f -1` PANICS in `unpack` (`i as i32 + 1` overflows on the slot
  2³¹ − 1: the debug build; `try_into_range`, repaired, does resolve the bound) where the model says field
  2³¹; the complement of `-f 1` panics in `expect("range was bigger than expected")` where the model says
  `2:2147483648`.  (Until the repair of `try_into_range` the witnesses were: `-1` unpacks to itself, its
  complement is `-1` itself — now `1` unpacks and `-1` complements as the model says: what decides is the
  index the range reaches.)  The real program can get there only with a record of 2³¹ fields or more
  (2 GiB in one line at least).
* `leftNonzero`: on the bound `0:` (3 fields) `unpack` PANICS in Rust — `UserBounds::unpack` yields no slot
  at all (`start = -1 as usize`), so `list.into()` hits `expect("UserBoundsList must contain at least one
  UserBounds")` — where the model has three bounds; `complement` panics inside `UserBounds::complement`
  where the model says "the complement is empty".  The real program cannot get there: only
  `UserBounds::new` builds such a bound, `UserBounds::from_str` refuses 0 (`parsed_leftNonzero`).

Section 0 compares by evaluation: the model of `is_char_boundary` / `s.len()` against the bytes of the
encoding; `parse_bounds_list` and `from_str` on all 111 111 strings of at most 5
symbols over `{ } : , = \ 1 - é n` (`é`: 2 bytes); the list functions on 8258 lists built from 64 bounds
(sides −2 … 3, open, `i32::MIN`, `i32::MAX`), with and without fillers.
-/

namespace Tuc
namespace BoundsListLit
open BoundsLit
set_option linter.unusedSimpArgs false

/-! ## 0. exhaustive executable comparison -/

/-- `{ } : , = \ 1 - é n`: the brackets, the separators, the escape character and `n` (`\n`), a digit,
    a sign, and a 2-byte character -/
def scanAlphabet : List Char := ['{', '}', ':', ',', '=', '\\', '1', '-', 'é', 'n']

/-- all strings of at most `n` symbols over `scanAlphabet` -/
def scanStrings (n : Nat) : List (List Char) :=
  (List.range (n + 1)).flatMap (stringsOfLength scanAlphabet)

#guard (scanStrings 5).length == 111111

/-! `parse_bounds_list` and `UserBoundsList::from_str` on all of them -/
#guard (scanStrings 5).all fun s =>
  resMap (List.map BoFL.toModel) (parseBoundsListLit s) == resOfOption (parseBoundsList s) &&
  resMap UserBoundsListL.toModel (fromStrLit s) == boundsListOfString s

/-! multi-byte characters of 2, 3 and 4 bytes in every position relative to the brackets -/
#guard ["é{1}", "{1}é", "é{1}é", "€{1}😎{2}€", "{1}😎{2}", "{{é}}{1}", "é{{{1}}}é", "{é}", "{1,é}", "{1=é}é",
    "😎", "{😎", "😎}", "\\né\\t{1}", "é\\", "{1}{{😎"].all fun t =>
  let s := t.toList
  resMap (List.map BoFL.toModel) (parseBoundsListLit s) == resOfOption (parseBoundsList s) &&
  resMap UserBoundsListL.toModel (fromStrLit s) == boundsListOfString s

/-! the slices really are checked: an offset inside `é` (bytes 1-2 of `aéb`) panics -/
example : strSlice "aéb".toList 1 2 = .panic ∧ strSlice "aéb".toList 1 3 = .ok ['é'] ∧
    strSlice "aéb".toList 2 3 = .panic ∧ strSlice "aéb".toList 3 1 = .panic ∧
    strSlice "aéb".toList 4 5 = .panic ∧ strSliceFrom "aéb".toList 2 = .panic ∧
    strSliceFrom "aéb".toList 4 = .ok [] ∧ strSliceFrom "aéb".toList 5 = .panic := by decide

/-- `str::is_char_boundary` as `core` writes it, on the bytes of the encoding: `index == 0`, or
    `index == len` beyond the last byte, or a byte that is not a continuation byte
    (`(b as i8) >= -0x40`) -/
def isCharBoundaryBytes (s : List Char) (n : Nat) : Bool :=
  n == 0 ||
    (if n ≥ (utf8 s).length then n == (utf8 s).length else !isCont ((utf8 s)[n]!))

/-! the model of `s.len()` / `is_char_boundary` (whole characters) against the bytes: all strings of at
    most 4 symbols over 1-, 2-, 3- and 4-byte characters, every offset up to `len + 2` -/
#guard ((List.range 5).flatMap (stringsOfLength ['a', 'é', '€', '😎'])).all fun s =>
  strLen s == (utf8 s).length &&
  (List.range (strLen s + 3)).all fun n => isCharBoundary s n == isCharBoundaryBytes s n

def sideVals : List SideL :=
  [SideL.cont, S (-2), S (-1), S 1, S 2, S 3, S (-2147483648), S 2147483647]

def someBounds : List UserBoundsL :=
  sideVals.flatMap fun l => sideVals.map fun r => UserBoundsL.new l r

/-- no list, one filler, every bound alone, every pair of bounds bare and between fillers -/
def someLists : List (List BoFL) :=
  [[], [BoFL.filler [65]]] ++
  someBounds.map (fun a => [BoFL.bound a]) ++
  (someBounds.flatMap fun a => someBounds.flatMap fun b =>
    [[BoFL.bound a, BoFL.bound b],
     [BoFL.filler [65], BoFL.bound a, BoFL.filler [66], BoFL.bound b, BoFL.filler [67]]])

#guard someLists.length == 8258

#guard someLists.all fun l =>
  let u : UserBoundsListL := ⟨l, SideL.cont⟩
  let m := l.map BoFL.toModel
  u.isSortable == Tuc.isSortable m &&
  u.isSorted == .ok (Tuc.isSorted m) &&
  u.hasNegativeIndices == Tuc.hasNegativeIndices m &&
  u.isForwardOnly == .ok (Tuc.isForwardOnly m) &&
  resMap UserBoundsListL.toModel (fromVecLit l) == fromVec m &&
  [0, 1, 3, 4].all fun n =>
    resMap UserBoundsListL.toModel (u.unpack n) == unpackList m n &&
    resMap UserBoundsListL.toModel (u.complement n) == complementList m n

/-- `a{1:2}é{5}b` as a vector -/
def vecA : List BoFL :=
  [BoFL.filler [97], BoFL.bound (UserBoundsL.new (S 1) (S 2)), BoFL.filler [195, 169],
   BoFL.bound (UserBoundsL.new (S 5) (S 5)), BoFL.filler [98]]

/-- `-1,1` -/
def vecMixed : List BoFL :=
  [BoFL.bound (UserBoundsL.new (S (-1)) (S (-1))), BoFL.bound (UserBoundsL.new (S 1) (S 1))]

/-- `2,1` -/
def vecBackwards : List BoFL :=
  [BoFL.bound (UserBoundsL.new (S 2) (S 2)), BoFL.bound (UserBoundsL.new (S 1) (S 1))]

/-! ## 1. values -/

theorem sideOfModel_of_toModel (x : SideL) : sideOfModel x.toModel = x := by
  cases x with
  | cont => rfl
  | some v => simp only [SideL.toModel, sideOfModel, I32.wrap_self]

theorem boundsOfModel_of_toModel (b : UserBoundsL) : boundsOfModel b.toModel = b := by
  cases b
  simp only [UserBoundsL.toModel, boundsOfModel, sideOfModel_of_toModel]

theorem bofOfModel_of_toModel (x : BoFL) : bofOfModel x.toModel = x := by
  cases x with
  | bound b => simp only [BoFL.toModel, bofOfModel, boundsOfModel_of_toModel]
  | filler f => rfl

theorem map_bofOfModel_of_toModel (l : List BoFL) : (l.map BoFL.toModel).map bofOfModel = l := by
  induction l with
  | nil => rfl
  | cons x t ih => simp only [List.map_cons, bofOfModel_of_toModel, ih]

theorem listOfModel_of_toModel (u : UserBoundsListL) : listOfModel u.toModel = u := by
  cases u
  simp only [UserBoundsListL.toModel, listOfModel, map_bofOfModel_of_toModel, sideOfModel_of_toModel]

/-- an equation "literal result, read in the model = model result" turned around -/
theorem eq_resMap_of_toModel {α β : Type} {f : α → β} {g : β → α} (hg : ∀ a, g (f a) = a)
    {r : Res α} {o : Res β} (h : resMap f r = o) : r = resMap g o := by
  subst h
  cases r with
  | ok a => simp only [resMap, hg]
  | fail => rfl
  | panic => rfl



/-! ## 2. `is_sortable`, `is_sorted`, `has_negative_indices`, `is_forward_only` -/

theorem getUserboundsOnly_bound (b : UserBoundsL) (t : List BoFL) (s s' : SideL) :
    UserBoundsListL.getUserboundsOnly ⟨BoFL.bound b :: t, s⟩ =
      b :: UserBoundsListL.getUserboundsOnly ⟨t, s'⟩ := rfl

theorem getUserboundsOnly_filler (f : Bytes) (t : List BoFL) (s s' : SideL) :
    UserBoundsListL.getUserboundsOnly ⟨BoFL.filler f :: t, s⟩ =
      UserBoundsListL.getUserboundsOnly ⟨t, s'⟩ := rfl

theorem getUserboundsOnly_eq (l : List BoFL) (s : SideL) :
    (UserBoundsListL.getUserboundsOnly ⟨l, s⟩).map UserBoundsL.toModel = boundsOnly (l.map BoFL.toModel) := by
  induction l with
  | nil => rfl
  | cons x t ih =>
    cases x with
    | bound b =>
      rw [getUserboundsOnly_bound b t s s]
      simp only [List.map_cons, BoFL.toModel, boundsOnly, ih]
    | filler f =>
      rw [getUserboundsOnly_filler f t s s]
      simp only [List.map_cons, BoFL.toModel, boundsOnly, ih]

theorem isPositive_eq (x : I32) : isPositive x = decide (x.val > 0) := rfl
theorem isNegative_eq (x : I32) : isNegative x = decide (x.val < 0) := rfl

theorem side_pos_cases (x : I32) :
    (isPositive x = true ∧ decide (x.val > 0) = true ∧ decide (x.val ≤ 0) = false) ∨
    (isPositive x = false ∧ decide (x.val > 0) = false ∧ decide (x.val ≤ 0) = true) := by
  rw [isPositive_eq]
  by_cases h : x.val > 0
  · left; exact ⟨decide_eq_true h, decide_eq_true h, decide_eq_false (by omega)⟩
  · right; exact ⟨decide_eq_false h, decide_eq_false h, decide_eq_true (by omega)⟩

theorem isSortableLoop_eq (bs : List UserBoundsL) (hp hn : Bool) :
    isSortableLoop bs hp hn =
      (hp || (bs.map UserBoundsL.toModel).any (fun b => b.l.isPos || b.r.isPos),
       hn || (bs.map UserBoundsL.toModel).any (fun b => b.l.isNonPos || b.r.isNonPos)) := by
  induction bs generalizing hp hn with
  | nil => simp [isSortableLoop]
  | cons b t ih =>
    obtain ⟨l, r, il, fb⟩ := b
    simp only [isSortableLoop, ih, List.map_cons, List.any_cons, UserBoundsL.toModel]
    cases l with
    | cont =>
      cases r with
      | cont => simp [SideL.toModel, Side.isPos, Side.isNonPos]
      | some y =>
        rcases side_pos_cases y with ⟨h1, h2, h3⟩ | ⟨h1, h2, h3⟩ <;>
          simp [SideL.toModel, Side.isPos, Side.isNonPos, h1, h2, h3]
    | some x =>
      cases r with
      | cont =>
        rcases side_pos_cases x with ⟨h1, h2, h3⟩ | ⟨h1, h2, h3⟩ <;>
          simp [SideL.toModel, Side.isPos, Side.isNonPos, h1, h2, h3]
      | some y =>
        rcases side_pos_cases x with ⟨h1, h2, h3⟩ | ⟨h1, h2, h3⟩ <;>
        rcases side_pos_cases y with ⟨k1, k2, k3⟩ | ⟨k1, k2, k3⟩ <;>
          simp [SideL.toModel, Side.isPos, Side.isNonPos, h1, h2, h3, k1, k2, k3]

/-- **`is_sortable`** -/
theorem isSortable_eq (self : UserBoundsListL) :
    self.isSortable = Tuc.isSortable (self.list.map BoFL.toModel) := by
  obtain ⟨l, s⟩ := self
  simp only [UserBoundsListL.isSortable, Tuc.isSortable, isSortableLoop_eq, getUserboundsOnly_eq,
    Bool.false_or]


/-- non-vacuity: `-1,1` cannot be sorted, `a{1:2}é{5}b` and `2,1` can -/
example : (UserBoundsListL.mk vecMixed SideL.cont).isSortable = false ∧
    (UserBoundsListL.mk vecA SideL.cont).isSortable = true ∧
    (UserBoundsListL.mk vecBackwards SideL.cont).isSortable = true := by decide

theorem optionLe_some (p b : UserBoundsL) :
    optionLe (Option.some p) (Option.some b) = .ok (p.toModel.le b.toModel) := by
  simp only [optionLe, optionPartialCmp, partialCmp_eq, bind_ok, UserBounds.le]
  cases p.toModel.partialCmp b.toModel with
  | none => rfl
  | some o => cases o <;> rfl

theorem isSortedLoop_eq (bs : List UserBoundsL) (prev : Option UserBoundsL) :
    isSortedLoop bs prev =
      .ok (isSortedAux (prev.map UserBoundsL.toModel) (bs.map UserBoundsL.toModel)) := by
  induction bs generalizing prev with
  | nil => cases prev <;> rfl
  | cons b t ih =>
    cases prev with
    | none =>
      simp only [isSortedLoop, Option.isNone_none, if_true, bind_ok, ih, Option.map_none, Option.map_some,
        List.map_cons, isSortedAux]
    | some p =>
      simp only [isSortedLoop, Option.isNone_some, Bool.false_eq_true, if_false, optionLe_some, bind_ok,
        Option.map_some, List.map_cons, isSortedAux]
      by_cases h : p.toModel.le b.toModel = true
      · simp only [h, if_true, ih, Option.map_some]
      · simp only [h, if_false, Bool.false_eq_true]

/-- **`is_sorted`**: no comparison can overflow -/
theorem isSorted_eq (self : UserBoundsListL) :
    self.isSorted = .ok (Tuc.isSorted (self.list.map BoFL.toModel)) := by
  obtain ⟨l, s⟩ := self
  simp only [UserBoundsListL.isSorted, isSortedLoop_eq, Tuc.isSorted, getUserboundsOnly_eq, Option.map_none]

/-- non-vacuity: `a{1:2}é{5}b` is sorted, `2,1` is not, `-1,1` is not (different signs do not compare) -/
example : (UserBoundsListL.mk vecA SideL.cont).isSorted = .ok true ∧
    (UserBoundsListL.mk vecBackwards SideL.cont).isSorted = .ok false ∧
    (UserBoundsListL.mk vecMixed SideL.cont).isSorted = .ok false := by decide

theorem hasNegativeClosure_eq (b : UserBoundsL) :
    hasNegativeClosure b = (b.toModel.l.isNeg || b.toModel.r.isNeg) := by
  obtain ⟨l, r, il, fb⟩ := b
  cases l <;> cases r <;>
    simp [hasNegativeClosure, UserBoundsL.toModel, SideL.toModel, Side.isNeg, isNegative_eq]

/-- **`has_negative_indices`** -/
theorem hasNegativeIndices_eq (self : UserBoundsListL) :
    self.hasNegativeIndices = Tuc.hasNegativeIndices (self.list.map BoFL.toModel) := by
  obtain ⟨l, s⟩ := self
  simp only [UserBoundsListL.hasNegativeIndices, Tuc.hasNegativeIndices, ← getUserboundsOnly_eq l s,
    List.any_map]
  congr 1
  funext b
  exact hasNegativeClosure_eq b

example : (UserBoundsListL.mk vecMixed SideL.cont).hasNegativeIndices = true ∧
    (UserBoundsListL.mk vecA SideL.cont).hasNegativeIndices = false := by decide

/-- **`is_forward_only`** -/
theorem isForwardOnly_eq (self : UserBoundsListL) :
    self.isForwardOnly = .ok (Tuc.isForwardOnly (self.list.map BoFL.toModel)) := by
  simp only [UserBoundsListL.isForwardOnly, Tuc.isForwardOnly, isSortable_eq, isSorted_eq,
    hasNegativeIndices_eq, bind_ok]
  cases Tuc.isSortable (self.list.map BoFL.toModel) <;>
    cases Tuc.isSorted (self.list.map BoFL.toModel) <;> simp


example : (UserBoundsListL.mk vecA SideL.cont).isForwardOnly = .ok true ∧
    (UserBoundsListL.mk vecBackwards SideL.cont).isForwardOnly = .ok false ∧
    (UserBoundsListL.mk vecMixed SideL.cont).isForwardOnly = .ok false := by decide

/-! ## 3. `From<Vec<BoundOrFiller>>` -/

theorem setIsLast_zero (b : UserBoundsL) (t : List BoFL) :
    setIsLast (BoFL.bound b :: t) 0 = .ok (BoFL.bound { b with isLast := true } :: t) := rfl

theorem setIsLast_succ (x : BoFL) (t : List BoFL) (k : Nat) :
    setIsLast (x :: t) (k + 1) = resMap (x :: ·) (setIsLast t k) := by
  simp only [setIsLast, List.getElem?_cons_succ, List.set_cons_succ]
  cases h : t[k]? with
  | none => rfl
  | some y => cases y <;> rfl

/-- the loop of `from`: the right-most bound as the model computes it; `last_bound` ends up on the
    bound that `markLast` marks (and stays what it was when the list has no bound) -/
theorem fromLoop_eq (l : List BoFL) (i : Nat) (rm : Option SideL) (lb : Option Nat) :
    ∃ rm' lb', fromLoop l i rm lb = .ok (rm', lb') ∧
      rm'.map SideL.toModel =
        rightmostBound (rm.map SideL.toModel) (boundsOnly (l.map BoFL.toModel)) ∧
      (match markLast (l.map BoFL.toModel) with
       | Option.none => lb' = lb
       | Option.some l' => ∃ k, lb' = Option.some (i + k) ∧
           resMap (List.map BoFL.toModel) (setIsLast l k) = .ok l') := by
  induction l generalizing i rm lb with
  | nil => exact ⟨rm, lb, rfl, by cases rm <;> rfl, rfl⟩
  | cons x t ih =>
    cases x with
    | filler f =>
      obtain ⟨rm', lb', h1, h2, h3⟩ := ih (i + 1) rm lb
      refine ⟨rm', lb', by simp only [fromLoop, h1], by simpa only [List.map_cons, BoFL.toModel, boundsOnly] using h2, ?_⟩
      simp only [List.map_cons, BoFL.toModel, markLast]
      cases hm : markLast (t.map BoFL.toModel) with
      | none => rw [hm] at h3; exact h3
      | some l' =>
        rw [hm] at h3
        obtain ⟨k, hk, hs⟩ := h3
        refine ⟨k + 1, by rw [hk]; congr 1; omega, ?_⟩
        rw [setIsLast_succ]
        cases hsl : setIsLast t k with
        | ok u => rw [hsl] at hs; simp only [resMap, Res.ok.injEq] at hs; simp [resMap, hs, BoFL.toModel]
        | fail => rw [hsl] at hs; cases hs
        | panic => rw [hsl] at hs; cases hs
    | bound b =>
      -- the guard of l.37
      have hc : ∃ c, (if rm.isNone then Res.ok true
          else someOrPanic rm fun m => SideL.gt b.r m) = .ok c ∧
          (if c then Option.some b.r else rm).map SideL.toModel =
            (match rm.map SideL.toModel with
             | Option.none => Option.some b.r.toModel
             | Option.some m => if b.r.toModel.gt m then Option.some b.r.toModel else Option.some m) := by
        cases rm with
        | none => exact ⟨true, rfl, rfl⟩
        | some m =>
          refine ⟨b.r.toModel.gt m.toModel, by simp [someOrPanic_some, SideL.gt_eq], ?_⟩
          simp only [Option.map_some]
          by_cases hg : b.r.toModel.gt m.toModel = true
          · rw [if_pos hg, if_pos hg]; rfl
          · rw [if_neg hg, if_neg hg]; rfl
      obtain ⟨c, hc1, hc2⟩ := hc
      obtain ⟨rm', lb', h1, h2, h3⟩ := ih (i + 1) (if c then Option.some b.r else rm) (Option.some i)
      refine ⟨rm', lb', by simp only [fromLoop, hc1, bind_ok, h1], ?_, ?_⟩
      · rw [h2, hc2]
        simp only [List.map_cons, BoFL.toModel, boundsOnly]
        cases rm with
        | none => rfl
        | some m => rfl
      · simp only [List.map_cons, BoFL.toModel, markLast]
        cases hm : markLast (t.map BoFL.toModel) with
        | none =>
          rw [hm] at h3
          exact ⟨0, by rw [h3]; rfl, by rw [setIsLast_zero]; rfl⟩
        | some l' =>
          rw [hm] at h3
          obtain ⟨k, hk, hs⟩ := h3
          refine ⟨k + 1, by rw [hk]; congr 1; omega, ?_⟩
          rw [setIsLast_succ]
          cases hsl : setIsLast t k with
          | ok u => rw [hsl] at hs; simp only [resMap, Res.ok.injEq] at hs; simp [resMap, hs, BoFL.toModel]
          | fail => rw [hsl] at hs; cases hs
          | panic => rw [hsl] at hs; cases hs

/-- **`impl From<Vec<BoundOrFiller>> for UserBoundsList`** = `fromVec`, for every list: the `unwrap` of
    l.37 cannot panic, the comparison of l.37 cannot overflow, the `expect` of l.50 panics exactly
    when the model says so (a list without a bound). -/
theorem fromVec_eq (list : List BoFL) :
    resMap UserBoundsListL.toModel (fromVecLit list) = fromVec (list.map BoFL.toModel) := by
  obtain ⟨rm', lb', h1, h2, h3⟩ := fromLoop_eq list 0 Option.none Option.none
  simp only [fromVecLit, h1, bind_ok, fromVec, isSortable_eq]
  cases hm : markLast (list.map BoFL.toModel) with
  | none =>
    rw [hm] at h3
    subst h3
    rfl
  | some l' =>
    rw [hm] at h3
    obtain ⟨k, hk, hs⟩ := h3
    subst hk
    simp only [someOrPanic_some, Nat.zero_add]
    cases hsl : setIsLast list k with
    | ok u =>
      rw [hsl] at hs
      simp only [resMap, Res.ok.injEq] at hs
      simp only [bind_ok, resMap, UserBoundsListL.toModel, hs, Res.ok.injEq, UserBoundsList.mk.injEq, true_and]
      simp only [Option.map_none] at h2
      rw [← h2]
      cases Tuc.isSortable (list.map BoFL.toModel) with
      | false => rfl
      | true => cases rm' <;> rfl
    | fail => rw [hsl] at hs; cases hs
    | panic => rw [hsl] at hs; cases hs


/-- non-vacuity: `is_last` lands on `{5}`, the right-most bound is 5; on `-1,1` (not sortable) it is
    `Side::Continue`; a vector without a bound panics in `expect` -/
example :
    fromVecLit vecA = .ok
      { list := [BoFL.filler [97], BoFL.bound (UserBoundsL.new (S 1) (S 2)), BoFL.filler [195, 169],
          BoFL.bound { UserBoundsL.new (S 5) (S 5) with isLast := true }, BoFL.filler [98]],
        lastInterestingField := S 5 } ∧
    resMap UserBoundsListL.lastInterestingField (fromVecLit vecMixed) = .ok SideL.cont ∧
    resMap UserBoundsListL.lastInterestingField (fromVecLit vecBackwards) = .ok (S 2) ∧
    fromVecLit [BoFL.filler [97]] = .panic ∧ fromVecLit [] = .panic := by decide

/-! ## 4. `unpack`, `complement` -/

/-- no bound of the list has the literal `0` as its left side (what `UserBounds::from_str`
    guarantees; `UserBounds::new` does not) -/
def leftNonzero (l : List BoFL) : Bool :=
  l.all fun x =>
    match x with
    | .bound b => b.l != SideL.some (i32 0)
    | .filler _ => true

theorem leftNonzero_cons_bound (b : UserBoundsL) (t : List BoFL) :
    leftNonzero (BoFL.bound b :: t) = true ↔ b.l ≠ SideL.some (i32 0) ∧ leftNonzero t = true := by
  simp [leftNonzero]

theorem leftNonzero_cons_filler (f : Bytes) (t : List BoFL) :
    leftNonzero (BoFL.filler f :: t) = leftNonzero t := by
  simp [leftNonzero]

theorem resFlatMapM_eq (f : BoFL → Res (List BoFL)) (g : BoF → List BoF) (l : List BoFL)
    (h : ∀ x ∈ l, resMap (List.map BoFL.toModel) (f x) = .ok (g x.toModel)) :
    resMap (List.map BoFL.toModel) (resFlatMapM f l) = .ok ((l.map BoFL.toModel).flatMap g) := by
  induction l with
  | nil => rfl
  | cons x t ih =>
    have hx := h x List.mem_cons_self
    have ht := ih fun y hy => h y (List.mem_cons_of_mem _ hy)
    simp only [resFlatMapM]
    cases hfx : f x with
    | ok bs =>
      rw [hfx] at hx
      simp only [resMap, Res.ok.injEq] at hx
      cases hft : resFlatMapM f t with
      | ok r =>
        rw [hft] at ht
        simp only [resMap, Res.ok.injEq] at ht
        simp only [bind_ok, resMap, List.map_append, hx, ht, List.map_cons, List.flatMap_cons]
      | fail => rw [hft] at ht; cases ht
      | panic => rw [hft] at ht; cases ht
    | fail => rw [hfx] at hx; cases hx
    | panic => rw [hfx] at hx; cases hx

theorem unpackClosure_eq (n : Nat) (hn : n < 2147483648) (x : BoFL)
    (hx : leftNonzero [x] = true) :
    resMap (List.map BoFL.toModel) (unpackClosure n x) = .ok (unpackBof n x.toModel) := by
  cases x with
  | filler f => rfl
  | bound b =>
    have hl := ((leftNonzero_cons_bound b []).mp hx).1
    have h := BoundsLit.unpack_eq b n hn hl
    simp only [unpackClosure, BoFL.toModel, unpackBof]
    cases hu : b.unpack n with
    | ok v =>
      rw [hu] at h
      simp only [resMap, Res.ok.injEq] at h
      simp only [bind_ok, resMap, ← h, List.map_map]
      rfl
    | fail => rw [hu] at h; cases h
    | panic => rw [hu] at h; cases h

theorem leftNonzero_mem (l : List BoFL) (h : leftNonzero l = true) (x : BoFL) (hx : x ∈ l) :
    leftNonzero [x] = true := by
  simp only [leftNonzero, List.all_eq_true] at h ⊢
  intro y hy
  simp only [List.mem_singleton] at hy
  subst hy
  exact h _ hx

/-- **`UserBoundsList::unpack`** = `unpackList` with fewer than 2³¹ fields, on a list none of whose
    bounds has the literal `0` as its left side -/
theorem unpack_eq (self : UserBoundsListL) (n : Nat) (hn : n < 2147483648)
    (hl : leftNonzero self.list = true) :
    resMap UserBoundsListL.toModel (self.unpack n) = unpackList (self.list.map BoFL.toModel) n := by
  have h := resFlatMapM_eq (unpackClosure n) (unpackBof n) self.list
    fun x hx => unpackClosure_eq n hn x (leftNonzero_mem _ hl x hx)
  simp only [UserBoundsListL.unpack, unpackList]
  cases hr : resFlatMapM (unpackClosure n) self.list with
  | ok list =>
    rw [hr] at h
    simp only [resMap, Res.ok.injEq] at h
    rw [bind_ok, fromVec_eq, h]
  | fail => rw [hr] at h; cases h
  | panic => rw [hr] at h; cases h

/-- non-vacuity: `a{1:2}é{5}b` on 4 fields — `5` does not resolve and is kept -/
example :
    resMap UserBoundsListL.toModel ((UserBoundsListL.mk vecA SideL.cont).unpack 4) =
      unpackList (vecA.map BoFL.toModel) 4 ∧
    resMap (fun u => u.list.length) ((UserBoundsListL.mk vecA SideL.cont).unpack 4) = .ok 6 :=
  ⟨unpack_eq _ 4 (by decide) (by decide), by decide⟩

theorem complementClosure_eq (n : Nat) (hn : n < 2147483648) (x : BoFL)
    (hx : leftNonzero [x] = true) :
    resMap (List.map BoFL.toModel) (complementClosure n x) = .ok (complementBof n x.toModel) := by
  cases x with
  | filler f => rfl
  | bound b =>
    have hl := ((leftNonzero_cons_bound b []).mp hx).1
    have h := BoundsLit.complement_eq b n hn hl
    simp only [complementClosure, BoFL.toModel, complementBof]
    cases hu : b.complement n with
    | ok v =>
      rw [hu] at h
      cases hm : b.toModel.complement n with
      | none => rw [hm] at h; cases h
      | some bs =>
        rw [hm] at h
        simp only [resMap, resOfOption, Res.ok.injEq] at h
        simp only [resMap, ← h, List.map_map]
        rfl
    | fail =>
      rw [hu] at h
      cases hm : b.toModel.complement n with
      | none => rfl
      | some bs => rw [hm] at h; cases h
    | panic => rw [hu] at h; cases hm : b.toModel.complement n <;> rw [hm] at h <;> cases h

theorem any_isBound_eq (l : List BoFL) :
    l.any BoFL.isBound = !(boundsOnly (l.map BoFL.toModel)).isEmpty := by
  induction l with
  | nil => rfl
  | cons x t ih =>
    cases x with
    | bound b => simp [BoFL.isBound, BoFL.toModel, boundsOnly]
    | filler f => simpa [BoFL.isBound, BoFL.toModel, boundsOnly] using ih

/-- **`UserBoundsList::complement`** = `complementList` with fewer than 2³¹ fields, on a list none of
    whose bounds has the literal `0` as its left side -/
theorem complement_eq (self : UserBoundsListL) (n : Nat) (hn : n < 2147483648)
    (hl : leftNonzero self.list = true) :
    resMap UserBoundsListL.toModel (self.complement n) =
      complementList (self.list.map BoFL.toModel) n := by
  have h := resFlatMapM_eq (complementClosure n) (complementBof n) self.list
    fun x hx => complementClosure_eq n hn x (leftNonzero_mem _ hl x hx)
  simp only [UserBoundsListL.complement, complementList]
  cases hr : resFlatMapM (complementClosure n) self.list with
  | ok list =>
    rw [hr] at h
    simp only [resMap, Res.ok.injEq] at h
    rw [bind_ok, any_isBound_eq, h]
    cases (boundsOnly (List.flatMap (complementBof n) (self.list.map BoFL.toModel))).isEmpty with
    | true => rfl
    | false =>
      simp only [Bool.not_false, Bool.not_true, Bool.false_eq_true, if_false]
      rw [fromVec_eq, h]
  | fail => rw [hr] at h; cases h
  | panic => rw [hr] at h; cases h



/-- non-vacuity: `a{1:2}é{5}b` on 6 fields is `a{3:6}é{1:4}{6}b`; the complement of `1:` is empty -/
example :
    resMap UserBoundsListL.toModel ((UserBoundsListL.mk vecA SideL.cont).complement 6) =
      complementList (vecA.map BoFL.toModel) 6 ∧
    resMap (fun u => u.list) ((UserBoundsListL.mk vecA SideL.cont).complement 6) = .ok
      [BoFL.filler [97], BoFL.bound (UserBoundsL.new (S 3) (S 6)), BoFL.filler [195, 169],
       BoFL.bound (UserBoundsL.new (S 1) (S 4)),
       BoFL.bound { UserBoundsL.new (S 6) (S 6) with isLast := true }, BoFL.filler [98]] ∧
    (UserBoundsListL.mk [BoFL.bound (UserBoundsL.new (S 1) SideL.cont)] SideL.cont).complement 6 = .fail :=
  ⟨complement_eq _ 6 (by decide) (by decide), by decide, by decide⟩

/-! ## 5. `parse_bounds_list`: byte offsets -/

theorem strLen_append (a b : List Char) : strLen (a ++ b) = strLen a + strLen b := by
  induction a with
  | nil => simp [strLen]
  | cons c t ih => simp only [List.cons_append, strLen, ih]; omega

theorem strLen_pos (c : Char) (t : List Char) : 0 < strLen (c :: t) := by
  have := Char.utf8Size_pos c
  simp only [strLen]; omega

theorem strLen_eq_zero (a : List Char) : strLen a = 0 ↔ a = [] := by
  cases a with
  | nil => simp [strLen]
  | cons c t => have := strLen_pos c t; simp; omega

theorem isCharBoundary_zero (s : List Char) : isCharBoundary s 0 = true := by
  cases s <;> simp [isCharBoundary]

/-- the byte length of a prefix of whole characters is a char boundary -/
theorem isCharBoundary_prefix (a b : List Char) : isCharBoundary (a ++ b) (strLen a) = true := by
  induction a with
  | nil => exact isCharBoundary_zero b
  | cons c t ih =>
    simp only [List.cons_append, isCharBoundary, strLen, Nat.add_sub_cancel_left, ih, Bool.and_true]
    simp

theorem takeBytes_prefix (a b : List Char) : takeBytes (a ++ b) (strLen a) = a := by
  induction a with
  | nil => cases b <;> simp [takeBytes, strLen]
  | cons c t ih =>
    have := Char.utf8Size_pos c
    simp only [List.cons_append, takeBytes, strLen, Nat.add_sub_cancel_left, ih]
    rw [if_neg (by omega)]

theorem dropBytes_prefix (a b : List Char) : dropBytes (a ++ b) (strLen a) = b := by
  induction a with
  | nil => cases b <;> simp [dropBytes, strLen]
  | cons c t ih =>
    have := Char.utf8Size_pos c
    simp only [List.cons_append, dropBytes, strLen, Nat.add_sub_cancel_left, ih]
    rw [if_neg (by omega)]

/-- `&s[a..b]` between the ends of two prefixes of whole characters is what lies between them -/
theorem strSlice_mid (a b c : List Char) :
    strSlice (a ++ b ++ c) (strLen a) (strLen (a ++ b)) = .ok b := by
  have h1 : isCharBoundary (a ++ b ++ c) (strLen a) = true := by
    rw [List.append_assoc]; exact isCharBoundary_prefix a (b ++ c)
  have h2 : isCharBoundary (a ++ b ++ c) (strLen (a ++ b)) = true := isCharBoundary_prefix (a ++ b) c
  have h3 : strLen a ≤ strLen (a ++ b) := by rw [strLen_append]; omega
  simp only [strSlice, h1, h2, decide_eq_true h3, Bool.and_self, if_true, takeBytes_prefix,
    dropBytes_prefix]

theorem strSliceFrom_suffix (a b : List Char) : strSliceFrom (a ++ b) (strLen a) = .ok b := by
  simp only [strSliceFrom, isCharBoundary_prefix, if_true, dropBytes_prefix]

theorem head_charIndicesFrom (off : Nat) (t : List Char) :
    ((charIndicesFrom off t).head?.getD (0, 'x')).2 = t.head?.getD 'x' := by
  cases t <;> rfl

theorem fillerOf_eq (t : List Char) : fillerOf t = unescapeFiller t := rfl

/-! ### the loop body -/

theorem parseAll_cons (p : List Char) (ps : List (List Char)) :
    parseAll (p :: ps) = (parseUserBounds p).bind fun b => (parseAll ps).map (b :: ·) := by
  simp only [parseAll]
  cases parseUserBounds p <;> cases parseAll ps <;> rfl

theorem pushBoundsLoop_eq (ps : List (List Char)) (bof : List BoFL) :
    resMap (List.map BoFL.toModel) (pushBoundsLoop ps bof) =
      resOfOption ((parseAll ps).map fun bs => bof.map BoFL.toModel ++ bs.map BoF.bound) := by
  induction ps generalizing bof with
  | nil => simp [pushBoundsLoop, parseAll, resMap, resOfOption]
  | cons p ps ih =>
    rw [parseAll_cons]
    simp only [pushBoundsLoop]
    rcases resMap_eq_ofOption (UserBoundsL.fromStr_eq p) with ⟨a, ha, hm⟩ | ⟨ha, hm⟩
    · rw [ha, hm, bind_ok, ih]
      cases parseAll ps with
      | none => rfl
      | some bs => simp [resOfOption, BoFL.toModel]
    · rw [ha, hm, bind_fail]; rfl


theorem lbrace_size : '{'.utf8Size = 1 := by decide
theorem rbrace_size : '}'.utf8Size = 1 := by decide

/-- one round of the loop for a character that is not half of an escaped bracket: the Rust body
    and `scanStep` fail together, or produce corresponding states — no slice is out of range or off a
    char boundary, `idx - part_start` does not underflow -/
theorem scanBody_eq (pre0 part t : List Char) (w0 : Char) (st : ScanSt) (bof : List BoFL)
    (hpart : st.part = part.reverse) (hbof : bof.map BoFL.toModel = st.bof.reverse) :
    (scanStep w0 st = Option.none ∧
      scanBody (pre0 ++ part ++ w0 :: t) (strLen (pre0 ++ part)) w0 bof st.inside (strLen pre0) = .fail) ∨
    (∃ st' bof' pre0' part', scanStep w0 st = Option.some st' ∧
      scanBody (pre0 ++ part ++ w0 :: t) (strLen (pre0 ++ part)) w0 bof st.inside (strLen pre0) =
        .ok (bof', st'.inside, strLen pre0') ∧
      pre0' ++ part' = pre0 ++ part ++ [w0] ∧ st'.part = part'.reverse ∧
      bof'.map BoFL.toModel = st'.bof.reverse) := by
  obtain ⟨ins, p, sb⟩ := st
  simp only at hpart hbof
  subst hpart
  have hsub : usizeSub (strLen (pre0 ++ part)) (strLen pre0) = .ok (strLen part) := by
    simp only [usizeSub, strLen_append]
    rw [if_pos (by omega)]
    congr 1; omega
  have hslice : strSlice (pre0 ++ part ++ w0 :: t) (strLen pre0) (strLen (pre0 ++ part)) = .ok part :=
    strSlice_mid pre0 part (w0 :: t)
  by_cases h1 : w0 = '}'
  · subst h1
    cases ins with
    | false => left; simp [scanStep, scanBody]
    | true =>
      have hne : ('}' == '{') = false := by decide
      simp only [scanStep, scanBody, hne, Bool.not_true, Bool.and_false, Bool.false_eq_true, if_false,
        and_false, beq_self_eq_true, if_true, hslice, bind_ok, List.reverse_reverse,
        show ('}' : Char) ≠ '{' by decide]
      have hp := pushBoundsLoop_eq (splitOnChar ',' part) bof
      cases hpa : parseAll (splitOnChar ',' part) with
      | none =>
        left
        rw [hpa] at hp
        cases hpl : pushBoundsLoop (splitOnChar ',' part) bof with
        | ok u => rw [hpl] at hp; cases hp
        | fail => exact ⟨rfl, rfl⟩
        | panic => rw [hpl] at hp; cases hp
      | some bs =>
        right
        rw [hpa] at hp
        cases hpl : pushBoundsLoop (splitOnChar ',' part) bof with
        | ok u =>
          rw [hpl] at hp
          simp only [resMap, resOfOption, Option.map_some, Res.ok.injEq] at hp
          refine ⟨_, u, pre0 ++ part ++ ['}'], [], rfl, ?_, by simp, rfl, ?_⟩
          · simp only [bind_ok, strLen_append, strLen, rbrace_size]
          · simp only [hp, hbof, List.reverse_append, List.reverse_reverse]
        | fail => rw [hpl] at hp; cases hp
        | panic => rw [hpl] at hp; cases hp
  · by_cases h2 : w0 = '{'
    · subst h2
      have hne : ('{' == '}') = false := by decide
      cases ins with
      | true => left; simp [scanStep, scanBody, hne]
      | false =>
        right
        simp only [scanStep, scanBody, hne, Bool.false_and, Bool.false_eq_true, if_false, false_and,
          beq_self_eq_true, if_true, hsub, bind_ok, show ('{' : Char) ≠ '}' by decide]
        by_cases hp : part = []
        · subst hp
          refine ⟨_, bof, pre0 ++ ['{'], [], rfl, ?_, by simp, rfl, ?_⟩
          · simp [strLen, strLen_append, lbrace_size, Res.bind]
          · simp [ScanSt.pushFiller, hbof]
        · have hpos : strLen part > 0 := by
            have := mt (strLen_eq_zero part).mp hp
            omega
          refine ⟨_, bof ++ [BoFL.filler (fillerOf part)], pre0 ++ part ++ ['{'], [], rfl, ?_, by simp, rfl, ?_⟩
          · rw [if_pos hpos, hslice]
            simp only [bind_ok, strLen_append, strLen, lbrace_size]
          · simp [ScanSt.pushFiller, hbof, hp, fillerOf_eq, BoFL.toModel]
    · right
      have e1 : (w0 == '}') = false := by simpa using h1
      have e2 : (w0 == '{') = false := by simpa using h2
      refine ⟨{ inside := ins, part := w0 :: part.reverse, bof := sb }, bof, pre0, part ++ [w0], ?_, ?_,
        by simp, ?_, hbof⟩
      · simp only [scanStep, h1, h2, false_and, if_false]
      · simp only [scanBody, e1, e2, Bool.false_and, Bool.false_eq_true, if_false]
      · simp


/-! ### the loop -/

theorem scan_nil (st : ScanSt) : scan [] st = scanEnd st := by
  rw [scan]

theorem scan_esc (w0 : Char) (rest : List Char) (st : ScanSt) (h : w0 = '{' ∨ w0 = '}') :
    scan (w0 :: w0 :: rest) st = scan rest { st with part := w0 :: w0 :: st.part } := by
  rw [scan]
  simp only [true_and, h, if_true]

theorem scan_noesc (w0 : Char) (t : List Char) (st : ScanSt)
    (h : ¬ (w0 = t.head?.getD 'x' ∧ (w0 = '{' ∨ w0 = '}'))) :
    scan (w0 :: t) st = (scanStep w0 st).bind fun st' => scan t st' := by
  cases t with
  | nil =>
    rw [scan]
    cases scanStep w0 st with
    | none => rfl
    | some st' => simp only [Option.bind_some, scan_nil]
  | cons w1 rest =>
    rw [scan]
    simp only [List.head?_cons, Option.getD_some] at h
    rw [if_neg h]
    cases scanStep w0 st <;> rfl

theorem scanLoop_nil (s : List Char) (bof : List BoFL) (ins : Bool) (ps : Nat) :
    scanLoop s [] bof ins ps = .ok (bof, ins, ps) := by
  rw [scanLoop]

theorem scanLoop_cons (s : List Char) (idx : Nat) (w0 : Char) (iter : List (Nat × Char))
    (bof : List BoFL) (ins : Bool) (ps : Nat) :
    scanLoop s ((idx, w0) :: iter) bof ins ps =
      if (w0 == (iter.head?.getD (0, 'x')).2 && (w0 == '{' || w0 == '}')) = true then
        scanLoop s (iter.drop 1) bof ins ps
      else (scanBody s idx w0 bof ins ps).bind fun st => scanLoop s iter st.1 st.2.1 st.2.2 := by
  rw [scanLoop]

/-- l.268-281: what follows the loop -/
def scanFinish (s : List Char) (st : List BoFL × Bool × Nat) : Res (List BoFL) :=
  if st.2.1 then .fail
  else
    (usizeSub (strLen s) st.2.2).bind fun d =>
    (if d > 0 then
      (strSliceFrom s st.2.2).bind fun t => .ok (st.1 ++ [BoFL.filler (fillerOf t)])
     else .ok st.1).bind fun bof =>
    .ok bof

theorem scanFinish_eq (pre0 part : List Char) (st : ScanSt) (bof : List BoFL)
    (hpart : st.part = part.reverse) (hbof : bof.map BoFL.toModel = st.bof.reverse) :
    resMap (List.map BoFL.toModel) (scanFinish (pre0 ++ part) (bof, st.inside, strLen pre0)) =
      resOfOption (scanEnd st) := by
  obtain ⟨ins, p, sb⟩ := st
  simp only at hpart hbof
  subst hpart
  cases ins with
  | true => rfl
  | false =>
    have hsub : usizeSub (strLen (pre0 ++ part)) (strLen pre0) = .ok (strLen part) := by
      simp only [usizeSub, strLen_append]
      rw [if_pos (by omega)]
      congr 1; omega
    simp only [scanFinish, Bool.false_eq_true, if_false, hsub, bind_ok, scanEnd, strSliceFrom_suffix]
    by_cases hp : part = []
    · subst hp
      simp [strLen, ScanSt.pushFiller, resMap, resOfOption, hbof, Res.bind]
    · have hpos : strLen part > 0 := by
        have := mt (strLen_eq_zero part).mp hp
        omega
      rw [if_pos hpos]
      simp [ScanSt.pushFiller, resMap, resOfOption, hbof, hp, fillerOf_eq, BoFL.toModel, Res.bind]

theorem optBind_eq_match {α β : Type} (o : Option α) (f : α → Option β) :
    o.bind f = match o with | Option.none => Option.none | Option.some a => f a := by
  cases o <;> rfl

/-- **the `while let` loop and what follows it** compute `scan`, from every state that the loop can
    be in: `rest` is what the iterator still has to yield, `pre0` the text before `part_start`,
    `part` the text between `part_start` and the iterator -/
theorem scanLoop_eq (n : Nat) : ∀ (rest : List Char), rest.length ≤ n →
    ∀ (st : ScanSt) (pre0 part : List Char) (bof : List BoFL),
    st.part = part.reverse → bof.map BoFL.toModel = st.bof.reverse →
    resMap (List.map BoFL.toModel)
      ((scanLoop (pre0 ++ part ++ rest) (charIndicesFrom (strLen (pre0 ++ part)) rest) bof st.inside
          (strLen pre0)).bind (scanFinish (pre0 ++ part ++ rest))) =
      resOfOption (scan rest st) := by
  induction n with
  | zero =>
    intro rest hlen st pre0 part bof hpart hbof
    have : rest = [] := List.eq_nil_of_length_eq_zero (by omega)
    subst this
    simp only [charIndicesFrom, scanLoop_nil, bind_ok, List.append_nil, scan_nil]
    exact scanFinish_eq pre0 part st bof hpart hbof
  | succ n ih =>
    intro rest hlen st pre0 part bof hpart hbof
    cases rest with
    | nil =>
      simp only [charIndicesFrom, scanLoop_nil, bind_ok, List.append_nil, scan_nil]
      exact scanFinish_eq pre0 part st bof hpart hbof
    | cons w0 t =>
      simp only [List.length_cons] at hlen
      simp only [charIndicesFrom, scanLoop_cons, head_charIndicesFrom]
      by_cases hesc : w0 = t.head?.getD 'x' ∧ (w0 = '{' ∨ w0 = '}')
      · -- an escaped bracket: two characters are consumed
        obtain ⟨hw1, hbr⟩ := hesc
        cases t with
        | nil =>
          simp only [List.head?_nil, Option.getD_none] at hw1
          subst hw1
          rcases hbr with h | h <;> exact absurd h (by decide)
        | cons w1 rest' =>
          simp only [List.head?_cons, Option.getD_some] at hw1
          subst hw1
          have hc : (w0 == w0 && (w0 == '{' || w0 == '}')) = true := by
            rcases hbr with h | h <;> simp [h]
          simp only [List.head?_cons, Option.getD_some, hc, if_true, charIndicesFrom, List.drop_succ_cons,
            List.drop_zero]
          rw [scan_esc w0 rest' st hbr]
          have := ih rest' (by simp only [List.length_cons] at hlen; omega)
            { st with part := w0 :: w0 :: st.part } pre0 (part ++ [w0, w0]) bof
            (by simp [hpart]) hbof
          have e1 : pre0 ++ (part ++ [w0, w0]) ++ rest' = pre0 ++ part ++ w0 :: w0 :: rest' := by simp
          have e2 : strLen (pre0 ++ (part ++ [w0, w0])) = strLen (pre0 ++ part) + w0.utf8Size + w0.utf8Size := by
            simp only [strLen_append, strLen]; omega
          rw [e1, e2] at this
          exact this
      · have hc : ¬ (w0 == t.head?.getD 'x' && (w0 == '{' || w0 == '}')) = true := by
          simpa using hesc
        rw [if_neg hc, scan_noesc w0 t st hesc]
        rcases scanBody_eq pre0 part t w0 st bof hpart hbof with ⟨hs, hb⟩ | ⟨st', bof', pre0', part', hs, hb, hpre, hpart', hbof'⟩
        · rw [hs, hb]; rfl
        · rw [hs, hb, bind_ok, Option.bind_some]
          have := ih t (by omega) st' pre0' part' bof' hpart' hbof'
          have e1 : pre0' ++ part' ++ t = pre0 ++ part ++ w0 :: t := by rw [hpre]; simp
          have e2 : strLen (pre0' ++ part') = strLen (pre0 ++ part) + w0.utf8Size := by
            rw [hpre]; simp only [strLen_append, strLen]; omega
          rw [e1, e2] at this
          exact this


theorem parseBoundsListLit_unfold (s : List Char) :
    parseBoundsListLit s =
      if s.isEmpty then .ok []
      else if s.any (fun c => c == '{' || c == '}') then
        (scanLoop s (charIndices s) [] false 0).bind (scanFinish s)
      else resMapM (fun x => resMap BoFL.bound (UserBoundsL.fromStr x)) (splitOnChar ',' s) := rfl

theorem plainList_eq (ps : List (List Char)) :
    resMap (List.map BoFL.toModel)
        (resMapM (fun x => resMap BoFL.bound (UserBoundsL.fromStr x)) ps) =
      resOfOption ((parseAll ps).map (·.map BoF.bound)) := by
  induction ps with
  | nil => rfl
  | cons p ps ih =>
    rw [parseAll_cons]
    simp only [resMapM]
    rcases resMap_eq_ofOption (UserBoundsL.fromStr_eq p) with ⟨a, ha, hm⟩ | ⟨ha, hm⟩
    · rw [ha, hm, show resMap BoFL.bound (Res.ok a) = Res.ok (BoFL.bound a) from rfl, bind_ok,
        Option.bind_some]
      cases hr : resMapM (fun x => resMap BoFL.bound (UserBoundsL.fromStr x)) ps with
      | ok u =>
        rw [hr] at ih
        cases hpa : parseAll ps with
        | none => rw [hpa] at ih; cases ih
        | some bs =>
          rw [hpa] at ih
          simp only [resMap, resOfOption, Option.map_some, Res.ok.injEq] at ih
          simp only [bind_ok, resMap, resOfOption, Option.map_some, List.map_cons, ih, BoFL.toModel]
      | fail =>
        rw [hr] at ih
        cases hpa : parseAll ps with
        | none => rfl
        | some bs => rw [hpa] at ih; cases ih
      | panic => rw [hr] at ih; cases hpa : parseAll ps <;> rw [hpa] at ih <;> cases ih
    · rw [ha, hm]; rfl

/-- **`parse_bounds_list`** computes `parseBoundsList` on EVERY string: in particular no `&s[a..b]` of
    the scanner is ever out of range or off a char boundary (whatever multi-byte characters the
    fillers contain and wherever they stand), `idx - part_start` and `s.len() - part_start` never
    underflow, and the per-bound parser never panics. -/
theorem parseBoundsListLit_toModel (s : List Char) :
    resMap (List.map BoFL.toModel) (parseBoundsListLit s) = resOfOption (parseBoundsList s) := by
  rw [parseBoundsListLit_unfold]
  unfold parseBoundsList
  by_cases he : s.isEmpty = true
  · rw [if_pos he, if_pos he]; rfl
  · rw [if_neg he, if_neg he]
    have hany : (s.any fun c => c == '{' || c == '}') = (s.any fun c => decide (c = '{' ∨ c = '}')) := by
      congr 1; funext c; rw [Bool.decide_or]; rfl
    rw [hany]
    by_cases hb : (s.any fun c => decide (c = '{' ∨ c = '}')) = true
    · rw [if_pos hb, if_pos hb]
      exact scanLoop_eq s.length s (Nat.le_refl _) { inside := false, part := [], bof := [] } [] [] [] rfl rfl
    · rw [if_neg hb, if_neg hb]
      exact plainList_eq _

/-- the same, read from the model's side: `parse_bounds_list(s)` IS the model's answer stored in
    the Rust types -/
theorem parseBoundsListLit_eq (s : List Char) :
    parseBoundsListLit s = resMap (List.map bofOfModel) (resOfOption (parseBoundsList s)) :=
  eq_resMap_of_toModel map_bofOfModel_of_toModel (parseBoundsListLit_toModel s)


/-- `parse_bounds_list` never panics -/
theorem parseBoundsListLit_never_panics (s : List Char) : parseBoundsListLit s ≠ .panic := by
  intro h
  have := parseBoundsListLit_toModel s
  rw [h] at this
  cases hm : parseBoundsList s <;> rw [hm] at this <;> cases this

/-- non-vacuity: 2-, 3- and 4-byte characters before, between and after the brackets, escapes, a
    fallback, comma-separated bounds (the `{` of `{1:2,…}` is at byte 2, that of `{3}` at byte 23;
    `{3}}}` is `{`, `3`, an escaped `}}`, `}`: the bound `3}}` is refused) -/
example :
    parseBoundsListLit "é{1:2,-1=x}{{\\t€😎{3}x}}".toList = .ok
      [BoFL.filler [195, 169], BoFL.bound (UserBoundsL.new (S 1) (S 2)),
       BoFL.bound (UserBoundsL.withFallback (S (-1)) (S (-1)) (Option.some [120])),
       BoFL.filler [123, 9, 226, 130, 172, 240, 159, 152, 142],
       BoFL.bound (UserBoundsL.new (S 3) (S 3)), BoFL.filler [120, 125]] ∧
    parseBoundsListLit "é{3}}}".toList = .fail ∧
    parseBoundsListLit "é{1}}".toList = .fail ∧ parseBoundsListLit "é}".toList = .fail ∧
    parseBoundsListLit "1:2,é".toList = .fail := by
  simp only [parseBoundsListLit_eq]
  decide

/-! ## 6. `UserBoundsList::from_str` -/

theorem dropWhile_eq_nil {α : Type} (p : α → Bool) (l : List α) :
    l.dropWhile p = [] ↔ ∀ a ∈ l, p a = true := by
  induction l with
  | nil => simp
  | cons x t ih =>
    by_cases hx : p x = true
    · rw [List.dropWhile_cons_of_pos hx, ih]; simp [hx]
    · rw [List.dropWhile_cons_of_neg hx]; simp [hx]

/-- `s.trim().is_empty()` is "every character is white space" -/
theorem strTrim_isEmpty (s : List Char) : (strTrim s).isEmpty = s.all isWhitespace := by
  unfold strTrim
  by_cases h : s.all isWhitespace = true
  · have : s.dropWhile isWhitespace = [] :=
      (dropWhile_eq_nil _ _).mpr (by simpa using h)
    simp [this, h]
  · rw [Bool.not_eq_true] at h
    rw [h]
    have hd : s.dropWhile isWhitespace ≠ [] := by
      intro hd
      rw [dropWhile_eq_nil] at hd
      have : s.all isWhitespace = true := List.all_eq_true.mpr hd
      rw [h] at this; cases this
    have hc := List.head_dropWhile_not isWhitespace hd
    have hmem : (s.dropWhile isWhitespace).head hd ∈ (s.dropWhile isWhitespace).reverse := by
      simp [List.head_mem]
    have h2 : (s.dropWhile isWhitespace).reverse.dropWhile isWhitespace ≠ [] := by
      intro h2
      rw [dropWhile_eq_nil] at h2
      have := h2 _ hmem
      rw [hc] at this; cases this
    simp [h2]

/-- **`UserBoundsList::from_str`** = `boundsListOfString` on every string (in particular it never
    panics: `boundsListOfString_never_panics`) -/
theorem fromStrLit_toModel (s : List Char) :
    resMap UserBoundsListL.toModel (fromStrLit s) = boundsListOfString s := by
  unfold fromStrLit boundsListOfString
  rw [strTrim_isEmpty]
  by_cases h : s.all isWhitespace = true
  · rw [if_pos h, if_pos h]; rfl
  · rw [if_neg h, if_neg h]
    have hp := parseBoundsListLit_toModel s
    cases hl : parseBoundsListLit s with
    | ok list =>
      rw [hl] at hp
      cases hm : parseBoundsList s with
      | none => rw [hm] at hp; cases hp
      | some l =>
        rw [hm] at hp
        simp only [resMap, resOfOption, Res.ok.injEq] at hp
        subst hp
        simp only [bind_ok, any_isBound_eq]
        cases (boundsOnly (list.map BoFL.toModel)).isEmpty with
        | true => rfl
        | false =>
          simp only [Bool.not_false, Bool.not_true, Bool.false_eq_true, if_false]
          exact fromVec_eq list
    | fail =>
      rw [hl] at hp
      cases hm : parseBoundsList s with
      | none => rfl
      | some l => rw [hm] at hp; cases hp
    | panic => rw [hl] at hp; cases hm : parseBoundsList s <;> rw [hm] at hp <;> cases hp

/-- the same, read from the model's side -/
theorem fromStrLit_eq (s : List Char) :
    fromStrLit s = resMap listOfModel (boundsListOfString s) :=
  eq_resMap_of_toModel listOfModel_of_toModel (fromStrLit_toModel s)

/-- non-vacuity -/
example :
    fromStrLit "é{1:2}😎{-1}".toList = .ok
      { list := [BoFL.filler [195, 169], BoFL.bound (UserBoundsL.new (S 1) (S 2)),
          BoFL.filler [240, 159, 152, 142],
          BoFL.bound { UserBoundsL.new (S (-1)) (S (-1)) with isLast := true }],
        lastInterestingField := SideL.cont } ∧
    fromStrLit " \t".toList = .fail ∧ fromStrLit "é".toList = .fail ∧ fromStrLit "{0}".toList = .fail := by
  simp only [fromStrLit_eq]
  decide

/-- `UserBoundsList::from_str` never panics -/
theorem fromStrLit_never_panics (s : List Char) : fromStrLit s ≠ .panic := by
  intro h
  have := fromStrLit_toModel s
  rw [h] at this
  exact boundsListOfString_never_panics s this.symm

/-! ## 7. what the command line can produce -/

/-- a list that `UserBoundsList::from_str` accepted has no bound with the literal `0` on the left -/
theorem parsed_leftNonzero (s : List Char) (u : UserBoundsListL) (h : fromStrLit s = .ok u) :
    leftNonzero u.list = true := by
  have hm : boundsListOfString s = .ok u.toModel := by
    rw [← fromStrLit_toModel, h]; rfl
  have hnz := parsed_nonzero s u.toModel hm
  simp only [leftNonzero, List.all_eq_true]
  intro x hx
  cases x with
  | filler f => rfl
  | bound b =>
    have hb : BoF.bound b.toModel ∈ u.toModel.list :=
      List.mem_map.mpr ⟨_, hx, rfl⟩
    have h0 := (hnz _ hb).1
    simp only [bne_iff_ne, ne_eq]
    intro hz
    rw [show b.toModel.l = b.l.toModel from rfl, hz] at h0
    exact h0 rfl

/-- **end to end**: on what `UserBoundsList::from_str` accepted, every list function computes what the
    model says — `unpack` and `complement` on every record with fewer than 2³¹ fields, the others
    without any hypothesis -/
theorem parsed_list (s : List Char) (u : UserBoundsListL) (h : fromStrLit s = .ok u) :
    boundsListOfString s = .ok u.toModel ∧
    u.isSortable = Tuc.isSortable u.toModel.list ∧
    u.isSorted = .ok (Tuc.isSorted u.toModel.list) ∧
    u.hasNegativeIndices = Tuc.hasNegativeIndices u.toModel.list ∧
    u.isForwardOnly = .ok (Tuc.isForwardOnly u.toModel.list) ∧
    (∀ n, n < 2147483648 →
      resMap UserBoundsListL.toModel (u.unpack n) = unpackList u.toModel.list n ∧
      resMap UserBoundsListL.toModel (u.complement n) = complementList u.toModel.list n) := by
  refine ⟨by rw [← fromStrLit_toModel, h]; rfl, isSortable_eq u, isSorted_eq u, hasNegativeIndices_eq u,
    isForwardOnly_eq u, fun n hn => ?_⟩
  have hl := parsed_leftNonzero s u h
  exact ⟨unpack_eq u n hn hl, complement_eq u n hn hl⟩

/-- non-vacuity: `fromStrLit "é{2:}{{"` is accepted -/
example : ∃ u, fromStrLit "é{2:}{{".toList = .ok u ∧ u.list.length = 3 := by
  refine ⟨listOfModel
    { list := [BoF.filler [195, 169], BoF.bound { l := Side.some 2, r := Side.cont, isLast := true },
        BoF.filler [123]], lastInteresting := Side.cont }, ?_, rfl⟩
  rw [fromStrLit_eq]
  decide

/-! ### the model's own values: "every written side fits an `i32`" -/

/-- every side of every bound of the list fits an `i32` -/
def AllInI32 (l : List BoF) : Prop := ∀ b, BoF.bound b ∈ l → b.l.InI32 ∧ b.r.InI32

theorem toModel_allInI32 (l : List BoFL) : AllInI32 (l.map BoFL.toModel) := by
  intro b hb
  obtain ⟨x, _, hx⟩ := List.mem_map.mp hb
  cases x with
  | filler f => cases hx
  | bound bL =>
    simp only [BoFL.toModel, BoF.bound.injEq] at hx
    subst hx
    exact ⟨bL.l.toModel_inI32, bL.r.toModel_inI32⟩

theorem map_toModel_bofOfModel (l : List BoF) (h : AllInI32 l) :
    (l.map bofOfModel).map BoFL.toModel = l := by
  induction l with
  | nil => rfl
  | cons x t ih =>
    have ht : AllInI32 t := fun b hb => h b (List.mem_cons_of_mem _ hb)
    cases x with
    | filler f => simp only [List.map_cons, bofOfModel, BoFL.toModel, ih ht]
    | bound b =>
      have hb := h b List.mem_cons_self
      simp only [List.map_cons, bofOfModel, BoFL.toModel, ih ht, boundsOfModel_toModel b hb.1 hb.2]

/-- a model list is the image of a Rust value exactly when all its sides fit -/
theorem allInI32_iff_exists (l : List BoF) : AllInI32 l ↔ ∃ x : List BoFL, x.map BoFL.toModel = l :=
  ⟨fun h => ⟨l.map bofOfModel, map_toModel_bofOfModel l h⟩, fun ⟨x, hx⟩ => hx ▸ toModel_allInI32 x⟩

/-- **a parsed bound always fits an `i32`** -/
theorem parseBoundsList_allInI32 (s : List Char) (l : List BoF) (h : parseBoundsList s = Option.some l) :
    AllInI32 l := by
  have hp := parseBoundsListLit_toModel s
  rw [h] at hp
  cases hl : parseBoundsListLit s with
  | ok list =>
    rw [hl] at hp
    simp only [resMap, resOfOption, Res.ok.injEq] at hp
    subst hp
    exact toModel_allInI32 list
  | fail => rw [hl] at hp; cases hp
  | panic => rw [hl] at hp; cases hp

theorem fromVec_model (l : List BoF) (h : AllInI32 l) :
    resMap UserBoundsListL.toModel (fromVecLit (l.map bofOfModel)) = fromVec l := by
  rw [fromVec_eq, map_toModel_bofOfModel l h]

theorem isSortable_model (l : List BoF) (h : AllInI32 l) (f : SideL) :
    (UserBoundsListL.mk (l.map bofOfModel) f).isSortable = Tuc.isSortable l := by
  rw [isSortable_eq, map_toModel_bofOfModel l h]

theorem isSorted_model (l : List BoF) (h : AllInI32 l) (f : SideL) :
    (UserBoundsListL.mk (l.map bofOfModel) f).isSorted = .ok (Tuc.isSorted l) := by
  rw [isSorted_eq, map_toModel_bofOfModel l h]

theorem hasNegativeIndices_model (l : List BoF) (h : AllInI32 l) (f : SideL) :
    (UserBoundsListL.mk (l.map bofOfModel) f).hasNegativeIndices = Tuc.hasNegativeIndices l := by
  rw [hasNegativeIndices_eq, map_toModel_bofOfModel l h]

theorem isForwardOnly_model (l : List BoF) (h : AllInI32 l) (f : SideL) :
    (UserBoundsListL.mk (l.map bofOfModel) f).isForwardOnly = .ok (Tuc.isForwardOnly l) := by
  rw [isForwardOnly_eq, map_toModel_bofOfModel l h]

theorem leftNonzero_of_model (l : List BoF) (h : AllInI32 l) (h0 : LNZ l) :
    leftNonzero (l.map bofOfModel) = true := by
  simp only [leftNonzero, List.all_eq_true, List.mem_map]
  rintro x ⟨y, hy, rfl⟩
  cases y with
  | filler f => rfl
  | bound b =>
    simp only [bofOfModel, bne_iff_ne, ne_eq]
    exact boundsOfModel_l_ne_zero b (h b hy).1 (h0 b hy)

theorem unpack_model (l : List BoF) (h : AllInI32 l) (h0 : LNZ l) (f : SideL) (n : Nat)
    (hn : n < 2147483648) :
    resMap UserBoundsListL.toModel ((UserBoundsListL.mk (l.map bofOfModel) f).unpack n) =
      unpackList l n := by
  rw [unpack_eq _ n hn (leftNonzero_of_model l h h0), map_toModel_bofOfModel l h]

theorem complement_model (l : List BoF) (h : AllInI32 l) (h0 : LNZ l) (f : SideL) (n : Nat)
    (hn : n < 2147483648) :
    resMap UserBoundsListL.toModel ((UserBoundsListL.mk (l.map bofOfModel) f).complement n) =
      complementList l n := by
  rw [complement_eq _ n hn (leftNonzero_of_model l h h0), map_toModel_bofOfModel l h]

/-! ## 8. the hypotheses are necessary: concrete values

(`decide`: kernel evaluation of both definitions) -/

/-- the last field, `-f -1` -/
def lastField : UserBoundsListL := ⟨[BoFL.bound (UserBoundsL.new (S (-1)) (S (-1)))], SideL.cont⟩

/-- `0:`, which only `UserBounds::new` can build -/
def zeroLeft : UserBoundsListL := ⟨[BoFL.bound (UserBoundsL.new (S 0) SideL.cont)], SideL.cont⟩

/-- the first field, `-f 1` -/
def firstField : UserBoundsListL := ⟨[BoFL.bound (UserBoundsL.new (S 1) (S 1))], SideL.cont⟩

/-- 2³¹ fields (`try_into_range`, repaired, resolves `-1` to `2³¹ − 1 .. 2³¹`; until the repair
    `parts_length as i32` was `i32::MIN` and `-1` unpacked to itself): `i as i32 + 1` (userbounds.rs
    l.268) overflows on the slot `i = 2³¹ − 1` — a panic of the debug build — where the model says
    "field 2³¹", an index that no `Side` can hold -/
example :
    lastField.unpack 2147483648 = .panic ∧
    unpackList (lastField.list.map BoFL.toModel) 2147483648 =
      .ok { list := [BoF.bound { l := Side.some 2147483648, r := Side.some 2147483648, isLast := true }],
            lastInteresting := Side.some 2147483648 } := by decide

/-- 2³¹ fields: the complement of `1` is `2:2147483648` in the model; `UserBounds::from(1..2³¹)` panics
    in `end.try_into::<i32>().expect("range was bigger than expected")` -/
example :
    firstField.complement 2147483648 = .panic ∧
    complementList (firstField.list.map BoFL.toModel) 2147483648 =
      .ok { list := [BoF.bound { l := Side.some 2, r := Side.some 2147483648, isLast := true }],
            lastInteresting := Side.some 2147483648 } := by decide

/-- 2³¹ fields, what the repair of `try_into_range` changed: `1` unpacks to itself and the complement
    of `-1` is `1:2147483647`, as the model says (until the repair: nothing resolved) — what decides is
    the index the range reaches, not the number of fields -/
example :
    resMap UserBoundsListL.toModel (firstField.unpack 2147483648) =
      unpackList (firstField.list.map BoFL.toModel) 2147483648 ∧
    resMap UserBoundsListL.toModel (lastField.complement 2147483648) =
      complementList (lastField.list.map BoFL.toModel) 2147483648 ∧
    complementList (lastField.list.map BoFL.toModel) 2147483648 =
      .ok { list := [BoF.bound { l := Side.some 1, r := Side.some 2147483647, isLast := true }],
            lastInteresting := Side.some 2147483647 } := by decide

/-- 2³¹ − 1 fields — the largest number the hypothesis allows — is fine -/
example :
    resMap UserBoundsListL.toModel (lastField.complement 2147483647) =
      complementList (lastField.list.map BoFL.toModel) 2147483647 := by decide

/-- the left side `0` (3 fields): `UserBoundsList::unpack` panics in the `expect` of `into()` — the
    bound unpacked to nothing — where the model has three bounds; `complement` panics in
    `UserBounds::complement` where the model says "the complement is empty" -/
example :
    zeroLeft.unpack 3 = .panic ∧
    (∃ u, unpackList (zeroLeft.list.map BoFL.toModel) 3 = .ok u ∧ u.list.length = 3) ∧
    zeroLeft.complement 3 = .panic ∧
    complementList (zeroLeft.list.map BoFL.toModel) 3 = .fail := by
  refine ⟨by decide, ⟨_, rfl, by decide⟩, by decide, by decide⟩

end BoundsListLit
end Tuc
