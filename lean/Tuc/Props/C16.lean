import Tuc.Model.CutStr
import Tuc.Model.Regex
import Tuc.Lemmas.Run
import Tuc.Spec.RegexSpec
import Tuc.Lemmas.RegexSpec
/-!
# C16 — a regex delimiter splits at its matches and is replaced literally

First part: facts for ANY matcher (the engine only looks at the match lists).
Second part (proofs in `Tuc.Lemmas.RegexSpec`, specification in `Tuc.Spec.RegexSpec`):

1. the executable matcher of `Tuc.Model.Regex` honours the contract of `find_iter`
   (`regexMatcher_contract`, `regexBag_ok`);
2. `cut_str` with `-e RE` refines `Spec.specRecordRe`, a specification parametric in the matcher:
   * without `-r` / `-p` (`regexCut_eq_spec`, `regexRun_eq_spec`), for any matcher honouring the
     contract: `-g -t -s -m`, fallbacks, fillers;
   * with `-r R` (`regexCut_replace_eq_spec`), under `SliceStable` (the matcher is context-free on
     the slices that are printed) and non-empty matches: separators rendered as the literal `R`;
   * with `-p -r R` (`regexCompress_eq_literal`, `regexCompress_eq_spec`): the record is rewritten
     once and handed to the LITERAL engine with delimiter `R`;
3. `-t` (`trimRegex_spec`, `trimRegex_left`, `trimRegex_right`).
-/
namespace Tuc
open Tuc.Spec

/-- the fields are exactly the gaps between successive matches: the k-th field stops where the
    k-th match starts and the next one starts where it ends -/
theorem regexFields_are_gaps (L prev : Nat) (s e : Nat) (t : List (Nat × Nat)) :
    rangesBetweenMatches L prev ((s, e) :: t) = ⟨prev, s⟩ :: rangesBetweenMatches L e t := rfl

theorem regexFields_last (L prev : Nat) : rangesBetweenMatches L prev [] = [⟨prev, L⟩] := rfl

/-- one field more than there are matches -/
theorem regexFields_length (L prev : Nat) (ms : List (Nat × Nat)) :
    (rangesBetweenMatches L prev ms).length = ms.length + 1 := by
  induction ms generalizing prev with
  | nil => rfl
  | cons m t ih => obtain ⟨s, e⟩ := m; simp [rangesBetweenMatches, ih]

/-- `-r R` writes the literal text `R` for every match — never an expansion of it: the replacement
    is copied, whatever bytes (`$0`, `\1`, …) it contains -/
theorem regexReplace_literal (text r : Bytes) (prev s e : Nat) (t : List (Nat × Nat)) :
    replaceMatches text r prev ((s, e) :: t) = slice text prev s ++ r ++ replaceMatches text r e t := rfl

/-- `-t` with a regex removes only a match touching the chosen end: without a match at offset 0
    nothing is removed on the left -/
theorem trimRegex_left_untouched (line : Bytes) (ms : List (Nat × Nat))
    (h : ∀ s e, ms.head? = some (s, e) → s ≠ 0) : trimRegex line .left ms = line := by
  unfold trimRegex
  cases hm : ms.head? with
  | none => simp [slice]
  | some p =>
    obtain ⟨s, e⟩ := p
    have := h s e hm
    simp [this, slice]

/-- after `-p` rewrote every run to `R`, the printed slices are not matched again (the
    replacement is inserted once, even if it matches the regex itself) -/
theorem compressed_not_replaced_again (text : Bytes) (opt : Opt) :
    maybeReplaceDelimiter text opt true =
      if opt.boundsType = .characters then text
      else match opt.replaceDelimiter, opt.regexBag with
        | some _, some _ => text
        | some nd, none => replaceAll text opt.delimiter nd
        | none, _ => text := by
  unfold maybeReplaceDelimiter
  split
  · rfl
  · cases opt.replaceDelimiter <;> cases opt.regexBag <;> simp

/-! ## the matcher honours the contract of `find_iter` -/

/-- the matches `Re.findIter` reports are non-empty (`s < e`), in range (`e ≤ len`), in order and
    do not overlap (each starts at or after the end of the previous one) -/
theorem regexMatcher_contract (r : Re) (s : Bytes) : StrictMatches s.length 0 (r.findIter s) :=
  Re.findIter_ok r s

/-- a match consumes a prefix of the haystack -/
theorem regexMatchLen_le (r : Re) (s : Bytes) (n : Nat) (h : r.matchLen s = some n) :
    n ≤ s.length := Re.matchLen_le r s n h

/-- the bag of `-e RE` (`RE`, `(RE)+`) satisfies the hypothesis `RegexBag.OK` of the panic-freedom
    theorem (C12) and of the refinement theorems below -/
theorem regexBag_ok (r : Re) : (Re.bag r).OK := Re.bag_ok r

/-! ## `-t` -/

/-- `-t` with a regex, for ANY list of matches: a run that starts at offset 0 is cut off on the
    left (`-t l|b`), a run that ends at the end of the record on the right (`-t r|b`), nothing
    else is removed — `trim_regex` is the specification's `trimRe` -/
theorem trimRegex_spec (line : Bytes) (k : TrimKind) (ms : List (Nat × Nat)) :
    trimRegex line k ms = trimRe line k ms := trimRegex_eq_trimRe line k ms

/-- `-t l`: exactly the run touching the start is removed -/
theorem trimRegex_left (line : Bytes) (e : Nat) (t : List (Nat × Nat)) :
    trimRegex line .left ((0, e) :: t) = line.drop e := by
  rw [trimRegex_spec]
  simp [trimRe]

/-- `-t r`: exactly the run touching the end is removed; without such a run nothing is -/
theorem trimRegex_right (line : Bytes) (ms : List (Nat × Nat)) :
    trimRegex line .right ms =
      match ms.getLast? with
      | some (s, e) => if e = line.length then line.take s else line
      | none => line := by
  rw [trimRegex_spec]
  unfold trimRe
  cases ms.getLast? with
  | none => simp
  | some p =>
    obtain ⟨s, e⟩ := p
    by_cases he : e = line.length <;> simp [he]

/-- `-t b`: both, independently (a run covering the whole record leaves nothing) -/
theorem trimRegex_both (line : Bytes) (ms : List (Nat × Nat)) :
    trimRegex line .both ms =
      (line.take (match ms.getLast? with
          | some (s, e) => if e = line.length then s else line.length
          | none => line.length)).drop
        (match ms.head? with
          | some (0, e) => e
          | _ => 0) := by
  rw [trimRegex_spec]
  unfold trimRe
  cases ms.getLast? with
  | none =>
    cases ms.head? with
    | none => simp
    | some p => obtain ⟨s, e⟩ := p; cases s <;> simp
  | some q =>
    obtain ⟨s', e'⟩ := q
    cases ms.head? with
    | none => simp
    | some p => obtain ⟨s, e⟩ := p; cases s <;> simp

/-! ## refinement of the specification -/

/-- **C16, no `-r`.**  `-e RE` with any matcher honouring the contract of `find_iter`, field or
    line mode, none of `-r -p --json` (`-j` is refused on both sides): the fields are the gaps
    between successive matches (`-g`: between runs of matches), a printed range is the bytes of
    the record from the start of its first gap to the end of its last gap, separators verbatim;
    `-t -s -m`, fallbacks and fillers as with a literal delimiter. -/
theorem regexCut_eq_spec (opt : Opt) (bag : RegexBag) (line : Bytes)
    (hre : opt.regexBag = some bag) (hok : bag.OK)
    (hr : opt.replaceDelimiter = none) (hp : opt.compressDelimiter = false)
    (hjson : opt.json = false) (hty : opt.boundsType = .fields ∨ opt.boundsType = .lines)
    (hz : AllNonzero opt.bounds.list) (hL : LastMarked opt.bounds.list) :
    (cutStrCore line opt [opt.eol.byte]).1 = specRecordRe (cfgOf opt) bag line :=
  cutStr_regex_eq_spec opt bag line hre hok hr hp hjson hty hz hL

/-- record by record, stop at the first failure -/
theorem cutRecords_eq_specRe (opt : Opt) (bag : RegexBag)
    (h : ∀ r, (cutStrCore r opt [opt.eol.byte]).1 = specRecordRe (cfgOf opt) bag r) :
    ∀ (recs : List Bytes) (f₀ : List Range) (b₀ : Bytes),
      cutRecords opt recs f₀ b₀ = specRunRecordsRe (cfgOf opt) bag recs
  | [], _, _ => rfl
  | r :: t, f₀, b₀ => by
    have h1 : (cutStr r opt f₀ b₀ [opt.eol.byte]).1 = specRecordRe (cfgOf opt) bag r := h r
    simp only [cutRecords, specRunRecordsRe]
    rw [h1, cutRecords_eq_specRe opt bag h t]

/-- **C16, the run, no `-r`.** -/
theorem regexRun_eq_spec (opt : Opt) (bag : RegexBag) (input : Bytes)
    (hre : opt.regexBag = some bag) (hok : bag.OK)
    (hr : opt.replaceDelimiter = none) (hp : opt.compressDelimiter = false)
    (hjson : opt.json = false) (hty : opt.boundsType = .fields ∨ opt.boundsType = .lines)
    (hz : AllNonzero opt.bounds.list) (hL : LastMarked opt.bounds.list) :
    readAndCutStr opt input = specRunRecordsRe (cfgOf opt) bag (records opt.eol.byte input) :=
  cutRecords_eq_specRe opt bag
    (fun r => regexCut_eq_spec opt bag r hre hok hr hp hjson hty hz hL) _ [] []

/-- **C16, `-r R` (no `-p`, no `-g`).**  Every printed range is matched again and every match is
    replaced by the literal bytes `R`.  If the matches are never empty and the matcher is
    context-free on the printed slices (`SliceStable`, a property of the real engine for
    expressions without anchors, validated by testing), this is the specification: the gaps of
    the range with `R` — verbatim, whatever `$0`, `\1` it contains — once between two of them;
    with `-j` the joiner is `R` too. -/
theorem regexCut_replace_eq_spec (opt : Opt) (bag : RegexBag) (line : Bytes) (R : Bytes)
    (hre : opt.regexBag = some bag) (hok : bag.OK)
    (hr : opt.replaceDelimiter = some R) (hp : opt.compressDelimiter = false)
    (hg : opt.greedyDelimiter = false)
    (hjson : opt.json = false) (hty : opt.boundsType = .fields ∨ opt.boundsType = .lines)
    (hz : AllNonzero opt.bounds.list) (hL : LastMarked opt.bounds.list)
    (hstrict : StrictMatches (trimmedRe opt bag line).length 0 (bag.normal (trimmedRe opt bag line)))
    (hstable : SliceStable bag (trimmedRe opt bag line)) :
    (cutStrCore line opt [opt.eol.byte]).1 = specRecordRe (cfgOf opt) bag line :=
  cutStr_regex_replace_eq_spec opt bag line R hre hok hr hp hg hjson hty hz hL hstrict hstable

/- The `-g` instance of the theorem above is `regexCut_replace_greedy_eq_spec` in `Tuc.Props.C16Greedy`
   (extra hypothesis `GreedyTiled`: every match of `(RE)+` is tiled exactly by the matches of `RE` inside
   it and no match of `RE` lies in a gap of `(RE)+`; proved for one-byte expressions of the Lean matcher,
   measured on the real engine's match lists by the C16 check). -/

/-- the literal text: a separator made of one match is rendered as `R` itself -/
theorem regexReplace_sep_literal (R x : Bytes) : sepRe (some R) x 1 = R := by
  simp [sepRe, repeatBytes]

/-- … and the text of two adjacent gaps with `-r R` is `gap ++ R ++ gap` -/
theorem regexReplace_piece_literal (R f x g : Bytes) (rest : List (Bytes × Nat × Bytes)) :
    pieceTextRe (sepRe (some R)) ⟨f, (x, 1, g) :: rest⟩ 1 2 = f ++ R ++ g := by
  simp [pieceTextRe, sepRe, repeatBytes]

/-- **C16, `-p -r R`.**  The record (after `-t`) is rewritten once — every run of matches becomes
    the literal bytes `R` — and cut by the LITERAL engine with delimiter `R`
    (`literalAfterCompress`: no regex, no `-p`, no `-t`, no `-r`; `-j` joins with the delimiter,
    which is `R`).  `hne`: the rewritten record is not empty, which `R ≠ []` guarantees
    (`replaceMatches_ne_nil`). -/
theorem regexCompress_eq_literal (line : Bytes) (opt : Opt) (eol : Bytes) (bag : RegexBag)
    (R : Bytes) (hre : opt.regexBag = some bag) (hr : opt.replaceDelimiter = some R)
    (hp : opt.compressDelimiter = true)
    (hty : opt.boundsType = .fields ∨ opt.boundsType = .lines)
    (hne : trimmedRe opt bag line ≠ [] →
      replaceMatches (trimmedRe opt bag line) R 0 (bag.greedy (trimmedRe opt bag line)) ≠ []) :
    (cutStrCore line opt eol).1 =
      if (trimmedRe opt bag line).isEmpty then
        (if !opt.onlyDelimited then Run.ok eol else Run.empty)
      else
        (cutStrCore (replaceMatches (trimmedRe opt bag line) R 0 (bag.greedy (trimmedRe opt bag line)))
          (literalAfterCompress opt R) eol).1 :=
  cutStrCore_regex_compress line opt eol bag R hre hr hp hty hne

/-- **C16, `-p -r R`, against the specification** (`R ≠ []`; ANY matcher, no contract needed):
    rewrite, then the literal specification `Spec.specRecord` with delimiter `R` — via C01's
    `cutStr_eq_spec_gen`. -/
theorem regexCompress_eq_spec (opt : Opt) (bag : RegexBag) (line : Bytes) (R : Bytes)
    (hre : opt.regexBag = some bag) (hr : opt.replaceDelimiter = some R) (hR : R ≠ [])
    (hp : opt.compressDelimiter = true) (hjson : opt.json = false)
    (hty : opt.boundsType = .fields ∨ opt.boundsType = .lines)
    (hz : AllNonzero opt.bounds.list) (hL : LastMarked opt.bounds.list) :
    (cutStrCore line opt [opt.eol.byte]).1 = specRecordRe (cfgOf opt) bag line :=
  cutStr_regex_compress_eq_spec opt bag line R hre hr hR hp hjson hty hz hL

/-- `-p` or `-j` with a regex and no `-r` is refused, by the engine as by the specification -/
theorem regexCut_needs_replace (opt : Opt) (bag : RegexBag) (line : Bytes) (eol : Bytes)
    (hre : opt.regexBag = some bag) (hr : opt.replaceDelimiter = none)
    (h : opt.compressDelimiter = true ∨ opt.join = true) :
    (cutStrCore line opt eol).1 = Run.fail := by
  unfold cutStrCore
  rcases h with h | h
  · simp [hre, hr, h]
  · by_cases hp : opt.compressDelimiter = true
    · simp [hre, hr, hp]
    · simp [hre, hr, h, hp]

/-! ## examples: `-e '[-,]'` on `a-b,,c`, fields `2:3`

(`decide` cannot run the matcher — `Re.run` is defined by well-founded recursion — so the
examples are closed by `simp` with the defining equations.) -/

/-- what `Re.parse "[-,]"` returns (`Re.parse` is a `partial def`: checked by evaluation) -/
def reDashComma : Re := .alt (.byte 45) (.byte 44)

#guard reprStr (Re.parse "[-,]".toList) == reprStr (some reDashComma)

/-- `a-b,,c` -/
def exLine : Bytes := [97, 45, 98, 44, 44, 99]

/-- `-e '[-,]' -f 2:3`, with `-g` and `-r` as given -/
def exOptRe (g : Bool) (r : Option Bytes) : Opt :=
  { delimiter := [], bounds := ⟨[.bound { l := .some 2, r := .some 3, isLast := true }], .some 3⟩,
    greedyDelimiter := g, replaceDelimiter := r, regexBag := some (Re.bag reDashComma) }

example : (Re.bag reDashComma).normal exLine = [(1, 2), (3, 4), (4, 5)] := by
  simp [exLine, Re.bag, Re.findIter, Re.findIterAux, Re.matchLen, Re.run, reDashComma]

example : (Re.bag reDashComma).greedy exLine = [(1, 2), (3, 5)] := by
  simp [exLine, Re.bag, Re.findIter, Re.findIterAux, Re.matchLen, Re.run, reDashComma]

section
local macro "eval_cut" : tactic => `(tactic|
  simp [cutStrCore, exOptRe, exLine, Re.bag, Re.findIter, Re.findIterAux, Re.matchLen, Re.run,
    reDashComma, fillWithFieldsLocationsUsingRegex, rangesBetweenMatches, emitRecord, outputLoop,
    outputBof, UserBounds.tryIntoRange, rangeStart, rangeEnd, writeMaybeAsJson,
    maybeReplaceDelimiter, replaceMatches, slice, Run.seq, Run.ok, Run.empty])

/-- fields `a | b | "" | c`: `2:3` is `b,` -/
example : (cutStrCore exLine (exOptRe false none) [10]).1 = Run.ok [98, 44, 10] := by eval_cut

/-- `-g`: fields `a | b | c`: `2:3` is `b,,c` -/
example : (cutStrCore exLine (exOptRe true none) [10]).1 = Run.ok [98, 44, 44, 99, 10] := by eval_cut

/-- `-r '$0x'`: `b$0x` — the replacement is copied, `$0` is not expanded -/
example : (cutStrCore exLine (exOptRe false (some [36, 48, 120])) [10]).1 =
    Run.ok [98, 36, 48, 120, 10] := by eval_cut

/-- `-g -r '$0x'`: `b$0x$0xc` — once per match of `RE` in the run -/
example : (cutStrCore exLine (exOptRe true (some [36, 48, 120])) [10]).1 =
    Run.ok [98, 36, 48, 120, 36, 48, 120, 99, 10] := by eval_cut
end

/-! ## `SliceStable`: an executable test, and what it says about the Lean matcher

`SliceStable` is a hypothesis about the real engine; it is not proved for anything.  It can be
*tested*: `sliceStableB` decides it for one matcher and one record.  The Lean matcher passes on
every record tried (below: all records up to 5 bytes over a 3-letter alphabet, for `[-,]` and for
alternations whose branches are prefixes of one another, `ab|a`, `a|ab`, `aa|a`); a matcher
with an anchor (`^a`) fails, as it must. -/

/-- decides `SliceStable bag line` -/
def sliceStableB (bag : RegexBag) (line : Bytes) : Bool :=
  (0 :: (bag.normal line ++ bag.greedy line).map (·.2)).all fun a =>
    (line.length :: (bag.normal line ++ bag.greedy line).map (·.1)).all fun b =>
      decide (a ≤ b → bag.normal (slice line a b) = insideShift (bag.normal line) a b)

theorem sliceStableB_sound (bag : RegexBag) (line : Bytes) (h : sliceStableB bag line = true) :
    SliceStable bag line := by
  intro a b ha hb hab
  have ha' : a ∈ 0 :: (bag.normal line ++ bag.greedy line).map (·.2) := by
    rcases ha with rfl | ⟨m, hm, rfl⟩
    · exact List.mem_cons_self ..
    · exact List.mem_cons_of_mem _ (List.mem_map_of_mem hm)
  have hb' : b ∈ line.length :: (bag.normal line ++ bag.greedy line).map (·.1) := by
    rcases hb with rfl | ⟨m, hm, rfl⟩
    · exact List.mem_cons_self ..
    · exact List.mem_cons_of_mem _ (List.mem_map_of_mem hm)
  have h1 := List.all_eq_true.mp h a ha'
  have h2 := List.all_eq_true.mp h1 b hb'
  exact (of_decide_eq_true h2) hab

/-- all byte strings of length `≤ n` over an alphabet -/
def allLines (alphabet : List UInt8) : Nat → List Bytes
  | 0 => [[]]
  | n + 1 => allLines alphabet n ++
      ((allLines alphabet n).filter (·.length == n)).flatMap fun l => alphabet.map fun c => l ++ [c]

def bagOfString (re : String) : RegexBag :=
  match Re.parse re.toList with
  | some r => Re.bag r
  | none => Re.bag .never

#guard (allLines [97, 45, 44] 5).all (sliceStableB (bagOfString "[-,]"))
#guard (allLines [97, 98, 99] 5).all (sliceStableB (bagOfString "ab|a"))
#guard (allLines [97, 98, 99] 5).all (sliceStableB (bagOfString "a|ab"))
#guard (allLines [97, 98] 6).all (sliceStableB (bagOfString "aa|a"))
#guard (allLines [97, 98, 99] 5).all (sliceStableB (bagOfString "a(b|bc)|c"))

/-- a matcher like `^a` (context-sensitive) is not slice-stable: on `aa` the slice after the first
    match starts with an `a` again -/
def anchoredBag : RegexBag :=
  { normal := fun l => if l.head? = some 97 then [(0, 1)] else [],
    greedy := fun l => if l.head? = some 97 then [(0, 1)] else [] }

#guard !sliceStableB anchoredBag [97, 97]

/-! ## the specification against the engine, by exhaustive evaluation

Also over the parts not proved above (`-g -r`, `--json`): every record up to 3 bytes over
`{a, -, ,}`, two bounds lists, every combination of `-g -p -j -m -s`, `-r '$0'` or none, the four
`-t`, with and without a generic fallback: `cut_str` = `specRecordRe`. -/

def exhaustiveMismatches (bag : RegexBag) (alphabet : List UInt8) (n : Nat) (json : Bool) : Nat :=
  let bools := [false, true]
  let boundsA : List BoF := [.bound { l := .some 2, r := .some 3 }, .filler [58],
    .bound { l := .some (-1), r := .cont, isLast := true }]
  let boundsB : List BoF := [.bound { l := .some 1, r := .cont, isLast := true }]
  ((allLines alphabet n).flatMap fun line =>
    [boundsA, boundsB].flatMap fun bs => bools.flatMap fun g => bools.flatMap fun p =>
    bools.flatMap fun j => bools.flatMap fun m => bools.flatMap fun s =>
    [none, some [36, 48]].flatMap fun r =>
    [none, some TrimKind.left, some .right, some .both].flatMap fun t =>
    [none, some [63]].flatMap fun fb =>
      let o : Opt :=
        { delimiter := [], bounds := ⟨bs, .cont⟩, greedyDelimiter := g, compressDelimiter := p,
          join := j, json := json, complement := m, onlyDelimited := s, replaceDelimiter := r,
          trim := t, fallbackOob := fb, regexBag := some bag }
      if (cutStrCore line o [10]).1 == specRecordRe (cfgOf o) bag line then [] else [line]).length

#guard exhaustiveMismatches (Re.bag reDashComma) [97, 45, 44] 3 false == 0
#guard exhaustiveMismatches (Re.bag reDashComma) [97, 45, 44] 2 true == 0

end Tuc
