import Tuc.Model.CutStr
import Tuc.Model.Regex
import Tuc.Lemmas.Run
/-!
# C16 — a regex delimiter splits at its matches and is replaced literally
(first theorems, for ANY matcher: the engine only looks at the match list)
-/
namespace Tuc

/-- the fields are exactly the gaps between successive matches: the k-th field stops where the
    k-th match starts and the next one starts where it ends -/
theorem regexFields_are_gaps (L prev : Nat) (s e : Nat) (t : List (Nat × Nat)) :
    rangesBetweenMatches L prev ((s, e) :: t) = ⟨prev, s⟩ :: rangesBetweenMatches L e t := rfl

theorem regexFields_last (L prev : Nat) : rangesBetweenMatches L prev [] = [⟨prev, L⟩] := rfl

/-- one field more than there are matches -/
theorem regexFields_length (L prev : Nat) (ms : List (Nat × Nat)) :
    (rangesBetweenMatches L prev ms).length = ms.length + 1 := by
  induction ms generalizing prev with
  | nil => rfl
  | cons m t ih => obtain ⟨s, e⟩ := m; simp [rangesBetweenMatches, ih]

/-- `-r R` writes the literal text `R` for every match — never an expansion of it: the replacement
    is copied, whatever bytes (`$0`, `\1`, …) it contains -/
theorem regexReplace_literal (text r : Bytes) (prev s e : Nat) (t : List (Nat × Nat)) :
    replaceMatches text r prev ((s, e) :: t) = slice text prev s ++ r ++ replaceMatches text r e t := rfl

/-- `-t` with a regex removes only a match touching the chosen end: without a match at offset 0
    nothing is removed on the left -/
theorem trimRegex_left_untouched (line : Bytes) (ms : List (Nat × Nat))
    (h : ∀ s e, ms.head? = some (s, e) → s ≠ 0) : trimRegex line .left ms = line := by
  unfold trimRegex
  cases hm : ms.head? with
  | none => simp [slice]
  | some p =>
    obtain ⟨s, e⟩ := p
    have := h s e hm
    simp [this, slice]

/-- after `-p` rewrote every run to `R`, the printed slices are not matched again (the
    replacement is inserted once, even if it matches the regex itself) -/
theorem compressed_not_replaced_again (text : Bytes) (opt : Opt) :
    maybeReplaceDelimiter text opt true =
      if opt.boundsType = .characters then text
      else match opt.replaceDelimiter, opt.regexBag with
        | some _, some _ => text
        | some nd, none => replaceAll text opt.delimiter nd
        | none, _ => text := by
  unfold maybeReplaceDelimiter
  split
  · rfl
  · cases opt.replaceDelimiter <;> cases opt.regexBag <;> simp

end Tuc
