import Tuc.Model.Faults
import Tuc.Lemmas.Run
import Tuc.Props.C10
import Tuc.Props.C04
/-!
# C14 — failures are reported, never swallowed, and never corrupt earlier output

*Write side* (`deliver`): `deliver_prefix`, `deliver_cut_fails`, `success_complete`,
`deliver_status`.

*Read side* (`dispatchReadFault`: the reader fails after the reads `segs`):
* `read_fault_not_ok` — the exit status is not 0, in every mode, except the one-line-at-a-time `-l`
  when every bound has been served before the fault (the reader is never called again);
  `read_fault_served` — in that case the run is exactly the fault-free run on any continuation;
* `read_fault_prefix` — what was delivered is a prefix of the fault-free output on the whole input
  (`completeRecords_prefix`, `stream_monotone`, `fwdLinesOpen_prefix` are the per-engine parts);
  `read_fault_prefix_any_segmentation` — also when the fault-free run reads the input in other
  pieces (`-M`: chunk independence, C04);
* `failing_record`, `failing_record_fast` — a failing record leaves the complete output of every
  earlier record in place.
-/
namespace Tuc

/-- whatever the fault position, what reaches stdout is a prefix of the fault-free output -/
theorem deliver_prefix (r : Run) (lim : Option Nat) : (deliver r lim).out <+: r.out := by
  unfold deliver
  cases lim with
  | none => exact List.prefix_refl _
  | some k =>
    simp only []
    split
    · exact List.prefix_refl _
    · exact List.take_prefix _ _

/-- a write fault that cuts anything off never ends in a successful exit -/
theorem deliver_cut_fails (r : Run) (k : Nat) (h : k < r.out.length) :
    (deliver r (some k)).status ≠ .ok := by
  unfold deliver
  have : ¬ (r.out.length ≤ k) := by omega
  simp only [this, if_false]
  cases hs : r.status <;> simp

/-- when a run succeeds, all of its output has been delivered -/
theorem success_complete (r : Run) (lim : Option Nat) (h : (deliver r lim).status = .ok) :
    deliver r lim = r := by
  unfold deliver at h ⊢
  cases lim with
  | none => rfl
  | some k =>
    simp only [] at h ⊢
    split
    · rfl
    · rename_i hk
      simp only [hk, if_false] at h
      cases hs : r.status <;> simp [hs] at h

/-- a fault never turns a failure into a success, and never produces a panic -/
theorem deliver_status (r : Run) (lim : Option Nat) :
    (deliver r lim).status = r.status ∨ ((deliver r lim).status = .fail ∧ r.status = .ok) := by
  unfold deliver
  cases lim with
  | none => exact Or.inl rfl
  | some k =>
    simp only []
    split
    · exact Or.inl rfl
    · cases hs : r.status <;> simp

/-- a propagated read error is never a success -/
theorem thenReadError_not_ok (r : Run) : r.thenReadError.status ≠ .ok := by
  unfold Run.thenReadError
  cases hs : r.status <;> simp [hs]

/-- …and leaves what was written untouched -/
theorem thenReadError_out (r : Run) : r.thenReadError.out = r.out := by
  unfold Run.thenReadError
  cases hs : r.status <;> simp

/-! ## read faults -/

/-- whatever follows, what a run has written stays written -/
theorem Run.seq_out_prefix (a b : Run) : a.out <+: (a.seq b).out := by
  obtain ⟨ao, as⟩ := a
  cases as <;> simp [Run.seq]

theorem Run.pre_out_prefix {w : Bytes} {a b : Run} (h : a.out <+: b.out) :
    (Run.pre w a).out <+: (Run.pre w b).out := by
  simp only [Run.pre]
  exact (List.prefix_append_right_inj w).2 h

/-! ### the records that are complete when the reader fails -/

/-- the records terminated within `pre`, by a scan that mirrors `splitRecords` -/
def completeAux (eol : UInt8) : Bytes → Bytes → List Bytes
  | _, [] => []
  | cur, c :: t => if c = eol then cur.reverse :: completeAux eol [] t else completeAux eol (c :: cur) t

theorem completeAux_prefix (eol : UInt8) (pre rest : Bytes) :
    ∀ cur : Bytes, completeAux eol cur pre <+: splitRecords eol cur (pre ++ rest) := by
  induction pre with
  | nil => intro cur; simp [completeAux]
  | cons c t ih =>
    intro cur
    simp only [completeAux, List.cons_append, splitRecords]
    split
    · exact (List.prefix_cons_inj _).2 (ih [])
    · exact ih (c :: cur)

theorem splitRecords_complete (eol : UInt8) : ∀ (pre cur : Bytes) (c : UInt8),
    pre.getLast? = some c →
      (c = eol → splitRecords eol cur pre = completeAux eol cur pre) ∧
      (c ≠ eol → ∃ x, splitRecords eol cur pre = completeAux eol cur pre ++ [x]) := by
  intro pre
  induction pre with
  | nil => intro cur c h; simp at h
  | cons c0 t ih =>
    intro cur c h
    cases t with
    | nil =>
      simp only [List.getLast?_singleton, Option.some.injEq] at h
      subst h
      constructor
      · intro hc
        simp [splitRecords, completeAux, hc]
      · intro hc
        simp [splitRecords, completeAux, hc]
    | cons c1 t' =>
      rw [List.getLast?_cons_cons] at h
      have e1 : splitRecords eol cur (c0 :: c1 :: t') =
          if c0 = eol then cur.reverse :: splitRecords eol [] (c1 :: t')
          else splitRecords eol (c0 :: cur) (c1 :: t') := rfl
      have e2 : completeAux eol cur (c0 :: c1 :: t') =
          if c0 = eol then cur.reverse :: completeAux eol [] (c1 :: t')
          else completeAux eol (c0 :: cur) (c1 :: t') := rfl
      rw [e1, e2]
      by_cases hc0 : c0 = eol
      · rw [if_pos hc0, if_pos hc0]
        have := ih [] c h
        constructor
        · intro hc; rw [this.1 hc]
        · intro hc
          obtain ⟨x, hx⟩ := this.2 hc
          exact ⟨x, by rw [hx]; simp⟩
      · rw [if_neg hc0, if_neg hc0]
        exact ih (c0 :: cur) c h

theorem completeRecords_eq (eol : UInt8) (pre : Bytes) :
    completeRecords eol pre = completeAux eol [] pre := by
  unfold completeRecords
  simp only
  cases h : pre.getLast? with
  | none =>
    have : pre = [] := List.getLast?_eq_none_iff.1 h
    subst this
    simp [splitRecords, completeAux]
  | some c =>
    have := splitRecords_complete eol pre [] c h
    simp only
    split
    · rename_i hc; exact this.1 hc
    · rename_i hc
      obtain ⟨x, hx⟩ := this.2 hc
      rw [hx, List.dropLast_concat]

/-- the records complete when the reader fails are the first records of the whole input -/
theorem completeRecords_prefix (eol : UInt8) (pre rest : Bytes) :
    completeRecords eol pre <+: records eol (pre ++ rest) := by
  rw [completeRecords_eq]
  exact completeAux_prefix eol pre rest []

/-- a run over the first records is the first part of the run over all of them -/
theorem cutRecords_prefix (o : Opt) (rs rs' : List Bytes) (h : rs <+: rs') :
    (cutRecords o rs [] []).out <+: (cutRecords o rs' [] []).out := by
  obtain ⟨more, rfl⟩ := h
  rw [cutRecords_append]
  exact Run.seq_out_prefix _ _

theorem fastRecords_prefix (fo : FastOpt) (lif : Side) (rs rs' : List Bytes) (h : rs <+: rs') :
    (fastRecords fo lif rs []).out <+: (fastRecords fo lif rs' []).out := by
  obtain ⟨more, rfl⟩ := h
  rw [fastRecords_append]
  exact Run.seq_out_prefix _ _

/-! ### `-M` -/

/-- the run over `l ++ l'` is the open run over `l`, then the run over `l'` from the state reached -/
theorem streamRun_append_open (o : StreamOpt) :
    ∀ (l l' : List (UInt8 × Bool)) (st : SState),
      streamRun o st (l ++ l') =
        (streamRunOpen o st l).1.seq (streamRun o (streamRunOpen o st l).2 l') := by
  intro l
  induction l with
  | nil => intro l' st; simp [streamRunOpen]
  | cons x t ih =>
    intro l' st
    obtain ⟨c, last⟩ := x
    simp only [List.cons_append, streamRun, streamRunOpen]
    cases hs : (streamStep o st c last).1.status with
    | ok =>
      simp only
      rw [ih, Run.seq_assoc]
    | fail =>
      simp only
      rw [Run.seq_of_not_ok _ _ (by rw [hs]; simp), Run.seq_of_not_ok _ _ (by rw [hs]; simp)]
    | panic =>
      simp only
      rw [Run.seq_of_not_ok _ _ (by rw [hs]; simp), Run.seq_of_not_ok _ _ (by rw [hs]; simp)]
    | hang =>
      simp only
      rw [Run.seq_of_not_ok _ _ (by rw [hs]; simp), Run.seq_of_not_ok _ _ (by rw [hs]; simp)]

theorem tagSegments_append' (xs ys : List Bytes) :
    tagSegments (xs ++ ys) = tagSegments xs ++ tagSegments ys := by
  simp [tagSegments]

/-- **`-M` is monotone**: what has been written when the reader fails after the reads `segsPre`
    is the beginning of what is written when it goes on with `segsRest` -/
theorem stream_monotone (so : StreamOpt) (segsPre segsRest : List Bytes) :
    (streamRunOpen so {} (tagSegments segsPre)).1.out <+:
      (cutBytesStream so (segsPre ++ segsRest)).out := by
  unfold cutBytesStream
  rw [tagSegments_append', streamRun_append_open]
  exact Run.seq_out_prefix _ _

/-! ### `-l`, one line at a time -/

/-- all bounds served before the fault: the run is the fault-free run, whatever would have
    followed -/
theorem fwdLinesOpen_done (o : Opt) : ∀ (ls : List Bytes) (idx : Int) (rest : List BoF) (a : Bool)
    (r : Run) (more : List Bytes), fwdLinesOpen o ls idx rest a = (r, true) →
      fwdLines o (ls ++ more) idx rest a = r ∧ r.status = .ok := by
  intro ls
  induction ls with
  | nil => intro idx rest a r more h; simp [fwdLinesOpen] at h
  | cons line t ih =>
    intro idx rest a r more h
    simp only [fwdLinesOpen] at h
    simp only [List.cons_append, fwdLines]
    split at h
    · simp at h
    · rename_i hv
      rw [if_neg hv]
      split at h
      · rename_i he
        rw [if_pos he]
        simp only [Prod.mk.injEq, and_true] at h
        subst h
        exact ⟨rfl, rfl⟩
      · rename_i he
        rw [if_neg he]
        simp only [Prod.mk.injEq] at h
        obtain ⟨h1, h2⟩ := h
        have := ih (idx + 1) _ _ _ more (Prod.ext rfl h2)
        subst h1
        exact ⟨by rw [this.1], this.2⟩

/-- in any case what was written before the fault is the beginning of the fault-free output -/
theorem fwdLinesOpen_prefix (o : Opt) : ∀ (ls : List Bytes) (idx : Int) (rest : List BoF) (a : Bool)
    (more : List Bytes),
      (fwdLinesOpen o ls idx rest a).1.out <+: (fwdLines o (ls ++ more) idx rest a).out := by
  intro ls
  induction ls with
  | nil => intro idx rest a more; simp [fwdLinesOpen, Run.empty]
  | cons line t ih =>
    intro idx rest a more
    simp only [fwdLinesOpen, List.cons_append, fwdLines]
    split
    · exact List.prefix_refl _
    · split
      · exact List.prefix_refl _
      · exact Run.pre_out_prefix (ih _ _ _ more)

/-! ### 1. a read fault is reported -/

/-- **C14, read faults are never swallowed.**  Whatever the mode, when the reader fails the exit
    status is not 0 — with one exception: `-l` read one line at a time, when every bound had been
    served by the lines read before the fault; the loop has left by then and the reader is never
    called again. -/
theorem read_fault_not_ok (o : Opt) (M : Bool) (segs : List Bytes) (r : Run)
    (h : dispatchReadFault o M segs = some r) :
    r.status ≠ .ok ∨
    (M = false ∧ o.boundsType = .lines ∧
      (!o.complement && !o.compressDelimiter && isForwardOnly o.bounds.list) = true ∧
      fwdLinesOpen o (completeRecords o.eol.byte segs.flatten) 0 o.bounds.list false = (r, true)) := by
  unfold dispatchReadFault at h
  simp only at h
  split at h
  · cases hso : streamOptOf o with
    | none => simp [hso] at h
    | some so =>
      simp only [hso, Option.some.injEq] at h
      subst h
      exact Or.inl (thenReadError_not_ok _)
  · rename_i hM
    split at h
    · simp only [Option.some.injEq] at h
      subst h
      exact Or.inl (by simp [Run.fail])
    · split at h
      · rename_i hlines
        split at h
        · rename_i hfw
          simp only [Option.some.injEq] at h
          cases hd : (fwdLinesOpen o (completeRecords o.eol.byte segs.flatten) 0 o.bounds.list
              false).2 with
          | true =>
            rw [hd] at h
            simp only [if_true] at h
            exact Or.inr ⟨by simpa using hM, hlines, hfw, Prod.ext h hd⟩
          | false =>
            rw [hd] at h
            simp only [Bool.false_eq_true, if_false] at h
            subst h
            exact Or.inl (thenReadError_not_ok _)
        · simp only [Option.some.injEq] at h
          subst h
          exact Or.inl (by simp [Run.fail])
      · cases hfo : fastOptOf o with
        | some fo =>
          simp only [hfo, Option.some.injEq] at h
          subst h
          exact Or.inl (thenReadError_not_ok _)
        | none =>
          simp only [hfo, Option.some.injEq] at h
          subst h
          exact Or.inl (thenReadError_not_ok _)

/-- …and in the exceptional case nothing is lost: the run is a success and it is exactly the
    fault-free run on the input continued in any way (`rest` = what the reader would have gone on
    to deliver) -/
theorem read_fault_served (o : Opt) (pre rest : Bytes) (r : Run)
    (hlines : o.boundsType = .lines)
    (hfw : (!o.complement && !o.compressDelimiter && isForwardOnly o.bounds.list) = true)
    (h : fwdLinesOpen o (completeRecords o.eol.byte pre) 0 o.bounds.list false = (r, true)) :
    r.status = .ok ∧ ∀ segs' : List Bytes, segs'.flatten = pre ++ rest →
      dispatch o false segs' = some r := by
  obtain ⟨more, hmore⟩ := completeRecords_prefix o.eol.byte pre rest
  have := fwdLinesOpen_done o _ _ _ _ r more h
  refine ⟨this.2, ?_⟩
  intro segs' hsegs
  unfold dispatch
  simp only [Bool.false_eq_true, if_false, hsegs]
  have hb : ¬ o.boundsType = .bytes := by rw [hlines]; simp
  rw [if_neg hb, if_pos hlines]
  unfold readAndCutLines
  rw [if_pos hfw]
  unfold cutLinesForwardOnly
  rw [← hmore, this.1]

/-! ### 2. a read fault never corrupts earlier output -/

/-- **C14, read faults: monotonicity.**  The reader fails after the reads `segsPre`; had it gone on
    with `segsRest`, the output would have started with exactly the bytes delivered before the
    fault. -/
theorem read_fault_prefix (o : Opt) (M : Bool) (segsPre segsRest : List Bytes) (r r' : Run)
    (h : dispatchReadFault o M segsPre = some r)
    (h' : dispatch o M (segsPre ++ segsRest) = some r') : r.out <+: r'.out := by
  unfold dispatchReadFault at h
  unfold dispatch at h'
  simp only [List.flatten_append] at h h'
  split at h
  · rename_i hM
    rw [if_pos hM] at h'
    cases hso : streamOptOf o with
    | none => simp [hso] at h
    | some so =>
      simp only [hso, Option.some.injEq] at h h'
      subst h h'
      rw [thenReadError_out]
      exact stream_monotone so segsPre segsRest
  · rename_i hM
    rw [if_neg hM] at h'
    split at h
    · simp only [Option.some.injEq] at h
      subst h
      exact List.nil_prefix
    · rename_i hb
      rw [if_neg hb] at h'
      split at h
      · rename_i hlines
        rw [if_pos hlines] at h'
        simp only [Option.some.injEq] at h'
        subst h'
        split at h
        · rename_i hfw
          simp only [Option.some.injEq] at h
          unfold readAndCutLines
          rw [if_pos hfw]
          unfold cutLinesForwardOnly
          obtain ⟨more, hmore⟩ :=
            completeRecords_prefix o.eol.byte segsPre.flatten segsRest.flatten
          rw [← hmore]
          have hp := fwdLinesOpen_prefix o (completeRecords o.eol.byte segsPre.flatten) 0
            o.bounds.list false more
          subst h
          split
          · exact hp
          · rw [thenReadError_out]; exact hp
        · simp only [Option.some.injEq] at h
          subst h
          exact List.nil_prefix
      · rename_i hlines
        rw [if_neg hlines] at h'
        cases hfo : fastOptOf o with
        | some fo =>
          simp only [hfo, Option.some.injEq] at h h'
          subst h h'
          rw [thenReadError_out]
          unfold readAndCutFast
          have heol : fo.eol = o.eol := by
            unfold fastOptOf at hfo
            split at hfo
            · split at hfo
              · simp at hfo
              · simp only [Option.some.injEq] at hfo
                subst hfo; rfl
            · simp at hfo
          rw [heol]
          exact fastRecords_prefix fo _ _ _ (completeRecords_prefix _ _ _)
        | none =>
          simp only [hfo, Option.some.injEq] at h h'
          subst h h'
          rw [thenReadError_out]
          unfold readAndCutStr
          exact cutRecords_prefix o _ _ (completeRecords_prefix _ _ _)

/-- without `-M` only the bytes matter, not how the reads delivered them -/
theorem dispatch_flatten (o : Opt) (segs segs' : List Bytes) (h : segs.flatten = segs'.flatten) :
    dispatch o false segs = dispatch o false segs' := by
  unfold dispatch
  simp only [h, Bool.false_eq_true, if_false]

/-- the same against the fault-free run on the whole input `pre ++ rest` read in *any* pieces
    (for bounds that come from the parser: with `-M` this is chunk independence, C04) -/
theorem read_fault_prefix_any_segmentation (o : Opt) (f : List Char)
    (hf : boundsListOfString f = .ok o.bounds) (M : Bool) (segsPre segsAll : List Bytes)
    (rest : Bytes) (hall : segsAll.flatten = segsPre.flatten ++ rest) (r r' : Run)
    (h : dispatchReadFault o M segsPre = some r) (h' : dispatch o M segsAll = some r') :
    r.out <+: r'.out := by
  have hfl : segsAll.flatten = (segsPre ++ [rest]).flatten := by simp [hall]
  have : dispatch o M segsAll = dispatch o M (segsPre ++ [rest]) := by
    cases M with
    | true => exact dispatch_fixedMemory_chunk_independent o f hf _ _ hfl
    | false => exact dispatch_flatten o _ _ hfl
  rw [this] at h'
  exact read_fault_prefix o M segsPre [rest] r r' h h'

/-- a read fault and the fault-free run are rejected up front in the same cases -/
theorem read_fault_rejected_iff (o : Opt) (M : Bool) (segs segs' : List Bytes) :
    dispatchReadFault o M segs = none ↔ dispatch o M segs' = none := by
  unfold dispatchReadFault dispatch
  simp only
  split
  · cases streamOptOf o <;> simp
  · split
    · simp
    · split
      · split <;> simp
      · cases fastOptOf o <;> simp

/-! ### 3. a failing record leaves the earlier records' output in place -/

/-- **C14, failing record.**  The output for `A ‖ B`, where `A` ends with an EOL, starts with the
    complete output for `A` — whether a record of `B` fails or not (and if cutting `A` went well
    the rest is the output for `B`: C10). -/
theorem failing_record (o : Opt) (a b : Bytes) :
    (readAndCutStr o (a ++ [o.eol.byte])).out <+: (readAndCutStr o (a ++ [o.eol.byte] ++ b)).out := by
  rw [readAndCutStr_append]
  exact Run.seq_out_prefix _ _

theorem failing_record_fast (fo : FastOpt) (a b : Bytes) :
    (readAndCutFast fo (a ++ [fo.eol.byte])).out <+:
      (readAndCutFast fo (a ++ [fo.eol.byte] ++ b)).out := by
  rw [readAndCutFast_append]
  exact Run.seq_out_prefix _ _

/-- the failure itself is reported: if a record of `B` fails after `A` went well, the run fails -/
theorem failing_record_status (o : Opt) (a b : Bytes)
    (ha : (readAndCutStr o (a ++ [o.eol.byte])).status = .ok) :
    (readAndCutStr o (a ++ [o.eol.byte] ++ b)).status = (readAndCutStr o b).status ∧
    (readAndCutStr o (a ++ [o.eol.byte] ++ b)).out =
      (readAndCutStr o (a ++ [o.eol.byte])).out ++ (readAndCutStr o b).out := by
  rw [readAndCutStr_append]
  exact ⟨Run.seq_status_of_ok ha, Run.seq_out_of_ok ha⟩

/-! ### concrete data: `-f 2` over `a⇥b⏎c⏎…` -/

def c14Opt : Opt :=
  { delimiter := [9], bounds := ⟨[.bound { l := .some 2, r := .some 2, isLast := true }], .some 2⟩ }

/-- the general engine behind the same request (`-g` keeps it off the fast lane) -/
def c14OptGeneral : Opt := { c14Opt with greedyDelimiter := true }

-- the reader fails after `a⇥b⏎c⇥`: record 1 has been cut, the exit status is 1 …
example : dispatchReadFault c14Opt false [[97, 9, 98, 10], [99, 9]] = some ⟨[98, 10], .fail⟩ := by
  decide
-- … and `b⏎` is the beginning of what the fault-free run on `a⇥b⏎c⇥d⏎` prints
example : dispatch c14Opt false [[97, 9, 98, 10], [99, 9], [100, 10]] = some ⟨[98, 10, 100, 10], .ok⟩ := by
  decide
example : dispatchReadFault c14OptGeneral false [[97, 9, 98, 10], [99, 9]] = some ⟨[98, 10], .fail⟩ := by
  decide
example : dispatch c14OptGeneral false [[97, 9, 98, 10, 99, 9, 100, 10]]
    = some ⟨[98, 10, 100, 10], .ok⟩ := by decide
-- `-M`: the bytes of field 2 are printed as they arrive
example : dispatchReadFault c14Opt true [[97, 9, 98, 10], [99, 9, 100]] = some ⟨[98, 10, 100], .fail⟩ := by
  decide
example : dispatch c14Opt true [[97, 9, 98, 10], [99, 9, 100], [101, 10]]
    = some ⟨[98, 10, 100, 101, 10], .ok⟩ := by decide
-- a failing record: `c⏎` has no field 2; the output of record 1 is complete, the status is 1
example : readAndCutStr c14OptGeneral [97, 9, 98, 10, 99, 10, 100, 9, 101, 10] = ⟨[98, 10], .fail⟩ := by
  decide
example : readAndCutStr c14OptGeneral [97, 9, 98, 10] = ⟨[98, 10], .ok⟩ := by decide
example : dispatch c14Opt false [[97, 9, 98, 10, 99, 10, 100, 9, 101, 10]] = some ⟨[98, 10], .fail⟩ := by
  decide

end Tuc
