import Tuc.Model.Faults
import Tuc.Lemmas.Run
/-!
# C14 — failures are reported, never swallowed, and never corrupt earlier output
(first theorems about the write side; the read side and the engines' monotonicity follow)
-/
namespace Tuc

/-- whatever the fault position, what reaches stdout is a prefix of the fault-free output -/
theorem deliver_prefix (r : Run) (lim : Option Nat) : (deliver r lim).out <+: r.out := by
  unfold deliver
  cases lim with
  | none => exact List.prefix_refl _
  | some k =>
    simp only []
    split
    · exact List.prefix_refl _
    · exact List.take_prefix _ _

/-- a write fault that cuts anything off never ends in a successful exit -/
theorem deliver_cut_fails (r : Run) (k : Nat) (h : k < r.out.length) :
    (deliver r (some k)).status ≠ .ok := by
  unfold deliver
  have : ¬ (r.out.length ≤ k) := by omega
  simp only [this, if_false]
  cases hs : r.status <;> simp

/-- when a run succeeds, all of its output has been delivered -/
theorem success_complete (r : Run) (lim : Option Nat) (h : (deliver r lim).status = .ok) :
    deliver r lim = r := by
  unfold deliver at h ⊢
  cases lim with
  | none => rfl
  | some k =>
    simp only [] at h ⊢
    split
    · rfl
    · rename_i hk
      simp only [hk, if_false] at h
      cases hs : r.status <;> simp [hs] at h

/-- a fault never turns a failure into a success, and never produces a panic -/
theorem deliver_status (r : Run) (lim : Option Nat) :
    (deliver r lim).status = r.status ∨ ((deliver r lim).status = .fail ∧ r.status = .ok) := by
  unfold deliver
  cases lim with
  | none => exact Or.inl rfl
  | some k =>
    simp only []
    split
    · exact Or.inl rfl
    · cases hs : r.status <;> simp

/-- a propagated read error is never a success -/
theorem thenReadError_not_ok (r : Run) : r.thenReadError.status ≠ .ok := by
  unfold Run.thenReadError
  cases hs : r.status <;> simp [hs]

/-- …and leaves what was written untouched -/
theorem thenReadError_out (r : Run) : r.thenReadError.out = r.out := by
  unfold Run.thenReadError
  cases hs : r.status <;> simp

end Tuc
