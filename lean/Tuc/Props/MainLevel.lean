import Tuc.Model.Main
import Tuc.Props.EndToEnd
import Tuc.Props.C04
import Tuc.Props.C10
import Tuc.Props.C10Stream
import Tuc.Props.C11
import Tuc.Props.C12
import Tuc.Props.C14
import Tuc.Props.C16
import Tuc.Props.C18
import Tuc.Props.C19Argv
namespace Tuc
set_option linter.constructorNameAsVariable false

/-! ## 0. what `parse_args` hands to `main`: the bounds always come out of the bounds parser -/

/-- the bounds list is a value of `UserBoundsList::from_str` -/
def FromParser (u : UserBoundsList) : Prop := ∃ f : Arg, boundsListOfString f = .ok u

/-- an optional bounds list, if present, is a value of `UserBoundsList::from_str` -/
def OptFromParser (x : Option UserBoundsList) : Prop := ∀ u, x = Option.some u → FromParser u

/-- if `parse_args` returns an `Opt`, its bounds are a value of `UserBoundsList::from_str` -/
def RunParsed : ArgvResult → Prop
  | .run o _ _ => FromParser o.bounds
  | _ => True

/-- `m` leaves `parse_args` only with a result that satisfies `RunParsed`, and what it returns
    satisfies `Q` -/
def Inv {σ α : Type} (m : P σ α) (Q : α → Prop) : Prop :=
  ∀ s, match m s with
    | .done r => RunParsed r
    | .next a _ => Q a

theorem Inv.bind {σ α β : Type} {m : P σ α} {f : α → P σ β} {Q : α → Prop} {R : β → Prop}
    (hm : Inv m Q) (hf : ∀ a, Q a → Inv (f a) R) : Inv (m >>= f) R := by
  intro s
  show match P.bind m f s with | .done r => RunParsed r | .next a _ => R a
  unfold P.bind
  have := hm s
  cases h : m s with
  | done r => rw [h] at this; exact this
  | next a s' => rw [h] at this; exact hf a this s'

theorem Inv.pure {σ α : Type} {Q : α → Prop} (a : α) (h : Q a) : Inv (pure a : P σ α) Q := fun _ => h

theorem Inv.exitIf {σ : Type} (c : Bool) (r : ArgvResult) (hr : RunParsed r) :
    Inv (P.exitIf c r : P σ Unit) (fun _ => True) := by
  intro s; unfold P.exitIf; cases c
  · exact trivial
  · exact hr

theorem Inv.unwrap {σ α : Type} (o : Option α) (Q : α → Prop) (h : ∀ a, o = Option.some a → Q a) :
    Inv (P.unwrap o : P σ α) Q := by
  intro s; unfold P.unwrap; cases o with
  | none => exact trivial
  | some a => exact h a rfl

theorem Inv.test {σ : Type} (f : σ → Bool) : Inv (P.test f) (fun _ => True) := fun _ => trivial

theorem Inv.flag {σ : Type} (ops : Ops σ) (k : Keys) : Inv (ops.flag k) (fun _ => True) := fun _ => trivial

/-- `opt_value_from_str` with any `FromStr`: nothing to remember -/
theorem Inv.value {σ α : Type} (ops : Ops σ) (k : Keys) (f : Arg → Res α) :
    Inv (ops.value k f) (fun _ => True) := by
  intro s
  unfold Ops.value
  cases ops.optValue k s with
  | error e => exact trivial
  | ok o =>
    cases o with
    | none => exact trivial
    | some p =>
      obtain ⟨v, s'⟩ := p
      dsimp only
      cases h : f v <;> exact trivial

/-- `opt_value_from_str::<UserBoundsList>`: the value, if any, came out of the bounds parser -/
theorem Inv.valueBounds {σ : Type} (ops : Ops σ) (k : Keys) :
    Inv (ops.value k boundsArg) OptFromParser := by
  intro s
  unfold Ops.value
  cases ops.optValue k s with
  | error e => exact trivial
  | ok o =>
    cases o with
    | none => intro u hu; cases hu
    | some p =>
      obtain ⟨v, s'⟩ := p
      dsimp only
      cases h : boundsArg v with
      | ok a =>
        intro u hu
        cases hu
        exact ⟨v, h⟩
      | fail => exact trivial
      | panic => exact trivial

theorem Inv.fallbackOob {σ : Type} (ops : Ops σ) : Inv ops.fallbackOob (fun _ => True) := by
  intro s
  unfold Ops.fallbackOob
  cases ops.optValue kFallback s with
  | error e => cases e <;> exact trivial
  | ok o =>
    cases o with
    | none => exact trivial
    | some p => exact trivial

theorem Inv.ite_true {σ α : Type} (c : Prop) [Decidable c] {a b : P σ α}
    (ha : Inv a (fun _ => True)) (hb : Inv b (fun _ => True)) :
    Inv (if c then a else b) (fun _ => True) := by
  by_cases hc : c <;> simp only [hc, if_true, if_false] <;> assumption

theorem default_fromParser :
    ∀ y, (boundsListOfString ['1', ':']).toOption.map Option.some = Option.some y → OptFromParser y := by
  intro y hy
  cases h : boundsListOfString ['1', ':'] with
  | ok a =>
    rw [h] at hy
    cases hy
    intro u hu
    cases hu
    exact ⟨_, h⟩
  | fail => rw [h] at hy; cases hy
  | panic => rw [h] at hy; cases hy

/-- the step `maybe_fields = Some(UserBoundsList::from_str("1:").unwrap())` -/
theorem Inv.defaultStep {σ : Type} (c : Bool) (o : Option (Option UserBoundsList))
    (x : Option UserBoundsList) (ho : ∀ y, o = Option.some y → OptFromParser y) (hx : OptFromParser x) :
    Inv (if c = true then P.unwrap o else (Pure.pure x : P σ (Option UserBoundsList))) OptFromParser := by
  cases c
  · simp only [Bool.false_eq_true, if_false]; exact Inv.pure _ hx
  · simp only [if_true]; exact Inv.unwrap _ _ ho

theorem or_fromParser (mf mc mb ml : Option UserBoundsList) (hf : OptFromParser mf)
    (hc : OptFromParser mc) (hb : OptFromParser mb) (hl : OptFromParser ml) :
    ∀ a, mf.or (mc.or (mb.or ml)) = Option.some a → FromParser a := by
  intro a ha
  cases mf with
  | some x => exact hf a ha
  | none =>
    cases mc with
    | some x => exact hc a ha
    | none =>
      cases mb with
      | some x => exact hb a ha
      | none => exact hl a (by simpa using ha)

attribute [local irreducible] Inv in
theorem parseWith_inv {σ : Type} (ops : Ops σ) (regexOk : Arg → Bool) :
    Inv (parseWith ops regexOk) RunParsed := by
  unfold parseWith
  repeat' first
    | exact Inv.defaultStep _ _ _ default_fromParser (by assumption)
    | exact Inv.exitIf _ _ True.intro
    | exact Inv.test _
    | exact Inv.fallbackOob _
    | exact Inv.flag _ _
    | exact Inv.valueBounds _ _
    | exact Inv.value _ _ _
    | exact Inv.unwrap _ _ (or_fromParser _ _ _ _ (by assumption) (by assumption) (by assumption) (by assumption))
    | exact Inv.pure _ trivial
    | exact Inv.pure _ (by assumption)
    | apply Inv.ite_true
    | apply Inv.bind
    | intro _
    | dsimp only

/-- **every `Opt` that `parse_args` returns carries bounds that came out of
    `UserBoundsList::from_str`** — for every argument vector, every spelling -/
theorem parseArgv_bounds_fromParser (regexOk : Arg → Bool) (argv : List Arg) (o : Opt) (fm : Bool)
    (re : Option Arg) (h : parseArgv regexOk argv = .run o fm re) :
    ∃ f : Arg, boundsListOfString f = .ok o.bounds := by
  have := parseWith_inv picoOps regexOk argv
  unfold parseArgv at h
  cases hp : parseWith picoOps regexOk argv with
  | done r => rw [hp] at this h; simp only [Step.result] at h; subst h; exact this
  | next r s => rw [hp] at this h; simp only [Step.result] at h; subst h; exact this

end Tuc
