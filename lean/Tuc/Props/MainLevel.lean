import Tuc.Model.Main
import Tuc.Lemmas.MainLevel
import Tuc.Props.C04
import Tuc.Props.C10
import Tuc.Props.C10Stream
import Tuc.Props.C11
import Tuc.Props.C12
import Tuc.Props.C14
import Tuc.Props.C18
import Tuc.Props.C19Argv
/-!
# Main level — the engine-level properties lifted to the whole program `tucMain`

`tucMain regexOk argv segs : MainResult` (`Tuc.Model.Main`) is `main` of `src/bin/tuc.rs` from the
argument vector to the bytes on stdout and the exit status: `parseArgv` (pico_args + `parse_args`),
the regex bag, `dispatch`.  The property files state C04, C10, C11, C12, C14 about the engines or
about `dispatch` on an `Opt` whose bounds "come from the parser".  Here they are stated about the
program.  The bridge is `parseArgv_bounds_fromParser` (§0): for EVERY argument vector, every
`Opt` that `parse_args` returns has bounds that are a value of `UserBoundsList::from_str` — proved
by walking `parseWith` with an invariant, the way `parseArgv_total` (C19Argv) walks it.  So
`boundsListOfString_good` / `parsed_nonzero` / `boundsListOfString_noAdj` apply to whatever any
spelling of the command line makes `main` run with.

| § | theorem | command lines | lifted from |
|---|---|---|---|
| 0 | `parseArgv_bounds_fromParser` | ALL argv | new (invariant over `parseWith`) |
| 1 | `tucMain_never_panics`, `tucMain_run_status` | ALL argv (`-e RE` included), all inputs, all segmentations; no hypothesis | C12 `dispatch_safe` (+ `charsBag_ok`), C19Argv `parseArgv_total`, `Re.bag_ok` |
| 2 | `tucMain_chunk_independent`, `tucMain_one_read` | ALL argv; empty reads allowed | C04 `dispatch_fixedMemory_chunk_independent` (= `chunk_independent` + `boundsListOfString_noAdj`), C14 `dispatch_flatten` |
| 3 | `tucMain_deliver_prefix`, `tucMain_deliver_cut_fails`, `tucMain_deliver_enough`, `tucMain_success_complete` (`MainResult.deliver`) | ALL argv | C14 `deliver_prefix`, `deliver_cut_fails`, `success_complete`; `deliver_safe` + §1 for the status |
| 4 | `tucMain_append`, `tucMain_append_of_fail`, `tucMain_append_of_ok` | ALL argv of field mode (`FieldMode`: `parse_args` selects neither `-b` nor `-c` nor `-l`), with or without `-M`, `-e` included; any segmentation of A and of B | C10 `readAndCutStr_append`, `readAndCutFast_append`; C10Stream `cutBytesStream_append` |
| 4 | `tucMain_canon_append`, `tucMain_canon_append_one_read` | canonical, accepted, `-f`/default | the instance, terminator in closed form (`Canon.eolByte`) |
| 5 | `tucMain_swap` | canonical, accepted, `K.NoLfNul`; ALL FOUR modes, with or without `-M` | C11 `readAndCutStr_swap`, `fieldMode_fast_swap` (`readAndCutFast_swap`), `fieldMode_stream_swap` (`cutBytesStream_swap`), `readAndCutStr_swap_chars`, `readAndCutLines_swap`; `readAndCutBytes_swap` (new, here) for `-b` |

All five are full (no `_partial`).  Not done: C10 for `-c` at program level (the outcome
`unmodelled` there depends on the input being UTF-8, and "`A ++ B` is valid iff `A` and `B` are"
for `A` ending in an EOL is not in the library); `-b`/`-l` have no C10.  C11 is for canonical
command lines only (the statement needs the command line "with `-z` toggled").  `-e` is outside
C11 (as in C11 itself).  Where the model says `unmodelled` (`-e` with a regex outside
`Tuc.Model.Regex`, `-c` on input that is not UTF-8) §1 only says "not `panic`".

Imports.  When this file was written `Tuc.Props.EndToEnd` could not be imported together with
`Tuc.Props.C11`, nor `Tuc.Lemmas.RegexSpec` / `Tuc.Props.C16` together with `Tuc.Props.C12` (two
pairs of declarations with the same name; since renamed — `Tuc.AllProps` imports every property
file together — but the self-contained form below was kept).
Hence: (a) the acceptance condition of EndToEnd (`K.accepted` + `optAll regexOk K.e` +
`regexOk charsRegexText`, which `Canon.sensible` / `Canon.accepted_parts` there turn into exactly
the three fields below) is restated as the structure `Canon.Accepted`, and `tucMain_canon` is
re-derived from `parseArgv_canonArgv` as `Canon.Accepted.main`; (b) `Re.bag_ok` is re-proved, text
unchanged, in `Tuc.Lemmas.MainLevel` (namespace `Tuc.MainLevel`).
-/
namespace Tuc
set_option linter.constructorNameAsVariable false

/-! ## 0. what `parse_args` hands to `main`: the bounds always come out of the bounds parser -/

/-- the bounds list is a value of `UserBoundsList::from_str` -/
def FromParser (u : UserBoundsList) : Prop := ∃ f : Arg, boundsListOfString f = .ok u

/-- an optional bounds list, if present, is a value of `UserBoundsList::from_str` -/
def OptFromParser (x : Option UserBoundsList) : Prop := ∀ u, x = Option.some u → FromParser u

/-- if `parse_args` returns an `Opt`, its bounds are a value of `UserBoundsList::from_str` -/
def RunParsed : ArgvResult → Prop
  | .run o _ _ => FromParser o.bounds
  | _ => True

/-- `m` leaves `parse_args` only with a result that satisfies `RunParsed`, and what it returns
    satisfies `Q` -/
def Inv {σ α : Type} (m : P σ α) (Q : α → Prop) : Prop :=
  ∀ s, match m s with
    | .done r => RunParsed r
    | .next a _ => Q a

theorem Inv.bind {σ α β : Type} {m : P σ α} {f : α → P σ β} {Q : α → Prop} {R : β → Prop}
    (hm : Inv m Q) (hf : ∀ a, Q a → Inv (f a) R) : Inv (m >>= f) R := by
  intro s
  show match P.bind m f s with | .done r => RunParsed r | .next a _ => R a
  unfold P.bind
  have := hm s
  cases h : m s with
  | done r => rw [h] at this; exact this
  | next a s' => rw [h] at this; exact hf a this s'

theorem Inv.pure {σ α : Type} {Q : α → Prop} (a : α) (h : Q a) : Inv (pure a : P σ α) Q := fun _ => h

theorem Inv.exitIf {σ : Type} (c : Bool) (r : ArgvResult) (hr : RunParsed r) :
    Inv (P.exitIf c r : P σ Unit) (fun _ => True) := by
  intro s; unfold P.exitIf; cases c
  · exact trivial
  · exact hr

theorem Inv.unwrap {σ α : Type} (o : Option α) (Q : α → Prop) (h : ∀ a, o = Option.some a → Q a) :
    Inv (P.unwrap o : P σ α) Q := by
  intro s; unfold P.unwrap; cases o with
  | none => exact trivial
  | some a => exact h a rfl

theorem Inv.test {σ : Type} (f : σ → Bool) : Inv (P.test f) (fun _ => True) := fun _ => trivial

theorem Inv.flag {σ : Type} (ops : Ops σ) (k : Keys) : Inv (ops.flag k) (fun _ => True) := fun _ => trivial

/-- `opt_value_from_str` with any `FromStr`: nothing to remember -/
theorem Inv.value {σ α : Type} (ops : Ops σ) (k : Keys) (f : Arg → Res α) :
    Inv (ops.value k f) (fun _ => True) := by
  intro s
  unfold Ops.value
  cases ops.optValue k s with
  | error e => exact trivial
  | ok o =>
    cases o with
    | none => exact trivial
    | some p =>
      obtain ⟨v, s'⟩ := p
      dsimp only
      cases h : f v <;> exact trivial

/-- `opt_value_from_str::<UserBoundsList>`: the value, if any, came out of the bounds parser -/
theorem Inv.valueBounds {σ : Type} (ops : Ops σ) (k : Keys) :
    Inv (ops.value k boundsArg) OptFromParser := by
  intro s
  unfold Ops.value
  cases ops.optValue k s with
  | error e => exact trivial
  | ok o =>
    cases o with
    | none => intro u hu; cases hu
    | some p =>
      obtain ⟨v, s'⟩ := p
      dsimp only
      cases h : boundsArg v with
      | ok a =>
        intro u hu
        cases hu
        exact ⟨v, h⟩
      | fail => exact trivial
      | panic => exact trivial

theorem Inv.fallbackOob {σ : Type} (ops : Ops σ) : Inv ops.fallbackOob (fun _ => True) := by
  intro s
  unfold Ops.fallbackOob
  cases ops.optValue kFallback s with
  | error e => cases e <;> exact trivial
  | ok o =>
    cases o with
    | none => exact trivial
    | some p => exact trivial

theorem Inv.ite_true {σ α : Type} (c : Prop) [Decidable c] {a b : P σ α}
    (ha : Inv a (fun _ => True)) (hb : Inv b (fun _ => True)) :
    Inv (if c then a else b) (fun _ => True) := by
  by_cases hc : c <;> simp only [hc, if_true, if_false] <;> assumption

theorem default_fromParser :
    ∀ y, (boundsListOfString ['1', ':']).toOption.map Option.some = Option.some y → OptFromParser y := by
  intro y hy
  cases h : boundsListOfString ['1', ':'] with
  | ok a =>
    rw [h] at hy
    cases hy
    intro u hu
    cases hu
    exact ⟨_, h⟩
  | fail => rw [h] at hy; cases hy
  | panic => rw [h] at hy; cases hy

/-- the step `maybe_fields = Some(UserBoundsList::from_str("1:").unwrap())` -/
theorem Inv.defaultStep {σ : Type} (c : Bool) (o : Option (Option UserBoundsList))
    (x : Option UserBoundsList) (ho : ∀ y, o = Option.some y → OptFromParser y) (hx : OptFromParser x) :
    Inv (if c = true then P.unwrap o else (Pure.pure x : P σ (Option UserBoundsList))) OptFromParser := by
  cases c
  · simp only [Bool.false_eq_true, if_false]; exact Inv.pure _ hx
  · simp only [if_true]; exact Inv.unwrap _ _ ho

theorem or_fromParser (mf mc mb ml : Option UserBoundsList) (hf : OptFromParser mf)
    (hc : OptFromParser mc) (hb : OptFromParser mb) (hl : OptFromParser ml) :
    ∀ a, mf.or (mc.or (mb.or ml)) = Option.some a → FromParser a := by
  intro a ha
  cases mf with
  | some x => exact hf a ha
  | none =>
    cases mc with
    | some x => exact hc a ha
    | none =>
      cases mb with
      | some x => exact hb a ha
      | none => exact hl a (by simpa using ha)

attribute [local irreducible] Inv in
theorem parseWith_inv {σ : Type} (ops : Ops σ) (regexOk : Arg → Bool) :
    Inv (parseWith ops regexOk) RunParsed := by
  unfold parseWith
  repeat' first
    | exact Inv.defaultStep _ _ _ default_fromParser (by assumption)
    | exact Inv.exitIf _ _ True.intro
    | exact Inv.test _
    | exact Inv.fallbackOob _
    | exact Inv.flag _ _
    | exact Inv.valueBounds _ _
    | exact Inv.value _ _ _
    | exact Inv.unwrap _ _ (or_fromParser _ _ _ _ (by assumption) (by assumption) (by assumption) (by assumption))
    | exact Inv.pure _ trivial
    | exact Inv.pure _ (by assumption)
    | apply Inv.ite_true
    | apply Inv.bind
    | intro _
    | dsimp only

/-- **every `Opt` that `parse_args` returns carries bounds that came out of
    `UserBoundsList::from_str`** — for every argument vector, every spelling -/
theorem parseArgv_bounds_fromParser (regexOk : Arg → Bool) (argv : List Arg) (o : Opt) (fm : Bool)
    (re : Option Arg) (h : parseArgv regexOk argv = .run o fm re) :
    ∃ f : Arg, boundsListOfString f = .ok o.bounds := by
  have := parseWith_inv picoOps regexOk argv
  unfold parseArgv at h
  cases hp : parseWith picoOps regexOk argv with
  | done r => rw [hp] at this h; simp only [Step.result] at h; subst h; exact this
  | next r s => rw [hp] at this h; simp only [Step.result] at h; subst h; exact this

/-! ## 1. C12 for every argument vector -/

/-- whatever regex bag `main` runs with honours the contract of `find_iter`: it is absent, the
    `\b|\B` bag of `-c` (`charsBag_ok`, C12) or the bag of a modelled regex (`Re.bag_ok`) -/
theorem compileBag_ok (o : Opt) (re : Option Arg) (bag : Option RegexBag)
    (h : compileBag o re = Option.some bag) : ∀ b, bag = Option.some b → b.OK := by
  unfold compileBag at h
  split at h
  · cases h
    intro b hb; cases hb; exact charsBag_ok
  · split at h
    · cases h; intro b hb; cases hb
    · split at h
      · split at h
        · cases h
        · cases h
          intro b hb; cases hb; exact MainLevel.Re.bag_ok _
      · cases h

/-- the body of `main` after `parse_args`, for bounds that came out of the bounds parser -/
theorem tucRun_safe (o : Opt) (hf : FromParser o.bounds) (fm : Bool) (re : Option Arg)
    (segs : List Bytes) :
    tucRun o fm re segs ≠ .panic ∧
      ∀ r, tucRun o fm re segs = .run r → r.status = .ok ∨ r.status = .fail := by
  obtain ⟨f, hf⟩ := hf
  unfold tucRun
  cases hc : compileBag o re with
  | none => exact ⟨by simp, by intro r hr; cases hr⟩
  | some bag =>
    simp only
    split
    · exact ⟨by simp, by intro r hr; cases hr⟩
    · cases hd : dispatch { o with regexBag := bag } fm segs with
      | none => exact ⟨by simp [MainResult.ofDispatch], by intro r hr; cases hr⟩
      | some r0 =>
        refine ⟨by simp [MainResult.ofDispatch], ?_⟩
        intro r hr
        simp only [MainResult.ofDispatch, MainResult.run.injEq] at hr
        subst hr
        exact dispatch_safe { o with regexBag := bag } f hf (compileBag_ok o re bag hc) fm segs r0 hd

/-- **C12 at the level of the program, for EVERY argument vector.**  Whatever the arguments (any
    spelling `pico_args` understands, any values, any conflicts, `-e RE` included), whatever the
    input and however the reads deliver it: the model of `main` never reaches a panic site —
    neither an `unwrap`/`expect` of `parse_args` (`parseArgv_total`) nor one in an engine
    (`dispatch_safe`) — and when an engine runs it ends with exit status 0 or 1 (no panic, no
    endless loop).  No hypothesis: the bounds of every `Opt` that `parse_args` returns come out of
    the bounds parser (`parseArgv_bounds_fromParser`), the regex bag is `none`, `\b|\B` or
    compiled from a modelled regex (`compileBag_ok`). -/
theorem tucMain_never_panics (regexOk : Arg → Bool) (argv : List Arg) (segs : List Bytes) :
    tucMain regexOk argv segs ≠ .panic ∧
      ∀ r, tucMain regexOk argv segs = .run r → r.status = .ok ∨ r.status = .fail := by
  unfold tucMain
  cases hp : parseArgv regexOk argv with
  | help => exact ⟨by simp, by intro r hr; cases hr⟩
  | version => exact ⟨by simp, by intro r hr; cases hr⟩
  | reject => exact ⟨by simp, by intro r hr; cases hr⟩
  | panic => exact absurd hp (parseArgv_total regexOk argv)
  | run o fm re => exact tucRun_safe o (parseArgv_bounds_fromParser regexOk argv o fm re hp) fm re segs

/-- in particular neither a panic nor an endless loop inside an engine -/
theorem tucMain_run_status (regexOk : Arg → Bool) (argv : List Arg) (segs : List Bytes) (r : Run)
    (h : tucMain regexOk argv segs = .run r) : r.status ≠ .panic ∧ r.status ≠ .hang := by
  have := (tucMain_never_panics regexOk argv segs).2 r h
  exact ⟨Run.Safe.ne_panic this, Run.Safe.ne_hang this⟩

/-- a NON-canonical spelling (`-d:` glued, the cluster `-gz`, `--fields=2`): the engine runs and
    ends well.  `tuc --fields=2 -d: -gz` on `a::b␀` prints `b␀`. -/
example :
    tucMain (fun _ => true) [['-', '-', 'f', 'i', 'e', 'l', 'd', 's', '=', '2'], ['-', 'd', ':'], ['-', 'g', 'z']]
      [[97, 58], [58, 98, 0]] = .run (Run.ok [98, 0]) := by decide +kernel

/-- … and an instance of the theorem on a command line that fails in the engine (`-f 3` on a
    record of two fields: exit 1) -/
example :
    tucMain (fun _ => true) [['-', 'f', '3'], ['-', 'd', ':']] [[97, 58, 98, 10]] = .run Run.fail := by
  decide +kernel

/-! ## 2. C04 at the level of the program -/

theorem tucRun_chunk_independent (o : Opt) (hf : FromParser o.bounds) (fm : Bool) (re : Option Arg)
    (segs segs' : List Bytes) (h : segs.flatten = segs'.flatten) :
    tucRun o fm re segs = tucRun o fm re segs' := by
  obtain ⟨f, hf⟩ := hf
  unfold tucRun
  cases compileBag o re with
  | none => rfl
  | some bag =>
    simp only [h]
    have : dispatch { o with regexBag := bag } fm segs = dispatch { o with regexBag := bag } fm segs' := by
      cases fm with
      | true => exact dispatch_fixedMemory_chunk_independent { o with regexBag := bag } f hf segs segs' h
      | false => exact dispatch_flatten _ segs segs' h
    rw [this]

/-- **C04 at the level of the program, for EVERY argument vector.**  What `tuc` does — help,
    rejection, or the bytes on stdout and the exit status — depends on the bytes of the input
    only, never on how successive reads split it: with `-M` by C04 (`chunk_independent`, whose
    hypothesis `NoAdjFillers` holds for everything the bounds parser produces), without `-M`
    because the engines are handed `segs.flatten`.  Empty reads are allowed. -/
theorem tucMain_chunk_independent (regexOk : Arg → Bool) (argv : List Arg) (segs segs' : List Bytes)
    (h : segs.flatten = segs'.flatten) :
    tucMain regexOk argv segs = tucMain regexOk argv segs' := by
  unfold tucMain
  cases hp : parseArgv regexOk argv with
  | run o fm re =>
    exact tucRun_chunk_independent o (parseArgv_bounds_fromParser regexOk argv o fm re hp) fm re segs segs' h
  | _ => rfl

/-- … in particular it is what one read of the whole input gives -/
theorem tucMain_one_read (regexOk : Arg → Bool) (argv : List Arg) (segs : List Bytes) :
    tucMain regexOk argv segs = tucMain regexOk argv [segs.flatten] :=
  tucMain_chunk_independent regexOk argv _ _ (by simp)

/-- `tuc -M1 -d: -f1,3` (glued values) on `a:b:c⏎x:y:z⏎` in pieces of 4, 3 and 5 bytes, and in one -/
example :
    tucMain (fun _ => true) [['-', 'M', '1'], ['-', 'd', ':'], ['-', 'f', '1', ',', '3']]
        [[97, 58, 98, 58], [99, 10, 120], [58, 121, 58, 122, 10]] = .run (Run.ok [97, 99, 10, 120, 122, 10]) ∧
    tucMain (fun _ => true) [['-', 'M', '1'], ['-', 'd', ':'], ['-', 'f', '1', ',', '3']]
        [[97, 58, 98, 58, 99, 10, 120, 58, 121, 58, 122, 10]] = .run (Run.ok [97, 99, 10, 120, 122, 10]) := by
  decide +kernel

/-! ## 3. C14, writer side, at the level of the program -/

/-- the invocation with a stdout that accepts `lim` bytes and then fails (`none` = never fails):
    what `deliver` (`BufWriter` + the final `flush()?`) makes of the engine's run.  (The texts of
    `--help` / `--version` are not modelled, so those outcomes are left as they are.) -/
def MainResult.deliver (m : MainResult) (lim : Option Nat) : MainResult :=
  match m with
  | .run r => .run (Tuc.deliver r lim)
  | x => x

theorem MainResult.deliver_run (r : Run) (lim : Option Nat) :
    (MainResult.run r).deliver lim = .run (Tuc.deliver r lim) := rfl

/-- **C14 (writer side) for every argument vector, 1**: whatever the position of the write fault,
    what reaches stdout is a prefix of the fault-free output, and the outcome is still a run with
    exit status 0 or 1 -/
theorem tucMain_deliver_prefix (regexOk : Arg → Bool) (argv : List Arg) (segs : List Bytes)
    (lim : Option Nat) (r : Run) (h : tucMain regexOk argv segs = .run r) :
    ∃ r', (tucMain regexOk argv segs).deliver lim = .run r' ∧ r'.out <+: r.out ∧
      (r'.status = .ok ∨ r'.status = .fail) := by
  rw [h]
  exact ⟨Tuc.deliver r lim, rfl, deliver_prefix r lim,
    deliver_safe r lim ((tucMain_never_panics regexOk argv segs).2 r h)⟩

/-- **2**: a write fault that cuts anything off never ends in exit status 0 -/
theorem tucMain_deliver_cut_fails (regexOk : Arg → Bool) (argv : List Arg) (segs : List Bytes)
    (k : Nat) (r : Run) (h : tucMain regexOk argv segs = .run r) (hk : k < r.out.length) :
    ∃ r', (tucMain regexOk argv segs).deliver (Option.some k) = .run r' ∧ r'.out = r.out.take k ∧
      r'.status = .fail := by
  rw [h]
  refine ⟨Tuc.deliver r (Option.some k), rfl, ?_, ?_⟩
  · unfold Tuc.deliver
    have : ¬ (r.out.length ≤ k) := by omega
    simp only [this, if_false]
  · have h1 := deliver_cut_fails r k hk
    have h2 := deliver_safe r (Option.some k) ((tucMain_never_panics regexOk argv segs).2 r h)
    rcases h2 with h2 | h2
    · exact absurd h2 h1
    · exact h2

/-- **3**: a writer that accepts at least as many bytes as the run writes changes nothing, whatever
    the outcome -/
theorem tucMain_deliver_enough (regexOk : Arg → Bool) (argv : List Arg) (segs : List Bytes) (k : Nat)
    (hk : ∀ r, tucMain regexOk argv segs = .run r → r.out.length ≤ k) :
    (tucMain regexOk argv segs).deliver (Option.some k) = tucMain regexOk argv segs := by
  cases hm : tucMain regexOk argv segs with
  | run r =>
    have := hk r hm
    simp only [MainResult.deliver, Tuc.deliver, this, if_true]
  | _ => rfl

/-- **4**: when the invocation ends with exit status 0, everything the engine wrote was delivered -/
theorem tucMain_success_complete (regexOk : Arg → Bool) (argv : List Arg) (segs : List Bytes)
    (lim : Option Nat) (r' : Run) (h : (tucMain regexOk argv segs).deliver lim = .run r')
    (hok : r'.status = .ok) : tucMain regexOk argv segs = .run r' := by
  cases hm : tucMain regexOk argv segs with
  | run r =>
    rw [hm, MainResult.deliver_run, MainResult.run.injEq] at h
    subst h
    rw [success_complete r lim hok]
  | _ => rw [hm] at h; cases h

/-- `tuc -d: -f2,1` on `a:b⏎c:d⏎` writes `ba⏎dc⏎`; a stdout that takes 4 bytes gets `ba⏎d`, exit 1 -/
example :
    tucMain (fun _ => true) [['-', 'd', ':'], ['-', 'f', '2', ',', '1']] [[97, 58, 98, 10, 99, 58, 100, 10]] =
      .run (Run.ok [98, 97, 10, 100, 99, 10]) ∧
    (tucMain (fun _ => true) [['-', 'd', ':'], ['-', 'f', '2', ',', '1']] [[97, 58, 98, 10, 99, 58, 100, 10]]).deliver
      (Option.some 4) = .run ⟨[98, 97, 10, 100], .fail⟩ := by
  decide +kernel

/-! ## 4. C10 at the level of the program -/

/-- "the first part, then (if it went well) the second": two engine runs are sequenced with
    `Run.seq`; an outcome that does not depend on the input (help, version, rejection, a regex the
    model does not cover) is the outcome of the whole -/
def MainResult.seq : MainResult → MainResult → MainResult
  | .run a, .run b => .run (a.seq b)
  | x, _ => x

theorem fastOptOf_eol {o : Opt} {fo : FastOpt} (h : fastOptOf o = Option.some fo) : fo.eol = o.eol := by
  unfold fastOptOf at h
  split at h
  · split at h
    · cases h
    · cases h; rfl
  · cases h

theorem streamOptOf_eol {o : Opt} {so : StreamOpt} (hs : streamOptOf o = Option.some so) :
    so.eol = o.eol := by
  have := streamOptOf_swapped o
  unfold streamOptOf at hs
  split at hs
  · rcases hr : o.replaceDelimiter with _ | ⟨_ | ⟨r, _ | ⟨r2, t⟩⟩⟩ <;> rw [hr] at hs <;>
      simp only at hs
    · split at hs
      · cases hs
      · cases hf : forwardBoundsOf o.bounds with
        | none => rw [hf] at hs; cases hs
        | some bs =>
          rw [hf] at hs
          simp only at hs
          cases hl : lastBoundRight (boundsOnly bs) with
          | none => rw [hl] at hs; cases hs
          | some last => rw [hl] at hs; cases hs; rfl
    · cases hs
    · split at hs
      · cases hs
      · cases hf : forwardBoundsOf o.bounds with
        | none => rw [hf] at hs; cases hs
        | some bs =>
          rw [hf] at hs
          simp only at hs
          cases hl : lastBoundRight (boundsOnly bs) with
          | none => rw [hl] at hs; cases hs
          | some last => rw [hl] at hs; cases hs; rfl
    · cases hs
  · cases hs

/-- C10 for whatever engine `main` picks in field mode (`-M`: `cutBytesStream_append`, fast lane:
    `readAndCutFast_append`, general path: `readAndCutStr_append`) -/
theorem dispatch_append (o : Opt) (hty : o.boundsType = .fields) (fm : Bool) (segsA segsB : List Bytes)
    (a : Bytes) (h : segsA.flatten = a ++ [o.eol.byte]) :
    MainResult.ofDispatch (dispatch o fm (segsA ++ segsB)) =
      (MainResult.ofDispatch (dispatch o fm segsA)).seq (MainResult.ofDispatch (dispatch o fm segsB)) := by
  unfold dispatch
  simp only [List.flatten_append, h]
  cases fm with
  | true =>
    simp only [if_true]
    cases hso : streamOptOf o with
    | none => rfl
    | some so =>
      simp only [MainResult.ofDispatch, MainResult.seq]
      rw [cutBytesStream_append so segsA segsB a (by rw [streamOptOf_eol hso]; exact h)]
  | false =>
    simp only [Bool.false_eq_true, if_false, hty, reduceCtorEq]
    cases hfo : fastOptOf o with
    | some fo =>
      simp only [MainResult.ofDispatch, MainResult.seq]
      rw [← fastOptOf_eol hfo, readAndCutFast_append]
    | none =>
      simp only [MainResult.ofDispatch, MainResult.seq]
      rw [readAndCutStr_append]

theorem tucRun_append (o : Opt) (hty : o.boundsType = .fields) (fm : Bool) (re : Option Arg)
    (segsA segsB : List Bytes) (a : Bytes) (h : segsA.flatten = a ++ [o.eol.byte]) :
    tucRun o fm re (segsA ++ segsB) = (tucRun o fm re segsA).seq (tucRun o fm re segsB) := by
  unfold tucRun
  cases compileBag o re with
  | none => rfl
  | some bag =>
    have hc : ∀ x : Bytes, (decide (o.boundsType = BoundsType.characters) && !validUtf8 x) = false := by
      intro x; simp [hty]
    simp only [hc, Bool.false_eq_true, if_false]
    exact dispatch_append { o with regexBag := bag } hty fm segsA segsB a h

/-- the record terminator in force, read off what `parse_args` returns (`-z`: NUL) -/
def eolOf (regexOk : Arg → Bool) (argv : List Arg) : UInt8 :=
  match parseArgv regexOk argv with
  | .run o _ _ => o.eol.byte
  | _ => 10

/-- `parse_args` does not select `-b`, `-c` or `-l`: field mode (`-f`, or no mode option) -/
def FieldMode (regexOk : Arg → Bool) (argv : List Arg) : Prop :=
  ∀ o fm re, parseArgv regexOk argv = .run o fm re → o.boundsType = .fields

/-- **C10 at the level of the program, for EVERY argument vector of field mode** (any spelling;
    any of `-d -e -g -p -s -t -z -m -j -r --json --fallback-oob`; with or without `-M`): if the
    reads `segsA` deliver an input that ends with the record terminator in force, then running
    `tuc` on `segsA` followed by `segsB` is running it on `segsA` and then (if that ended with
    status 0) on `segsB` — bytes on stdout and exit status; and an outcome that does not depend on
    the input (help, version, rejection) is the same three times.  Any read segmentation on either
    side.  Lifts `readAndCutStr_append`, `readAndCutFast_append` (C10) and
    `cutBytesStream_append` (C10 for `-M`). -/
theorem tucMain_append (regexOk : Arg → Bool) (argv : List Arg) (hmode : FieldMode regexOk argv)
    (segsA segsB : List Bytes) (a : Bytes) (h : segsA.flatten = a ++ [eolOf regexOk argv]) :
    tucMain regexOk argv (segsA ++ segsB) =
      (tucMain regexOk argv segsA).seq (tucMain regexOk argv segsB) := by
  unfold eolOf at h
  unfold tucMain
  cases hp : parseArgv regexOk argv with
  | run o fm re =>
    rw [hp] at h
    exact tucRun_append o (hmode o fm re hp) fm re segsA segsB a h
  | _ => rfl

/-- … and if the run on the first part fails, the run on the whole fails the same way, having
    delivered exactly the same bytes -/
theorem tucMain_append_of_fail (regexOk : Arg → Bool) (argv : List Arg) (hmode : FieldMode regexOk argv)
    (segsA segsB : List Bytes) (a : Bytes) (h : segsA.flatten = a ++ [eolOf regexOk argv]) (r : Run)
    (hr : tucMain regexOk argv segsA = .run r) (hf : r.status ≠ .ok) :
    tucMain regexOk argv (segsA ++ segsB) = .run r := by
  rw [tucMain_append regexOk argv hmode segsA segsB a h, hr]
  cases hb : tucMain regexOk argv segsB with
  | run b => simp only [MainResult.seq]; rw [Run.seq_of_not_ok _ _ hf]
  | _ => rfl

/-- … and if it succeeds, the outputs are concatenated and the status is that of the second part -/
theorem tucMain_append_of_ok (regexOk : Arg → Bool) (argv : List Arg) (hmode : FieldMode regexOk argv)
    (segsA segsB : List Bytes) (a : Bytes) (h : segsA.flatten = a ++ [eolOf regexOk argv]) (r r' : Run)
    (hr : tucMain regexOk argv segsA = .run r) (hr' : tucMain regexOk argv segsB = .run r')
    (hok : r.status = .ok) :
    tucMain regexOk argv (segsA ++ segsB) = .run ⟨r.out ++ r'.out, r'.status⟩ := by
  rw [tucMain_append regexOk argv hmode segsA segsB a h, hr, hr']
  simp only [MainResult.seq, Run.seq, hok]

/-! ### canonical command lines

`Tuc.Props.EndToEnd` (which this file cannot import, see the header) packs the following three
conditions, for a matcher verdict `regexOk`, into the decidable `K.accepted` plus
`optAll regexOk K.e` and `regexOk charsRegexText` (`Canon.sensible`, `Canon.accepted_parts`). -/

/-- `parse_args` accepts the canonical command line of `K`: no value starts with `-`
    (`K.clean`), something is given, every value parses, the regex engine accepts `-e`'s value
    (`Sensible`), and none of the conflicts decided inside `parse_args` is present -/
structure Canon.Accepted (regexOk : Arg → Bool) (K : Canon) : Prop where
  clean : K.clean = true
  sensible : Sensible regexOk K.table
  noConflict : upFrontReject (flagsOf K.table) = false

/-- what `parse_args` returns on an accepted canonical command line (`parseArgv_canonArgv`) -/
theorem Canon.Accepted.parse {regexOk : Arg → Bool} {K : Canon} (h : K.Accepted regexOk) :
    parseArgv regexOk (canonArgv K) = .run (optOf K.table) K.table.memKb.isSome K.table.regexText := by
  rw [parseArgv_canonArgv regexOk K h.clean h.sensible, tableAnswer, h.noConflict]
  rfl

/-- `tucMain_canon` of `Tuc.Props.EndToEnd`, from `Canon.Accepted` -/
theorem Canon.Accepted.main {regexOk : Arg → Bool} {K : Canon} (h : K.Accepted regexOk)
    (segs : List Bytes) :
    tucMain regexOk (canonArgv K) segs =
      tucRun (optOf K.table) K.table.memKb.isSome K.table.regexText segs := by
  unfold tucMain
  rw [h.parse]

theorem Canon.tableMode (K : Canon) : K.table.mode = K.mode := by
  cases hm : K.mode <;> simp [Table.mode, Canon.table, hm]

/-- the record terminator of `K`: NUL with `-z`, LF without -/
def Canon.eolByte (K : Canon) : UInt8 := if K.z = true then 0 else 10

theorem Canon.Accepted.eolOf {regexOk : Arg → Bool} {K : Canon} (h : K.Accepted regexOk) :
    Tuc.eolOf regexOk (canonArgv K) = K.eolByte := by
  unfold Tuc.eolOf
  rw [h.parse]
  show (if K.z = true then EOL.zero else EOL.newline).byte = K.eolByte
  unfold Canon.eolByte
  cases K.z <;> rfl

theorem Canon.Accepted.fieldMode {regexOk : Arg → Bool} {K : Canon} (h : K.Accepted regexOk)
    (hmode : K.mode = .f ∨ K.mode = .dflt) : FieldMode regexOk (canonArgv K) := by
  intro o fm re hp
  rw [h.parse] at hp
  cases hp
  show boundsTypeOf K.table.mode = .fields
  rw [K.tableMode]
  rcases hmode with hm | hm <;> rw [hm] <;> rfl

/-- **C10 for canonical command lines of field mode** (`-f` or no mode option; any accepted
    option set, `-M N` included): the instance of `tucMain_append` with the terminator in closed
    form -/
theorem tucMain_canon_append (regexOk : Arg → Bool) (K : Canon) (hK : K.Accepted regexOk)
    (hmode : K.mode = .f ∨ K.mode = .dflt) (segsA segsB : List Bytes) (a : Bytes)
    (h : segsA.flatten = a ++ [K.eolByte]) :
    tucMain regexOk (canonArgv K) (segsA ++ segsB) =
      (tucMain regexOk (canonArgv K) segsA).seq (tucMain regexOk (canonArgv K) segsB) :=
  tucMain_append regexOk (canonArgv K) (hK.fieldMode hmode) segsA segsB a (by rw [hK.eolOf]; exact h)

/-- the form of the task: one read of `A ++ B` -/
theorem tucMain_canon_append_one_read (regexOk : Arg → Bool) (K : Canon) (hK : K.Accepted regexOk)
    (hmode : K.mode = .f ∨ K.mode = .dflt) (a b : Bytes) :
    tucMain regexOk (canonArgv K) [(a ++ [K.eolByte]) ++ b] =
      (tucMain regexOk (canonArgv K) [a ++ [K.eolByte]]).seq (tucMain regexOk (canonArgv K) [b]) := by
  rw [tucMain_chunk_independent regexOk (canonArgv K) [(a ++ [K.eolByte]) ++ b]
    ([a ++ [K.eolByte]] ++ [b]) (by simp)]
  exact tucMain_canon_append regexOk K hK hmode [a ++ [K.eolByte]] [b] a (by simp)

/-- `tuc -f 2 -d : -M 1` -/
def exAppend : Canon := { mode := .f, bounds := ['2'], d := Option.some [':'], mem := Option.some ['1'] }

theorem exAppend_accepted : exAppend.Accepted (fun _ => true) where
  clean := by decide +kernel
  sensible := ⟨by decide +kernel, rfl, rfl, by simp [Canon.table, exAppend], by decide +kernel,
    by decide +kernel, by simp [Canon.table, exAppend], by simp, rfl⟩
  noConflict := by decide +kernel

/-- on `a:b⏎` (read as `a:` + `b⏎`) followed by `c⏎` (no second field: exit 1 after `b⏎`) -/
example :
    tucMain (fun _ => true) (canonArgv exAppend) ([[97, 58], [98, 10]] ++ [[99, 10]]) =
      (tucMain (fun _ => true) (canonArgv exAppend) [[97, 58], [98, 10]]).seq
        (tucMain (fun _ => true) (canonArgv exAppend) [[99, 10]]) :=
  tucMain_canon_append _ exAppend exAppend_accepted (Or.inl rfl) _ _ [97, 58, 98] (by decide)

example :
    tucMain (fun _ => true) (canonArgv exAppend) [[97, 58], [98, 10]] = .run (Run.ok [98, 10]) ∧
    tucMain (fun _ => true) (canonArgv exAppend) [[99, 10]] = .run Run.fail ∧
    tucMain (fun _ => true) (canonArgv exAppend) ([[97, 58], [98, 10]] ++ [[99, 10]]) =
      .run ⟨[98, 10], .fail⟩ := by
  decide +kernel

/-! ## 5. C11 at the level of the program -/

/-- the engine's output renamed (help, version, rejection carry no modelled bytes) -/
def MainResult.mapOut (f : Bytes → Bytes) : MainResult → MainResult
  | .run r => .run (r.mapOut f)
  | x => x

theorem swap_flatten (segs : List Bytes) : (segs.map swap).flatten = swap segs.flatten := by
  simp [swap, List.map_flatten]

theorem streamOptOf_none_of_not_fields (o : Opt) (h : o.boundsType ≠ .fields) : streamOptOf o = none := by
  have := streamOptOf_isSome o
  have hb : (o.boundsType != BoundsType.fields) = true := by simpa using h
  rw [hb] at this
  cases hs : streamOptOf o with
  | none => rfl
  | some so => rw [hs] at this; simp at this

/-- field mode, literal delimiter: whichever engine `main` picks (`fieldMode_stream_swap`,
    `fieldMode_fast_swap`, `readAndCutStr_swap`) -/
theorem dispatch_swap_fields {o : Opt} (h : NoLfNulOpt o) (hty : o.boundsType = .fields) (fm : Bool)
    (segs : List Bytes) :
    dispatch o.swapped fm (segs.map swap) = (dispatch o fm segs).map (Run.mapOut swap) := by
  have hty' : o.swapped.boundsType = .fields := hty
  unfold dispatch
  simp only [swap_flatten]
  cases fm with
  | true =>
    simp only [if_true]
    cases hso : streamOptOf o with
    | none => rw [streamOptOf_swapped, hso]; rfl
    | some so =>
      obtain ⟨h1, h2⟩ := fieldMode_stream_swap h hso segs
      rw [h1]
      simp only [Option.map_some, h2]
  | false =>
    simp only [Bool.false_eq_true, if_false, hty, hty', reduceCtorEq]
    cases hfo : fastOptOf o with
    | some fo =>
      obtain ⟨h1, h2⟩ := fieldMode_fast_swap h hfo segs.flatten
      rw [h1]
      simp only [Option.map_some, h2]
    | none =>
      rw [fastOptOf_swapped, hfo]
      simp only [Option.map_none, Option.map_some, readAndCutStr_swap h]

/-- `-c` (`readAndCutStr_swap_chars`); with `-M` both sides are refused -/
theorem dispatch_swap_chars {o : Opt} (h : NoLfNulChars o) (hty : o.boundsType = .characters) (fm : Bool)
    (segs : List Bytes) :
    dispatch o.swapped fm (segs.map swap) = (dispatch o fm segs).map (Run.mapOut swap) := by
  have hty' : o.swapped.boundsType = .characters := hty
  have hnf : o.boundsType ≠ .fields := by rw [hty]; decide
  unfold dispatch
  simp only [swap_flatten]
  cases fm with
  | true =>
    simp only [if_true]
    rw [streamOptOf_swapped, streamOptOf_none_of_not_fields o hnf]
    rfl
  | false =>
    have hfo : fastOptOf o = none := by
      cases hf : fastOptOf o with
      | none => rfl
      | some fo =>
        have := (fastOptOf_isSome_iff o).mp (by rw [hf]; rfl)
        rw [hty] at this
        exact absurd this.2.2.2.2.2.1 (by decide)
    simp only [Bool.false_eq_true, if_false, hty, hty', reduceCtorEq]
    rw [fastOptOf_swapped, hfo]
    simp only [Option.map_none, Option.map_some, readAndCutStr_swap_chars h]

/-- `-l` (`readAndCutLines_swap`: LF and NUL are also exchanged in the delimiter, which in line
    mode is the terminator); with `-M` both sides are refused -/
theorem dispatch_swap_lines {o : Opt} (h : NoLfNulLits o) (hty : o.boundsType = .lines) (fm : Bool)
    (segs : List Bytes) :
    dispatch o.swappedAll fm (segs.map swap) = (dispatch o fm segs).map (Run.mapOut swap) := by
  have hty' : o.swappedAll.boundsType = .lines := hty
  unfold dispatch
  simp only [swap_flatten]
  cases fm with
  | true =>
    simp only [if_true]
    rw [streamOptOf_none_of_not_fields o (by rw [hty]; decide),
      streamOptOf_none_of_not_fields o.swappedAll (by rw [hty']; decide)]
    rfl
  | false =>
    simp only [Bool.false_eq_true, if_false, hty, hty', reduceCtorEq, if_true, Option.map_some,
      readAndCutLines_swap h]

/-! `-b` is not an engine "that reads records or lines" and C11 has no statement for it; the
    naturality of `cut_bytes` is immediate and proved here so that the program-level statement
    covers all four modes. -/

theorem slice_swap (data : Bytes) (s e : Nat) : slice (swap data) s e = swap (slice data s e) := by
  simp [slice, swap, List.map_take, List.map_drop]

theorem cutBytesLoop_swap {o o' : Opt} (hfb : o'.fallbackOob = o.fallbackOob)
    (hoob : ∀ f, o.fallbackOob = Option.some f → NoLfNul f) (data : Bytes) :
    ∀ l : List BoF, (∀ f, BoF.filler f ∈ l → NoLfNul f) →
      (∀ b f, BoF.bound b ∈ l → b.fallback = Option.some f → NoLfNul f) →
      cutBytesLoop (swap data) o' l = (cutBytesLoop data o l).mapOut swap
  | [], _, _ => rfl
  | .filler f :: t, h1, h2 => by
    have ih := cutBytesLoop_swap hfb hoob data t (fun f hf => h1 f (List.mem_cons_of_mem _ hf))
      (fun b f hb hf => h2 b f (List.mem_cons_of_mem _ hb) hf)
    have hf : swap f = f := swap_of_noLfNul (h1 f (List.mem_cons_self ..))
    simp only [cutBytesLoop, ih, Run.pre, Run.mapOut, swap_append, hf]
  | .bound b :: t, h1, h2 => by
    have ih := cutBytesLoop_swap hfb hoob data t (fun f hf => h1 f (List.mem_cons_of_mem _ hf))
      (fun b f hb hf => h2 b f (List.mem_cons_of_mem _ hb) hf)
    simp only [cutBytesLoop, swap_length, hfb]
    cases hr : b.tryIntoRange data.length with
    | some p =>
      obtain ⟨s, e⟩ := p
      simp only
      split
      · simp only [ih, Run.pre, Run.mapOut, swap_append, slice_swap]
      · rfl
    | none =>
      simp only
      cases hbf : b.fallback with
      | some f =>
        have hf : swap f = f := swap_of_noLfNul (h2 b f (List.mem_cons_self ..) hbf)
        simp only [ih, Run.pre, Run.mapOut, swap_append, hf]
      | none =>
        simp only
        cases hof : o.fallbackOob with
        | some f =>
          have hf : swap f = f := swap_of_noLfNul (hoob f hof)
          simp only [ih, Run.pre, Run.mapOut, swap_append, hf]
        | none => rfl

/-- C11 for `-b` (the terminator plays no role there: `-z` only renames the bytes) -/
theorem readAndCutBytes_swap {o : Opt} (h : NoLfNulLits o) (data : Bytes) :
    readAndCutBytes o.swapped (swap data) = (readAndCutBytes o data).mapOut swap := by
  unfold readAndCutBytes
  have he : (swap data).isEmpty = data.isEmpty := by cases data <;> rfl
  rw [he]
  split
  · rfl
  · exact cutBytesLoop_swap (o := o) (o' := o.swapped) rfl h.fallbackOob data _ h.fillers h.fallbacks

theorem dispatch_swap_bytes {o : Opt} (h : NoLfNulLits o) (hty : o.boundsType = .bytes) (fm : Bool)
    (segs : List Bytes) :
    dispatch o.swapped fm (segs.map swap) = (dispatch o fm segs).map (Run.mapOut swap) := by
  have hty' : o.swapped.boundsType = .bytes := hty
  unfold dispatch
  simp only [swap_flatten]
  cases fm with
  | true =>
    simp only [if_true]
    rw [streamOptOf_none_of_not_fields o (by rw [hty]; decide),
      streamOptOf_none_of_not_fields o.swapped (by rw [hty']; decide)]
    rfl
  | false =>
    simp only [Bool.false_eq_true, if_false, hty, hty', if_true, Option.map_some,
      readAndCutBytes_swap h]

/-! ### `tucRun` -/

theorem MainResult.mapOut_ofDispatch (f : Bytes → Bytes) (d : Option Run) :
    (MainResult.ofDispatch d).mapOut f = MainResult.ofDispatch (d.map (Run.mapOut f)) := by
  cases d <;> rfl

/-- `tucRun` without `-e`, not in character mode (`tucRun_plain` of `Tuc.Props.EndToEnd`) -/
theorem tucRun_noRegex (o : Opt) (fm : Bool) (segs : List Bytes) (hbt : o.boundsType ≠ .characters)
    (hbag : o.regexBag = none) :
    tucRun o fm none segs = MainResult.ofDispatch (dispatch o fm segs) := by
  have ho : { o with regexBag := none } = o := by
    cases o; simp only at hbag; subst hbag; rfl
  simp only [tucRun, compileBag, hbt, if_false, ho, decide_false, Bool.false_and, Bool.false_eq_true]

/-- `tucRun` in character mode -/
theorem tucRun_charsMode (o : Opt) (fm : Bool) (re : Option Arg) (segs : List Bytes)
    (hbt : o.boundsType = .characters) :
    tucRun o fm re segs =
      if validUtf8 segs.flatten = true then
        MainResult.ofDispatch (dispatch { o with regexBag := Option.some charsBag } fm segs)
      else .unmodelled := by
  simp only [tucRun, compileBag, hbt, if_true]
  cases validUtf8 segs.flatten <;> simp

/-! ### canonical command lines -/

/-- `K` with `-z` added if it is absent, removed if it is present -/
def Canon.toggleZ (K : Canon) : Canon := { K with z := !K.z }

theorem Canon.toggleZ_toggleZ (K : Canon) : K.toggleZ.toggleZ = K := by
  cases K; simp [Canon.toggleZ]

theorem Canon.toggleZ_mode (K : Canon) : K.toggleZ.table.mode = K.table.mode := rfl
theorem Canon.toggleZ_memKb (K : Canon) : K.toggleZ.table.memKb = K.table.memKb := rfl
theorem Canon.toggleZ_regexText (K : Canon) : K.toggleZ.table.regexText = K.table.regexText := rfl

/-- the `Opt` of the toggled command line: the other terminator, everything else unchanged -/
theorem Canon.optOf_toggleZ (K : Canon) (hl : K.mode ≠ .l) :
    optOf K.toggleZ.table = (optOf K.table).swapped := by
  have hm : boundsTypeOf K.table.mode ≠ .lines := by
    rw [K.tableMode]; cases h : K.mode <;> simp_all [boundsTypeOf]
  unfold Opt.swapped optOf
  simp only [Opt.mk.injEq, Canon.toggleZ_mode, hm, if_false]
  refine ⟨rfl, ?_, rfl, trivial, rfl, rfl, rfl, rfl, rfl, rfl, rfl, rfl, rfl, rfl, trivial⟩
  show (if (!K.z) = true then EOL.zero else EOL.newline) = (if K.z = true then EOL.zero else EOL.newline).swap
  cases K.z <;> rfl

/-- … in line mode the delimiter is the terminator, so it changes too -/
theorem Canon.optOf_toggleZ_lines (K : Canon) (hl : K.mode = .l) :
    optOf K.toggleZ.table = (optOf K.table).swappedAll := by
  have hm : boundsTypeOf K.table.mode = .lines := by rw [K.tableMode, hl]; rfl
  unfold Opt.swappedAll optOf
  simp only [Opt.mk.injEq, Canon.toggleZ_mode, hm, if_true]
  refine ⟨?_, ?_, rfl, trivial, rfl, rfl, rfl, rfl, rfl, rfl, rfl, rfl, rfl, rfl, trivial⟩
  · show [(if (!K.z) = true then EOL.zero else EOL.newline).byte] =
      swap [(if K.z = true then EOL.zero else EOL.newline).byte]
    cases K.z <;> decide
  · show (if (!K.z) = true then EOL.zero else EOL.newline) = (if K.z = true then EOL.zero else EOL.newline).swap
    cases K.z <;> rfl

theorem canonArgv_isEmpty_eq (K : Canon) : (canonArgv K).isEmpty = K.table.isEmpty := by
  rw [canonArgv, render_isEmpty, ← tableOf_isEmpty, K.tableOf_groups]

/-- toggling `-z` does not change whether `parse_args` accepts the command line — unless `-z` was
    the only argument (`tuc -z` cuts, `tuc` prints the short help) -/
theorem Canon.Accepted.toggleZ {regexOk : Arg → Bool} {K : Canon} (h : K.Accepted regexOk)
    (hne : canonArgv K.toggleZ ≠ []) : K.toggleZ.Accepted regexOk where
  clean := h.clean
  sensible :=
    { nonempty := by
        rw [← canonArgv_isEmpty_eq]
        cases hc : canonArgv K.toggleZ with
        | nil => exact absurd hc hne
        | cons _ _ => rfl
      noHelp := rfl
      noVersion := rfl
      oneMode := h.sensible.oneMode
      bounds := h.sensible.bounds
      mem := h.sensible.mem
      trim := h.sensible.trim
      regex := h.sensible.regex
      charsRegex := h.sensible.charsRegex }
  noConflict := h.noConflict

/-- **the domain of C11 for a command line**: the texts given on it — the values of `-d`, `-r`,
    `--fallback-oob`, the literal text and the per-bound fallbacks (`{1=x}`) inside the bounds —
    contain neither LF nor NUL (argv cannot contain NUL in the first place), no `--json`
    (`serde_json` escapes LF as `\n` and NUL as `\u0000`), no `-e` -/
structure Canon.NoLfNul (K : Canon) : Prop where
  d : ∀ x, K.d = Option.some x → Tuc.NoLfNul (utf8 x)
  r : ∀ x, K.r = Option.some x → Tuc.NoLfNul (utf8 x)
  fallback : ∀ x, K.fallback = Option.some x → Tuc.NoLfNul (utf8 x)
  fillers : ∀ f, BoF.filler f ∈ K.table.bounds.list → Tuc.NoLfNul f
  fallbacks : ∀ b f, BoF.bound b ∈ K.table.bounds.list → b.fallback = Option.some f → Tuc.NoLfNul f
  noJson : K.json = false
  noRegex : K.e = none

theorem Canon.optOf_replace (K : Canon) (hj : K.json = false) :
    (optOf K.table).replaceDelimiter =
      if boundsTypeOf K.table.mode = .characters then Option.some [] else K.r.map utf8 := by
  show (if K.json = true then Option.some [44]
    else if boundsTypeOf K.table.mode = .characters then Option.some [] else K.r.map utf8) = _
  rw [hj]; rfl

theorem Canon.NoLfNul.replace {K : Canon} (h : K.NoLfNul) :
    ∀ r, (optOf K.table).replaceDelimiter = Option.some r → Tuc.NoLfNul r := by
  intro r hr
  rw [K.optOf_replace h.noJson] at hr
  split at hr
  · cases hr; intro b hb; cases hb
  · cases hkr : K.r with
    | none => rw [hkr] at hr; cases hr
    | some x => rw [hkr] at hr; cases hr; exact h.r x hkr

theorem Canon.NoLfNul.fallbackOob {K : Canon} (h : K.NoLfNul) :
    ∀ f, (optOf K.table).fallbackOob = Option.some f → Tuc.NoLfNul f := by
  intro f hf
  have : (optOf K.table).fallbackOob = K.fallback.map utf8 := rfl
  rw [this] at hf
  cases hk : K.fallback with
  | none => rw [hk] at hf; cases hf
  | some x => rw [hk] at hf; cases hf; exact h.fallback x hk

/-- the general-engine domain of C11 (`NoLfNulLits`) holds for the `Opt` of the command line -/
theorem Canon.NoLfNul.lits {K : Canon} (h : K.NoLfNul) : NoLfNulLits (optOf K.table) where
  replace := h.replace
  fallbackOob := h.fallbackOob
  fillers := h.fillers
  fallbacks := h.fallbacks
  regex := by intro bag hb; cases hb
  noJson := h.noJson

/-- field mode: `NoLfNulOpt` -/
theorem Canon.NoLfNul.fields {K : Canon} (h : K.NoLfNul) (hmode : K.mode = .f ∨ K.mode = .dflt) :
    NoLfNulOpt (optOf K.table) where
  delimiter := by
    have hbt : boundsTypeOf K.table.mode = .fields := by
      rw [K.tableMode]; rcases hmode with hm | hm <;> rw [hm] <;> rfl
    have : (optOf K.table).delimiter = (match K.d with | Option.some x => utf8 x | none => [9]) := by
      show (if boundsTypeOf K.table.mode = .lines then _ else if boundsTypeOf K.table.mode = .fields then
        (match K.d with | Option.some x => utf8 x | none => [9]) else []) = _
      rw [hbt]; rfl
    rw [this]
    cases hd : K.d with
    | none => decide
    | some x => exact h.d x hd
  replace := h.replace
  fallbackOob := h.fallbackOob
  fillers := h.fillers
  fallbacks := h.fallbacks
  noRegex := rfl
  noJson := h.noJson
  notChars := by
    show boundsTypeOf K.table.mode ≠ .characters
    rw [K.tableMode]; rcases hmode with hm | hm <;> rw [hm] <;> decide

/-- `-c`: `NoLfNulChars` for the `Opt` with the `\b|\B` bag -/
theorem Canon.NoLfNul.chars {K : Canon} (h : K.NoLfNul) (hmode : K.mode = .c) :
    NoLfNulChars { optOf K.table with regexBag := Option.some charsBag } where
  delimiter := by
    have hbt : boundsTypeOf K.table.mode = .characters := by rw [K.tableMode, hmode]; rfl
    show Tuc.NoLfNul (if boundsTypeOf K.table.mode = .lines then _ else if boundsTypeOf K.table.mode = .fields then
        (match K.table.val .d with | Option.some x => utf8 x | none => [9]) else [])
    rw [hbt]
    intro b hb; simp at hb
  replace := h.replace
  fallbackOob := h.fallbackOob
  fillers := h.fillers
  fallbacks := h.fallbacks
  bag := rfl
  noJson := h.noJson

theorem Canon.regexText_noRegex (K : Canon) (hc : K.mode ≠ .c) (he : K.e = none) :
    K.table.regexText = none := by
  unfold Table.regexText
  rw [K.tableMode, if_neg hc]
  exact he

theorem tucRun_swap_noRegex {o o' : Opt} (fm : Bool) (segs : List Bytes)
    (hbt : o.boundsType ≠ .characters) (hbt' : o'.boundsType ≠ .characters)
    (hb : o.regexBag = none) (hb' : o'.regexBag = none)
    (hd : dispatch o' fm (segs.map swap) = (dispatch o fm segs).map (Run.mapOut swap)) :
    tucRun o' fm none (segs.map swap) = (tucRun o fm none segs).mapOut swap := by
  rw [tucRun_noRegex _ _ _ hbt' hb', tucRun_noRegex _ _ _ hbt hb, MainResult.mapOut_ofDispatch, hd]

/-- C11 for the body of `main` on the `Opt`s of `K` and of `K` with `-z` toggled, all four modes,
    with or without `-M` -/
theorem tucRun_canon_swap (K : Canon) (hdom : K.NoLfNul) (fm : Bool) (segs : List Bytes) :
    tucRun (optOf K.toggleZ.table) fm K.table.regexText (segs.map swap) =
      (tucRun (optOf K.table) fm K.table.regexText segs).mapOut swap := by
  have hbt : (optOf K.table).boundsType = boundsTypeOf K.mode := by
    show boundsTypeOf K.table.mode = _
    rw [K.tableMode]
  cases hm : K.mode with
  | f =>
    rw [hm] at hbt
    rw [K.regexText_noRegex (by rw [hm]; decide) hdom.noRegex, K.optOf_toggleZ (by rw [hm]; decide)]
    exact tucRun_swap_noRegex fm segs (by rw [hbt]; decide) (by show (optOf K.table).boundsType ≠ _; rw [hbt]; decide)
      rfl rfl (dispatch_swap_fields (hdom.fields (Or.inl hm)) hbt fm segs)
  | dflt =>
    rw [hm] at hbt
    rw [K.regexText_noRegex (by rw [hm]; decide) hdom.noRegex, K.optOf_toggleZ (by rw [hm]; decide)]
    exact tucRun_swap_noRegex fm segs (by rw [hbt]; decide) (by show (optOf K.table).boundsType ≠ _; rw [hbt]; decide)
      rfl rfl (dispatch_swap_fields (hdom.fields (Or.inr hm)) hbt fm segs)
  | b =>
    rw [hm] at hbt
    rw [K.regexText_noRegex (by rw [hm]; decide) hdom.noRegex, K.optOf_toggleZ (by rw [hm]; decide)]
    exact tucRun_swap_noRegex fm segs (by rw [hbt]; decide) (by show (optOf K.table).boundsType ≠ _; rw [hbt]; decide)
      rfl rfl (dispatch_swap_bytes hdom.lits hbt fm segs)
  | l =>
    rw [hm] at hbt
    rw [K.regexText_noRegex (by rw [hm]; decide) hdom.noRegex, K.optOf_toggleZ_lines hm]
    exact tucRun_swap_noRegex fm segs (by rw [hbt]; decide) (by show (optOf K.table).boundsType ≠ _; rw [hbt]; decide)
      rfl rfl (dispatch_swap_lines hdom.lits hbt fm segs)
  | c =>
    rw [hm] at hbt
    rw [K.optOf_toggleZ (by rw [hm]; decide), tucRun_charsMode _ _ _ _ hbt,
      tucRun_charsMode (optOf K.table).swapped _ _ _ hbt, swap_flatten, validUtf8_swap]
    cases validUtf8 segs.flatten with
    | false => rfl
    | true =>
      simp only [if_true]
      rw [MainResult.mapOut_ofDispatch]
      exact congrArg MainResult.ofDispatch (dispatch_swap_chars (hdom.chars hm) hbt fm segs)

/-- **C11 at the level of the program, for canonical command lines — all four modes (`-f`/default,
    `-c`, `-b`, `-l`), with or without `-M`, every read segmentation.**  Let `K` be accepted, let
    the texts on the command line contain neither LF nor NUL, without `--json` and `-e`
    (`K.NoLfNul`: the domain of the C11 theorems), and let `K.toggleZ` be `K` with `-z` added or
    removed (and something left on the command line).  Then `tuc` with the toggled command line
    on the input with LF and NUL exchanged (in every read) does what `tuc` with the original
    command line does on the original input, with LF and NUL exchanged in the output: the same
    outcome (rejection, failure …), the same exit status, the swapped bytes.

    Lifts `readAndCutStr_swap`, `readAndCutFast_swap` (via `fieldMode_fast_swap`),
    `cutBytesStream_swap` (via `fieldMode_stream_swap`), `readAndCutStr_swap_chars` and
    `readAndCutLines_swap` (C11), plus `readAndCutBytes_swap` above for `-b`; composes them with
    `parseArgv_canonArgv` on both command lines. -/
theorem tucMain_swap (regexOk : Arg → Bool) (K : Canon) (hK : K.Accepted regexOk)
    (hne : canonArgv K.toggleZ ≠ []) (hdom : K.NoLfNul) (segs : List Bytes) :
    tucMain regexOk (canonArgv K.toggleZ) (segs.map swap) =
      (tucMain regexOk (canonArgv K) segs).mapOut swap := by
  rw [(hK.toggleZ hne).main, hK.main, K.toggleZ_memKb, K.toggleZ_regexText]
  exact tucRun_canon_swap K hdom _ segs

/-- `tuc -f 2,1 -d :` -/
def exSwap : Canon := { mode := .f, bounds := ['2', ',', '1'], d := Option.some [':'] }

theorem exSwap_accepted : exSwap.Accepted (fun _ => true) where
  clean := by decide +kernel
  sensible := ⟨by decide +kernel, rfl, rfl, by simp [Canon.table, exSwap], by decide +kernel,
    by simp [Canon.table, exSwap], by simp [Canon.table, exSwap], by simp, rfl⟩
  noConflict := by decide +kernel

theorem exSwap_noLfNul : exSwap.NoLfNul where
  d := by intro x hx; cases hx; decide +kernel
  r := by intro x hx; cases hx
  fallback := by intro x hx; cases hx
  fillers := by
    intro f hf
    have : exSwap.table.bounds.list = [.bound { l := .some 2, r := .some 2 },
        .bound { l := .some 1, r := .some 1, isLast := true }] := by decide +kernel
    rw [this] at hf; simp at hf
  fallbacks := by
    intro b f hb hf
    have : exSwap.table.bounds.list = [.bound { l := .some 2, r := .some 2 },
        .bound { l := .some 1, r := .some 1, isLast := true }] := by decide +kernel
    rw [this] at hb
    simp at hb
    rcases hb with rfl | rfl <;> cases hf
  noJson := rfl
  noRegex := rfl

/-- `tuc -f 2,1 -d : -z` on `a:b␀` `c:d␀` against `tuc -f 2,1 -d :` on `a:b⏎` `c:d⏎` -/
example :
    tucMain (fun _ => true) (canonArgv exSwap.toggleZ) ([[97, 58, 98, 10], [99, 58, 100, 10]].map swap) =
      (tucMain (fun _ => true) (canonArgv exSwap) [[97, 58, 98, 10], [99, 58, 100, 10]]).mapOut swap :=
  tucMain_swap _ exSwap exSwap_accepted (by decide +kernel) exSwap_noLfNul _

example :
    canonArgv exSwap.toggleZ = [['-', 'f'], ['2', ',', '1'], ['-', 'd'], [':'], ['-', 'z']] ∧
    [[97, 58, 98, 10], [99, 58, 100, 10]].map swap = [[97, 58, 98, 0], [99, 58, 100, 0]] ∧
    tucMain (fun _ => true) (canonArgv exSwap) [[97, 58, 98, 10], [99, 58, 100, 10]] =
      .run (Run.ok [98, 97, 10, 100, 99, 10]) ∧
    tucMain (fun _ => true) (canonArgv exSwap.toggleZ) [[97, 58, 98, 0], [99, 58, 100, 0]] =
      .run (Run.ok [98, 97, 0, 100, 99, 0]) := by
  decide +kernel

/-- the side condition `hne`: `tuc -z` cuts (`-f 1:`), `tuc` without arguments prints the help -/
example :
    tucMain (fun _ => true) (canonArgv { z := true }) [[97, 0]] = .run (Run.ok [97, 0]) ∧
    tucMain (fun _ => true) (canonArgv ({ z := true } : Canon).toggleZ) [[97, 10]] = .help := by
  decide +kernel

/-- `tuc -l 2,1 --no-join` (the buffered algorithm; in line mode `-z` also changes the delimiter) -/
def exSwapLines : Canon := { mode := .l, bounds := ['2', ',', '1'], noJoin := true }

theorem exSwapLines_accepted : exSwapLines.Accepted (fun _ => true) where
  clean := by decide +kernel
  sensible := ⟨by decide +kernel, rfl, rfl, by simp [Canon.table, exSwapLines], by decide +kernel,
    by simp [Canon.table, exSwapLines], by simp [Canon.table, exSwapLines], by simp, rfl⟩
  noConflict := by decide +kernel

theorem exSwapLines_noLfNul : exSwapLines.NoLfNul where
  d := by intro x hx; cases hx
  r := by intro x hx; cases hx
  fallback := by intro x hx; cases hx
  fillers := by
    intro f hf
    have : exSwapLines.table.bounds.list = [.bound { l := .some 2, r := .some 2 },
        .bound { l := .some 1, r := .some 1, isLast := true }] := by decide +kernel
    rw [this] at hf; simp at hf
  fallbacks := by
    intro b f hb hf
    have : exSwapLines.table.bounds.list = [.bound { l := .some 2, r := .some 2 },
        .bound { l := .some 1, r := .some 1, isLast := true }] := by decide +kernel
    rw [this] at hb
    simp at hb
    rcases hb with rfl | rfl <;> cases hf
  noJson := rfl
  noRegex := rfl

example (segs : List Bytes) :
    tucMain (fun _ => true) (canonArgv exSwapLines.toggleZ) (segs.map swap) =
      (tucMain (fun _ => true) (canonArgv exSwapLines) segs).mapOut swap :=
  tucMain_swap _ exSwapLines exSwapLines_accepted (by decide +kernel) exSwapLines_noLfNul segs

example :
    tucMain (fun _ => true) (canonArgv exSwapLines) [[97, 10, 98], [10]] = .run (Run.ok [98, 97, 10]) ∧
    tucMain (fun _ => true) (canonArgv exSwapLines.toggleZ) [[97, 0, 98], [0]] = .run (Run.ok [98, 97, 0]) := by
  decide +kernel

end Tuc
