import Tuc.Model.CutStrLit
import Tuc.Props.BoundsLit
import Tuc.Lemmas.Total
import Tuc.Props.LinesLoop
import Tuc.Props.MainLevel
/-!
# Tuc.Props.CutStrLit — the statements of `cut_str` (cut_str.rs:260-456) refine the normal-form model

`Tuc.Model.CutStrLit` follows the Rust text of `cut_str`, `maybe_replace_delimiter` and
`write_maybe_as_json!` statement by statement: every `unwrap`, `fields[i]`, `r.end - 1`,
`&line[a..b]` and `drain(..1)` is checked, and `b.try_into_range(num_fields)` (l.416) is the
MACHINE-INTEGER transcription of `Tuc.Model.BoundsLit` (`parts_length as i32`, checked `i32` sums,
`as usize`).  `Tuc.Model.CutStr` is the normal-form model (`cutStr`, `cutStrCore`, `emitRecord`,
`outputLoop`, `outputBof`) about which the property theorems (C01 …) are stated.  This file proves
that the two are EQUAL.

## Headline

* `cutStrLit_eq` — `cutStrLit line opt fields compressedLineBuf eol = cutStr line opt fields
  compressedLineBuf eol`: the bytes written, the status AND the two scratch buffers as the function
  leaves them, for EVERY record, EVERY option record (regex bag present or not, every combination
  of flags — also those `parse_args` never builds), ANY previous content of the two buffers, any
  `eol`, under two hypotheses:
  1. `BoundsOk opt.bounds.list` — every bound of the list has both sides inside `i32` and a left
     side that is not the literal 0;
  2. `FieldsFit line opt` — the record has fewer than 2³¹ fields (the vector `fields` after l.332-355;
     sufficient; since `try_into_range` computes in `i64` only `complement` / `unpack` need it, see below).
  Componentwise: `cutStrLit_run`, `cutStrLit_fields`, `cutStrLit_buf`.
* NO well-formedness of `Opt` is needed beyond the bounds.  The places where literal and model look
  different are all equal: the `unwrap`s of l.286 / 319 / 338 / 340 sit behind a test
  `opt.regex_bag.is_some()` (they cannot panic, in any `Opt`); the `unwrap` of l.316
  (`replace_delimiter`) panics exactly where the model's `st = none` does (and `cut_str` returns at
  l.271 before); `fields.drain(..1)` (l.354) is behind `fields.len() > 2`; the test
  `bounds.is_empty()` of l.376, which the model does not have, is never true (`complement`
  returns `Err` on an empty result: `complementList_boundsOk`); the previous content of `fields` and
  `compressed_line_buf` is never read (`fill_with_fields_locations*` and `compress_delimiter` clear
  first); the model's `maybeReplaceDelimiter … compressedWithRegex` differs from l.422-426 only when
  `delimiter_already_replaced` is set WITHOUT a regex bag (`DarOk`, needed by `emitStage_eq` and shown
  necessary there) — which `cut_str` cannot do (l.324 is inside `if opt.regex_bag.is_some()`, l.313).
* `cutStrLit_panic_only_if_model`, `cutStrLit_safe` — on that domain the Rust function panics only
  where the model does, and (C12: `cutStr_safe`) the model does not when the regex bag honours the
  contract of `find_iter`: no checked operation of `cut_str` can fail, `try_into_range` included.
* `cutRecordsLit_eq`, `readAndCutStrLit_eq`, `readAndCutStrLit_safe` — the record loop
  (`cutRecordsLit`: the fold of `cutRecords` with `cutStrLit` as the per-record function) equals
  `cutRecords` / `readAndCutStr` when every record has fewer than 2³¹ fields.
* `boundsOk_of_parsed`, `boundsOk_of_parseArgv`, `cutStrLit_eq_of_parseArgv` — hypothesis 1 holds
  for every `Opt` that `parse_args` returns (every argument vector; `main` then only stores the
  regex bag, `boundsOk_withBag`): on what the command line can produce only `FieldsFit` is left.
* pieces: `outputClosure_eq` (the closure of `try_for_each`, l.407-446 = `outputBof`),
  `tryForEach_eq`, `emitStage_eq` (l.357-455 = `emitRecord`), `trimStage_eq`, `fieldsStage_eq`,
  `afterTrim_eq`; `complementList_boundsOk` / `unpackList_boundsOk`: the lists that `complement` and
  `unpack` build are `BoundsOk` again (their sides are field numbers ≤ `num_fields` < 2³¹).

The list-level `complement` / `unpack` (l.373, 402) are called through the model in
`Tuc.Model.CutStrLit` (their per-bound machine-integer refinements are `BoundsLit.complement_eq` /
`unpack_eq`); the machine-integer content of THIS refinement is l.416.

## The hypotheses are decidable (`boundsOkB`, `fieldsFitB`, `darOkB`) and cannot be dropped (section 9)

* left side 0: `optLeftZero` — Rust: start = `-1 as usize`, `fields[2⁶⁴-1]` panics (l.420); model: field 1.
  The real program cannot get there: `UserBounds::from_str` refuses a 0 (`boundsOk_of_parsed`); only
  `UserBounds::new` builds it (library users).
* a side outside `i32`: `optBigSide` — no Rust value; truncated, 2³² + 1 is the index 1.  Unreachable
  (`parse::<i32>`).
* 2³¹ fields or more (`FieldsFit`): since the repair of `try_into_range` (`i64` arithmetic instead of the
  cast `parts_length as i32`; `Tuc.Props.BoundsLit.tryIntoRange_eq_i64`) this hypothesis is ONLY
  SUFFICIENT for l.416: `resolve_eq`, `fieldToPrint_*`, `outputClosure_eq`, `tryForEach_eq` now hold for
  every number of fields below 2⁶³, and the former witnesses `cutStrLit_length_necessary` /
  `cutStrLit_ne_cutStr_on_2GiB_line` ("Out of bounds: 1" on a record of 2³¹ fields) are false and gone
  (commit history).  In their place `cutStrLit_eq_cutStr_oneOpen`, `cutStrLit_eq_cutStr_on_2GiB_line`:
  `tuc` without options (`-f 1:`) agrees with the model on EVERY record, the one of 2³¹ − 1 TABs included.
  `FieldsFit` stays in the headline because `complementList_boundsOk` / `unpackList_boundsOk` (`-m`,
  `--json` / `-c` with `-r`) still use it: the sides that `complement` / `unpack` build are field numbers,
  which must fit an `i32` (`UserBounds::from(Range)`, `i as i32 + 1`: `Tuc.Props.BoundsListLit` §8 has the
  witnesses at 2³¹ fields).

Section 0 compares `cutStrLit` and `cutStr` by evaluation: 20 bounds lists (as the parser builds
them) × 44 option records (every flag, fields / characters (`charsBag`) / regex / lines mode, the
refused combinations) × 13 records, clean and dirty buffers; the stages with both values of
`delimiter_already_replaced`; whole inputs.

Proof engineering note.  `unfold` / `simp only [f]` of a function whose `match` discriminant is
`resolve b n` with a CONCRETE bound `b` lets `whnf` run into `I32.wrap ↑n` (the 2³¹ poison, see
`Tuc.Props.BoundsLit`): every lemma about `fieldToPrint` / `outputClosure` is stated for a variable
bound and instantiated afterwards.
-/

namespace Tuc
namespace CutStrLitProps
open BoundsLit
set_option linter.unusedSimpArgs false

/-! ## 1. the closure of `try_for_each` (l.407-446) -/

/-- `write_maybe_as_json!`: the same text -/
theorem writeMaybeAsJsonLit_eq (t : Bytes) (j : Bool) :
    CutStrLit.writeMaybeAsJsonLit t j = writeMaybeAsJson t j := rfl

/-- `maybe_replace_delimiter` is the model's function with `compressedWithRegex = false` -/
theorem maybeReplaceDelimiterLit_eq (text : Bytes) (opt : Opt) :
    CutStrLit.maybeReplaceDelimiterLit text opt = maybeReplaceDelimiter text opt false := by
  unfold CutStrLit.maybeReplaceDelimiterLit maybeReplaceDelimiter
  cases opt.replaceDelimiter <;> cases opt.regexBag <;> simp

/-- the flag `delimiter_already_replaced` is consistent with the option record: it is set only
    together with a regex bag (l.313-324) — or where `maybe_replace_delimiter` is the identity anyway.
    Needed (and necessary: section 9) for the stages that take the flag as an argument; `cut_str`
    itself always satisfies it. -/
def DarOk (opt : Opt) (dar : Bool) : Prop :=
  dar = true → opt.regexBag.isSome = true ∨ opt.boundsType = .characters ∨ opt.replaceDelimiter = none

theorem maybeReplaceDelimiter_true (text : Bytes) (opt : Opt) (h : DarOk opt true) :
    maybeReplaceDelimiter text opt true = text := by
  unfold maybeReplaceDelimiter
  rcases h rfl with h | h | h
  · cases hb : opt.regexBag with
    | none => rw [hb] at h; cases h
    | some bag => cases opt.replaceDelimiter <;> simp
  · simp [h]
  · simp [h]

/-- l.416 on the domain of the hypotheses (`BoundsLit.tryIntoRange_model_i64`: since the repair of
    `try_into_range` — `i64` arithmetic instead of `parts_length as i32` — any number of parts up to
    `i64::MAX`; this lemma and the four below it had `n < 2³¹` before) -/
theorem resolve_eq (b : UserBounds) (n : Nat) (hl : b.l.InI32) (hr : b.r.InI32)
    (hn : n < 9223372036854775808) (h0 : b.l ≠ Side.some 0) :
    CutStrLit.resolve b n = resOfOption (b.tryIntoRange n) :=
  tryIntoRange_model_i64 b n hl hr hn h0

/-- a bound the Rust types can hold and the parser can produce: sides inside `i32`, left side not
    the literal 0 -/
def BoundOk (b : UserBounds) : Prop := b.l.InI32 ∧ b.r.InI32 ∧ b.l ≠ Side.some 0

theorem replaced_eq (s : Bytes) (opt : Opt) (dar : Bool) (hd : DarOk opt dar) :
    (if dar then s else CutStrLit.maybeReplaceDelimiterLit s opt) = maybeReplaceDelimiter s opt dar := by
  cases dar with
  | true => rw [maybeReplaceDelimiter_true s opt hd]; rfl
  | false => exact maybeReplaceDelimiterLit_eq s opt

/-- l.418-426, the bound resolves: `fields[r.start]`, `r.end - 1`, `fields[..]`, `&line[a..b]` -/
theorem fieldToPrint_some (line : Bytes) (fields : List Range) (n : Nat) (opt : Opt) (dar : Bool)
    (b : UserBounds) (hb : BoundOk b) (hn : n < 9223372036854775808) (hd : DarOk opt dar) (s e : Nat)
    (h : b.tryIntoRange n = Option.some (s, e)) :
    CutStrLit.fieldToPrint line fields n opt dar b =
      match fields[s]?, fields[e - 1]? with
      | Option.some fs, Option.some fe =>
        if fs.start ≤ fe.stop ∧ fe.stop ≤ line.length then
          .ok (maybeReplaceDelimiter (slice line fs.start fe.stop) opt dar)
        else .panic
      | _, _ => .panic := by
  obtain ⟨hl, hr, h0⟩ := hb
  have hse := (tryIntoRange_bounds b n s e h0 h).1
  unfold CutStrLit.fieldToPrint
  rw [resolve_eq b n hl hr hn h0, h]
  simp only [resOfOption, CutStrLit.indexRange, usizeSub]
  rw [if_pos (by omega)]
  cases hs : fields[s]? with
  | none => rfl
  | some fs =>
    simp only [bind_ok]
    cases he : fields[e - 1]? with
    | none => rfl
    | some fe =>
      simp only [bind_ok, CutStrLit.sliceBytes]
      by_cases hc : fs.start ≤ fe.stop ∧ fe.stop ≤ line.length
      · rw [if_pos hc, if_pos hc, bind_ok, ← replaced_eq _ opt dar hd]
        cases dar <;> rfl
      · rw [if_neg hc, if_neg hc]; rfl

/-- l.427-434, the bound does not resolve: the fallbacks -/
theorem fieldToPrint_none (line : Bytes) (fields : List Range) (n : Nat) (opt : Opt) (dar : Bool)
    (b : UserBounds) (hb : BoundOk b) (hn : n < 9223372036854775808)
    (h : b.tryIntoRange n = Option.none) :
    CutStrLit.fieldToPrint line fields n opt dar b =
      match b.fallback with
      | Option.some f => .ok f
      | Option.none =>
        match opt.fallbackOob with
        | Option.some f => .ok f
        | Option.none => .fail := by
  obtain ⟨hl, hr, h0⟩ := hb
  unfold CutStrLit.fieldToPrint
  rw [resolve_eq b n hl hr hn h0, h]
  simp only [resOfOption]
  cases b.fallback with
  | none => cases opt.fallbackOob <;> rfl
  | some f => rfl

/-- **the closure of `try_for_each` (l.407-446) is `outputBof`** -/
theorem outputClosure_eq (line : Bytes) (fields : List Range) (n : Nat) (opt : Opt) (dar : Bool)
    (bof : BoF) (hb : ∀ b, bof = .bound b → BoundOk b) (hn : n < 9223372036854775808) (hd : DarOk opt dar) :
    CutStrLit.outputClosure line fields n opt dar bof = outputBof line fields n opt dar bof := by
  cases bof with
  | filler f => simp only [CutStrLit.outputClosure, outputBof, Run.seq_empty]
  | bound b =>
    have hb := hb b rfl
    unfold CutStrLit.outputClosure outputBof
    simp only [Run.seq_empty, writeMaybeAsJsonLit_eq]
    cases h : b.tryIntoRange n with
    | none =>
      rw [fieldToPrint_none line fields n opt dar b hb hn h]
      cases b.fallback with
      | some f => rfl
      | none => cases opt.fallbackOob <;> rfl
    | some p =>
      obtain ⟨s, e⟩ := p
      rw [fieldToPrint_some line fields n opt dar b hb hn hd s e h]
      simp only
      cases fields[s]? with
      | none => rfl
      | some fs =>
        cases fields[e - 1]? with
        | none => rfl
        | some fe =>
          simp only
          by_cases hc : fs.start ≤ fe.stop ∧ fe.stop ≤ line.length
          · rw [if_pos hc, if_pos hc]; rfl
          · rw [if_neg hc, if_neg hc]; rfl

/-! ## 2. `try_for_each`, `complement`, `unpack`, and l.357-455 -/

/-- **hypothesis 1**: every bound of the list has sides inside `i32` and a left side that is not
    the literal 0 -/
def BoundsOk (l : List BoF) : Prop := ∀ b, BoF.bound b ∈ l → BoundOk b

theorem tryForEach_eq (line : Bytes) (fields : List Range) (n : Nat) (opt : Opt) (dar : Bool)
    (hn : n < 9223372036854775808) (hd : DarOk opt dar) :
    ∀ (l : List BoF), BoundsOk l →
      CutStrLit.tryForEach line fields n opt dar l = outputLoop line fields n opt dar l
  | [], _ => rfl
  | bof :: t, hb => by
    simp only [CutStrLit.tryForEach, outputLoop]
    rw [outputClosure_eq line fields n opt dar bof
      (fun b h => hb b (h ▸ List.mem_cons_self)) hn hd,
      tryForEach_eq line fields n opt dar hn hd t (fun b h => hb b (List.mem_cons_of_mem _ h))]

theorem fromVec_boundsOk (l : List BoF) (u : UserBoundsList) (h : fromVec l = .ok u)
    (hl : BoundsOk l) : BoundsOk u.list := by
  intro b hb
  obtain ⟨b0, h0, h1, h2⟩ := fromVec_sides l u h b hb
  obtain ⟨a1, a2, a3⟩ := hl b0 h0
  exact ⟨h1 ▸ a1, h2 ▸ a2, h1 ▸ a3⟩

theorem flatMap_boundsOk (f : BoF → List BoF) (l : List BoF)
    (h : ∀ x ∈ l, BoundsOk (f x)) : BoundsOk (l.flatMap f) := by
  intro b hb
  simp only [List.mem_flatMap] at hb
  obtain ⟨x, hx, hbx⟩ := hb
  exact h x hx b hbx

theorem complementBof_boundsOk (n : Nat) (hn : n < 2147483648) (x : BoF)
    (hx : ∀ b, x = .bound b → BoundOk b) : BoundsOk (complementBof n x) := by
  cases x with
  | filler f => intro b hb; simp [complementBof] at hb
  | bound b0 =>
    obtain ⟨hl, hr, h0⟩ := hx b0 rfl
    intro b hb
    unfold complementBof at hb
    cases hc : b0.complement n with
    | none =>
      simp only [hc, List.mem_singleton, BoF.bound.injEq] at hb
      subst hb
      exact ⟨hl, hr, h0⟩
    | some bs =>
      simp only [hc, List.mem_map, BoF.bound.injEq, exists_eq_right] at hb
      unfold UserBounds.complement at hc
      simp only [Option.map_eq_some_iff] at hc
      obtain ⟨r, hr', rfl⟩ := hc
      obtain ⟨s, e⟩ := r
      obtain ⟨hse, hen⟩ := tryIntoRange_bounds b0 n s e h0 hr'
      simp only [List.mem_map] at hb
      obtain ⟨q, hq, rfl⟩ := hb
      have := complementStdRange_bounds n s e hse hen (by omega) q hq
      refine ⟨?_, ?_, ?_⟩
      · simp only [UserBounds.ofRange, Side.InI32, i32Min, i32Max]; omega
      · simp only [UserBounds.ofRange, Side.InI32, i32Min, i32Max]; omega
      · simp only [UserBounds.ofRange, ne_eq, Side.some.injEq]; omega

theorem unpackBof_boundsOk (n : Nat) (hn : n < 2147483648) (x : BoF)
    (hx : ∀ b, x = .bound b → BoundOk b) : BoundsOk (unpackBof n x) := by
  cases x with
  | filler f => intro b hb; simp [unpackBof] at hb
  | bound b0 =>
    obtain ⟨hl, hr, h0⟩ := hx b0 rfl
    intro b hb
    simp only [unpackBof, List.mem_map, BoF.bound.injEq, exists_eq_right] at hb
    unfold UserBounds.unpack at hb
    cases ht : b0.tryIntoRange n with
    | some p =>
      obtain ⟨s, e⟩ := p
      obtain ⟨hse, hen⟩ := tryIntoRange_bounds b0 n s e h0 ht
      simp only [ht, List.mem_map, List.mem_range] at hb
      obtain ⟨i, hi, rfl⟩ := hb
      refine ⟨?_, ?_, ?_⟩
      · simp only [UserBounds.single, Side.InI32, i32Min, i32Max]; omega
      · simp only [UserBounds.single, Side.InI32, i32Min, i32Max]; omega
      · simp only [UserBounds.single, ne_eq, Side.some.injEq]; omega
    | none =>
      simp only [ht, List.mem_singleton] at hb
      subst hb
      exact ⟨hl, hr, h0⟩

/-- `bounds.complement(num_fields)?` (l.373): the new list is `BoundsOk` and not empty (so the
    test of l.376 is never true) -/
theorem complementList_boundsOk (l : List BoF) (n : Nat) (hn : n < 2147483648) (hl : BoundsOk l)
    (u : UserBoundsList) (h : complementList l n = .ok u) : BoundsOk u.list ∧ u.list.isEmpty = false := by
  unfold complementList at h
  simp only at h
  split at h
  · cases h
  · rename_i hne
    refine ⟨fromVec_boundsOk _ u h (flatMap_boundsOk _ _ fun x hx =>
      complementBof_boundsOk n hn x (fun b hb => hl b (hb ▸ hx))), ?_⟩
    unfold fromVec at h
    cases hm : markLast (l.flatMap (complementBof n)) with
    | none => simp [hm] at h
    | some l' =>
      simp only [hm, Res.ok.injEq] at h
      subst h
      cases l' with
      | nil =>
        exfalso
        cases hf : l.flatMap (complementBof n) with
        | nil => rw [hf] at hm; simp [markLast] at hm
        | cons x t =>
          rw [hf] at hm
          cases x with
          | filler f => simp [markLast] at hm
          | bound b => simp only [markLast] at hm; cases hmt : markLast t <;> (rw [hmt] at hm; simp at hm)
      | cons _ _ => rfl

/-- `bounds.unpack(num_fields)` (l.402) -/
theorem unpackList_boundsOk (l : List BoF) (n : Nat) (hn : n < 2147483648) (hl : BoundsOk l)
    (u : UserBoundsList) (h : unpackList l n = .ok u) : BoundsOk u.list :=
  fromVec_boundsOk _ u h (flatMap_boundsOk _ _ fun x hx =>
      unpackBof_boundsOk n hn x (fun b hb => hl b (hb ▸ hx)))

/-- **l.357-455 is `emitRecord`** -/
theorem emitStage_eq (line : Bytes) (fields : List Range) (opt : Opt) (dar : Bool) (eol : Bytes)
    (hb : BoundsOk opt.bounds.list) (hn : fields.length < 2147483648) (hd : DarOk opt dar) :
    CutStrLit.emitStage line fields opt dar eol = emitRecord line fields opt dar eol := by
  unfold CutStrLit.emitStage emitRecord
  simp only []
  by_cases h1 : (opt.onlyDelimited && fields.length == 1) = true
  · rw [if_pos h1, if_pos h1]
  · rw [if_neg h1, if_neg h1]
    congr 1
    have hac : ∀ u, (if opt.complement = true then complementList opt.bounds.list fields.length
        else .ok opt.bounds) = .ok u → BoundsOk u.list ∧ (opt.complement && u.list.isEmpty) = false := by
      intro u hu
      cases hc : opt.complement with
      | false =>
        rw [hc] at hu
        simp only [Bool.false_eq_true, if_false, Res.ok.injEq] at hu
        subst hu
        exact ⟨hb, rfl⟩
      | true =>
        rw [hc, if_pos rfl] at hu
        have := complementList_boundsOk _ _ hn hb u hu
        exact ⟨this.1, by rw [this.2]; rfl⟩
    generalize (if opt.complement = true then complementList opt.bounds.list fields.length
        else Res.ok opt.bounds) = ac at hac
    cases ac with
    | fail => rfl
    | panic => rfl
    | ok bounds =>
      obtain ⟨hb1, he⟩ := hac bounds rfl
      simp only [CutStrLit.orStop]
      rw [he]
      simp only [Bool.false_eq_true, if_false]
      have hun : ∀ u, (if ((opt.json || (decide (opt.boundsType = .characters) && opt.replaceDelimiter.isSome))
            && bounds.list.any needsUnpack) = true
          then unpackList bounds.list fields.length else .ok bounds) = .ok u → BoundsOk u.list := by
        intro u hu
        split at hu
        · exact unpackList_boundsOk _ _ hn hb1 u hu
        · cases hu; exact hb1
      generalize (if ((opt.json || (decide (opt.boundsType = .characters) && opt.replaceDelimiter.isSome))
            && bounds.list.any needsUnpack) = true
          then unpackList bounds.list fields.length else Res.ok bounds) = un at hun
      cases un with
      | fail => rfl
      | panic => rfl
      | ok bounds' =>
        simp only []
        rw [tryForEach_eq line fields fields.length opt dar (by omega) hd _ (hun bounds' rfl)]
        simp only [Run.seq_empty, Run.seq_assoc]

/-! ## 3. the stages before the fields are known (l.280-355) -/

/-- l.280-291: neither `unwrap` can panic -/
theorem trimStage_eq (line : Bytes) (opt : Opt) : CutStrLit.trimStage line opt = .ok (trimOf opt line) := by
  unfold CutStrLit.trimStage trimOf
  cases opt.trim with
  | none => rfl
  | some k => cases opt.regexBag <;> rfl

/-- l.332-355: the `unwrap`s are behind `should_build_ranges_using_regex`, `drain(..1)` behind
    `fields.len() > 2`; the previous content of `fields` is not read -/
theorem fieldsStage_eq (loc : CutStrLit.Locals) (opt : Opt) (fields : List Range)
    (h : loc.shouldBuildRangesUsingRegex = true → opt.regexBag.isSome = true) :
    CutStrLit.fieldsStage loc opt fields =
      .ok (engineFields opt loc.line loc.delimiter loc.shouldBuildRangesUsingRegex) := by
  have hdrain : ∀ f : List Range,
      (if (decide (opt.boundsType = .characters) && decide (f.length > 2)) = true then
        CutStrLit.drainTo f.dropLast 1 else Res.ok f) =
      .ok (if (decide (opt.boundsType = .characters) && decide (f.length > 2)) = true then
        f.dropLast.drop 1 else f) := by
    intro f
    by_cases hc : (decide (opt.boundsType = .characters) && decide (f.length > 2)) = true
    · rw [if_pos hc, if_pos hc]
      simp only [Bool.and_eq_true, decide_eq_true_eq] at hc
      unfold CutStrLit.drainTo
      rw [if_pos (by rw [List.length_dropLast]; omega)]
    · rw [if_neg hc, if_neg hc]
  unfold CutStrLit.fieldsStage engineFields
  cases hu : loc.shouldBuildRangesUsingRegex with
  | true =>
    have := h hu
    cases hbag : opt.regexBag with
    | none => rw [hbag] at this; cases this
    | some bag =>
      simp only [if_true, CutStrLit.unwrap, bind_ok]
      exact hdrain _
  | false =>
    simp only [Bool.false_eq_true, if_false]
    by_cases hg : opt.greedyDelimiter = true
    · simp only [hg, if_true, bind_ok]
      exact hdrain _
    · simp only [hg, if_false, bind_ok]
      exact hdrain _


theorem darOk_false (opt : Opt) : DarOk opt false := by intro h; cases h

theorem compressDelimiter_buf (line d buf : Bytes) :
    compressDelimiter line d buf = compressDelimiter line d [] := rfl

/-- the scratch buffers as the model leaves them -/
def buffersAfter (r : Run × Option (List Range) × Option Bytes) (fields : List Range) (buf : Bytes) :
    Run × List Range × Bytes := (r.1, r.2.1.getD fields, r.2.2.getD buf)

theorem cutStr_eq_buffersAfter (line : Bytes) (opt : Opt) (fields : List Range) (buf eol : Bytes) :
    cutStr line opt fields buf eol = buffersAfter (cutStrCore line opt eol) fields buf := rfl

/-- l.293-455 against the model's `afterTrim` (`Tuc.Lemmas.Total`: `cutStrCore_eq`) -/
theorem afterTrim_eq (line : Bytes) (opt : Opt) (fields : List Range) (buf eol : Bytes)
    (hb : BoundsOk opt.bounds.list)
    (hn : ∀ f, (afterTrim line opt eol).2.1 = Option.some f → f.length < 2147483648) :
    (if line.isEmpty then
        ((if !opt.onlyDelimited then Run.ok eol else Run.empty).seq Run.empty, fields, buf)
      else
        match CutStrLit.compressStage line opt buf with
        | .fail => (Run.fail, fields, buf)
        | .panic => (Run.panic, fields, buf)
        | .ok loc =>
          match CutStrLit.fieldsStage loc opt fields with
          | .fail => (Run.fail, fields, buf)
          | .panic => (Run.panic, fields, buf)
          | .ok fields =>
            (CutStrLit.emitStage loc.line fields opt loc.delimiterAlreadyReplaced eol,
              fields, loc.compressedLineBuf)) =
      buffersAfter (afterTrim line opt eol) fields buf := by
  unfold afterTrim at hn ⊢
  by_cases he : line.isEmpty = true
  · rw [if_pos he, if_pos he, Run.seq_empty]; rfl
  · rw [if_neg he] at hn ⊢
    rw [if_neg he]
    simp only [] at hn ⊢
    unfold CutStrLit.compressStage
    simp only [Bool.and_true]
    by_cases hsc : (opt.compressDelimiter &&
        (decide (opt.boundsType = .fields) || decide (opt.boundsType = .lines))) = true
    · rw [if_pos hsc] at hn ⊢
      rw [if_pos hsc]
      cases hbag : opt.regexBag with
      | none =>
        rw [hbag] at hn
        simp only [Option.isSome_none, Bool.false_eq_true, if_false] at hn ⊢
        rw [fieldsStage_eq _ _ _ (by intro h; cases h)]
        simp only [buffersAfter, Option.getD_some, compressDelimiter_buf line opt.delimiter buf]
        rw [emitStage_eq _ _ _ _ _ hb (hn _ rfl) (darOk_false opt)]
      | some bag =>
        rw [hbag] at hn
        simp only [Option.isSome_some, if_true] at hn ⊢
        cases hrd : opt.replaceDelimiter with
        | none => rfl
        | some nd =>
          rw [hrd] at hn
          simp only [CutStrLit.unwrap, bind_ok] at hn ⊢
          rw [fieldsStage_eq _ _ _ (by intro h; cases h)]
          simp only [buffersAfter, Option.getD_some, Option.getD_none]
          rw [emitStage_eq _ _ _ _ _ hb (hn _ rfl) (by intro _; left; rw [hbag]; rfl)]
    · rw [if_neg hsc] at hn ⊢
      rw [if_neg hsc]
      simp only [] at hn ⊢
      rw [fieldsStage_eq _ _ _ (by intro h; exact h)]
      simp only [buffersAfter, Option.getD_some, Option.getD_none]
      rw [emitStage_eq _ _ _ _ _ hb (hn _ rfl) (darOk_false opt)]



theorem afterTrim_snd_eol (line : Bytes) (opt : Opt) (eol eol' : Bytes) :
    (afterTrim line opt eol).2 = (afterTrim line opt eol').2 := by
  unfold afterTrim
  split
  · rfl
  · simp only []
    split <;> rfl

/-- what `cut_str` leaves in the two buffers does not depend on the `eol` argument -/
theorem cutStrCore_snd_eol (line : Bytes) (opt : Opt) (eol eol' : Bytes) :
    (cutStrCore line opt eol).2 = (cutStrCore line opt eol').2 := by
  rw [cutStrCore_eq, cutStrCore_eq]
  split
  · rfl
  · split
    · rfl
    · exact afterTrim_snd_eol _ _ _ _

/-- the vector `fields` of the record `line` as `cut_str` computes it (l.332-355: after trim,
    compression, the split and the pop/drain of `-c`); `none` when the function returns before -/
def fieldsOf (line : Bytes) (opt : Opt) : Option (List Range) := (cutStrCore line opt []).2.1

/-- **hypothesis 2**: the number of fields of the record fits the cast `parts_length as i32`
    (userbounds.rs:221) -/
def FieldsFit (line : Bytes) (opt : Opt) : Prop :=
  ∀ f, fieldsOf line opt = Option.some f → f.length < 2147483648

/-- … as a `Bool` -/
def fieldsFitB (line : Bytes) (opt : Opt) : Bool :=
  match fieldsOf line opt with
  | Option.some f => decide (f.length < 2147483648)
  | Option.none => true

theorem fieldsFit_iff (line : Bytes) (opt : Opt) : fieldsFitB line opt = true ↔ FieldsFit line opt := by
  unfold fieldsFitB FieldsFit
  cases fieldsOf line opt with
  | none => simp
  | some f => simp

instance (line : Bytes) (opt : Opt) : Decidable (FieldsFit line opt) :=
  decidable_of_iff _ (fieldsFit_iff line opt)

/-! ## 4. `cut_str` -/

/-- **`cut_str` (cut_str.rs:260-456) computes what the model says** — the bytes written, the
    status, and the two scratch buffers as the function leaves them — for EVERY record, EVERY
    option record (regex bag present or not, any combination of flags, consistent or not), ANY
    previous content of the two buffers and any `eol`, as soon as the bounds are `i32` values with a
    non-zero left side (`BoundsOk`) and the record has fewer than 2³¹ fields (`FieldsFit`). -/
theorem cutStrLit_eq (line : Bytes) (opt : Opt) (fields : List Range) (compressedLineBuf eol : Bytes)
    (hb : BoundsOk opt.bounds.list) (hn : FieldsFit line opt) :
    CutStrLit.cutStrLit line opt fields compressedLineBuf eol = cutStr line opt fields compressedLineBuf eol := by
  have hn : ∀ f, (cutStrCore line opt eol).2.1 = Option.some f → f.length < 2147483648 := by
    intro f hf
    rw [cutStrCore_snd_eol line opt eol []] at hf
    exact hn f hf
  rw [cutStr_eq_buffersAfter, cutStrCore_eq]
  rw [cutStrCore_eq] at hn
  unfold CutStrLit.cutStrLit
  by_cases h1 : (opt.regexBag.isSome && opt.compressDelimiter && opt.replaceDelimiter.isNone) = true
  · rw [if_pos h1, if_pos (by rw [← Bool.and_assoc]; exact h1)]; rfl
  · rw [if_neg h1, if_neg (by rw [← Bool.and_assoc]; exact h1)]
    rw [if_neg h1] at hn
    by_cases h2 : (opt.regexBag.isSome && opt.join && opt.replaceDelimiter.isNone) = true
    · rw [if_pos h2, if_pos (by rw [← Bool.and_assoc]; exact h2)]; rfl
    · rw [if_neg h2, if_neg (by rw [← Bool.and_assoc]; exact h2), trimStage_eq]
      rw [if_neg h2] at hn
      exact afterTrim_eq (trimOf opt line) opt fields compressedLineBuf eol hb hn

/-- componentwise: the run -/
theorem cutStrLit_run (line : Bytes) (opt : Opt) (fields : List Range) (buf eol : Bytes)
    (hb : BoundsOk opt.bounds.list) (hn : FieldsFit line opt) :
    (CutStrLit.cutStrLit line opt fields buf eol).1 = (cutStrCore line opt eol).1 := by
  rw [cutStrLit_eq line opt fields buf eol hb hn]; rfl

/-- componentwise: the vector `fields` afterwards (untouched when the function returns early) -/
theorem cutStrLit_fields (line : Bytes) (opt : Opt) (fields : List Range) (buf eol : Bytes)
    (hb : BoundsOk opt.bounds.list) (hn : FieldsFit line opt) :
    (CutStrLit.cutStrLit line opt fields buf eol).2.1 = (fieldsOf line opt).getD fields := by
  rw [cutStrLit_eq line opt fields buf eol hb hn, cutStr_eq_buffersAfter]
  show (cutStrCore line opt eol).2.1.getD fields = _
  rw [cutStrCore_snd_eol line opt eol []]; rfl

/-- componentwise: `compressed_line_buf` afterwards (untouched unless l.327 ran) -/
theorem cutStrLit_buf (line : Bytes) (opt : Opt) (fields : List Range) (buf eol : Bytes)
    (hb : BoundsOk opt.bounds.list) (hn : FieldsFit line opt) :
    (CutStrLit.cutStrLit line opt fields buf eol).2.2 = (cutStrCore line opt []).2.2.getD buf := by
  rw [cutStrLit_eq line opt fields buf eol hb hn, cutStr_eq_buffersAfter]
  show (cutStrCore line opt eol).2.2.getD buf = _
  rw [cutStrCore_snd_eol line opt eol []]

/-- **no new panic**: on the domain of the hypotheses the Rust function panics only where the model
    does … -/
theorem cutStrLit_panic_only_if_model (line : Bytes) (opt : Opt) (fields : List Range) (buf eol : Bytes)
    (hb : BoundsOk opt.bounds.list) (hn : FieldsFit line opt)
    (h : (CutStrLit.cutStrLit line opt fields buf eol).1.status = .panic) :
    (cutStr line opt fields buf eol).1.status = .panic := by
  rw [← cutStrLit_eq line opt fields buf eol hb hn]; exact h

theorem BoundsOk.lnz {l : List BoF} (h : BoundsOk l) : LNZ l := fun b hb => (h b hb).2.2

/-- … and the model does not when the regex bag (if any) honours the contract of `find_iter`
    (C12, `cutStr_safe`): **no `unwrap`, no `fields[i]`, no `r.end - 1`, no `&line[a..b]`, no
    `drain(..1)` and no `i32` operation of `cut_str` can panic**, and the function terminates
    (`Safe` = the status is `ok` or `fail`) -/
theorem cutStrLit_safe (line : Bytes) (opt : Opt) (fields : List Range) (buf eol : Bytes)
    (hb : BoundsOk opt.bounds.list) (hn : FieldsFit line opt)
    (hbag : ∀ bag, opt.regexBag = Option.some bag → bag.OK) :
    (CutStrLit.cutStrLit line opt fields buf eol).1.Safe := by
  rw [cutStrLit_eq line opt fields buf eol hb hn]
  exact cutStr_safe line opt fields buf eol hbag hb.lnz

/-! ## 5. the record loop of `read_and_cut_str` -/

/-- the fold of `cutRecords` (`Tuc.Model.CutStr`) with the transcription `CutStrLit.cutStrLit` as the
    per-record function: the two buffers are handed from one record to the next, the loop stops at
    the first record that does not end well -/
def cutRecordsLit (opt : Opt) : List Bytes → List Range → Bytes → Run
  | [], _, _ => Run.empty
  | rec :: t, fields, buf =>
    let r := CutStrLit.cutStrLit rec opt fields buf [opt.eol.byte]
    r.1.seq (cutRecordsLit opt t r.2.1 r.2.2)

/-- `read_and_cut_str` with `CutStrLit.cutStrLit` -/
def readAndCutStrLit (opt : Opt) (input : Bytes) : Run :=
  cutRecordsLit opt (records opt.eol.byte input) [] []

theorem cutRecordsLit_eq (opt : Opt) (hb : BoundsOk opt.bounds.list) :
    ∀ (recs : List Bytes) (fields : List Range) (buf : Bytes),
      (∀ rec ∈ recs, FieldsFit rec opt) →
      cutRecordsLit opt recs fields buf = cutRecords opt recs fields buf
  | [], _, _, _ => rfl
  | rec :: t, fields, buf, hn => by
    simp only [cutRecordsLit, cutRecords]
    rw [cutStrLit_eq rec opt fields buf _ hb (hn rec List.mem_cons_self),
      cutRecordsLit_eq opt hb t _ _ (fun r hr => hn r (List.mem_cons_of_mem _ hr))]

/-- **the whole input**: every record with fewer than 2³¹ fields -/
theorem readAndCutStrLit_eq (opt : Opt) (input : Bytes) (hb : BoundsOk opt.bounds.list)
    (hn : ∀ rec ∈ records opt.eol.byte input, FieldsFit rec opt) :
    readAndCutStrLit opt input = readAndCutStr opt input :=
  cutRecordsLit_eq opt hb _ _ _ hn

theorem readAndCutStrLit_safe (opt : Opt) (input : Bytes) (hb : BoundsOk opt.bounds.list)
    (hn : ∀ rec ∈ records opt.eol.byte input, FieldsFit rec opt)
    (hbag : ∀ bag, opt.regexBag = Option.some bag → bag.OK) :
    (readAndCutStrLit opt input).Safe := by
  rw [readAndCutStrLit_eq opt input hb hn]
  exact readAndCutStr_safe opt hbag hb.lnz input

/-! ## 6. what the command line can produce -/

/-- whatever `UserBoundsList::from_str` accepts is `BoundsOk` -/
theorem boundsOk_of_parsed (f : List Char) (u : UserBoundsList) (h : boundsListOfString f = .ok u) :
    BoundsOk u.list := by
  intro b hb
  obtain ⟨h1, h2⟩ := parsed_inI32 f u h b hb
  refine ⟨h1, h2, ?_⟩
  have := (parsed_nonzero f u h b hb).1
  intro h0
  rw [h0] at this
  exact this rfl

/-- **every `Opt` that `parse_args` returns is `BoundsOk`** — every argument vector -/
theorem boundsOk_of_parseArgv (regexOk : Arg → Bool) (argv : List Arg) (o : Opt) (fm : Bool)
    (re : Option Arg) (h : parseArgv regexOk argv = .run o fm re) : BoundsOk o.bounds.list := by
  obtain ⟨f, hf⟩ := parseArgv_bounds_fromParser regexOk argv o fm re h
  exact boundsOk_of_parsed f o.bounds hf

/-- … whatever regex bag `main` then stores in it (tuc.rs:261, `tucRun`) -/
theorem boundsOk_withBag (o : Opt) (bag : Option RegexBag) (h : BoundsOk o.bounds.list) :
    BoundsOk ({ o with regexBag := bag } : Opt).bounds.list := h

/-- **`cut_str` on what the command line can produce**: only the number of fields is left -/
theorem cutStrLit_eq_of_parseArgv (regexOk : Arg → Bool) (argv : List Arg) (o : Opt) (fm : Bool)
    (re : Option Arg) (h : parseArgv regexOk argv = .run o fm re) (bag : Option RegexBag)
    (line : Bytes) (fields : List Range) (buf eol : Bytes)
    (hn : FieldsFit line { o with regexBag := bag }) :
    CutStrLit.cutStrLit line { o with regexBag := bag } fields buf eol =
      cutStr line { o with regexBag := bag } fields buf eol :=
  cutStrLit_eq line _ fields buf eol (boundsOk_of_parseArgv regexOk argv o fm re h) hn

/-! ## 7. the predicates are decidable -/

def sideFitsB : Side → Bool
  | .some v => decide (i32Min ≤ v) && decide (v ≤ i32Max)
  | .cont => true

def boundOkB (b : UserBounds) : Bool := sideFitsB b.l && sideFitsB b.r && decide (b.l ≠ Side.some 0)

def boundsOkB (l : List BoF) : Bool :=
  l.all fun x => match x with
    | .bound b => boundOkB b
    | .filler _ => true

theorem sideFitsB_iff (s : Side) : sideFitsB s = true ↔ s.InI32 := by
  cases s with
  | cont => simp [sideFitsB, Side.InI32]
  | some v => simp [sideFitsB, Side.InI32]

theorem boundOkB_iff (b : UserBounds) : boundOkB b = true ↔ BoundOk b := by
  simp only [boundOkB, BoundOk, Bool.and_eq_true, sideFitsB_iff, decide_eq_true_eq, and_assoc]

theorem boundsOkB_iff (l : List BoF) : boundsOkB l = true ↔ BoundsOk l := by
  simp only [boundsOkB, BoundsOk, List.all_eq_true]
  constructor
  · intro h b hb; exact (boundOkB_iff b).1 (h _ hb)
  · intro h x hx
    cases x with
    | bound b => exact (boundOkB_iff b).2 (h b hx)
    | filler f => rfl

instance (l : List BoF) : Decidable (BoundsOk l) := decidable_of_iff _ (boundsOkB_iff l)

def darOkB (opt : Opt) (dar : Bool) : Bool :=
  !dar || opt.regexBag.isSome || decide (opt.boundsType = .characters) || opt.replaceDelimiter.isNone

theorem darOkB_iff (opt : Opt) (dar : Bool) : darOkB opt dar = true ↔ DarOk opt dar := by
  unfold darOkB DarOk
  cases dar <;> cases opt.replaceDelimiter <;> simp

instance (opt : Opt) (dar : Bool) : Decidable (DarOk opt dar) := decidable_of_iff _ (darOkB_iff opt dar)

/-! ## 0. executable comparison (placed here: it needs the definitions above) -/

/-- bounds lists as the parser builds them: single fields, ranges, open sides, negative indexes,
    unsorted, format strings with fillers, per-bound fallbacks, out-of-range bounds, the ends of `i32` -/
def testBoundsTexts : List String :=
  ["1", "2", "1:", ":2", "2:3", "-1", "-2:", "2:-1", "3,1", "1:2,4:", "2=F", "7=G,1", "a{1}b{3:}",
   "{2}{2}", "5", "-5:", "2147483647", "-2147483648:", ":2147483647=Z", "{1:2147483647}|{-2147483648}"]

def testBounds : List UserBoundsList :=
  testBoundsTexts.filterMap fun s => (boundsListOfString s.toList).toOption

/-- records: empty, one field, delimiters at the ends and doubled, multi-byte characters, bytes that
    are not UTF-8 -/
def testLines : List Bytes :=
  ["", "a", "a,b", "a,b,c", ",a,,b,", ",,", ",,,a,,b,,", "é,x", "h,é,l,l,o", "a b, c", "abc"].map
    (fun s => utf8 s.toList) ++ [[0xFF, 44, 97], [44, 0xC3]]

/-- option records: every flag of `cut_str`, alone and combined; fields mode with a literal
    delimiter (one byte, two bytes, empty), characters mode (`charsBag`), fields mode with a regex
    (`[, ]`), lines mode; the combinations `cut_str` refuses (`bail!`) included -/
def testOpts (b : UserBoundsList) : List Opt :=
  let base : Opt := { delimiter := [44], bounds := b }
  let chars : Opt := { base with delimiter := [], boundsType := .characters, regexBag := Option.some charsBag }
  let re : Opt := { base with regexBag := Option.some (Re.cls [44, 32]).bag }
  [ base,
    { base with json := true },
    { base with complement := true },
    { base with complement := true, json := true },
    { base with complement := true, onlyDelimited := true },
    { base with compressDelimiter := true },
    { base with greedyDelimiter := true },
    { base with trim := Option.some .both },
    { base with trim := Option.some .left },
    { base with trim := Option.some .right },
    { base with trim := Option.some .both, compressDelimiter := true, greedyDelimiter := true },
    { base with onlyDelimited := true },
    { base with join := true },
    { base with join := true, replaceDelimiter := Option.some [59] },
    { base with replaceDelimiter := Option.some [59, 59] },
    { base with replaceDelimiter := Option.some [59], compressDelimiter := true, json := true },
    { base with fallbackOob := Option.some [63] },
    { base with fallbackOob := Option.some [63], json := true, join := true },
    { base with delimiter := [44, 44] },
    { base with delimiter := [44, 44], greedyDelimiter := true, compressDelimiter := true },
    { base with delimiter := [] },
    { base with delimiter := [], greedyDelimiter := true, trim := Option.some .both },
    { base with boundsType := .lines, delimiter := [44], compressDelimiter := true, join := true },
    { base with boundsType := .bytes, compressDelimiter := true },
    chars,
    { chars with json := true },
    { chars with replaceDelimiter := Option.some [45] },
    { chars with replaceDelimiter := Option.some [45], join := true },
    { chars with complement := true },
    { chars with complement := true, json := true, fallbackOob := Option.some [63] },
    { chars with join := true },
    { chars with compressDelimiter := true, onlyDelimited := true },
    { chars with trim := Option.some .both },
    re,
    { re with replaceDelimiter := Option.some [59] },
    { re with compressDelimiter := true },
    { re with compressDelimiter := true, replaceDelimiter := Option.some [59] },
    { re with compressDelimiter := true, replaceDelimiter := Option.some [59], json := true, join := true },
    { re with greedyDelimiter := true },
    { re with greedyDelimiter := true, trim := Option.some .both, replaceDelimiter := Option.some [] },
    { re with trim := Option.some .left, complement := true },
    { re with json := true },
    { re with join := true },
    { re with join := true, replaceDelimiter := Option.some [59, 32], fallbackOob := Option.some [63] } ]

#guard testBounds.length == 20 && testLines.length == 13 && (testOpts default).length == 44

/-! 20 bounds × 44 option records × 13 records = 11 440 cases, with clean buffers and with dirty
    ones (content that must not be read), `eol` = LF and NUL NUL: the run and both buffers -/
#guard testBounds.all fun b => (testOpts b).all fun opt => testLines.all fun line =>
  CutStrLit.cutStrLit line opt [] [] [10] == cutStr line opt [] [] [10] &&
  CutStrLit.cutStrLit line opt [⟨7, 9⟩, ⟨0, 100⟩] [1, 2, 3] [0, 0] ==
    cutStr line opt [⟨7, 9⟩, ⟨0, 100⟩] [1, 2, 3] [0, 0]

/-! every one of them is inside the hypotheses of `cutStrLit_eq` -/
#guard testBounds.all fun b => boundsOkB b.list &&
  (testOpts b).all fun opt => testLines.all fun line => fieldsFitB line opt

/-! the stages on their own, `delimiter_already_replaced` both ways where it may be set -/
#guard testBounds.all fun b => (testOpts b).all fun opt => testLines.all fun line =>
  [false, true].all fun dar =>
    !darOkB opt dar ||
      (let fields := fillWithFieldsLocations [] line opt.delimiter
       CutStrLit.emitStage line fields opt dar [10] == emitRecord line fields opt dar [10] &&
       CutStrLit.emitStage line (fields.drop 1) opt dar [10] == emitRecord line (fields.drop 1) opt dar [10])

/-! the record loop: whole inputs -/
#guard testBounds.all fun b => (testOpts b).all fun opt =>
  ["", "a,b\nc,d,e\n\n,f", "a\n", ",,\n\né,x,y\nz"].all fun s =>
    readAndCutStrLit opt (utf8 s.toList) == readAndCutStr opt (utf8 s.toList)

/-! ## 8. non-vacuity -/

/-- `-f 2:3,-1 --json` (which implies `--join`) -/
def exOpt : Opt :=
  { delimiter := [44],
    bounds := { list := [.bound { l := .some 2, r := .some 3 }, .bound { l := .some (-1), r := .some (-1), isLast := true }],
                lastInteresting := .cont },
    json := true, join := true }

/-- `a,b,c,d` with dirty buffers -/
example :
    CutStrLit.cutStrLit [97, 44, 98, 44, 99, 44, 100] exOpt [⟨5, 6⟩] [1] [10] =
      cutStr [97, 44, 98, 44, 99, 44, 100] exOpt [⟨5, 6⟩] [1] [10] :=
  cutStrLit_eq _ _ _ _ _ ((boundsOkB_iff _).1 (by decide)) ((fieldsFit_iff _ _).1 (by decide))

#guard (CutStrLit.cutStrLit [97, 44, 98, 44, 99, 44, 100] exOpt [⟨5, 6⟩] [1] [10]) ==
  (Run.ok (utf8 "[\"b\",\"c\",\"d\"]\n".toList), [⟨0, 1⟩, ⟨2, 3⟩, ⟨4, 5⟩, ⟨6, 7⟩], [1])

example :
    readAndCutStrLit exOpt [97, 44, 98, 10, 99, 44, 100, 44, 101, 10] =
      readAndCutStr exOpt [97, 44, 98, 10, 99, 44, 100, 44, 101, 10] :=
  readAndCutStrLit_eq _ _ ((boundsOkB_iff _).1 (by decide))
    (by intro r hr; exact (fieldsFit_iff _ _).1 (by revert r; decide))

example : (CutStrLit.cutStrLit [97, 44, 98, 44, 99, 44, 100] exOpt [⟨5, 6⟩] [1] [10]).1.Safe :=
  cutStrLit_safe _ _ _ _ _ ((boundsOkB_iff _).1 (by decide)) ((fieldsFit_iff _ _).1 (by decide))
    (by intro bag h; cases h)

/-- `tuc -d , -f 2:3` -/
def exArgv : List Arg := [['-', 'd'], [','], ['-', 'f'], ['2', ':', '3']]

/-- `parse_args` returns an `Opt`, and it is `BoundsOk` -/
example : ∃ o fm re, parseArgv (fun _ => true) exArgv = .run o fm re ∧ BoundsOk o.bounds.list :=
  ⟨_, _, _, rfl, boundsOk_of_parseArgv (fun _ => true) exArgv _ _ _ rfl⟩

/-! ## 9. the hypotheses cannot be dropped -/

/-! ### `BoundsOk`: the left side 0

Only `UserBounds::new` can build it (the parser refuses it: `boundsOk_of_parsed`).  The Rust start
is `-1 as usize` = 2⁶⁴ − 1: `fields[r.start]` panics (l.420).  The model resolves it as field 1. -/

def optLeftZero : Opt :=
  { delimiter := [44],
    bounds := { list := [.bound { l := .some 0, r := .some 1, isLast := true }], lastInteresting := .cont } }

#guard (CutStrLit.cutStrLit [97, 44, 98] optLeftZero [] [] [10]).1 == Run.panic
#guard (cutStr [97, 44, 98] optLeftZero [] [] [10]).1 == Run.ok [97, 10]
#guard fieldsFitB [97, 44, 98] optLeftZero && !boundsOkB optLeftZero.bounds.list

/-! ### `BoundsOk`: a side that is not an `i32`

2³² + 1 has no Rust counterpart (`parse::<i32>` refuses it); stored in an `i32` it is the index 1. -/

def optBigSide : Opt :=
  { delimiter := [44],
    bounds := { list := [.bound { l := .some 4294967297, r := .some 4294967297, isLast := true }],
                lastInteresting := .cont } }

#guard (CutStrLit.cutStrLit [97, 44, 98] optBigSide [] [] [10]).1 == Run.ok [97, 10]
#guard (cutStr [97, 44, 98] optBigSide [] [] [10]).1 == Run.fail
#guard fieldsFitB [97, 44, 98] optBigSide && !boundsOkB optBigSide.bounds.list

/-! ### `DarOk` (stage level only)

`emit_stage` with `delimiter_already_replaced = true`, no regex, `-r ;`: the Rust text prints the
slice as it is (l.423), the model's `maybeReplaceDelimiter … true` still replaces with the literal
delimiter.  `cut_str` never gets there: l.324 sets the flag inside `if opt.regex_bag.is_some()`
(l.313) — which is why `cutStrLit_eq` has no such hypothesis. -/

def optReplace : Opt :=
  { delimiter := [44], replaceDelimiter := Option.some [59],
    bounds := { list := [.bound { l := .some 1, r := .cont, isLast := true }], lastInteresting := .cont } }

#guard CutStrLit.emitStage [97, 44, 98] [⟨0, 1⟩, ⟨2, 3⟩] optReplace true [10] == Run.ok [97, 44, 98, 10]
#guard emitRecord [97, 44, 98] [⟨0, 1⟩, ⟨2, 3⟩] optReplace true [10] == Run.ok [97, 59, 98, 10]
#guard !darOkB optReplace true && darOkB optReplace false && boundsOkB optReplace.bounds.list


def oneOpen : UserBounds := { l := .some 1, r := .cont, isLast := true }
def optOneOpen : Opt :=
  { delimiter := [9], bounds := { list := [.bound oneOpen], lastInteresting := .cont } }

/-! ### `FieldsFit`: 2³¹ fields or more

Until the repair of `try_into_range` (`i64` arithmetic instead of `parts_length as i32`) this section
showed that `FieldsFit` could not be dropped: with `num_fields = 2³¹` the cast was `i32::MIN` and `1:`
was "Out of bounds: 1" (`cutStrLit_length_necessary`, `cutStrLit_ne_cutStr_on_2GiB_line`; commit history
has them).  These statements are FALSE of the repaired text.  What is true now: for the program without
options (`-f 1:`, TAB) literal and model AGREE on every record, the records of 2³¹ fields and more
included (`cutStrLit_eq_cutStr_oneOpen`, `cutStrLit_eq_cutStr_on_2GiB_line`).

A record with 2³¹ fields cannot be evaluated; the closure takes `num_fields` as a separate argument,
so one call can be: with `num_fields = 2³¹` (and 2³² + 1, which the cast treated as 1) both resolve
`1:` to `0..num_fields` (and then find that the vector is too short). -/

#guard outputBof [97] [⟨0, 1⟩] 2147483648 optOneOpen false (.bound oneOpen) == Run.panic
#guard [2147483648, 4294967297, 9223372036854775807].all fun n =>
  CutStrLit.outputClosure [97] [⟨0, 1⟩] n optOneOpen false (.bound oneOpen) ==
    outputBof [97] [⟨0, 1⟩] n optOneOpen false (.bound oneOpen)

theorem orStop_ok {α : Type} (a : α) (k : α → Run) : CutStrLit.orStop (.ok a) k = k a := rfl

theorem emitStage_oneOpen (line : Bytes) (fields : List Range) (eol : Bytes) :
    CutStrLit.emitStage line fields optOneOpen false eol =
      (CutStrLit.outputClosure line fields fields.length optOneOpen false (.bound oneOpen)).seq
        (Run.ok eol) := by
  have h1 : optOneOpen.onlyDelimited = false := rfl
  have h2 : optOneOpen.json = false := rfl
  have h3 : optOneOpen.complement = false := rfl
  have h4 : optOneOpen.bounds.list = [.bound oneOpen] := rfl
  have h5 : optOneOpen.replaceDelimiter.isSome = false := rfl
  unfold CutStrLit.emitStage
  simp only [h1, h2, h3, h5, Bool.and_false, Bool.false_and, Bool.false_or, Bool.false_eq_true, if_false, Run.empty_seq, Run.seq_empty]
  rw [orStop_ok, orStop_ok, h4, CutStrLit.tryForEach, CutStrLit.tryForEach, Run.seq_empty]

theorem emitRecord_oneOpen (line : Bytes) (fields : List Range) (eol : Bytes) :
    emitRecord line fields optOneOpen false eol =
      (outputBof line fields fields.length optOneOpen false (.bound oneOpen)).seq
        (Run.ok eol) := by
  have h1 : optOneOpen.onlyDelimited = false := rfl
  have h2 : optOneOpen.json = false := rfl
  have h3 : optOneOpen.complement = false := rfl
  have h4 : optOneOpen.bounds.list = [.bound oneOpen] := rfl
  have h5 : optOneOpen.replaceDelimiter.isSome = false := rfl
  unfold emitRecord
  simp only [h1, h2, h3, h5, Bool.and_false, Bool.false_and, Bool.false_or, Bool.false_eq_true, if_false, Run.empty_seq, Run.seq_empty]
  rw [h4, outputLoop, outputLoop, Run.seq_empty]

theorem tryIntoRange_oneOpen (n : Nat) (h : 0 < n) : oneOpen.tryIntoRange n = Option.some (0, n) := by
  simp only [Tuc.UserBounds.tryIntoRange, oneOpen, Tuc.rangeStart, Tuc.rangeEnd]
  rw [if_neg (by omega), if_neg (by omega)]
  simp only [Int.sub_self]
  rw [if_neg (by omega)]
  simp


theorem boundOk_oneOpen : BoundOk oneOpen :=
  ⟨⟨by decide, by decide⟩, trivial, by decide⟩

/-- l.416 on `1:`, any number of fields a vector can have -/
theorem resolve_oneOpen (n : Nat) (h : 0 < n) (hn : n < 9223372036854775808) :
    CutStrLit.resolve oneOpen n = .ok (0, n) := by
  rw [resolve_eq oneOpen n boundOk_oneOpen.1 boundOk_oneOpen.2.1 hn boundOk_oneOpen.2.2,
    tryIntoRange_oneOpen n h]
  rfl

/-- l.357-455 for `-f 1:` is `emitRecord`, whatever the number of fields (below 2⁶³) -/
theorem emitStage_oneOpen_eq (line : Bytes) (fields : List Range) (eol : Bytes)
    (h : fields.length < 9223372036854775808) :
    CutStrLit.emitStage line fields optOneOpen false eol = emitRecord line fields optOneOpen false eol := by
  rw [emitStage_oneOpen, emitRecord_oneOpen,
    outputClosure_eq line fields fields.length optOneOpen false (.bound oneOpen)
      (fun b hb => by cases hb; exact boundOk_oneOpen) h (darOk_false optOneOpen)]

theorem cutStrLit_oneOpen (line : Bytes) (fields : List Range) (buf eol : Bytes)
    (hl : line.isEmpty = false) :
    CutStrLit.cutStrLit line optOneOpen fields buf eol =
      (CutStrLit.emitStage line (fillWithFieldsLocations [] line [9]) optOneOpen false eol,
        fillWithFieldsLocations [] line [9], buf) := by
  have e0 : optOneOpen.regexBag.isSome = false := rfl
  have e1 : CutStrLit.trimStage line optOneOpen = .ok line := rfl
  have e2 : CutStrLit.compressStage line optOneOpen buf =
      .ok ⟨line, [9], false, false, buf⟩ := rfl
  have e3 : CutStrLit.fieldsStage ⟨line, [9], false, false, buf⟩ optOneOpen fields =
      .ok (fillWithFieldsLocations [] line [9]) := rfl
  unfold CutStrLit.cutStrLit
  rw [e0]
  simp only [Bool.false_and, Bool.false_eq_true, if_false]
  rw [e1]
  simp only [hl, Bool.false_eq_true, if_false]
  rw [e2]
  simp only []
  rw [e3]

theorem cutStr_oneOpen (line : Bytes) (fields : List Range) (buf eol : Bytes)
    (hl : line.isEmpty = false) :
    cutStr line optOneOpen fields buf eol =
      (emitRecord line (fillWithFieldsLocations [] line [9]) optOneOpen false eol,
        fillWithFieldsLocations [] line [9], buf) := by
  have e0 : optOneOpen.regexBag.isSome = false := rfl
  have e1 : trimOf optOneOpen line = line := rfl
  have e2 : optOneOpen.compressDelimiter = false := rfl
  have e3 : engineFields optOneOpen line optOneOpen.delimiter false = fillWithFieldsLocations [] line [9] := rfl
  unfold cutStr
  rw [cutStrCore_eq, e0, e1]
  simp only [Bool.false_and, Bool.false_eq_true, if_false]
  unfold afterTrim
  simp only [hl, e0, e2, e3, Bool.false_and, Bool.false_eq_true, if_false]
  rfl

theorem rangesBetween_length' (dlen n : Nat) : ∀ (ms : List Nat) (prev : Nat),
    (rangesBetween dlen n prev ms).length = ms.length + 1
  | [], _ => rfl
  | _ :: t, _ => by simp [rangesBetween, rangesBetween_length' dlen n t]

/-- a record of `k` TABs has `k` delimiters … -/
theorem findIterAux_tabs : ∀ (k pos : Nat),
    (findIterAux [9] 0 pos (List.replicate k 9)).length = k
  | 0, _ => rfl
  | k + 1, pos => by
    rw [List.replicate_succ, findIterAux]
    simp [List.isPrefixOf, findIterAux_tabs k]

/-- … and `k + 1` (empty) fields -/
theorem fields_tabs (k : Nat) (hk : 0 < k) :
    (fillWithFieldsLocations [] (List.replicate k 9) [9]).length = k + 1 := by
  unfold fillWithFieldsLocations
  rw [if_neg (by cases k with
    | zero => omega
    | succ k => simp [List.replicate_succ])]
  rw [rangesBetween_length', findIter, findIterAux_tabs]

/-- **`FieldsFit` is no longer needed by the program without options** (`-f 1:`, TAB): on EVERY record
    — 2³¹ fields and more included, where the text of before the repair answered "Out of bounds: 1" —
    `cut_str` as written and the model agree (the bound 2⁶³ on the number of fields holds for every
    vector: `isize::MAX` bytes) … -/
theorem cutStrLit_eq_cutStr_oneOpen (line : Bytes) (fields : List Range) (buf eol : Bytes)
    (h : (fillWithFieldsLocations [] line [9]).length < 9223372036854775808) :
    CutStrLit.cutStrLit line optOneOpen fields buf eol = cutStr line optOneOpen fields buf eol := by
  cases hl : line.isEmpty with
  | true =>
    exact cutStrLit_eq line optOneOpen fields buf eol
      (fun b hb => by
        have : BoF.bound b = BoF.bound oneOpen := by simpa [optOneOpen] using hb
        cases this; exact boundOk_oneOpen)
      (by
        have : line = [] := by cases line with
          | nil => rfl
          | cons _ _ => cases hl
        subst this
        decide)
  | false =>
    rw [cutStrLit_oneOpen line fields buf eol hl, cutStr_oneOpen line fields buf eol hl,
      emitStage_oneOpen_eq line _ eol h]

/-- … for instance on the record made of 2³¹ − 1 TABs (2 GiB): 2³¹ empty fields -/
theorem cutStrLit_eq_cutStr_on_2GiB_line :
    ∃ line : Bytes, line.length = 2147483647 ∧
      (fillWithFieldsLocations [] line [9]).length = 2147483648 ∧
      CutStrLit.cutStrLit line optOneOpen [] [] [10] = cutStr line optOneOpen [] [] [10] :=
  ⟨List.replicate 2147483647 9, List.length_replicate, fields_tabs _ (by omega),
    cutStrLit_eq_cutStr_oneOpen _ _ _ _ (by rw [fields_tabs _ (by omega)]; omega)⟩

end CutStrLitProps
end Tuc
