import Tuc.Model.WholeLit2
import Tuc.Props.WholeLit
import Tuc.Props.TextLoops
import Tuc.Props.RegexLit
import Tuc.Props.LibLit
import Tuc.Props.BoundsListLit

/-!
# Tuc.Props.WholeLit2 — (header to be completed)
-/

namespace Tuc
namespace WholeLit2

open TextLoops
open CutStrLitProps (BoundsOk BoundOk FieldsFit fieldsFitB DarOk)
open BoundsLit (resMap)

set_option linter.unusedSimpArgs false

/-! ## 0. plumbing -/

theorem ofRes_ok {α : Type} (a : α) : Res4.ofRes (Res.ok a) = .ok a := rfl
theorem ofOutcome_ok {α : Type} (a : α) : Res4.ofOutcome (Outcome.ok a) = .ok a := rfl
theorem bind4_ok {α β : Type} (a : α) (f : α → Res4 β) : (Res4.ok a).bind f = f a := rfl

/-- binding `Res` computations inside `Res4` is binding them in `Res` -/
theorem ofRes_bind {α β : Type} (x : Res α) (f : α → Res β) :
    (Res4.ofRes x).bind (fun a => Res4.ofRes (f a)) = Res4.ofRes (x.bind f) := by
  cases x <;> rfl

theorem orStop4_ofRes {α : Type} (x : Res α) (k : α → Run) :
    orStop4 (Res4.ofRes x) k = CutStrLit.orStop x k := by
  cases x <;> rfl

/-! ## 1. the helpers over the literal `memmem::FindIter` -/

/-- `memmem::FindIter::next` collected is the model's `find_iter` (every needle, the empty one
    included) -/
theorem findIterLit_eq (d line : Bytes) : findIterLit d line = findIter d line :=
  findIterLoop_eq_findIter d line

theorem fillWithFieldsLocationsLoop2_eq (buffer : List Range) (line d : Bytes) :
    fillWithFieldsLocationsLoop2 buffer line d = fillWithFieldsLocationsLoop buffer line d := by
  unfold fillWithFieldsLocationsLoop2 fillWithFieldsLocationsLoop
  rw [findIterLit_eq]

theorem fillWithFieldsLocationsGreedyLoop2_eq (buffer : List Range) (line d : Bytes) :
    fillWithFieldsLocationsGreedyLoop2 buffer line d = fillWithFieldsLocationsGreedyLoop buffer line d := by
  unfold fillWithFieldsLocationsGreedyLoop2 fillWithFieldsLocationsGreedyLoop
  rw [fillWithFieldsLocationsLoop2_eq]

theorem compressDelimiterLoop2_eq (line d output : Bytes) :
    compressDelimiterLoop2 line d output = compressDelimiterLoop line d output := by
  unfold compressDelimiterLoop2 compressDelimiterLoop
  rw [findIterLit_eq]

theorem fillWithFieldsLocationsLoop2_refines (buffer : List Range) (line d : Bytes) :
    fillWithFieldsLocationsLoop2 buffer line d = .ok (fillWithFieldsLocations buffer line d) := by
  rw [fillWithFieldsLocationsLoop2_eq, fillWithFieldsLocationsLoop_refines]

theorem fillWithFieldsLocationsGreedyLoop2_refines (buffer : List Range) (line d : Bytes) :
    fillWithFieldsLocationsGreedyLoop2 buffer line d = .ok (fillWithFieldsLocationsGreedy buffer line d) := by
  rw [fillWithFieldsLocationsGreedyLoop2_eq, fillWithFieldsLocationsGreedyLoop_refines]

theorem compressDelimiterLoop2_refines (line d output : Bytes) :
    compressDelimiterLoop2 line d output = .ok (compressDelimiter line d output) := by
  rw [compressDelimiterLoop2_eq, compressDelimiterLoop_refines]

/-! ## 2. `cut_str` -/

/-- the contract of `find_iter` for the regex bag of the option record (if any) -/
def BagOK (opt : Opt) : Prop := ∀ bag, opt.regexBag = Option.some bag → bag.OK

/-- `write_maybe_as_json!` over the library text = the macro of `Tuc.Model.CutStrLit`, whatever the
    alignment of the slice -/
theorem writeMaybeAsJsonLit2_eq (align : Bytes → Nat) (t : Bytes) (j : Bool) :
    writeMaybeAsJsonLit2 align t j = CutStrLit.writeMaybeAsJsonLit t j := by
  unfold writeMaybeAsJsonLit2 CutStrLit.writeMaybeAsJsonLit
  rw [LibLit.writeAsJsonLit_eq]

theorem maybeReplace2_eq (s : Bytes) (opt : Opt) (hok : BagOK opt) :
    (Res4.ofOutcome (RegexLit.maybeReplaceDelimiterLit s opt)).bind (fun cow => .ok cow.deref) =
      .ok (CutStrLit.maybeReplaceDelimiterLit s opt) := by
  have h := RegexLit.maybeReplaceDelimiterLit_refines s opt hok
  unfold RegexLit.omap at h
  cases hm : RegexLit.maybeReplaceDelimiterLit s opt with
  | ok cow => rw [hm] at h; simp only [Outcome.bind, Outcome.ok.injEq] at h; rw [← h]; rfl
  | panic => rw [hm] at h; cases h
  | hang => rw [hm] at h; cases h

theorem fieldOfRange2_eq (line : Bytes) (fields : List Range) (opt : Opt) (dar : Bool)
    (r : Nat × Nat) (hok : BagOK opt) :
    fieldOfRange2 line fields opt dar r =
      Res4.ofRes
        ((CutStrLit.indexRange fields r.1).bind fun fStart =>
         (BoundsLit.usizeSub r.2 1).bind fun rEndM1 =>
         (CutStrLit.indexRange fields rEndM1).bind fun fEnd =>
         (CutStrLit.sliceBytes line fStart.start fEnd.stop).bind fun s =>
         if dar then .ok s else .ok (CutStrLit.maybeReplaceDelimiterLit s opt)) := by
  unfold fieldOfRange2
  cases CutStrLit.indexRange fields r.1 with
  | fail => rfl
  | panic => rfl
  | ok fStart =>
    simp only [ofRes_ok, bind4_ok, BoundsLit.bind_ok]
    cases BoundsLit.usizeSub r.2 1 with
    | fail => rfl
    | panic => rfl
    | ok m =>
      simp only [ofRes_ok, bind4_ok, BoundsLit.bind_ok]
      cases CutStrLit.indexRange fields m with
      | fail => rfl
      | panic => rfl
      | ok fEnd =>
        simp only [ofRes_ok, bind4_ok, BoundsLit.bind_ok]
        cases CutStrLit.sliceBytes line fStart.start fEnd.stop with
        | fail => rfl
        | panic => rfl
        | ok s =>
          simp only [ofRes_ok, bind4_ok, BoundsLit.bind_ok]
          cases dar with
          | true => rfl
          | false =>
            simp only [Bool.false_eq_true, if_false]
            exact maybeReplace2_eq s opt hok

/-- l.416-434 with the literal `maybe_replace_delimiter` is l.416-434 of `Tuc.Model.CutStrLit` -/
theorem fieldToPrint2_eq (line : Bytes) (fields : List Range) (n : Nat) (opt : Opt) (dar : Bool)
    (b : UserBounds) (hok : BagOK opt) :
    fieldToPrint2 line fields n opt dar b = Res4.ofRes (CutStrLit.fieldToPrint line fields n opt dar b) := by
  unfold fieldToPrint2 CutStrLit.fieldToPrint
  generalize CutStrLit.resolve b n = x
  cases x with
  | panic => rfl
  | ok r => exact fieldOfRange2_eq line fields opt dar r hok
  | fail =>
    simp only []
    cases b.fallback with
    | some f => rfl
    | none => cases opt.fallbackOob <;> rfl

theorem outputClosure2_eq (align : Bytes → Nat) (line : Bytes) (fields : List Range) (n : Nat)
    (opt : Opt) (dar : Bool) (bof : BoF) (hok : BagOK opt) :
    outputClosure2 align line fields n opt dar bof = CutStrLit.outputClosure line fields n opt dar bof := by
  cases bof with
  | filler f => rfl
  | bound b =>
    unfold outputClosure2 CutStrLit.outputClosure
    simp only [fieldToPrint2_eq line fields n opt dar b hok, orStop4_ofRes, writeMaybeAsJsonLit2_eq]

theorem tryForEach2_eq (align : Bytes → Nat) (line : Bytes) (fields : List Range) (n : Nat)
    (opt : Opt) (dar : Bool) (hok : BagOK opt) : ∀ (l : List BoF),
    tryForEach2 align line fields n opt dar l = CutStrLit.tryForEach line fields n opt dar l
  | [] => rfl
  | bof :: t => by
    simp only [tryForEach2, CutStrLit.tryForEach, outputClosure2_eq align line fields n opt dar bof hok,
      tryForEach2_eq align line fields n opt dar hok t]

/-! ### the stages -/

/-- l.280-291: `trimLoop` / `trimRegexLit` for `trimLiteral` / `trimRegex` -/
theorem trimStage2_eq (line : Bytes) (opt : Opt) (hok : BagOK opt) :
    trimStage2 line opt = Res4.ofRes (CutStrLit.trimStage line opt) := by
  unfold trimStage2 CutStrLit.trimStage
  cases opt.trim with
  | none => rfl
  | some k =>
    simp only []
    cases hb : opt.regexBag with
    | none =>
      simp only [Option.isSome_none, Bool.false_eq_true, if_false, trimLoop_refines]
      rfl
    | some bag =>
      simp only [Option.isSome_some, if_true, CutStrLit.unwrap, ofRes_ok, bind4_ok, BoundsLit.bind_ok,
        (RegexLit.bag_refines bag (hok bag hb) line).1 k]
      rfl

/-- l.300-330 -/
theorem compressStage2_eq (line : Bytes) (opt : Opt) (buf : Bytes) (hok : BagOK opt) :
    compressStage2 line opt buf = Res4.ofRes (CutStrLit.compressStage line opt buf) := by
  unfold compressStage2 CutStrLit.compressStage
  simp only [Bool.and_true]
  by_cases hsc : (opt.compressDelimiter &&
      (decide (opt.boundsType = .fields) || decide (opt.boundsType = .lines))) = true
  · rw [if_pos hsc, if_pos hsc]
    cases hb : opt.regexBag with
    | none =>
      simp only [Option.isSome_none, Bool.false_eq_true, if_false, compressDelimiterLoop2_refines]
      rfl
    | some bag =>
      simp only [Option.isSome_some, if_true]
      cases opt.replaceDelimiter with
      | none => rfl
      | some nd =>
        simp only [CutStrLit.unwrap, ofRes_ok, bind4_ok, BoundsLit.bind_ok]
        have h := (RegexLit.bag_refines bag (hok bag hb) line).2.1 nd
        unfold RegexLit.omap at h
        cases hm : RegexLit.compressDelimiterWithRegexLit line bag.greedy nd with
        | ok cow =>
          rw [hm] at h
          simp only [Outcome.bind, Outcome.ok.injEq] at h
          simp only [ofOutcome_ok, bind4_ok, h]
        | panic => rw [hm] at h; cases h
        | hang => rw [hm] at h; cases h
  · rw [if_neg hsc, if_neg hsc]
    rfl

/-- l.332-355 (no hypothesis: `fill_with_fields_locations_using_regex` slices nothing) -/
theorem fieldsStage2_eq (loc : CutStrLit.Locals) (opt : Opt) (fields : List Range) :
    fieldsStage2 loc opt fields = Res4.ofRes (CutStrLit.fieldsStage loc opt fields) := by
  have hdrain : ∀ f : List Range,
      (if (decide (opt.boundsType = .characters) && decide (f.length > 2)) = true then
        Res4.ofRes (CutStrLit.drainTo f.dropLast 1) else Res4.ok f) =
      Res4.ofRes (if (decide (opt.boundsType = .characters) && decide (f.length > 2)) = true then
        CutStrLit.drainTo f.dropLast 1 else Res.ok f) := by
    intro f
    split <;> rfl
  unfold fieldsStage2 CutStrLit.fieldsStage
  cases loc.shouldBuildRangesUsingRegex with
  | true =>
    simp only [if_true]
    cases opt.regexBag with
    | none => rfl
    | some bag =>
      simp only [CutStrLit.unwrap, ofRes_ok, bind4_ok, BoundsLit.bind_ok,
        RegexLit.fillWithFieldsLocationsUsingRegexLit_refines, ofOutcome_ok]
      exact hdrain _
  | false =>
    simp only [Bool.false_eq_true, if_false]
    by_cases hg : opt.greedyDelimiter = true
    · simp only [hg, if_true, fillWithFieldsLocationsGreedyLoop2_refines, ofOutcome_ok, bind4_ok,
        BoundsLit.bind_ok]
      exact hdrain _
    · simp only [hg, if_false, fillWithFieldsLocationsLoop2_refines, ofOutcome_ok, bind4_ok,
        BoundsLit.bind_ok]
      exact hdrain _

/-! ### `complement`, `unpack` with the Rust integer types -/

theorem boundsOk_allInI32 {l : List BoF} (h : BoundsOk l) : BoundsListLit.AllInI32 l :=
  fun b hb => ⟨(h b hb).1, (h b hb).2.1⟩

/-- l.373: `UserBoundsList::complement` of `Tuc.Model.BoundsListLit` on the stored list is
    `complementList`, with fewer than 2³¹ fields -/
theorem complementLit_eq (bounds : UserBoundsList) (n : Nat) (hb : BoundsOk bounds.list)
    (hn : n < 2147483648) : complementLit bounds n = complementList bounds.list n :=
  BoundsListLit.complement_model bounds.list (boundsOk_allInI32 hb) hb.lnz _ n hn

/-- l.402: `UserBoundsList::unpack` likewise -/
theorem unpackLit_eq (bounds : UserBoundsList) (n : Nat) (hb : BoundsOk bounds.list)
    (hn : n < 2147483648) : unpackLit bounds n = unpackList bounds.list n :=
  BoundsListLit.unpack_model bounds.list (boundsOk_allInI32 hb) hb.lnz _ n hn

/-- **l.357-455**: with `i32` bounds, fewer than 2³¹ fields and a regex bag that honours the contract
    of `find_iter` the text with the statement-level callees is the text of `Tuc.Model.CutStrLit` -/
theorem emitStage2_eq (align : Bytes → Nat) (line : Bytes) (fields : List Range) (opt : Opt)
    (dar : Bool) (eol : Bytes) (hb : BoundsOk opt.bounds.list) (hn : fields.length < 2147483648)
    (hok : BagOK opt) :
    emitStage2 align line fields opt dar eol = CutStrLit.emitStage line fields opt dar eol := by
  unfold emitStage2 CutStrLit.emitStage
  simp only []
  by_cases h1 : (opt.onlyDelimited && fields.length == 1) = true
  · rw [if_pos h1, if_pos h1]
  · rw [if_neg h1, if_neg h1]
    congr 1
    rw [complementLit_eq opt.bounds fields.length hb hn]
    have hac : ∀ u, (if opt.complement = true then complementList opt.bounds.list fields.length
        else .ok opt.bounds) = .ok u → BoundsOk u.list := by
      intro u hu
      cases hc : opt.complement with
      | false =>
        rw [hc] at hu
        simp only [Bool.false_eq_true, if_false, Res.ok.injEq] at hu
        subst hu
        exact hb
      | true =>
        rw [hc, if_pos rfl] at hu
        exact (CutStrLitProps.complementList_boundsOk _ _ hn hb u hu).1
    generalize (if opt.complement = true then complementList opt.bounds.list fields.length
        else Res.ok opt.bounds) = ac at hac
    cases ac with
    | fail => rfl
    | panic => rfl
    | ok bounds =>
      have hb1 := hac bounds rfl
      simp only [CutStrLit.orStop]
      rw [unpackLit_eq bounds fields.length hb1 hn]
      simp only [tryForEach2_eq align line fields fields.length opt dar hok]

/-! ### `cut_str` -/

open CutStrLitProps (buffersAfter) in
/-- l.293-455 with the statement-level callees against the model's `afterTrim` (the proof of
    `CutStrLitProps.afterTrim_eq`, stage by stage) -/
theorem afterTrim2_eq (align : Bytes → Nat) (line : Bytes) (opt : Opt) (fields : List Range)
    (buf eol : Bytes) (hb : BoundsOk opt.bounds.list) (hok : BagOK opt)
    (hn : ∀ f, (afterTrim line opt eol).2.1 = Option.some f → f.length < 2147483648) :
    (if line.isEmpty then
        ((if !opt.onlyDelimited then Run.ok eol else Run.empty).seq Run.empty, fields, buf)
      else
        match compressStage2 line opt buf with
        | .fail => (Run.fail, fields, buf)
        | .panic => (Run.panic, fields, buf)
        | .hang => (Run.hang, fields, buf)
        | .ok loc =>
          match fieldsStage2 loc opt fields with
          | .fail => (Run.fail, fields, buf)
          | .panic => (Run.panic, fields, buf)
          | .hang => (Run.hang, fields, buf)
          | .ok fields =>
            (emitStage2 align loc.line fields opt loc.delimiterAlreadyReplaced eol,
              fields, loc.compressedLineBuf)) =
      buffersAfter (afterTrim line opt eol) fields buf := by
  rw [compressStage2_eq line opt buf hok]
  unfold afterTrim at hn ⊢
  by_cases he : line.isEmpty = true
  · rw [if_pos he, if_pos he, Run.seq_empty]; rfl
  · rw [if_neg he] at hn ⊢
    rw [if_neg he]
    simp only [] at hn ⊢
    unfold CutStrLit.compressStage
    simp only [Bool.and_true]
    by_cases hsc : (opt.compressDelimiter &&
        (decide (opt.boundsType = .fields) || decide (opt.boundsType = .lines))) = true
    · rw [if_pos hsc] at hn ⊢
      rw [if_pos hsc]
      cases hbag : opt.regexBag with
      | none =>
        rw [hbag] at hn
        simp only [Option.isSome_none, Bool.false_eq_true, if_false, ofRes_ok] at hn ⊢
        rw [fieldsStage2_eq, CutStrLitProps.fieldsStage_eq _ _ _ (by intro h; cases h)]
        simp only [ofRes_ok, buffersAfter, Option.getD_some,
          CutStrLitProps.compressDelimiter_buf line opt.delimiter buf]
        rw [emitStage2_eq _ _ _ _ _ _ hb (hn _ rfl) hok,
          CutStrLitProps.emitStage_eq _ _ _ _ _ hb (hn _ rfl) (CutStrLitProps.darOk_false opt)]
      | some bag =>
        rw [hbag] at hn
        simp only [Option.isSome_some, if_true] at hn ⊢
        cases hrd : opt.replaceDelimiter with
        | none => rfl
        | some nd =>
          rw [hrd] at hn
          simp only [CutStrLit.unwrap, BoundsLit.bind_ok, ofRes_ok] at hn ⊢
          rw [fieldsStage2_eq, CutStrLitProps.fieldsStage_eq _ _ _ (by intro h; cases h)]
          simp only [ofRes_ok, buffersAfter, Option.getD_some, Option.getD_none]
          rw [emitStage2_eq _ _ _ _ _ _ hb (hn _ rfl) hok,
            CutStrLitProps.emitStage_eq _ _ _ _ _ hb (hn _ rfl) (by intro _; left; rw [hbag]; rfl)]
    · rw [if_neg hsc] at hn ⊢
      rw [if_neg hsc]
      simp only [ofRes_ok] at hn ⊢
      rw [fieldsStage2_eq, CutStrLitProps.fieldsStage_eq _ _ _ (by intro h; exact h)]
      simp only [ofRes_ok, buffersAfter, Option.getD_some, Option.getD_none]
      rw [emitStage2_eq _ _ _ _ _ _ hb (hn _ rfl) hok,
        CutStrLitProps.emitStage_eq _ _ _ _ _ hb (hn _ rfl) (CutStrLitProps.darOk_false opt)]

/-- **`cut_str` with every callee at statement level** — `trim`, `trim_regex`,
    `compress_delimiter[_with_regex]`, the three `fill_with_fields_locations*` over the literal
    `memmem::FindIter` / the match list of the regex, `Regex::replace_all`, `UserBoundsList::complement` /
    `unpack` with `i32`s, `std::str::from_utf8` + `serde_json::to_string` — **is the normal-form `cutStr`**:
    bytes written, status and the two scratch buffers, for every record, every option record, any
    previous content of the buffers, any `eol`, any alignment of the slices, under the hypotheses
    of `CutStrLitProps.cutStrLit_eq` plus the contract of `find_iter` for the regex bag. -/
theorem cutStrLit2_eq_cutStr (align : Bytes → Nat) (line : Bytes) (opt : Opt) (fields : List Range)
    (compressedLineBuf eol : Bytes) (hb : BoundsOk opt.bounds.list) (hn : FieldsFit line opt)
    (hok : BagOK opt) :
    cutStrLit2 align line opt fields compressedLineBuf eol =
      cutStr line opt fields compressedLineBuf eol := by
  have hn : ∀ f, (cutStrCore line opt eol).2.1 = Option.some f → f.length < 2147483648 := by
    intro f hf
    rw [CutStrLitProps.cutStrCore_snd_eol line opt eol []] at hf
    exact hn f hf
  rw [CutStrLitProps.cutStr_eq_buffersAfter, cutStrCore_eq]
  rw [cutStrCore_eq] at hn
  unfold cutStrLit2
  by_cases h1 : (opt.regexBag.isSome && opt.compressDelimiter && opt.replaceDelimiter.isNone) = true
  · rw [if_pos h1, if_pos (by rw [← Bool.and_assoc]; exact h1)]; rfl
  · rw [if_neg h1, if_neg (by rw [← Bool.and_assoc]; exact h1)]
    rw [if_neg h1] at hn
    by_cases h2 : (opt.regexBag.isSome && opt.join && opt.replaceDelimiter.isNone) = true
    · rw [if_pos h2, if_pos (by rw [← Bool.and_assoc]; exact h2)]; rfl
    · rw [if_neg h2, if_neg (by rw [← Bool.and_assoc]; exact h2), trimStage2_eq line opt hok,
        CutStrLitProps.trimStage_eq]
      rw [if_neg h2] at hn
      exact afterTrim2_eq align (trimOf opt line) opt fields compressedLineBuf eol hb hok hn

/-- … hence the transcription of `Tuc.Model.CutStrLit` -/
theorem cutStrLit2_eq_cutStrLit (align : Bytes → Nat) (line : Bytes) (opt : Opt) (fields : List Range)
    (compressedLineBuf eol : Bytes) (hb : BoundsOk opt.bounds.list) (hn : FieldsFit line opt)
    (hok : BagOK opt) :
    cutStrLit2 align line opt fields compressedLineBuf eol =
      CutStrLit.cutStrLit line opt fields compressedLineBuf eol := by
  rw [cutStrLit2_eq_cutStr align line opt fields compressedLineBuf eol hb hn hok,
    CutStrLitProps.cutStrLit_eq line opt fields compressedLineBuf eol hb hn]

/-! ## 3. the engines -/

open StreamLoop (fillBuf consume memchr totalBytes fuelFor) in
open ReadLoops (Closure forByteRecordLoop readUntilLoop readToEndLoop stripSuffix foldRecords) in
/-- l.472-485 with `cutStrLit2` = the closure of `Tuc.Model.WholeLit`, on a record that
    `for_byte_record` hands out -/
theorem cutStrLitClosure2_eq (align : Bytes → Nat) (opt : Opt) (hb : BoundsOk opt.bounds.list)
    (hok : BagOK opt) (r : Bytes) (st : List Range × Bytes) (hr : opt.eol.byte ∉ r)
    (hn : FieldsFit r opt) :
    cutStrLitClosure2 align opt r st = WholeLit.cutStrLitClosure opt r st := by
  simp only [cutStrLitClosure2, WholeLit.cutStrLitClosure, ReadLoops.stripSuffix_not_mem r _ hr,
    Option.getD_none, cutStrLit2_eq_cutStrLit align r opt st.1 st.2 _ hb hn hok]

/-- **the general engine** -/
theorem readAndCutStrWhole2_eq (align : Bytes → Nat) (opt : Opt) (segs : List Bytes)
    (hb : BoundsOk opt.bounds.list) (hok : BagOK opt) (hsegs : ∀ s ∈ segs, s ≠ [])
    (hn : ∀ r ∈ records opt.eol.byte segs.flatten, FieldsFit r opt) :
    readAndCutStrWhole2 align opt segs = WholeLit.readAndCutStrWhole opt segs := by
  unfold readAndCutStrWhole2 WholeLit.readAndCutStrWhole
  simp only [ReadLoops.forByteRecordLoop_eq_records _ _ _ _ hsegs]
  rw [WholeLit.foldRecords_congr _ _ _ _ (fun r hr st =>
    cutStrLitClosure2_eq align opt hb hok r st (ReadLoops.records_not_mem _ _ r hr) (hn r hr))]

/-- **`cut_lines`** with core's UTF-8 validation and `cutStrLit2` -/
theorem cutLinesWhole2_eq (align : Bytes → Nat) (opt : Opt) (segs : List Bytes)
    (hb : BoundsOk opt.bounds.list) (hok : BagOK opt) (hsegs : ∀ s ∈ segs, s ≠ [])
    (hn : validUtf8 segs.flatten = true → FieldsFit (stripEol opt.eol.byte segs.flatten) opt) :
    cutLinesWhole2 align opt segs = WholeLit.cutLinesWhole opt segs := by
  unfold cutLinesWhole2 WholeLit.cutLinesWhole
  simp only [ReadLoops.readToEndLoop_spec _ _ _ _ hsegs (ReadLoops.totalBytes_lt_fuelFor segs),
    List.nil_append, LibLit.fromUtf8IsOk_eq]
  by_cases hv : validUtf8 segs.flatten = true
  · simp only [hv, Bool.not_true, Bool.false_eq_true, if_false,
      cutStrLit2_eq_cutStrLit align _ opt [] [] _ hb (hn hv) hok]
  · simp only [hv, Bool.not_false, if_true]

/-- `is_forward_only()` over `i32` sides and the two `PartialOrd` impls is `isForwardOnly` -/
theorem isForwardOnlyLit_eq (bounds : UserBoundsList) (hb : BoundsOk bounds.list) :
    isForwardOnlyLit bounds = .ok (isForwardOnly bounds.list) :=
  BoundsListLit.isForwardOnly_model bounds.list (boundsOk_allInI32 hb) _

/-- **`read_and_cut_lines`** -/
theorem readAndCutLinesWhole2_eq (align : Bytes → Nat) (opt : Opt) (segs : List Bytes)
    (hb : BoundsOk opt.bounds.list) (hok : BagOK opt) (hsegs : ∀ s ∈ segs, s ≠ [])
    (hn : (!opt.complement && !opt.compressDelimiter && isForwardOnly opt.bounds.list) = false →
      validUtf8 segs.flatten = true → FieldsFit (stripEol opt.eol.byte segs.flatten) opt) :
    readAndCutLinesWhole2 align opt segs = WholeLit.readAndCutLinesWhole opt segs := by
  unfold readAndCutLinesWhole2 WholeLit.readAndCutLinesWhole
  rw [isForwardOnlyLit_eq opt.bounds hb]
  have hcb : (if (!opt.complement && !opt.compressDelimiter) = true then Res.ok (isForwardOnly opt.bounds.list)
      else Res.ok false) = .ok (!opt.complement && !opt.compressDelimiter && isForwardOnly opt.bounds.list) := by
    cases (!opt.complement && !opt.compressDelimiter) <;> rfl
  rw [hcb]
  simp only [CutStrLit.orStop]
  by_cases hs : (!opt.complement && !opt.compressDelimiter && isForwardOnly opt.bounds.list) = true
  · simp only [hs, if_true]
  · simp only [hs, Bool.false_eq_true, if_false]
    rw [cutLinesWhole2_eq align opt segs hb hok hsegs (hn (by simpa using hs))]

/-! ## 4. `parse_args` -/

/-- `UserBoundsList::from_str` at statement level is `boundsListOfString`, on every string -/
theorem boundsArg2_eq : boundsArg2 = boundsArg := by
  funext a
  exact BoundsListLit.fromStrLit_toModel a

theorem parseWith2_eq {σ : Type} (ops : Ops σ) (regexOk : Arg → Bool) :
    parseWith2 ops regexOk = parseWith ops regexOk := by
  unfold parseWith2 parseWith
  rw [boundsArg2_eq]
  rfl

/-- **`parse_args` with the statement-level bounds parser is `parseArgv`**, for every argument vector -/
theorem parseArgv2_eq (regexOk : Arg → Bool) (argv : List Arg) :
    parseArgv2 regexOk argv = parseArgv regexOk argv := by
  unfold parseArgv2 parseArgv
  rw [parseWith2_eq]

/-! ## 5. the dispatch of `main`, the program -/

open WholeLit (engineFitsB inputFitsB programFitsB InDomain engineFitsB_reads engineFitsB_input)

theorem dispatchWhole2_eq (align : Bytes → Nat) (opt : Opt) (segs : List Bytes)
    (hb : BoundsOk opt.bounds.list) (hok : BagOK opt) (hfit : engineFitsB opt segs = true) :
    dispatchWhole2 align opt segs = WholeLit.dispatchWhole opt segs := by
  have hsegs := engineFitsB_reads hfit
  have hin := engineFitsB_input hfit
  unfold dispatchWhole2 WholeLit.dispatchWhole
  unfold inputFitsB at hin
  by_cases hfm : opt.fixedMemory.isSome = true
  · simp only [hfm, if_true]
    cases OptLit.StreamOptLit.tryFrom opt <;> rfl
  · simp only [hfm, Bool.false_eq_true, if_false] at hin ⊢
    by_cases h1 : opt.boundsType = .bytes
    · simp only [h1, if_true]
    · simp only [h1, if_false] at hin ⊢
      by_cases h2 : opt.boundsType = .lines
      · simp only [h2, if_true] at hin ⊢
        rw [readAndCutLinesWhole2_eq align opt segs hb hok hsegs]
        intro hs hv
        simp only [hs, hv, Bool.not_true, Bool.false_or] at hin
        exact (CutStrLitProps.fieldsFit_iff _ _).mp hin
      · simp only [h2, if_false] at hin ⊢
        cases ht : OptLit.FastOptLit.tryFrom opt with
        | ok fo => rfl
        | fail =>
          simp only [ht, List.all_eq_true, CutStrLitProps.fieldsFit_iff] at hin
          simp only [readAndCutStrWhole2_eq align opt segs hb hok hsegs hin]
        | panic => rfl

theorem tucRunWhole2_eq (align : Bytes → Nat) (o : Opt) (regexText : Option Arg) (segs : List Bytes)
    (hb : BoundsOk o.bounds.list)
    (hfit : ∀ bag, compileBag o regexText = Option.some bag →
      ((o.boundsType = .characters && !validUtf8 segs.flatten)
        || engineFitsB { o with regexBag := bag } segs) = true) :
    tucRunWhole2 align o regexText segs = WholeLit.tucRunWhole o regexText segs := by
  unfold tucRunWhole2 WholeLit.tucRunWhole
  cases hc : compileBag o regexText with
  | none => rfl
  | some bag =>
    simp only
    by_cases hu : (o.boundsType = .characters && !validUtf8 segs.flatten) = true
    · rw [if_pos hu, if_pos hu]
    · rw [if_neg hu, if_neg hu]
      have := hfit bag hc
      rw [Bool.or_eq_true] at this
      rw [dispatchWhole2_eq align { o with regexBag := bag } segs hb
        (fun b hbg => compileBag_ok o regexText bag hc b hbg) (this.resolve_left hu)]

/-- **`tucProgramLit2` is `tucProgramLit`** on the domain of `WholeLit.tucProgramLit_eq`, whatever the
    alignment oracle: the regex bag that `main` stores honours the contract of `find_iter`
    (`compileBag_ok`), so no hypothesis on it is left -/
theorem tucProgramLit2_eq_tucProgramLit (align : Bytes → Nat) (regexOk : Arg → Bool) (argv : List Arg)
    (segs : List Bytes) (h : InDomain regexOk argv segs) :
    tucProgramLit2 align regexOk argv segs = WholeLit.tucProgramLit regexOk argv segs := by
  unfold InDomain programFitsB at h
  unfold tucProgramLit2 WholeLit.tucProgramLit
  rw [parseArgv2_eq]
  cases hp : parseArgv regexOk argv with
  | help => rfl
  | version => rfl
  | reject => rfl
  | panic => rfl
  | run o fm rt =>
    simp only [hp] at h ⊢
    apply tucRunWhole2_eq align o rt segs (CutStrLitProps.boundsOk_of_parseArgv regexOk argv o fm rt hp)
    intro bag hc
    simpa only [hc] using h

/-- **THE CAPSTONE, one level deeper**: `tucProgramLit2 = tucMain` -/
theorem tucProgramLit2_eq (align : Bytes → Nat) (regexOk : Arg → Bool) (argv : List Arg)
    (segs : List Bytes) (h : InDomain regexOk argv segs) :
    tucProgramLit2 align regexOk argv segs = tucMain regexOk argv segs := by
  rw [tucProgramLit2_eq_tucProgramLit align regexOk argv segs h, WholeLit.tucProgramLit_eq regexOk argv segs h]

end WholeLit2
end Tuc
