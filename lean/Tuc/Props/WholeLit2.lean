import Tuc.Model.WholeLit2
import Tuc.Props.WholeLit
import Tuc.Props.TextLoops
import Tuc.Props.RegexLit
import Tuc.Props.LibLit
import Tuc.Props.BoundsListLit

/-!
# Tuc.Props.WholeLit2 — the program with the callees of the literal pieces at statement level IS `tucMain`

`Tuc.Model.WholeLit2.tucProgramLit2 align regexOk argv segs` is `Tuc.Model.WholeLit.tucProgramLit` in
which the callees that `tucProgramLit` still reaches through a normal-form model — the text helpers
of `cut_str.rs` and their regex twins, the `--json` writer and the UTF-8 validation, the bounds
parser, `try_into_range` / `matches` / `complement` / `unpack` / `is_forward_only`, `print_bof` — are
replaced by their statement-level transcriptions (table in the header of the model file).

## Headline

* **`tucProgramLit2_eq_tucProgramLit : InDomain2 regexOk argv segs → tucProgramLit2 align regexOk argv segs
  = tucProgramLit regexOk argv segs`** and
  **`tucProgramLit2_eq : InDomain2 regexOk argv segs → tucProgramLit2 align regexOk argv segs = tucMain regexOk argv segs`**
  — every alignment oracle `align`, every argument vector, every input, every segmentation.
  `InDomain2` (`programFits2B … = true`, decidable, `#guard`-able) is `WholeLit.InDomain` AND, when an
  engine runs, `inputFits2B opt input`:
  - `-b`: **the input is shorter than 2³¹ bytes**;
  - fast lane: on every record the number of parts fits (`PartsFit`: fewer than 2³¹ − 1 delimiter
    bytes in the record, or the scan stops early at a positive `i32` `last_interesting_field`);
  - `-M`, `-l`, the general engine: nothing more than `InDomain`.
  Both came from ONE component hypothesis, `parts_length < 2³¹` of `BoundsLit.tryIntoRange_eq` (the cast
  `parts_length as i32`, userbounds.rs:221), when `cut_bytes` (cut_bytes.rs:15) and `output_parts`
  (fast_lane.rs:103) were made to call the machine-integer `try_into_range`.  That cast was a GENUINE
  DEFECT (`tuc -b 1:` on 2 GiB to 4 GiB of input: exit 1, "Out of bounds: 1", nothing printed; beyond 4 GiB
  only `len mod 2³²` counted) and HAS BEEN REPAIRED: `try_into_range` computes in `i64`
  (`BoundsLit.tryIntoRange_eq_i64`, every `parts_length < 2⁶³`).  `InDomain2` is unchanged and its clauses
  stay SUFFICIENT, but (§8):
  - the `-b` clause is NO LONGER NECESSARY: `readAndCutBytesLoop2_eq_i64` (every option record, every
    input shorter than 2⁶³ bytes), **`tucProgramLit2_eq_tucMain_on_2GiB_input`** / `tucProgramLit2_bytes_on_large`
    / `readAndCutBytesLoop2_on_large`: `tuc -b 1:` on the 2³¹-byte input that witnessed the defect now
    prints the input, as `tucProgramLit` and `tucMain` do.  (The former witnesses
    `tucProgramLit2_ne_tucMain_on_2GiB_input`, `tucProgramLit2_bytes_length_necessary`,
    `readAndCutBytesLoop2_length_necessary` are false of the repaired text; the commit history has them.)
  - fast lane: `outputPartsLit2_eq_i64` / `outputPartsLit2_eq_on_large` — `output_parts` agrees with
    `Tuc.Model.FastLoop` for every number of parts below 2⁶³ (the former `outputPartsLit2_length_necessary`
    is false now).  `PartsFit` remains in `inputFits2B` for the `i32` counter `curr_field` of the scan
    (`FastLoop.CounterFits`, `cutStrFastLaneLoop_overflow`), which the repair does not touch.
* NO hypothesis on the regex bag at program level: `compileBag_ok` (`Tuc.Props.MainLevel`) — the bag
  `main` stores is the `\b|\B` bag of `-c` or `Re.bag r`, both honour the contract of `find_iter`
  (`RegexBag.OK`).  Engine by engine the contract is the explicit hypothesis `BagOK opt`; it cannot be
  dropped there (`badBag`: `trim_regex` slices out of range, §8).
* NO hypothesis on `align`: `LibLit.writeAsJsonLit_eq`, `LibLit.fromUtf8IsOk_eq` hold for every value
  (`tucProgramLit2_align_irrelevant`).
* NO hypothesis for the bounds parser (`parseArgv2_eq`: every argument vector;
  `BoundsListLit.fromStrLit_toModel`), for the loops over `memmem::FindIter` (`findIterLit_eq`,
  `TextLoops.*_refines`), for `matches` in `-l` (`line_idx` is an `i32`: `LineIdxOk` is an invariant
  of the loop), for `print_bof` (`curr_field ≥ 1` and the slice indexes in range are invariants of
  `cut_bytes_stream`: `forLoop2_eq`, `newChunk2_eq`), for `is_forward_only`.

## Component theorems (each: every input, every option record; hypotheses as stated)

* §1 `findIterLit_eq`, `fillWithFieldsLocationsLoop2_refines`, `…GreedyLoop2_refines`,
  `compressDelimiterLoop2_refines`;
* §2 `writeMaybeAsJsonLit2_eq`, `fieldToPrint2_eq`, `outputClosure2_eq`, `tryForEach2_eq`,
  `trimStage2_eq`, `compressStage2_eq`, `fieldsStage2_eq` (as `Res4.ofRes` of the stage of
  `Tuc.Model.CutStrLit`; `BagOK` where a regex twin slices), `complementLit_eq`, `unpackLit_eq`
  (`BoundsOk`, fewer than 2³¹ fields), `emitStage2_eq`, `afterTrim2_eq`,
  **`cutStrLit2_eq_cutStr`**, **`cutStrLit2_eq_cutStrLit`** (`BoundsOk`, `FieldsFit`, `BagOK`);
* §3 `readAndCutStrWhole2_eq`, `cutLinesWhole2_eq`, `innerBody2_eq` … `cutLinesForwardOnlyWhole2_eq`,
  `isForwardOnlyLit_eq`, `readAndCutLinesWhole2_eq`; §3b `cutBytesBody2_eq`, `readAndCutBytesLoop2_eq`
  (input shorter than 2³¹ bytes); §3c `outputPartsLit2_eq`, `scanFor_inv`, `afterScan2_eq`,
  `cutStrFastLaneLoop2_eq` (`PartsFit` on the number of delimiter bytes), `readAndCutTextAsBytesWhole2_eq`;
  §3d `forBody2_eq`, `forLoop2_eq`, `remainingData2_eq`, `chunkBody2_eq`, `newChunk2_eq`,
  `cutBytesStreamLoop2_eq` (no negative index), `readAndCutBytesStreamWhole2_eq`;
* §4 `boundsArg2_eq`, `parseWith2_eq`, `parseArgv2_eq`; §5 `dispatchWhole2_eq`, `tucRunWhole2_eq`.

## Corollaries (§6), transported

`tucProgramLit2_never_panics`, `tucProgramLit2_run_status` (no panic site of any of the transcribed
functions is reached, no loop runs out of fuel), `tucProgramLit2_chunk_independent` (`'`; also across
two alignment oracles), `tucProgramLit2_align_irrelevant`; `inDomain2_of_flatten`, `inDomain2_of_not_run`,
`inDomain2_iff_of_run`.

§7: the 23 evaluations of `Tuc.Props.WholeLit` §10 against `tucProgramLit2` (two alignment oracles,
same expected results) and 6 more that exercise the substituted callees.  §8: the witnesses.

What remains in normal form: see the end of the header of `Tuc.Model.WholeLit2` (`matches` inside the
`-M` helpers; library functions modelled by what they compute).
-/

namespace Tuc
namespace WholeLit2

open TextLoops
open CutStrLitProps (BoundsOk BoundOk FieldsFit fieldsFitB DarOk)
open BoundsLit (resMap)

set_option linter.unusedSimpArgs false

/-! ## 0. plumbing -/

theorem ofRes_ok {α : Type} (a : α) : Res4.ofRes (Res.ok a) = .ok a := rfl
theorem ofOutcome_ok {α : Type} (a : α) : Res4.ofOutcome (Outcome.ok a) = .ok a := rfl
theorem bind4_ok {α β : Type} (a : α) (f : α → Res4 β) : (Res4.ok a).bind f = f a := rfl

/-- binding `Res` computations inside `Res4` is binding them in `Res` -/
theorem ofRes_bind {α β : Type} (x : Res α) (f : α → Res β) :
    (Res4.ofRes x).bind (fun a => Res4.ofRes (f a)) = Res4.ofRes (x.bind f) := by
  cases x <;> rfl

theorem orStop4_ofRes {α : Type} (x : Res α) (k : α → Run) :
    orStop4 (Res4.ofRes x) k = CutStrLit.orStop x k := by
  cases x <;> rfl

/-! ## 1. the helpers over the literal `memmem::FindIter` -/

/-- `memmem::FindIter::next` collected is the model's `find_iter` (every needle, the empty one
    included) -/
theorem findIterLit_eq (d line : Bytes) : findIterLit d line = findIter d line :=
  findIterLoop_eq_findIter d line

theorem fillWithFieldsLocationsLoop2_eq (buffer : List Range) (line d : Bytes) :
    fillWithFieldsLocationsLoop2 buffer line d = fillWithFieldsLocationsLoop buffer line d := by
  unfold fillWithFieldsLocationsLoop2 fillWithFieldsLocationsLoop
  rw [findIterLit_eq]

theorem fillWithFieldsLocationsGreedyLoop2_eq (buffer : List Range) (line d : Bytes) :
    fillWithFieldsLocationsGreedyLoop2 buffer line d = fillWithFieldsLocationsGreedyLoop buffer line d := by
  unfold fillWithFieldsLocationsGreedyLoop2 fillWithFieldsLocationsGreedyLoop
  rw [fillWithFieldsLocationsLoop2_eq]

theorem compressDelimiterLoop2_eq (line d output : Bytes) :
    compressDelimiterLoop2 line d output = compressDelimiterLoop line d output := by
  unfold compressDelimiterLoop2 compressDelimiterLoop
  rw [findIterLit_eq]

theorem fillWithFieldsLocationsLoop2_refines (buffer : List Range) (line d : Bytes) :
    fillWithFieldsLocationsLoop2 buffer line d = .ok (fillWithFieldsLocations buffer line d) := by
  rw [fillWithFieldsLocationsLoop2_eq, fillWithFieldsLocationsLoop_refines]

theorem fillWithFieldsLocationsGreedyLoop2_refines (buffer : List Range) (line d : Bytes) :
    fillWithFieldsLocationsGreedyLoop2 buffer line d = .ok (fillWithFieldsLocationsGreedy buffer line d) := by
  rw [fillWithFieldsLocationsGreedyLoop2_eq, fillWithFieldsLocationsGreedyLoop_refines]

theorem compressDelimiterLoop2_refines (line d output : Bytes) :
    compressDelimiterLoop2 line d output = .ok (compressDelimiter line d output) := by
  rw [compressDelimiterLoop2_eq, compressDelimiterLoop_refines]

/-! ## 2. `cut_str` -/

/-- the contract of `find_iter` for the regex bag of the option record (if any) -/
def BagOK (opt : Opt) : Prop := ∀ bag, opt.regexBag = Option.some bag → bag.OK

/-- `write_maybe_as_json!` over the library text = the macro of `Tuc.Model.CutStrLit`, whatever the
    alignment of the slice -/
theorem writeMaybeAsJsonLit2_eq (align : Bytes → Nat) (t : Bytes) (j : Bool) :
    writeMaybeAsJsonLit2 align t j = CutStrLit.writeMaybeAsJsonLit t j := by
  unfold writeMaybeAsJsonLit2 CutStrLit.writeMaybeAsJsonLit
  rw [LibLit.writeAsJsonLit_eq]

theorem maybeReplace2_eq (s : Bytes) (opt : Opt) (hok : BagOK opt) :
    (Res4.ofOutcome (RegexLit.maybeReplaceDelimiterLit s opt)).bind (fun cow => .ok cow.deref) =
      .ok (CutStrLit.maybeReplaceDelimiterLit s opt) := by
  have h := RegexLit.maybeReplaceDelimiterLit_refines s opt hok
  unfold RegexLit.omap at h
  cases hm : RegexLit.maybeReplaceDelimiterLit s opt with
  | ok cow => rw [hm] at h; simp only [Outcome.bind, Outcome.ok.injEq] at h; rw [← h]; rfl
  | panic => rw [hm] at h; cases h
  | hang => rw [hm] at h; cases h

theorem fieldOfRange2_eq (line : Bytes) (fields : List Range) (opt : Opt) (dar : Bool)
    (r : Nat × Nat) (hok : BagOK opt) :
    fieldOfRange2 line fields opt dar r =
      Res4.ofRes
        ((CutStrLit.indexRange fields r.1).bind fun fStart =>
         (BoundsLit.usizeSub r.2 1).bind fun rEndM1 =>
         (CutStrLit.indexRange fields rEndM1).bind fun fEnd =>
         (CutStrLit.sliceBytes line fStart.start fEnd.stop).bind fun s =>
         if dar then .ok s else .ok (CutStrLit.maybeReplaceDelimiterLit s opt)) := by
  unfold fieldOfRange2
  cases CutStrLit.indexRange fields r.1 with
  | fail => rfl
  | panic => rfl
  | ok fStart =>
    simp only [ofRes_ok, bind4_ok, BoundsLit.bind_ok]
    cases BoundsLit.usizeSub r.2 1 with
    | fail => rfl
    | panic => rfl
    | ok m =>
      simp only [ofRes_ok, bind4_ok, BoundsLit.bind_ok]
      cases CutStrLit.indexRange fields m with
      | fail => rfl
      | panic => rfl
      | ok fEnd =>
        simp only [ofRes_ok, bind4_ok, BoundsLit.bind_ok]
        cases CutStrLit.sliceBytes line fStart.start fEnd.stop with
        | fail => rfl
        | panic => rfl
        | ok s =>
          simp only [ofRes_ok, bind4_ok, BoundsLit.bind_ok]
          cases dar with
          | true => rfl
          | false =>
            simp only [Bool.false_eq_true, if_false]
            exact maybeReplace2_eq s opt hok

/-- l.416-434 with the literal `maybe_replace_delimiter` is l.416-434 of `Tuc.Model.CutStrLit` -/
theorem fieldToPrint2_eq (line : Bytes) (fields : List Range) (n : Nat) (opt : Opt) (dar : Bool)
    (b : UserBounds) (hok : BagOK opt) :
    fieldToPrint2 line fields n opt dar b = Res4.ofRes (CutStrLit.fieldToPrint line fields n opt dar b) := by
  unfold fieldToPrint2 CutStrLit.fieldToPrint
  generalize CutStrLit.resolve b n = x
  cases x with
  | panic => rfl
  | ok r => exact fieldOfRange2_eq line fields opt dar r hok
  | fail =>
    simp only []
    cases b.fallback with
    | some f => rfl
    | none => cases opt.fallbackOob <;> rfl

theorem outputClosure2_eq (align : Bytes → Nat) (line : Bytes) (fields : List Range) (n : Nat)
    (opt : Opt) (dar : Bool) (bof : BoF) (hok : BagOK opt) :
    outputClosure2 align line fields n opt dar bof = CutStrLit.outputClosure line fields n opt dar bof := by
  cases bof with
  | filler f => rfl
  | bound b =>
    unfold outputClosure2 CutStrLit.outputClosure
    simp only [fieldToPrint2_eq line fields n opt dar b hok, orStop4_ofRes, writeMaybeAsJsonLit2_eq]

theorem tryForEach2_eq (align : Bytes → Nat) (line : Bytes) (fields : List Range) (n : Nat)
    (opt : Opt) (dar : Bool) (hok : BagOK opt) : ∀ (l : List BoF),
    tryForEach2 align line fields n opt dar l = CutStrLit.tryForEach line fields n opt dar l
  | [] => rfl
  | bof :: t => by
    simp only [tryForEach2, CutStrLit.tryForEach, outputClosure2_eq align line fields n opt dar bof hok,
      tryForEach2_eq align line fields n opt dar hok t]

/-! ### the stages -/

/-- l.280-291: `trimLoop` / `trimRegexLit` for `trimLiteral` / `trimRegex` -/
theorem trimStage2_eq (line : Bytes) (opt : Opt) (hok : BagOK opt) :
    trimStage2 line opt = Res4.ofRes (CutStrLit.trimStage line opt) := by
  unfold trimStage2 CutStrLit.trimStage
  cases opt.trim with
  | none => rfl
  | some k =>
    simp only []
    cases hb : opt.regexBag with
    | none =>
      simp only [Option.isSome_none, Bool.false_eq_true, if_false, trimLoop_refines]
      rfl
    | some bag =>
      simp only [Option.isSome_some, if_true, CutStrLit.unwrap, ofRes_ok, bind4_ok, BoundsLit.bind_ok,
        (RegexLit.bag_refines bag (hok bag hb) line).1 k]
      rfl

/-- l.300-330 -/
theorem compressStage2_eq (line : Bytes) (opt : Opt) (buf : Bytes) (hok : BagOK opt) :
    compressStage2 line opt buf = Res4.ofRes (CutStrLit.compressStage line opt buf) := by
  unfold compressStage2 CutStrLit.compressStage
  simp only [Bool.and_true]
  by_cases hsc : (opt.compressDelimiter &&
      (decide (opt.boundsType = .fields) || decide (opt.boundsType = .lines))) = true
  · rw [if_pos hsc, if_pos hsc]
    cases hb : opt.regexBag with
    | none =>
      simp only [Option.isSome_none, Bool.false_eq_true, if_false, compressDelimiterLoop2_refines]
      rfl
    | some bag =>
      simp only [Option.isSome_some, if_true]
      cases opt.replaceDelimiter with
      | none => rfl
      | some nd =>
        simp only [CutStrLit.unwrap, ofRes_ok, bind4_ok, BoundsLit.bind_ok]
        have h := (RegexLit.bag_refines bag (hok bag hb) line).2.1 nd
        unfold RegexLit.omap at h
        cases hm : RegexLit.compressDelimiterWithRegexLit line bag.greedy nd with
        | ok cow =>
          rw [hm] at h
          simp only [Outcome.bind, Outcome.ok.injEq] at h
          simp only [ofOutcome_ok, bind4_ok, h]
        | panic => rw [hm] at h; cases h
        | hang => rw [hm] at h; cases h
  · rw [if_neg hsc, if_neg hsc]
    rfl

/-- l.332-355 (no hypothesis: `fill_with_fields_locations_using_regex` slices nothing) -/
theorem fieldsStage2_eq (loc : CutStrLit.Locals) (opt : Opt) (fields : List Range) :
    fieldsStage2 loc opt fields = Res4.ofRes (CutStrLit.fieldsStage loc opt fields) := by
  have hdrain : ∀ f : List Range,
      (if (decide (opt.boundsType = .characters) && decide (f.length > 2)) = true then
        Res4.ofRes (CutStrLit.drainTo f.dropLast 1) else Res4.ok f) =
      Res4.ofRes (if (decide (opt.boundsType = .characters) && decide (f.length > 2)) = true then
        CutStrLit.drainTo f.dropLast 1 else Res.ok f) := by
    intro f
    split <;> rfl
  unfold fieldsStage2 CutStrLit.fieldsStage
  cases loc.shouldBuildRangesUsingRegex with
  | true =>
    simp only [if_true]
    cases opt.regexBag with
    | none => rfl
    | some bag =>
      simp only [CutStrLit.unwrap, ofRes_ok, bind4_ok, BoundsLit.bind_ok,
        RegexLit.fillWithFieldsLocationsUsingRegexLit_refines, ofOutcome_ok]
      exact hdrain _
  | false =>
    simp only [Bool.false_eq_true, if_false]
    by_cases hg : opt.greedyDelimiter = true
    · simp only [hg, if_true, fillWithFieldsLocationsGreedyLoop2_refines, ofOutcome_ok, bind4_ok,
        BoundsLit.bind_ok]
      exact hdrain _
    · simp only [hg, if_false, fillWithFieldsLocationsLoop2_refines, ofOutcome_ok, bind4_ok,
        BoundsLit.bind_ok]
      exact hdrain _

/-! ### `complement`, `unpack` with the Rust integer types -/

theorem boundsOk_allInI32 {l : List BoF} (h : BoundsOk l) : BoundsListLit.AllInI32 l :=
  fun b hb => ⟨(h b hb).1, (h b hb).2.1⟩

/-- l.373: `UserBoundsList::complement` of `Tuc.Model.BoundsListLit` on the stored list is
    `complementList`, with fewer than 2³¹ fields -/
theorem complementLit_eq (bounds : UserBoundsList) (n : Nat) (hb : BoundsOk bounds.list)
    (hn : n < 2147483648) : complementLit bounds n = complementList bounds.list n :=
  BoundsListLit.complement_model bounds.list (boundsOk_allInI32 hb) hb.lnz _ n hn

/-- l.402: `UserBoundsList::unpack` likewise -/
theorem unpackLit_eq (bounds : UserBoundsList) (n : Nat) (hb : BoundsOk bounds.list)
    (hn : n < 2147483648) : unpackLit bounds n = unpackList bounds.list n :=
  BoundsListLit.unpack_model bounds.list (boundsOk_allInI32 hb) hb.lnz _ n hn

/-- **l.357-455**: with `i32` bounds, fewer than 2³¹ fields and a regex bag that honours the contract
    of `find_iter` the text with the statement-level callees is the text of `Tuc.Model.CutStrLit` -/
theorem emitStage2_eq (align : Bytes → Nat) (line : Bytes) (fields : List Range) (opt : Opt)
    (dar : Bool) (eol : Bytes) (hb : BoundsOk opt.bounds.list) (hn : fields.length < 2147483648)
    (hok : BagOK opt) :
    emitStage2 align line fields opt dar eol = CutStrLit.emitStage line fields opt dar eol := by
  unfold emitStage2 CutStrLit.emitStage
  simp only []
  by_cases h1 : (opt.onlyDelimited && fields.length == 1) = true
  · rw [if_pos h1, if_pos h1]
  · rw [if_neg h1, if_neg h1]
    congr 1
    rw [complementLit_eq opt.bounds fields.length hb hn]
    have hac : ∀ u, (if opt.complement = true then complementList opt.bounds.list fields.length
        else .ok opt.bounds) = .ok u → BoundsOk u.list := by
      intro u hu
      cases hc : opt.complement with
      | false =>
        rw [hc] at hu
        simp only [Bool.false_eq_true, if_false, Res.ok.injEq] at hu
        subst hu
        exact hb
      | true =>
        rw [hc, if_pos rfl] at hu
        exact (CutStrLitProps.complementList_boundsOk _ _ hn hb u hu).1
    generalize (if opt.complement = true then complementList opt.bounds.list fields.length
        else Res.ok opt.bounds) = ac at hac
    cases ac with
    | fail => rfl
    | panic => rfl
    | ok bounds =>
      have hb1 := hac bounds rfl
      simp only [CutStrLit.orStop]
      rw [unpackLit_eq bounds fields.length hb1 hn]
      simp only [tryForEach2_eq align line fields fields.length opt dar hok]

/-! ### `cut_str` -/

open CutStrLitProps (buffersAfter) in
/-- l.293-455 with the statement-level callees against the model's `afterTrim` (the proof of
    `CutStrLitProps.afterTrim_eq`, stage by stage) -/
theorem afterTrim2_eq (align : Bytes → Nat) (line : Bytes) (opt : Opt) (fields : List Range)
    (buf eol : Bytes) (hb : BoundsOk opt.bounds.list) (hok : BagOK opt)
    (hn : ∀ f, (afterTrim line opt eol).2.1 = Option.some f → f.length < 2147483648) :
    (if line.isEmpty then
        ((if !opt.onlyDelimited then Run.ok eol else Run.empty).seq Run.empty, fields, buf)
      else
        match compressStage2 line opt buf with
        | .fail => (Run.fail, fields, buf)
        | .panic => (Run.panic, fields, buf)
        | .hang => (Run.hang, fields, buf)
        | .ok loc =>
          match fieldsStage2 loc opt fields with
          | .fail => (Run.fail, fields, buf)
          | .panic => (Run.panic, fields, buf)
          | .hang => (Run.hang, fields, buf)
          | .ok fields =>
            (emitStage2 align loc.line fields opt loc.delimiterAlreadyReplaced eol,
              fields, loc.compressedLineBuf)) =
      buffersAfter (afterTrim line opt eol) fields buf := by
  rw [compressStage2_eq line opt buf hok]
  unfold afterTrim at hn ⊢
  by_cases he : line.isEmpty = true
  · rw [if_pos he, if_pos he, Run.seq_empty]; rfl
  · rw [if_neg he] at hn ⊢
    rw [if_neg he]
    simp only [] at hn ⊢
    unfold CutStrLit.compressStage
    simp only [Bool.and_true]
    by_cases hsc : (opt.compressDelimiter &&
        (decide (opt.boundsType = .fields) || decide (opt.boundsType = .lines))) = true
    · rw [if_pos hsc] at hn ⊢
      rw [if_pos hsc]
      cases hbag : opt.regexBag with
      | none =>
        rw [hbag] at hn
        simp only [Option.isSome_none, Bool.false_eq_true, if_false, ofRes_ok] at hn ⊢
        rw [fieldsStage2_eq, CutStrLitProps.fieldsStage_eq _ _ _ (by intro h; cases h)]
        simp only [ofRes_ok, buffersAfter, Option.getD_some,
          CutStrLitProps.compressDelimiter_buf line opt.delimiter buf]
        rw [emitStage2_eq _ _ _ _ _ _ hb (hn _ rfl) hok,
          CutStrLitProps.emitStage_eq _ _ _ _ _ hb (hn _ rfl) (CutStrLitProps.darOk_false opt)]
      | some bag =>
        rw [hbag] at hn
        simp only [Option.isSome_some, if_true] at hn ⊢
        cases hrd : opt.replaceDelimiter with
        | none => rfl
        | some nd =>
          rw [hrd] at hn
          simp only [CutStrLit.unwrap, BoundsLit.bind_ok, ofRes_ok] at hn ⊢
          rw [fieldsStage2_eq, CutStrLitProps.fieldsStage_eq _ _ _ (by intro h; cases h)]
          simp only [ofRes_ok, buffersAfter, Option.getD_some, Option.getD_none]
          rw [emitStage2_eq _ _ _ _ _ _ hb (hn _ rfl) hok,
            CutStrLitProps.emitStage_eq _ _ _ _ _ hb (hn _ rfl) (by intro _; left; rw [hbag]; rfl)]
    · rw [if_neg hsc] at hn ⊢
      rw [if_neg hsc]
      simp only [ofRes_ok] at hn ⊢
      rw [fieldsStage2_eq, CutStrLitProps.fieldsStage_eq _ _ _ (by intro h; exact h)]
      simp only [ofRes_ok, buffersAfter, Option.getD_some, Option.getD_none]
      rw [emitStage2_eq _ _ _ _ _ _ hb (hn _ rfl) hok,
        CutStrLitProps.emitStage_eq _ _ _ _ _ hb (hn _ rfl) (CutStrLitProps.darOk_false opt)]

/-- **`cut_str` with every callee at statement level** — `trim`, `trim_regex`,
    `compress_delimiter[_with_regex]`, the three `fill_with_fields_locations*` over the literal
    `memmem::FindIter` / the match list of the regex, `Regex::replace_all`, `UserBoundsList::complement` /
    `unpack` with `i32`s, `std::str::from_utf8` + `serde_json::to_string` — **is the normal-form `cutStr`**:
    bytes written, status and the two scratch buffers, for every record, every option record, any
    previous content of the buffers, any `eol`, any alignment of the slices, under the hypotheses
    of `CutStrLitProps.cutStrLit_eq` plus the contract of `find_iter` for the regex bag. -/
theorem cutStrLit2_eq_cutStr (align : Bytes → Nat) (line : Bytes) (opt : Opt) (fields : List Range)
    (compressedLineBuf eol : Bytes) (hb : BoundsOk opt.bounds.list) (hn : FieldsFit line opt)
    (hok : BagOK opt) :
    cutStrLit2 align line opt fields compressedLineBuf eol =
      cutStr line opt fields compressedLineBuf eol := by
  have hn : ∀ f, (cutStrCore line opt eol).2.1 = Option.some f → f.length < 2147483648 := by
    intro f hf
    rw [CutStrLitProps.cutStrCore_snd_eol line opt eol []] at hf
    exact hn f hf
  rw [CutStrLitProps.cutStr_eq_buffersAfter, cutStrCore_eq]
  rw [cutStrCore_eq] at hn
  unfold cutStrLit2
  by_cases h1 : (opt.regexBag.isSome && opt.compressDelimiter && opt.replaceDelimiter.isNone) = true
  · rw [if_pos h1, if_pos (by rw [← Bool.and_assoc]; exact h1)]; rfl
  · rw [if_neg h1, if_neg (by rw [← Bool.and_assoc]; exact h1)]
    rw [if_neg h1] at hn
    by_cases h2 : (opt.regexBag.isSome && opt.join && opt.replaceDelimiter.isNone) = true
    · rw [if_pos h2, if_pos (by rw [← Bool.and_assoc]; exact h2)]; rfl
    · rw [if_neg h2, if_neg (by rw [← Bool.and_assoc]; exact h2), trimStage2_eq line opt hok,
        CutStrLitProps.trimStage_eq]
      rw [if_neg h2] at hn
      exact afterTrim2_eq align (trimOf opt line) opt fields compressedLineBuf eol hb hok hn

/-- … hence the transcription of `Tuc.Model.CutStrLit` -/
theorem cutStrLit2_eq_cutStrLit (align : Bytes → Nat) (line : Bytes) (opt : Opt) (fields : List Range)
    (compressedLineBuf eol : Bytes) (hb : BoundsOk opt.bounds.list) (hn : FieldsFit line opt)
    (hok : BagOK opt) :
    cutStrLit2 align line opt fields compressedLineBuf eol =
      CutStrLit.cutStrLit line opt fields compressedLineBuf eol := by
  rw [cutStrLit2_eq_cutStr align line opt fields compressedLineBuf eol hb hn hok,
    CutStrLitProps.cutStrLit_eq line opt fields compressedLineBuf eol hb hn]

/-! ## 3. the engines -/

open StreamLoop (fillBuf consume memchr totalBytes fuelFor) in
open ReadLoops (Closure forByteRecordLoop readUntilLoop readToEndLoop stripSuffix foldRecords) in
/-- l.472-485 with `cutStrLit2` = the closure of `Tuc.Model.WholeLit`, on a record that
    `for_byte_record` hands out -/
theorem cutStrLitClosure2_eq (align : Bytes → Nat) (opt : Opt) (hb : BoundsOk opt.bounds.list)
    (hok : BagOK opt) (r : Bytes) (st : List Range × Bytes) (hr : opt.eol.byte ∉ r)
    (hn : FieldsFit r opt) :
    cutStrLitClosure2 align opt r st = WholeLit.cutStrLitClosure opt r st := by
  simp only [cutStrLitClosure2, WholeLit.cutStrLitClosure, ReadLoops.stripSuffix_not_mem r _ hr,
    Option.getD_none, cutStrLit2_eq_cutStrLit align r opt st.1 st.2 _ hb hn hok]

/-- **the general engine** -/
theorem readAndCutStrWhole2_eq (align : Bytes → Nat) (opt : Opt) (segs : List Bytes)
    (hb : BoundsOk opt.bounds.list) (hok : BagOK opt) (hsegs : ∀ s ∈ segs, s ≠ [])
    (hn : ∀ r ∈ records opt.eol.byte segs.flatten, FieldsFit r opt) :
    readAndCutStrWhole2 align opt segs = WholeLit.readAndCutStrWhole opt segs := by
  unfold readAndCutStrWhole2 WholeLit.readAndCutStrWhole
  simp only [ReadLoops.forByteRecordLoop_eq_records _ _ _ _ hsegs]
  rw [WholeLit.foldRecords_congr _ _ _ _ (fun r hr st =>
    cutStrLitClosure2_eq align opt hb hok r st (ReadLoops.records_not_mem _ _ r hr) (hn r hr))]

/-- **`cut_lines`** with core's UTF-8 validation and `cutStrLit2` -/
theorem cutLinesWhole2_eq (align : Bytes → Nat) (opt : Opt) (segs : List Bytes)
    (hb : BoundsOk opt.bounds.list) (hok : BagOK opt) (hsegs : ∀ s ∈ segs, s ≠ [])
    (hn : validUtf8 segs.flatten = true → FieldsFit (stripEol opt.eol.byte segs.flatten) opt) :
    cutLinesWhole2 align opt segs = WholeLit.cutLinesWhole opt segs := by
  unfold cutLinesWhole2 WholeLit.cutLinesWhole
  simp only [ReadLoops.readToEndLoop_spec _ _ _ _ hsegs (ReadLoops.totalBytes_lt_fuelFor segs),
    List.nil_append, LibLit.fromUtf8IsOk_eq]
  by_cases hv : validUtf8 segs.flatten = true
  · simp only [hv, Bool.not_true, Bool.false_eq_true, if_false,
      cutStrLit2_eq_cutStrLit align _ opt [] [] _ hb (hn hv) hok]
  · simp only [hv, Bool.not_false, if_true]

/-! ### `cut_lines_forward_only` -/

/-- `line_idx` is an `i32` -/
def LineIdxOk (v : LinesLoop.Vars) : Prop := -2147483648 ≤ v.lineIdx ∧ v.lineIdx ≤ 2147483647

/-- l.55: `UserBounds::matches` with `i32`s is the model's, for an `i32` line number -/
theorem matchesLit_eq (b : UserBounds) (idx : Int) (hb : BoundOk b)
    (h1 : -2147483648 ≤ idx) (h2 : idx ≤ 2147483647) :
    matchesLit b idx = BoundsLit.resOfOption (b.matches idx) :=
  BoundsLit.matches_model b idx hb.1 hb.2.1 h1 h2

theorem innerBody2_eq (opt : Opt) (line : Bytes) (v : LinesLoop.Vars) (hb : BoundsOk opt.bounds.list)
    (hv : LineIdxOk v) : innerBody2 opt line v = LinesLoop.innerBody opt line v := by
  unfold innerBody2 LinesLoop.innerBody
  cases hg : opt.bounds.list[v.boundsIdx]? with
  | none => rfl
  | some bof =>
    cases bof with
    | filler f => rfl
    | bound b =>
      have hbo : BoundOk b := hb b (List.mem_of_getElem? hg)
      simp only []
      cases hp : v.pastLastIndex with
      | true => rfl
      | false =>
        simp only [Bool.false_eq_true, if_false, matchesLit_eq b v.lineIdx hbo hv.1 hv.2]
        cases b.matches v.lineIdx with
        | none => rfl
        | some m => rfl

theorem innerBody_lineIdx (opt : Opt) (line : Bytes) (v : LinesLoop.Vars) :
    (LinesLoop.innerBody opt line v).2.1.lineIdx = v.lineIdx := by
  unfold LinesLoop.innerBody
  split
  · rfl
  · rfl
  · simp only []
    repeat' split
    all_goals rfl

theorem innerWhile2_eq (opt : Opt) (line : Bytes) (hb : BoundsOk opt.bounds.list) :
    ∀ (fuel : Nat) (v : LinesLoop.Vars), LineIdxOk v →
      innerWhile2 opt line fuel v = LinesLoop.innerWhile opt line fuel v
  | 0, _, _ => rfl
  | fuel + 1, v, hv => by
    have hv' : LineIdxOk (LinesLoop.innerBody opt line v).2.1 := by
      unfold LineIdxOk; rw [innerBody_lineIdx]; exact hv
    simp only [innerWhile2, LinesLoop.innerWhile, innerBody2_eq opt line v hb hv,
      innerWhile2_eq opt line hb fuel _ hv']

theorem innerWhile_lineIdx (opt : Opt) (line : Bytes) : ∀ (fuel : Nat) (v : LinesLoop.Vars),
    (LinesLoop.innerWhile opt line fuel v).2.lineIdx = v.lineIdx
  | 0, _ => rfl
  | fuel + 1, v => by
    simp only [LinesLoop.innerWhile]
    split
    · split
      · simp only [innerWhile_lineIdx opt line fuel, innerBody_lineIdx]
      · exact innerBody_lineIdx opt line v
    · rfl

theorem nextLine_ok (v : LinesLoop.Vars) (hv : LineIdxOk v) : LineIdxOk (LinesLoop.nextLine v) := by
  unfold LinesLoop.nextLine LinesLoop.i32CheckedAdd
  split
  · rename_i n h
    split at h
    · rename_i hr
      cases h
      unfold i32Min i32Max at hr
      exact hr
    · cases h
  · exact hv

/-- `read_line_with_eol` with core's UTF-8 validation -/
theorem readLineWithEolSeg2_eq (align : Bytes → Nat) (reader : List Bytes) (eol : EOL) :
    readLineWithEolSeg2 align reader eol = WholeLit.readLineWithEolSeg reader eol := by
  unfold readLineWithEolSeg2 WholeLit.readLineWithEolSeg
  cases eol with
  | newline =>
    simp only []
    cases ReadLoops.readUntilLoop 10 (StreamLoop.totalBytes reader + 1) reader [] 0 with
    | hang => rfl
    | panic => rfl
    | ok p =>
      obtain ⟨n, bytes, rd⟩ := p
      simp only [LibLit.fromUtf8IsOk_eq]
      cases validUtf8 bytes <;> rfl
  | zero =>
    simp only []
    cases ReadLoops.readUntilLoop EOL.zero.byte (StreamLoop.totalBytes reader + 1) reader [] 0 with
    | hang => rfl
    | panic => rfl
    | ok p =>
      obtain ⟨n, bytes, rd⟩ := p
      simp only [LibLit.fromUtf8IsOk_eq]
      cases validUtf8 bytes <;> rfl

theorem readWhileSeg2_eq (align : Bytes → Nat) (opt : Opt) (hb : BoundsOk opt.bounds.list) :
    ∀ (fuel : Nat) (segs : List Bytes) (v : LinesLoop.Vars), LineIdxOk v →
      readWhileSeg2 align opt fuel segs v = WholeLit.readWhileSeg opt fuel segs v
  | 0, _, _, _ => rfl
  | fuel + 1, segs, v, hv => by
    have hn := nextLine_ok v hv
    have hw : LineIdxOk (LinesLoop.innerWhile opt
        (stripEol opt.eol.byte []) (opt.bounds.list.length + 1) (LinesLoop.nextLine v)).2 := by
      unfold LineIdxOk; rw [innerWhile_lineIdx]; exact hn
    unfold readWhileSeg2 WholeLit.readWhileSeg
    rw [readLineWithEolSeg2_eq]
    cases WholeLit.readLineWithEolSeg segs opt.eol with
    | hang => rfl
    | panic => rfl
    | ok p =>
      obtain ⟨line, rest⟩ := p
      cases line with
      | none => rfl
      | someErr => rfl
      | someOk l =>
        have hw : LineIdxOk (LinesLoop.innerWhile opt
            (stripEol opt.eol.byte l) (opt.bounds.list.length + 1) (LinesLoop.nextLine v)).2 := by
          unfold LineIdxOk; rw [innerWhile_lineIdx]; exact hn
        simp only [innerWhile2_eq opt _ hb _ _ hn, readWhileSeg2_eq align opt hb fuel rest _ hw]

/-- **`cut_lines_forward_only`** with the machine-integer `matches` and core's UTF-8 validation -/
theorem cutLinesForwardOnlyWhole2_eq (align : Bytes → Nat) (opt : Opt) (segs : List Bytes)
    (hb : BoundsOk opt.bounds.list) :
    cutLinesForwardOnlyWhole2 align opt segs = WholeLit.cutLinesForwardOnlyWhole opt segs := by
  unfold cutLinesForwardOnlyWhole2 WholeLit.cutLinesForwardOnlyWhole
  have h0 : LineIdxOk { lineIdx := 0, pastLastIndex := false, boundsIdx := 0, addNewlineNext := false } := by
    unfold LineIdxOk; decide
  simp only [readWhileSeg2_eq align opt hb _ segs _ h0]

/-- `is_forward_only()` over `i32` sides and the two `PartialOrd` impls is `isForwardOnly` -/
theorem isForwardOnlyLit_eq (bounds : UserBoundsList) (hb : BoundsOk bounds.list) :
    isForwardOnlyLit bounds = .ok (isForwardOnly bounds.list) :=
  BoundsListLit.isForwardOnly_model bounds.list (boundsOk_allInI32 hb) _

/-- **`read_and_cut_lines`** -/
theorem readAndCutLinesWhole2_eq (align : Bytes → Nat) (opt : Opt) (segs : List Bytes)
    (hb : BoundsOk opt.bounds.list) (hok : BagOK opt) (hsegs : ∀ s ∈ segs, s ≠ [])
    (hn : (!opt.complement && !opt.compressDelimiter && isForwardOnly opt.bounds.list) = false →
      validUtf8 segs.flatten = true → FieldsFit (stripEol opt.eol.byte segs.flatten) opt) :
    readAndCutLinesWhole2 align opt segs = WholeLit.readAndCutLinesWhole opt segs := by
  unfold readAndCutLinesWhole2 WholeLit.readAndCutLinesWhole
  rw [isForwardOnlyLit_eq opt.bounds hb]
  have hcb : (if (!opt.complement && !opt.compressDelimiter) = true then Res.ok (isForwardOnly opt.bounds.list)
      else Res.ok false) = .ok (!opt.complement && !opt.compressDelimiter && isForwardOnly opt.bounds.list) := by
    cases (!opt.complement && !opt.compressDelimiter) <;> rfl
  rw [hcb]
  simp only [CutStrLit.orStop]
  by_cases hs : (!opt.complement && !opt.compressDelimiter && isForwardOnly opt.bounds.list) = true
  · simp only [hs, if_true, cutLinesForwardOnlyWhole2_eq align opt segs hb]
  · simp only [hs, Bool.false_eq_true, if_false]
    rw [cutLinesWhole2_eq align opt segs hb hok hsegs (hn (by simpa using hs))]

/-! ## 3b. `cut_bytes` with the machine-integer `try_into_range` -/

/-- one call of the closure of cut_bytes.rs:13-33: the machine-integer `try_into_range` is the model's
    (since its repair — `i64` arithmetic — for every input shorter than 2⁶³ bytes: every `Vec`) -/
theorem cutBytesBody2_eq_i64 (data : Bytes) (opt : Opt) (bof : BoF)
    (hb : ∀ b, bof = .bound b → BoundOk b) (hn : data.length < 9223372036854775808) :
    cutBytesBody2 data opt bof = ReadLoops.cutBytesBody data opt bof := by
  cases bof with
  | filler f => rfl
  | bound b =>
    obtain ⟨hl, hr, h0⟩ := hb b rfl
    unfold cutBytesBody2 ReadLoops.cutBytesBody
    simp only []
    rw [BoundsLit.tryIntoRange_model_i64 b data.length hl hr hn h0]
    cases b.tryIntoRange data.length with
    | none => rfl
    | some r => rfl

/-- the statement of before the repair (fewer than 2³¹ bytes of input) -/
theorem cutBytesBody2_eq (data : Bytes) (opt : Opt) (bof : BoF)
    (hb : ∀ b, bof = .bound b → BoundOk b) (hn : data.length < 2147483648) :
    cutBytesBody2 data opt bof = ReadLoops.cutBytesBody data opt bof :=
  cutBytesBody2_eq_i64 data opt bof hb (by omega)

theorem tryForEach_congr (f g : BoF → Run) : ∀ (l : List BoF), (∀ x ∈ l, f x = g x) →
    ReadLoops.tryForEach f l = ReadLoops.tryForEach g l
  | [], _ => rfl
  | x :: t, h => by
    simp only [ReadLoops.tryForEach, h x List.mem_cons_self,
      tryForEach_congr f g t (fun y hy => h y (List.mem_cons_of_mem _ hy))]

theorem cutBytesLit2_eq_i64 (data : Bytes) (opt : Opt) (hb : BoundsOk opt.bounds.list)
    (hn : data.length < 9223372036854775808) :
    cutBytesLit2 data opt = ReadLoops.cutBytesLit data opt := by
  unfold cutBytesLit2 ReadLoops.cutBytesLit
  rw [tryForEach_congr _ _ _ (fun x hx => cutBytesBody2_eq_i64 data opt x (fun b hbx => hb b (hbx ▸ hx)) hn)]

theorem cutBytesLit2_eq (data : Bytes) (opt : Opt) (hb : BoundsOk opt.bounds.list)
    (hn : data.length < 2147483648) :
    cutBytesLit2 data opt = ReadLoops.cutBytesLit data opt :=
  cutBytesLit2_eq_i64 data opt hb (by omega)

/-- **`-b`**: `read_and_cut_bytes` with the machine-integer `try_into_range`, on an input shorter
    than 2⁶³ bytes (every input that fits the `Vec` it is read into) -/
theorem readAndCutBytesLoop2_eq_i64 (opt : Opt) (segs : List Bytes) (hb : BoundsOk opt.bounds.list)
    (hsegs : ∀ s ∈ segs, s ≠ []) (hn : segs.flatten.length < 9223372036854775808) :
    readAndCutBytesLoop2 opt segs = ReadLoops.readAndCutBytesLoop opt segs := by
  unfold readAndCutBytesLoop2 ReadLoops.readAndCutBytesLoop
  simp only [ReadLoops.readBytesToEndLit_eq segs [] hsegs, cutBytesLit2_eq_i64 _ opt hb hn]

/-- the statement of before the repair of `try_into_range` (an input shorter than 2³¹ bytes), kept
    for `inputFits2B` -/
theorem readAndCutBytesLoop2_eq (opt : Opt) (segs : List Bytes) (hb : BoundsOk opt.bounds.list)
    (hsegs : ∀ s ∈ segs, s ≠ []) (hn : segs.flatten.length < 2147483648) :
    readAndCutBytesLoop2 opt segs = ReadLoops.readAndCutBytesLoop opt segs :=
  readAndCutBytesLoop2_eq_i64 opt segs hb hsegs (by omega)

/-! ## 3c. the fast lane with the machine-integer `try_into_range` -/

/-- **the number of parts of a record fits `parts_length as i32`** (userbounds.rs:221, reached from
    fast_lane.rs:103 with `fields.len() - 1`): the record has fewer than 2³¹ − 1 delimiters (`n` of
    them), or the scan stops early at a positive `i32` field -/
def PartsFit (lif : Side) (n : Nat) : Prop :=
  n + 1 < 2147483648 ∨ ∃ k, lif = .some k ∧ 0 < k ∧ k ≤ i32Max

def partsFitB (lif : Side) (n : Nat) : Bool :=
  decide (n + 1 < 2147483648) ||
    match lif with
    | .some k => decide (0 < k) && decide (k ≤ i32Max)
    | .cont => false

theorem partsFitB_iff (lif : Side) (n : Nat) : partsFitB lif n = true ↔ PartsFit lif n := by
  unfold partsFitB PartsFit
  cases lif with
  | cont => simp
  | some k => simp

theorem PartsFit.mono {lif : Side} {m n : Nat} (h : PartsFit lif n) (hmn : m ≤ n) : PartsFit lif m := by
  rcases h with h | h
  · left; omega
  · right; exact h

theorem outputOf2_eq (line : Bytes) (b : UserBounds) (fields : List Nat) (opt : FastOpt)
    (r : Option (Nat × Nat)) :
    outputOf2 line b fields opt (BoundsLit.resOfOption r) = FastLoop.outputOf line b fields opt r := by
  cases r with
  | none => rfl
  | some p => rfl

/-- `output_parts` (fast_lane.rs:94-126): any number of parts below 2⁶³ since the repair of
    `try_into_range` -/
theorem outputPartsLit2_eq_i64 (line : Bytes) (b : UserBounds) (fields : List Nat) (opt : FastOpt)
    (hb : BoundOk b) (hn : fields.length - 1 < 9223372036854775808) :
    outputPartsLit2 line b fields opt = FastLoop.outputPartsLit line b fields opt := by
  obtain ⟨hl, hr, h0⟩ := hb
  unfold outputPartsLit2 FastLoop.outputPartsLit
  unfold checkedSub
  by_cases h1 : 1 ≤ fields.length
  · rw [if_pos h1]
    simp only [FastLoop.orPanic]
    rw [BoundsLit.tryIntoRange_model_i64 b _ hl hr hn h0, outputOf2_eq]
    generalize FastLoop.outputOf line b fields opt _ = o
    cases o with
    | ok a => cases a <;> rfl
    | panic => rfl
    | hang => rfl
  · rw [if_neg h1]
    rfl

/-- the statement of before the repair (fewer than 2³¹ parts) -/
theorem outputPartsLit2_eq (line : Bytes) (b : UserBounds) (fields : List Nat) (opt : FastOpt)
    (hb : BoundOk b) (hn : fields.length - 1 < 2147483648) :
    outputPartsLit2 line b fields opt = FastLoop.outputPartsLit line b fields opt :=
  outputPartsLit2_eq_i64 line b fields opt hb (by omega)

theorem fastTryForEach2_eq (buffer : Bytes) (fields : List Nat) (opt : FastOpt)
    (hn : fields.length - 1 < 2147483648) : ∀ (l : List BoF), BoundsOk l →
    fastTryForEach2 buffer fields opt l = FastLoop.tryForEach buffer fields opt l
  | [], _ => rfl
  | bof :: t, hb => by
    have ht := fastTryForEach2_eq buffer fields opt hn t (fun b h => hb b (List.mem_cons_of_mem _ h))
    cases bof with
    | filler f => simp only [fastTryForEach2, FastLoop.tryForEach, fastTryForEachBody2, FastLoop.tryForEachBody, ht]
    | bound b =>
      simp only [fastTryForEach2, FastLoop.tryForEach, fastTryForEachBody2, FastLoop.tryForEachBody, ht,
        outputPartsLit2_eq buffer b fields opt (hb b List.mem_cons_self) hn]

/-- what the `for` loop of l.51-60 leaves: one entry of `fields` per counted delimiter, at most one
    count per item of the iterator, and never beyond a positive `last_interesting_field` -/
theorem scanFor_inv (lif : Side) : ∀ (iter : List Nat) (cf : Int) (fields : List Nat) (st : Int × List Nat),
    FastLoop.scanFor lif iter cf fields = .ok st →
      (st.2.length : Int) = fields.length + (st.1 - cf) ∧ cf ≤ st.1 ∧ st.1 ≤ cf + iter.length ∧
      (∀ k, lif = .some k → cf < k → st.1 ≤ k)
  | [], cf, fields, st, h => by
    simp only [FastLoop.scanFor, Outcome.ok.injEq] at h
    subst h
    refine ⟨by simp, Int.le_refl _, by simp, fun k _ hk => Int.le_of_lt hk⟩
  | i :: iter, cf, fields, st, h => by
    simp only [FastLoop.scanFor, FastLoop.scanBody, FastLoop.checkedAddI32] at h
    by_cases hr : i32Min ≤ cf + 1 ∧ cf + 1 ≤ i32Max
    · rw [if_pos hr] at h
      simp only [Outcome.bind] at h
      by_cases hs : Side.some (cf + 1) = lif
      · rw [if_pos hs] at h
        simp only [if_true, Outcome.ok.injEq] at h
        subst h
        simp only [push, List.length_append, List.length_cons, List.length_nil]
        refine ⟨by omega, by omega, by omega, ?_⟩
        intro k hk hlt
        rw [hk] at hs
        cases hs
        exact Int.le_refl _
      · rw [if_neg hs] at h
        simp only [Bool.false_eq_true, if_false] at h
        obtain ⟨h1, h2, h3, h4⟩ := scanFor_inv lif iter (cf + 1) (push fields (i + 1)) st h
        simp only [push, List.length_append, List.length_cons, List.length_nil] at h1
        simp only [List.length_cons]
        refine ⟨by omega, by omega, by omega, ?_⟩
        intro k hk hlt
        apply h4 k hk
        have : cf + 1 ≠ k := by
          intro e; apply hs; rw [hk, e]
        omega
    · rw [if_neg hr] at h
      simp only [Outcome.bind] at h
      cases h

/-- l.62-90 -/
theorem afterScan2_eq (buffer : Bytes) (opt : FastOpt) (lif : Side) (st : Int × List Nat)
    (hb : BoundsOk opt.bounds.list)
    (hn : (if Side.some st.1 ≠ lif then st.2.length + 1 else st.2.length) - 1 < 2147483648) :
    afterScan2 buffer opt lif st = FastLoop.afterScan buffer opt lif st := by
  unfold afterScan2 FastLoop.afterScan
  simp only []
  by_cases h1 : (st.1 == 0 && opt.onlyDelimited) = true
  · rw [if_pos h1, if_pos h1]
  · rw [if_neg h1, if_neg h1]
    rw [fastTryForEach2_eq buffer _ opt ?_ _ hb]
    by_cases hs : Side.some st.1 ≠ lif
    · rw [if_pos hs] at hn ⊢
      simpa only [push, List.length_append, List.length_cons, List.length_nil] using hn
    · rw [if_neg hs] at hn ⊢
      exact hn

theorem memchrIterFrom_length (d : UInt8) : ∀ (l : Bytes) (i : Nat),
    (FastLoop.memchrIterFrom d i l).length = l.count d
  | [], _ => rfl
  | c :: t, i => by
    by_cases hc : c = d
    · subst hc
      rw [FastLoop.memchrIterFrom, if_pos rfl, List.length_cons, memchrIterFrom_length c t,
        List.count_cons_self]
    · rw [FastLoop.memchrIterFrom, if_neg hc, memchrIterFrom_length d t, List.count_cons_of_ne hc]

theorem count_trimStartWith_le (d : UInt8) : ∀ l : Bytes, (FastLoop.trimStartWith d l).count d ≤ l.count d
  | [] => Nat.le_refl _
  | c :: t => by
    by_cases hc : c = d
    · rw [FastLoop.trimStartWith, if_pos hc, hc, List.count_cons_self]
      exact Nat.le_succ_of_le (count_trimStartWith_le d t)
    · rw [FastLoop.trimStartWith, if_neg hc]
      exact Nat.le_refl _

theorem count_trimEndWith_le (d : UInt8) (l : Bytes) : (FastLoop.trimEndWith d l).count d ≤ l.count d := by
  unfold FastLoop.trimEndWith
  rw [List.count_reverse]
  have := count_trimStartWith_le d l.reverse
  rwa [List.count_reverse] at this

/-- trimming removes delimiters only -/
theorem count_trim_le (buffer : Bytes) (k : Trim) (d : UInt8) :
    (FastLoop.trim buffer k d).count d ≤ buffer.count d := by
  cases k with
  | both => exact Nat.le_trans (count_trimEndWith_le d _) (count_trimStartWith_le d _)
  | left => exact count_trimStartWith_le d _
  | right => exact count_trimEndWith_le d _

/-- **`cut_str_fast_lane` with the machine-integer `try_into_range`** is the transcription of
    `Tuc.Model.FastLoop`: every record, every `FastOpt` with `i32` bounds, every
    `last_interesting_field`, any previous content of `fields`, when the number of parts fits
    (`PartsFit` on the number of delimiter bytes of the record) -/
theorem cutStrFastLaneLoop2_eq (initialBuffer : Bytes) (opt : FastOpt) (fields : List Nat) (lif : Side)
    (hb : BoundsOk opt.bounds.list) (hfit : PartsFit lif (initialBuffer.count opt.delimiter)) :
    cutStrFastLaneLoop2 initialBuffer opt fields lif = cutStrFastLaneLoop initialBuffer opt fields lif := by
  have core : ∀ buffer : Bytes, PartsFit lif (buffer.count opt.delimiter) → ∀ st,
      FastLoop.scanFor lif (FastLoop.memchrIter opt.delimiter buffer) 0 (push (clear fields) 0) = .ok st →
      afterScan2 buffer opt lif st = FastLoop.afterScan buffer opt lif st := by
    intro buffer hfit' st hsc
    apply afterScan2_eq buffer opt lif st hb
    obtain ⟨h1, h2, h3, h4⟩ := scanFor_inv lif _ _ _ st hsc
    have hlen : (FastLoop.memchrIter opt.delimiter buffer).length = buffer.count opt.delimiter :=
      memchrIterFrom_length _ _ _
    rw [hlen] at h3
    simp only [push, clear, List.nil_append, List.length_cons, List.length_nil] at h1
    rcases hfit' with hf | ⟨k, hk, hk0, hk1⟩
    · split <;> omega
    · have := h4 k hk hk0
      unfold i32Max at hk1
      by_cases hs : Side.some st.1 ≠ lif
      · rw [if_pos hs]
        have : st.1 ≠ k := by intro e; apply hs; rw [hk, e]
        omega
      · rw [if_neg hs]
        omega
  unfold cutStrFastLaneLoop2 cutStrFastLaneLoop
  cases opt.trim with
  | none =>
    simp only []
    by_cases he : initialBuffer.isEmpty = true
    · rw [if_pos he, if_pos he]
    · rw [if_neg he, if_neg he]
      cases hsc : FastLoop.scanFor lif (FastLoop.memchrIter opt.delimiter initialBuffer) 0
          (push (clear fields) 0) with
      | panic => rfl
      | hang => rfl
      | ok st => exact core _ hfit st hsc
  | some k =>
    simp only []
    have hfit' := hfit.mono (count_trim_le initialBuffer k opt.delimiter)
    generalize FastLoop.trim initialBuffer k opt.delimiter = buffer at hfit' ⊢
    by_cases he : buffer.isEmpty = true
    · rw [if_pos he, if_pos he]
    · rw [if_neg he, if_neg he]
      cases hsc : FastLoop.scanFor lif (FastLoop.memchrIter opt.delimiter buffer) 0
          (push (clear fields) 0) with
      | panic => rfl
      | hang => rfl
      | ok st => exact core _ hfit' st hsc

open ReadLoops (foldRecords) in
/-- **the fast lane** -/
theorem readAndCutTextAsBytesWhole2_eq (opt : FastOpt) (segs : List Bytes) (hb : BoundsOk opt.bounds.list)
    (hsegs : ∀ s ∈ segs, s ≠ [])
    (hfit : ∀ r ∈ records opt.eol.byte segs.flatten,
      PartsFit opt.bounds.lastInteresting (r.count opt.delimiter)) :
    readAndCutTextAsBytesWhole2 opt segs = WholeLit.readAndCutTextAsBytesWhole opt segs := by
  unfold readAndCutTextAsBytesWhole2 WholeLit.readAndCutTextAsBytesWhole
  simp only [ReadLoops.forByteRecordLoop_eq_records _ _ _ _ hsegs]
  rw [WholeLit.foldRecords_congr (fastLaneClosure2 opt opt.bounds.lastInteresting)
    (WholeLit.fastLaneClosure opt opt.bounds.lastInteresting) _ _ (fun r hr st => by
      simp only [fastLaneClosure2, WholeLit.fastLaneClosure,
        cutStrFastLaneLoop2_eq r opt st _ hb (hfit r hr)])]
  cases opt.eol <;> rfl

/-! ## 3d. `-M`: `cut_bytes_stream` calling the statement-level `print_bof` -/

section Stream
open StreamLoop OptLit

/-- the positions an ascending iterator still has to yield, all at or after `lo` -/
def Asc : Nat → List Nat → Prop
  | _, [] => True
  | lo, x :: t => lo ≤ x ∧ Asc (x + 1) t

theorem Asc.weaken : ∀ {iter : List Nat} {lo lo' : Nat}, lo' ≤ lo → Asc lo iter → Asc lo' iter
  | [], _, _, _, _ => trivial
  | _ :: _, _, _, h, ⟨h1, h2⟩ => ⟨Nat.le_trans h h1, h2⟩

theorem memchr2IterFrom_asc (n1 n2 : UInt8) : ∀ (l : Bytes) (i : Nat), Asc i (memchr2IterFrom n1 n2 i l)
  | [], _ => trivial
  | c :: t, i => by
    unfold memchr2IterFrom
    split
    · exact ⟨Nat.le_refl _, memchr2IterFrom_asc n1 n2 t (i + 1)⟩
    · exact (memchr2IterFrom_asc n1 n2 t (i + 1)).weaken (Nat.le_succ _)

variable (s : StreamOptLit) (lif : Side) (hneg : hasNegativeIndices s.bounds.list.list = false)

include hneg in
/-- l.312-365 -/
theorem forBody2_eq (chunk : Bytes) (idx : Nat) (v : Vars) (hk : 1 ≤ v.currField)
    (hc : v.chunkPartStartIdx ≤ idx) :
    forBody2 s lif chunk idx v = forBody (s.toModel lif) chunk idx v := by
  unfold forBody2 forBody
  cases hg : chunk[idx]? with
  | none => rfl
  | some c =>
    have hlt : idx < chunk.length := (List.getElem?_eq_some_iff.mp hg).1
    simp only []
    rw [printBofLit_eq_of_noNeg s lif v.bofIdx v.currField chunk v.chunkPartStartIdx idx
      v.prevChunkMayBeTruncated true ⟨hc, Nat.le_of_lt hlt⟩ hneg hk]
    simp only [printFillerOrFallbacksOf_eq s lif]
    rfl

theorem forBody_cps (o : StreamOpt) (chunk : Bytes) (idx : Nat) (v : Vars)
    (h : v.chunkPartStartIdx ≤ chunk.length) :
    (forBody o chunk idx v).2.1.chunkPartStartIdx ≤ chunk.length ∧
      ((forBody o chunk idx v).2.2 = false → (forBody o chunk idx v).2.1.chunkPartStartIdx = idx + 1) := by
  unfold forBody
  cases hg : chunk[idx]? with
  | none => exact ⟨h, fun e => by cases e⟩
  | some c =>
    have hlt : idx < chunk.length := (List.getElem?_eq_some_iff.mp hg).1
    simp only []
    repeat' split
    all_goals first
      | exact ⟨hlt, fun _ => rfl⟩
      | exact ⟨h, fun e => Bool.noConfusion e⟩
      | exact ⟨hlt, fun e => Bool.noConfusion e⟩

include hneg in
theorem forLoop2_eq (chunk : Bytes) : ∀ (iter : List Nat) (v : Vars), 1 ≤ v.currField →
    v.chunkPartStartIdx ≤ chunk.length → Asc v.chunkPartStartIdx iter →
    forLoop2 s lif chunk iter v = forLoop (s.toModel lif) chunk iter v
  | [], _, _, _, _ => rfl
  | idx :: iter, v, hk, hl, ⟨h1, h2⟩ => by
    unfold forLoop2 forLoop
    rw [forBody2_eq s lif hneg chunk idx v hk h1]
    simp only []
    by_cases hb : (forBody (s.toModel lif) chunk idx v).2.2 = true
    · rw [if_pos hb, if_pos hb]
    · rw [if_neg hb, if_neg hb]
      have hc := forBody_cps (s.toModel lif) chunk idx v hl
      rw [forLoop2_eq chunk iter _ (Int.le_trans hk (forBody_currField _ chunk idx v)) hc.1
        (by rw [hc.2 (by simpa using hb)]; exact h2)]

theorem forLoop_cps (o : StreamOpt) (chunk : Bytes) : ∀ (iter : List Nat) (v : Vars),
    v.chunkPartStartIdx ≤ chunk.length → (forLoop o chunk iter v).2.chunkPartStartIdx ≤ chunk.length
  | [], _, h => h
  | idx :: iter, v, h => by
    unfold forLoop
    simp only []
    split
    · exact (forBody_cps o chunk idx v h).1
    · exact forLoop_cps o chunk iter _ (forBody_cps o chunk idx v h).1

include hneg in
/-- l.367-388 -/
theorem remainingData2_eq (chunk : Bytes) (v : Vars) (hk : 1 ≤ v.currField)
    (hc : v.chunkPartStartIdx ≤ chunk.length) :
    remainingData2 s chunk v = remainingData (s.toModel lif) chunk v := by
  unfold remainingData2 remainingData
  simp only []
  rw [printBofLit_eq_of_noNeg s lif v.bofIdx v.currField chunk v.chunkPartStartIdx chunk.length
    v.prevChunkMayBeTruncated false ⟨hc, Nat.le_refl _⟩ hneg hk]

include hneg in
/-- l.305-388 -/
theorem chunkBody2_eq (chunk : Bytes) (v : Vars) (hk : 1 ≤ v.currField) :
    chunkBody2 s lif chunk v = chunkBody (s.toModel lif) chunk v := by
  unfold chunkBody2 chunkBody
  simp only []
  have hl := forLoop2_eq s lif hneg chunk (memchr2Iter s.delimiter s.eol.byte chunk)
    { v with emptyLine := false, chunkPartStartIdx := 0, bytesToConsume := 0 } hk (Nat.zero_le _)
    (memchr2IterFrom_asc _ _ chunk 0)
  have hm : memchr2Iter (s.toModel lif).delimiter (s.toModel lif).eol.byte chunk =
    memchr2Iter s.delimiter s.eol.byte chunk := rfl
  rw [hm, hl]
  rw [remainingData2_eq s lif hneg chunk
    (forLoop (s.toModel lif) chunk (memchr2Iter s.delimiter s.eol.byte chunk)
      { v with emptyLine := false, chunkPartStartIdx := 0, bytesToConsume := 0 }).2
    (Int.le_trans hk (forLoop_currField (s.toModel lif) chunk _
      { v with emptyLine := false, chunkPartStartIdx := 0, bytesToConsume := 0 }))
    (forLoop_cps (s.toModel lif) chunk _
      { v with emptyLine := false, chunkPartStartIdx := 0, bytesToConsume := 0 } (Nat.zero_le _))]

include hneg in
theorem whileStep2_eq (stdin : List Bytes) (v : Vars) (hk : 1 ≤ v.currField) :
    whileStep2 s lif stdin v = whileStep (s.toModel lif) stdin v := by
  unfold whileStep2 whileStep
  simp only [chunkBody2_eq s lif hneg _ v hk]

include hneg in
/-- l.395-417 -/
theorem afterNewChunk2_eq (v : Vars) (hk : 1 ≤ v.currField) :
    afterNewChunk2 s v = afterNewChunk (s.toModel lif) v := by
  unfold afterNewChunk2 afterNewChunk
  simp only []
  rw [printBofLit_eq_of_noNeg s lif v.bofIdx v.currField [] 0 0 v.prevChunkMayBeTruncated true
    ⟨Nat.le_refl _, Nat.le_refl _⟩ hneg hk]
  simp only [printFillerOrFallbacksOf_eq s lif]
  rfl

theorem whileStep_currField (o : StreamOpt) (stdin : List Bytes) (v : Vars) (hk : 1 ≤ v.currField) :
    (∀ r s' v', whileStep o stdin v = .again r s' v' → 1 ≤ v'.currField) ∧
    (∀ v', whileStep o stdin v = .leave v' → 1 ≤ v'.currField) := by
  unfold whileStep
  split
  · simp only []
    split
    · constructor
      · intro r s' v' h; cases h
      · intro v' h
        cases h
        split <;> exact hk
    · constructor
      · intro r s' v' h
        cases h
        exact Int.le_trans hk (chunkBody_currField o _ v)
      · intro v' h; cases h
  · constructor
    · intro r s' v' h; cases h
    · intro v' h; cases h; exact hk

include hneg in
/-- the two loops (l.287-418), from any state with `curr_field ≥ 1` and with any fuel -/
theorem newChunk2_eq : ∀ (fuel : Nat) (stdin : List Bytes) (v : Vars), 1 ≤ v.currField →
    newChunk2 s lif fuel stdin v = newChunk (s.toModel lif) fuel stdin v
  | 0, _, _, _ => rfl
  | fuel + 1, stdin, v, hk => by
    unfold newChunk2 newChunk
    rw [whileStep2_eq s lif hneg stdin v hk]
    have hcf := whileStep_currField (s.toModel lif) stdin v hk
    cases hw : whileStep (s.toModel lif) stdin v with
    | again r s' v' =>
      simp only []
      rw [newChunk2_eq fuel s' v' (hcf.1 r s' v' hw)]
    | leave v' =>
      simp only []
      rw [afterNewChunk2_eq s lif hneg v' (hcf.2 v' hw),
        newChunk2_eq fuel stdin (newLineVars v'.eof) (show (1 : Int) ≤ 1 from Int.le_refl _)]

include hneg in
/-- **`cut_bytes_stream` with the statement-level `print_bof`** is the transcription of
    `Tuc.Model.StreamLoop`, for every option record without negative indexes, every reader -/
theorem cutBytesStreamLoop2_eq (segs : List Bytes) :
    cutBytesStreamLoop2 s lif segs = cutBytesStreamLoop (s.toModel lif) segs := by
  unfold cutBytesStreamLoop2 cutBytesStreamLoop
  exact newChunk2_eq s lif hneg _ segs _ (show (1 : Int) ≤ 1 from Int.le_refl _)

end Stream

/-- **`-M`**: for everything `StreamOpt::try_from` accepts -/
theorem readAndCutBytesStreamWhole2_eq (o : Opt) (s : OptLit.StreamOptLit)
    (h : OptLit.StreamOptLit.tryFrom o = .ok s) (segs : List Bytes) :
    readAndCutBytesStreamWhole2 s segs = WholeLit.readAndCutBytesStreamWhole s segs := by
  obtain ⟨_, _, _, b, _, hso⟩ := OptLit.StreamOptLit.tryFrom_ok o s h
  have hneg : hasNegativeIndices s.bounds.list.list = false := StreamLoop.streamOptOf_noNeg o _ hso
  unfold readAndCutBytesStreamWhole2 WholeLit.readAndCutBytesStreamWhole
  cases s.bounds.getLastBound with
  | none => rfl
  | some b => simp only [cutBytesStreamLoop2_eq s b.r hneg segs]

/-! ## 4. `parse_args` -/

/-- `UserBoundsList::from_str` at statement level is `boundsListOfString`, on every string -/
theorem boundsArg2_eq : boundsArg2 = boundsArg := by
  funext a
  exact BoundsListLit.fromStrLit_toModel a

theorem parseWith2_eq {σ : Type} (ops : Ops σ) (regexOk : Arg → Bool) :
    parseWith2 ops regexOk = parseWith ops regexOk := by
  unfold parseWith2 parseWith
  rw [boundsArg2_eq]
  rfl

/-- **`parse_args` with the statement-level bounds parser is `parseArgv`**, for every argument vector -/
theorem parseArgv2_eq (regexOk : Arg → Bool) (argv : List Arg) :
    parseArgv2 regexOk argv = parseArgv regexOk argv := by
  unfold parseArgv2 parseArgv
  rw [parseWith2_eq]

/-! ## 5. the dispatch of `main`, the program -/

open WholeLit (engineFitsB inputFitsB programFitsB InDomain engineFitsB_reads engineFitsB_input)

/-- **what the machine-integer `try_into_range` of `cut_bytes` and of the fast lane needs of the
    input, in addition to `WholeLit.inputFitsB`** (the same cast `parts_length as i32`,
    userbounds.rs:221, that `FieldsFit` is about in the general engine):

    * `-b`: the input is shorter than 2³¹ bytes (`cut_bytes` calls `try_into_range(data.len())`);
    * fast lane: on every record the number of parts fits (`PartsFit`: fewer than 2³¹ − 1 delimiter
      bytes, or the scan stops early at the last interesting field);
    * `-M`, `-l`, the general engine: nothing more. -/
def inputFits2B (opt : Opt) (input : Bytes) : Bool :=
  if opt.fixedMemory.isSome then true
  else if opt.boundsType = .bytes then decide (input.length < 2147483648)
  else if opt.boundsType = .lines then true
  else
    match OptLit.FastOptLit.tryFrom opt with
    | .ok fastOpt =>
      (records fastOpt.eol.byte input).all fun r =>
        partsFitB fastOpt.bounds.lastInteresting (r.count fastOpt.delimiter)
    | .fail => true
    | .panic => true

/-- **the domain of `tucProgramLit2_eq`**: `WholeLit.programFitsB`, and `inputFits2B` when an engine runs -/
def programFits2B (regexOk : Arg → Bool) (argv : List Arg) (segs : List Bytes) : Bool :=
  programFitsB regexOk argv segs &&
    match parseArgv regexOk argv with
    | .run o _ regexText =>
      match compileBag o regexText with
      | Option.some bag =>
        (o.boundsType = .characters && !validUtf8 segs.flatten)
          || inputFits2B { o with regexBag := bag } segs.flatten
      | Option.none => true
    | _ => true

/-- … as a proposition -/
def InDomain2 (regexOk : Arg → Bool) (argv : List Arg) (segs : List Bytes) : Prop :=
  programFits2B regexOk argv segs = true

instance (regexOk : Arg → Bool) (argv : List Arg) (segs : List Bytes) : Decidable (InDomain2 regexOk argv segs) :=
  inferInstanceAs (Decidable (_ = true))

theorem InDomain2.inDomain {regexOk : Arg → Bool} {argv : List Arg} {segs : List Bytes}
    (h : InDomain2 regexOk argv segs) : InDomain regexOk argv segs := by
  unfold InDomain2 programFits2B at h
  rw [Bool.and_eq_true] at h
  exact h.1

theorem fastOptLit_bounds {o : Opt} {fo : FastOpt} (h : OptLit.FastOptLit.tryFrom o = .ok fo) :
    fo.bounds = o.bounds := by
  rw [OptLit.FastOptLit.tryFrom_eq] at h
  cases hf : fastOptOf o with
  | none => rw [hf] at h; cases h
  | some fo' =>
    rw [hf] at h
    simp only [BoundsLit.resOfOption, Res.ok.injEq] at h
    subst h
    exact fastOptOf_bounds hf

theorem dispatchWhole2_eq (align : Bytes → Nat) (opt : Opt) (segs : List Bytes)
    (hb : BoundsOk opt.bounds.list) (hok : BagOK opt) (hfit : engineFitsB opt segs = true)
    (hin2 : inputFits2B opt segs.flatten = true) :
    dispatchWhole2 align opt segs = WholeLit.dispatchWhole opt segs := by
  have hsegs := engineFitsB_reads hfit
  have hin := engineFitsB_input hfit
  unfold dispatchWhole2 WholeLit.dispatchWhole
  unfold inputFitsB at hin
  unfold inputFits2B at hin2
  by_cases hfm : opt.fixedMemory.isSome = true
  · simp only [hfm, if_true]
    cases ht : OptLit.StreamOptLit.tryFrom opt with
    | ok s => simp only [readAndCutBytesStreamWhole2_eq opt s ht segs]
    | fail => rfl
    | panic => rfl
  · simp only [hfm, Bool.false_eq_true, if_false] at hin hin2 ⊢
    by_cases h1 : opt.boundsType = .bytes
    · simp only [h1, if_true, decide_eq_true_eq] at hin2 ⊢
      rw [readAndCutBytesLoop2_eq opt segs hb hsegs hin2]
    · simp only [h1, if_false] at hin hin2 ⊢
      by_cases h2 : opt.boundsType = .lines
      · simp only [h2, if_true] at hin ⊢
        rw [readAndCutLinesWhole2_eq align opt segs hb hok hsegs]
        intro hs hv
        simp only [hs, hv, Bool.not_true, Bool.false_or] at hin
        exact (CutStrLitProps.fieldsFit_iff _ _).mp hin
      · simp only [h2, if_false] at hin hin2 ⊢
        cases ht : OptLit.FastOptLit.tryFrom opt with
        | ok fo =>
          simp only [ht, List.all_eq_true, partsFitB_iff] at hin2
          simp only []
          rw [readAndCutTextAsBytesWhole2_eq fo segs (by rw [fastOptLit_bounds ht]; exact hb) hsegs hin2]
        | fail =>
          simp only [ht, List.all_eq_true, CutStrLitProps.fieldsFit_iff] at hin
          simp only [readAndCutStrWhole2_eq align opt segs hb hok hsegs hin]
        | panic => rfl

theorem tucRunWhole2_eq (align : Bytes → Nat) (o : Opt) (regexText : Option Arg) (segs : List Bytes)
    (hb : BoundsOk o.bounds.list)
    (hfit : ∀ bag, compileBag o regexText = Option.some bag →
      ((o.boundsType = .characters && !validUtf8 segs.flatten)
        || engineFitsB { o with regexBag := bag } segs) = true)
    (hfit2 : ∀ bag, compileBag o regexText = Option.some bag →
      ((o.boundsType = .characters && !validUtf8 segs.flatten)
        || inputFits2B { o with regexBag := bag } segs.flatten) = true) :
    tucRunWhole2 align o regexText segs = WholeLit.tucRunWhole o regexText segs := by
  unfold tucRunWhole2 WholeLit.tucRunWhole
  cases hc : compileBag o regexText with
  | none => rfl
  | some bag =>
    simp only
    by_cases hu : (o.boundsType = .characters && !validUtf8 segs.flatten) = true
    · rw [if_pos hu, if_pos hu]
    · rw [if_neg hu, if_neg hu]
      have h1 := hfit bag hc
      have h2 := hfit2 bag hc
      rw [Bool.or_eq_true] at h1 h2
      rw [dispatchWhole2_eq align { o with regexBag := bag } segs hb
        (fun b hbg => compileBag_ok o regexText bag hc b hbg) (h1.resolve_left hu) (h2.resolve_left hu)]

/-- **`tucProgramLit2` is `tucProgramLit`** on `InDomain2`, whatever the alignment oracle: the regex
    bag that `main` stores honours the contract of `find_iter` (`compileBag_ok`), so no hypothesis on
    it is left -/
theorem tucProgramLit2_eq_tucProgramLit (align : Bytes → Nat) (regexOk : Arg → Bool) (argv : List Arg)
    (segs : List Bytes) (h : InDomain2 regexOk argv segs) :
    tucProgramLit2 align regexOk argv segs = WholeLit.tucProgramLit regexOk argv segs := by
  have h1 := h.inDomain
  unfold InDomain2 programFits2B at h
  rw [Bool.and_eq_true] at h
  have h2 := h.2
  unfold InDomain programFitsB at h1
  unfold tucProgramLit2 WholeLit.tucProgramLit
  rw [parseArgv2_eq]
  cases hp : parseArgv regexOk argv with
  | help => rfl
  | version => rfl
  | reject => rfl
  | panic => rfl
  | run o fm rt =>
    simp only [hp] at h1 h2 ⊢
    apply tucRunWhole2_eq align o rt segs (CutStrLitProps.boundsOk_of_parseArgv regexOk argv o fm rt hp)
    · intro bag hc
      simpa only [hc] using h1
    · intro bag hc
      simpa only [hc] using h2

/-- **THE CAPSTONE, one level deeper**: `tucProgramLit2 = tucMain` -/
theorem tucProgramLit2_eq (align : Bytes → Nat) (regexOk : Arg → Bool) (argv : List Arg)
    (segs : List Bytes) (h : InDomain2 regexOk argv segs) :
    tucProgramLit2 align regexOk argv segs = tucMain regexOk argv segs := by
  rw [tucProgramLit2_eq_tucProgramLit align regexOk argv segs h,
    WholeLit.tucProgramLit_eq regexOk argv segs h.inDomain]

/-! ## 6. corollaries, transported from `Tuc.Props.WholeLit` -/

/-- the domain, unfolded once `parse_args` returned an `Opt` and the regex compiled -/
theorem inDomain2_iff_of_run {regexOk : Arg → Bool} {argv : List Arg} {o : Opt} {fm : Bool} {rt : Option Arg}
    {bag : Option RegexBag} (hp : parseArgv regexOk argv = .run o fm rt)
    (hc : compileBag o rt = Option.some bag) (segs : List Bytes)
    (hu : (o.boundsType = .characters && !validUtf8 segs.flatten) = false) :
    InDomain2 regexOk argv segs ↔
      InDomain regexOk argv segs ∧ inputFits2B { o with regexBag := bag } segs.flatten = true := by
  unfold InDomain2 programFits2B InDomain
  simp only [hp, hc, hu, Bool.false_or, Bool.and_eq_true]

/-- help, version, a rejected command line: no condition at all -/
theorem inDomain2_of_not_run {regexOk : Arg → Bool} {argv : List Arg}
    (h : ∀ o fm rt, parseArgv regexOk argv ≠ .run o fm rt) (segs : List Bytes) :
    InDomain2 regexOk argv segs := by
  have h1 := WholeLit.inDomain_of_not_run h segs
  unfold InDomain at h1
  unfold InDomain2 programFits2B
  rw [h1, Bool.true_and]
  cases hp : parseArgv regexOk argv with
  | run o fm rt => exact absurd hp (h o fm rt)
  | _ => rfl

/-- the domain depends on the input only, not on how the reads split it (no empty read) -/
theorem inDomain2_of_flatten {regexOk : Arg → Bool} {argv : List Arg} {segs segs' : List Bytes}
    (h : InDomain2 regexOk argv segs) (hsegs' : ∀ s ∈ segs', s ≠ []) (he : segs.flatten = segs'.flatten) :
    InDomain2 regexOk argv segs' := by
  have h1 : InDomain regexOk argv segs' := WholeLit.inDomain_of_flatten h.inDomain hsegs' he
  unfold InDomain at h1
  unfold InDomain2 programFits2B at h ⊢
  rw [Bool.and_eq_true] at h
  rw [h1, Bool.true_and, ← he]
  exact h.2

/-- **(1) no panic, no endless loop**: on its domain the program made of the Rust statements — now
    including the loops of `trim` / `fill_with_fields_locations*` / `compress_delimiter` over
    `memmem::FindIter::next`, `trim_regex`, `Regex::replace_all`, `serde_json::to_string`, core's
    `run_utf8_validation`, `UserBoundsList::from_str` / `complement` / `unpack` / `is_forward_only`,
    `try_into_range` and `matches` with `i32`s everywhere — reaches no panic site (no slice, no index,
    no `unwrap`, no `i32` overflow, no `unreachable!`, no `from_utf8_unchecked` on bytes that are not
    UTF-8), runs out of fuel in no loop, and ends with exit status 0 or 1 -/
theorem tucProgramLit2_never_panics (align : Bytes → Nat) (regexOk : Arg → Bool) (argv : List Arg)
    (segs : List Bytes) (h : InDomain2 regexOk argv segs) :
    tucProgramLit2 align regexOk argv segs ≠ .panic ∧
      ∀ r, tucProgramLit2 align regexOk argv segs = .run r → r.status = .ok ∨ r.status = .fail := by
  rw [tucProgramLit2_eq align regexOk argv segs h]
  exact tucMain_never_panics regexOk argv segs

theorem tucProgramLit2_run_status (align : Bytes → Nat) (regexOk : Arg → Bool) (argv : List Arg)
    (segs : List Bytes) (h : InDomain2 regexOk argv segs) (r : Run)
    (hr : tucProgramLit2 align regexOk argv segs = .run r) :
    r.status ≠ .panic ∧ r.status ≠ .hang := by
  rw [tucProgramLit2_eq align regexOk argv segs h] at hr
  exact tucMain_run_status regexOk argv segs r hr

/-- **(2) chunk independence** — and independence of the addresses of the validated slices (two
    alignment oracles) -/
theorem tucProgramLit2_chunk_independent (align₁ align₂ : Bytes → Nat) (regexOk : Arg → Bool)
    (argv : List Arg) (segs₁ segs₂ : List Bytes)
    (h₁ : InDomain2 regexOk argv segs₁) (h₂ : InDomain2 regexOk argv segs₂)
    (he : segs₁.flatten = segs₂.flatten) :
    tucProgramLit2 align₁ regexOk argv segs₁ = tucProgramLit2 align₂ regexOk argv segs₂ := by
  rw [tucProgramLit2_eq align₁ regexOk argv segs₁ h₁, tucProgramLit2_eq align₂ regexOk argv segs₂ h₂]
  exact tucMain_chunk_independent regexOk argv segs₁ segs₂ he

/-- … with the domain condition of the second segmentation reduced to "no empty read" -/
theorem tucProgramLit2_chunk_independent' (align₁ align₂ : Bytes → Nat) (regexOk : Arg → Bool)
    (argv : List Arg) (segs₁ segs₂ : List Bytes)
    (h₁ : InDomain2 regexOk argv segs₁) (h₂ : ∀ s ∈ segs₂, s ≠ [])
    (he : segs₁.flatten = segs₂.flatten) :
    tucProgramLit2 align₁ regexOk argv segs₁ = tucProgramLit2 align₂ regexOk argv segs₂ :=
  tucProgramLit2_chunk_independent align₁ align₂ regexOk argv segs₁ segs₂ h₁
    (inDomain2_of_flatten h₁ h₂ he) he

/-- the result does not depend on the alignment of the slices handed to `from_utf8` -/
theorem tucProgramLit2_align_irrelevant (align₁ align₂ : Bytes → Nat) (regexOk : Arg → Bool)
    (argv : List Arg) (segs : List Bytes) (h : InDomain2 regexOk argv segs) :
    tucProgramLit2 align₁ regexOk argv segs = tucProgramLit2 align₂ regexOk argv segs :=
  tucProgramLit2_chunk_independent align₁ align₂ regexOk argv segs segs h h rfl

/-! ## 7. non-vacuity: the 23 `#guard`s of `Tuc.Props.WholeLit` §10, against `tucProgramLit2` -/

open WholeLit (argvOf bytesOf readsOf okS yes)

/-- two alignment oracles: always aligned; and one that depends on the slice (`usize::MAX` — what
    `align_offset` may answer — for slices of even length) -/
def align0 : Bytes → Nat := fun _ => 0
def align1 : Bytes → Nat := fun b => if b.length % 2 = 0 then LibLit.usizeMax else (b.length * 5 + 3) % 8

def agreeB (argv : List Arg) (reads : List Bytes) (expected : MainResult) : Bool :=
  programFits2B yes argv reads
    && tucProgramLit2 align0 yes argv reads == expected
    && tucProgramLit2 align1 yes argv reads == expected
    && WholeLit.tucProgramLit yes argv reads == expected && tucMain yes argv reads == expected

def agree (argv : List String) (reads : List String) (expected : MainResult) : Bool :=
  agreeB (argvOf argv) (readsOf reads) expected

#guard agree ["-d", ":", "-f", "2,1", "-r", "-"] ["a:b", ":c\nx", ":y:z\n"] (okS "b-a\ny-x\n")
#guard agree ["-z", "-d", ":", "-f", "2", "-g"] ["a::b\x00c:", ":d"] (okS "b\x00d\x00")
#guard agree ["-d", ":", "-f", "3", "-r", "-"] ["a:b\nc:d:e\n"] (.run Run.fail)
#guard agree ["-d", ":", "-f", "1,3"] ["a:b", ":c\nx", ":y:z\n"] (okS "ac\nxz\n")
#guard agree ["-d", ":", "-f", "2", "-s"] ["a:b\nc", "\nd:e"] (okS "b\ne\n")
#guard agree ["-M", "1", "-d", ":", "-f", "1,3"] ["a:b", ":c\nx", ":y:z\n"] (okS "ac\nxz\n")
#guard agree ["-M", "1", "-f", "2", "-g"] ["a\n"] .reject
#guard agree ["-l", "2:3"] ["a\nb", "b\nc\n", "d\n"] (okS "bb\nc\n")
#guard agree ["-l", "2:3", "-z"] ["a\x00b", "b\x00c\x00", "d\x00"] (okS "bb\x00c\x00")
#guard agreeB (argvOf ["-l", "2:"]) [[97, 10, 255], [98, 10]] (.run Run.fail)
#guard agree ["-l", "3,1"] ["a\nb", "b\nc\n", "d\n"] (okS "c\na\n")
#guard agreeB (argvOf ["-l", "2,1"]) [[97, 10, 255], [98, 10]] (.run Run.fail)
#guard agree ["-b", "2:3"] ["ab", "cd", "e"] (okS "bc")
#guard agreeB (argvOf ["-c", "2:3"]) [[104, 195], [169, 108, 108, 111, 10, 119, 111, 114], [108, 100, 10]]
  (okS "él\nor\n")
#guard agree ["-d", ":", "-f", "2:3", "--json"] ["a:b", ":c\nx", ":y:z\n"] (okS "[\"b\",\"c\"]\n[\"y\",\"z\"]\n")
#guard agree ["-e", "[:;]+", "-f", "2"] ["a:;b;", "c\nx", ";y\n"] (okS "b\ny\n")
#guard agree ["-e", "[0-9]*", "-f", "2"] ["a1b\n"] .unmodelled
#guard agree ["-f", "0"] ["a\n", ""] .reject
#guard agree ["--help"] ["", "a\n"] .help
#guard agree [] [] .help
#guard agree ["-V"] ["a\n"] .version
#guard agreeB (argvOf ["-c", "1"]) [[255], [], [10]] .unmodelled
-- (22 `#guard`s; the `example` of §10 is restated below)

-- more of the substituted callees: `-t` / `-p` / `-g` (the loops of `trim`, `compress_delimiter`,
-- `fill_with_fields_locations_greedy`), `-m` (`complement`), `--json` with an escape and a range to
-- unpack, `-e` with `-t -p -r` (`trim_regex`, `compress_delimiter_with_regex`, `replace_all`), a
-- format string (the scanner `parse_bounds_list`), `-l -m` (`is_forward_only` is not asked)
#guard agree ["-d", "ab", "-f", "2", "-t", "b", "-p"] ["ababxab", "abyababab\n"] (okS "y\n")
#guard agree ["-d", ":", "-f", "2", "-g", "-m"] ["a::b:c\n"] (okS "ac\n")
#guard agree ["-d", ":", "-f", "-2:", "--json"] ["a:\"b", ":c\tz\n"] (okS "[\"\\\"b\",\"c\\tz\"]\n")
#guard agree ["-e", "[ ]+", "-f", "2,1", "-t", "b", "-p", "-r", "_"] ["  a   b", " c \n"] (okS "b_a\n")
#guard agree ["-d", ":", "-f", "<{2}>-{1=x}\\n"] ["a:b\n"] (okS "<b>-a\n\n")
#guard agree ["-l", "2", "-m"] ["a\nb\n", "c\n"] (okS "a\nc\n")

/-- an instance of the capstone theorem (general engine, three reads, the second oracle) -/
example :
    tucProgramLit2 align1 yes (argvOf ["-d", ":", "-f", "2,1", "-r", "-"]) (readsOf ["a:b", ":c\nx", ":y:z\n"]) =
      tucMain yes (argvOf ["-d", ":", "-f", "2,1", "-r", "-"]) (readsOf ["a:b", ":c\nx", ":y:z\n"]) :=
  tucProgramLit2_eq _ _ _ _ (by decide +kernel)

/-! … and the 6 `differ` lines of `Tuc.Props.WholeLit` §11 (an empty read in the middle: outside the
domain, the program made of the Rust statements stops early, `tucMain` does not), with the same
results for `tucProgramLit2` -/

def differ (argv : List String) (reads : List String) (lit model : MainResult) : Bool :=
  !programFits2B yes (argvOf argv) (readsOf reads)
    && tucProgramLit2 align0 yes (argvOf argv) (readsOf reads) == lit
    && tucProgramLit2 align1 yes (argvOf argv) (readsOf reads) == lit
    && tucMain yes (argvOf argv) (readsOf reads) == model

#guard differ ["-d", ":", "-f", "2,1", "-r", "-"] ["a:b\nc:", "", "d\n"]
  (.run ⟨bytesOf "b-a\n-c\n", .fail⟩) (okS "b-a\nd-c\n")
#guard differ ["-d", ":", "-f", "2"] ["a:b\nc:", "", "d\n"] (.run ⟨bytesOf "b\n\n", .fail⟩) (okS "b\nd\n")
#guard differ ["-M", "1", "-d", ":", "-f", "2"] ["a:b\nc:", "", "d\n"] (okS "b\n\n") (okS "b\nd\n")
#guard differ ["-l", "2:3"] ["a\nb", "", "b\nc\n", "d\n"] (okS "b\nb\n") (okS "bb\nc\n")
#guard differ ["-l", "3,1"] ["a\nb", "", "b\nc\n", "d\n"] (.run Run.fail) (okS "c\na\n")
#guard differ ["-b", "2:3"] ["ab", "", "cd", "e"] (.run Run.fail) (okS "bc")

/-! ## 8. the new hypotheses cannot be dropped

### `inputFits2B`, `-b`: an input of 2³¹ bytes or more — NO LONGER a witness

`cut_bytes` (cut_bytes.rs:15) calls `b.try_into_range(data.len())`.  Until its repair `try_into_range`
started with `parts_length as i32` (userbounds.rs:221): with `2³¹ ≤ len mod 2³²` every bound was "Out of
bounds" (exit 1, nothing printed), with `len = 2³² + k` the ranges were those of a `k`-byte input — the
GENUINE DEFECT this section witnessed (`readAndCutBytesLoop2_length_necessary`,
`tucProgramLit2_bytes_length_necessary`, `tucProgramLit2_ne_tucMain_on_2GiB_input`: `tuc -b 1:` on 2 GiB;
commit history).  The repaired text computes in `i64` (`BoundsLit.tryIntoRange_eq_i64`): those
statements are FALSE now, and in their place stands the positive fact — on that very input the program
made of the Rust statements prints the input, as `tucProgramLit` and `tucMain` do
(`tucProgramLit2_eq_tucMain_on_2GiB_input`); `readAndCutBytesLoop2_eq_i64`: for every option record and
every input shorter than 2⁶³ bytes.  The `-b` clause of `inputFits2B` is therefore only SUFFICIENT. -/

open CutStrLitProps (oneOpen) in
/-- the `Opt` that `parse_args` builds for `tuc -b 1:` -/
def optB1 : Opt :=
  { delimiter := [], boundsType := .bytes,
    bounds := { list := [.bound oneOpen], lastInteresting := .cont } }

theorem cutBytesBody_of_whole (data : Bytes) (opt : Opt) (b : UserBounds)
    (hr : b.tryIntoRange data.length = Option.some (0, data.length)) :
    ReadLoops.cutBytesBody data opt (.bound b) = Run.ok data := by
  unfold ReadLoops.cutBytesBody
  simp only []
  rw [hr]
  simp only [Nat.zero_le, Nat.le_refl, and_self, if_true, slice, List.drop_zero, Nat.sub_zero,
    List.take_length]
  simp [Run.seq, Run.ok, Run.empty]

theorem boundsOk_optB1 : BoundsOk optB1.bounds.list := by
  intro b hb
  have : BoF.bound b = BoF.bound CutStrLitProps.oneOpen := by simpa [optB1] using hb
  cases this
  exact CutStrLitProps.boundOk_oneOpen

open CutStrLitProps (oneOpen) in
/-- **`-b 1:` on ANY non-empty input** (one read; shorter than 2⁶³ bytes, as every `Vec` is) — 2³¹ bytes
    and more included: the engine made of the Rust statements with the machine-integer `try_into_range`
    prints the input, as the engine of `Tuc.Model.WholeLit` (hence `tucMain`) does -/
theorem readAndCutBytesLoop2_on_large (data : Bytes) (hne : data ≠ [])
    (h : data.length < 9223372036854775808) :
    readAndCutBytesLoop2 optB1 [data] = Run.ok data ∧
      ReadLoops.readAndCutBytesLoop optB1 [data] = Run.ok data := by
  have hpos : 0 < data.length := List.length_pos_iff.mpr hne
  have hsegs : ∀ s ∈ [data], s ≠ [] := by
    intro s hs; rw [List.mem_singleton] at hs; subst hs; exact hne
  have hf : [data].flatten = data := by simp
  have hemp : data.isEmpty = false := by cases data with | nil => exact absurd rfl hne | cons _ _ => rfl
  have hl : optB1.bounds.list = [.bound oneOpen] := rfl
  have h2 : ReadLoops.readAndCutBytesLoop optB1 [data] = Run.ok data := by
    unfold ReadLoops.readAndCutBytesLoop
    simp only [ReadLoops.readBytesToEndLit_eq [data] [] hsegs, hf]
    unfold ReadLoops.cutBytesLit
    rw [hemp, hl]
    simp only [Bool.false_eq_true, if_false, ReadLoops.tryForEach]
    have hb : ReadLoops.cutBytesBody data optB1 (.bound oneOpen) = Run.ok data :=
      cutBytesBody_of_whole data optB1 oneOpen (CutStrLitProps.tryIntoRange_oneOpen data.length hpos)
    rw [hb]
    simp [Run.seq, Run.ok, Run.empty]
  exact ⟨by rw [readAndCutBytesLoop2_eq_i64 optB1 [data] boundsOk_optB1 hsegs (by rw [hf]; exact h), h2], h2⟩

/-- `tuc -b 1:` on ONE read `data`, non-empty, of any length below 2⁶³: `InDomain` holds, and the program
    with the machine-integer `try_into_range` prints `data`, as `tucProgramLit` does -/
theorem tucProgramLit2_bytes_on_large (align : Bytes → Nat) (data : Bytes) (hne : data ≠ [])
    (h : data.length < 9223372036854775808) :
    InDomain yes [['-', 'b'], ['1', ':']] [data] ∧
      tucProgramLit2 align yes [['-', 'b'], ['1', ':']] [data] = .run (Run.ok data) ∧
      WholeLit.tucProgramLit yes [['-', 'b'], ['1', ':']] [data] = .run (Run.ok data) := by
  obtain ⟨h1, h2⟩ := readAndCutBytesLoop2_on_large data hne h
  have hp : parseArgv yes [['-', 'b'], ['1', ':']] = .run optB1 false Option.none := by rfl
  have hc : compileBag optB1 Option.none = Option.some Option.none := by rfl
  have hbt : (optB1.boundsType = .characters && !validUtf8 [data].flatten) = false := by
    simp [optB1]
  have hdom : InDomain yes [['-', 'b'], ['1', ':']] [data] := by
    rw [WholeLit.inDomain_iff_of_run hp hc [data] hbt]
    refine ⟨?_, WholeLit.inputFitsB_of_bytes _ _ rfl⟩
    intro s hs; rw [List.mem_singleton] at hs; subst hs; exact hne
  refine ⟨hdom, ?_, ?_⟩
  · unfold tucProgramLit2
    rw [parseArgv2_eq, hp]
    show tucRunWhole2 align optB1 Option.none [data] = _
    unfold tucRunWhole2
    rw [hc]
    show (if (optB1.boundsType = .characters && !validUtf8 [data].flatten) = true then MainResult.unmodelled
          else MainResult.ofDispatch (dispatchWhole2 align optB1 [data])) = _
    rw [if_neg (by rw [hbt]; exact Bool.false_ne_true)]
    have hd : dispatchWhole2 align optB1 [data] = Option.some (readAndCutBytesLoop2 optB1 [data]) := rfl
    rw [hd, h1]
    rfl
  · unfold WholeLit.tucProgramLit
    rw [hp]
    show WholeLit.tucRunWhole optB1 Option.none [data] = _
    unfold WholeLit.tucRunWhole
    rw [hc]
    show (if (optB1.boundsType = .characters && !validUtf8 [data].flatten) = true then MainResult.unmodelled
          else MainResult.ofDispatch (WholeLit.dispatchWhole optB1 [data])) = _
    rw [if_neg (by rw [hbt]; exact Bool.false_ne_true)]
    have hd : WholeLit.dispatchWhole optB1 [data] = Option.some (ReadLoops.readAndCutBytesLoop optB1 [data]) := rfl
    rw [hd, h2]
    rfl

/-- **on the input that witnessed the defect — `tuc -b 1:` on 2³¹ bytes (one read) — the program made of
    the Rust statements now prints the 2³¹ bytes**, as `tucProgramLit` and `tucMain` do (until the repair
    of `try_into_range`: exit status 1, "Out of bounds: 1", nothing printed).  This input is OUTSIDE
    `InDomain2` (its `-b` clause asks fewer than 2³¹ bytes): the clause is no longer necessary. -/
theorem tucProgramLit2_eq_tucMain_on_2GiB_input (align : Bytes → Nat) :
    ∃ data : Bytes, data.length = 2147483648 ∧
      InDomain yes [['-', 'b'], ['1', ':']] [data] ∧
      tucProgramLit2 align yes [['-', 'b'], ['1', ':']] [data] = .run (Run.ok data) ∧
      tucMain yes [['-', 'b'], ['1', ':']] [data] = .run (Run.ok data) := by
  obtain ⟨hdom, h1, h2⟩ := tucProgramLit2_bytes_on_large align (List.replicate 2147483648 0)
    (by intro e; have := congrArg List.length e
        rw [List.length_replicate, List.length_nil] at this; omega)
    (by rw [List.length_replicate]; omega)
  exact ⟨_, List.length_replicate, hdom, h1, by rw [← WholeLit.tucProgramLit_eq yes _ _ hdom, h2]⟩

/-! ### `inputFits2B`, fast lane: 2³¹ parts or more in one record — NO LONGER a witness

`output_parts` (fast_lane.rs:103) calls `b.try_into_range(fields.len() - 1)`.  Until the repair of
`try_into_range`, one call with a vector `fields` of `2³¹ + 1` entries or more (a record with 2³¹ − 1
delimiter bytes scanned to its end — the counter `curr_field` still fits, `CounterFits` holds) returned
`Err` ("Out of bounds: 1") for the bound `1:` where `Tuc.Model.FastLoop` does not
(`outputPartsLit2_length_necessary`, commit history).  False now: `outputPartsLit2_eq_i64` — the two agree
for every bound the parser builds and every number of parts below 2⁶³.  What `PartsFit` still protects
is the `i32` counter `curr_field` of the scan (fast_lane.rs:44, 52: `FastLoop.CounterFits`,
`cutStrFastLaneLoop_overflow`), which the repair does not touch. -/

open CutStrLitProps (oneOpen) in
/-- one call of `output_parts` on `1:` with 2³¹ + 1 entries in `fields` and more: equal -/
theorem outputPartsLit2_eq_on_large (line : Bytes) (fields : List Nat) (opt : FastOpt)
    (h : fields.length - 1 < 9223372036854775808) :
    outputPartsLit2 line oneOpen fields opt = FastLoop.outputPartsLit line oneOpen fields opt :=
  outputPartsLit2_eq_i64 line oneOpen fields opt CutStrLitProps.boundOk_oneOpen h

/-! ### the contract of `find_iter` (`BagOK`), for `cut_str` taken alone

At program level there is nothing to assume: `main` stores a bag that honours the contract
(`compileBag_ok`).  For `cutStrLit2` on an arbitrary `Opt` the hypothesis is needed: a regex whose
`find_iter` yields a match that ends beyond the line makes `trim_regex` slice out of range
(cut_str.rs:244, a panic), where the normal-form `trimRegex` inside `CutStrLit.cutStrLit` truncates. -/

def badBag : RegexBag := { normal := fun _ => [(0, 9)], greedy := fun _ => [(0, 9)] }

def optBadBag : Opt :=
  { delimiter := [9], trim := Option.some .left, regexBag := Option.some badBag, replaceDelimiter := Option.some [45],
    bounds := { list := [.bound CutStrLitProps.oneOpen], lastInteresting := .cont } }

#guard (cutStrLit2 align0 [97, 98] optBadBag [] [] [10]).1 == Run.panic
#guard (CutStrLit.cutStrLit [97, 98] optBadBag [] [] [10]).1 != Run.panic
#guard (cutStr [97, 98] optBadBag [] [] [10]).1 != Run.panic

/-! ### non-vacuity of the engine-level theorems -/

/-- the `Opt` of `tuc -e ' ' -t b -p -r _` (`-f 1:`), the bag being the one `main` compiles -/
def optSpaceBag : Opt :=
  { delimiter := [32], trim := Option.some .both, compressDelimiter := true,
    replaceDelimiter := Option.some [95], join := true, regexBag := Option.some (Re.bag (.byte 32)),
    bounds := { list := [.bound CutStrLitProps.oneOpen], lastInteresting := .cont } }

/-- the hypotheses of `cutStrLit2_eq_cutStrLit` hold on it … -/
example : BoundsOk optSpaceBag.bounds.list ∧ BagOK optSpaceBag :=
  ⟨(CutStrLitProps.boundsOkB_iff _).mp (by decide), by intro bag hb; cases hb; exact Re.bag_ok _⟩

#guard fieldsFitB [32, 97, 32, 32, 98, 32] optSpaceBag

-- … and both sides are the expected bytes (`trim_regex`, `compress_delimiter_with_regex`,
-- `replace_all`, `fill_with_fields_locations` at statement level)
#guard (cutStrLit2 align1 [32, 97, 32, 32, 98, 32] optSpaceBag [] [] [10]).1 == Run.ok [97, 95, 98, 10]
#guard (CutStrLit.cutStrLit [32, 97, 32, 32, 98, 32] optSpaceBag [] [] [10]).1 == Run.ok [97, 95, 98, 10]

end WholeLit2
end Tuc
