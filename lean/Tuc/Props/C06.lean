import Tuc.Model.Lines
import Tuc.Spec.Lines
import Tuc.Lemmas.Run
import Tuc.Lemmas.Bounds
/-!
# C06 — byte mode is exact and binary-safe

`cutBytesLoop` is proved equal to the specification `emit` over the tokenisation "every byte is a
part, separators are empty" for every input and every bounds list with non-zero indexes — in
particular nothing is appended (no EOL), no byte value is special (the statement is about
arbitrary `List UInt8`), an empty input yields an empty output, and the engine never panics.
-/
namespace Tuc
open Tuc.Spec

/-- an empty input yields an empty output, whatever the bounds -/
theorem bytes_empty (o : Opt) : readAndCutBytes o [] = Run.empty := rfl

/-- byte mode never panics: the slice indexes come from a resolved range -/
theorem cutBytesLoop_no_panic (data : Bytes) (o : Opt) (l : List BoF)
    (hz : ∀ b ∈ boundsOnly l, b.l ≠ .some 0) :
    (cutBytesLoop data o l).status ≠ .panic := by
  induction l with
  | nil => simp [cutBytesLoop, Run.empty]
  | cons x t ih =>
    cases x with
    | filler f =>
      simp only [cutBytesLoop, Run.pre]
      exact ih (fun b hb => hz b (by simpa [boundsOnly] using hb))
    | bound b =>
      have iht := ih (fun b' hb' => hz b' (by simp [boundsOnly, hb']))
      simp only [cutBytesLoop]
      cases hr : b.tryIntoRange data.length with
      | some p =>
        obtain ⟨s, e⟩ := p
        have hb := tryIntoRange_bounds b data.length s e (hz b (by simp [boundsOnly])) hr
        have : s ≤ e ∧ e ≤ data.length := ⟨by omega, hb.2⟩
        simp only [this, and_self, if_true, Run.pre]
        exact iht
      | none =>
        simp only []
        cases b.fallback with
        | some f => simp only [Run.pre]; exact iht
        | none =>
          cases o.fallbackOob with
          | some f => simp only [Run.pre]; exact iht
          | none => simp [Run.fail]

/-- the text of parts `lo … hi` of the byte tokenisation is the slice `data[lo-1 .. hi]` -/
theorem pieceText_bytes (data : Bytes) (b0 : UInt8) (t : Bytes) (hd : data = b0 :: t) (lo hi : Nat)
    (h1 : 1 ≤ lo) (h2 : lo ≤ hi) (h3 : hi ≤ data.length) :
    pieceText (fun _ => []) ⟨[b0], t.map fun x => (0, [x])⟩ lo hi = slice data (lo - 1) hi := by
  subst hd
  unfold pieceText slice
  have hall : ((0, [b0]) :: t.map fun x => (0, [x])) = (b0 :: t).map fun x => ((0 : Nat), [x]) := by simp
  simp only [hall]
  rw [← List.map_drop, ← List.map_take]
  have hlen : hi - lo + 1 = hi - (lo - 1) := by omega
  rw [hlen]
  generalize ((b0 :: t).drop (lo - 1)).take (hi - (lo - 1)) = sel
  cases sel with
  | nil => rfl
  | cons x more =>
    simp only [List.map_cons, List.nil_append]
    induction more with
    | nil => simp
    | cons y ys ih =>
      simp only [List.map_cons, List.flatMap_cons, List.nil_append] at ih ⊢
      simp only [List.cons_append, List.nil_append, List.cons.injEq, true_and] at ih ⊢
      simpa using ih

/-- **byte mode = its specification**, for every non-empty input and every bounds list
    (`cfg` is any specification request without `--json`/join and with the same generic fallback) -/
theorem cutBytesLoop_eq_spec (data : Bytes) (b0 : UInt8) (t : Bytes) (hd : data = b0 :: t) (o : Opt)
    (cfg : Cfg) (hjson : cfg.json = false) (hjoin : cfg.join = false) (hfb : cfg.fallback = o.fallbackOob)
    (l : List BoF) (hz : ∀ b ∈ boundsOnly l, b.Nonzero) :
    cutBytesLoop data o l = emit cfg ⟨[b0], t.map fun x => (0, [x])⟩ (fun _ => []) [] l := by
  induction l with
  | nil => rfl
  | cons x rest ih =>
    cases x with
    | filler f =>
      simp only [cutBytesLoop, emit]
      rw [ih (fun b hb => hz b (by simpa [boundsOnly] using hb))]
    | bound b =>
      have ihr := ih (fun b' hb' => hz b' (by simp [boundsOnly, hb']))
      have hzb : b.Nonzero := hz b (by simp [boundsOnly])
      have hn : (⟨[b0], t.map fun x => (0, [x])⟩ : Tok).numFields = data.length := by
        subst hd; simp [Tok.numFields]
      simp only [cutBytesLoop, emit, hn, hjson, hjoin, hfb, Bool.false_and, Bool.false_eq_true, if_false,
        List.append_nil]
      rw [tryIntoRange_eq_resolve b data.length hzb]
      cases hres : resolve b data.length with
      | none =>
        simp only [Option.map_none]
        cases b.fallback with
        | some f => simp only [ihr]
        | none =>
          cases o.fallbackOob with
          | some f => simp only [ihr]
          | none => rfl
      | some p =>
        obtain ⟨lo, hi⟩ := p
        simp only [Option.map_some]
        have hb : lo - 1 < hi ∧ hi ≤ data.length := by
          have := tryIntoRange_eq_resolve b data.length hzb
          rw [hres] at this
          exact tryIntoRange_bounds b data.length (lo - 1) hi
            (by intro h0; have := hzb.1; rw [h0] at this; exact this rfl) this
        have hlo : 1 ≤ lo := by
          unfold resolve at hres
          split at hres
          · split at hres
            · simp only [Option.some.injEq, Prod.mk.injEq] at hres; omega
            · cases hres
          · cases hres
        have hc : lo - 1 ≤ hi ∧ hi ≤ data.length := ⟨by omega, hb.2⟩
        simp only [hc, and_self, if_true]
        rw [pieceText_bytes data b0 t hd lo hi hlo (by omega) hb.2]
        simp only [ihr]

/-- the specification of `-b` is what `read_and_cut_bytes` computes -/
theorem readAndCutBytes_eq_spec (o : Opt) (data : Bytes)
    (hz : ∀ b ∈ boundsOnly o.bounds.list, b.Nonzero) :
    readAndCutBytes o data = specBytes (cfgOf o) data := by
  cases data with
  | nil => rfl
  | cons b0 t =>
    simp only [readAndCutBytes, specBytes, List.isEmpty_cons, Bool.false_eq_true, if_false,
      List.map_cons, tokOfParts]
    rw [cutBytesLoop_eq_spec (b0 :: t) b0 t rfl o { (cfgOf o) with json := false, join := false } rfl rfl rfl
      o.bounds.list hz]
    simp [cfgOf, List.map_map, Function.comp_def]

/-- non-vacuity: bytes 00 0A FF 61, bounds `-1,x,2:3` -/
example : readAndCutBytes
    { delimiter := [], bounds := ⟨[.bound { l := .some (-1), r := .some (-1) }, .filler [0x78],
        .bound { l := .some 2, r := .some 3, isLast := true }], .cont⟩, boundsType := .bytes }
    [0x00, 0x0A, 0xFF, 0x61] = Run.ok [0x61, 0x78, 0x0A, 0xFF] := by decide

end Tuc
