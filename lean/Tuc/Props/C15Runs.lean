import Tuc.Lemmas.SpecLaws
import Tuc.Props.C05Buffered
import Tuc.Props.C15
/-!
# C15 at the level of runs — `-m B` behaves as the rewritten list `rewrite(B, n)`

`Tuc.Props.C15` relates `UserBounds::complement` to the specification's `complementBound`.  Here:

Specification laws (no engine involved):
* `specBody_complement`, `specRecord_complement` — with `-m`, a record of `n` parts is printed as
  the same request without `-m` whose every bound `b` is replaced, in place, by
  `complementBound b n` (the parts before it, the parts after it; a bound that does not resolve
  stays) — with any of `-g -p -t -s -j -r --json -c`, fallbacks, fillers;
* `specRecord_complement_empty` — if nothing is left, the record fails having printed only the
  `[` of `--json`;
* `complement_empty_iff` — nothing is left iff every bound resolves to all the parts `1 … n`;
* `specLines_complement` — the same for `-l`.

Runs of the engines (through the refinement theorems, both sides):
* `readAndCutStr_complement`, `readAndCutStr_complement_empty` — the general field engine;
* `readAndCutLines_complement` — `-l` (side condition: the domain of C05 for the rewritten
  request), `readAndCutLines_complement_plain` — the same with the side condition discharged for
  a plain request all of whose bounds resolve.
-/
namespace Tuc
open Tuc.Spec

/-! ## the specification -/

/-- the request `cfg'` is the request `cfg` (which has `-m`) with `-m` removed and the bounds
    rewritten for `n` parts -/
structure ComplementOf (n : Nat) (cfg cfg' : Cfg) : Prop extends SameTokens cfg cfg' where
  replace : cfg'.replace = cfg.replace
  join : cfg'.join = cfg.join
  json : cfg'.json = cfg.json
  fallback : cfg'.fallback = cfg.fallback
  on : cfg.complement = true
  off : cfg'.complement = false
  bofs : cfg'.bofs = mapBounds (complementBound · n) cfg.bofs

theorem complementOf_with (cfg : Cfg) (n : Nat) :
    ComplementOf n { cfg with complement := true }
      { cfg with complement := false, bofs := mapBounds (complementBound · n) cfg.bofs } :=
  ⟨⟨rfl, rfl, rfl, rfl, rfl, rfl, rfl⟩, rfl, rfl, rfl, rfl, rfl, rfl, rfl⟩

theorem ComplementOf.complemented {n : Nat} {cfg cfg' : Cfg} (h : ComplementOf n cfg cfg') :
    complemented cfg' n = complemented cfg n := by
  unfold Spec.complemented
  rw [h.on, h.off, h.bofs]
  rfl

theorem ComplementOf.rewritten {n : Nat} {cfg cfg' : Cfg} (h : ComplementOf n cfg cfg') :
    rewritten cfg' n = rewritten cfg n := by
  unfold Spec.rewritten
  rw [h.json, h.chars, h.complemented]

theorem ComplementOf.specBody {cfg cfg' : Cfg} (tok : Tok)
    (h : ComplementOf tok.numFields cfg cfg') :
    specBody cfg tok =
      if (cfg.onlyDelimited && tok.numFields == 1) = false ∧
          countBounds (mapBounds (complementBound · tok.numFields) cfg.bofs) = 0 then
        ⟨openBracket cfg, .fail⟩
      else specBody cfg' tok := by
  have e1 : openBracket cfg' = openBracket cfg := by unfold openBracket; rw [h.json]
  have e2 : closeBracket cfg' = closeBracket cfg := by unfold closeBracket; rw [h.json]
  have e3 : specSep cfg' = specSep cfg := by unfold specSep; rw [h.chars, h.replace, h.delimiter]
  have e4 : specJoiner cfg' = specJoiner cfg := by unfold specJoiner; rw [h.replace, h.delimiter]
  have e5 : Spec.complemented cfg tok.numFields = mapBounds (complementBound · tok.numFields) cfg.bofs := by
    unfold Spec.complemented; rw [h.on]; rfl
  unfold Spec.specBody
  rw [h.onlyDelimited, h.off, h.rewritten, e1, e2, e3, e4, h.eol, h.on, e5,
    emit_cfg_congr h.json h.join h.fallback]
  cases hs : (cfg.onlyDelimited && tok.numFields == 1) with
  | true => simp
  | false =>
    by_cases hc : countBounds (mapBounds (complementBound · tok.numFields) cfg.bofs) = 0
    · simp [hc]
    · simp [hc]

/-- **C15, one tokenised record.**  `-m` is the rewriting of the bounds list: for a record of
    `n = tok.numFields` parts, every bound `b` is replaced in place by `complementBound b n`;
    when the rewritten list has no bound left the record fails (after the `[` of `--json`). -/
theorem specBody_complement (cfg : Cfg) (tok : Tok) :
    specBody { cfg with complement := true } tok =
      if (cfg.onlyDelimited && tok.numFields == 1) = false ∧
          countBounds (mapBounds (complementBound · tok.numFields) cfg.bofs) = 0 then
        ⟨openBracket cfg, .fail⟩
      else
        specBody { cfg with complement := false, bofs := mapBounds (complementBound · tok.numFields) cfg.bofs } tok :=
  (complementOf_with cfg tok.numFields).specBody tok

/-- **C15, one record** with `n` fields, something left to print -/
theorem specRecord_complement (cfg : Cfg) (n : Nat) (r : Bytes) (hn : HasNFields cfg n r)
    (hc : countBounds (mapBounds (complementBound · n) cfg.bofs) ≠ 0) :
    specRecord { cfg with complement := true } r =
      specRecord { cfg with complement := false, bofs := mapBounds (complementBound · n) cfg.bofs } r := by
  have h := complementOf_with cfg n
  refine (specRecord_congr h.toSameTokens r fun tok ht => ?_).symm
  have hn' : tok.numFields = n := hn tok ht
  subst hn'
  rw [h.specBody tok, if_neg (fun hh => hc hh.2)]

/-- **C15, nothing left**: the record fails, having printed only the `[` of `--json` -/
theorem specRecord_complement_empty (cfg : Cfg) (r : Bytes) (tok : Tok)
    (ht : recordTok cfg r = some tok)
    (hs : (cfg.onlyDelimited && tok.numFields == 1) = false)
    (hc : countBounds (mapBounds (complementBound · tok.numFields) cfg.bofs) = 0) :
    specRecord { cfg with complement := true } r = ⟨openBracket cfg, .fail⟩ := by
  have ht' : recordTok { cfg with complement := true } r = some tok := ht
  rw [specRecord_of_recordTok ht', specBody_complement, if_pos ⟨hs, hc⟩]

/-- what a resolved bound leaves out is nothing iff it covers all the parts -/
theorem complementBound_eq_nil_iff (b : UserBounds) (n : Nat) :
    complementBound b n = [] ↔ resolve b n = some (1, n) := by
  unfold complementBound
  cases h : resolve b n with
  | none => simp
  | some p =>
    obtain ⟨lo, hi⟩ := p
    have hr := resolve_range h
    simp only [List.append_eq_nil_iff, Option.some.injEq, Prod.mk.injEq]
    constructor
    · rintro ⟨h1, h2⟩
      by_cases c1 : 1 < lo
      · simp [c1] at h1
      · by_cases c2 : hi < n
        · simp [c2] at h2
        · omega
    · rintro ⟨rfl, rfl⟩
      simp

/-- **the complement is empty iff every bound covers the whole record** -/
theorem complement_empty_iff (n : Nat) : ∀ (l : List BoF),
    countBounds (mapBounds (complementBound · n) l) = 0 ↔
      ∀ b ∈ boundsOnly l, resolve b n = some (1, n)
  | [] => by simp [mapBounds, countBounds, boundsOnly]
  | .filler f :: t => by
    simp only [mapBounds, countBounds, boundsOnly]
    exact complement_empty_iff n t
  | .bound b :: t => by
    simp only [mapBounds, countBounds_append, countBounds_map_bound', boundsOnly, List.mem_cons,
      forall_eq_or_imp]
    rw [← complement_empty_iff n t, ← complementBound_eq_nil_iff, ← List.length_eq_zero_iff]
    omega

/-- `2` on 3 parts behaves as `1,3:3`; a bound touching the first (last) part yields only the
    other side; a bound that does not resolve stays, with its fallback -/
example :
    complementBound { l := .some 2, r := .some 2 } 3 =
      [{ l := .some 1, r := .some 1 }, { l := .some 3, r := .some 3 }] ∧
    complementBound { l := .some 1, r := .some 2 } 3 = [{ l := .some 3, r := .some 3 }] ∧
    complementBound { l := .some (-2), r := .cont } 3 = [{ l := .some 1, r := .some 1 }] ∧
    complementBound { l := .cont, r := .cont } 3 = [] ∧
    complementBound { l := .some 5, r := .some 5, fallback := some [0x78] } 3 =
      [{ l := .some 5, r := .some 5, fallback := some [0x78] }] := by
  decide

/-! ## `-l` -/

theorem ComplementOf.specLinesBody {cfg cfg' : Cfg} (tok : Tok)
    (h : ComplementOf tok.numFields cfg cfg')
    (hc : countBounds (mapBounds (complementBound · tok.numFields) cfg.bofs) ≠ 0) :
    specLinesBody cfg tok = specLinesBody cfg' tok := by
  have e5 : Spec.complemented cfg tok.numFields = mapBounds (complementBound · tok.numFields) cfg.bofs := by
    unfold Spec.complemented; rw [h.on]; rfl
  unfold Spec.specLinesBody
  rw [emit_cfg_congr (cfg := { cfg with json := false }) (cfg' := { cfg' with json := false })
      rfl h.join h.fallback, h.complemented, h.eol, h.on, h.off, e5]
  simp [hc]

/-- **C15, `-l`**: `n` is the number of lines of the input -/
theorem specLines_complement (cfg : Cfg) (input : Bytes)
    (hc : countBounds (mapBounds (complementBound · (records cfg.eol input).length) cfg.bofs) ≠ 0) :
    specLines { cfg with complement := true } input =
      specLines { cfg with complement := false, bofs := mapBounds (complementBound · (records cfg.eol input).length)
                             cfg.bofs } input := by
  rw [specLines_eq, specLines_eq]
  show (match tokOfParts 1 (records cfg.eol input) with
        | none => Run.ok [cfg.eol]
        | some tok => specLinesBody { cfg with complement := true } tok) =
       (match tokOfParts 1 (records cfg.eol input) with
        | none => Run.ok [cfg.eol]
        | some tok => specLinesBody _ tok)
  cases ht : tokOfParts 1 (records cfg.eol input) with
  | none => rfl
  | some tok =>
    have hn := tokOfParts_numFields ht
    rw [← hn] at hc ⊢
    exact (complementOf_with cfg tok.numFields).specLinesBody tok hc

/-! ## the runs of the engines -/

/-- **C15, general field engine, the run.**  On an input all of whose records have `n` fields,
    `-m` with the bounds `B` prints what the same invocation without `-m` prints for the bounds
    `rewrite(B, n)` (`is_last` re-marked on its last bound, as `UserBoundsList::from` does):
    same bytes, same exit status.  `-j`, `-r`, `-g -p -t -s`, fallbacks and fillers are the
    same on both sides. -/
theorem readAndCutStr_complement (opt : Opt) (bl' : UserBoundsList) (n : Nat) (input : Bytes)
    (hmark : markLast (mapBounds (complementBound · n) opt.bounds.list) = some bl'.list)
    (hn : ∀ r ∈ records opt.eol.byte input, HasNFields (cfgOf opt) n r)
    (hd : opt.delimiter ≠ []) (hre : opt.regexBag = none)
    (hty : opt.boundsType = .fields ∨ opt.boundsType = .lines) (hjson : opt.json = false)
    (hz : AllNonzero opt.bounds.list) (hL : LastMarked opt.bounds.list) :
    readAndCutStr { opt with complement := true } input =
      readAndCutStr { opt with complement := false, bounds := bl' } input := by
  have he := markLast_eraseLast _ _ hmark
  have hz' : AllNonzero bl'.list :=
    allNonzero_of_eraseLast_eq he (mapBounds_complement_nonzero n _ hz)
  have hL' : LastMarked bl'.list :=
    markLast_lastMarked _ _ (mapBounds_complement_noneMarked n _) hmark
  have hc : countBounds (mapBounds (complementBound · n) opt.bounds.list) ≠ 0 := by
    have := (countBounds_pos_of_markLast_some _ _ hmark).1
    omega
  rw [readAndCutStr_eq_specRun_gen { opt with complement := true } input hd hre hty hjson hz hL,
    readAndCutStr_eq_specRun_gen { opt with complement := false, bounds := bl' } input hd hre hty
      hjson hz' hL']
  unfold specRun
  refine specRunRecords_congr (cfg := cfgOf { opt with complement := false, bounds := bl' })
    (cfg' := cfgOf { opt with complement := true }) _ fun r hr => ?_
  have h1 := specRecord_complement (cfgOf opt) n r (hn r hr) hc
  have h2 : specRecord (cfgOf { opt with complement := false, bounds := bl' }) r =
      specRecord { (cfgOf opt) with complement := false, bofs := mapBounds (complementBound · n) opt.bounds.list } r :=
    specRecord_eraseLast
      (cfg := { (cfgOf opt) with complement := false, bofs := mapBounds (complementBound · n) opt.bounds.list })
      (cfg' := cfgOf { opt with complement := false, bounds := bl' })
      ⟨⟨rfl, rfl, rfl, rfl, rfl, rfl, rfl⟩, rfl, rfl, rfl, rfl, rfl⟩ r he
  rw [h2]
  exact h1

/-- **C15, general field engine, nothing left**: the first record that has fields (and is not
    suppressed by `-s`) and whose every bound covers all of them makes the run fail; nothing is
    printed for it. -/
theorem readAndCutStr_complement_empty (opt : Opt) (before after : List Bytes) (r : Bytes)
    (tok : Tok) (input : Bytes)
    (hrec : records opt.eol.byte input = before ++ r :: after)
    (ht : recordTok (cfgOf opt) r = some tok)
    (hs : (opt.onlyDelimited && tok.numFields == 1) = false)
    (hall : ∀ b ∈ boundsOnly opt.bounds.list, resolve b tok.numFields = some (1, tok.numFields))
    (hd : opt.delimiter ≠ []) (hre : opt.regexBag = none)
    (hty : opt.boundsType = .fields ∨ opt.boundsType = .lines) (hjson : opt.json = false)
    (hz : AllNonzero opt.bounds.list) (hL : LastMarked opt.bounds.list) :
    readAndCutStr { opt with complement := true } input =
      (specRunRecords (cfgOf { opt with complement := true }) before).seq Run.fail := by
  rw [readAndCutStr_eq_specRun_gen { opt with complement := true } input hd hre hty hjson hz hL]
  unfold specRun specRecords
  have hrec' : records (cfgOf { opt with complement := true }).eol input = before ++ r :: after :=
    hrec
  rw [hrec', specRunRecords_append]
  simp only [specRunRecords]
  have h := specRecord_complement_empty (cfgOf opt) r tok ht hs
    ((complement_empty_iff tok.numFields opt.bounds.list).2 hall)
  have hob : openBracket (cfgOf opt) = [] := by
    unfold openBracket; simp [cfgOf, hjson]
  rw [hob] at h
  have h' : specRecord (cfgOf { opt with complement := true }) r = Run.fail := h
  rw [h']
  rfl

/-- **C15, `-l`, the run.**  `n` is the number of lines.  The `-m` side is served by the buffered
    algorithm; the rewritten request has positive indexes only and may be served one line at a
    time, whence `hfwd` (the domain of C05 for that algorithm). -/
theorem readAndCutLines_complement (o : Opt) (bl' : UserBoundsList) (input : Bytes)
    (hmark : markLast (mapBounds (complementBound · (records o.eol.byte input).length)
      o.bounds.list) = some bl'.list)
    (hd : o.delimiter = [o.eol.byte]) (hty : o.boundsType = .lines)
    (hre : o.regexBag = none) (hjson : o.json = false)
    (hz : AllNonzero o.bounds.list) (hL : LastMarked o.bounds.list)
    (honly : o.onlyDelimited = false) (htrim : o.trim = none) (hg : o.greedyDelimiter = false)
    (hp : o.compressDelimiter = false) (hrepl : o.replaceDelimiter = none)
    (hutf : validUtf8 input = true) (h0 : input ≠ []) (h1 : input ≠ [o.eol.byte])
    (hfwd : isForwardOnly bl'.list = true →
      ∃ bs : List UserBounds, bl'.list = bs.map .bound ∧
        ∀ b ∈ bs, resolve b (records o.eol.byte input).length ≠ none) :
    readAndCutLines { o with complement := true } input =
      readAndCutLines { o with complement := false, bounds := bl' } input := by
  have he := markLast_eraseLast _ _ hmark
  have hz' : AllNonzero bl'.list :=
    allNonzero_of_eraseLast_eq he (mapBounds_complement_nonzero _ _ hz)
  have hL' : LastMarked bl'.list :=
    markLast_lastMarked _ _ (mapBounds_complement_noneMarked _ _) hmark
  have hc : countBounds (mapBounds (complementBound · (records o.eol.byte input).length)
      o.bounds.list) ≠ 0 := by
    have := (countBounds_pos_of_markLast_some _ _ hmark).1
    omega
  rw [readAndCutLines_complement_eq_spec { o with complement := true } input rfl hd hty hre hjson
      hz hL honly htrim hg hp hrepl hutf,
    readAndCutLines_eq_specLines { o with complement := false, bounds := bl' } input hd hty hre
      hjson hz' hL' honly htrim hg hp hrepl hutf h0 h1 (fun _ hf => hfwd hf)]
  have h1 := specLines_complement (cfgOf o) input hc
  have h2 : specLines (cfgOf { o with complement := false, bounds := bl' }) input =
      specLines { (cfgOf o) with complement := false, bofs := mapBounds (complementBound · (records o.eol.byte input).length) o.bounds.list } input :=
    specLines_eraseLast
      (cfg := { (cfgOf o) with complement := false, bofs := mapBounds (complementBound · (records o.eol.byte input).length) o.bounds.list })
      (cfg' := cfgOf { o with complement := false, bounds := bl' })
      ⟨⟨rfl, rfl, rfl, rfl, rfl, rfl, rfl⟩, rfl, rfl, rfl, rfl, rfl⟩ input he
  rw [h2]
  exact h1

/-! ## `-l`: discharging the side condition for plain, resolvable requests -/

theorem mapBounds_plain (f : UserBounds → List UserBounds) : ∀ (bs : List UserBounds),
    mapBounds f (bs.map .bound) = (bs.flatMap f).map .bound
  | [] => rfl
  | b :: t => by simp [mapBounds, mapBounds_plain f t]

theorem plain_of_eraseLast_eq : ∀ (cs : List UserBounds) (l' : List BoF),
    l'.map eraseLast = (cs.map .bound).map eraseLast →
    ∃ bs' : List UserBounds, l' = bs'.map .bound ∧
      ∀ b' ∈ bs', ∃ c ∈ cs, b'.l = c.l ∧ b'.r = c.r
  | [], l', h => by
    cases l' with
    | nil => exact ⟨[], rfl, by intro b hb; cases hb⟩
    | cons _ _ => simp at h
  | c :: cs, l', h => by
    cases l' with
    | nil => simp at h
    | cons x t =>
      simp only [List.map_cons, List.cons.injEq] at h
      obtain ⟨bs', rfl, hall⟩ := plain_of_eraseLast_eq cs t h.2
      cases x with
      | filler f => simp [eraseLast] at h
      | bound b0 =>
        have h1 := h.1
        simp only [eraseLast, BoF.bound.injEq, UserBounds.mk.injEq] at h1
        refine ⟨b0 :: bs', rfl, ?_⟩
        intro b' hb'
        simp only [List.mem_cons] at hb'
        rcases hb' with rfl | hb'
        · exact ⟨c, List.mem_cons_self .., h1.1, h1.2.1⟩
        · obtain ⟨c', hc', e⟩ := hall b' hb'
          exact ⟨c', List.mem_cons_of_mem _ hc', e⟩

theorem resolve_congr_sides {b c : UserBounds} (hl : b.l = c.l) (hr : b.r = c.r) (n : Nat) :
    resolve b n = resolve c n := by
  unfold resolve
  rw [hl, hr]

/-- what a resolvable bound leaves out is resolvable -/
theorem complementBound_resolves (b : UserBounds) (n : Nat) (h : resolve b n ≠ none) :
    ∀ c ∈ complementBound b n, resolve c n ≠ none := by
  intro c hc
  unfold complementBound at hc
  cases hres : resolve b n with
  | none => exact absurd hres h
  | some p =>
    obtain ⟨lo, hi⟩ := p
    obtain ⟨h1, h2, h3⟩ := resolve_range hres
    simp only [hres, List.mem_append] at hc
    rcases hc with hc | hc
    · by_cases c1 : 1 < lo
      · simp only [c1, if_true, List.mem_singleton] at hc
        subst hc
        have : resolve { l := .some 1, r := .some ((lo : Int) - 1) } n = some (1, lo - 1) := by
          have a1 : ¬ ((1 : Int) = 0 ∨ (1 : Int) > n ∨ (1 : Int) < -(n : Int)) := by omega
          have a2 : ¬ ((lo : Int) - 1 = 0 ∨ (lo : Int) - 1 > n ∨ (lo : Int) - 1 < -(n : Int)) := by
            omega
          have a3 : (lo : Int) - 1 > 0 := by omega
          have a4 : ((lo : Int) - 1).toNat = lo - 1 := by omega
          have a0 : (1 : Int) > 0 := by omega
          have a5 : (1 : Int).toNat ≤ lo - 1 ∧ 1 ≤ (1 : Int).toNat := by
            have : (1 : Int).toNat = 1 := rfl
            omega
          simp only [resolve, resolveSide, if_neg a1, if_neg a2, if_pos a3, if_pos a0, a4, if_pos a5]
          rfl
        rw [this]; simp
      · simp [c1] at hc
    · by_cases c2 : hi < n
      · simp only [c2, if_true, List.mem_singleton] at hc
        subst hc
        have : resolve { l := .some ((hi : Int) + 1), r := .some (n : Int) } n = some (hi + 1, n) := by
          have a1 : ¬ ((hi : Int) + 1 = 0 ∨ (hi : Int) + 1 > n ∨ (hi : Int) + 1 < -(n : Int)) := by
            omega
          have a2 : ¬ ((n : Int) = 0 ∨ (n : Int) > n ∨ (n : Int) < -(n : Int)) := by omega
          have a3 : (hi : Int) + 1 > 0 := by omega
          have a4 : (n : Int) > 0 := by omega
          have a5 : ((hi : Int) + 1).toNat = hi + 1 := by omega
          have a6 : (n : Int).toNat = n := by omega
          have a7 : hi + 1 ≤ n ∧ 1 ≤ hi + 1 := by omega
          simp only [resolve, resolveSide, if_neg a1, if_neg a2, if_pos a3, if_pos a4, a5, a6,
            if_pos a7]
        rw [this]; simp
      · simp [c2] at hc

/-- **C15, `-l`, the run, for a plain request all of whose bounds resolve** (the quantifier of
    C05): no side condition on the rewritten list is left. -/
theorem readAndCutLines_complement_plain (o : Opt) (bl' : UserBoundsList) (input : Bytes)
    (bs : List UserBounds) (hplain : o.bounds.list = bs.map .bound)
    (hres : ∀ b ∈ bs, resolve b (records o.eol.byte input).length ≠ none)
    (hmark : markLast (mapBounds (complementBound · (records o.eol.byte input).length)
      o.bounds.list) = some bl'.list)
    (hd : o.delimiter = [o.eol.byte]) (hty : o.boundsType = .lines)
    (hre : o.regexBag = none) (hjson : o.json = false)
    (hL : LastMarked o.bounds.list)
    (honly : o.onlyDelimited = false) (htrim : o.trim = none) (hg : o.greedyDelimiter = false)
    (hp : o.compressDelimiter = false) (hrepl : o.replaceDelimiter = none)
    (hutf : validUtf8 input = true) (h0 : input ≠ []) (h1 : input ≠ [o.eol.byte]) :
    readAndCutLines { o with complement := true } input =
      readAndCutLines { o with complement := false, bounds := bl' } input := by
  have hz : AllNonzero o.bounds.list := by
    intro b hb
    rw [hplain] at hb
    obtain ⟨b', hb', hbb⟩ := List.mem_map.mp hb
    cases hbb
    exact nonzero_of_resolve (hres b hb')
  refine readAndCutLines_complement o bl' input hmark hd hty hre hjson hz hL honly htrim hg hp hrepl
    hutf h0 h1 (fun _ => ?_)
  have he := markLast_eraseLast _ _ hmark
  rw [hplain, mapBounds_plain] at he
  obtain ⟨bs', hbs', hall⟩ := plain_of_eraseLast_eq _ _ he
  refine ⟨bs', hbs', ?_⟩
  intro b' hb'
  obtain ⟨c, hc, el, er⟩ := hall b' hb'
  rw [resolve_congr_sides el er]
  obtain ⟨b, hbmem, hcb⟩ := List.mem_flatMap.mp hc
  exact complementBound_resolves b _ (hres b hbmem) c hcb

/-! ## executed instances -/

/-- `-d - -j -r = -m -f 2` on `a-b-c⏎d-e-f⏎` is `-f 1,3:3` (and `-f 1,3:`): `a=c⏎d=f⏎`;
    `-m -f 1:2` is `-f 3`; `-m -f 1:` leaves nothing and fails -/
example :
    let o (m : Bool) (l : List BoF) : Opt :=
      { delimiter := [45], bounds := ⟨l, .cont⟩, join := true, complement := m,
        replaceDelimiter := some [61] }
    let input : Bytes := [97, 45, 98, 45, 99, 10, 100, 45, 101, 45, 102, 10]
    markLast (mapBounds (complementBound · 3) [.bound { l := .some 2, r := .some 2, isLast := true }]) =
      some [.bound { l := .some 1, r := .some 1 }, .bound { l := .some 3, r := .some 3, isLast := true }] ∧
    readAndCutStr (o true [.bound { l := .some 2, r := .some 2, isLast := true }]) input =
      Run.ok [97, 61, 99, 10, 100, 61, 102, 10] ∧
    readAndCutStr (o false [.bound { l := .some 1, r := .some 1 },
        .bound { l := .some 3, r := .some 3, isLast := true }]) input =
      Run.ok [97, 61, 99, 10, 100, 61, 102, 10] ∧
    readAndCutStr (o false [.bound { l := .some 1, r := .some 1 },
        .bound { l := .some 3, r := .cont, isLast := true }]) input =
      Run.ok [97, 61, 99, 10, 100, 61, 102, 10] ∧
    readAndCutStr (o true [.bound { l := .some 1, r := .some 2, isLast := true }]) input =
      Run.ok [99, 10, 102, 10] ∧
    readAndCutStr (o true [.bound { l := .some 1, r := .cont, isLast := true }]) input = Run.fail := by
  decide

/-- `-l -m 2` on `a⏎b⏎c⏎` is `-l 1,3` (the first by the buffered algorithm, the second one line
    at a time) -/
example :
    let o (m : Bool) (l : List BoF) : Opt :=
      { delimiter := [10], boundsType := .lines, join := true, complement := m, bounds := ⟨l, .cont⟩ }
    let input : Bytes := [97, 10, 98, 10, 99, 10]
    readAndCutLines (o true [.bound { l := .some 2, r := .some 2, isLast := true }]) input =
      Run.ok [97, 10, 99, 10] ∧
    readAndCutLines (o false [.bound { l := .some 1, r := .some 1 },
        .bound { l := .some 3, r := .some 3, isLast := true }]) input = Run.ok [97, 10, 99, 10] := by
  decide

end Tuc
