import Tuc.Model.CutStr
import Tuc.Model.FastLane
import Tuc.Model.Stream
import Tuc.Lemmas.Run
/-!
# C10 — records are cut independently of one another

* what one record leaves in the scratch buffers never influences the next (`*_scratch_irrelevant`);
* the output for `A ++ B`, `A` ending with an EOL, is the output for `A` followed by the output for
  `B` (`*_append`), and if `A` fails, `A ++ B` fails after delivering exactly the same bytes
  (`*_append_of_fail`).
-/
namespace Tuc

/-! ## scratch buffers -/

/-- general engine: the run of a record does not depend on what the scratch buffers hold -/
theorem cutStr_scratch_irrelevant (line : Bytes) (opt : Opt) (f₀ : List Range) (b₀ eol : Bytes) :
    (cutStr line opt f₀ b₀ eol).1 = (cutStr line opt [] [] eol).1 := rfl

theorem cutRecords_scratch_irrelevant (opt : Opt) (recs : List Bytes) (f₀ : List Range) (b₀ : Bytes) :
    cutRecords opt recs f₀ b₀ = cutRecords opt recs [] [] := by
  induction recs generalizing f₀ b₀ with
  | nil => rfl
  | cons r t ih =>
    simp only [cutRecords]
    rw [cutStr_scratch_irrelevant r opt f₀ b₀, ih (cutStr r opt f₀ b₀ [opt.eol.byte]).2.1,
      ih (cutStr r opt [] [] [opt.eol.byte]).2.1]

/-- fast lane: likewise for its `fields` vector -/
theorem cutStrFastLane_scratch_irrelevant (buf : Bytes) (opt : FastOpt) (f₀ : List Nat) (lif : Side) :
    (cutStrFastLane buf opt f₀ lif).1 = (cutStrFastLane buf opt [] lif).1 := rfl

theorem fastRecords_scratch_irrelevant (opt : FastOpt) (lif : Side) (recs : List Bytes) (f₀ : List Nat) :
    fastRecords opt lif recs f₀ = fastRecords opt lif recs [] := by
  induction recs generalizing f₀ with
  | nil => rfl
  | cons r t ih =>
    simp only [fastRecords]
    rw [cutStrFastLane_scratch_irrelevant r opt f₀, ih (cutStrFastLane r opt f₀ lif).2,
      ih (cutStrFastLane r opt [] lif).2]

/-! ## the record reader -/

theorem splitRecords_append (eol : UInt8) (a b cur : Bytes) :
    splitRecords eol cur (a ++ eol :: b) = splitRecords eol cur (a ++ [eol]) ++ splitRecords eol [] b := by
  induction a generalizing cur with
  | nil =>
    simp only [List.nil_append, splitRecords, if_true]
    simp
  | cons c t ih =>
    simp only [List.cons_append, splitRecords]
    split
    · simp only [List.cons_append, List.cons.injEq, true_and]; exact ih []
    · exact ih (c :: cur)

/-- `A` ends with an EOL ⇒ the records of `A ++ B` are the records of `A`, then those of `B` -/
theorem records_append (eol : UInt8) (a b : Bytes) :
    records eol ((a ++ [eol]) ++ b) = records eol (a ++ [eol]) ++ records eol b := by
  unfold records
  rw [List.append_assoc]
  exact splitRecords_append eol a b []

/-! ## sequencing -/

theorem cutRecords_append (opt : Opt) (r₁ r₂ : List Bytes) (f₀ : List Range) (b₀ : Bytes) :
    cutRecords opt (r₁ ++ r₂) f₀ b₀ = (cutRecords opt r₁ f₀ b₀).seq (cutRecords opt r₂ [] []) := by
  induction r₁ generalizing f₀ b₀ with
  | nil =>
    simp only [List.nil_append, cutRecords, Run.empty_seq]
    exact cutRecords_scratch_irrelevant opt r₂ f₀ b₀
  | cons r t ih =>
    simp only [List.cons_append, cutRecords, ih, Run.seq_assoc]

theorem fastRecords_append (opt : FastOpt) (lif : Side) (r₁ r₂ : List Bytes) (f₀ : List Nat) :
    fastRecords opt lif (r₁ ++ r₂) f₀ = (fastRecords opt lif r₁ f₀).seq (fastRecords opt lif r₂ []) := by
  induction r₁ generalizing f₀ with
  | nil =>
    simp only [List.nil_append, fastRecords, Run.empty_seq]
    exact fastRecords_scratch_irrelevant opt lif r₂ f₀
  | cons r t ih =>
    simp only [List.cons_append, fastRecords, ih, Run.seq_assoc]

/-- general field engine, `-c`, `--json`: output(A ‖ B) = output(A) then output(B) -/
theorem readAndCutStr_append (opt : Opt) (a b : Bytes) :
    readAndCutStr opt ((a ++ [opt.eol.byte]) ++ b) =
      (readAndCutStr opt (a ++ [opt.eol.byte])).seq (readAndCutStr opt b) := by
  unfold readAndCutStr
  rw [records_append, cutRecords_append]

/-- … and if cutting `A` fails, cutting `A ‖ B` fails too, having delivered exactly the same bytes -/
theorem readAndCutStr_append_of_fail (opt : Opt) (a b : Bytes)
    (h : (readAndCutStr opt (a ++ [opt.eol.byte])).status ≠ .ok) :
    readAndCutStr opt ((a ++ [opt.eol.byte]) ++ b) = readAndCutStr opt (a ++ [opt.eol.byte]) := by
  rw [readAndCutStr_append, Run.seq_of_not_ok _ _ h]

/-- fast lane -/
theorem readAndCutFast_append (opt : FastOpt) (a b : Bytes) :
    readAndCutFast opt ((a ++ [opt.eol.byte]) ++ b) =
      (readAndCutFast opt (a ++ [opt.eol.byte])).seq (readAndCutFast opt b) := by
  unfold readAndCutFast
  rw [records_append, fastRecords_append]

theorem readAndCutFast_append_of_fail (opt : FastOpt) (a b : Bytes)
    (h : (readAndCutFast opt (a ++ [opt.eol.byte])).status ≠ .ok) :
    readAndCutFast opt ((a ++ [opt.eol.byte]) ++ b) = readAndCutFast opt (a ++ [opt.eol.byte]) := by
  rw [readAndCutFast_append, Run.seq_of_not_ok _ _ h]

end Tuc
