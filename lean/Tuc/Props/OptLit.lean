import Tuc.Model.OptLit
import Tuc.Props.StreamLoop
import Tuc.Props.C18
import Tuc.Props.C19Argv
import Tuc.Props.BoundsLit

/-!
# Tuc.Props.OptLit — the option records of the engines and the dispatch of `main`: Rust text = model

`Tuc.Model.OptLit` transcribes statement by statement `ForwardBounds` / `StreamOpt` /
`print_field` / `print_bof` / `read_and_cut_bytes_stream` (stream.rs), `FastOpt::try_from`
(fast_lane.rs), `EOL → u8`, `Trim::from_str`, `Opt::default` (options.rs) and the body of `main`
(tuc.rs:258-290).  This file proves each of them equal to its counterpart of the model.

## Headline theorems

NO hypothesis:

* `eolIntoU8_eq`, `trimFromStrLit_eq`, `optDefaultLit_ok` (options.rs);
* `FastOptLit.tryFrom_eq : FastOptLit.tryFrom o = resOfOption (fastOptOf o)` — every option record;
  the `unwrap()` of fast_lane.rs:160 cannot fail (`FastOptLit.tryFrom_ne_panic`);
* `StreamOptLit.tryFrom_nf` — normal form of `StreamOpt::try_from`: the tests of l.122-137
  (`streamFlagsOk`), then `ForwardBounds::try_from`; the `unwrap()`s of l.131, 145, 149 cannot fail;
  `streamOptOf_nf` is the same normal form of the model's `streamOptOf`;
* `streamOptOfLit_toOption : (streamOptOfLit o).toOption = streamOptOf o` (`streamOptOfLit` =
  `StreamOpt::try_from` followed by the `get_last_bound().r` of `read_and_cut_bytes_stream`);
* `tryFrom_toOption` — the same for `ForwardBounds::try_from` / `forwardBoundsOf`;
* `tryFrom_ok`, `getLastBound_of_tryFrom` — `last_bound_idx` is the index of the last bound, the
  `panic!` of `get_last_bound` (l.95) is unreachable on anything `try_from` built;
  `tryFrom_l62_dead` — the `Err` of stream.rs:62 is dead code;
* `parseArgv_run` — every `Opt` that `parse_args` returns has a bound in its bounds list (and the
  flag the model passes to `dispatch` is `opt.fixed_memory.is_some()`);
* **`tucMainLit_eq : tucMainLit regexOk argv segs = tucMain regexOk argv segs`** — `main`, from the
  argument vector on, with the literal `StreamOpt::try_from` / `FastOpt::try_from` / dispatch, is
  the model's `tucMain`: every argument vector, every input, every segmentation.

Hypothesis `hasBoundOrEmpty l` ("the bounds list is empty or contains a bound" — decidable):

* `tryFrom_eq : resMap (·.list.list) (ForwardBoundsLit.tryFrom l) = resOfOption (forwardBoundsOf l)`;
* `streamOptOfLit_eq : streamOptOfLit o = resOfOption (streamOptOf o)`;
* `dispatchLit_eq : dispatchLit o segs = dispatch o o.fixedMemory.isSome segs` (needed only when
  `o.fixedMemory.isSome`), `tucRunLit_eq`;  `dispatchLit_eq_iff` is the exact statement: the two
  differ IF AND ONLY IF `-M` is given, the tests of stream.rs:122-137 pass and the list is a
  non-empty list of fillers.

  It cannot be dropped (`tryFrom_fillers_only`, `dispatch_fillers_only`): on a NON-EMPTY list made
  of fillers only `ForwardBounds::try_from` does not return its
  `Err("Cannot create ForwardBounds from UserBoundsList without bounds")` (l.62): `is_forward_only`
  holds vacuously, the loop of l.28 passes, and l.44-45 `….collect::<Vec<_>>().into()` runs
  `From<Vec<BoundOrFiller>>`, whose `expect("UserBoundsList must contain at least one UserBounds")`
  (userboundslist.rs:49-50) PANICS.  The model's `forwardBoundsOf` maps that panic to `none`, i.e.
  to the clean exit 1 of tuc.rs:265-268.  `tryFrom_panic_iff` / `StreamOptLit.tryFrom_panic_iff`
  say that this is the ONLY way these functions can panic.

  Reachable?  NOT from the command line: `UserBoundsList::from_str` refuses a list without a bound
  (userboundslist.rs:65-67; `boundsListOfString_ok_has_bound`), `parse_args` has no other source of
  bounds (`parseArgv_run`), hence `tucMainLit_eq` without hypothesis.  `-f '{}'`, `-f 'abc'`,
  `-f '{{}}'`, `-f 'a'`, `-f ''`, `-f ' '` are all rejected by `parse_args` (the `#guard`s of
  section 9; exit 1, nothing read).  It IS reachable through the library API: all fields of
  `UserBoundsList` and `Opt` are `pub`, so `StreamOpt::try_from(&Opt { bounds: UserBoundsList {
  list: vec![BoundOrFiller::Filler(..)], .. }, .. })` panics instead of returning `Err` — a latent
  defect of the library, with a dead error branch (l.62) as its symptom.

`print_bof` (`printBofLit_eq`): `printBofLit s … = StreamLoop.printBofCall (s.toModel lif) …` under

* `a ≤ b ∧ b ≤ chunk.length` (the slice of l.217 is in range) — the wrapper of
  `Tuc.Model.StreamLoop` checks the slice on every call, the Rust text only when the bound matches
  (`printBof_slice_witness`); every call site of `cut_bytes_stream` satisfies it
  (`Tuc.Props.StreamLoop`: the literal loop never panics on a slice);
* `printBof … ≠ none` (the `unwrap()` of l.208 does not fail) — otherwise both panic
  (`printBofLit_panic`) but the literal function has already written the filler of l.201
  (`printBof_match_witness`); `printBofLit_eq_of_noNeg`: it holds when no index is negative and
  `1 ≤ curr_field`, `printBofLit_eq_of_opt`: in particular for everything `StreamOpt::try_from`
  accepts (`is_forward_only`, l.25) — `curr_field` starts at 1 and only grows, so the `unwrap()`
  is unreachable in the program.
-/

set_option linter.unusedSimpArgs false

namespace Tuc
namespace OptLit
open BoundsLit (someOrPanic resOfOption resMap)

/-! ## 1. `options.rs` -/

/-- `impl From<EOL> for u8` is the model's `EOL.byte` -/
theorem eolIntoU8_eq (e : EOL) : eolIntoU8 e = e.byte := by
  cases e <;> rfl

/-- `Trim::from_str` is the `trimArg` that `parseArgv` applies to the value of `-t` -/
theorem trimFromStrLit_eq (s : List Char) : trimFromStrLit s = trimArg s := by
  unfold trimFromStrLit
  by_cases h1 : s = ['l']; · subst h1; rfl
  by_cases h2 : s = ['L']; · subst h2; rfl
  by_cases h3 : s = ['r']; · subst h3; rfl
  by_cases h4 : s = ['R']; · subst h4; rfl
  by_cases h5 : s = ['b']; · subst h5; rfl
  by_cases h6 : s = ['B']; · subst h6; rfl
  simp only [h1, h2, h3, h4, h5, h6, or_self, if_false]
  unfold trimArg
  split <;> simp_all

example : trimFromStrLit ['R'] = .ok .right := by decide
example : trimFromStrLit ['l', 'e', 'f', 't'] = .fail := by decide
#guard [[], ['l'], ['L'], ['r'], ['R'], ['b'], ['B'], ['x'], ['l', 'l'], ['B', ' '], ['ł']].all fun s =>
  trimFromStrLit s == trimArg s

/-- `Opt::default()`: the `unwrap()` of options.rs:59 does not fail; the record it builds -/
theorem optDefaultLit_ok :
    ∃ o, optDefaultLit = .ok o ∧ o.delimiter = [0x2d] ∧ o.eol = .newline ∧
      o.bounds = ⟨[.bound { l := .some 1, r := .cont, isLast := true }], .cont⟩ ∧
      o.boundsType = .fields ∧ o.fixedMemory = none ∧ o.replaceDelimiter = none ∧ o.trim = none := by
  refine ⟨_, rfl, ?_, rfl, ?_, rfl, rfl, rfl, rfl⟩
  · decide
  · decide

/-! ## 2. `ForwardBounds::try_from` (stream.rs:19-68) -/

/-- the `try_for_each` of l.28-42 is `noSharedField` on the bounds of the list -/
theorem tryForEach_eq (l : List BoF) : ∀ p : Int, tryForEach p l = noSharedField p (boundsOnly l) := by
  induction l with
  | nil => intro p; rfl
  | cons x t ih =>
    intro p
    cases x with
    | filler f => simp [tryForEach, tryForEachBody, boundsOnly, ih]
    | bound b =>
      obtain ⟨l, r, il, fb⟩ := b
      cases l with
      | some lv =>
        by_cases h : lv ≤ p <;> cases r <;>
          simp [tryForEach, tryForEachBody, boundsOnly, noSharedField, h, ih]
      | cont =>
        by_cases h : (1 : Int) ≤ p <;> cases r <;>
          simp [tryForEach, tryForEachBody, boundsOnly, noSharedField, h, ih]

/-- the `any` of l.47-54 computes the index of the last bound -/
theorem anyRev_eq (l : List BoF) : anyRev none l.zipIdx.reverse = StreamLoop.lastBoundIdx l := by
  unfold StreamLoop.lastBoundIdx
  generalize l.zipIdx.reverse = L
  induction L with
  | nil => rfl
  | cons x L ih =>
    obtain ⟨bof, idx⟩ := x
    cases bof <;> simp [anyRev, ih]

/-- **the hypothesis**: the bounds list is empty or contains a bound -/
def hasBoundOrEmpty (l : List BoF) : Bool := l.isEmpty || !(boundsOnly l).isEmpty

theorem hasBoundOrEmpty_of_bound (l : List BoF) (h : boundsOnly l ≠ []) : hasBoundOrEmpty l = true := by
  simp [hasBoundOrEmpty, h]

theorem lastBoundRight_ne_none : ∀ bs : List UserBounds, bs ≠ [] → lastBoundRight bs ≠ none
  | [], h => absurd rfl h
  | [b], _ => by simp [lastBoundRight]
  | _ :: b :: t, _ => by
    simp only [lastBoundRight]
    exact lastBoundRight_ne_none (b :: t) (by simp)

/-- a list with a bound has a last bound: the index `try_from` computes points at it -/
theorem lastBoundIdx_of_hasBound (l : List BoF) (h : boundsOnly l ≠ []) :
    ∃ i b, StreamLoop.lastBoundIdx l = Option.some i ∧ l[i]? = Option.some (.bound b) ∧
      lastBoundRight (boundsOnly l) = Option.some b.r := by
  have hr := StreamLoop.getLastBound_r l
  have hne := lastBoundRight_ne_none _ h
  cases hi : StreamLoop.lastBoundIdx l with
  | none =>
    simp [StreamLoop.getLastBound, hi] at hr
    exact absurd hr.symm hne
  | some i =>
    obtain ⟨b, hb⟩ := StreamLoop.lastBoundIdx_get l i hi
    refine ⟨i, b, rfl, hb, ?_⟩
    simp [StreamLoop.getLastBound, hi, hb] at hr
    exact hr.symm

theorem fromVec_ok_iff (l : List BoF) (v : UserBoundsList) (h : fromVec l = .ok v) :
    markLast l = Option.some v.list := by
  unfold fromVec at h
  cases hm : markLast l with
  | none => simp [hm] at h
  | some l' => simp [hm] at h; subst h; rfl

theorem fromVec_ne_fail (l : List BoF) : fromVec l ≠ .fail := by
  unfold fromVec
  cases markLast l <;> simp

theorem fromVec_panic_iff (l : List BoF) : fromVec l = .panic ↔ boundsOnly l = [] := by
  rw [← markLast_none]
  unfold fromVec
  cases markLast l <;> simp

/-- **`ForwardBounds::try_from` is `forwardBoundsOf`** (the list it keeps), for every list that is
    empty or contains a bound -/
theorem tryFrom_eq (l : UserBoundsList) (h : hasBoundOrEmpty l.list = true) :
    resMap (fun fb => fb.list.list) (ForwardBoundsLit.tryFrom l) = resOfOption (forwardBoundsOf l) := by
  unfold ForwardBoundsLit.tryFrom forwardBoundsOf
  by_cases he : l.list.isEmpty = true
  · simp only [he, if_true]; rfl
  · simp only [he, if_false]
    by_cases hf : isForwardOnly l.list = true
    · simp only [hf, if_true, tryForEach_eq]
      by_cases hn : noSharedField 0 (boundsOnly l.list) = true
      · simp only [hn, Bool.not_true, if_true, if_false, anyRev_eq]
        cases hv : fromVec l.list with
        | ok v =>
          have hm := fromVec_ok_iff _ _ hv
          obtain ⟨i, b, hi, _, _⟩ := lastBoundIdx_of_hasBound v.list (markLast_some_bounds _ _ hm)
          simp only [Res.bind, hi]
          rfl
        | fail => exact absurd hv (fromVec_ne_fail _)
        | panic =>
          have := (fromVec_panic_iff _).mp hv
          simp [hasBoundOrEmpty, he, this] at h
      · simp only [hn, Bool.not_false, if_true]
        rfl
    · simp only [hf, if_false]; rfl

/-- what an `Ok` of `ForwardBounds::try_from` contains: the re-marked list, and the index of its last bound -/
theorem tryFrom_ok (l : UserBoundsList) (fb : ForwardBoundsLit) (h : ForwardBoundsLit.tryFrom l = .ok fb) :
    fromVec l.list = .ok fb.list ∧ StreamLoop.lastBoundIdx fb.list.list = Option.some fb.lastBoundIdx := by
  unfold ForwardBoundsLit.tryFrom at h
  by_cases he : l.list.isEmpty = true
  · simp [he] at h
  · simp only [he] at h
    by_cases hf : isForwardOnly l.list = true
    · simp only [hf, if_true, tryForEach_eq] at h
      by_cases hn : noSharedField 0 (boundsOnly l.list) = true
      · simp only [hn, Bool.not_true, anyRev_eq] at h
        cases hv : fromVec l.list with
        | ok v =>
          rw [hv] at h
          simp only [Res.bind] at h
          cases hi : StreamLoop.lastBoundIdx v.list with
          | none => simp [hi] at h
          | some i =>
            simp [hi] at h
            subst h
            exact ⟨rfl, hi⟩
        | fail => rw [hv] at h; simp [Res.bind] at h
        | panic => rw [hv] at h; simp [Res.bind] at h
      · simp [hn] at h
    · simp [hf] at h

/-- the `panic!` of `get_last_bound` (l.95) is unreachable on what `try_from` built, and the bound
    found is the last one of the list -/
theorem getLastBound_of_tryFrom (l : UserBoundsList) (fb : ForwardBoundsLit)
    (h : ForwardBoundsLit.tryFrom l = .ok fb) :
    ∃ b, fb.getLastBound = Option.some b ∧ StreamLoop.getLastBound fb.list.list = Option.some b ∧
      lastBoundRight (boundsOnly fb.list.list) = Option.some b.r := by
  obtain ⟨hv, hi⟩ := tryFrom_ok l fb h
  have hm := fromVec_ok_iff _ _ hv
  obtain ⟨i, b, hi', hb, hr⟩ := lastBoundIdx_of_hasBound fb.list.list (markLast_some_bounds _ _ hm)
  rw [hi] at hi'
  cases hi'
  refine ⟨b, ?_, ?_, hr⟩
  · simp [ForwardBoundsLit.getLastBound, hb]
  · simp [StreamLoop.getLastBound, hi, hb]

theorem tryFrom_panic_iff (l : UserBoundsList) :
    ForwardBoundsLit.tryFrom l = .panic ↔ hasBoundOrEmpty l.list = false := by
  constructor
  · intro hp
    cases hh : hasBoundOrEmpty l.list with
    | false => rfl
    | true =>
      have := tryFrom_eq l hh
      rw [hp] at this
      cases hfo : forwardBoundsOf l <;> simp [hfo, resMap, resOfOption] at this
  · intro hh
    simp only [hasBoundOrEmpty, Bool.or_eq_false_iff, Bool.not_eq_false', List.isEmpty_iff] at hh
    obtain ⟨he, hb⟩ := hh
    have hfo : isForwardOnly l.list = true := by
      simp [isForwardOnly, isSortable, isSorted, hasNegativeIndices, hb, isSortedAux]
    unfold ForwardBoundsLit.tryFrom
    simp only [he, hfo, tryForEach_eq, hb, noSharedField, (fromVec_panic_iff _).mpr hb]
    rfl


theorem forwardBoundsOf_of_tryFrom (l : UserBoundsList) (fb : ForwardBoundsLit)
    (h : ForwardBoundsLit.tryFrom l = .ok fb) : forwardBoundsOf l = Option.some fb.list.list := by
  have hh : hasBoundOrEmpty l.list = true := by
    cases hh : hasBoundOrEmpty l.list with
    | true => rfl
    | false => rw [(tryFrom_panic_iff l).mpr hh] at h; cases h
  have := tryFrom_eq l hh
  rw [h] at this
  cases hfo : forwardBoundsOf l with
  | none => simp [hfo, resMap, resOfOption] at this
  | some bs => simp [hfo, resMap, resOfOption] at this; rw [this]

theorem forwardBoundsOf_of_tryFrom_fail (l : UserBoundsList)
    (h : ForwardBoundsLit.tryFrom l = .fail) : forwardBoundsOf l = Option.none := by
  have hh : hasBoundOrEmpty l.list = true := by
    cases hh : hasBoundOrEmpty l.list with
    | true => rfl
    | false => rw [(tryFrom_panic_iff l).mpr hh] at h; cases h
  have := tryFrom_eq l hh
  rw [h] at this
  cases hfo : forwardBoundsOf l with
  | none => rfl
  | some bs => simp [hfo, resMap, resOfOption] at this

theorem forwardBoundsOf_of_tryFrom_panic (l : UserBoundsList)
    (h : ForwardBoundsLit.tryFrom l = .panic) : forwardBoundsOf l = Option.none := by
  have hh := (tryFrom_panic_iff l).mp h
  simp only [hasBoundOrEmpty, Bool.or_eq_false_iff, Bool.not_eq_false', List.isEmpty_iff] at hh
  unfold forwardBoundsOf
  have : fromVec l.list = .panic := by
    unfold fromVec
    rw [(markLast_none _).mpr hh.2]
  simp only [this]
  split <;> try rfl
  split <;> try rfl
  split <;> rfl


/-- without any hypothesis: the model's `Option` forgets whether a refusal is an `Err` or a panic -/
theorem tryFrom_toOption (l : UserBoundsList) :
    (ForwardBoundsLit.tryFrom l).toOption.map (fun fb => fb.list.list) = forwardBoundsOf l := by
  cases ht : ForwardBoundsLit.tryFrom l with
  | ok fb => rw [forwardBoundsOf_of_tryFrom _ _ ht]; rfl
  | fail => rw [forwardBoundsOf_of_tryFrom_fail _ ht]; rfl
  | panic => rw [forwardBoundsOf_of_tryFrom_panic _ ht]; rfl

/-- stream.rs:62 `Err("Cannot create ForwardBounds from UserBoundsList without bounds")` is dead
    code: once `.into()` (l.45) has returned, the list has a bound and the `any` of l.47 finds it -/
theorem tryFrom_l62_dead (l : List BoF) (v : UserBoundsList) (h : fromVec l = .ok v) :
    anyRev none v.list.zipIdx.reverse ≠ none := by
  obtain ⟨i, _, hi, _, _⟩ := lastBoundIdx_of_hasBound v.list (markLast_some_bounds _ _ (fromVec_ok_iff _ _ h))
  rw [anyRev_eq, hi]
  simp

/-- `ForwardBounds::from_str` (used by the unit tests of stream.rs only): no panic, and the list it
    keeps is what the model computes from the same text -/
theorem fromStr_eq (s : List Char) :
    resMap (fun fb => fb.list.list) (ForwardBoundsLit.fromStr s) =
      resOfOption ((boundsListOfString s).toOption.bind forwardBoundsOf) := by
  unfold ForwardBoundsLit.fromStr
  by_cases hw : s.all isWhitespace = true
  · have : boundsListOfString s = .fail := by unfold boundsListOfString; rw [if_pos hw]
    rw [if_pos hw, this]; rfl
  · rw [if_neg hw]
    cases hb : boundsListOfString s with
    | ok l =>
      simp only [Res.bind, Res.toOption, Option.bind_some]
      exact tryFrom_eq l (hasBoundOrEmpty_of_bound _ (boundsListOfString_ok_has_bound s l hb))
    | fail => rfl
    | panic => exact absurd hb (boundsListOfString_never_panics s)

/-- the witness: a non-empty list of fillers.  The Rust function panics (in the `expect` of
    `From<Vec<BoundOrFiller>>`), the model says "refused" -/
theorem tryFrom_fillers_only :
    ForwardBoundsLit.tryFrom ⟨[.filler [0x61]], .cont⟩ = .panic ∧
      forwardBoundsOf ⟨[.filler [0x61]], .cont⟩ = none ∧
      hasBoundOrEmpty [.filler [0x61]] = false := by
  decide

/-- non-vacuity: `1:2,{4=x}` with a filler in front and behind -/
example :
    ForwardBoundsLit.tryFrom
        ⟨[.filler [0x61], .bound { l := .some 1, r := .some 2 }, .bound { l := .some 4, r := .some 4, fallback := some [0x78] },
          .filler [0x62]], .some 4⟩ =
      .ok ⟨⟨[.filler [0x61], .bound { l := .some 1, r := .some 2 },
              .bound { l := .some 4, r := .some 4, isLast := true, fallback := some [0x78] }, .filler [0x62]], .some 4⟩, 2⟩ := by
  decide

/-- the errors of l.24, l.35, l.65 -/
example : ForwardBoundsLit.tryFrom ⟨[], .cont⟩ = .fail := by decide
example : ForwardBoundsLit.tryFrom ⟨[.bound { l := .some 1, r := .some 2 }, .bound { l := .some 2, r := .some 3 }], .some 3⟩
    = .fail := by decide
example : ForwardBoundsLit.tryFrom ⟨[.bound { l := .some 2, r := .some 2 }, .bound { l := .some 1, r := .some 1 }], .some 2⟩
    = .fail := by decide
example : ForwardBoundsLit.tryFrom ⟨[.bound { l := .some (-1), r := .some (-1) }], .cont⟩ = .fail := by decide

/-! ## 3. `StreamOpt::try_from` (stream.rs:118-159) and `get_last_bound` -/

/-- `replace_delimiter` is absent or one byte wide (the negation of l.131) -/
def replOneByte : Option Bytes → Bool
  | Option.none => true
  | Option.some r => r.length == 1

/-- the tests of stream.rs:122-137 pass -/
def streamFlagsOk (o : Opt) : Bool :=
  o.delimiter.length == 1 &&
  !(o.complement || o.greedyDelimiter || o.compressDelimiter || o.json || o.boundsType != .fields) &&
  replOneByte o.replaceDelimiter &&
  !(o.trim.isSome || o.regexBag.isSome || o.onlyDelimited)

/-- the record of l.144-154 -/
def streamBuild (o : Opt) (fb : ForwardBoundsLit) : StreamOptLit :=
  { delimiter := o.delimiter.headD 0, replaceDelimiter := o.replaceDelimiter.map (·.headD 0),
    join := o.join, eol := o.eol, fallbackOob := o.fallbackOob, bounds := fb }

/-- **normal form of `StreamOpt::try_from`**: the tests, then `ForwardBounds::try_from`; the four
    `unwrap()`s (l.131, 145, 149) are guarded by the tests and cannot fail -/
theorem StreamOptLit.tryFrom_nf (o : Opt) :
    StreamOptLit.tryFrom o =
      if streamFlagsOk o then (ForwardBoundsLit.tryFrom o.bounds).bind fun fb => .ok (streamBuild o fb)
      else .fail := by
  unfold StreamOptLit.tryFrom streamFlagsOk
  generalize (o.complement || o.greedyDelimiter || o.compressDelimiter || o.json
    || o.boundsType != .fields) = A
  generalize o.trim.isSome = T
  generalize o.regexBag.isSome = R
  generalize o.onlyDelimited = S
  rcases hd : o.delimiter with _ | ⟨d, _ | ⟨d', t⟩⟩
  · simp
  · rcases hr : o.replaceDelimiter with _ | ⟨_ | ⟨r, _ | ⟨r', rt⟩⟩⟩ <;>
      cases A <;> cases T <;> cases R <;> cases S <;>
      cases ht : ForwardBoundsLit.tryFrom o.bounds <;>
      simp [hd, hr, replaceDelimiterNotOneByte, someOrPanic, Res.bind, replOneByte,
        replaceDelimiterFirst, streamBuild]
  · simp

/-- the model's record for a list of bounds and the `r` of its last bound -/
def streamModel (o : Opt) (bounds : List BoF) (last : Side) : StreamOpt :=
  { delimiter := o.delimiter.headD 0, replaceDelimiter := o.replaceDelimiter.map (·.headD 0),
    join := o.join, eol := o.eol, fallbackOob := o.fallbackOob, bounds := bounds,
    lastInterestingField := last }

/-- the same normal form for the model's `streamOptOf` -/
theorem streamOptOf_nf (o : Opt) :
    streamOptOf o =
      if streamFlagsOk o then
        (forwardBoundsOf o.bounds).bind fun bs =>
          (lastBoundRight (boundsOnly bs)).map fun last => streamModel o bs last
      else Option.none := by
  unfold streamOptOf streamFlagsOk
  generalize (o.complement || o.greedyDelimiter || o.compressDelimiter || o.json
    || o.boundsType != .fields) = A
  generalize o.trim.isSome = T
  generalize o.regexBag.isSome = R
  generalize o.onlyDelimited = S
  rcases hd : o.delimiter with _ | ⟨d, _ | ⟨d', t⟩⟩
  · simp
  · rcases hr : o.replaceDelimiter with _ | ⟨_ | ⟨r, _ | ⟨r', rt⟩⟩⟩ <;>
      cases A <;> cases T <;> cases R <;> cases S <;>
      cases hf : forwardBoundsOf o.bounds <;>
      simp [hd, hr, replOneByte, streamModel] <;>
      cases lastBoundRight (boundsOnly _) <;> simp
  · simp


/-- `StreamOpt::try_from(&opt)` followed by the `get_last_bound().r` of `read_and_cut_bytes_stream`
    (stream.rs:166): the record of `Tuc.Model.Stream` that the engine runs with -/
def streamOptOfLit (o : Opt) : Res StreamOpt :=
  (StreamOptLit.tryFrom o).bind fun s =>
  someOrPanic s.bounds.getLastBound fun b => .ok (s.toModel b.r)

/-- **`StreamOpt::try_from` + `get_last_bound().r` is `streamOptOf`** when the bounds list is empty
    or contains a bound -/
theorem streamOptOfLit_eq (o : Opt) (h : hasBoundOrEmpty o.bounds.list = true) :
    streamOptOfLit o = resOfOption (streamOptOf o) := by
  unfold streamOptOfLit
  rw [StreamOptLit.tryFrom_nf, streamOptOf_nf]
  cases streamFlagsOk o with
  | false => rfl
  | true =>
    simp only [if_true]
    cases ht : ForwardBoundsLit.tryFrom o.bounds with
    | ok fb =>
      obtain ⟨b, hb, _, hlast⟩ := getLastBound_of_tryFrom _ _ ht
      rw [forwardBoundsOf_of_tryFrom _ _ ht]
      simp only [Res.bind, Option.bind_some, hlast, Option.map_some, resOfOption]
      have : (streamBuild o fb).bounds.getLastBound = Option.some b := hb
      rw [this]
      rfl
    | fail => rw [forwardBoundsOf_of_tryFrom_fail _ ht]; rfl
    | panic =>
      rw [(tryFrom_panic_iff _).mp ht] at h
      cases h

/-- without any hypothesis: the model's `Option` forgets whether the refusal is an `Err` or a panic -/
theorem streamOptOfLit_toOption (o : Opt) : (streamOptOfLit o).toOption = streamOptOf o := by
  cases hh : hasBoundOrEmpty o.bounds.list with
  | true => rw [streamOptOfLit_eq o hh]; cases streamOptOf o <;> rfl
  | false =>
    have hp := (tryFrom_panic_iff _).mpr hh
    unfold streamOptOfLit
    rw [StreamOptLit.tryFrom_nf, streamOptOf_nf, hp, forwardBoundsOf_of_tryFrom_panic _ hp]
    cases streamFlagsOk o <;> rfl

/-- when `StreamOpt::try_from` panics: exactly when its own tests pass and the bounds list is a
    non-empty list of fillers -/
theorem StreamOptLit.tryFrom_panic_iff (o : Opt) :
    StreamOptLit.tryFrom o = .panic ↔ (streamFlagsOk o = true ∧ hasBoundOrEmpty o.bounds.list = false) := by
  rw [StreamOptLit.tryFrom_nf, ← OptLit.tryFrom_panic_iff]
  cases streamFlagsOk o with
  | false => simp
  | true =>
    simp only [if_true, true_and]
    cases ForwardBoundsLit.tryFrom o.bounds <;> simp [Res.bind]

/-- the record that an `Ok` of `StreamOpt::try_from` carries; `get_last_bound` cannot panic on it -/
theorem StreamOptLit.tryFrom_ok (o : Opt) (s : StreamOptLit) (h : StreamOptLit.tryFrom o = .ok s) :
    streamFlagsOk o = true ∧ ForwardBoundsLit.tryFrom o.bounds = .ok s.bounds ∧ s = streamBuild o s.bounds ∧
      ∃ b, s.bounds.getLastBound = Option.some b ∧ streamOptOf o = Option.some (s.toModel b.r) := by
  rw [StreamOptLit.tryFrom_nf] at h
  cases hf : streamFlagsOk o with
  | false => simp [hf] at h
  | true =>
    simp only [hf, if_true] at h
    cases ht : ForwardBoundsLit.tryFrom o.bounds with
    | ok fb =>
      simp only [ht, Res.bind, Res.ok.injEq] at h
      subst h
      refine ⟨rfl, rfl, rfl, ?_⟩
      obtain ⟨b, hb, _, hlast⟩ := getLastBound_of_tryFrom _ _ ht
      refine ⟨b, hb, ?_⟩
      rw [streamOptOf_nf, hf, forwardBoundsOf_of_tryFrom _ _ ht]
      simp only [if_true, Option.bind_some, hlast, Option.map_some]
      rfl
    | fail => simp [ht, Res.bind] at h
    | panic => simp [ht, Res.bind] at h


/-- `tuc -M 1 -d - …` with the bounds given: the `Opt` of the examples -/
def exOpt (bounds : List BoF) (repl : Option Bytes := none) : Opt :=
  { delimiter := [0x2d], bounds := ⟨bounds, .cont⟩, replaceDelimiter := repl, join := repl.isSome,
    fixedMemory := some 1024 }

/-- non-vacuity: `-f 1,3: -r /` is accepted, `last_bound_idx = 1`, both one-byte `unwrap()`s pass -/
example :
    StreamOptLit.tryFrom (exOpt [.bound { l := .some 1, r := .some 1 }, .bound { l := .some 3, r := .cont }] (some [0x2f])) =
      .ok { delimiter := 0x2d, replaceDelimiter := some 0x2f, join := true, eol := .newline, fallbackOob := none,
            bounds := ⟨⟨[.bound { l := .some 1, r := .some 1 }, .bound { l := .some 3, r := .cont, isLast := true }], .cont⟩, 1⟩ } := by
  decide

/-- l.131: a replacement that is not one byte wide; l.122: a delimiter that is not -/
example : StreamOptLit.tryFrom (exOpt [.bound { l := .some 1, r := .some 1 }] (some [])) = .fail := by decide
example : StreamOptLit.tryFrom (exOpt [.bound { l := .some 1, r := .some 1 }] (some [0x2f, 0x2f])) = .fail := by decide
example : StreamOptLit.tryFrom { exOpt [.bound { l := .some 1, r := .some 1 }] with delimiter := [] } = .fail := by decide
example : StreamOptLit.tryFrom { exOpt [.bound { l := .some 1, r := .some 1 }] with delimiter := [0xc3, 0xa9] } = .fail := by
  decide

/-- the witness for `hasBoundOrEmpty` in `streamOptOfLit_eq`: the Rust function panics, the model
    refuses -/
theorem streamOpt_fillers_only :
    StreamOptLit.tryFrom (exOpt [.filler [0x61]]) = .panic ∧ (streamOptOf (exOpt [.filler [0x61]])).isNone = true := by
  decide

/-! ## 4. `print_field`, `print_bof` (stream.rs:171-233) -/

theorem printFieldLit_eq (buffer : Bytes) (delim : UInt8) (p : Bool) :
    printFieldLit buffer delim p = Run.ok ((if p then [delim] else []) ++ buffer) := by
  cases p <;> rfl

theorem getD_eq_joiner (s : StreamOptLit) (lif : Side) :
    s.replaceDelimiter.getD s.delimiter = (s.toModel lif).joiner := rfl

theorem printBofLit_eq (s : StreamOptLit) (lif : Side) (i : Nat) (k : Int) (chunk : Bytes) (a b : Nat)
    (tr fc : Bool) (hs : a ≤ b ∧ b ≤ chunk.length)
    (hm : printBof (s.toModel lif) i k tr (slice chunk a b) fc ≠ none) :
    printBofLit s i k chunk a b tr fc = StreamLoop.printBofCall (s.toModel lif) i k chunk a b tr fc := by
  unfold StreamLoop.printBofCall
  rw [if_pos hs]
  unfold printBof at hm ⊢
  unfold printBofLit printBofFiller printBofBound ForwardBoundsLit.get
  simp only [printFieldLit_eq, getD_eq_joiner s lif, if_pos hs]
  have hb : (s.toModel lif).bounds = s.bounds.list.list := rfl
  have hj : (s.toModel lif).join = s.join := rfl
  rw [hb] at hm ⊢
  rw [hj] at hm ⊢
  generalize (s.toModel lif).joiner = j at hm ⊢
  rcases h1 : s.bounds.list.list[i]? with _ | ⟨b1 | f⟩
  · simp [h1, Run.seq, Run.empty, Run.ok]
  · have h2 := h1
    rcases hmk : b1.matches k with _ | ⟨_ | _⟩
    · simp [h1, hmk] at hm
    · simp [h1, hmk, Run.seq, Run.empty, Run.ok]
    · simp only [h1, h2, hmk]
      generalize (fc && decide (b1.r = Side.some k)) = C
      generalize (s.join && !b1.isLast) = J
      generalize (!tr && decide (k > 1) && decide (b1.l ≠ Side.some k)) = P
      cases C <;> cases J <;> cases P <;> simp [Run.seq, Run.empty, Run.ok]
  · rcases h2 : s.bounds.list.list[i + 1]? with _ | ⟨b1 | f'⟩
    · simp [h1, h2, Run.seq, Run.empty, Run.ok]
    · rcases hmk : b1.matches k with _ | ⟨_ | _⟩
      · simp [h1, h2, hmk] at hm
      · simp [h1, h2, hmk, Run.seq, Run.empty, Run.ok]
      · simp only [h1, h2, hmk]
        generalize (fc && decide (b1.r = Side.some k)) = C
        generalize (s.join && !b1.isLast) = J
        generalize (!tr && decide (k > 1) && decide (b1.l ≠ Side.some k)) = P
        cases C <;> cases J <;> cases P <;> simp [Run.seq, Run.empty, Run.ok]
    · simp [h1, h2, Run.seq, Run.empty, Run.ok]


theorem noNeg_getElem (l : List BoF) (h : hasNegativeIndices l = false) :
    ∀ (i : Nat) (b : UserBounds), l[i]? = Option.some (.bound b) → b.l.isNeg = false ∧ b.r.isNeg = false := by
  induction l with
  | nil => intro i b hb; simp at hb
  | cons x t ih =>
    intro i b hb
    cases i with
    | zero =>
      simp only [List.getElem?_cons_zero, Option.some.injEq] at hb
      subst hb
      simpa [hasNegativeIndices, boundsOnly] using And.left (by
        simpa [hasNegativeIndices, boundsOnly, Bool.or_eq_false_iff] using h :
          (b.l.isNeg = false ∧ b.r.isNeg = false) ∧ _)
    | succ i =>
      have ht : hasNegativeIndices t = false := by
        cases x <;> simp_all [hasNegativeIndices, boundsOnly]
      exact ih ht i b (by simpa using hb)

/-- with no negative index and a field number ≥ 1 the `unwrap()` of l.208 cannot fail -/
theorem printBof_ne_none_of_noNeg (o : StreamOpt) (hneg : hasNegativeIndices o.bounds = false)
    (i : Nat) (k : Int) (hk : 1 ≤ k) (tr : Bool) (p : Bytes) (fc : Bool) :
    printBof o i k tr p fc ≠ none := by
  have key : ∀ (i' : Nat) (b : UserBounds), o.bounds[i']? = Option.some (.bound b) → b.matches k ≠ none :=
    fun i' b hb => by
      obtain ⟨h1, h2⟩ := noNeg_getElem _ hneg i' b hb
      exact StreamLoop.matches_ne_none b k hk h1 h2
  unfold printBof
  rcases h1 : o.bounds[i]? with _ | ⟨b1 | f⟩
  · simp [h1]
  · have := key i b1 h1
    rcases hmk : b1.matches k with _ | ⟨_ | _⟩
    · exact absurd hmk this
    · simp [h1, hmk]
    · simp only [h1, hmk]; split <;> simp
  · rcases h2 : o.bounds[i + 1]? with _ | ⟨b1 | f'⟩
    · simp [h1, h2]
    · have := key (i + 1) b1 h2
      rcases hmk : b1.matches k with _ | ⟨_ | _⟩
      · exact absurd hmk this
      · simp [h1, h2, hmk]
      · simp only [h1, h2, hmk]; split <;> simp
    · simp [h1, h2]


/-- … in particular when no index is negative and the field number is at least 1 (the hypotheses of
    `Tuc.Props.StreamLoop`) -/
theorem printBofLit_eq_of_noNeg (s : StreamOptLit) (lif : Side) (i : Nat) (k : Int) (chunk : Bytes)
    (a b : Nat) (tr fc : Bool) (hs : a ≤ b ∧ b ≤ chunk.length)
    (hneg : hasNegativeIndices s.bounds.list.list = false) (hk : 1 ≤ k) :
    printBofLit s i k chunk a b tr fc = StreamLoop.printBofCall (s.toModel lif) i k chunk a b tr fc :=
  printBofLit_eq s lif i k chunk a b tr fc hs
    (printBof_ne_none_of_noNeg (s.toModel lif) hneg i k hk tr _ fc)

/-- when the `unwrap()` of l.208 fails both sides panic (the bytes written before differ:
    `printBof_match_witness`) -/
theorem printBofLit_panic (s : StreamOptLit) (lif : Side) (i : Nat) (k : Int) (chunk : Bytes) (a b : Nat)
    (tr fc : Bool) (hs : a ≤ b ∧ b ≤ chunk.length)
    (hm : printBof (s.toModel lif) i k tr (slice chunk a b) fc = none) :
    (printBofLit s i k chunk a b tr fc).1.status = .panic ∧
      (StreamLoop.printBofCall (s.toModel lif) i k chunk a b tr fc).1.status = .panic := by
  constructor
  · unfold printBof at hm
    unfold printBofLit printBofFiller printBofBound ForwardBoundsLit.get
    have hb : (s.toModel lif).bounds = s.bounds.list.list := rfl
    rw [hb] at hm
    rcases h1 : s.bounds.list.list[i]? with _ | ⟨b1 | f⟩
    · simp [h1] at hm
    · rcases hmk : b1.matches k with _ | ⟨_ | _⟩
      · simp [h1, hmk, Run.seq, Run.empty, Run.panic]
      · simp [h1, hmk] at hm
      · simp only [h1, hmk] at hm; split at hm <;> simp at hm
    · rcases h2 : s.bounds.list.list[i + 1]? with _ | ⟨b1 | f'⟩
      · simp [h1, h2] at hm
      · rcases hmk : b1.matches k with _ | ⟨_ | _⟩
        · simp [h1, h2, hmk, Run.seq, Run.ok, Run.panic]
        · simp [h1, h2, hmk] at hm
        · simp only [h1, h2, hmk] at hm; split at hm <;> simp at hm
      · simp [h1, h2] at hm
  · unfold StreamLoop.printBofCall
    rw [if_pos hs, hm]
    rfl

/-- the option record of the `print_bof` examples: `-d - -f <bounds>` -/
def exStream (bounds : List BoF) (join : Bool := false) : StreamOptLit :=
  { delimiter := 0x2d, replaceDelimiter := none, join := join, eol := .newline, fallbackOob := none,
    bounds := ⟨⟨bounds, .cont⟩, 0⟩ }

/-- the slice hypothesis cannot be dropped: `print_bof(.., chunk = "ab", 2, 1, ..)` on field 1 while
    waiting for field 2 does not evaluate `&chunk[2..1]` (l.217 is behind the test of l.208); the
    wrapper of `Tuc.Model.StreamLoop` checks the slice first -/
theorem printBof_slice_witness :
    printBofLit (exStream [.bound { l := .some 2, r := .some 2, isLast := true }]) 0 1 [0x61, 0x62] 2 1 false true
        = (Run.empty, 0) ∧
      StreamLoop.printBofCall ((exStream [.bound { l := .some 2, r := .some 2, isLast := true }]).toModel .cont)
        0 1 [0x61, 0x62] 2 1 false true = (Run.panic, 0) := by
  decide

/-- the `matches` hypothesis cannot be dropped: a filler in front of a bound with a negative index.
    The Rust function writes the filler (l.201) and then panics in the `unwrap()` of l.208; the
    model's `printBof` reports the panic without the filler -/
theorem printBof_match_witness :
    printBofLit (exStream [.filler [0x78], .bound { l := .some (-1), r := .some (-1), isLast := true }])
        0 1 [0x61] 0 1 false true = (⟨[0x78], .panic⟩, 1) ∧
      StreamLoop.printBofCall
        ((exStream [.filler [0x78], .bound { l := .some (-1), r := .some (-1), isLast := true }]).toModel .cont)
        0 1 [0x61] 0 1 false true = (Run.panic, 0) := by
  decide

/-- non-vacuity: `x{1:2}`, join; second field of the range, complete → delimiter, field, `bof_idx` stays;
    first field of `{2}` after a filler → filler, field, joiner, `bof_idx` moves past both -/
example :
    printBofLit (exStream [.filler [0x78], .bound { l := .some 1, r := .some 2 }, .bound { l := .some 3, r := .some 3, isLast := true }] true)
        1 2 [0x61, 0x2d, 0x62, 0x2d] 2 3 false true = (Run.ok [0x2d, 0x62, 0x2d], 2) := by
  decide
example :
    printBofLit (exStream [.filler [0x78], .bound { l := .some 1, r := .some 1 }, .bound { l := .some 3, r := .some 3, isLast := true }] true)
        0 1 [0x61, 0x2d, 0x62, 0x2d] 0 1 false true = (Run.ok [0x78, 0x61, 0x2d], 2) := by
  decide

/-! ## 5. `FastOpt::try_from` (fast_lane.rs:139-171) -/

/-- **`FastOpt::try_from` is `fastOptOf`**, every option record -/

theorem FastOptLit.tryFrom_eq (o : Opt) : FastOptLit.tryFrom o = resOfOption (fastOptOf o) := by
  unfold FastOptLit.tryFrom fastOptOf
  generalize (o.complement || o.greedyDelimiter || o.compressDelimiter || o.json
    || o.boundsType != .fields || o.replaceDelimiter.isSome || o.regexBag.isSome) = A
  rcases hd : o.delimiter with _ | ⟨d, _ | ⟨d', t⟩⟩
  · rfl
  · cases A <;> simp [someOrPanic, resOfOption]
  · simp [resOfOption]

theorem FastOptLit.tryFrom_ne_panic (o : Opt) : FastOptLit.tryFrom o ≠ .panic := by
  rw [FastOptLit.tryFrom_eq]
  cases fastOptOf o <;> simp [resOfOption]

/-! ## 6. what `parse_args` guarantees about the `Opt` it returns -/

/-- a result of `parse_args` that is not an `Opt` -/
def NotRun (r : ArgvResult) : Prop := ∀ o fm rt, r ≠ .run o fm rt

/-- `m` leaves `parse_args` only with a result that is not an `Opt`, and what it returns satisfies `Q` -/
def Post {σ α : Type} (m : P σ α) (Q : α → Prop) : Prop :=
  ∀ s, match m s with
    | .done r => NotRun r
    | .next a _ => Q a

theorem Post.bind {σ α β : Type} {m : P σ α} {f : α → P σ β} {Q : α → Prop} {R : β → Prop}
    (hm : Post m Q) (hf : ∀ a, Q a → Post (f a) R) : Post (m >>= f) R := by
  intro s
  show match P.bind m f s with | .done r => NotRun r | .next a _ => R a
  unfold P.bind
  have := hm s
  cases h : m s with
  | done r => rw [h] at this; exact this
  | next a s' => rw [h] at this; exact hf a this s'

theorem Post.pure {σ α : Type} {Q : α → Prop} (a : α) (h : Q a) : Post (pure a : P σ α) Q := fun _ => h

theorem Post.exitIf {σ : Type} (c : Bool) (r : ArgvResult) (hr : NotRun r) :
    Post (P.exitIf c r : P σ Unit) (fun _ => True) := by
  intro s; unfold P.exitIf; cases c
  · exact trivial
  · exact hr

theorem Post.test {σ : Type} (f : σ → Bool) : Post (P.test f) (fun _ => True) := fun _ => trivial

theorem Post.flag {σ : Type} (ops : Ops σ) (k : Keys) : Post (ops.flag k) (fun _ => True) := fun _ => trivial

theorem notRun_reject : NotRun .reject := fun _ _ _ h => by cases h
theorem notRun_panic : NotRun .panic := fun _ _ _ h => by cases h
theorem notRun_help : NotRun .help := fun _ _ _ h => by cases h
theorem notRun_version : NotRun .version := fun _ _ _ h => by cases h

/-- `opt_value_from_str(keys)?`: a value that is returned was accepted by the parser `f` -/
theorem Post.value {σ α : Type} (ops : Ops σ) (k : Keys) (f : Arg → Res α) :
    Post (ops.value k f) (fun r => ∀ a, r = some a → ∃ v, f v = .ok a) := by
  intro s
  unfold Ops.value
  cases ops.optValue k s with
  | error e => exact notRun_reject
  | ok o =>
    cases o with
    | none => intro a h; cases h
    | some p =>
      obtain ⟨v, s'⟩ := p
      dsimp only
      cases h : f v with
      | ok a => intro a' h'; cases h'; exact ⟨v, h⟩
      | fail => exact notRun_reject
      | panic => exact notRun_panic

theorem Post.weaken {σ α : Type} {m : P σ α} {Q R : α → Prop} (hm : Post m Q) (h : ∀ a, Q a → R a) :
    Post m R := by
  intro s
  have := hm s
  cases hms : m s with
  | done r => rw [hms] at this; exact this
  | next a s' => rw [hms] at this; exact h a this

theorem Post.valueTrue {σ α : Type} (ops : Ops σ) (k : Keys) (f : Arg → Res α) :
    Post (ops.value k f) (fun _ => True) := (Post.value ops k f).weaken fun _ _ => trivial

/-- an optional bounds argument, if present, contains a bound -/
def GoodB (x : Option UserBoundsList) : Prop := ∀ l, x = some l → boundsOnly l.list ≠ []

theorem Post.valueBounds {σ : Type} (ops : Ops σ) (k : Keys) : Post (ops.value k boundsArg) GoodB :=
  (Post.value ops k boundsArg).weaken fun r h l hl => by
    obtain ⟨v, hv⟩ := h l hl
    exact boundsListOfString_ok_has_bound v l hv

theorem Post.fallbackOob {σ : Type} (ops : Ops σ) : Post ops.fallbackOob (fun _ => True) := by
  intro s
  unfold Ops.fallbackOob
  cases ops.optValue kFallback s with
  | error e => cases e <;> first | exact trivial | exact notRun_reject
  | ok o =>
    cases o with
    | none => exact trivial
    | some p => exact trivial

theorem Post.ite_true {σ α : Type} (c : Prop) [Decidable c] {a b : P σ α}
    (ha : Post a (fun _ => True)) (hb : Post b (fun _ => True)) :
    Post (if c then a else b) (fun _ => True) := by
  by_cases hc : c <;> simp only [hc, if_true, if_false] <;> assumption

/-- the step `maybe_fields = Some(UserBoundsList::from_str("1:").unwrap())` -/
theorem Post.defaultStep {σ : Type} (c : Bool) (x : Option UserBoundsList) (hx : GoodB x) :
    Post (if c = true then P.unwrap ((boundsListOfString ['1', ':']).toOption.map some)
          else (Pure.pure x : P σ (Option UserBoundsList))) GoodB := by
  intro s
  cases c
  · exact hx
  · simp only [if_true]
    unfold P.unwrap
    cases h : boundsListOfString ['1', ':'] with
    | ok l0 =>
      simp only [Res.toOption, Option.map_some]
      intro l hl
      cases hl
      exact boundsListOfString_ok_has_bound _ _ h
    | fail => exact notRun_panic
    | panic => exact notRun_panic

/-- `maybe_fields.or(maybe_characters).or(maybe_bytes).or(maybe_lines).unwrap()` -/
theorem Post.unwrapOr {σ : Type} (mf mc mb ml : Option UserBoundsList)
    (h1 : GoodB mf) (h2 : GoodB mc) (h3 : GoodB mb) (h4 : GoodB ml) :
    Post (P.unwrap (mf.or (mc.or (mb.or ml))) : P σ UserBoundsList) (fun b => boundsOnly b.list ≠ []) := by
  intro s
  unfold P.unwrap
  cases mf with
  | some l => exact h1 l rfl
  | none =>
    cases mc with
    | some l => exact h2 l rfl
    | none =>
      cases mb with
      | some l => exact h3 l rfl
      | none =>
        cases ml with
        | some l => exact h4 l rfl
        | none => exact notRun_panic

/-- what `main` can rely on about the `Opt` it gets: the bounds list contains a bound, and the
    flag the model passes next to it is `opt.fixed_memory.is_some()` -/
def GoodRun (r : ArgvResult) : Prop :=
  ∀ o fm rt, r = .run o fm rt → boundsOnly o.bounds.list ≠ [] ∧ o.fixedMemory.isSome = fm

theorem goodRun_run (o : Opt) (fm : Bool) (rt : Option Arg) (hb : boundsOnly o.bounds.list ≠ [])
    (hf : o.fixedMemory.isSome = fm) : GoodRun (.run o fm rt) := by
  intro o' fm' rt' h
  cases h
  exact ⟨hb, hf⟩

attribute [local irreducible] Post in
theorem parseWith_post {σ : Type} (ops : Ops σ) (regexOk : Arg → Bool) :
    Post (parseWith ops regexOk) GoodRun := by
  unfold parseWith
  repeat' first
    | exact Post.defaultStep _ _ (by assumption)
    | exact Post.exitIf _ _ notRun_help
    | exact Post.exitIf _ _ notRun_reject
    | exact Post.exitIf _ _ notRun_version
    | exact Post.test _
    | exact Post.fallbackOob _
    | exact Post.flag _ _
    | exact Post.valueBounds _ _
    | exact Post.valueTrue _ _ _
    | exact Post.unwrapOr _ _ _ _ (by assumption) (by assumption) (by assumption) (by assumption)
    | exact Post.pure _ (goodRun_run _ _ _ (by assumption) (by simp))
    | exact Post.pure _ trivial
    | apply Post.ite_true
    | apply Post.bind
    | intro _
    | dsimp only

/-- **Every `Opt` that `parse_args` returns has a bound in its bounds list** (so neither the
    `expect` of `From<Vec<BoundOrFiller>>` reached from stream.rs:45 nor the `panic!` of
    `get_last_bound` can fire in `main`), and `opt.fixed_memory.is_some()` is the flag of the model. -/
theorem parseArgv_run (regexOk : Arg → Bool) (argv : List Arg) (o : Opt) (fm : Bool) (rt : Option Arg)
    (h : parseArgv regexOk argv = .run o fm rt) :
    boundsOnly o.bounds.list ≠ [] ∧ o.fixedMemory.isSome = fm := by
  have := parseWith_post picoOps regexOk argv
  unfold parseArgv at h
  cases hp : parseWith picoOps regexOk argv with
  | done r => rw [hp] at this h; exact absurd h (this o fm rt)
  | next r s => rw [hp] at this h; exact this o fm rt h

/-! ## 7. `main` (tuc.rs:258-290) -/

/-- the dispatch of `main` is `dispatch` unless `StreamOpt::try_from` panics under `-M` -/
theorem dispatchLit_eq_of_ne_panic (o : Opt) (segs : List Bytes)
    (h : o.fixedMemory.isSome = true → StreamOptLit.tryFrom o ≠ .panic) :
    dispatchLit o segs = dispatch o o.fixedMemory.isSome segs := by
  unfold dispatchLit dispatch
  by_cases hfm : o.fixedMemory.isSome = true
  · simp only [hfm, if_true]
    cases ht : StreamOptLit.tryFrom o with
    | ok s =>
      obtain ⟨_, _, _, b, hb, hso⟩ := StreamOptLit.tryFrom_ok o s ht
      simp only [hso, readAndCutBytesStreamLit, hb]
    | fail =>
      have := streamOptOfLit_toOption o
      simp only [streamOptOfLit, ht, Res.bind, Res.toOption] at this
      simp only [← this]
    | panic => exact absurd ht (h hfm)
  · simp only [hfm, Bool.false_eq_true, if_false, FastOptLit.tryFrom_eq]
    by_cases h1 : o.boundsType = .bytes
    · simp only [h1, if_true]
    · by_cases h2 : o.boundsType = .lines
      · simp [h2]
      · simp only [h1, h2, if_false]
        cases fastOptOf o <;> rfl

/-- **the dispatch of `main` is `dispatch`**, for every option record whose bounds list is empty or
    contains a bound (needed under `-M` only), every input and every segmentation -/
theorem dispatchLit_eq (o : Opt) (segs : List Bytes)
    (h : o.fixedMemory.isSome = true → hasBoundOrEmpty o.bounds.list = true) :
    dispatchLit o segs = dispatch o o.fixedMemory.isSome segs :=
  dispatchLit_eq_of_ne_panic o segs fun hfm hp => by
    rw [((StreamOptLit.tryFrom_panic_iff o).mp hp).2] at h
    exact absurd (h hfm) (by simp)

/-- **exactly when** the two differ: `-M`, the tests of `StreamOpt::try_from` pass, and the bounds
    list is a non-empty list of fillers (then `main` panics where the model exits with status 1) -/
theorem dispatchLit_eq_iff (o : Opt) (segs : List Bytes) :
    dispatchLit o segs = dispatch o o.fixedMemory.isSome segs ↔
      ¬(o.fixedMemory.isSome = true ∧ streamFlagsOk o = true ∧ hasBoundOrEmpty o.bounds.list = false) := by
  constructor
  · rintro heq ⟨hfm, hflags, hb⟩
    have hp := (StreamOptLit.tryFrom_panic_iff o).mpr ⟨hflags, hb⟩
    have hso : streamOptOf o = none := by
      rw [← streamOptOfLit_toOption]
      simp only [streamOptOfLit, hp, Res.bind, Res.toOption]
    unfold dispatchLit dispatch at heq
    simp only [hfm, if_true, hp, hso] at heq
    cases heq
  · intro h
    exact dispatchLit_eq_of_ne_panic o segs fun hfm hp =>
      h ⟨hfm, (StreamOptLit.tryFrom_panic_iff o).mp hp⟩

/-- the witness for the hypothesis of `dispatchLit_eq`: under `-M` a non-empty bounds list made of
    fillers makes the Rust `main` panic where the model exits with status 1 -/
theorem dispatch_fillers_only :
    dispatchLit (exOpt [.filler [0x61]]) [[0x61, 0x0a]] = Option.some Run.panic ∧
      dispatch (exOpt [.filler [0x61]]) true [[0x61, 0x0a]] = Option.none := by
  decide

theorem tucRunLit_eq (o : Opt) (regexText : Option Arg) (segs : List Bytes)
    (h : o.fixedMemory.isSome = true → hasBoundOrEmpty o.bounds.list = true) :
    tucRunLit o regexText segs = tucRun o o.fixedMemory.isSome regexText segs := by
  unfold tucRunLit tucRun
  cases compileBag o regexText with
  | none => rfl
  | some bag =>
    simp only
    rw [dispatchLit_eq { o with regexBag := bag } segs h]

/-- **`main` of `src/bin/tuc.rs`, with the literal option records and dispatch, is `tucMain`**:
    every argument vector, every input, every segmentation of the reads — the hypothesis of
    `dispatchLit_eq` is established by `parse_args` (`parseArgv_run`) -/
theorem tucMainLit_eq (regexOk : Arg → Bool) (argv : List Arg) (segs : List Bytes) :
    tucMainLit regexOk argv segs = tucMain regexOk argv segs := by
  unfold tucMainLit tucMain
  cases hp : parseArgv regexOk argv with
  | help => rfl
  | version => rfl
  | reject => rfl
  | panic => rfl
  | run o fm rt =>
    obtain ⟨hb, hf⟩ := parseArgv_run regexOk argv o fm rt hp
    simp only
    rw [tucRunLit_eq o rt segs (fun _ => hasBoundOrEmpty_of_bound _ hb), hf]

/-- no `unwrap` / `expect` / `panic!` of `StreamOpt::try_from`, `ForwardBounds::try_from`,
    `get_last_bound` or `FastOpt::try_from` can fire on an `Opt` that `parse_args` returned -/
theorem parsed_no_panic (regexOk : Arg → Bool) (argv : List Arg) (o : Opt) (fm : Bool) (rt : Option Arg)
    (h : parseArgv regexOk argv = .run o fm rt) :
    StreamOptLit.tryFrom o ≠ .panic ∧ FastOptLit.tryFrom o ≠ .panic ∧
      ∀ s, StreamOptLit.tryFrom o = .ok s → s.bounds.getLastBound ≠ none := by
  obtain ⟨hb, _⟩ := parseArgv_run regexOk argv o fm rt h
  refine ⟨?_, FastOptLit.tryFrom_ne_panic o, ?_⟩
  · intro hp
    have := ((StreamOptLit.tryFrom_panic_iff o).mp hp).2
    rw [hasBoundOrEmpty_of_bound _ hb] at this
    cases this
  · intro s hs
    obtain ⟨_, _, _, b, hb', _⟩ := StreamOptLit.tryFrom_ok o s hs
    rw [hb']
    simp

/-! ## 8. `read_and_cut_bytes_stream` down to the literal loops of `Tuc.Model.StreamLoop` -/

/-- for everything `StreamOpt::try_from` accepts, `print_bof` as transcribed here is the wrapper the
    literal loop of `Tuc.Model.StreamLoop` calls (field numbers ≥ 1, slices in range) -/
theorem printBofLit_eq_of_opt (o : Opt) (s : StreamOptLit) (h : StreamOptLit.tryFrom o = .ok s) (lif : Side)
    (i : Nat) (k : Int) (hk : 1 ≤ k) (chunk : Bytes) (a b : Nat) (tr fc : Bool)
    (hs : a ≤ b ∧ b ≤ chunk.length) :
    printBofLit s i k chunk a b tr fc = StreamLoop.printBofCall (s.toModel lif) i k chunk a b tr fc := by
  obtain ⟨_, _, _, b', _, hso⟩ := StreamOptLit.tryFrom_ok o s h
  exact printBofLit_eq_of_noNeg s lif i k chunk a b tr fc hs (StreamLoop.streamOptOf_noNeg o _ hso) hk

/-- `read_and_cut_bytes_stream` as transcribed here (callee: the machine of `Tuc.Model.Stream`) is
    the fully literal `StreamLoop.readAndCutBytesStreamLoop` on every reader whose reads are
    non-empty -/
theorem readAndCutBytesStreamLit_loop (o : Opt) (s : StreamOptLit) (h : StreamOptLit.tryFrom o = .ok s)
    (lif : Side) (segs : List Bytes) (hsegs : ∀ x ∈ segs, x ≠ []) :
    readAndCutBytesStreamLit s segs = StreamLoop.readAndCutBytesStreamLoop (s.toModel lif) segs := by
  obtain ⟨_, ht, _, b, hb, hso⟩ := StreamOptLit.tryFrom_ok o s h
  obtain ⟨b', hb', hg, _⟩ := getLastBound_of_tryFrom _ _ ht
  rw [hb] at hb'
  cases hb'
  have := StreamLoop.cutBytesStreamLoop_of_opt o _ hso segs hsegs
  unfold readAndCutBytesStreamLit StreamLoop.readAndCutBytesStreamLoop
  have hbs : (s.toModel lif).bounds = s.bounds.list.list := rfl
  simp only [hb, hbs, hg]
  exact this.symm

/-- `print_filler_or_fallbacks`: the wrapper of this file is the literal function of
    `Tuc.Model.StreamLoop` whatever fourth argument the model record carries -/
theorem printFillerOrFallbacksOf_eq (s : StreamOptLit) (lif : Side) (i : Nat) (k : Int) :
    printFillerOrFallbacksOf s i k = StreamLoop.printFillerOrFallbacksCall (s.toModel lif) i k := by
  unfold printFillerOrFallbacksOf StreamLoop.printFillerOrFallbacksCall
  have : ∀ l : List BoF, StreamLoop.printFillerOrFallbacksLit (s.toModel .cont) k l
      = StreamLoop.printFillerOrFallbacksLit (s.toModel lif) k l := by
    intro l
    induction l with
    | nil => rfl
    | cons x t ih =>
      cases x with
      | filler f => simp only [StreamLoop.printFillerOrFallbacksLit, ih]
      | bound b =>
        simp only [StreamLoop.printFillerOrFallbacksLit, ih]
        rfl
  rw [this]
  rfl

/-! ## 9. literal against model, by evaluation -/

/-- the bounds texts of the comparison: plain, ranges, open ranges, format strings, repeated and
    unsorted fields, negative indexes, and what the parser refuses -/
def exTexts : List String :=
  ["1", "1,2", "1:2,3", "1,2:", ":2,3", "2:", "1:", ":1", "{1}", "a{1}b", "{1}-{2=x}-{3:}", "x{1,2}y{4:5}z",
   "1,1", "1:2,2", "2,1", "3,1:2", "-1", "1,-1", "-2:-1", "1:3,2", "{2}{2}", "{1}{{}}{3}",
   "{}", "abc", "{{}}", "a", "", " ", "{", "}", "0", "1:0", "{1}{", "9999999999"]

/- `ForwardBounds::from_str` against `boundsListOfString` + `forwardBoundsOf` -/
#guard exTexts.all fun t =>
  (ForwardBoundsLit.fromStr t.toList).toOption.map (fun fb => fb.list.list) ==
    (boundsListOfString t.toList).toOption.bind forwardBoundsOf

/- … and it never panics -/
#guard exTexts.all fun t => ForwardBoundsLit.fromStr t.toList != .panic

/- the texts without a bound are refused by `UserBoundsList::from_str` itself (so a bounds list
    without a bound never reaches `main`) -/
#guard ["{}", "abc", "{{}}", "a", "", " ", "a{{b}}c"].all fun t => boundsListOfString t.toList == .fail

/-- the `Opt`s of the comparison: every text × delimiter widths × replacement widths × each refused flag -/
def exOpts : List Opt :=
  exTexts.flatMap fun t =>
    match boundsListOfString t.toList with
    | .ok bounds =>
      let base : Opt := { delimiter := [0x2d], bounds := bounds, fixedMemory := some 1024 }
      [base, { base with delimiter := [] }, { base with delimiter := [0xc3, 0xa9] },
       { base with replaceDelimiter := some [], join := true },
       { base with replaceDelimiter := some [0x2f], join := true },
       { base with replaceDelimiter := some [0x2f, 0x2f], join := true },
       { base with complement := true }, { base with greedyDelimiter := true },
       { base with compressDelimiter := true }, { base with json := true },
       { base with boundsType := .bytes }, { base with boundsType := .lines },
       { base with boundsType := .characters }, { base with trim := some .both },
       { base with onlyDelimited := true }, { base with join := true, eol := .zero, fallbackOob := some [0x3f] },
       { base with fixedMemory := none }, { base with fixedMemory := none, trim := some .left, onlyDelimited := true }]
    | _ => []

/-- the hand-made lists that `from_str` cannot produce: no bound at all, empty -/
def exOptsWild : List Opt :=
  [exOpt [.filler [0x61]], exOpt [.filler [0x61], .filler [0x62]], exOpt [],
   { exOpt [.filler [0x61]] with fixedMemory := none }, { exOpt [] with fixedMemory := none }]


/- `StreamOpt::try_from` + `get_last_bound` against `streamOptOf` -/
#guard (exOpts ++ exOptsWild).all fun o => reprStr (streamOptOfLit o).toOption == reprStr (streamOptOf o)

/- … `Err` exactly where the model refuses, on the lists that have a bound -/
#guard exOpts.all fun o =>
  (match streamOptOfLit o with | .fail => true | _ => false) == (streamOptOf o).isNone

/- `FastOpt::try_from` against `fastOptOf` -/
#guard (exOpts ++ exOptsWild).all fun o =>
  reprStr (FastOptLit.tryFrom o).toOption == reprStr (fastOptOf o) &&
    (match FastOptLit.tryFrom o with | .panic => false | _ => true)

/- the dispatch of `main` against `dispatch`, on two inputs and two segmentations -/
#guard exOpts.all fun o =>
  [[[0x61, 0x2d, 0x62, 0x2d, 0x63, 0x0a], [0x64, 0x0a]], [[0x61], [0x2d, 0x62, 0x2d, 0x63, 0x0a, 0x0a, 0x65]], []].all
    fun segs => dispatchLit o segs == dispatch o o.fixedMemory.isSome segs

/- … and where they differ: only on the hand-made lists without a bound, under `-M` -/
#guard (exOptsWild.map fun o => dispatchLit o [[0x61, 0x0a]] == dispatch o o.fixedMemory.isSome [[0x61, 0x0a]])
  == [false, false, true, true, true]

/-- the command lines of the question "can an empty / filler-only bounds list reach `main`?":
    all of them are refused by `parse_args` (exit 1, nothing read) -/
def argvOf (l : List String) : List Arg := l.map String.toList

#guard [["-M", "1", "-f", "{}"], ["-M", "1", "-f", "abc"], ["-M", "1", "-f", "{{}}"], ["-M", "1", "-f", "a"],
        ["-M", "1", "-f", ""], ["-M", "1", "-f", " "], ["-f", "{{}}"], ["-M", "1", "-d", "-", "-f", "x{{y}}"]].all
  fun a => tucMainLit (fun _ => true) (argvOf a) [[0x61, 0x0a]] == .reject

/- `main` from the argument vector: literal against model on real command lines -/
#guard [["-M", "1", "-d", "-", "-f", "1,3"], ["-M", "1", "-d", "-", "-f", "{1}x{3=?}", "-j"],
        ["-M", "1", "-d", "-", "-f", "2:", "-r", "/"], ["-M", "1", "-d", "-", "-f", "1,1"],
        ["-M", "1", "-d", "--", "-f", "1"], ["-M", "1", "-d", "-", "-f", "-1"], ["-M", "1", "-d", "-", "-f", "1", "-m"],
        ["-d", "-", "-f", "3,1"], ["-d", "-", "-f", "1", "-t", "b"], ["-d", "--", "-f", "2"], ["-b", "1:2"],
        ["-l", "2"], ["-d", "-", "-f", "1", "-r", "xy"], ["-M", "0", "-f", "1"], ["-V"], []].all
  fun a =>
    [[[0x61, 0x2d, 0x62, 0x2d, 0x63, 0x0a, 0x64, 0x2d, 0x2d, 0x65, 0x0a]], [[0x61, 0x2d], [0x62, 0x2d, 0x63]]].all
      fun segs => tucMainLit (fun _ => true) (argvOf a) segs == tucMain (fun _ => true) (argvOf a) segs

/- … and they do run: `-M 1 -d - -f 1,3` on `a-b-c\n` -/
#guard tucMainLit (fun _ => true) (argvOf ["-M", "1", "-d", "-", "-f", "1,3"]) [[0x61, 0x2d, 0x62], [0x2d, 0x63, 0x0a]]
  == .run (Run.ok [0x61, 0x63, 0x0a])

/-- `print_bof`: literal against the wrapper of `Tuc.Model.StreamLoop`, every `bof_idx`, field
    numbers 1 … 4, every in-range slice of a 3-byte chunk, all four flag combinations -/
def exStreams : List StreamOptLit :=
  [exStream [.bound { l := .some 1, r := .some 1, isLast := true }],
   exStream [.filler [0x78], .bound { l := .some 1, r := .some 2 }, .filler [0x79], .bound { l := .some 4, r := .cont, isLast := true }] true,
   exStream [.bound { l := .cont, r := .some 2 }, .filler [0x78], .filler [0x79], .bound { l := .some 3, r := .some 3, isLast := true }],
   { exStream [.filler [0x78], .bound { l := .some 2, r := .some 3, isLast := true }, .filler [0x7a]] true with
       replaceDelimiter := some 0x2f }]

#guard exStreams.all fun s =>
  (List.range 6).all fun i => [1, 2, 3, 4].all fun (k : Int) =>
    (List.range 4).all fun b => (List.range (b + 1)).all fun a =>
      [false, true].all fun tr => [false, true].all fun fc =>
        printBofLit s i k [0x61, 0x62, 0x63] a b tr fc ==
          StreamLoop.printBofCall (s.toModel .cont) i k [0x61, 0x62, 0x63] a b tr fc

end OptLit
end Tuc
