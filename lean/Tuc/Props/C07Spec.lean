import Tuc.Lemmas.UnpackSpec
import Tuc.Props.C07
import Tuc.Props.C05Utf8
/-!
# C07, against the specification — character mode is `specRecord` on every valid UTF-8 record

`Tuc.Props.C07` shows that with the `\b|\B` bag the field vector of `cut_str` is one range per
scalar value.  Here the rest: the output stage (`-m`, range expansion, fallbacks, fillers,
`--json`) prints exactly what the per-record specification `Tuc.Spec.specRecord` says, whose
tokens in character mode are the scalar values themselves (`tokenizeChars`).
-/
namespace Tuc
open Tuc.Spec

/-- the tokens of character mode -/
def charTok (c : Bytes) (cs : List Bytes) : Tok := ⟨c, cs.map fun x => (0, x)⟩

theorem tokenizeChars_eq (line c : Bytes) (cs : List Bytes) (h : utf8Chars line = some (c :: cs)) :
    tokenizeChars line = some (charTok c cs) := by
  simp only [tokenizeChars, h, charTok]

theorem piece_of_chars (xs : List Bytes) :
    (match xs.map (fun x => ((0 : Nat), x)) with
      | [] => []
      | (_, f) :: more => f ++ more.flatMap fun (_, g) => ([] : Bytes) ++ g) = xs.flatten := by
  cases xs with
  | nil => rfl
  | cons x t =>
    simp only [List.map_cons, List.flatten_cons]
    congr 1
    induction t with
    | nil => rfl
    | cons y t ih =>
      simp only [List.map_cons, List.flatMap_cons, List.flatten_cons, List.nil_append] at ih ⊢
      rw [ih]

/-- the specification's piece in character mode: the selected characters, nothing between them -/
theorem pieceText_chars (c : Bytes) (cs : List Bytes) (a b : Nat) (hab : a ≤ b) :
    pieceText (fun _ => []) (charTok c cs) (a + 1) (b + 1) = (slice (c :: cs) a (b + 1)).flatten := by
  unfold pieceText charTok slice
  have e1 : ((0, c) :: cs.map fun x => ((0 : Nat), x)) = (c :: cs).map fun x => ((0 : Nat), x) := rfl
  have e2 : b + 1 - (a + 1) + 1 = b + 1 - a := by omega
  simp only [Nat.add_sub_cancel, e1, e2]
  rw [← List.map_drop, ← List.map_take]
  exact piece_of_chars _

/-- the ranges of the characters against the tokens of character mode -/
theorem refinesText_chars (opt : Opt) (line c : Bytes) (cs : List Bytes)
    (hbt : opt.boundsType = .characters) (hcs : utf8Chars line = some (c :: cs)) :
    RefinesText opt line (rangesOfChars 0 (c :: cs)) (charTok c cs) (fun _ => []) := by
  have hlen : (rangesOfChars 0 (c :: cs)).length = (c :: cs).length := rangesOfChars_length _ _
  have key : ∀ (a b : Nat) (hab : a ≤ b) (hb : b < (rangesOfChars 0 (c :: cs)).length),
      ((rangesOfChars 0 (c :: cs))[a]'(by omega)).start ≤ ((rangesOfChars 0 (c :: cs))[b]).stop ∧
      ((rangesOfChars 0 (c :: cs))[b]).stop ≤ line.length ∧
      slice line ((rangesOfChars 0 (c :: cs))[a]'(by omega)).start ((rangesOfChars 0 (c :: cs))[b]).stop =
        (slice (c :: cs) a (b + 1)).flatten := by
    intro a b hab hb
    exact charRange_slice line (c :: cs) hcs a (b + 1) (by omega) (by omega) _ _
      (List.getElem?_eq_getElem (by omega)) (by simp [List.getElem?_eq_getElem hb])
  refine ⟨by simp [hlen, charTok, Tok.numFields], ?_, ?_⟩
  · intro a b hab hb
    exact ⟨(key a b hab hb).1, (key a b hab hb).2.1⟩
  · intro a b hab hb
    unfold maybeReplaceDelimiter
    rw [if_pos hbt, (key a b hab hb).2.2, pieceText_chars c cs a b hab]

theorem specSep_chars (opt : Opt) (hbt : opt.boundsType = .characters) :
    specSep (cfgOf opt) = fun _ => [] := by
  funext k
  have h5 : (cfgOf opt).chars = decide (opt.boundsType = .characters) := rfl
  unfold specSep
  rw [h5, hbt]
  rfl

theorem specLine_chars (opt : Opt) (hbt : opt.boundsType = .characters) (line : Bytes) :
    specLine (cfgOf opt) line = line := by
  have h5 : (cfgOf opt).chars = decide (opt.boundsType = .characters) := rfl
  unfold specLine
  rw [h5, hbt]
  cases (cfgOf opt).trim <;> rfl

theorem specTok_chars (opt : Opt) (hbt : opt.boundsType = .characters) (line : Bytes) :
    specTok (cfgOf opt) line = tokenizeChars line := by
  have h5 : (cfgOf opt).chars = decide (opt.boundsType = .characters) := rfl
  unfold specTok
  rw [h5, hbt]
  rfl

/-- the specification in character mode, passes made explicit -/
theorem specRecord_chars (opt : Opt) (line c : Bytes) (cs : List Bytes)
    (hbt : opt.boundsType = .characters) (hcs : utf8Chars line = some (c :: cs)) :
    specRecord (cfgOf opt) line =
      if opt.onlyDelimited && (charTok c cs).numFields == 1 then Run.empty
      else
        Run.pre (if opt.json then [0x5B] else [])
          (if opt.complement && countBounds (specBofs opt (charTok c cs).numFields) == 0 then Run.fail
           else
            (emit (cfgOf opt) (charTok c cs) (fun _ => []) (opt.replaceDelimiter.getD opt.delimiter)
              (mapBounds (expandBound · (charTok c cs).numFields)
                (specBofs opt (charTok c cs).numFields))).seq
              (Run.ok ((if opt.json then [0x5D] else []) ++ [opt.eol.byte]))) := by
  have hne : line ≠ [] := by
    rintro rfl
    simp [utf8Chars, utf8CharsFuel] at hcs
  rw [specRecord_of_tok (cfgOf opt) line (charTok c cs) (by rwa [specLine_chars opt hbt])
    (by rw [specLine_chars opt hbt, specTok_chars opt hbt, tokenizeChars_eq line c cs hcs]),
    specTail_expand opt _ (by simp [hbt]), specSep_chars opt hbt]

/-- the empty record in character mode: only the end of line (unless `-s`) -/
theorem cutStrCore_chars_empty (opt : Opt) (eol : Bytes) (hbag : opt.regexBag = some charsBag)
    (hguard : (opt.compressDelimiter || opt.join) = true → opt.replaceDelimiter.isSome = true) :
    (cutStrCore [] opt eol).1 = if opt.onlyDelimited then Run.empty else Run.ok eol := by
  have hgr : charsBag.greedy = charMatches := rfl
  have hc1 : ¬(opt.compressDelimiter = true ∧ opt.replaceDelimiter = none) := by
    rintro ⟨h1, h2⟩; simp [h1, h2] at hguard
  have hc2 : ¬(opt.join = true ∧ opt.replaceDelimiter = none) := by
    rintro ⟨h1, h2⟩; simp [h1, h2] at hguard
  unfold cutStrCore
  generalize opt.trim = tr
  cases tr with
  | none => cases opt.onlyDelimited <;> simp [hbag, hc1, hc2]
  | some k =>
    cases opt.onlyDelimited <;>
      simp [hbag, hgr, hc1, hc2, trimRegex_charMatches [] [] k rfl]

/-- **C07, one record, general form.**  Character mode (`-c`: the `\b|\B` bag), every valid UTF-8
    record, any bounds the parser can deliver (ranges, negative indexes, fillers, fallbacks),
    `-m`, `-s`, `-t`, with `--json` or with a replacement for the (empty) separators — which is
    when the engine expands ranges; `parse_args` always sets `-r ''` for `-c`: the engine writes
    what the per-record specification says and ends as it says (never a panic). -/
theorem chars_record_eq_spec_gen (opt : Opt) (line : Bytes)
    (hbt : opt.boundsType = .characters) (hbag : opt.regexBag = some charsBag)
    (hguard : (opt.compressDelimiter || opt.join) = true → opt.replaceDelimiter.isSome = true)
    (hunp : (opt.json || opt.replaceDelimiter.isSome) = true)
    (hz : AllNonzero opt.bounds.list) (hL : LastMarked opt.bounds.list)
    (hv : validUtf8 line = true) :
    (cutStrCore line opt [opt.eol.byte]).1 = specRecord (cfgOf opt) line := by
  obtain ⟨cs, hcs⟩ := (validUtf8_iff line).1 hv
  cases cs with
  | nil =>
    have hl : line = [] := (utf8Chars_flatten line [] hcs).symm
    subst hl
    rw [cutStrCore_chars_empty opt _ hbag hguard,
      specRecord_of_empty _ _ (specLine_chars opt hbt [])]
    rfl
  | cons c cs =>
    have hne : line ≠ [] := by
      rintro rfl
      simp [utf8Chars, utf8CharsFuel] at hcs
    rw [cutStrCore_chars line opt _ (c :: cs) hbt hbag hguard hne hcs,
      specRecord_chars opt line c cs hbt hcs]
    exact emitRecord_eq_spec_expand opt line _ (charTok c cs) _
      (refinesText_chars opt line c cs hbt hcs) (by simpa [hbt] using hunp) hz hL

/-- **C07, one record** (the options `parse_args` builds for `-c`: `-r ''`, `-j`). -/
theorem chars_record_eq_spec (opt : Opt) (line : Bytes)
    (hbt : opt.boundsType = .characters) (hbag : opt.regexBag = some charsBag)
    (hrep : opt.replaceDelimiter = some []) (_hjoin : opt.join = true) (_hjson : opt.json = false)
    (hz : AllNonzero opt.bounds.list) (hL : LastMarked opt.bounds.list)
    (hv : validUtf8 line = true) :
    (cutStrCore line opt [opt.eol.byte]).1 = specRecord (cfgOf opt) line :=
  chars_record_eq_spec_gen opt line hbt hbag (by simp [hrep]) (by simp [hrep]) hz hL hv

/-- **C07 ∧ C08, one record**: character mode with `--json` (`-r ,`, `-j`). -/
theorem chars_json_record_eq_spec (opt : Opt) (line : Bytes)
    (hbt : opt.boundsType = .characters) (hbag : opt.regexBag = some charsBag)
    (hrep : opt.replaceDelimiter = some [0x2C]) (_hjoin : opt.join = true) (hjson : opt.json = true)
    (hz : AllNonzero opt.bounds.list) (hL : LastMarked opt.bounds.list)
    (hv : validUtf8 line = true) :
    (cutStrCore line opt [opt.eol.byte]).1 = specRecord (cfgOf opt) line :=
  chars_record_eq_spec_gen opt line hbt hbag (by simp [hrep]) (by simp [hjson]) hz hL hv

/-! ## the run -/

theorem chars_cutRecords_eq_spec_gen (opt : Opt)
    (hbt : opt.boundsType = .characters) (hbag : opt.regexBag = some charsBag)
    (hguard : (opt.compressDelimiter || opt.join) = true → opt.replaceDelimiter.isSome = true)
    (hunp : (opt.json || opt.replaceDelimiter.isSome) = true)
    (hz : AllNonzero opt.bounds.list) (hL : LastMarked opt.bounds.list) :
    ∀ (recs : List Bytes) (f₀ : List Range) (b₀ : Bytes), (∀ r ∈ recs, validUtf8 r = true) →
      cutRecords opt recs f₀ b₀ = specRunRecords (cfgOf opt) recs
  | [], _, _, _ => rfl
  | r :: t, f₀, b₀, hv => by
    have h1 : (cutStr r opt f₀ b₀ [opt.eol.byte]).1 = specRecord (cfgOf opt) r :=
      chars_record_eq_spec_gen opt r hbt hbag hguard hunp hz hL (hv r (List.mem_cons_self ..))
    simp only [cutRecords, specRunRecords]
    rw [h1, chars_cutRecords_eq_spec_gen opt hbt hbag hguard hunp hz hL t _ _
      (fun r hr => hv r (List.mem_cons_of_mem _ hr))]

/-- **C07, the run, general form**: on every valid UTF-8 input, records in order, each by
    `specRecord`, stop at the first failure. -/
theorem chars_run_eq_spec_gen (opt : Opt) (input : Bytes)
    (hbt : opt.boundsType = .characters) (hbag : opt.regexBag = some charsBag)
    (hguard : (opt.compressDelimiter || opt.join) = true → opt.replaceDelimiter.isSome = true)
    (hunp : (opt.json || opt.replaceDelimiter.isSome) = true)
    (hz : AllNonzero opt.bounds.list) (hL : LastMarked opt.bounds.list)
    (hv : validUtf8 input = true) :
    readAndCutStr opt input = specRun (cfgOf opt) input :=
  chars_cutRecords_eq_spec_gen opt hbt hbag hguard hunp hz hL _ [] []
    (validUtf8_records opt.eol.byte (EOL.byte_ascii opt.eol) input hv)

/-- **C07, the run.** -/
theorem chars_run_eq_spec (opt : Opt) (input : Bytes)
    (hbt : opt.boundsType = .characters) (hbag : opt.regexBag = some charsBag)
    (hrep : opt.replaceDelimiter = some []) (_hjoin : opt.join = true) (_hjson : opt.json = false)
    (hz : AllNonzero opt.bounds.list) (hL : LastMarked opt.bounds.list)
    (hv : validUtf8 input = true) :
    readAndCutStr opt input = specRun (cfgOf opt) input :=
  chars_run_eq_spec_gen opt input hbt hbag (by simp [hrep]) (by simp [hrep]) hz hL hv

/-- **C07 ∧ C08, the run**: character mode with `--json`. -/
theorem chars_json_run_eq_spec (opt : Opt) (input : Bytes)
    (hbt : opt.boundsType = .characters) (hbag : opt.regexBag = some charsBag)
    (hrep : opt.replaceDelimiter = some [0x2C]) (_hjoin : opt.join = true) (hjson : opt.json = true)
    (hz : AllNonzero opt.bounds.list) (hL : LastMarked opt.bounds.list)
    (hv : validUtf8 input = true) :
    readAndCutStr opt input = specRun (cfgOf opt) input :=
  chars_run_eq_spec_gen opt input hbt hbag (by simp [hrep]) (by simp [hjson]) hz hL hv

/-- for every accepted `--characters` argument -/
theorem chars_run_eq_spec_of_parsed (opt : Opt) (input : Bytes) (s : List Char)
    (hparse : boundsListOfString s = .ok opt.bounds)
    (hbt : opt.boundsType = .characters) (hbag : opt.regexBag = some charsBag)
    (hrep : opt.replaceDelimiter = some []) (hjoin : opt.join = true) (hjson : opt.json = false)
    (hv : validUtf8 input = true) :
    readAndCutStr opt input = specRun (cfgOf opt) input :=
  have h := boundsListOfString_good s opt.bounds hparse
  chars_run_eq_spec opt input hbt hbag hrep hjoin hjson h.1 h.2 hv

/-! ## the output is valid UTF-8 -/

theorem validUtf8_nil : validUtf8 [] = true := by decide

theorem Run.valid_pre {w : Bytes} {r : Run} (hw : validUtf8 w = true) (hr : validUtf8 r.out = true) :
    validUtf8 (Run.pre w r).out = true := validUtf8_append _ _ hw hr

theorem Run.valid_seq {a b : Run} (ha : validUtf8 a.out = true) (hb : validUtf8 b.out = true) :
    validUtf8 (a.seq b).out = true := by
  obtain ⟨ao, as⟩ := a
  cases as
  · exact validUtf8_append _ _ ha hb
  all_goals exact ha

/-- without `--json`, `emit` writes valid UTF-8 if the fillers, the joiner and the text of every
    bound are -/
theorem emit_valid (cfg : Cfg) (tok : Tok) (sep : Nat → Bytes) (j : Bytes) (hjson : cfg.json = false)
    (hj : validUtf8 j = true) :
    ∀ (l : List BoF), (∀ f, BoF.filler f ∈ l → validUtf8 f = true) →
      (∀ b, BoF.bound b ∈ l → ∀ x, boundTextS cfg tok sep b = some x → validUtf8 x = true) →
      validUtf8 (emit cfg tok sep j l).out = true
  | [], _, _ => validUtf8_nil
  | .filler f :: t, hf, hb => by
    simp only [emit]
    exact Run.valid_pre (hf f (List.mem_cons_self ..))
      (emit_valid cfg tok sep j hjson hj t (fun f h => hf f (List.mem_cons_of_mem _ h))
        (fun b h => hb b (List.mem_cons_of_mem _ h)))
  | .bound b :: t, hf, hb => by
    have ih := emit_valid cfg tok sep j hjson hj t (fun f h => hf f (List.mem_cons_of_mem _ h))
        (fun b h => hb b (List.mem_cons_of_mem _ h))
    rw [emit_bound]
    cases hx : boundTextS cfg tok sep b with
    | none => exact validUtf8_nil
    | some x =>
      have hvx := hb b (List.mem_cons_self ..) x hx
      simp only [Option.bind_some, renderS, hjson, Bool.false_eq_true, if_false]
      refine Run.valid_pre (validUtf8_append _ _ hvx ?_) ih
      split
      · exact hj
      · decide

/-- a piece of a character-mode record is valid UTF-8 -/
theorem pieceText_chars_valid (line c : Bytes) (cs : List Bytes)
    (hcs : utf8Chars line = some (c :: cs)) (lo hi : Nat) (h1 : 1 ≤ lo) (h2 : lo ≤ hi) :
    validUtf8 (pieceText (fun _ => []) (charTok c cs) lo hi) = true := by
  obtain ⟨a, rfl⟩ : ∃ a, lo = a + 1 := ⟨lo - 1, by omega⟩
  obtain ⟨b, rfl⟩ : ∃ b, hi = b + 1 := ⟨hi - 1, by omega⟩
  rw [pieceText_chars c cs a b (by omega)]
  apply validUtf8_flatten_of_chars
  intro x hx
  exact utf8Chars_each line _ hcs x (List.mem_of_mem_drop (List.mem_of_mem_take hx))

theorem validUtf8_eol (e : EOL) : validUtf8 [e.byte] = true := by cases e <;> decide

/-- what the user wrote next to the bounds: format text, fallbacks, the generic fallback -/
structure TextsValid (opt : Opt) : Prop where
  fillers : ∀ f, BoF.filler f ∈ opt.bounds.list → validUtf8 f = true
  fallbacks : ∀ b f, BoF.bound b ∈ opt.bounds.list → b.fallback = some f → validUtf8 f = true
  generic : ∀ f, opt.fallbackOob = some f → validUtf8 f = true
  joiner : validUtf8 (opt.replaceDelimiter.getD opt.delimiter) = true

/-- the specification of a valid UTF-8 record in character mode writes valid UTF-8 -/
theorem specRecord_chars_valid (opt : Opt) (line : Bytes)
    (hbt : opt.boundsType = .characters) (hjson : opt.json = false) (ht : TextsValid opt)
    (hv : validUtf8 line = true) :
    validUtf8 (specRecord (cfgOf opt) line).out = true := by
  obtain ⟨cs, hcs⟩ := (validUtf8_iff line).1 hv
  cases cs with
  | nil =>
    have hl : line = [] := (utf8Chars_flatten line [] hcs).symm
    subst hl
    rw [specRecord_of_empty _ _ (specLine_chars opt hbt [])]
    split
    · decide
    · exact validUtf8_eol opt.eol
  | cons c cs =>
    rw [specRecord_chars opt line c cs hbt hcs]
    split
    · decide
    · simp only [hjson, Bool.false_eq_true, if_false, List.nil_append]
      refine Run.valid_pre (by decide) ?_
      split
      · decide
      · refine Run.valid_seq (emit_valid _ _ _ _ hjson ht.joiner _ ?_ ?_) (validUtf8_eol opt.eol)
        · intro f hf
          exact ht.fillers f (filler_of_rewritten opt _ f hf)
        · intro b hb x hx
          unfold boundTextS at hx
          cases hres : resolve b (charTok c cs).numFields with
          | some p =>
            obtain ⟨lo, hi⟩ := p
            simp only [hres, Option.some.injEq] at hx
            subst hx
            obtain ⟨h1, h2⟩ := resolve_some hres
            exact pieceText_chars_valid line c cs hcs lo hi h2 h1
          | none =>
            simp only [hres] at hx
            cases hfb : b.fallback with
            | some f =>
              simp only [hfb, Option.some.injEq] at hx
              subst hx
              obtain ⟨b0, hb0, hf0⟩ := fallback_of_rewritten opt _ b f hb hfb
              exact ht.fallbacks b0 f hb0 hf0
            | none =>
              simp only [hfb] at hx
              exact ht.generic x hx

theorem specRunRecords_chars_valid (opt : Opt)
    (hbt : opt.boundsType = .characters) (hjson : opt.json = false) (ht : TextsValid opt) :
    ∀ (recs : List Bytes), (∀ r ∈ recs, validUtf8 r = true) →
      validUtf8 (specRunRecords (cfgOf opt) recs).out = true
  | [], _ => validUtf8_nil
  | r :: t, hv => by
    simp only [specRunRecords]
    exact Run.valid_seq (specRecord_chars_valid opt r hbt hjson ht (hv r (List.mem_cons_self ..)))
      (specRunRecords_chars_valid opt hbt hjson ht t (fun r hr => hv r (List.mem_cons_of_mem _ hr)))

/-- **C07: character mode turns valid UTF-8 into valid UTF-8** — for every valid UTF-8 input, if
    the format text and the fallbacks the user wrote are valid UTF-8 (argv always is) then
    everything the run writes is valid UTF-8, also when it stops at a record that fails: no
    scalar value is ever split, whatever the bounds, `-m` included. -/
theorem chars_output_valid (opt : Opt) (input : Bytes)
    (hbt : opt.boundsType = .characters) (hbag : opt.regexBag = some charsBag)
    (hrep : opt.replaceDelimiter = some []) (hjoin : opt.join = true) (hjson : opt.json = false)
    (hz : AllNonzero opt.bounds.list) (hL : LastMarked opt.bounds.list)
    (hfill : ∀ f, BoF.filler f ∈ opt.bounds.list → validUtf8 f = true)
    (hfb : ∀ b f, BoF.bound b ∈ opt.bounds.list → b.fallback = some f → validUtf8 f = true)
    (hgen : ∀ f, opt.fallbackOob = some f → validUtf8 f = true)
    (hv : validUtf8 input = true) :
    validUtf8 (readAndCutStr opt input).out = true := by
  rw [chars_run_eq_spec opt input hbt hbag hrep hjoin hjson hz hL hv]
  exact specRunRecords_chars_valid opt hbt hjson ⟨hfill, hfb, hgen, by rw [hrep]; exact validUtf8_nil⟩ _
    (validUtf8_records opt.eol.byte (EOL.byte_ascii opt.eol) input hv)

/-! ## concrete instances -/

/-- `-c 2:3,-1` -/
def c07Bounds : UserBoundsList :=
  ⟨[.bound { l := .some 2, r := .some 3 },
    .bound { l := .some (-1), r := .some (-1), isLast := true }], .cont⟩

/-- `-c x{2:3}y{7=z}` : fillers, a fallback -/
def c07BoundsFmt : UserBoundsList :=
  ⟨[.filler [0x78], .bound { l := .some 2, r := .some 3 }, .filler [0x79],
    .bound { l := .some 7, r := .some 7, isLast := true, fallback := some [0x7A] }], .cont⟩

/-- what `parse_args` builds for `-c` (`-r ''`, `-j`), with `--json` (`-r ,`) or not, `-m` or not -/
def c07Opt (bounds : UserBoundsList) (json m : Bool) : Opt :=
  { delimiter := [0x09], bounds := bounds, boundsType := .characters, regexBag := some charsBag,
    replaceDelimiter := some (if json then [0x2C] else []), join := true, json := json,
    complement := m }

/-- "aé€😎" -/
def c07Line : Bytes := [0x61,0xC3,0xA9,0xE2,0x82,0xAC,0xF0,0x9F,0x98,0x8E]

-- é€😎
example : (cutStrCore c07Line (c07Opt c07Bounds false false) [10]).1 =
    Run.ok [0xC3,0xA9,0xE2,0x82,0xAC,0xF0,0x9F,0x98,0x8E,10] := by decide
example : specRecord (cfgOf (c07Opt c07Bounds false false)) c07Line =
    Run.ok [0xC3,0xA9,0xE2,0x82,0xAC,0xF0,0x9F,0x98,0x8E,10] := by decide
-- ["é","€","😎"]
example : (cutStrCore c07Line (c07Opt c07Bounds true false) [10]).1 =
    Run.ok [0x5B,0x22,0xC3,0xA9,0x22,0x2C,0x22,0xE2,0x82,0xAC,0x22,0x2C,0x22,0xF0,0x9F,0x98,0x8E,0x22,0x5D,10] := by
  decide
example : specRecord (cfgOf (c07Opt c07Bounds true false)) c07Line =
    Run.ok [0x5B,0x22,0xC3,0xA9,0x22,0x2C,0x22,0xE2,0x82,0xAC,0x22,0x2C,0x22,0xF0,0x9F,0x98,0x8E,0x22,0x5D,10] := by
  decide
-- `-m`: a😎 (what 2:3 leaves out) aé€ (what -1 leaves out)
example : (cutStrCore c07Line (c07Opt c07Bounds false true) [10]).1 =
    Run.ok [0x61,0xF0,0x9F,0x98,0x8E,0x61,0xC3,0xA9,0xE2,0x82,0xAC,10] := by decide
example : specRecord (cfgOf (c07Opt c07Bounds false true)) c07Line =
    Run.ok [0x61,0xF0,0x9F,0x98,0x8E,0x61,0xC3,0xA9,0xE2,0x82,0xAC,10] := by decide
-- format text and a fallback: xé€yz
example : (cutStrCore c07Line (c07Opt c07BoundsFmt false false) [10]).1 =
    Run.ok [0x78,0xC3,0xA9,0xE2,0x82,0xAC,0x79,0x7A,10] := by decide
example : specRecord (cfgOf (c07Opt c07BoundsFmt false false)) c07Line =
    Run.ok [0x78,0xC3,0xA9,0xE2,0x82,0xAC,0x79,0x7A,10] := by decide
-- the hypotheses of the theorems hold for these requests
example : AllNonzero c07Bounds.list ∧ LastMarked c07Bounds.list := by
  refine ⟨?_, by simp [c07Bounds, LastMarked, countBounds]⟩
  intro b hb
  simp only [c07Bounds, List.mem_cons, BoF.bound.injEq, List.not_mem_nil, or_false] at hb
  rcases hb with rfl | rfl <;> exact ⟨by simp [Side.Nonzero], by simp [Side.Nonzero]⟩

end Tuc
