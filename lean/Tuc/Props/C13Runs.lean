import Tuc.Lemmas.SpecLaws
import Tuc.Props.C05Buffered
import Tuc.Props.C06
import Tuc.Props.C13
/-!
# C13 at the level of runs — a bound that cannot be resolved is never silent

`Tuc.Props.C13` has the rule for one iteration of every engine's output loop.  Here:

Specification laws (no engine involved):
* `emit_rule` — the text of a bound is the selected parts iff the bound resolves, else its own
  fallback, else the generic one, else the run fails (`emit_resolved`, `emit_own_fallback`,
  `emit_generic_fallback`, `emit_no_fallback` are its four branches);
* `piece_exact` — the text of a resolved bound is made of the parts `lo … hi` and of what is
  between them, never of other data;
* `resolve_none_iff` — "cannot be resolved", in arithmetic on the written indexes;
* `emit_fails_at`, `emit_never_silent` — a bound without text fails the record, what was printed
  before it stays; conversely a record that succeeds had a text for every bound;
* `specRecord_fails_at`, `specRun_fails_at`, `specLines_fails_at`, `specBytes_fails_at`.

Runs of the engines (refinement theorem + the law): `readAndCutStr_never_silent` (general field
engine), `cutLines_never_silent` / `readAndCutLines_never_silent` (buffered `-l`),
`fwd_never_silent` (`-l` one line at a time — proved on the model, its refinement theorem being
about resolvable requests only), `readAndCutLines_never_silent_status` (whichever `-l` algorithm),
`readAndCutBytes_never_silent` (`-b`).  The fast lane (`readAndCutFast_never_silent`) and `-M`
(`stream_never_silent`) are in `Tuc.Props.C13RunsFast` and `Tuc.Props.C13RunsStream`: kept apart
for historical reasons (C02 and C03 once declared the same name; `Tuc.AllProps` now imports every
property file together).
-/
namespace Tuc
open Tuc.Spec

/-! ## the rule -/

/-- what `emit` does with the text `x` of a bound: render it (`--json`), add the joiner if another
    bound follows, go on -/
def emitText (cfg : Cfg) (t : Tok) (sep : Nat → Bytes) (j : Bytes) (rest : List BoF) (x : Bytes) :
    Run :=
  match rendered cfg x with
  | none => Run.fail
  | some y =>
    Run.pre (y ++ (if cfg.join && countBounds rest > 0 then j else [])) (emit cfg t sep j rest)

/-- **C13, the rule, in the specification.**  A bound contributes the selected parts when it
    resolves; otherwise its own fallback; otherwise the generic fallback; otherwise the record
    fails. -/
theorem emit_rule (cfg : Cfg) (t : Tok) (sep : Nat → Bytes) (j : Bytes) (b : UserBounds)
    (rest : List BoF) :
    emit cfg t sep j (.bound b :: rest) =
      match resolve b t.numFields, b.fallback, cfg.fallback with
      | some (lo, hi), _, _ => emitText cfg t sep j rest (pieceText sep t lo hi)
      | none, some f, _ => emitText cfg t sep j rest f
      | none, none, some g => emitText cfg t sep j rest g
      | none, none, none => Run.fail := by
  rw [emit_bound]
  unfold boundText emitText
  cases resolve b t.numFields with
  | some p => rfl
  | none =>
    cases b.fallback with
    | some f => rfl
    | none =>
      cases cfg.fallback with
      | some g => rfl
      | none => rfl

theorem emit_resolved (cfg : Cfg) (t : Tok) (sep : Nat → Bytes) (j : Bytes) (b : UserBounds)
    (rest : List BoF) (lo hi : Nat) (h : resolve b t.numFields = some (lo, hi)) :
    emit cfg t sep j (.bound b :: rest) = emitText cfg t sep j rest (pieceText sep t lo hi) := by
  rw [emit_rule, h]

theorem emit_own_fallback (cfg : Cfg) (t : Tok) (sep : Nat → Bytes) (j : Bytes) (b : UserBounds)
    (rest : List BoF) (f : Bytes) (h : resolve b t.numFields = none) (hf : b.fallback = some f) :
    emit cfg t sep j (.bound b :: rest) = emitText cfg t sep j rest f := by
  rw [emit_rule, h, hf]

theorem emit_generic_fallback (cfg : Cfg) (t : Tok) (sep : Nat → Bytes) (j : Bytes)
    (b : UserBounds) (rest : List BoF) (g : Bytes) (h : resolve b t.numFields = none)
    (hf : b.fallback = none) (hg : cfg.fallback = some g) :
    emit cfg t sep j (.bound b :: rest) = emitText cfg t sep j rest g := by
  rw [emit_rule, h, hf, hg]

theorem emit_no_fallback (cfg : Cfg) (t : Tok) (sep : Nat → Bytes) (j : Bytes) (b : UserBounds)
    (rest : List BoF) (h : resolve b t.numFields = none) (hf : b.fallback = none)
    (hg : cfg.fallback = none) :
    emit cfg t sep j (.bound b :: rest) = Run.fail := by
  rw [emit_rule, h, hf, hg]

/-- without `--json` a text is written as it is -/
theorem emitText_plain (cfg : Cfg) (t : Tok) (sep : Nat → Bytes) (j : Bytes) (rest : List BoF)
    (x : Bytes) (hj : cfg.json = false) :
    emitText cfg t sep j rest x =
      Run.pre (x ++ (if cfg.join && countBounds rest > 0 then j else [])) (emit cfg t sep j rest) := by
  unfold emitText rendered
  rw [hj]
  rfl

/-! ## never other data -/

/-- the parts `lo … hi` of a tokenised record, with the separator in front of each -/
def Spec.Tok.window (t : Tok) (lo hi : Nat) : List (Nat × Bytes) :=
  (((0, t.first) :: t.rest).drop (lo - 1)).take (hi - lo + 1)

/-- the record made of those parts only (the separator in front of the first one is dropped) -/
def Spec.Tok.restrict (t : Tok) (lo hi : Nat) : Tok :=
  match t.window lo hi with
  | [] => ⟨[], []⟩
  | (_, f) :: more => ⟨f, more⟩

/-- for a range inside the record, the window has `hi - lo + 1` parts, and its `i`-th part is
    part `lo + i` of the record -/
theorem Spec.Tok.window_length (t : Tok) (lo hi : Nat) (h1 : 1 ≤ lo) (h2 : lo ≤ hi)
    (h3 : hi ≤ t.numFields) : (t.window lo hi).length = hi - lo + 1 := by
  unfold Tok.window
  simp only [List.length_take, List.length_drop, List.length_cons]
  unfold Tok.numFields at h3
  omega

theorem Spec.Tok.window_getElem? (t : Tok) (lo hi i : Nat) (hi' : i < hi - lo + 1) :
    (t.window lo hi)[i]? = ((0, t.first) :: t.rest)[lo - 1 + i]? := by
  unfold Tok.window
  rw [List.getElem?_take_of_lt hi', List.getElem?_drop]

/-- **C13, never other data.**  The text of the parts `lo … hi` is the text of the *whole* of the
    record restricted to those parts: nothing outside `lo … hi` can show in it. -/
theorem piece_exact (sep : Nat → Bytes) (t : Tok) (lo hi : Nat) :
    pieceText sep t lo hi =
      pieceText sep (t.restrict lo hi) 1 (t.restrict lo hi).numFields := by
  have hL : pieceText sep t lo hi =
      match t.window lo hi with
      | [] => []
      | (_, f) :: more => f ++ more.flatMap fun (k, g) => sep k ++ g := rfl
  rw [hL]
  unfold Tok.restrict
  cases t.window lo hi with
  | nil => rfl
  | cons x more =>
    obtain ⟨k, f⟩ := x
    simp only [pieceText, Tok.numFields]
    have : more.length + 1 - 1 + 1 = ((0, f) :: more).length := by simp
    rw [this]
    simp

/-- in particular for a resolved bound: the restricted record has exactly `hi - lo + 1` parts -/
theorem restrict_numFields (t : Tok) (b : UserBounds) (lo hi : Nat)
    (h : resolve b t.numFields = some (lo, hi)) :
    (t.restrict lo hi).numFields = hi - lo + 1 := by
  obtain ⟨h1, h2, h3⟩ := resolve_range h
  have hl := t.window_length lo hi h1 h2 h3
  unfold Tok.restrict
  cases hw : t.window lo hi with
  | nil => rw [hw] at hl; simp at hl
  | cons x more =>
    obtain ⟨k, f⟩ := x
    rw [hw] at hl
    simp only [List.length_cons] at hl
    simp only [Tok.numFields]
    omega

/-! ## "cannot be resolved", spelled out -/

/-- a written index that is 0 or exceeds `n` in absolute value -/
def Side.OutOf (s : Side) (n : Nat) : Prop :=
  match s with
  | .some v => v = 0 ∨ v > (n : Int) ∨ v < -(n : Int)
  | .cont => False

/-- the part a written index designates among `n` (`dflt` when nothing is written) -/
def Side.position (s : Side) (n : Nat) (dflt : Int) : Int :=
  match s with
  | .some v => if v > 0 then v else (n : Int) + 1 + v
  | .cont => dflt

theorem resolveSide_eq (s : Side) (n dflt : Nat) :
    (s.OutOf n → resolveSide s n dflt = none) ∧
    (¬ s.OutOf n → resolveSide s n dflt = some (s.position n dflt).toNat ∧
      ((s.position n dflt).toNat : Int) = s.position n dflt ∧
      (s ≠ .cont → 1 ≤ s.position n dflt ∧ s.position n dflt ≤ n)) := by
  cases s with
  | cont =>
    refine ⟨fun h => h.elim, fun _ => ⟨rfl, ?_, fun h => absurd rfl h⟩⟩
    simp [Side.position]
  | some v =>
    simp only [Side.OutOf, resolveSide, Side.position]
    refine ⟨fun h => by rw [if_pos h], fun h => ?_⟩
    rw [if_neg h]
    by_cases hp : v > 0
    · rw [if_pos hp, if_pos hp]
      exact ⟨rfl, by omega, fun _ => by omega⟩
    · rw [if_neg hp, if_neg hp]
      exact ⟨rfl, by omega, fun _ => by omega⟩

/-- **C13, "cannot be resolved".**  A bound has no parts to select among `n` exactly when one of
    its written indexes is 0 or exceeds `n` in absolute value, or when its two sides, once
    negative indexes are counted from the end (`-k ↦ n+1-k`) and open sides are `1` / `n`, cross. -/
theorem resolve_none_iff (b : UserBounds) (n : Nat) :
    resolve b n = none ↔
      b.l.OutOf n ∨ b.r.OutOf n ∨ b.r.position n n < b.l.position n 1 := by
  obtain ⟨l1, l2⟩ := resolveSide_eq b.l n 1
  obtain ⟨r1, r2⟩ := resolveSide_eq b.r n n
  have e1 : ((1 : Nat) : Int) = 1 := rfl
  rw [e1] at l2
  unfold resolve
  by_cases hl : b.l.OutOf n
  · rw [l1 hl]; simp [hl]
  · by_cases hr : b.r.OutOf n
    · rw [r1 hr, (l2 hl).1]; simp [hr]
    · obtain ⟨el, cl, pl⟩ := l2 hl
      obtain ⟨er, cr, _⟩ := r2 hr
      rw [el, er]
      simp only [hl, hr, false_or]
      have h1 : 1 ≤ b.l.position n 1 := by
        by_cases hc : b.l = .cont
        · rw [hc]; simp [Side.position]
        · exact (pl hc).1
      by_cases hc : (b.l.position n 1).toNat ≤ (b.r.position n n).toNat ∧ 1 ≤ (b.l.position n 1).toNat
      · rw [if_pos hc]
        simp only [reduceCtorEq, false_iff]
        omega
      · rw [if_neg hc]
        simp only [true_iff]
        omega

/-- `5`, `-5`, `0`, `3:2`, `-1:1` on three parts; and on no parts at all even `:` -/
example :
    resolve { l := .some 5, r := .some 5 } 3 = none ∧
    resolve { l := .some (-5), r := .some 2 } 3 = none ∧
    resolve { l := .some 0, r := .some 2 } 3 = none ∧
    resolve { l := .some 3, r := .some 2 } 3 = none ∧
    resolve { l := .some (-1), r := .some 1 } 3 = none ∧
    resolve { l := .some 2, r := .some (-1) } 3 = some (2, 3) ∧
    resolve { l := .cont, r := .cont } 0 = none := by
  decide

/-! ## a bound without text fails the record -/

/-- **C13, never silent.**  If the bound `b` of the list `pre ++ b :: post` cannot be resolved and
    there is no fallback for it, the record fails at `b`: the status is failure, and what was
    printed is what `pre` printed. -/
theorem emit_fails_at (cfg : Cfg) (t : Tok) (sep : Nat → Bytes) (j : Bytes) (pre post : List BoF)
    (b : UserBounds) (h : resolve b t.numFields = none) (hf : b.fallback = none)
    (hg : cfg.fallback = none) :
    emit cfg t sep j (pre ++ .bound b :: post) = ⟨(emitThen cfg t sep j pre).out, .fail⟩ := by
  rw [emit_append cfg t sep j (.bound b :: post) (by simp [countBounds]) pre,
    emit_no_fallback cfg t sep j b post h hf hg, Run.seq_fail_of_clean (emitThen_clean ..)]

/-- conversely: a record that succeeded had a text for every one of its bounds — each of them
    resolved, or had its own fallback, or there was a generic one -/
theorem emit_never_silent (cfg : Cfg) (t : Tok) (sep : Nat → Bytes) (j : Bytes) :
    ∀ (l : List BoF), (emit cfg t sep j l).status = .ok →
      ∀ b ∈ boundsOnly l, resolve b t.numFields ≠ none ∨ b.fallback ≠ none ∨ cfg.fallback ≠ none
  | [], _ => by intro b hb; cases hb
  | .filler f :: rest, h => by
    simp only [emit] at h
    exact emit_never_silent cfg t sep j rest h
  | .bound b :: rest, h => by
    intro c hc
    simp only [boundsOnly, List.mem_cons] at hc
    rw [emit_rule] at h
    rcases hc with rfl | hc
    · cases hr : resolve c t.numFields with
      | some p => exact Or.inl (by simp)
      | none =>
        cases hf : c.fallback with
        | some f => exact Or.inr (Or.inl (by simp))
        | none =>
          cases hg : cfg.fallback with
          | some g => exact Or.inr (Or.inr (by simp))
          | none => rw [hr, hf, hg] at h; cases h
    · have key : ∀ x, (emitText cfg t sep j rest x).status = .ok →
          (emit cfg t sep j rest).status = .ok := by
        intro x hx
        unfold emitText at hx
        cases hrend : rendered cfg x with
        | none => rw [hrend] at hx; cases hx
        | some y => rw [hrend] at hx; exact hx
      have hrest : (emit cfg t sep j rest).status = .ok := by
        cases hr : resolve b t.numFields with
        | some p => obtain ⟨lo, hi⟩ := p; rw [hr] at h; exact key _ h
        | none =>
          cases hf : b.fallback with
          | some f => rw [hr, hf] at h; exact key _ h
          | none =>
            cases hg : cfg.fallback with
            | some g => rw [hr, hf, hg] at h; exact key _ h
            | none => rw [hr, hf, hg] at h; cases h
      exact emit_never_silent cfg t sep j rest hrest c hc

/-! ## the record and the run -/

/-- what the rewriting (`-m`, range expansion) makes of `pre ++ b :: post` when `b` does not
    resolve: `b` stays where it is, still unresolvable, still without fallback -/
theorem rewriteList_at (cfg : Cfg) (n : Nat) (pre post : List BoF) (b : UserBounds)
    (h : resolve b n = none) :
    ∃ b', rewriteList cfg n (pre ++ .bound b :: post) =
        rewriteList cfg n pre ++ .bound b' :: rewriteList cfg n post ∧
      resolve b' n = none ∧ b'.fallback = b.fallback := by
  obtain ⟨b', h1, h2, h3⟩ := rewriteList_unresolved cfg n b h
  refine ⟨b', ?_, h2, h3⟩
  have : pre ++ .bound b :: post = pre ++ ([.bound b] ++ post) := rfl
  rw [this, rewriteList_append, rewriteList_append, h1]
  rfl

/-- **C13, one tokenised record** (any request) -/
theorem specBody_fails_at (cfg : Cfg) (tok : Tok) (pre post : List BoF) (b : UserBounds)
    (hs : (cfg.onlyDelimited && tok.numFields == 1) = false)
    (hb : cfg.bofs = pre ++ .bound b :: post)
    (h : resolve b tok.numFields = none) (hf : b.fallback = none) (hg : cfg.fallback = none) :
    specBody cfg tok =
      ⟨openBracket cfg ++ (emitThen cfg tok (specSep cfg) (specJoiner cfg)
        (rewriteList cfg tok.numFields pre)).out, .fail⟩ := by
  obtain ⟨b', e1, e2, e3⟩ := rewriteList_at cfg tok.numFields pre post b h
  have hc := countBounds_complemented_pos cfg tok.numFields pre post b hb h
  unfold specBody
  rw [hs, rewritten_eq, hb, e1, emit_fails_at cfg tok _ _ _ _ b' e2 (e3.trans hf) hg]
  have hc' : (cfg.complement && countBounds (complemented cfg tok.numFields) == 0) = false := by
    cases cfg.complement with
    | false => rfl
    | true => simpa using hc
  rw [hc']
  rfl

/-- **C13, one record**: `tok` are its tokens; it is not suppressed by `-s` -/
theorem specRecord_fails_at (cfg : Cfg) (r : Bytes) (tok : Tok) (pre post : List BoF)
    (b : UserBounds) (ht : recordTok cfg r = some tok)
    (hs : (cfg.onlyDelimited && tok.numFields == 1) = false)
    (hb : cfg.bofs = pre ++ .bound b :: post)
    (h : resolve b tok.numFields = none) (hf : b.fallback = none) (hg : cfg.fallback = none) :
    specRecord cfg r =
      ⟨openBracket cfg ++ (emitThen cfg tok (specSep cfg) (specJoiner cfg)
        (rewriteList cfg tok.numFields pre)).out, .fail⟩ := by
  rw [specRecord_of_recordTok ht, specBody_fails_at cfg tok pre post b hs hb h hf hg]

/-- a run that meets a failing record fails, having printed the records before it and what the
    failing record printed -/
theorem specRunRecords_fails_at (cfg : Cfg) (before after : List Bytes) (r : Bytes) (w : Bytes)
    (h : specRecord cfg r = ⟨w, .fail⟩) :
    (specRunRecords cfg (before ++ r :: after)).status = .fail ∧
    ((specRunRecords cfg before).status = .ok →
      (specRunRecords cfg (before ++ r :: after)).out = (specRunRecords cfg before).out ++ w) := by
  rw [specRunRecords_append]
  simp only [specRunRecords]
  rw [h]
  have hfail : (Run.seq ⟨w, .fail⟩ (specRunRecords cfg after)) = ⟨w, .fail⟩ := rfl
  rw [hfail]
  rcases specRunRecords_clean' cfg before with hc | hc
  · exact ⟨by rw [Run.seq_status_of_ok hc], fun _ => by rw [Run.seq_out_of_ok hc]⟩
  · refine ⟨by rw [Run.seq_of_not_ok _ _ (by rw [hc]; simp)]; exact hc, fun hok => ?_⟩
    rw [hc] at hok; cases hok

/-- **C13, the run of the specification.**  If on the record `r` (tokens `tok`, not suppressed by
    `-s`) the bound `b` does not resolve, has no fallback of its own and there is no generic
    fallback, the run fails, and — the records before `r` having succeeded — its output is the
    output of those records followed by what `r` printed before `b`. -/
theorem specRun_fails_at (cfg : Cfg) (input : Bytes) (before after : List Bytes) (r : Bytes)
    (hrec : specRecords cfg.eol input = before ++ r :: after)
    (tok : Tok) (pre post : List BoF) (b : UserBounds) (ht : recordTok cfg r = some tok)
    (hs : (cfg.onlyDelimited && tok.numFields == 1) = false)
    (hb : cfg.bofs = pre ++ .bound b :: post)
    (h : resolve b tok.numFields = none) (hf : b.fallback = none) (hg : cfg.fallback = none) :
    (specRun cfg input).status = .fail ∧
    ((specRunRecords cfg before).status = .ok →
      (specRun cfg input).out =
        (specRunRecords cfg before).out ++
          (openBracket cfg ++ (emitThen cfg tok (specSep cfg) (specJoiner cfg)
            (rewriteList cfg tok.numFields pre)).out)) := by
  unfold specRun
  rw [hrec]
  exact specRunRecords_fails_at cfg before after r _
    (specRecord_fails_at cfg r tok pre post b ht hs hb h hf hg)

/-! ## `-l` and `-b` in the specification -/

/-- the request as `-l` reads it: no `--json`, no `-c` -/
def linesCfg (cfg : Cfg) : Cfg := { cfg with json := false, chars := false }

/-- the lines of the input as tokens (`-l`) -/
def linesTok (eol : UInt8) (input : Bytes) : Tok :=
  (tokOfParts 1 (records eol input)).getD ⟨[], []⟩

/-- the bytes of the input as tokens (`-b`) -/
def bytesTok (data : Bytes) : Tok :=
  (tokOfParts 0 (data.map fun b => [b])).getD ⟨[], []⟩

theorem specLinesBody_fails_at (cfg : Cfg) (tok : Tok) (pre post : List BoF) (b : UserBounds)
    (hlone : (tok.rest.isEmpty && tok.first.isEmpty) = false)
    (hb : cfg.bofs = pre ++ .bound b :: post)
    (h : resolve b tok.numFields = none) (hf : b.fallback = none) (hg : cfg.fallback = none) :
    specLinesBody cfg tok =
      ⟨(emitThen (linesCfg cfg) tok (fun k => repeatBytes [cfg.eol] k) [cfg.eol]
        (rewriteList (linesCfg cfg) tok.numFields pre)).out, .fail⟩ := by
  obtain ⟨b', e1, e2, e3⟩ := rewriteList_at (linesCfg cfg) tok.numFields pre post b h
  have hc := countBounds_complemented_pos cfg tok.numFields pre post b hb h
  have hc' : (cfg.complement && countBounds (complemented cfg tok.numFields) == 0) = false := by
    cases cfg.complement with
    | false => rfl
    | true => simpa using hc
  have hcomp : complemented cfg tok.numFields = rewriteList (linesCfg cfg) tok.numFields cfg.bofs :=
    rfl
  have key := emit_fails_at (linesCfg cfg) tok (fun k => repeatBytes [cfg.eol] k) [cfg.eol]
    (rewriteList (linesCfg cfg) tok.numFields pre) (rewriteList (linesCfg cfg) tok.numFields post)
    b' e2 (e3.trans hf) hg
  rw [← e1, ← hb, ← hcomp] at key
  unfold specLinesBody
  rw [hlone, hc',
    emit_cfg_congr (cfg := linesCfg cfg) (cfg' := { cfg with json := false }) rfl rfl rfl, key]
  rfl

/-- **C13, `-l`, the specification**: the input is neither empty nor a lone EOL; `n` is its
    number of lines -/
theorem specLines_fails_at (cfg : Cfg) (input : Bytes) (pre post : List BoF) (b : UserBounds)
    (h0 : input ≠ []) (h1 : input ≠ [cfg.eol])
    (hb : cfg.bofs = pre ++ .bound b :: post)
    (h : resolve b (records cfg.eol input).length = none) (hf : b.fallback = none)
    (hg : cfg.fallback = none) :
    specLines cfg input =
      ⟨(emitThen (linesCfg cfg) (linesTok cfg.eol input) (fun k => repeatBytes [cfg.eol] k)
        [cfg.eol] (rewriteList (linesCfg cfg) (records cfg.eol input).length pre)).out, .fail⟩ := by
  rw [specLines_eq]
  unfold linesTok
  cases hr : records cfg.eol input with
  | nil => exact absurd ((records_eq_nil_iff cfg.eol input).1 hr) h0
  | cons p ps =>
    have ht : tokOfParts 1 (p :: ps) = some ⟨p, ps.map fun x => (1, x)⟩ := rfl
    rw [ht]
    simp only [Option.getD_some]
    have hn : (⟨p, ps.map fun x => (1, x)⟩ : Tok).numFields = (p :: ps).length := by
      simp [Tok.numFields]
    rw [hr, ← hn] at h
    rw [← hn]
    refine specLinesBody_fails_at cfg _ pre post b ?_ hb h hf hg
    cases ps with
    | cons _ _ => simp
    | nil =>
      cases p with
      | cons _ _ => simp
      | nil => exact absurd ((records_eq_lone_iff cfg.eol input).1 hr) h1

/-- **C13, `-b`, the specification**: `n` is the number of bytes of the (non-empty) input -/
theorem specBytes_fails_at (cfg : Cfg) (data : Bytes) (pre post : List BoF) (b : UserBounds)
    (hne : data ≠ []) (hb : cfg.bofs = pre ++ .bound b :: post)
    (h : resolve b data.length = none) (hf : b.fallback = none) (hg : cfg.fallback = none) :
    specBytes cfg data =
      ⟨(emitThen { cfg with json := false, join := false } (bytesTok data) (fun _ => []) []
        pre).out, .fail⟩ := by
  unfold specBytes bytesTok
  cases data with
  | nil => exact absurd rfl hne
  | cons c cs =>
    have ht : tokOfParts 0 ((c :: cs).map fun b => [b]) =
        some ⟨[c], (cs.map fun b => [b]).map fun x => (0, x)⟩ := rfl
    rw [ht]
    simp only [Option.getD_some]
    have hn : (⟨[c], (cs.map fun b => [b]).map fun x => (0, x)⟩ : Tok).numFields =
        (c :: cs).length := by simp [Tok.numFields]
    rw [← hn] at h
    have key := emit_fails_at { cfg with json := false, join := false }
      ⟨[c], (cs.map fun b => [b]).map fun x => (0, x)⟩ (fun _ => []) [] pre post b h hf hg
    rw [← hb] at key
    exact key

/-! ## the runs of the engines -/

theorem openBracket_cfgOf (opt : Opt) (hjson : opt.json = false) : openBracket (cfgOf opt) = [] := by
  unfold openBracket
  simp [cfgOf, hjson]

/-- **C13, general field engine, the run.**  If on the record `r` of the input (tokens `tok`,
    not suppressed by `-s`) the bound `b` does not resolve, has no fallback of its own and there
    is no generic fallback, then the run fails — never a silent success — and, the records before
    `r` having succeeded, what was written is the output of those records followed by what `r`
    printed before `b`.  (By `cutRecords_eq_spec_gen`, `specRunRecords (cfgOf opt) before` is also
    what the engine itself does on the records `before`.) -/
theorem readAndCutStr_never_silent (opt : Opt) (input : Bytes) (hd : opt.delimiter ≠ [])
    (hre : opt.regexBag = none) (hty : opt.boundsType = .fields ∨ opt.boundsType = .lines)
    (hjson : opt.json = false)
    (hz : AllNonzero opt.bounds.list) (hL : LastMarked opt.bounds.list)
    (before after : List Bytes) (r : Bytes)
    (hrec : records opt.eol.byte input = before ++ r :: after)
    (tok : Tok) (pre post : List BoF) (b : UserBounds) (ht : recordTok (cfgOf opt) r = some tok)
    (hs : (opt.onlyDelimited && tok.numFields == 1) = false)
    (hb : opt.bounds.list = pre ++ .bound b :: post)
    (h : resolve b tok.numFields = none) (hf : b.fallback = none) (hg : opt.fallbackOob = none) :
    (readAndCutStr opt input).status = .fail ∧
    ((specRunRecords (cfgOf opt) before).status = .ok →
      (readAndCutStr opt input).out =
        (specRunRecords (cfgOf opt) before).out ++
          (emitThen (cfgOf opt) tok (specSep (cfgOf opt)) (specJoiner (cfgOf opt))
            (rewriteList (cfgOf opt) tok.numFields pre)).out) := by
  rw [readAndCutStr_eq_specRun_gen opt input hd hre hty hjson hz hL]
  have := specRun_fails_at (cfgOf opt) input before after r hrec tok pre post b ht hs hb h hf hg
  rw [openBracket_cfgOf opt hjson, List.nil_append] at this
  exact this

/-- the same for a single-record input: nothing but what the record printed before `b` -/
theorem readAndCutStr_never_silent_single (opt : Opt) (input : Bytes) (hd : opt.delimiter ≠ [])
    (hre : opt.regexBag = none) (hty : opt.boundsType = .fields ∨ opt.boundsType = .lines)
    (hjson : opt.json = false)
    (hz : AllNonzero opt.bounds.list) (hL : LastMarked opt.bounds.list)
    (r : Bytes) (hrec : records opt.eol.byte input = [r])
    (tok : Tok) (pre post : List BoF) (b : UserBounds) (ht : recordTok (cfgOf opt) r = some tok)
    (hs : (opt.onlyDelimited && tok.numFields == 1) = false)
    (hb : opt.bounds.list = pre ++ .bound b :: post)
    (h : resolve b tok.numFields = none) (hf : b.fallback = none) (hg : opt.fallbackOob = none) :
    readAndCutStr opt input =
      ⟨(emitThen (cfgOf opt) tok (specSep (cfgOf opt)) (specJoiner (cfgOf opt))
        (rewriteList (cfgOf opt) tok.numFields pre)).out, .fail⟩ := by
  obtain ⟨h1, h2⟩ := readAndCutStr_never_silent opt input hd hre hty hjson hz hL [] [] r hrec tok
    pre post b ht hs hb h hf hg
  have h3 := h2 rfl
  simp only [specRunRecords, Run.empty, List.nil_append] at h3
  cases hrun : readAndCutStr opt input with
  | mk out st =>
    rw [hrun] at h1 h3
    simp only at h1 h3
    rw [h1, h3]

/-- **C13, `-l`, buffered algorithm, the run** -/
theorem cutLines_never_silent (o : Opt) (input : Bytes)
    (hd : o.delimiter = [o.eol.byte]) (hty : o.boundsType = .lines)
    (hre : o.regexBag = none) (hjson : o.json = false)
    (hz : AllNonzero o.bounds.list) (hL : LastMarked o.bounds.list)
    (honly : o.onlyDelimited = false) (htrim : o.trim = none) (hg : o.greedyDelimiter = false)
    (hp : o.compressDelimiter = false) (hrepl : o.replaceDelimiter = none)
    (hutf : validUtf8 input = true) (h0 : input ≠ []) (h1 : input ≠ [o.eol.byte])
    (pre post : List BoF) (b : UserBounds) (hb : o.bounds.list = pre ++ .bound b :: post)
    (h : resolve b (records o.eol.byte input).length = none) (hf : b.fallback = none)
    (hgen : o.fallbackOob = none) :
    cutLines o input =
      ⟨(emitThen (linesCfg (cfgOf o)) (linesTok o.eol.byte input)
        (fun k => repeatBytes [o.eol.byte] k) [o.eol.byte]
        (rewriteList (linesCfg (cfgOf o)) (records o.eol.byte input).length pre)).out, .fail⟩ := by
  rw [cutLines_eq_specLines_all o input hd hty hre hjson hz hL honly htrim hg hp hrepl hutf]
  exact specLines_fails_at (cfgOf o) input pre post b h0 h1 hb h hf hgen

/-- the same for the entry point, when it picks the buffered algorithm (`-m`, or a request that
    is not forward-only: negative or reordered indexes) -/
theorem readAndCutLines_never_silent (o : Opt) (input : Bytes)
    (hbuf : o.complement = true ∨ isForwardOnly o.bounds.list = false)
    (hd : o.delimiter = [o.eol.byte]) (hty : o.boundsType = .lines)
    (hre : o.regexBag = none) (hjson : o.json = false)
    (hz : AllNonzero o.bounds.list) (hL : LastMarked o.bounds.list)
    (honly : o.onlyDelimited = false) (htrim : o.trim = none) (hg : o.greedyDelimiter = false)
    (hp : o.compressDelimiter = false) (hrepl : o.replaceDelimiter = none)
    (hutf : validUtf8 input = true) (h0 : input ≠ []) (h1 : input ≠ [o.eol.byte])
    (pre post : List BoF) (b : UserBounds) (hb : o.bounds.list = pre ++ .bound b :: post)
    (h : resolve b (records o.eol.byte input).length = none) (hf : b.fallback = none)
    (hgen : o.fallbackOob = none) :
    readAndCutLines o input =
      ⟨(emitThen (linesCfg (cfgOf o)) (linesTok o.eol.byte input)
        (fun k => repeatBytes [o.eol.byte] k) [o.eol.byte]
        (rewriteList (linesCfg (cfgOf o)) (records o.eol.byte input).length pre)).out, .fail⟩ := by
  rw [readAndCutLines_buffered o input (hbuf.elim Or.inl (fun h => Or.inr (Or.inr h)))]
  exact cutLines_never_silent o input hd hty hre hjson hz hL honly htrim hg hp hrepl hutf h0 h1
    pre post b hb h hf hgen

/-- **C13, `-b`, the run** -/
theorem readAndCutBytes_never_silent (o : Opt) (data : Bytes)
    (hz : ∀ b ∈ boundsOnly o.bounds.list, b.Nonzero) (hne : data ≠ [])
    (pre post : List BoF) (b : UserBounds) (hb : o.bounds.list = pre ++ .bound b :: post)
    (h : resolve b data.length = none) (hf : b.fallback = none) (hgen : o.fallbackOob = none) :
    readAndCutBytes o data =
      ⟨(emitThen { (cfgOf o) with json := false, join := false } (bytesTok data) (fun _ => []) []
        pre).out, .fail⟩ := by
  rw [readAndCutBytes_eq_spec o data hz]
  exact specBytes_fails_at (cfgOf o) data pre post b hne hb h hf hgen

/-! ## `-l`, one line at a time: proved on the model

The refinement theorem of this algorithm (C05) is about requests all of whose bounds resolve, so
it says nothing here.  The statement is proved on the model directly, for *any* bounds list
(fillers, any order): a bound that cannot be resolved on the lines of the input is never consumed
by the walk, and what is left when the input ends fails at it or before it. -/

/-- the bound cannot be matched on a line where it would end, nor at all if it is open -/
def Blocked (b : UserBounds) (n : Nat) : Prop :=
  ∀ idx : Int, 1 ≤ idx → idx ≤ n → (b.matches idx).getD false = true →
    b.r ≠ .some idx ∧ b.r ≠ .cont

theorem blocked_of_unresolvable (b : UserBounds) (n : Nat) (hz : b.l ≠ .some 0)
    (h : resolve b n = none) : Blocked b n := by
  intro idx h1 h2 hm
  have hr := (resolve_none_iff b n).1 h
  unfold UserBounds.matches at hm
  cases hl : b.l with
  | cont =>
    cases hrr : b.r with
    | cont =>
      rw [hl, hrr] at hr
      simp only [Side.OutOf, Side.position, false_or] at hr
      omega
    | some v =>
      refine ⟨?_, by simp⟩
      intro hv
      simp only [Side.some.injEq] at hv
      subst hv
      rw [hl, hrr] at hr
      simp only [Side.OutOf, Side.position, false_or] at hr
      have : v > 0 := by omega
      rw [if_pos this] at hr
      omega
  | some u =>
    have hu0 : u ≠ 0 := fun h0 => hz (by rw [hl, h0])
    rw [hl] at hm
    have hu : ¬ (u < 0) := by
      intro hneg
      have : oppSign u idx = true := by simp [oppSign]; omega
      simp [this] at hm
    have hup : u > 0 := by omega
    cases hrr : b.r with
    | cont =>
      rw [hrr] at hm
      have hle : u ≤ idx := by
        by_cases c : oppSign u idx = true
        · simp [c] at hm
        · simp only [c, Bool.false_eq_true, if_false, Option.getD_some, decide_eq_true_eq] at hm
          exact hm
      rw [hl, hrr] at hr
      simp only [Side.OutOf, Side.position, if_pos hup, false_or] at hr
      omega
    | some v =>
      refine ⟨?_, by simp⟩
      intro hv
      simp only [Side.some.injEq] at hv
      subst hv
      rw [hrr] at hm
      have hle : u ≤ v := by
        by_cases c : oppSign u v = true
        · simp [c] at hm
        · by_cases c2 : oppSign v v = true
          · simp [c, c2] at hm
          · simp only [c, c2, Bool.false_eq_true, if_false, Option.getD_some, Bool.and_eq_true,
              decide_eq_true_eq] at hm
            exact hm.1
      rw [hl, hrr] at hr
      have hvp : v > 0 := by omega
      simp only [Side.OutOf, Side.position, if_pos hup, if_pos hvp] at hr
      omega

/-- `add_newline_next` is set only while the pending bound has started printing -/
def FwdStarted (n : Nat) (rest : List BoF) (addNl : Bool) : Prop :=
  addNl = true → ∃ c t, rest = .bound c :: t ∧
    ∃ idx : Int, 1 ≤ idx ∧ idx ≤ n ∧ (c.matches idx).getD false = true

/-- one line: a blocked bound stays pending -/
theorem fwdLine_keeps (o : Opt) (line : Bytes) (n : Nat) (lineIdx : Int) (h1 : 1 ≤ lineIdx)
    (h2 : lineIdx ≤ n) (b : UserBounds) (hbl : Blocked b n) :
    ∀ (rest p q : List BoF) (addNl : Bool), rest = p ++ .bound b :: q → FwdStarted n rest addNl →
      (∃ p' q', (fwdLine o line lineIdx rest addNl).2.1 = p' ++ .bound b :: q') ∧
      FwdStarted n (fwdLine o line lineIdx rest addNl).2.1 (fwdLine o line lineIdx rest addNl).2.2
  | [], p, q, _, hrest, _ => by cases p <;> cases hrest
  | .filler f :: t, p, q, addNl, hrest, hst => by
    have ha : addNl = false := by
      cases addNl with
      | false => rfl
      | true => obtain ⟨c, t', he, _⟩ := hst rfl; cases he
    cases p with
    | nil => cases hrest
    | cons x p' =>
      simp only [List.cons_append, List.cons.injEq] at hrest
      have ih := fwdLine_keeps o line n lineIdx h1 h2 b hbl t p' q addNl hrest.2
        (by intro h; rw [ha] at h; cases h)
      simp only [fwdLine]
      exact ih
  | .bound c :: t, p, q, addNl, hrest, hst => by
    simp only [fwdLine]
    by_cases hm : (c.matches lineIdx).getD false = true
    · rw [if_pos hm]
      by_cases hr : c.r = .some lineIdx
      · rw [if_pos hr]
        have hcb : c ≠ b := by
          intro e; subst e
          exact (hbl lineIdx h1 h2 hm).1 hr
        cases p with
        | nil =>
          simp only [List.nil_append, List.cons.injEq, BoF.bound.injEq] at hrest
          exact absurd hrest.1 hcb
        | cons x p' =>
          simp only [List.cons_append, List.cons.injEq] at hrest
          have ih := fwdLine_keeps o line n lineIdx h1 h2 b hbl t p' q false hrest.2
            (by intro h; cases h)
          exact ih
      · rw [if_neg hr]
        refine ⟨⟨p, q, hrest⟩, ?_⟩
        intro _
        exact ⟨c, t, rfl, lineIdx, h1, h2, hm⟩
    · rw [if_neg hm]
      exact ⟨⟨p, q, hrest⟩, hst⟩

/-- the end of the input: what is left fails at the blocked bound or before it -/
theorem fwdEnd_fails (o : Opt) (n : Nat) (b : UserBounds) (hbl : Blocked b n)
    (hf : b.fallback = none) (hgen : o.fallbackOob = none) :
    ∀ (p q : List BoF) (a : Bool), FwdStarted n (p ++ .bound b :: q) a →
      (fwdEnd o (p ++ .bound b :: q) a).status = .fail
  | [], q, a, hst => by
    simp only [List.nil_append, fwdEnd]
    cases a with
    | true =>
      obtain ⟨c, t, he, idx, i1, i2, hm⟩ := hst rfl
      simp only [List.nil_append, List.cons.injEq, BoF.bound.injEq] at he
      obtain ⟨rfl, _⟩ := he
      have := (hbl idx i1 i2 hm).2
      simp only [if_true, this, ne_eq, not_false_eq_true]
      rfl
    | false =>
      simp only [Bool.false_eq_true, if_false, hf, hgen]
      rfl
  | .filler f :: p, q, a, hst => by
    have ha : a = false := by
      cases a with
      | false => rfl
      | true => obtain ⟨c, t', he, _⟩ := hst rfl; cases he
    simp only [List.cons_append, fwdEnd]
    exact fwdEnd_fails o n b hbl hf hgen p q a (by intro h; rw [ha] at h; cases h)
  | .bound c :: p, q, a, hst => by
    have ih := fwdEnd_fails o n b hbl hf hgen p q false (by intro h; cases h)
    simp only [List.cons_append, fwdEnd]
    cases a with
    | true =>
      simp only [if_true]
      by_cases hc : c.r = .cont
      · simp only [hc, ne_eq, not_true_eq_false, if_false]
        exact ih
      · simp only [hc, ne_eq, not_false_eq_true, if_true]
        rfl
    | false =>
      simp only [Bool.false_eq_true, if_false, hgen]
      cases c.fallback with
      | some f => exact ih
      | none => rfl

theorem fwdLines_fails (o : Opt) (n : Nat) (b : UserBounds) (hbl : Blocked b n)
    (hf : b.fallback = none) (hgen : o.fallbackOob = none) :
    ∀ (ls : List Bytes) (idx : Int) (rest p q : List BoF) (addNl : Bool),
      0 ≤ idx → idx + ls.length = n → rest = p ++ .bound b :: q → FwdStarted n rest addNl →
      (fwdLines o ls idx rest addNl).status = .fail
  | [], _, rest, p, q, addNl, _, _, hrest, hst => by
    subst hrest
    simp only [fwdLines]
    exact fwdEnd_fails o n b hbl hf hgen p q addNl hst
  | line :: t, idx, rest, p, q, addNl, h0, hlen, hrest, hst => by
    simp only [fwdLines]
    by_cases hu : validUtf8 line = true
    · simp only [hu, Bool.not_true, Bool.false_eq_true, if_false]
      have hk := fwdLine_keeps o line n (idx + 1) (by omega)
        (by simp only [List.length_cons] at hlen; omega) b hbl rest p q addNl hrest hst
      obtain ⟨⟨p', q', hp'⟩, hst'⟩ := hk
      cases hfl : fwdLine o line (idx + 1) rest addNl with
      | mk w ra =>
        obtain ⟨rest', a⟩ := ra
        rw [hfl] at hp' hst'
        simp only at hp' hst'
        have hne : rest'.isEmpty = false := by rw [hp']; cases p' <;> rfl
        simp only [hne, Bool.false_eq_true, if_false]
        exact fwdLines_fails o n b hbl hf hgen t (idx + 1) rest' p' q' a (by omega)
          (by simp only [List.length_cons] at hlen; omega) hp' hst'
    · simp only [hu, Bool.not_false, if_true]
      rfl

/-- **C13, `-l`, one line at a time, the run.**  Whatever the bounds list (fillers, any order,
    forward-only or not) and whatever the input: a bound that does not resolve on the lines of
    the input and has no fallback at all makes the run fail — never a silent success. -/
theorem fwd_never_silent (o : Opt) (input : Bytes) (pre post : List BoF) (b : UserBounds)
    (hb : o.bounds.list = pre ++ .bound b :: post) (hz : b.l ≠ .some 0)
    (h : resolve b (records o.eol.byte input).length = none) (hf : b.fallback = none)
    (hgen : o.fallbackOob = none) :
    (cutLinesForwardOnly o input).status = .fail := by
  unfold cutLinesForwardOnly
  exact fwdLines_fails o _ b (blocked_of_unresolvable b _ hz h) hf hgen _ 0 _ pre post false
    (by omega) (by omega) hb (by intro h; cases h)

/-- **C13, `-l`, the entry point, both algorithms**: the status is failure whichever algorithm
    `read_and_cut_lines` picks. -/
theorem readAndCutLines_never_silent_status (o : Opt) (input : Bytes)
    (hd : o.delimiter = [o.eol.byte]) (hty : o.boundsType = .lines)
    (hre : o.regexBag = none) (hjson : o.json = false)
    (hz : AllNonzero o.bounds.list) (hL : LastMarked o.bounds.list)
    (honly : o.onlyDelimited = false) (htrim : o.trim = none) (hg : o.greedyDelimiter = false)
    (hp : o.compressDelimiter = false) (hrepl : o.replaceDelimiter = none)
    (hutf : validUtf8 input = true) (h0 : input ≠ []) (h1 : input ≠ [o.eol.byte])
    (pre post : List BoF) (b : UserBounds) (hb : o.bounds.list = pre ++ .bound b :: post)
    (h : resolve b (records o.eol.byte input).length = none) (hf : b.fallback = none)
    (hgen : o.fallbackOob = none) :
    (readAndCutLines o input).status = .fail := by
  by_cases hbuf : o.complement = true ∨ isForwardOnly o.bounds.list = false
  · rw [readAndCutLines_never_silent o input hbuf hd hty hre hjson hz hL honly htrim hg hp hrepl
      hutf h0 h1 pre post b hb h hf hgen]
  · have hc : o.complement = false := by
      cases hcc : o.complement with
      | false => rfl
      | true => exact absurd (Or.inl hcc) hbuf
    have hfw : isForwardOnly o.bounds.list = true := by
      cases hff : isForwardOnly o.bounds.list with
      | true => rfl
      | false => exact absurd (Or.inr hff) hbuf
    unfold readAndCutLines
    rw [hc, hp, hfw]
    simp only [Bool.not_false, Bool.and_self, if_true]
    have hzb : b.Nonzero := hz b (by rw [hb]; simp)
    have hzl : b.l ≠ .some 0 := by
      intro h0'; have := hzb.1; rw [h0'] at this; exact this rfl
    exact fwd_never_silent o input pre post b hb hzl h hf hgen

/-! ## executed instances -/

/-- general engine, `-d - -g -j -f 1,3` on `a-b-c⏎d-e⏎f⏎`: the first record prints `a-c⏎`, the
    second has two fields only: `d-` is printed (the joiner follows `d` since a bound follows)
    and the run fails; the third record is not read -/
example :
    readAndCutStr
      { delimiter := [45], join := true, greedyDelimiter := true,
        bounds := ⟨[.bound { l := .some 1, r := .some 1 },
                    .bound { l := .some 3, r := .some 3, isLast := true }], .cont⟩ }
      [97, 45, 98, 45, 99, 10, 100, 45, 101, 10, 102, 10] =
    ⟨[97, 45, 99, 10, 100, 45], .fail⟩ := by
  decide

/-- `-l` on `a⏎b⏎c⏎`: `-1,5` (buffered), `1,5` and `1:5` (one line at a time) all fail -/
example :
    let o (l : List BoF) : Opt :=
      { delimiter := [10], boundsType := .lines, join := true, bounds := ⟨l, .cont⟩ }
    let input : Bytes := [97, 10, 98, 10, 99, 10]
    readAndCutLines (o [.bound { l := .some (-1), r := .some (-1) },
        .bound { l := .some 5, r := .some 5, isLast := true }]) input = ⟨[99, 10], .fail⟩ ∧
    readAndCutLines (o [.bound { l := .some 1, r := .some 1 },
        .bound { l := .some 5, r := .some 5, isLast := true }]) input = ⟨[97, 10], .fail⟩ ∧
    readAndCutLines (o [.bound { l := .some 1, r := .some 5, isLast := true }]) input =
      ⟨[97, 10, 98, 10, 99], .fail⟩ := by
  decide

/-- `-b` on `00 0A FF`: `2,x,9` prints `0A x` and fails -/
example :
    readAndCutBytes
      { delimiter := [], boundsType := .bytes,
        bounds := ⟨[.bound { l := .some 2, r := .some 2 }, .filler [0x78],
                    .bound { l := .some 9, r := .some 9, isLast := true }], .cont⟩ }
      [0, 10, 255] = ⟨[10, 0x78], .fail⟩ := by
  decide

end Tuc
