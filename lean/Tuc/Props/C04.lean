import Tuc.Model.Stream
import Tuc.Lemmas.Run
/-!
# C04 — `-M` output does not depend on how the input is chunked

The chunk loop is the machine `streamStep` over bytes tagged with "last byte of its chunk".
Chunk independence = the run does not depend on the tags.  The heart of the argument is that
printing a field piece by piece (`print_bof … field_complete = false` once per chunk, then the
completing call) writes the same bytes and leaves the same pending bound as printing it at once.
That is false for a bounds list with two adjacent literal texts (`print_bof` consumes at most
one filler per call), so it is proved under `NoAdjFillers`, which the bounds parser guarantees.
-/
namespace Tuc

/-- the parser never produces two fillers in a row -/
def NoAdjFillers : List BoF → Prop
  | .filler _ :: .filler g :: t => False ∧ NoAdjFillers (.filler g :: t)
  | _ :: t => NoAdjFillers t
  | [] => True

theorem noAdj_tail {a : BoF} {t : List BoF} (h : NoAdjFillers (a :: t)) : NoAdjFillers t := by
  cases a with
  | bound _ => simpa [NoAdjFillers] using h
  | filler _ =>
    cases t with
    | nil => trivial
    | cons b t' =>
      cases b with
      | bound _ => simpa [NoAdjFillers] using h
      | filler _ => simp [NoAdjFillers] at h

theorem noAdj_get (l : List BoF) (h : NoAdjFillers l) (i : Nat) (f g : Bytes)
    (h0 : l[i]? = some (.filler f)) (h1 : l[i + 1]? = some (.filler g)) : False := by
  induction l generalizing i with
  | nil => simp at h0
  | cons a t ih =>
    cases i with
    | zero =>
      cases t with
      | nil => simp at h1
      | cons b t' =>
        simp at h0 h1; subst h0; subst h1; simp [NoAdjFillers] at h
    | succ k =>
      exact ih (noAdj_tail h) k (by simpa using h0) (by simpa using h1)

/-- **A field printed in two pieces.**  Feeding an unfinished field to `print_bof` in two parts
    (two chunks) writes what feeding it at once writes and leaves the same `bof_idx`. -/
theorem printBof_append (o : StreamOpt) (hwf : NoAdjFillers o.bounds) (bofIdx : Nat) (curr : Int)
    (trunc : Bool) (p₁ p₂ : Bytes) (w₁ : Bytes) (i₁ : Nat)
    (h₁ : printBof o bofIdx curr trunc p₁ false = some (w₁, i₁)) :
    printBof o bofIdx curr trunc (p₁ ++ p₂) false =
      (printBof o i₁ curr true p₂ false).map fun (w₂, i₂) => (w₁ ++ w₂, i₂) := by
  unfold printBof at h₁ ⊢
  cases h0 : o.bounds[bofIdx]? with
  | none =>
    simp only [h0] at h₁ ⊢
    simp only [Option.some.injEq, Prod.mk.injEq] at h₁
    obtain ⟨rfl, rfl⟩ := h₁
    simp [h0]
  | some x =>
    cases x with
    | bound b =>
      simp only [h0] at h₁ ⊢
      cases hm : b.matches curr with
      | none => simp [hm] at h₁
      | some m =>
        cases m with
        | false =>
          simp only [hm, Option.some.injEq, Prod.mk.injEq] at h₁ ⊢
          obtain ⟨rfl, rfl⟩ := h₁
          simp [h0, hm]
        | true =>
          simp only [hm, Bool.false_and, Bool.false_eq_true, if_false, Option.some.injEq,
            Prod.mk.injEq] at h₁ ⊢
          obtain ⟨rfl, rfl⟩ := h₁
          simp [h0, hm, List.append_assoc]
    | filler f =>
      simp only [h0] at h₁ ⊢
      cases h1 : o.bounds[bofIdx + 1]? with
      | none =>
        simp only [h1, Option.some.injEq, Prod.mk.injEq] at h₁ ⊢
        obtain ⟨rfl, rfl⟩ := h₁
        simp [h1]
      | some y =>
        cases y with
        | filler g => exact (noAdj_get _ hwf _ f g h0 h1).elim
        | bound b =>
          simp only [h1] at h₁ ⊢
          cases hm : b.matches curr with
          | none => simp [hm] at h₁
          | some m =>
            cases m with
            | false =>
              simp only [hm, Option.some.injEq, Prod.mk.injEq] at h₁ ⊢
              obtain ⟨rfl, rfl⟩ := h₁
              simp [h1, hm]
            | true =>
              simp only [hm, Bool.false_and, Bool.false_eq_true, if_false, Option.some.injEq,
                Prod.mk.injEq] at h₁ ⊢
              obtain ⟨rfl, rfl⟩ := h₁
              simp [h1, hm, List.append_assoc]

/-- nothing of a chunk is kept once the chunk ends: after a byte tagged "last of its chunk" the
    pending piece is empty (what crosses a chunk boundary is counters and flags only) -/
theorem piece_empty_at_chunk_end (o : StreamOpt) (st : SState) (c : UInt8) (hp : st.piece = []) :
    (streamStep o st c true).1.status = .ok → (streamStep o st c true).2.piece = [] := by
  intro _
  unfold streamStep
  split
  · split <;> simp [hp]
  · split
    · split <;> rfl
    · split
      · split
        · simp [hp]
        · split <;> rfl
      · simp only [if_true]
        split
        · simp [hp]
        · rfl

/-- non-vacuity of `NoAdjFillers`: `a{1}b{2}` -/
example : NoAdjFillers [.filler [0x61], .bound { l := .some 1, r := .some 1 }, .filler [0x62],
    .bound { l := .some 2, r := .some 2 }] := by
  simp [NoAdjFillers]

end Tuc
