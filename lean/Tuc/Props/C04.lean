import Tuc.Model.Stream
import Tuc.Model.Args
import Tuc.Lemmas.Run
/-!
# C04 — `-M` output does not depend on how the input is chunked

The chunk loop is the machine `streamStep` over bytes tagged with "last byte of its chunk".
Chunk independence = the run does not depend on the tags.  The heart of the argument is that
printing a field piece by piece (`print_bof … field_complete = false` once per chunk, then the
completing call) writes the same bytes and leaves the same pending bound as printing it at once
(`printBof_split`).  That is false for a bounds list with two adjacent literal texts (`print_bof`
consumes at most one filler per call; see the counter-example at the end), so it is proved under
`NoAdjFillers`, which the bounds parser guarantees.

Plan of the proof.  The canonical run is the one where no byte is tagged (`untag`): the whole
record stays pending and is written by the delimiter / EOL / EOF that ends the field.  A run over
an arbitrary tagging is, at every moment, in one of three relations with the canonical run over the
same bytes (`streamRun_sim`, `streamRun_doomed`):
* same state, same output so far;
* the tagged run has already written a non-empty prefix `p₁` of the pending piece
  (`printBof … p₁ false = some (w, i₁)`): it is `w` ahead, its `bof_idx` is `i₁`, its `trunc` is
  set, everything else is equal — and `printBof_split` shows the next call catches up;
* the tagged run has panicked in `print_bof` (`matches` was an `Err`): the canonical run is in a
  state where the very same call is the next thing it does, and it writes nothing before.
Main results: `streamRun_untag`, `tag_independent`, `cutBytesStream_canonical`,
`chunk_independent`, `buffer_size_irrelevant`; the hypothesis is discharged for everything `-f` can
parse to (`boundsListOfString_noAdj`, `streamOptOf_noAdj`), which gives the statement at the level
of `main`: `dispatch_fixedMemory_chunk_independent`.
-/
namespace Tuc

/-- the parser never produces two fillers in a row -/
def NoAdjFillers : List BoF → Prop
  | .filler _ :: .filler g :: t => False ∧ NoAdjFillers (.filler g :: t)
  | _ :: t => NoAdjFillers t
  | [] => True

theorem noAdj_tail {a : BoF} {t : List BoF} (h : NoAdjFillers (a :: t)) : NoAdjFillers t := by
  cases a with
  | bound _ => simpa [NoAdjFillers] using h
  | filler _ =>
    cases t with
    | nil => trivial
    | cons b t' =>
      cases b with
      | bound _ => simpa [NoAdjFillers] using h
      | filler _ => simp [NoAdjFillers] at h

theorem noAdj_get (l : List BoF) (h : NoAdjFillers l) (i : Nat) (f g : Bytes)
    (h0 : l[i]? = some (.filler f)) (h1 : l[i + 1]? = some (.filler g)) : False := by
  induction l generalizing i with
  | nil => simp at h0
  | cons a t ih =>
    cases i with
    | zero =>
      cases t with
      | nil => simp at h1
      | cons b t' =>
        simp at h0 h1; subst h0; subst h1; simp [NoAdjFillers] at h
    | succ k =>
      exact ih (noAdj_tail h) k (by simpa using h0) (by simpa using h1)

/-- **A field printed in two pieces.**  If the first part `p₁` of a field has been fed to `print_bof`
    as an unfinished piece (end of a chunk), then feeding the rest `p₂` — unfinished again
    (`fc = false`) or completing the field (`fc = true`; `p₂` may be empty: the field ended
    exactly at the chunk end) — never panics and, together, writes what one call on `p₁ ++ p₂`
    writes, and leaves the same `bof_idx`.  After the first part `trunc = true` suppresses the
    delimiter that the single call prints in front of the field. -/
theorem printBof_split (o : StreamOpt) (hwf : NoAdjFillers o.bounds) (bofIdx : Nat) (curr : Int)
    (trunc : Bool) (p₁ p₂ : Bytes) (fc : Bool) (w₁ : Bytes) (i₁ : Nat)
    (h₁ : printBof o bofIdx curr trunc p₁ false = some (w₁, i₁)) :
    ∃ w₂ i₂, printBof o i₁ curr true p₂ fc = some (w₂, i₂) ∧
      printBof o bofIdx curr trunc (p₁ ++ p₂) fc = some (w₁ ++ w₂, i₂) := by
  unfold printBof at h₁ ⊢
  cases h0 : o.bounds[bofIdx]? with
  | none =>
    simp only [h0] at h₁ ⊢
    simp only [Option.some.injEq, Prod.mk.injEq] at h₁
    obtain ⟨rfl, rfl⟩ := h₁
    simp [h0]
  | some x =>
    cases x with
    | bound b =>
      simp only [h0] at h₁ ⊢
      cases hm : b.matches curr with
      | none => simp [hm] at h₁
      | some m =>
        cases m with
        | false =>
          simp only [hm, Option.some.injEq, Prod.mk.injEq] at h₁ ⊢
          obtain ⟨rfl, rfl⟩ := h₁
          simp [h0, hm]
        | true =>
          simp only [hm, Bool.false_and, Bool.false_eq_true, if_false, Option.some.injEq,
            Prod.mk.injEq] at h₁ ⊢
          obtain ⟨rfl, rfl⟩ := h₁
          by_cases hc : (fc && decide (b.r = Side.some curr)) = true <;>
            simp [h0, hm, hc, List.append_assoc]
    | filler f =>
      simp only [h0] at h₁ ⊢
      cases h1 : o.bounds[bofIdx + 1]? with
      | none =>
        simp only [h1, Option.some.injEq, Prod.mk.injEq] at h₁ ⊢
        obtain ⟨rfl, rfl⟩ := h₁
        simp [h1]
      | some y =>
        cases y with
        | filler g => exact (noAdj_get _ hwf _ f g h0 h1).elim
        | bound b =>
          simp only [h1] at h₁ ⊢
          cases hm : b.matches curr with
          | none => simp [hm] at h₁
          | some m =>
            cases m with
            | false =>
              simp only [hm, Option.some.injEq, Prod.mk.injEq] at h₁ ⊢
              obtain ⟨rfl, rfl⟩ := h₁
              simp [h1, hm]
            | true =>
              simp only [hm, Bool.false_and, Bool.false_eq_true, if_false, Option.some.injEq,
                Prod.mk.injEq] at h₁ ⊢
              obtain ⟨rfl, rfl⟩ := h₁
              by_cases hc : (fc && decide (b.r = Side.some curr)) = true <;>
                simp [h1, hm, hc, List.append_assoc]

/-- the `field_complete = false` instance, in the form of the first version of this file -/
theorem printBof_append (o : StreamOpt) (hwf : NoAdjFillers o.bounds) (bofIdx : Nat) (curr : Int)
    (trunc : Bool) (p₁ p₂ : Bytes) (w₁ : Bytes) (i₁ : Nat)
    (h₁ : printBof o bofIdx curr trunc p₁ false = some (w₁, i₁)) :
    printBof o bofIdx curr trunc (p₁ ++ p₂) false =
      (printBof o i₁ curr true p₂ false).map fun (w₂, i₂) => (w₁ ++ w₂, i₂) := by
  obtain ⟨w₂, i₂, h2, h3⟩ := printBof_split o hwf bofIdx curr trunc p₁ p₂ false w₁ i₁ h₁
  rw [h2, h3]; rfl

/-- the companion for the completing call (delimiter or EOL found) -/
theorem printBof_complete_append (o : StreamOpt) (hwf : NoAdjFillers o.bounds) (bofIdx : Nat)
    (curr : Int) (trunc : Bool) (p₁ p₂ : Bytes) (w₁ : Bytes) (i₁ : Nat)
    (h₁ : printBof o bofIdx curr trunc p₁ false = some (w₁, i₁)) :
    printBof o bofIdx curr trunc (p₁ ++ p₂) true =
      (printBof o i₁ curr true p₂ true).map fun (w₂, i₂) => (w₁ ++ w₂, i₂) := by
  obtain ⟨w₂, i₂, h2, h3⟩ := printBof_split o hwf bofIdx curr trunc p₁ p₂ true w₁ i₁ h₁
  rw [h2, h3]; rfl

/-- a second flush with nothing to flush is a no-op (it is never executed; used at EOF) -/
theorem printBof_flushed_nil (o : StreamOpt) (hwf : NoAdjFillers o.bounds) (bofIdx : Nat)
    (curr : Int) (trunc : Bool) (p₁ : Bytes) (w₁ : Bytes) (i₁ : Nat)
    (h₁ : printBof o bofIdx curr trunc p₁ false = some (w₁, i₁)) :
    printBof o i₁ curr true [] false = some ([], i₁) := by
  obtain ⟨w₂, i₂, h2, h3⟩ := printBof_split o hwf bofIdx curr trunc p₁ [] false w₁ i₁ h₁
  rw [List.append_nil, h₁] at h3
  simp only [Option.some.injEq, Prod.mk.injEq, List.self_eq_append_right] at h3
  obtain ⟨rfl, rfl⟩ := h3
  exact h2

/-- whether `print_bof` panics depends on the pending bound and the field number only -/
theorem printBof_none_indep (o : StreamOpt) (b : Nat) (c : Int) (tr tr' : Bool) (p p' : Bytes)
    (fc fc' : Bool) (h : printBof o b c tr p fc = none) : printBof o b c tr' p' fc' = none := by
  unfold printBof at h ⊢
  split at h
  simp only
  split at h
  · split at h
    · simp
    · simp at h
    · split at h <;> simp at h
  · simp at h

/-! ## the step function, case by case -/

theorem streamStep_skip (o : StreamOpt) (st : SState) (c : UInt8) (t : Bool) (h : st.skip = true) :
    streamStep o st c t =
      if c = o.eol.byte then (Run.ok [o.eol.byte], {}) else (Run.empty, { st with started := true }) := by
  simp [streamStep, h]

theorem streamStep_eol (o : StreamOpt) (st : SState) (c : UInt8) (t : Bool) (h : st.skip = false)
    (hc : c = o.eol.byte) :
    streamStep o st c t =
      if st.currField = 1 ∧ !st.trunc ∧ st.piece.isEmpty then (Run.ok [o.eol.byte], {})
      else (endOfRecord o st, {}) := by
  simp [streamStep, h, hc]

theorem streamStep_delim_none (o : StreamOpt) (st : SState) (c : UInt8) (t : Bool) (h : st.skip = false)
    (hc : c ≠ o.eol.byte) (hd : c = o.delimiter)
    (hp : printBof o st.bofIdx st.currField st.trunc st.piece true = none) :
    streamStep o st c t = (Run.panic, st) := by
  subst hd
  simp [streamStep, h, hc, hp]

theorem streamStep_delim_some (o : StreamOpt) (st : SState) (c : UInt8) (t : Bool) (h : st.skip = false)
    (hc : c ≠ o.eol.byte) (hd : c = o.delimiter) (w : Bytes) (i : Nat)
    (hp : printBof o st.bofIdx st.currField st.trunc st.piece true = some (w, i)) :
    streamStep o st c t =
        if Side.some st.currField = o.lastInterestingField then
          ((Run.ok w).seq (printFillerOrFallbacks o st.currField (o.bounds.drop i)),
           { st with bofIdx := o.bounds.length, trunc := false, piece := [], skip := true, started := true })
        else
          (Run.ok w, { bofIdx := i, currField := st.currField + 1, trunc := false, piece := [],
                       skip := false, started := true }) := by
  subst hd
  simp [streamStep, h, hc, hp]

theorem streamStep_ord_false (o : StreamOpt) (st : SState) (c : UInt8) (h : st.skip = false)
    (hc : c ≠ o.eol.byte) (hd : c ≠ o.delimiter) :
    streamStep o st c false = (Run.empty, { st with piece := st.piece ++ [c], started := true }) := by
  simp [streamStep, h, hc, hd]

theorem streamStep_ord_true_none (o : StreamOpt) (st : SState) (c : UInt8) (h : st.skip = false)
    (hc : c ≠ o.eol.byte) (hd : c ≠ o.delimiter)
    (hp : printBof o st.bofIdx st.currField st.trunc (st.piece ++ [c]) false = none) :
    streamStep o st c true = (Run.panic, st) := by
  simp [streamStep, h, hc, hd, hp]

theorem streamStep_ord_true_some (o : StreamOpt) (st : SState) (c : UInt8) (h : st.skip = false)
    (hc : c ≠ o.eol.byte) (hd : c ≠ o.delimiter) (w : Bytes) (i : Nat)
    (hp : printBof o st.bofIdx st.currField st.trunc (st.piece ++ [c]) false = some (w, i)) :
    streamStep o st c true =
      (Run.ok w, { st with bofIdx := i, trunc := true, piece := [], started := true }) := by
  simp [streamStep, h, hc, hd, hp]

/-- in the three cases where the chunk end is not looked at, the tag is irrelevant -/
theorem streamStep_tag_irrel (o : StreamOpt) (st : SState) (c : UInt8) (t t' : Bool)
    (h : st.skip = true ∨ c = o.eol.byte ∨ c = o.delimiter) :
    streamStep o st c t = streamStep o st c t' := by
  by_cases hs : st.skip = true
  · rw [streamStep_skip _ _ _ _ hs, streamStep_skip _ _ _ _ hs]
  · have hs' : st.skip = false := by simpa using hs
    by_cases hc : c = o.eol.byte
    · rw [streamStep_eol _ _ _ _ hs' hc, streamStep_eol _ _ _ _ hs' hc]
    · have hd : c = o.delimiter := by
        rcases h with h | h | h
        · exact absurd h hs
        · exact absurd h hc
        · exact h
      cases hp : printBof o st.bofIdx st.currField st.trunc st.piece true with
      | none => rw [streamStep_delim_none _ _ _ _ hs' hc hd hp, streamStep_delim_none _ _ _ _ hs' hc hd hp]
      | some x =>
        rw [streamStep_delim_some _ _ _ _ hs' hc hd x.1 x.2 hp, streamStep_delim_some _ _ _ _ hs' hc hd x.1 x.2 hp]

private theorem streamRun_cons (o : StreamOpt) (st : SState) (c : UInt8) (t : Bool) (l : List (UInt8 × Bool)) :
    streamRun o st ((c, t) :: l) = (streamStep o st c t).1.seq (streamRun o (streamStep o st c t).2 l) := by
  rfl

private theorem Run.panic_seq (r : Run) : Run.panic.seq r = Run.panic := by
  simp [Run.seq, Run.panic]

/-- a state whose pending bound cannot be matched against the current field (`matches` is an
    `Err`): whatever follows, the next `print_bof` panics and nothing is written before -/
theorem streamRun_doomed (o : StreamOpt) (l : List (UInt8 × Bool)) : ∀ st : SState,
    st.skip = false → st.started = true → st.piece ≠ [] →
    printBof o st.bofIdx st.currField st.trunc st.piece false = none →
    streamRun o st l = Run.panic := by
  induction l with
  | nil =>
    intro st hs hst hp hn
    have hp' : st.piece.isEmpty = false := by simpa using hp
    simp [streamRun, streamEof, hs, hst, hp', hn]
  | cons x l ih =>
    obtain ⟨c, t⟩ := x
    intro st hs hst hp hn
    rw [streamRun_cons]
    have hp' : st.piece.isEmpty = false := by simpa using hp
    by_cases hc : c = o.eol.byte
    · rw [streamStep_eol _ _ _ _ hs hc]
      have := printBof_none_indep o _ _ _ st.trunc _ st.piece _ true hn
      simp [hp', endOfRecord, this, Run.panic_seq]
    · by_cases hd : c = o.delimiter
      · have := printBof_none_indep o _ _ _ st.trunc _ st.piece _ true hn
        rw [streamStep_delim_none _ _ _ _ hs hc hd this]
        simp [Run.panic_seq]
      · cases t with
        | true =>
          have := printBof_none_indep o _ _ _ st.trunc _ (st.piece ++ [c]) _ false hn
          rw [streamStep_ord_true_none _ _ _ hs hc hd this]
          simp [Run.panic_seq]
        | false =>
          rw [streamStep_ord_false _ _ _ hs hc hd]
          simp only [Run.empty_seq]
          apply ih
          · exact hs
          · rfl
          · simp
          · exact printBof_none_indep o _ _ _ st.trunc _ (st.piece ++ [c]) _ false hn

/-! ## the simulation -/

/-- forget the read segmentation: no byte ends a chunk -/
def untag (l : List (UInt8 × Bool)) : List (UInt8 × Bool) := l.map fun x => (x.1, false)

@[simp] theorem untag_nil : untag [] = [] := rfl
@[simp] theorem untag_cons (c : UInt8) (t : Bool) (l : List (UInt8 × Bool)) :
    untag ((c, t) :: l) = (c, false) :: untag l := rfl

/-- finishing a record whose current field has been partly written -/
theorem endOfRecord_flushed (o : StreamOpt) (hwf : NoAdjFillers o.bounds) (b : Nat) (curr : Int)
    (tr : Bool) (p₁ p₂ w : Bytes) (i₁ : Nat) (sk sd : Bool)
    (h₁ : printBof o b curr tr p₁ false = some (w, i₁)) :
    endOfRecord o ⟨b, curr, tr, p₁ ++ p₂, sk, sd⟩ =
      Run.pre w (endOfRecord o ⟨i₁, curr, true, p₂, sk, sd⟩) := by
  obtain ⟨w₂, i₂, h2, h3⟩ := printBof_split o hwf b curr tr p₁ p₂ true w i₁ h₁
  simp only [endOfRecord, h2, h3]
  rw [Run.seq_ok, Run.seq_ok, Run.pre_pre]

/-- **Simulation.**  By induction on the tagged input, simultaneously: (1) from equal states the
    canonical (untagged) run equals the tagged run; (2) from a state where the tagged run has
    already flushed the non-empty prefix `p₁` of the pending piece, writing `w`, the canonical run
    equals `w` followed by the tagged run. -/
theorem streamRun_sim (o : StreamOpt) (hwf : NoAdjFillers o.bounds) (l : List (UInt8 × Bool)) :
    (∀ st : SState, streamRun o st (untag l) = streamRun o st l) ∧
    (∀ (b : Nat) (curr : Int) (tr : Bool) (p₁ p₂ w : Bytes) (i₁ : Nat), p₁ ≠ [] →
      printBof o b curr tr p₁ false = some (w, i₁) →
      streamRun o ⟨b, curr, tr, p₁ ++ p₂, false, true⟩ (untag l) =
        Run.pre w (streamRun o ⟨i₁, curr, true, p₂, false, true⟩ l)) := by
  induction l with
  | nil =>
    refine ⟨fun _ => rfl, ?_⟩
    intro b curr tr p₁ p₂ w i₁ hne h₁
    obtain ⟨w₂, i₂, h2, h3⟩ := printBof_split o hwf b curr tr p₁ p₂ false w i₁ h₁
    have hp : (p₁ ++ p₂).isEmpty = false := by simp [hne]
    simp only [untag_nil, streamRun, streamEof, hp, h3]
    cases p₂ with
    | nil =>
      have h4 := printBof_flushed_nil o hwf b curr tr p₁ w i₁ h₁
      rw [h4] at h2
      simp only [Option.some.injEq, Prod.mk.injEq] at h2
      obtain ⟨rfl, rfl⟩ := h2
      simp [Run.seq_ok]
    | cons x xs =>
      simp [h2, Run.seq_ok, Run.pre_pre]
  | cons x l ih =>
    obtain ⟨c, t⟩ := x
    obtain ⟨ih1, ih2⟩ := ih
    constructor
    · intro st
      rw [untag_cons, streamRun_cons, streamRun_cons]
      by_cases h : st.skip = true ∨ c = o.eol.byte ∨ c = o.delimiter
      · rw [streamStep_tag_irrel o st c false t h, ih1]
      · have hs : st.skip = false := by
          cases hsk : st.skip with
          | false => rfl
          | true => exact absurd (Or.inl hsk) h
        have hc : c ≠ o.eol.byte := fun hc => h (Or.inr (Or.inl hc))
        have hd : c ≠ o.delimiter := fun hd => h (Or.inr (Or.inr hd))
        cases t with
        | false => rw [ih1]
        | true =>
          rw [streamStep_ord_false _ _ _ hs hc hd]
          simp only [Run.empty_seq]
          cases hp : printBof o st.bofIdx st.currField st.trunc (st.piece ++ [c]) false with
          | none =>
            rw [streamStep_ord_true_none _ _ _ hs hc hd hp]
            simp only [Run.panic_seq]
            exact streamRun_doomed o _ _ hs rfl (by simp) hp
          | some x =>
            obtain ⟨w, i⟩ := x
            rw [streamStep_ord_true_some _ _ _ hs hc hd w i hp]
            obtain ⟨b, curr, tr, p, sk, sd⟩ := st
            simp only at hs hp ⊢
            subst hs
            have := ih2 b curr tr (p ++ [c]) [] w i (by simp) hp
            rw [List.append_nil] at this
            rw [this, Run.seq_ok]
    · intro b curr tr p₁ p₂ w i₁ hne h₁
      have hp : (p₁ ++ p₂).isEmpty = false := by simp [hne]
      rw [untag_cons, streamRun_cons, streamRun_cons]
      by_cases hc : c = o.eol.byte
      · rw [streamStep_eol _ _ _ _ rfl hc, streamStep_eol _ _ _ _ rfl hc]
        simp only [hp, Bool.not_true, Bool.false_eq_true, and_false, false_and, if_false]
        rw [endOfRecord_flushed o hwf b curr tr p₁ p₂ w i₁ false true h₁, Run.pre_seq, ih1]
      · by_cases hd : c = o.delimiter
        · obtain ⟨w₂, i₂, h2, h3⟩ := printBof_split o hwf b curr tr p₁ p₂ true w i₁ h₁
          rw [streamStep_delim_some _ _ _ _ rfl hc hd (w ++ w₂) i₂ h3,
            streamStep_delim_some _ _ _ _ rfl hc hd w₂ i₂ h2]
          by_cases hl : Side.some curr = o.lastInterestingField
          · simp only [hl, if_true]
            rw [ih1]
            simp only [Run.seq_ok, Run.pre_seq, Run.pre_pre]
          · simp only [hl, if_false]
            rw [ih1]
            simp only [Run.seq_ok, Run.pre_pre]
        · rw [streamStep_ord_false _ _ _ rfl hc hd]
          simp only [Run.empty_seq]
          cases t with
          | false =>
            rw [streamStep_ord_false _ _ _ rfl hc hd]
            simp only [Run.empty_seq]
            have := ih2 b curr tr p₁ (p₂ ++ [c]) w i₁ hne h₁
            rw [← List.append_assoc] at this
            exact this
          | true =>
            obtain ⟨w₂, i₂, h2, h3⟩ := printBof_split o hwf b curr tr p₁ (p₂ ++ [c]) false w i₁ h₁
            rw [streamStep_ord_true_some _ _ _ rfl hc hd w₂ i₂ h2]
            simp only
            have := ih2 b curr tr (p₁ ++ (p₂ ++ [c])) [] (w ++ w₂) i₂ (by simp [hne]) h3
            rw [List.append_nil, ← List.append_assoc] at this
            rw [this, Run.seq_ok, Run.pre_pre]

/-! ## the run is a function of the bytes -/

/-- **Canonical form.**  From any state, the run over a tagged input is the run over the same bytes
    with no chunk end at all (the whole input in one unbounded buffer, EOF flushing the rest). -/
theorem streamRun_untag (o : StreamOpt) (hwf : NoAdjFillers o.bounds) (st : SState)
    (l : List (UInt8 × Bool)) : streamRun o st l = streamRun o st (untag l) :=
  ((streamRun_sim o hwf l).1 st).symm

theorem untag_eq_map (l : List (UInt8 × Bool)) :
    untag l = (l.map Prod.fst).map fun c => (c, false) := by
  simp [untag, List.map_map, Function.comp_def]

/-- two taggings of the same byte sequence give the same run, from any state -/
theorem tag_independent (o : StreamOpt) (hwf : NoAdjFillers o.bounds) (st : SState)
    (l l' : List (UInt8 × Bool)) (h : l.map Prod.fst = l'.map Prod.fst) :
    streamRun o st l = streamRun o st l' := by
  rw [streamRun_untag o hwf st l, streamRun_untag o hwf st l', untag_eq_map, untag_eq_map, h]

theorem tagSegment_fst (s : Bytes) : (tagSegment s).map Prod.fst = s := by
  induction s with
  | nil => rfl
  | cons c t ih =>
    cases t with
    | nil => rfl
    | cons d t' => simpa [tagSegment] using ih

theorem tagSegments_fst (segs : List Bytes) : (tagSegments segs).map Prod.fst = segs.flatten := by
  induction segs with
  | nil => rfl
  | cons s t ih =>
    simp only [tagSegments, List.flatMap_cons, List.map_append, List.flatten_cons] at ih ⊢
    rw [ih, tagSegment_fst]

/-- the canonical form of `cutBytesStream`: only the concatenation of the segments matters -/
theorem cutBytesStream_canonical (o : StreamOpt) (hwf : NoAdjFillers o.bounds) (segs : List Bytes) :
    cutBytesStream o segs = streamRun o {} (segs.flatten.map fun c => (c, false)) := by
  unfold cutBytesStream
  rw [streamRun_untag o hwf, untag_eq_map, tagSegments_fst]

/-- **C04.**  The run of the `-M` cutter (bytes written *and* status) is the same for every way
    successive reads split the input.  (Empty segments are harmless: `tagSegment [] = []`, so the
    hypotheses "no segment is empty" are not needed.) -/
theorem chunk_independent (o : StreamOpt) (hwf : NoAdjFillers o.bounds) (segs segs' : List Bytes)
    (h : segs.flatten = segs'.flatten) :
    cutBytesStream o segs = cutBytesStream o segs' := by
  rw [cutBytesStream_canonical o hwf segs, cutBytesStream_canonical o hwf segs', h]

/-- … in particular it is what one read of the whole input gives -/
theorem cutBytesStream_one_read (o : StreamOpt) (hwf : NoAdjFillers o.bounds) (segs : List Bytes) :
    cutBytesStream o segs = cutBytesStream o [segs.flatten] :=
  chunk_independent o hwf _ _ (by simp)

/-! ## buffer sizes -/

/-- a reader that always fills a buffer of `k + 1` bytes (fuel = length of the input) -/
def chunksOfAux (k : Nat) : Nat → Bytes → List Bytes
  | 0, l => [l]
  | n + 1, l => if l = [] then [] else l.take (k + 1) :: chunksOfAux k n (l.drop (k + 1))

/-- the input cut into full buffers of `k + 1` bytes (the last one possibly shorter) -/
def chunksOf (k : Nat) (l : Bytes) : List Bytes := chunksOfAux k l.length l

theorem chunksOfAux_flatten (k n : Nat) (l : Bytes) : (chunksOfAux k n l).flatten = l := by
  induction n generalizing l with
  | zero => simp [chunksOfAux]
  | succ n ih =>
    unfold chunksOfAux
    by_cases hl : l = []
    · simp [hl]
    · rw [if_neg hl, List.flatten_cons, ih, List.take_append_drop]

theorem chunksOf_flatten (k : Nat) (l : Bytes) : (chunksOf k l).flatten = l :=
  chunksOfAux_flatten k _ l

/-- **C04, in words.**  The size of the read buffer does not matter. -/
theorem buffer_size_irrelevant (o : StreamOpt) (hwf : NoAdjFillers o.bounds) (input : Bytes)
    (k k' : Nat) :
    cutBytesStream o (chunksOf k input) = cutBytesStream o (chunksOf k' input) :=
  chunk_independent o hwf _ _ (by rw [chunksOf_flatten, chunksOf_flatten])

/-- … and neither do short reads: any segmentation gives what full buffers of any size give -/
theorem short_reads_irrelevant (o : StreamOpt) (hwf : NoAdjFillers o.bounds) (segs : List Bytes)
    (k : Nat) : cutBytesStream o segs = cutBytesStream o (chunksOf k segs.flatten) :=
  chunk_independent o hwf _ _ (by rw [chunksOf_flatten])

/-! ## a concrete instance: `tuc -M -d - -f 2` on `"ab-cd-e\n"` -/

def c04ExOpt : StreamOpt :=
  { delimiter := 0x2d, replaceDelimiter := none, join := false, eol := .newline,
    fallbackOob := none, bounds := [.bound { l := .some 2, r := .some 2, isLast := true }],
    lastInterestingField := .some 2 }

example : NoAdjFillers c04ExOpt.bounds := by simp [c04ExOpt, NoAdjFillers]

-- "ab-cd-e\n" in one read, in reads of 3 bytes, cut in the middle of the selected field and
-- right before a delimiter, byte by byte: always "cd\n", exit 0
example : cutBytesStream c04ExOpt [[0x61, 0x62, 0x2d, 0x63, 0x64, 0x2d, 0x65, 0x0a]]
    = Run.ok [0x63, 0x64, 0x0a] := by decide
example : cutBytesStream c04ExOpt (chunksOf 2 [0x61, 0x62, 0x2d, 0x63, 0x64, 0x2d, 0x65, 0x0a])
    = Run.ok [0x63, 0x64, 0x0a] := by decide
example : cutBytesStream c04ExOpt [[0x61, 0x62, 0x2d, 0x63], [0x64], [0x2d, 0x65, 0x0a]]
    = Run.ok [0x63, 0x64, 0x0a] := by decide
example : cutBytesStream c04ExOpt [[0x61], [0x62], [0x2d], [0x63], [0x64], [0x2d], [0x65], [0x0a]]
    = Run.ok [0x63, 0x64, 0x0a] := by decide

/-! ## `NoAdjFillers` is needed

With two literal texts in a row (which no format string parses to) the bytes written and even the
status depend on the chunking: in one read `print_bof` consumes `x` only, finds the filler `y`
where it expects a bound and the record ends with the fallback rule (here: exit 1); in two reads
the first call drops the piece `a` for the same reason, the second one consumes `y` and prints
the rest of the field (`xyb`, exit 0). -/

def c04AdjOpt : StreamOpt :=
  { delimiter := 0x2d, replaceDelimiter := none, join := false, eol := .newline,
    fallbackOob := none,
    bounds := [.filler [0x78], .filler [0x79], .bound { l := .some 1, r := .some 1, isLast := true }],
    lastInterestingField := .some 1 }

example : ¬ NoAdjFillers c04AdjOpt.bounds := by simp [c04AdjOpt, NoAdjFillers]
example : cutBytesStream c04AdjOpt [[0x61, 0x62, 0x0a]] = ⟨[0x78, 0x79], .fail⟩ := by decide
example : cutBytesStream c04AdjOpt [[0x61], [0x62, 0x0a]] = Run.ok [0x78, 0x79, 0x62, 0x0a] := by decide

/-- nothing of a chunk is kept once the chunk ends: after a byte tagged "last of its chunk" the
    pending piece is empty (what crosses a chunk boundary is counters and flags only) -/
theorem piece_empty_at_chunk_end (o : StreamOpt) (st : SState) (c : UInt8) (hp : st.piece = []) :
    (streamStep o st c true).1.status = .ok → (streamStep o st c true).2.piece = [] := by
  intro _
  unfold streamStep
  split
  · split <;> simp [hp]
  · split
    · split <;> rfl
    · split
      · split
        · simp [hp]
        · split <;> rfl
      · simp only [if_true]
        split
        · simp [hp]
        · rfl

/-- non-vacuity of `NoAdjFillers`: `a{1}b{2}` -/
example : NoAdjFillers [.filler [0x61], .bound { l := .some 1, r := .some 1 }, .filler [0x62],
    .bound { l := .some 2, r := .some 2 }] := by
  simp [NoAdjFillers]

/-! ## the hypothesis `NoAdjFillers` is what the bounds parser guarantees -/

def BoF.isFiller : BoF → Bool
  | .filler _ => true
  | .bound _ => false

theorem noAdj_singleton (a : BoF) : NoAdjFillers [a] := by
  cases a <;> simp [NoAdjFillers]

theorem noAdj_cons_cons (a b : BoF) (t : List BoF) :
    NoAdjFillers (a :: b :: t) ↔
      (a.isFiller = false ∨ b.isFiller = false) ∧ NoAdjFillers (b :: t) := by
  cases a <;> cases b <;> simp [NoAdjFillers, BoF.isFiller]

theorem noAdj_append (l₁ l₂ : List BoF) :
    NoAdjFillers (l₁ ++ l₂) ↔ NoAdjFillers l₁ ∧ NoAdjFillers l₂ ∧
      (∀ a b, l₁.getLast? = some a → l₂.head? = some b → a.isFiller = false ∨ b.isFiller = false) := by
  induction l₁ with
  | nil => simp [NoAdjFillers]
  | cons a t ih =>
    cases t with
    | nil =>
      cases l₂ with
      | nil => simp [noAdj_singleton, NoAdjFillers]
      | cons b t₂ => simp [noAdj_cons_cons, noAdj_singleton, and_comm]
    | cons a' t' =>
      rw [List.cons_append, List.cons_append, noAdj_cons_cons, ← List.cons_append, ih,
        noAdj_cons_cons, List.getLast?_cons_cons]
      constructor
      · rintro ⟨h1, h2, h3, h4⟩; exact ⟨⟨h1, h2⟩, h3, h4⟩
      · rintro ⟨⟨h1, h2⟩, h3, h4⟩; exact ⟨h1, h2, h3, h4⟩

/-- `NoAdjFillers` only looks at which elements are fillers -/
theorem noAdj_shape (l l' : List BoF) (h : l.map BoF.isFiller = l'.map BoF.isFiller) :
    NoAdjFillers l → NoAdjFillers l' := by
  induction l generalizing l' with
  | nil =>
    cases l' with
    | nil => exact id
    | cons _ _ => simp at h
  | cons a t ih =>
    cases l' with
    | nil => simp at h
    | cons a' t' =>
      simp only [List.map_cons, List.cons.injEq] at h
      obtain ⟨ha, ht⟩ := h
      cases t with
      | nil =>
        cases t' with
        | nil => exact fun _ => noAdj_singleton _
        | cons _ _ => simp at ht
      | cons b t₂ =>
        cases t' with
        | nil => simp at ht
        | cons b' t₂' =>
          have hb : b.isFiller = b'.isFiller := by
            simp only [List.map_cons, List.cons.injEq] at ht; exact ht.1
          rw [noAdj_cons_cons, noAdj_cons_cons, ha, hb]
          exact fun ⟨h1, h2⟩ => ⟨h1, ih _ ht h2⟩

theorem noAdj_map_bound (bs : List UserBounds) : NoAdjFillers (bs.map BoF.bound) := by
  induction bs with
  | nil => trivial
  | cons b t ih => simpa [NoAdjFillers] using ih

theorem markLast_shape (l l' : List BoF) (h : markLast l = some l') :
    l.map BoF.isFiller = l'.map BoF.isFiller := by
  induction l generalizing l' with
  | nil => simp [markLast] at h
  | cons a t ih =>
    cases a with
    | filler f =>
      simp only [markLast, Option.map_eq_some_iff] at h
      obtain ⟨t', ht, rfl⟩ := h
      simp [BoF.isFiller, ih t' ht]
    | bound b =>
      simp only [markLast] at h
      cases hm : markLast t with
      | none =>
        simp only [hm, Option.some.injEq] at h
        subst h
        simp [BoF.isFiller]
      | some t' =>
        simp only [hm, Option.some.injEq] at h
        subst h
        simp [BoF.isFiller, ih t' hm]

theorem fromVec_noAdj (l : List BoF) (l' : UserBoundsList) (h : fromVec l = .ok l')
    (hl : NoAdjFillers l) : NoAdjFillers l'.list := by
  unfold fromVec at h
  cases hm : markLast l with
  | none => simp [hm] at h
  | some m =>
    simp only [hm, Res.ok.injEq] at h
    subst h
    exact noAdj_shape _ _ (markLast_shape _ _ hm) hl

/-! ### the format-string scanner -/

/-- invariant of the scanner: the elements found so far (kept reversed) have no two fillers in a
    row, and outside braces the most recent one is not a filler -/
def ScanInv (st : ScanSt) : Prop :=
  NoAdjFillers st.bof.reverse ∧
    (st.inside = false → ∀ b, st.bof.head? = some b → b.isFiller = false)

theorem pushFiller_noAdj (st : ScanSt) (h : ScanInv st) (hi : st.inside = false) :
    NoAdjFillers st.pushFiller.reverse := by
  unfold ScanSt.pushFiller
  by_cases hp : st.part.isEmpty = true
  · rw [if_pos hp]; exact h.1
  · rw [if_neg hp, List.reverse_cons, noAdj_append]
    refine ⟨h.1, noAdj_singleton _, ?_⟩
    intro a b ha _
    rw [List.getLast?_reverse] at ha
    exact Or.inl (h.2 hi a ha)

theorem splitOnChar_nonempty (c : Char) (s : List Char) : splitOnChar c s ≠ [] := by
  cases s with
  | nil => simp [splitOnChar]
  | cons x t =>
    unfold splitOnChar
    split
    · simp
    · split <;> simp

theorem parseAll_ne_nil (l : List (List Char)) (bs : List UserBounds) (hl : l ≠ [])
    (h : parseAll l = some bs) : bs ≠ [] := by
  cases l with
  | nil => exact absurd rfl hl
  | cons s t =>
    unfold parseAll at h
    split at h
    · simp only [Option.some.injEq] at h; subst h; simp
    · simp at h

theorem scanStep_inv (w0 : Char) (st st' : ScanSt) (h : ScanInv st) (hs : scanStep w0 st = some st') :
    ScanInv st' := by
  unfold scanStep at hs
  split at hs
  · simp at hs
  · rename_i h1
    split at hs
    · split at hs
      · simp at hs
      · rename_i hin
        simp only [Option.some.injEq] at hs
        subst hs
        exact ⟨pushFiller_noAdj st h (by simpa using hin), by simp⟩
    · split at hs
      · split at hs
        · simp at hs
        · rename_i bs hbs
          simp only [Option.some.injEq] at hs
          subst hs
          have hne := parseAll_ne_nil _ _ (splitOnChar_nonempty _ _) hbs
          constructor
          · simp only [List.reverse_append, List.reverse_reverse]
            rw [noAdj_append]
            refine ⟨h.1, noAdj_map_bound _, ?_⟩
            intro a b _ hb
            cases bs with
            | nil => exact absurd rfl hne
            | cons x xs =>
              simp only [List.map_cons, List.head?_cons, Option.some.injEq] at hb
              subst hb
              exact Or.inr rfl
          · intro _ b hb
            cases hr : (bs.map BoF.bound).reverse with
            | nil => simp at hr; exact absurd hr hne
            | cons y ys =>
              simp only [hr, List.cons_append, List.head?_cons, Option.some.injEq] at hb
              subst hb
              have : y ∈ (bs.map BoF.bound).reverse := by rw [hr]; simp
              simp only [List.mem_reverse, List.mem_map] at this
              obtain ⟨u, _, rfl⟩ := this
              rfl
      · simp only [Option.some.injEq] at hs
        subst hs
        exact h

theorem scanEnd_noAdj (st : ScanSt) (l : List BoF) (h : ScanInv st) (hs : scanEnd st = some l) :
    NoAdjFillers l := by
  unfold scanEnd at hs
  split at hs
  · simp at hs
  · rename_i hin
    simp only [Option.some.injEq] at hs
    subst hs
    exact pushFiller_noAdj st h (by simpa using hin)

theorem scan_noAdj (s : List Char) (st : ScanSt) (l : List BoF) (h : ScanInv st)
    (hs : scan s st = some l) : NoAdjFillers l := by
  fun_induction scan s st with
  | case1 st => exact scanEnd_noAdj st l h hs
  | case2 w0 st hst => simp at hs
  | case3 w0 st st' hst => exact scanEnd_noAdj st' l (scanStep_inv _ _ _ h hst) hs
  | case4 w0 w1 rest st hw ih => exact ih h hs
  | case5 w0 w1 rest st hw hst => simp at hs
  | case6 w0 w1 rest st hw st' hst ih => exact ih (scanStep_inv _ _ _ h hst) hs

theorem parseBoundsList_noAdj (s : List Char) (l : List BoF) (h : parseBoundsList s = some l) :
    NoAdjFillers l := by
  unfold parseBoundsList at h
  split at h
  · simp only [Option.some.injEq] at h; subst h; trivial
  · split at h
    · exact scan_noAdj s _ l ⟨by simp [NoAdjFillers], by simp⟩ h
    · simp only [Option.map_eq_some_iff] at h
      obtain ⟨bs, _, rfl⟩ := h
      exact noAdj_map_bound bs

/-- what `-f` parses to never has two literal texts in a row -/
theorem boundsListOfString_noAdj (s : List Char) (l : UserBoundsList)
    (h : boundsListOfString s = .ok l) : NoAdjFillers l.list := by
  unfold boundsListOfString at h
  split at h
  · simp at h
  · split at h
    · simp at h
    · rename_i l0 hl0
      split at h
      · simp at h
      · exact fromVec_noAdj l0 l h (parseBoundsList_noAdj s l0 hl0)

theorem forwardBoundsOf_noAdj (l : UserBoundsList) (bs : List BoF) (h : forwardBoundsOf l = some bs)
    (hl : NoAdjFillers l.list) : NoAdjFillers bs := by
  unfold forwardBoundsOf at h
  split at h
  · simp at h
  · split at h
    · split at h
      · split at h
        · rename_i l' hl'
          simp only [Option.some.injEq] at h
          subst h
          exact fromVec_noAdj _ _ hl' hl
        · simp at h
      · simp at h
    · simp at h

theorem streamOptOf_bounds (o : Opt) (so : StreamOpt) (h : streamOptOf o = some so) :
    forwardBoundsOf o.bounds = some so.bounds := by
  unfold streamOptOf at h
  split at h
  · simp only at h
    split at h
    · simp at h
    · split at h
      · simp at h
      · split at h
        · simp at h
        · rename_i bs hbs
          split at h
          · simp at h
          · simp only [Option.some.injEq] at h
            subst h
            exact hbs
  · simp at h

theorem streamOptOf_noAdj (o : Opt) (so : StreamOpt) (h : streamOptOf o = some so)
    (hb : NoAdjFillers o.bounds.list) : NoAdjFillers so.bounds :=
  forwardBoundsOf_noAdj _ _ (streamOptOf_bounds o so h) hb

/-- **C04 at the level of `main`.**  With `-M`, for options whose bounds come from the `-f`
    parser, what `main` dispatches to does not depend on how the reads split the input
    (including whether `-M` is accepted at all). -/
theorem dispatch_fixedMemory_chunk_independent (o : Opt) (f : List Char)
    (hf : boundsListOfString f = .ok o.bounds) (segs segs' : List Bytes)
    (h : segs.flatten = segs'.flatten) :
    dispatch o true segs = dispatch o true segs' := by
  unfold dispatch
  simp only [if_true]
  cases hso : streamOptOf o with
  | none => rfl
  | some so =>
    simp only
    rw [chunk_independent so (streamOptOf_noAdj o so hso (boundsListOfString_noAdj f _ hf)) segs segs' h]

end Tuc
