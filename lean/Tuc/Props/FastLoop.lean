import Tuc.Model.FastLoop
import Tuc.Lemmas.FastLoop
import Tuc.Props.C12
/-!
# Tuc.Props.FastLoop — the statements of `fast_lane.rs` refine the normal-form model

`Tuc.Model.FastLoop` follows the Rust text of `trim`, `cut_str_fast_lane`, `output_parts` and
`read_and_cut_text_as_bytes` statement by statement (checked `fields[i]`, `&line[a..b]`, `x - 1`,
`i32` counter).  This file proves that they compute exactly what `Tuc.Model.FastLane` says:

* `cutStrFastLaneLoop_eq` — one record: `cutStrFastLaneLoop = cutStrFastLane` (bytes written,
  status, and the content of the reused vector `fields` afterwards), for EVERY record, EVERY
  `FastOpt` (so every one `fastOptOf` can produce), EVERY `last_interesting_field` (not only the
  one stored in the bounds list) and ANY previous content of the vector, under ONE hypothesis:
  `CounterFits` — the `i32` counter `curr_field` does not overflow (the record is shorter than 2³¹
  bytes, or the scan stops early at a positive `i32` field).  The hypothesis is needed: the model's
  counter is an unbounded `Int`, the Rust one is an `i32`: `cutStrFastLaneLoop_overflow` proves
  that the literal function panics on an untrimmed record with 2³¹ delimiters or more when the
  scan is not stopped early (`FastLoop.scanFor_overflow`; the debug build of the real binary does:
  `attempt to add with overflow` at fast_lane.rs:52).
* `cutStrFastLaneLoop_no_panic` — under `CounterFits` and "no bound has the left index 0" (what the
  parser guarantees: `UserBounds::from_str` refuses a 0 on either side; the model of
  `try_into_range` resolves a left 0 to a start that is not the Rust one) no `fields[i]`, no
  `fields[r.end] - 1`, no `&line[idx_start..idx_end]`, no `fields.len() - 1` and no `curr_field += 1`
  can panic — for every `last_interesting_field`, matching the bounds or not.
* `cutStrFastLaneLoop_refines` — both together.
* `readAndCutTextAsBytesLoop_eq` / `_no_panic` — the same for the whole input;
  `readAndCutTextAsBytesLoop_of_parsed` — both for every `FastOpt` that `fastOptOf` builds from
  bounds the parser accepted, on every input shorter than 2³¹ bytes (no other hypothesis).
* pieces: `FastLoop.trim_eq`, `FastLoop.scanFor_eq`, `FastLoop.outputPartsLit_eq`,
  `FastLoop.tryForEach_eq` (in `Tuc.Lemmas.FastLoop`).

Section 0 compares the two by evaluation on all 1093 records of at most 6 bytes over
`{a, -, CR}` × 15 bounds lists (as the parser builds them) × `-t` (none / l / r / b) × `-s` × `-j` ×
`--fallback-oob` (524 640 cases), and again with arbitrary `last_interesting_field`s and both
EOLs (229 530 cases), always with a dirty vector; and the whole-input functions on all inputs of at
most 6 bytes over `{a, -, LF}`.
-/

namespace Tuc
open TextLoops FastLoop

/-! ## 0. exhaustive executable comparison -/

namespace FastLoop

/-- every byte string of length exactly `n` over the alphabet -/
def linesOfLength (alphabet : Bytes) : Nat → List Bytes
  | 0 => [[]]
  | n + 1 => (linesOfLength alphabet n).flatMap fun l => alphabet.map fun c => c :: l

/-- `a`, the delimiter `-`, CR -/
def testAlphabet : Bytes := [97, 45, 13]
/-- all records of at most 6 bytes over `{a, -, CR}` -/
def testRecords : List Bytes := (List.range 7).flatMap (linesOfLength testAlphabet)

/-- the bounds lists, as the parser builds them (`is_last`, `last_interesting_field`) -/
def testBoundsTexts : List String :=
  ["1", "2", "1:", ":2", "2:3", "1,3", "3,1", "-1", "-2:", "2:-1", "1,-1", "2,2,4:",
   "{1}x{3=L}{4}", "a{2:}b{-3:-2=M}", "5=Z,1"]

def testBounds : List UserBoundsList :=
  testBoundsTexts.filterMap fun s => (boundsListOfString s.toList).toOption

/-- previous content of the reused vector -/
def dirtyFields : List Nat := [7, 9]

def testOpts (bounds : UserBoundsList) : List FastOpt :=
  [Option.none, Option.some TrimKind.left, Option.some .right, Option.some .both].flatMap fun trim =>
  [false, true].flatMap fun onlyDelimited =>
  [false, true].flatMap fun join =>
  [Option.none, Option.some [71]].map fun fallbackOob =>
    { delimiter := 45, join := join, eol := .newline, bounds := bounds,
      onlyDelimited := onlyDelimited, trim := trim, fallbackOob := fallbackOob }

end FastLoop

#guard testRecords.length == 1093
#guard testBounds.length == 15

#guard testBounds.all fun bounds => (testOpts bounds).all fun opt => testRecords.all fun rec =>
  cutStrFastLaneLoop rec opt dirtyFields bounds.lastInteresting ==
    cutStrFastLane rec opt dirtyFields bounds.lastInteresting

/-! arbitrary early-stop fields (not only the one the bounds list carries), both EOLs -/

#guard [Side.cont, .some 0, .some 1, .some 2, .some 3, .some (-1), .some 7].all fun lif =>
  testBounds.all fun bounds => testRecords.all fun rec =>
    [EOL.newline, .zero].all fun eol =>
    let opt : FastOpt := { delimiter := 45, join := true, eol := eol, bounds := bounds,
                           onlyDelimited := false, trim := Option.some .both, fallbackOob := Option.some [71] }
    cutStrFastLaneLoop rec opt dirtyFields lif == cutStrFastLane rec opt dirtyFields lif

/-! the whole input (`-` = 45, LF = 10), dirty vector carried from record to record -/

#guard ((List.range 7).flatMap (linesOfLength [97, 45, 10])).all fun input =>
  testBounds.all fun bounds =>
    [false, true].all fun s =>
    let opt : FastOpt := { delimiter := 45, join := false, eol := .newline, bounds := bounds,
                           onlyDelimited := s, trim := Option.none, fallbackOob := Option.none }
    readAndCutTextAsBytesLoop opt input == readAndCutFast opt input

/-! the `i32` counter: the 2³¹-th delimiter of a scan that is not stopped early -/

#guard scanFor .cont [5] 2147483646 [0] == .ok (2147483647, [0, 6])
#guard scanFor .cont [5] 2147483647 [0] == .panic
#guard scanFor (.some 2147483647) [5, 9] 2147483646 [0] == .ok (2147483647, [0, 6])

/-! ## 1. one record -/

/-- **`cut_str_fast_lane`: the statements are the normal form** — same bytes, same status, same
    content of `fields` afterwards — for every record, every `FastOpt`, every
    `last_interesting_field` and any previous content of `fields`, as long as the `i32` counter
    fits (`CounterFits`: record shorter than 2³¹ bytes, or early stop at a positive `i32`). -/
theorem cutStrFastLaneLoop_eq (initialBuffer : Bytes) (opt : FastOpt) (fields : List Nat)
    (lastInterestingField : Side)
    (hfit : CounterFits lastInterestingField initialBuffer.length) :
    cutStrFastLaneLoop initialBuffer opt fields lastInterestingField =
      cutStrFastLane initialBuffer opt fields lastInterestingField := by
  cases htr : opt.trim with
  | none =>
    rw [loop_of_trimmed_none _ _ _ _ htr, model_of_trimmed_none _ _ _ _ htr]
    exact afterTrim_eq _ _ _ _ (fits_of_counterFits hfit)
  | some k =>
    rw [loop_of_trimmed_some _ _ _ _ k htr, model_of_trimmed_some _ _ _ _ k htr]
    exact afterTrim_eq _ _ _ _
      (fits_of_counterFits (hfit.mono (fastTrim_length_le initialBuffer k opt.delimiter)))

/-- the existing model never panics on a bounds list without a left index 0, whatever
    `last_interesting_field` is -/
theorem cutStrFastLane_no_panic (initialBuffer : Bytes) (opt : FastOpt) (fields : List Nat)
    (lastInterestingField : Side)
    (hz : ∀ b, BoF.bound b ∈ opt.bounds.list → b.l ≠ .some 0) :
    (cutStrFastLane initialBuffer opt fields lastInterestingField).1.status ≠ .panic ∧
    (cutStrFastLane initialBuffer opt fields lastInterestingField).1.status ≠ .hang := by
  cases htr : opt.trim with
  | none =>
    rw [model_of_trimmed_none _ _ _ _ htr]
    exact modelAfterTrim_safe _ _ _ _ hz
  | some k =>
    rw [model_of_trimmed_some _ _ _ _ k htr]
    exact modelAfterTrim_safe _ _ _ _ hz

/-- **`cut_str_fast_lane` cannot panic**: no `fields[i]` out of range, no `fields[r.end] - 1` or
    `fields.len() - 1` below zero, no `&line[idx_start..idx_end]` out of range or crossed, no
    overflow of `curr_field` — when the counter fits and no bound has the left index 0 (the parser
    refuses index 0), for every `last_interesting_field`. -/
theorem cutStrFastLaneLoop_no_panic (initialBuffer : Bytes) (opt : FastOpt) (fields : List Nat)
    (lastInterestingField : Side)
    (hfit : CounterFits lastInterestingField initialBuffer.length)
    (hz : ∀ b, BoF.bound b ∈ opt.bounds.list → b.l ≠ .some 0) :
    (cutStrFastLaneLoop initialBuffer opt fields lastInterestingField).1.status ≠ .panic := by
  rw [cutStrFastLaneLoop_eq _ _ _ _ hfit]
  exact (cutStrFastLane_no_panic _ _ _ _ hz).1

/-- both together -/
theorem cutStrFastLaneLoop_refines (initialBuffer : Bytes) (opt : FastOpt) (fields : List Nat)
    (lastInterestingField : Side)
    (hfit : CounterFits lastInterestingField initialBuffer.length)
    (hz : ∀ b, BoF.bound b ∈ opt.bounds.list → b.l ≠ .some 0) :
    cutStrFastLaneLoop initialBuffer opt fields lastInterestingField =
      cutStrFastLane initialBuffer opt fields lastInterestingField ∧
    (cutStrFastLaneLoop initialBuffer opt fields lastInterestingField).1.status ≠ .panic ∧
    (cutStrFastLaneLoop initialBuffer opt fields lastInterestingField).1.status ≠ .hang := by
  refine ⟨cutStrFastLaneLoop_eq _ _ _ _ hfit, cutStrFastLaneLoop_no_panic _ _ _ _ hfit hz, ?_⟩
  rw [cutStrFastLaneLoop_eq _ _ _ _ hfit]
  exact (cutStrFastLane_no_panic _ _ _ _ hz).2

/-- **the hypothesis `CounterFits` is needed**: a record that is not trimmed, whose scan is not
    stopped early (`Continue`) and that holds more delimiters than an `i32` can count makes the
    literal function panic (`curr_field += 1` overflows: panic in the debug build; the release
    build wraps to `i32::MIN` and goes on) — the normal-form model counts in `Int`. -/
theorem cutStrFastLaneLoop_overflow (initialBuffer : Bytes) (opt : FastOpt) (fields : List Nat)
    (htrim : opt.trim = Option.none)
    (hmany : i32Max < ((memchrIter opt.delimiter initialBuffer).length : Int)) :
    (cutStrFastLaneLoop initialBuffer opt fields .cont).1 = Run.panic := by
  rw [loop_of_trimmed_none _ _ _ _ htrim]
  unfold FastLoop.afterTrim
  have hne : initialBuffer.isEmpty = false := by
    cases initialBuffer with
    | nil => simp [memchrIter, memchrIterFrom, i32Max] at hmany
    | cons _ _ => rfl
  have := scanFor_overflow .cont (memchrIter opt.delimiter initialBuffer) 0 (push (clear fields) 0)
    (Int.le_refl _) (by simp [i32Max]) (by intro k hk; cases hk) (by omega)
  simp only [hne, Bool.false_eq_true, if_false, this]

/-! ## 2. the whole input -/

/-- **`read_and_cut_text_as_bytes`: the literal loop over the records is the model**, for every
    input shorter than 2³¹ bytes — or any input when the bounds list stops the scan at a positive
    `i32` field. -/
theorem readAndCutTextAsBytesLoop_eq (opt : FastOpt) (input : Bytes)
    (hfit : CounterFits opt.bounds.lastInteresting input.length) :
    readAndCutTextAsBytesLoop opt input = readAndCutFast opt input := by
  have h := forByteRecord_eq opt opt.bounds.lastInteresting (records opt.eol.byte input) []
    (fun r hr f => cutStrFastLaneLoop_eq r opt f _ (hfit.mono (records_length_le _ _ r hr)))
  unfold readAndCutTextAsBytesLoop readAndCutFast
  simp only [h, Run.seq_empty]
  split <;> rfl

theorem fastRecords_no_panic (opt : FastOpt) (lif : Side)
    (hz : ∀ b, BoF.bound b ∈ opt.bounds.list → b.l ≠ .some 0) :
    ∀ (recs : List Bytes) (fields : List Nat),
      (fastRecords opt lif recs fields).status ≠ .panic ∧ (fastRecords opt lif recs fields).status ≠ .hang := by
  intro recs
  induction recs with
  | nil => intro _; exact ⟨by simp [fastRecords, Run.empty], by simp [fastRecords, Run.empty]⟩
  | cons r t ih =>
    intro fields
    simp only [fastRecords]
    obtain ⟨h1, h2⟩ := cutStrFastLane_no_panic r opt fields lif hz
    obtain ⟨i1, i2⟩ := ih (cutStrFastLane r opt fields lif).2
    exact ⟨seq_status_ne_panic h1 i1, seq_status_ne_hang h2 i2⟩

/-- the whole input: no panic (index, subtraction, slice, counter) -/
theorem readAndCutTextAsBytesLoop_no_panic (opt : FastOpt) (input : Bytes)
    (hfit : CounterFits opt.bounds.lastInteresting input.length)
    (hz : ∀ b, BoF.bound b ∈ opt.bounds.list → b.l ≠ .some 0) :
    (readAndCutTextAsBytesLoop opt input).status ≠ .panic := by
  rw [readAndCutTextAsBytesLoop_eq opt input hfit]
  exact (fastRecords_no_panic opt _ hz _ _).1

/-! ## 3. on what the command line can produce -/

theorem fastOptOf_bounds {o : Opt} {fo : FastOpt} (h : fastOptOf o = Option.some fo) :
    fo.bounds = o.bounds := by
  unfold fastOptOf at h
  split at h
  · split at h
    · cases h
    · cases h; rfl
  · cases h

/-- **every `FastOpt` that `FastOpt::try_from` builds from parsed bounds**: on an input shorter
    than 2³¹ bytes the literal `read_and_cut_text_as_bytes` is the model and does not panic (the
    hypothesis on the bounds of the per-record theorems is discharged by the parser). -/
theorem readAndCutTextAsBytesLoop_of_parsed (o : Opt) (fo : FastOpt) (fieldsArg : List Char)
    (ho : fastOptOf o = Option.some fo) (hb : boundsListOfString fieldsArg = .ok o.bounds)
    (input : Bytes) (hlen : (input.length : Int) ≤ i32Max) :
    readAndCutTextAsBytesLoop fo input = readAndCutFast fo input ∧
    (readAndCutTextAsBytesLoop fo input).status ≠ .panic := by
  have hz : ∀ b, BoF.bound b ∈ fo.bounds.list → b.l ≠ .some 0 := by
    intro b hmem
    rw [fastOptOf_bounds ho] at hmem
    have hnz := (parsed_nonzero fieldsArg o.bounds hb b hmem).1
    intro h0
    rw [h0] at hnz
    exact hnz rfl
  exact ⟨readAndCutTextAsBytesLoop_eq fo input (Or.inl hlen),
    readAndCutTextAsBytesLoop_no_panic fo input (Or.inl hlen) hz⟩

end Tuc
