import Tuc.Model.Args
import Tuc.Props.C18
import Tuc.Props.C06
/-!
# C12 — every invocation terminates with status 0 or 1
(first theorems; the per-engine panic-freedom results are being assembled)
-/
namespace Tuc

/-- parsing a bounds argument never panics, whatever the string (the `expect` in
    `From<Vec<BoundOrFiller>>` is unreachable) -/
theorem parse_total (s : List Char) : boundsListOfString s ≠ .panic :=
  boundsListOfString_never_panics s

end Tuc
