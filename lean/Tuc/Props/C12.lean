import Tuc.Model.Args
import Tuc.Props.C18
import Tuc.Props.C06
import Tuc.Props.C02
import Tuc.Props.C07
import Tuc.Lemmas.Total
/-!
# C12 — every invocation terminates with status 0 or 1

In the model every Rust site that can panic (`[]`, slicing, `unwrap`, `expect`) is a checked
operation that yields `Status.panic`, and a loop whose progress depends on a precondition takes
fuel and yields `Status.hang`.  The property is therefore the *theorem* that these two outcomes
are unreachable from anything the command line can build.

* `parse_total`                     — the bounds parser never panics;
* `parsed_nonzero`, `parsed_fromVec` — what it accepts has non-zero indexes and went through `fromVec`;
* per engine (`Tuc.Lemmas.Total` has the proofs in the form `Run.Safe`, i.e. status `ok ∨ fail`):
  `cutStrCore_no_panic`, `readAndCutStr_no_panic` (general engine: every delimiter — the empty
  one included —, every flag; a regex only has to honour the contract of `find_iter`,
  `RegexBag.OK`), `charsBag_ok` (the `-c` matcher honours it, also on text that is not UTF-8),
  `readAndCutFast_no_panic`, `readAndCutBytes_no_panic`, `cutLinesForwardOnly_no_panic`,
  `readAndCutLines_no_panic`, `cutBytesStream_no_panic`;
* `dispatch_no_panic`, `mainModel_total` — put together, with write faults;
* `unpack_length_le`, `complement_length_le`, `unpackBof_length_le` — the work does not grow with
  the numeric value of an index;
* `trimStartFuel_fuel` (+ `utf8CharsFuel_fuel` in C07) — fuelled loops never run out of fuel.
-/
namespace Tuc

/-- parsing a bounds argument never panics, whatever the string (the `expect` in
    `From<Vec<BoundOrFiller>>` is unreachable) -/
theorem parse_total (s : List Char) : boundsListOfString s ≠ .panic :=
  boundsListOfString_never_panics s

/-! ## what the parser accepts -/

/-- the bound is the value of `UserBounds::from_str` on some text -/
def Parsed (b : UserBounds) : Prop := ∃ s, parseUserBounds s = some b

def AllParsed (l : List BoF) : Prop := ∀ b, BoF.bound b ∈ l → Parsed b

theorem parseAll_parsed : ∀ (l : List (List Char)) (bs : List UserBounds), parseAll l = some bs →
    ∀ b ∈ bs, Parsed b
  | [], bs, h => by
    simp only [parseAll, Option.some.injEq] at h
    subst h
    intro b hb; simp at hb
  | s :: t, bs, h => by
    unfold parseAll at h
    split at h
    · rename_i b0 bs0 hb0 hbs0
      simp only [Option.some.injEq] at h
      subst h
      intro b hb
      simp only [List.mem_cons] at hb
      rcases hb with rfl | hb
      · exact ⟨s, hb0⟩
      · exact parseAll_parsed t bs0 hbs0 b hb
    · simp at h

theorem pushFiller_parsed (st : ScanSt) (h : AllParsed st.bof) : AllParsed st.pushFiller := by
  unfold ScanSt.pushFiller
  split
  · exact h
  · intro b hb
    simp only [List.mem_cons, reduceCtorEq, false_or] at hb
    exact h b hb

theorem scanStep_parsed (w0 : Char) (st st' : ScanSt) (h : AllParsed st.bof)
    (hs : scanStep w0 st = some st') : AllParsed st'.bof := by
  unfold scanStep at hs
  split at hs
  · simp at hs
  · split at hs
    · split at hs
      · simp at hs
      · simp only [Option.some.injEq] at hs
        subst hs
        exact pushFiller_parsed st h
    · split at hs
      · split at hs
        · simp at hs
        · rename_i bs hbs
          simp only [Option.some.injEq] at hs
          subst hs
          intro b hb
          simp only [List.mem_append, List.mem_reverse, List.mem_map, BoF.bound.injEq,
            exists_eq_right] at hb
          rcases hb with hb | hb
          · exact parseAll_parsed _ bs hbs b hb
          · exact h b hb
      · simp only [Option.some.injEq] at hs
        subst hs
        exact h

theorem scanEnd_parsed (st : ScanSt) (l : List BoF) (h : AllParsed st.bof)
    (hs : scanEnd st = some l) : AllParsed l := by
  unfold scanEnd at hs
  split at hs
  · simp at hs
  · simp only [Option.some.injEq] at hs
    subst hs
    intro b hb
    exact pushFiller_parsed st h b (by simpa using hb)

theorem scan_parsed (s : List Char) (st : ScanSt) (l : List BoF) (h : AllParsed st.bof)
    (hs : scan s st = some l) : AllParsed l := by
  fun_induction scan s st with
  | case1 st => exact scanEnd_parsed st l h hs
  | case2 w0 st hst => simp at hs
  | case3 w0 st st' hst => exact scanEnd_parsed st' l (scanStep_parsed _ _ _ h hst) hs
  | case4 w0 w1 rest st hw ih => exact ih h hs
  | case5 w0 w1 rest st hw hst => simp at hs
  | case6 w0 w1 rest st hw st' hst ih => exact ih (scanStep_parsed _ _ _ h hst) hs

theorem parseBoundsList_parsed (s : List Char) (l : List BoF) (h : parseBoundsList s = some l) :
    AllParsed l := by
  unfold parseBoundsList at h
  split at h
  · simp only [Option.some.injEq] at h; subst h; intro b hb; simp at hb
  · split at h
    · exact scan_parsed s _ l (by intro b hb; simp at hb) h
    · simp only [Option.map_eq_some_iff] at h
      obtain ⟨bs, hbs, rfl⟩ := h
      intro b hb
      simp only [List.mem_map, BoF.bound.injEq, exists_eq_right] at hb
      exact parseAll_parsed _ bs hbs b hb

/-- whatever `-f`/`-c`/`-b`/`-l` accept went through `From<Vec<BoundOrFiller>>` … -/
theorem parsed_fromVec (f : List Char) (u : UserBoundsList) (h : boundsListOfString f = .ok u) :
    ∃ l0, parseBoundsList f = some l0 ∧ fromVec l0 = .ok u := by
  unfold boundsListOfString at h
  split at h
  · simp at h
  · split at h
    · simp at h
    · rename_i l0 hl0
      split at h
      · simp at h
      · exact ⟨l0, hl0, h⟩

/-- … and has no index 0 on either side of any bound -/
theorem parsed_nonzero (f : List Char) (u : UserBoundsList) (h : boundsListOfString f = .ok u) :
    ∀ b, BoF.bound b ∈ u.list → b.Nonzero := by
  obtain ⟨l0, hl0, hfv⟩ := parsed_fromVec f u h
  intro b hb
  obtain ⟨b0, h0, h1, h2⟩ := fromVec_sides l0 u hfv b hb
  obtain ⟨s, hs⟩ := parseBoundsList_parsed f l0 hl0 b0 h0
  have wf := accepted_wellformed s b0 hs
  constructor
  · rw [← h1]
    cases hl : b0.l with
    | cont => trivial
    | some v => intro hv; exact wf.1 (by rw [hl, hv])
  · rw [← h2]
    cases hr : b0.r with
    | cont => trivial
    | some v => intro hv; exact wf.2.1 (by rw [hr, hv])

theorem parsed_lnz (f : List Char) (u : UserBoundsList) (h : boundsListOfString f = .ok u) :
    LNZ u.list := LNZ.of_nonzero (parsed_nonzero f u h)

/-! ## the `-c` matcher honours the contract of `find_iter` -/

theorem boundariesFrom_sorted : ∀ (cs : List Bytes) (pos lo : Nat), lo ≤ pos →
    SortedMatches (pos + cs.flatten.length) lo ((boundariesFrom pos cs).map fun p => (p, p))
  | [], pos, lo, h => by
    simp only [boundariesFrom, List.map_cons, List.map_nil, List.flatten_nil, List.length_nil,
      Nat.add_zero]
    exact ⟨h, Nat.le_refl _, Nat.le_refl _, trivial⟩
  | c :: t, pos, lo, h => by
    simp only [boundariesFrom, List.map_cons, List.flatten_cons, List.length_append]
    have := boundariesFrom_sorted t (pos + c.length) pos (by omega)
    rw [Nat.add_assoc] at this
    exact ⟨h, Nat.le_refl _, by omega, this⟩

theorem charMatches_sorted (line : Bytes) : SortedMatches line.length 0 (charMatches line) := by
  unfold charMatches
  cases hcs : utf8Chars line with
  | none => trivial
  | some cs =>
    have := boundariesFrom_sorted cs 0 0 (Nat.le_refl _)
    rw [utf8Chars_flatten line cs hcs, Nat.zero_add] at this
    exact this

/-- the `RegexBag` of `-c` (`\b|\B`) reports sorted, in-range (empty) matches on every haystack —
    also on one that is not UTF-8, where the model reports none -/
theorem charsBag_ok : charsBag.OK := fun line => ⟨charMatches_sorted line, charMatches_sorted line⟩

/-- the side condition on the delimiter, for the two kinds of `Opt` this task is about -/
theorem bagOK_of_literal_or_chars (o : Opt) (h : o.regexBag = none ∨ o.regexBag = some charsBag) :
    ∀ bag, o.regexBag = some bag → bag.OK := by
  intro bag hb
  rcases h with h | h
  · rw [h] at hb; cases hb
  · rw [h] at hb
    simp only [Option.some.injEq] at hb
    subst hb
    exact charsBag_ok

/-! ## 1. engine by engine -/

/-- **general engine, one record.**  Literal delimiter (any, the empty one included), any of
    `-g -p -t -s -j -r -m --json`, fields or lines; also `-c`; also any regex that honours the
    contract of `find_iter`.  Sites: `fields[s]`, `fields[e-1]`, the slice, the `expect` of
    `fromVec` after `complement`/`unpack`, the `unwrap` of the replacement after a regex compress. -/
theorem cutStrCore_no_panic (line : Bytes) (opt : Opt) (eol : Bytes)
    (hbag : ∀ bag, opt.regexBag = some bag → bag.OK)
    (hnz : ∀ b, BoF.bound b ∈ opt.bounds.list → b.Nonzero) :
    (cutStrCore line opt eol).1.status ≠ .panic :=
  (cutStrCore_safe line opt eol hbag (LNZ.of_nonzero hnz)).ne_panic

/-- the instance the task names: literal delimiter -/
theorem cutStrCore_literal_no_panic (line : Bytes) (opt : Opt) (eol : Bytes)
    (hre : opt.regexBag = none)
    (hnz : ∀ b, BoF.bound b ∈ opt.bounds.list → b.Nonzero) :
    (cutStrCore line opt eol).1.status ≠ .panic :=
  cutStrCore_no_panic line opt eol (bagOK_of_literal_or_chars opt (Or.inl hre)) hnz

/-- character mode (no UTF-8 hypothesis needed for panic-freedom) -/
theorem cutStrCore_chars_no_panic (line : Bytes) (opt : Opt) (eol : Bytes)
    (hre : opt.regexBag = some charsBag)
    (hnz : ∀ b, BoF.bound b ∈ opt.bounds.list → b.Nonzero) :
    (cutStrCore line opt eol).1.status ≠ .panic :=
  cutStrCore_no_panic line opt eol (bagOK_of_literal_or_chars opt (Or.inr hre)) hnz

/-- **general engine, whole input** -/
theorem readAndCutStr_no_panic (opt : Opt) (input : Bytes)
    (hbag : ∀ bag, opt.regexBag = some bag → bag.OK)
    (hnz : ∀ b, BoF.bound b ∈ opt.bounds.list → b.Nonzero) :
    (readAndCutStr opt input).status ≠ .panic :=
  (readAndCutStr_safe opt hbag (LNZ.of_nonzero hnz) input).ne_panic

/-- **fast lane**: it is the general engine (C02) -/
theorem readAndCutFast_safe (o : Opt) (fo : FastOpt) (ho : fastOptOf o = some fo)
    (l : List BoF) (hfv : fromVec l = .ok o.bounds)
    (hnz : ∀ b, BoF.bound b ∈ o.bounds.list → b.Nonzero) (input : Bytes) :
    (readAndCutFast fo input).Safe := by
  rw [readAndCutFast_eq_readAndCutStr o fo ho l hfv hnz input]
  have hre : o.regexBag = none := by
    unfold fastOptOf at ho
    split at ho
    · split at ho
      · simp at ho
      · rename_i hc
        simp only [Bool.or_eq_true, not_or, Bool.not_eq_true, Option.isSome_eq_false_iff,
          Option.isNone_iff_eq_none] at hc
        exact hc.2
    · simp at ho
  exact readAndCutStr_safe o (bagOK_of_literal_or_chars o (Or.inl hre)) (LNZ.of_nonzero hnz) input

theorem readAndCutFast_no_panic (o : Opt) (fo : FastOpt) (ho : fastOptOf o = some fo)
    (l : List BoF) (hfv : fromVec l = .ok o.bounds)
    (hnz : ∀ b, BoF.bound b ∈ o.bounds.list → b.Nonzero) (input : Bytes) :
    (readAndCutFast fo input).status ≠ .panic :=
  (readAndCutFast_safe o fo ho l hfv hnz input).ne_panic

/-- **byte mode** -/
theorem readAndCutBytes_no_panic (o : Opt) (data : Bytes)
    (hnz : ∀ b, BoF.bound b ∈ o.bounds.list → b.Nonzero) :
    (readAndCutBytes o data).status ≠ .panic :=
  (readAndCutBytes_safe o (LNZ.of_nonzero hnz) data).ne_panic

/-- **line mode, one line at a time**: no panic site at all, no hypothesis -/
theorem cutLinesForwardOnly_no_panic (o : Opt) (input : Bytes) :
    (cutLinesForwardOnly o input).status ≠ .panic :=
  (cutLinesForwardOnly_safe o input).ne_panic

/-- **line mode** (the buffered path is the general engine on one big record) -/
theorem readAndCutLines_no_panic (o : Opt) (input : Bytes)
    (hbag : ∀ bag, o.regexBag = some bag → bag.OK)
    (hnz : ∀ b, BoF.bound b ∈ o.bounds.list → b.Nonzero) :
    (readAndCutLines o input).status ≠ .panic :=
  (readAndCutLines_safe o hbag (LNZ.of_nonzero hnz) input).ne_panic

/-- **`-M`**: whatever `StreamOpt::try_from` accepts, every segmentation of every input -/
theorem cutBytesStream_no_panic (o : Opt) (so : StreamOpt) (h : streamOptOf o = some so)
    (segs : List Bytes) : (cutBytesStream so segs).status ≠ .panic :=
  (cutBytesStream_safe o so h segs).ne_panic

/-! ## 2. put together -/

/-- what `main` dispatches to ends with status 0 or 1, for bounds that come from the parser -/
theorem dispatch_safe (o : Opt) (f : List Char) (hf : boundsListOfString f = .ok o.bounds)
    (hbag : ∀ bag, o.regexBag = some bag → bag.OK) (M : Bool) (segs : List Bytes) :
    ∀ r, dispatch o M segs = some r → r.Safe := by
  have hnz := parsed_nonzero f o.bounds hf
  have hl : LNZ o.bounds.list := LNZ.of_nonzero hnz
  intro r hr
  unfold dispatch at hr
  simp only at hr
  split at hr
  · cases hso : streamOptOf o with
    | none => simp [hso] at hr
    | some so =>
      simp only [hso, Option.some.injEq] at hr
      subst hr
      exact cutBytesStream_safe o so hso segs
  · split at hr
    · simp only [Option.some.injEq] at hr
      subst hr
      exact readAndCutBytes_safe o hl _
    · split at hr
      · simp only [Option.some.injEq] at hr
        subst hr
        exact readAndCutLines_safe o hbag hl _
      · cases hfo : fastOptOf o with
        | some fo =>
          simp only [hfo, Option.some.injEq] at hr
          subst hr
          obtain ⟨l0, _, hfv⟩ := parsed_fromVec f o.bounds hf
          exact readAndCutFast_safe o fo hfo l0 hfv hnz _
        | none =>
          simp only [hfo, Option.some.injEq] at hr
          subst hr
          exact readAndCutStr_safe o hbag hl _

/-- **C12, dispatch.**  Any bounds string the parser accepts, literal delimiter or character mode
    (any input — valid UTF-8 or not), any option set, with or without `-M`, any segmentation of
    any input: the engine ends with exit status 0 or 1. -/
theorem dispatch_no_panic (o : Opt) (f : List Char) (hf : boundsListOfString f = .ok o.bounds)
    (hre : o.regexBag = none ∨ o.regexBag = some charsBag) (M : Bool) (segs : List Bytes) :
    ∀ r, dispatch o M segs = some r → r.status = .ok ∨ r.status = .fail :=
  dispatch_safe o f hf (bagOK_of_literal_or_chars o hre) M segs

/-- **C12, `main`.**  …and so does the process, whatever the writer does (`lim` = the number of
    bytes the writer accepts before failing, if it ever fails). -/
theorem mainModel_total (o : Opt) (f : List Char) (hf : boundsListOfString f = .ok o.bounds)
    (hre : o.regexBag = none ∨ o.regexBag = some charsBag) (M : Bool) (segs : List Bytes)
    (lim : Option Nat) :
    (mainModel o M segs lim).status = .ok ∨ (mainModel o M segs lim).status = .fail := by
  unfold mainModel
  cases hd : dispatch o M segs with
  | none => exact Or.inr rfl
  | some r => exact deliver_safe r lim (dispatch_no_panic o f hf hre M segs r hd)

/-- the same for a regex delimiter, under the contract of `find_iter` (matches sorted,
    non-overlapping, within the haystack); the regex engine itself is outside the model -/
theorem mainModel_total_regex (o : Opt) (f : List Char) (hf : boundsListOfString f = .ok o.bounds)
    (hbag : ∀ bag, o.regexBag = some bag → bag.OK) (M : Bool) (segs : List Bytes)
    (lim : Option Nat) :
    (mainModel o M segs lim).status = .ok ∨ (mainModel o M segs lim).status = .fail := by
  unfold mainModel
  cases hd : dispatch o M segs with
  | none => exact Or.inr rfl
  | some r => exact deliver_safe r lim (dispatch_safe o f hf hbag M segs r hd)

/-- in particular neither a panic nor an endless loop -/
theorem mainModel_never_panics (o : Opt) (f : List Char) (hf : boundsListOfString f = .ok o.bounds)
    (hre : o.regexBag = none ∨ o.regexBag = some charsBag) (M : Bool) (segs : List Bytes)
    (lim : Option Nat) :
    (mainModel o M segs lim).status ≠ .panic ∧ (mainModel o M segs lim).status ≠ .hang :=
  ⟨Run.Safe.ne_panic (mainModel_total o f hf hre M segs lim),
   Run.Safe.ne_hang (mainModel_total o f hf hre M segs lim)⟩

/-- the hypotheses are satisfiable: `-f 2:` with the default delimiter is an instance -/
def c12Opt : Opt :=
  { delimiter := [9], bounds := ⟨[.bound { l := .some 2, r := .cont, isLast := true }], .cont⟩ }

example : boundsListOfString ['2', ':'] = .ok c12Opt.bounds := by decide

example (M : Bool) (segs : List Bytes) (lim : Option Nat) :
    (mainModel c12Opt M segs lim).status = .ok ∨ (mainModel c12Opt M segs lim).status = .fail :=
  mainModel_total c12Opt ['2', ':'] (by decide) (Or.inl rfl) M segs lim

/-! ## 3. time and memory do not grow with the numeric value of an index -/

theorem rangeEnd_le (r : Side) (n : Nat) (e : Int) (h : rangeEnd r n = some e) : e ≤ n := by
  cases r with
  | cont => simp only [rangeEnd, Option.some.injEq] at h; omega
  | some v =>
    simp only [rangeEnd] at h
    split at h
    · simp at h
    · split at h <;> simp only [Option.some.injEq] at h <;> omega

/-- a resolved range never ends after the last part, whatever the written numbers -/
theorem tryIntoRange_le (b : UserBounds) (n s e : Nat) (h : b.tryIntoRange n = some (s, e)) :
    e ≤ n := by
  unfold UserBounds.tryIntoRange at h
  split at h
  · simp at h
  · split at h
    · simp at h
    · rename_i e' he
      split at h
      · simp at h
      · simp only [Option.some.injEq, Prod.mk.injEq] at h
        have := rangeEnd_le b.r n e' he
        omega

/-- `unpack` yields at most one bound per existing field, whatever numbers were written: `1:` or
    `-2147483647:` … on a 3-field record become at most 3 bounds (a side beyond the record makes
    the bound unresolvable and it stays one bound) -/
theorem unpack_length_le (b : UserBounds) (n : Nat) : (b.unpack n).length ≤ max 1 n := by
  unfold UserBounds.unpack
  cases hr : b.tryIntoRange n with
  | none => simp only [List.length_singleton]; omega
  | some p =>
    obtain ⟨s, e⟩ := p
    have := tryIntoRange_le b n s e hr
    simp only [List.length_map, List.length_range]
    omega

theorem unpackBof_length_le (n : Nat) (x : BoF) : (unpackBof n x).length ≤ max 1 n := by
  cases x with
  | bound b => simpa [unpackBof] using unpack_length_le b n
  | filler f => simp only [unpackBof, List.length_singleton]; omega

theorem unpackList_length_le (n : Nat) (l : List BoF) :
    (l.flatMap (unpackBof n)).length ≤ l.length * max 1 n := by
  induction l with
  | nil => simp
  | cons x t ih =>
    simp only [List.flatMap_cons, List.length_append, List.length_cons, Nat.succ_mul]
    have := unpackBof_length_le n x
    omega

/-- `complement` yields at most two bounds -/
theorem complement_length_le (b : UserBounds) (n : Nat) (l : List UserBounds)
    (h : b.complement n = some l) : l.length ≤ 2 := by
  unfold UserBounds.complement at h
  simp only [Option.map_eq_some_iff] at h
  obtain ⟨r, _, rfl⟩ := h
  obtain ⟨s, e⟩ := r
  simp only [List.length_map]
  unfold complementStdRange
  split <;> split <;> simp

theorem complementBof_length_le (n : Nat) (x : BoF) : (complementBof n x).length ≤ 2 := by
  cases x with
  | filler f => simp [complementBof]
  | bound b =>
    unfold complementBof
    cases hc : b.complement n with
    | none => simp [hc]
    | some bs => simpa [hc] using complement_length_le b n bs hc

/-- `-f 1: --json` on a record of 3 fields: 3 bounds; `-f 1:2147483647` is out of bounds and stays
    one bound (its fallback is printed) -/
example : (({ l := .some 1, r := .cont } : UserBounds).unpack 3).length = 3 := by decide
example : (({ l := .some 1, r := .some 2147483647 } : UserBounds).unpack 3).length = 1 := by decide

/-! ## 4. loops with fuel never run out of it

(`utf8CharsFuel_fuel` for the UTF-8 segmentation is in `Tuc.Props.C07`; the empty delimiter never
reaches the loop of `trim`: `trimLiteral` returns first) -/

theorem trimStartFuel_fuel_eq (d : Bytes) (hd : d ≠ []) (n : Nat) :
    ∀ (m : Nat) (l : Bytes), l.length ≤ n → l.length ≤ m →
      trimStartFuel d n l = trimStartFuel d m l := by
  induction n with
  | zero =>
    intro m l h _
    have : l = [] := List.eq_nil_of_length_eq_zero (by omega)
    subst this
    cases m with
    | zero => rfl
    | succ m =>
      have : d.isPrefixOf ([] : Bytes) = false := by
        cases d with
        | nil => exact absurd rfl hd
        | cons _ _ => rfl
      simp [trimStartFuel, this]
  | succ n ih =>
    intro m l hn hm
    cases m with
    | zero =>
      have : l = [] := List.eq_nil_of_length_eq_zero (by omega)
      subst this
      have : d.isPrefixOf ([] : Bytes) = false := by
        cases d with
        | nil => exact absurd rfl hd
        | cons _ _ => rfl
      simp [trimStartFuel, this]
    | succ m =>
      simp only [trimStartFuel]
      split
      · rename_i hp
        have hpl := (List.isPrefixOf_iff_prefix.mp hp).length_le
        have hdpos : 0 < d.length := List.length_pos_iff.mpr hd
        have : (l.drop d.length).length < l.length := by
          simp only [List.length_drop]; omega
        exact ih m _ (by omega) (by omega)
      · rfl

/-- the `while buffer[idx..].starts_with(delimiter)` loop terminates: with a non-empty delimiter
    any fuel ≥ the length of the buffer gives the same result as exactly that much -/
theorem trimStartFuel_fuel (d : Bytes) (hd : d ≠ []) (n : Nat) (l : Bytes) (h : l.length ≤ n) :
    trimStartFuel d n l = trimStartFuel d l.length l :=
  trimStartFuel_fuel_eq d hd n l.length l h (Nat.le_refl _)

/-! ## the contract of the matcher cannot be dropped -/

/-- a matcher that breaks the contract of `find_iter` (a match past the end) makes the slice panic -/
example :
    (cutStrCore [97]
      { delimiter := [9], regexBag := some ⟨fun _ => [(5, 6)], fun _ => [(5, 6)]⟩,
        bounds := ⟨[.bound { l := .some 1, r := .some 1, isLast := true }], .some 1⟩ }
      [10]).1.status = .panic := by decide

end Tuc
