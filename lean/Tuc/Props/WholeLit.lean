import Tuc.Model.WholeLit
import Tuc.Props.OptLit
import Tuc.Props.ReadLoops
import Tuc.Props.CutStrLit
import Tuc.Props.FastLoop
import Tuc.Props.StreamLoop
import Tuc.Props.LinesLoop
import Tuc.Props.MainLevel
import Tuc.Props.EndToEnd

/-!
# Tuc.Props.WholeLit — the program assembled from the statement-level transcriptions IS `tucMain`

`Tuc.Model.WholeLit.tucProgramLit regexOk argv segs` is the whole program — `parse_args`, the regex
bag, the option records of the engines, the dispatch of `main`, and every engine — in which EVERY
call goes to the statement-by-statement transcription of the callee, over a reader that hands the
input out in the pieces `segs`.  `tucMain` (`Tuc.Model.Main`) is the normal-form model that all
end-to-end property theorems (`Tuc.Props.EndToEnd`, `MainLevel`, `MainLevel2`) speak about.

## Headline

* **`tucProgramLit_eq : InDomain regexOk argv segs → tucProgramLit regexOk argv segs = tucMain regexOk argv segs`**
  — every argument vector (any spelling, accepted or not, `-e RE` included), every input, every
  segmentation.  `InDomain` (`programFitsB … = true`, decidable, `#guard`-able) says, and only when
  `parse_args` returned an `Opt`, the regex is one the model compiles and the run is not `-c` on
  input that is not UTF-8 (otherwise both sides are `help` / `version` / `reject` / `unmodelled`
  without reading anything):
  1. no read is empty (`∀ s ∈ segs, s ≠ []`) — the `BufRead` contract: an empty `fill_buf()` is EOF
     for every Rust loop, `List.flatten` does not see it.  Witnesses, one per engine: §11
     (`#guard differ …`).  Unreachable in the real program (`BufReader::fill_buf` is empty only at EOF);
  2. `inputFitsB opt input`, by engine, in the order of `main`'s dispatch:
     - `-M`, `-b`, `-l` line-at-a-time (`cut_lines_forward_only`): NOTHING (the `i32` line counter
       saturates since commit 9782769: `Tuc.Props.LinesLoop` needs no bound on the number of lines);
     - `-l` buffered (`cut_lines`: bounds not forward-only, `-m`, `-p`): the input, if it is UTF-8,
       has fewer than 2³¹ lines (`FieldsFit`: it is ONE record for `cut_str`, its fields are the lines);
     - fast lane: on every record the `i32` counter `curr_field` fits (`FastLoop.CounterFits`: the
       record is shorter than 2³¹ bytes or the scan stops early at the last interesting field);
       `inputFitsB_of_fast`: any input shorter than 2³¹ bytes will do.
       Needed: `tucProgramLit_ne_tucMain_on_2GiB_record` — `tuc -f 1:` on ONE record of 2³¹ TABs:
       the program made of the Rust statements panics (fast_lane.rs:52 `curr_field += 1`: debug
       build "attempt to add with overflow"; the release build wraps to `i32::MIN`), `tucMain`
       never does.  Reachable (a 2 GiB record); reported by `Tuc.Props.FastLoop`;
     - general engine (`-c`, `-e`, `-g`, `-p`, `-m`, `-r`, `--json`, multi-byte `-d`): every record
       has fewer than 2³¹ fields (`CutStrLitProps.FieldsFit`).  SUFFICIENT ONLY since the repair of
       `try_into_range` (userbounds.rs:221-223: `i64` arithmetic instead of the cast `parts_length as
       i32`, the defect `Tuc.Props.BoundsLit` / `CutStrLit` reported): the former witness
       `readAndCutStrWhole_ne_readAndCutStr_on_2GiB_record` (`Err` on one record of 2³¹ − 1 TABs) is
       false and gone; `readAndCutStrWhole_eq_readAndCutStr_on_2GiB_record` — on that very record the
       engine now computes what the model says (`readAndCutStrWhole_eq_on_long_record`: on every single
       record, for `-f 1:`).  `FieldsFit` is still what `CutStrLitProps.cutStrLit_eq` asks, because of
       `-m` / `unpack` (field numbers must fit the `i32` of a `Side`).
  NO hypothesis on the bounds: `CutStrLitProps.boundsOk_of_parseArgv` (whatever `parse_args`
  returns has `i32` sides and no left side 0), `OptLit.parseArgv_run` (it contains a bound).
  (`inputFitsB` asks the condition of EVERY record; records after the first one on which the engine
  returns `Err` are never read, so a slightly weaker condition would do.)
* engine by engine (every option record with `BoundsOk` bounds, not only those `parse_args` builds):
  `readAndCutStrWhole_eq`, `readAndCutTextAsBytesWhole_eq`, `readAndCutBytesStreamWhole_eq`,
  `readAndCutLinesWhole_eq` (`cutLinesForwardOnlyWhole_loop`, `cutLinesWhole_eq`),
  `ReadLoops.readAndCutBytesLoop_eq`; assembled in `dispatchWhole_eq : BoundsOk … → engineFitsB opt segs
  = true → dispatchWhole opt segs = OptLit.dispatchLit opt segs`, `tucRunWhole_eq`,
  `tucProgramLit_eq_tucMainLit`, then `OptLit.tucMainLit_eq`.
* new here: the reader of `-l`.  `Tuc.Model.LinesLoop` reads from a byte string; `tucProgramLit` uses
  std's `read_until` loop over `fill_buf` / `consume` (`ReadLoops.readUntilLoop`).
  `readUntilLoop_readUntil`: on a reader without empty chunks the loop appends exactly what
  `LinesLoop.readUntil` cuts off the concatenation, returns the number of bytes, never hangs or
  panics, and leaves the rest; `readLineWithEolSeg_eq`, `readWhileSeg_eq` (l.22-87 over the segmented
  reader = over the concatenation, from any state); `read_to_end` is `ReadLoops.readToEndLoop_spec`.
* adapters: `foldRecords_congr`, `cutStrLitClosure_eq` (the closure of cut_str.rs:472-485 with the
  statement-level `cut_str`), `foldRecords_fastLaneClosure` (the closure of fast_lane.rs:183-188 folded
  over the records is `FastLoop.forByteRecord`).

## Corollaries (§9): what is known about `tucMain` holds for the program made of the Rust statements

1. `tucProgramLit_never_panics`, `tucProgramLit_run_status` — on the domain no panic site is reached
   and no loop runs out of fuel: the result is never `panic`, a run ends with status `ok` or `fail`.
2. `tucProgramLit_chunk_independent` (`'`, `tucProgramLit_one_read`) — for two segmentations of the
   same input into non-empty reads (`inDomain_of_flatten`: the domain depends on the input only) the
   program does the same.  ALL engines, `-M` included, and for `-M` on ALL records, admissible or
   not: `tucMain_chunk_independent` has no hypothesis because everything the bounds parser produces
   has no two adjacent fillers (`dispatch_fixedMemory_chunk_independent`).
3. `tucProgramLit_fields_eq_spec` (domain: `InDomain`), `tucProgramLit_bytes_eq_spec`,
   `tucProgramLit_fixedMemory_eq_spec` (domain: no empty read, nothing else —
   `inDomain_canon_plain`): the end-to-end specifications of `Tuc.Props.EndToEnd`, transported.

§10: `#guard`s — every engine, every way `main` can end, on segmented inputs (in the domain,
`tucProgramLit` = `tucMain` = the expected bytes); instances of the theorems.
-/

namespace Tuc
namespace WholeLit

open StreamLoop (fillBuf consume memchr totalBytes fuelFor)
open ReadLoops (Closure forByteRecordLoop readUntilLoop readToEndLoop stripSuffix foldRecords)
open CutStrLitProps (BoundsOk FieldsFit fieldsFitB)
open OptLit
open FastLoop (CounterFits)

set_option linter.unusedSimpArgs false

/-! ## 1. the general engine -/

/-- the same closure on every record of the list: the same fold -/
theorem foldRecords_congr {σ : Type} (f g : Closure σ) : ∀ (recs : List Bytes) (st : σ),
    (∀ r ∈ recs, ∀ st, f r st = g r st) → foldRecords f recs st = foldRecords g recs st
  | [], _, _ => rfl
  | r :: t, st, h => by
    simp only [foldRecords, h r List.mem_cons_self st]
    rw [foldRecords_congr f g t _ (fun r' hr' => h r' (List.mem_cons_of_mem _ hr'))]

/-- l.472-485 with the statement-level `cut_str` = the closure of `Tuc.Model.ReadLoops` (callee: the
    normal-form `cutStr`), on a record that `for_byte_record` hands out (no terminator inside) -/
theorem cutStrLitClosure_eq (opt : Opt) (hb : BoundsOk opt.bounds.list) (r : Bytes)
    (st : List Range × Bytes) (hr : opt.eol.byte ∉ r) (hn : FieldsFit r opt) :
    cutStrLitClosure opt r st = ReadLoops.cutStrClosure opt r st := by
  simp only [cutStrLitClosure, ReadLoops.cutStrClosure, ReadLoops.stripSuffix_not_mem r _ hr,
    Option.getD_none, CutStrLitProps.cutStrLit_eq r opt st.1 st.2 _ hb hn]

/-- **the general engine**: `read_and_cut_str` made of bstr's `for_byte_record`, std's
    `read_until` and the statement-level `cut_str` is `readAndCutStr` on the concatenation of the
    reads — for every option record with `i32` bounds, every list of non-empty reads, when every
    record has fewer than 2³¹ fields -/
theorem readAndCutStrWhole_eq (opt : Opt) (segs : List Bytes) (hb : BoundsOk opt.bounds.list)
    (hsegs : ∀ s ∈ segs, s ≠ [])
    (hn : ∀ r ∈ records opt.eol.byte segs.flatten, FieldsFit r opt) :
    readAndCutStrWhole opt segs = readAndCutStr opt segs.flatten := by
  rw [← ReadLoops.readAndCutStrLoop_eq opt segs hsegs]
  unfold readAndCutStrWhole ReadLoops.readAndCutStrLoop
  simp only [ReadLoops.forByteRecordLoop_eq_records _ _ _ _ hsegs]
  rw [foldRecords_congr _ _ _ _ (fun r hr st =>
    cutStrLitClosure_eq opt hb r st (ReadLoops.records_not_mem _ _ r hr) (hn r hr))]

/-! ## 2. the fast lane -/

/-- folding the closure of l.183-188 over the records is the record loop of `Tuc.Model.FastLoop` -/
theorem foldRecords_fastLaneClosure (opt : FastOpt) (lif : Side) : ∀ (recs : List Bytes) (fields : List Nat),
    foldRecords (fastLaneClosure opt lif) recs fields = FastLoop.forByteRecord opt lif recs fields
  | [], _ => rfl
  | r :: t, fields => by
    simp only [foldRecords, FastLoop.forByteRecord, fastLaneClosure, and_true]
    rw [foldRecords_fastLaneClosure opt lif t]
    split
    · rfl
    · rename_i hs
      rw [Run.seq_of_not_ok _ _ hs]

theorem readAndCutTextAsBytesWhole_loop (opt : FastOpt) (segs : List Bytes) (hsegs : ∀ s ∈ segs, s ≠ []) :
    readAndCutTextAsBytesWhole opt segs = readAndCutTextAsBytesLoop opt segs.flatten := by
  unfold readAndCutTextAsBytesWhole readAndCutTextAsBytesLoop
  simp only [ReadLoops.forByteRecordLoop_eq_records _ _ _ _ hsegs, foldRecords_fastLaneClosure]
  cases opt.eol <;> rfl

/-- **the fast lane**: `read_and_cut_text_as_bytes` made of `for_byte_record`, `read_until` and the
    statement-level `cut_str_fast_lane` is `readAndCutFast` on the concatenation of the reads, when
    the `i32` counter fits on every record -/
theorem readAndCutTextAsBytesWhole_eq (opt : FastOpt) (segs : List Bytes) (hsegs : ∀ s ∈ segs, s ≠ [])
    (hfit : ∀ r ∈ records opt.eol.byte segs.flatten, CounterFits opt.bounds.lastInteresting r.length) :
    readAndCutTextAsBytesWhole opt segs = readAndCutFast opt segs.flatten := by
  rw [readAndCutTextAsBytesWhole_loop opt segs hsegs]
  have h := FastLoop.forByteRecord_eq opt opt.bounds.lastInteresting (records opt.eol.byte segs.flatten) []
    (fun r hr f => cutStrFastLaneLoop_eq r opt f _ (hfit r hr))
  unfold readAndCutTextAsBytesLoop readAndCutFast
  simp only [h, Run.seq_empty]
  split <;> rfl

/-! ## 3. `-M` -/

/-- **`-M`**: `read_and_cut_bytes_stream` with the statement-level `cut_bytes_stream` is the
    transcription of `Tuc.Model.OptLit` (callee: the tagged-byte machine), for everything
    `StreamOpt::try_from` accepts -/
theorem readAndCutBytesStreamWhole_eq (o : Opt) (s : StreamOptLit) (h : StreamOptLit.tryFrom o = .ok s)
    (segs : List Bytes) (hsegs : ∀ x ∈ segs, x ≠ []) :
    readAndCutBytesStreamWhole s segs = readAndCutBytesStreamLit s segs := by
  obtain ⟨_, _, _, b, hb, hso⟩ := StreamOptLit.tryFrom_ok o s h
  unfold readAndCutBytesStreamWhole readAndCutBytesStreamLit
  simp only [hb, Run.seq_empty]
  exact StreamLoop.cutBytesStreamLoop_of_opt o _ hso segs hsegs

/-! ## 4. `-l`: `read_until` / `read_line` / `read_to_end` over the segmented reader -/

theorem readUntil_append_none (t : UInt8) : ∀ (chunk rest : Bytes), memchr t chunk = none →
    LinesLoop.readUntil t (chunk ++ rest) =
      (chunk ++ (LinesLoop.readUntil t rest).1, (LinesLoop.readUntil t rest).2)
  | [], rest, _ => rfl
  | c :: tl, rest, h => by
    by_cases hc : c = t
    · simp [memchr, hc] at h
    · have h' : memchr t tl = none := by
        simp only [memchr, if_neg hc, Option.map_eq_none_iff] at h
        exact h
      simp only [List.cons_append, LinesLoop.readUntil, if_neg hc, readUntil_append_none t tl rest h']

theorem readUntil_append_some (t : UInt8) : ∀ (chunk rest : Bytes) (i : Nat), memchr t chunk = some i →
    LinesLoop.readUntil t (chunk ++ rest) = (chunk.take (i + 1), chunk.drop (i + 1) ++ rest)
  | [], _, _, h => by simp [memchr] at h
  | c :: tl, rest, i, h => by
    by_cases hc : c = t
    · simp only [memchr, if_pos hc, Option.some.injEq] at h
      subst h
      simp [LinesLoop.readUntil, hc]
    · simp only [memchr, if_neg hc, Option.map_eq_some_iff] at h
      obtain ⟨j, hj, rfl⟩ := h
      simp only [List.cons_append, LinesLoop.readUntil, if_neg hc, readUntil_append_some t tl rest j hj]
      simp

/-- **std's `read_until` loop over `fill_buf` / `consume` is `read_until` on the concatenation**:
    on a reader without empty chunks it neither hangs nor panics, appends to `buf` what
    `LinesLoop.readUntil` cuts off the concatenated input, returns the number of bytes appended,
    and leaves a reader (again without empty chunks) that holds the rest -/
theorem readUntilLoop_readUntil (t : UInt8) : ∀ (fuel : Nat) (stdin : List Bytes) (buf : Bytes) (read : Nat),
    (∀ s ∈ stdin, s ≠ []) → totalBytes stdin < fuel →
    ∃ stdin', readUntilLoop t fuel stdin buf read =
        .ok (read + (LinesLoop.readUntil t stdin.flatten).1.length,
             buf ++ (LinesLoop.readUntil t stdin.flatten).1, stdin') ∧
      (∀ s ∈ stdin', s ≠ []) ∧ stdin'.flatten = (LinesLoop.readUntil t stdin.flatten).2 := by
  intro fuel
  induction fuel with
  | zero => intro stdin buf read _ h; omega
  | succ fuel ih =>
    intro stdin buf read hne hfuel
    rw [ReadLoops.readUntilLoop_succ]
    cases stdin with
    | nil =>
      refine ⟨[], ?_, ?_, ?_⟩
      · simp [fillBuf, memchr, consume, LinesLoop.readUntil]
      · intro s hs; cases hs
      · simp [LinesLoop.readUntil]
    | cons chunk more =>
      have hc : chunk ≠ [] := hne chunk (List.mem_cons_self ..)
      have hclen : 0 < chunk.length := List.length_pos_iff.mpr hc
      have hfb : fillBuf (chunk :: more) = chunk := rfl
      rw [hfb, List.flatten_cons]
      cases hm : memchr t chunk with
      | some i =>
        have hlt := ReadLoops.memchr_some_lt t chunk i hm
        refine ⟨consume (i + 1) (chunk :: more), ?_, ?_, ?_⟩
        · rw [readUntil_append_some t chunk more.flatten i hm]
          simp [hlt]
          omega
        · exact StreamLoop.consume_nonempty _ _ hne
        · rw [readUntil_append_some t chunk more.flatten i hm, ReadLoops.flatten_consume]
      | none =>
        have hmore : ∀ s ∈ more, s ≠ [] := fun s hs => hne s (List.mem_cons_of_mem _ hs)
        have htb : totalBytes (chunk :: more) = chunk.length + totalBytes more := rfl
        obtain ⟨stdin', h1, h2, h3⟩ := ih more (buf ++ chunk) (read + chunk.length) hmore (by omega)
        refine ⟨stdin', ?_, h2, ?_⟩
        · have hz : (chunk.length == 0) = false := by simp; omega
          simp only [Bool.false_or, hz]
          rw [StreamLoop.consume_all, readUntil_append_none t chunk more.flatten hm]
          simp only [Bool.false_eq_true, if_false, h1, List.length_append, List.append_assoc, Nat.add_assoc]
        · rw [readUntil_append_none t chunk more.flatten hm]
          exact h3

/-- **`read_line_with_eol` over the segmented reader is `read_line_with_eol` on the concatenation** -/
theorem readLineWithEolSeg_eq (segs : List Bytes) (eol : EOL) (hsegs : ∀ s ∈ segs, s ≠ []) :
    ∃ segs', readLineWithEolSeg segs eol = .ok ((LinesLoop.readLineWithEol segs.flatten eol).1, segs') ∧
      (∀ s ∈ segs', s ≠ []) ∧ segs'.flatten = (LinesLoop.readLineWithEol segs.flatten eol).2 := by
  cases eol with
  | newline =>
    obtain ⟨segs', h1, h2, h3⟩ := readUntilLoop_readUntil 10 (totalBytes segs + 1) segs [] 0 hsegs (by omega)
    refine ⟨segs', ?_, h2, ?_⟩
    · simp only [readLineWithEolSeg, LinesLoop.readLineWithEol, h1, Nat.zero_add, List.nil_append]
      by_cases hv : validUtf8 (LinesLoop.readUntil 10 segs.flatten).1 = true
      · simp only [hv, if_true]
        split <;> rfl
      · simp only [hv, Bool.false_eq_true, if_false]
    · simp only [LinesLoop.readLineWithEol]
      rw [h3]
      by_cases hv : validUtf8 (LinesLoop.readUntil 10 segs.flatten).1 = true
      · simp only [hv, if_true]
        split <;> rfl
      · simp only [hv, Bool.false_eq_true, if_false]
  | zero =>
    obtain ⟨segs', h1, h2, h3⟩ :=
      readUntilLoop_readUntil EOL.zero.byte (totalBytes segs + 1) segs [] 0 hsegs (by omega)
    refine ⟨segs', ?_, h2, ?_⟩
    · simp only [readLineWithEolSeg, LinesLoop.readLineWithEol, h1, Nat.zero_add, List.nil_append]
      by_cases hv : validUtf8 (LinesLoop.readUntil EOL.zero.byte segs.flatten).1 = true
      · simp only [hv, if_true]
        split <;> rfl
      · simp only [hv, Bool.false_eq_true, if_false]
    · simp only [LinesLoop.readLineWithEol]
      rw [h3]
      by_cases hv : validUtf8 ([] ++ (LinesLoop.readUntil EOL.zero.byte segs.flatten).1) = true
      · simp only [hv, if_true]
        split <;> rfl
      · simp only [hv, Bool.false_eq_true, if_false]

/-- l.22-87 over the segmented reader = l.22-87 over the concatenation, from any state of the
    variables and with any fuel -/
theorem readWhileSeg_eq (opt : Opt) : ∀ (fuel : Nat) (segs : List Bytes) (v : LinesLoop.Vars),
    (∀ s ∈ segs, s ≠ []) →
    readWhileSeg opt fuel segs v = LinesLoop.readWhile opt fuel segs.flatten v := by
  intro fuel
  induction fuel with
  | zero => intros; rfl
  | succ fuel ih =>
    intro segs v hsegs
    obtain ⟨segs', h1, h2, h3⟩ := readLineWithEolSeg_eq segs opt.eol hsegs
    unfold readWhileSeg LinesLoop.readWhile
    rw [h1]
    generalize LinesLoop.readLineWithEol segs.flatten opt.eol = x at *
    obtain ⟨line, rest⟩ := x
    simp only at h3
    subst h3
    cases line <;> simp only [ih _ _ h2]

/-- **`cut_lines_forward_only` over the segmented reader** is the transcription of
    `Tuc.Model.LinesLoop` on the concatenation of the reads -/
theorem cutLinesForwardOnlyWhole_loop (opt : Opt) (segs : List Bytes) (hsegs : ∀ s ∈ segs, s ≠ []) :
    cutLinesForwardOnlyWhole opt segs = cutLinesForwardOnlyLoop opt segs.flatten := by
  unfold cutLinesForwardOnlyWhole cutLinesForwardOnlyLoop
  simp only [readWhileSeg_eq opt _ segs _ hsegs, ReadLoops.totalBytes_eq_length_flatten]

/-- **`cut_lines` with std's `read_to_end` loop and the statement-level `cut_str`** is the
    normal-form `cutLines` on the concatenation of the reads, when the input (one record whose fields
    are the lines) has fewer than 2³¹ lines -/
theorem cutLinesWhole_eq (opt : Opt) (segs : List Bytes) (hb : BoundsOk opt.bounds.list)
    (hsegs : ∀ s ∈ segs, s ≠ [])
    (hn : validUtf8 segs.flatten = true → FieldsFit (stripEol opt.eol.byte segs.flatten) opt) :
    cutLinesWhole opt segs = cutLines opt segs.flatten := by
  unfold cutLinesWhole cutLines
  simp only [ReadLoops.readToEndLoop_spec _ _ _ _ hsegs (ReadLoops.totalBytes_lt_fuelFor segs),
    List.nil_append]
  by_cases hv : validUtf8 segs.flatten = true
  · simp only [hv, Bool.not_true, Bool.false_eq_true, if_false,
      CutStrLitProps.cutStrLit_eq _ opt [] [] _ hb (hn hv)]
  · simp only [hv, Bool.not_false, if_true]

/-- **`read_and_cut_lines`**, both algorithms -/
theorem readAndCutLinesWhole_eq (opt : Opt) (segs : List Bytes) (hb : BoundsOk opt.bounds.list)
    (hsegs : ∀ s ∈ segs, s ≠ [])
    (hn : (!opt.complement && !opt.compressDelimiter && isForwardOnly opt.bounds.list) = false →
      validUtf8 segs.flatten = true → FieldsFit (stripEol opt.eol.byte segs.flatten) opt) :
    readAndCutLinesWhole opt segs = readAndCutLines opt segs.flatten := by
  rw [← readAndCutLinesLoop_eq opt segs.flatten (fun b hbm => ⟨(hb b hbm).1, (hb b hbm).2.1⟩)]
  unfold readAndCutLinesWhole readAndCutLinesLoop
  by_cases hs : (!opt.complement && !opt.compressDelimiter && isForwardOnly opt.bounds.list) = true
  · simp only [hs, if_true, cutLinesForwardOnlyWhole_loop opt segs hsegs]
  · simp only [hs, Bool.false_eq_true, if_false]
    rw [cutLinesWhole_eq opt segs hb hsegs (hn (by simpa using hs)), cutLinesLit_eq]

/-! ## 5. the hypotheses, as one decidable predicate -/

/-- `FastLoop.CounterFits` as a `Bool` -/
def counterFitsB (lif : Side) (len : Nat) : Bool :=
  decide ((len : Int) ≤ i32Max) ||
    match lif with
    | .some k => decide (0 < k) && decide (k ≤ i32Max)
    | .cont => false

theorem counterFitsB_iff (lif : Side) (len : Nat) : counterFitsB lif len = true ↔ CounterFits lif len := by
  unfold counterFitsB FastLoop.CounterFits
  cases lif with
  | cont => simp
  | some k => simp

/-- **what the engine that `main` selects needs from the input** (`input` = the concatenation of
    the reads), engine by engine, in the order of the dispatch of `main` (tuc.rs:264-285):

    * `-M`, `-b`: nothing;
    * `-l`, line-at-a-time algorithm (`cut_lines_forward_only`): nothing (the `i32` line counter
      saturates: `LinesLoop`, after the repair of commit 9782769);
    * `-l`, buffered algorithm (`cut_lines` → `cut_str` on the whole input as one record whose
      fields are the lines): the input — when it is UTF-8, otherwise `cut_str` is not reached — has
      fewer than 2³¹ lines (`FieldsFit`; sufficient only since `try_into_range` computes in `i64`);
    * fast lane: on every record the `i32` counter `curr_field` (fast_lane.rs:44, 52) does not
      overflow (`CounterFits`: the record is shorter than 2³¹ bytes, or the scan stops early);
    * general engine: every record has fewer than 2³¹ fields (`FieldsFit`). -/
def inputFitsB (opt : Opt) (input : Bytes) : Bool :=
  if opt.fixedMemory.isSome then true
  else if opt.boundsType = .bytes then true
  else if opt.boundsType = .lines then
    (!opt.complement && !opt.compressDelimiter && isForwardOnly opt.bounds.list)
      || !validUtf8 input || fieldsFitB (stripEol opt.eol.byte input) opt
  else
    match FastOptLit.tryFrom opt with
    | .ok fastOpt =>
      (records fastOpt.eol.byte input).all fun r => counterFitsB fastOpt.bounds.lastInteresting r.length
    | .fail => (records opt.eol.byte input).all fun r => fieldsFitB r opt
    | .panic => true

/-- the reads are non-empty (the `BufRead` contract: an empty `fill_buf()` is EOF) and the input
    fits the engine -/
def engineFitsB (opt : Opt) (segs : List Bytes) : Bool :=
  segs.all (fun s => !s.isEmpty) && inputFitsB opt segs.flatten

/-- **the domain of `tucProgramLit_eq`**, a decidable predicate on the argument vector and the
    reads: when `parse_args` returns an `Opt`, the regex (if any) is one the model compiles and the
    run is not `-c` on input that is not UTF-8 (where `tucMain` says `unmodelled`), the reads are
    non-empty and the input fits the engine `main` selects (`inputFitsB`).  There is NO condition on
    the bounds (`CutStrLitProps.boundsOk_of_parseArgv`) and none when `tuc` prints the help / version
    or rejects the command line. -/
def programFitsB (regexOk : Arg → Bool) (argv : List Arg) (segs : List Bytes) : Bool :=
  match parseArgv regexOk argv with
  | .run o _ regexText =>
    match compileBag o regexText with
    | Option.some bag =>
      (o.boundsType = .characters && !validUtf8 segs.flatten)    -- `-c` on input that is not UTF-8: `unmodelled`
        || engineFitsB { o with regexBag := bag } segs
    | Option.none => true                                         -- a regex outside the model: `unmodelled`
  | _ => true

/-- … as a proposition -/
def InDomain (regexOk : Arg → Bool) (argv : List Arg) (segs : List Bytes) : Prop :=
  programFitsB regexOk argv segs = true

instance (regexOk : Arg → Bool) (argv : List Arg) (segs : List Bytes) : Decidable (InDomain regexOk argv segs) :=
  inferInstanceAs (Decidable (_ = true))

theorem engineFitsB_reads {opt : Opt} {segs : List Bytes} (h : engineFitsB opt segs = true) :
    ∀ s ∈ segs, s ≠ [] := by
  unfold engineFitsB at h
  simp only [Bool.and_eq_true, List.all_eq_true, Bool.not_eq_true', List.isEmpty_eq_false_iff] at h
  exact h.1

theorem engineFitsB_input {opt : Opt} {segs : List Bytes} (h : engineFitsB opt segs = true) :
    inputFitsB opt segs.flatten = true := by
  unfold engineFitsB at h
  simp only [Bool.and_eq_true] at h
  exact h.2

/-- a segmentation-independent sufficient condition: any input shorter than 2³¹ bytes fits every
    engine -/
theorem engineFitsB_of_reads_of_input {opt : Opt} {segs : List Bytes} (h1 : ∀ s ∈ segs, s ≠ [])
    (h2 : inputFitsB opt segs.flatten = true) : engineFitsB opt segs = true := by
  unfold engineFitsB
  simp only [Bool.and_eq_true, List.all_eq_true, Bool.not_eq_true', List.isEmpty_eq_false_iff]
  exact ⟨h1, h2⟩

/-! ## 6. the dispatch of `main` -/

/-- **the dispatch with the statement-level engines over the segmented reader is the dispatch of
    `Tuc.Model.OptLit`** (normal-form engines on the concatenated input), for every option record
    whose bounds are `i32` values with a non-zero left side, on the domain `engineFitsB` -/
theorem dispatchWhole_eq (opt : Opt) (segs : List Bytes) (hb : BoundsOk opt.bounds.list)
    (hfit : engineFitsB opt segs = true) :
    dispatchWhole opt segs = dispatchLit opt segs := by
  have hsegs := engineFitsB_reads hfit
  have hin := engineFitsB_input hfit
  unfold dispatchWhole dispatchLit
  unfold inputFitsB at hin
  by_cases hfm : opt.fixedMemory.isSome = true
  · simp only [hfm, if_true]
    cases ht : StreamOptLit.tryFrom opt with
    | ok s => simp only [readAndCutBytesStreamWhole_eq opt s ht segs hsegs]
    | fail => rfl
    | panic => rfl
  · simp only [hfm, Bool.false_eq_true, if_false] at hin ⊢
    by_cases h1 : opt.boundsType = .bytes
    · simp only [h1, if_true, ReadLoops.readAndCutBytesLoop_eq opt segs hsegs]
    · simp only [h1, if_false] at hin ⊢
      by_cases h2 : opt.boundsType = .lines
      · simp only [h2, if_true] at hin ⊢
        rw [readAndCutLinesWhole_eq opt segs hb hsegs]
        intro hs hv
        simp only [hs, hv, Bool.not_true, Bool.false_or] at hin
        exact (CutStrLitProps.fieldsFit_iff _ _).mp hin
      · simp only [h2, if_false] at hin ⊢
        cases ht : FastOptLit.tryFrom opt with
        | ok fo =>
          simp only [ht, List.all_eq_true, counterFitsB_iff] at hin
          simp only [readAndCutTextAsBytesWhole_eq fo segs hsegs hin]
        | fail =>
          simp only [ht, List.all_eq_true, CutStrLitProps.fieldsFit_iff] at hin
          simp only [readAndCutStrWhole_eq opt segs hb hsegs hin]
        | panic => rfl

/-! ## 7. the program -/

theorem tucRunWhole_eq (o : Opt) (regexText : Option Arg) (segs : List Bytes) (hb : BoundsOk o.bounds.list)
    (hfit : ∀ bag, compileBag o regexText = Option.some bag →
      ((o.boundsType = .characters && !validUtf8 segs.flatten)
        || engineFitsB { o with regexBag := bag } segs) = true) :
    tucRunWhole o regexText segs = tucRunLit o regexText segs := by
  unfold tucRunWhole tucRunLit
  cases hc : compileBag o regexText with
  | none => rfl
  | some bag =>
    simp only
    by_cases hu : (o.boundsType = .characters && !validUtf8 segs.flatten) = true
    · rw [if_pos hu, if_pos hu]
    · rw [if_neg hu, if_neg hu]
      have := hfit bag hc
      rw [Bool.or_eq_true] at this
      rw [dispatchWhole_eq { o with regexBag := bag } segs hb (this.resolve_left hu)]

/-- `tucProgramLit` is `OptLit.tucMainLit` (literal option records and dispatch, normal-form engines) -/
theorem tucProgramLit_eq_tucMainLit (regexOk : Arg → Bool) (argv : List Arg) (segs : List Bytes)
    (h : InDomain regexOk argv segs) :
    tucProgramLit regexOk argv segs = tucMainLit regexOk argv segs := by
  unfold InDomain programFitsB at h
  unfold tucProgramLit tucMainLit
  cases hp : parseArgv regexOk argv with
  | help => rfl
  | version => rfl
  | reject => rfl
  | panic => rfl
  | run o fm rt =>
    simp only [hp] at h ⊢
    apply tucRunWhole_eq o rt segs (CutStrLitProps.boundsOk_of_parseArgv regexOk argv o fm rt hp)
    intro bag hc
    simpa only [hc] using h

/-- **THE CAPSTONE.  The whole program assembled from the statement-level transcriptions only —
    `parse_args`, the option records of the engines, the dispatch of `main`, bstr's
    `for_byte_record`, std's `read_until` / `read_to_end`, `cut_str` with machine integers,
    `cut_str_fast_lane` with its `i32` counter, `cut_bytes_stream`, `cut_lines_forward_only`,
    `cut_lines`, `cut_bytes`, over a reader that hands the input out in arbitrary non-empty pieces —
    IS `tucMain`**, the definition that every end-to-end property theorem speaks about: for every
    argument vector, every input and every segmentation, on the decidable domain `InDomain`
    (non-empty reads; fewer than 2³¹ fields per record where `cut_str` runs; the `i32` counter of the
    fast lane).  No hypothesis on the bounds: whatever `parse_args` returns is `BoundsOk`. -/
theorem tucProgramLit_eq (regexOk : Arg → Bool) (argv : List Arg) (segs : List Bytes)
    (h : InDomain regexOk argv segs) :
    tucProgramLit regexOk argv segs = tucMain regexOk argv segs := by
  rw [tucProgramLit_eq_tucMainLit regexOk argv segs h, tucMainLit_eq]

/-! ## 8. the domain, engine by engine -/

/-- what `InDomain` says once `parse_args` returned an `Opt` and the regex compiled -/
theorem inDomain_iff_of_run {regexOk : Arg → Bool} {argv : List Arg} {o : Opt} {fm : Bool} {rt : Option Arg}
    {bag : Option RegexBag} (hp : parseArgv regexOk argv = .run o fm rt)
    (hc : compileBag o rt = Option.some bag) (segs : List Bytes)
    (hu : (o.boundsType = .characters && !validUtf8 segs.flatten) = false) :
    InDomain regexOk argv segs ↔
      (∀ s ∈ segs, s ≠ []) ∧ inputFitsB { o with regexBag := bag } segs.flatten = true := by
  unfold InDomain programFitsB
  simp only [hp, hc, hu, Bool.false_or]
  constructor
  · intro h; exact ⟨engineFitsB_reads h, engineFitsB_input h⟩
  · intro h; exact engineFitsB_of_reads_of_input h.1 h.2

/-- help, version, a rejected command line: no condition at all -/
theorem inDomain_of_not_run {regexOk : Arg → Bool} {argv : List Arg}
    (h : ∀ o fm rt, parseArgv regexOk argv ≠ .run o fm rt) (segs : List Bytes) :
    InDomain regexOk argv segs := by
  unfold InDomain programFitsB
  cases hp : parseArgv regexOk argv with
  | run o fm rt => exact absurd hp (h o fm rt)
  | _ => rfl

/-- `-M`: no condition on the input -/
theorem inputFitsB_of_fixedMemory (opt : Opt) (input : Bytes) (h : opt.fixedMemory.isSome = true) :
    inputFitsB opt input = true := by
  unfold inputFitsB; simp only [h, if_true]

/-- `-b`: no condition on the input -/
theorem inputFitsB_of_bytes (opt : Opt) (input : Bytes) (h : opt.boundsType = .bytes) :
    inputFitsB opt input = true := by
  unfold inputFitsB; simp only [h, if_true, ite_self]

/-- `-l`, line-at-a-time algorithm: no condition on the input -/
theorem inputFitsB_of_lines_streamed (opt : Opt) (input : Bytes) (h : opt.boundsType = .lines)
    (hs : (!opt.complement && !opt.compressDelimiter && isForwardOnly opt.bounds.list) = true) :
    inputFitsB opt input = true := by
  unfold inputFitsB; simp only [h, hs, if_true, Bool.true_or, ite_self]

/-- the fast lane: an input shorter than 2³¹ bytes is enough -/
theorem inputFitsB_of_fast (opt : Opt) (fo : FastOpt) (input : Bytes) (hfm : opt.fixedMemory.isSome = false)
    (h1 : opt.boundsType ≠ .bytes) (h2 : opt.boundsType ≠ .lines) (ht : FastOptLit.tryFrom opt = .ok fo)
    (hlen : (input.length : Int) ≤ i32Max) :
    inputFitsB opt input = true := by
  unfold inputFitsB
  simp only [hfm, Bool.false_eq_true, if_false, h1, h2, ht, List.all_eq_true, counterFitsB_iff]
  intro r hr
  exact FastLoop.CounterFits.mono (Or.inl hlen) (FastLoop.records_length_le _ _ r hr)

/-- the domain depends on the input only, not on how the reads split it (as long as no read is empty) -/
theorem inDomain_of_flatten {regexOk : Arg → Bool} {argv : List Arg} {segs segs' : List Bytes}
    (h : InDomain regexOk argv segs) (hsegs' : ∀ s ∈ segs', s ≠ []) (he : segs.flatten = segs'.flatten) :
    InDomain regexOk argv segs' := by
  unfold InDomain programFitsB at h ⊢
  cases hp : parseArgv regexOk argv with
  | run o fm rt =>
    simp only [hp] at h ⊢
    cases hc : compileBag o rt with
    | none => rfl
    | some bag =>
      simp only [hc, Bool.or_eq_true] at h ⊢
      rcases h with h | h
      · left; rw [← he]; exact h
      · right; exact engineFitsB_of_reads_of_input hsegs' (he ▸ engineFitsB_input h)
  | _ => rfl

/-! ## 9. corollaries: what is known about `tucMain` holds for the program made of the Rust statements -/

/-- **(1) no panic, no endless loop.**  On its domain the program assembled from the
    statement-level transcriptions never reaches a panic site — no `unwrap` / `expect` of
    `parse_args`, `StreamOpt::try_from`, `FastOpt::try_from`, `get_last_bound`; no `split_at`, no
    slice, no index, no `usize` subtraction, no `i32` addition or cast inside `for_byte_record`,
    `read_until`, `cut_str`, `try_into_range`, `cut_str_fast_lane`, `cut_bytes_stream`,
    `cut_lines_forward_only`, `cut_bytes` — none of its loops runs out of fuel, and when an engine
    runs it ends with exit status 0 or 1 (C12 at program level: `tucMain_never_panics`). -/
theorem tucProgramLit_never_panics (regexOk : Arg → Bool) (argv : List Arg) (segs : List Bytes)
    (h : InDomain regexOk argv segs) :
    tucProgramLit regexOk argv segs ≠ .panic ∧
      ∀ r, tucProgramLit regexOk argv segs = .run r → r.status = .ok ∨ r.status = .fail := by
  rw [tucProgramLit_eq regexOk argv segs h]
  exact tucMain_never_panics regexOk argv segs

/-- … in particular neither status `panic` nor status `hang` -/
theorem tucProgramLit_run_status (regexOk : Arg → Bool) (argv : List Arg) (segs : List Bytes)
    (h : InDomain regexOk argv segs) (r : Run) (hr : tucProgramLit regexOk argv segs = .run r) :
    r.status ≠ .panic ∧ r.status ≠ .hang := by
  rw [tucProgramLit_eq regexOk argv segs h] at hr
  exact tucMain_run_status regexOk argv segs r hr

/-- **(2) chunk independence of the whole literal program** (C04 at program level): what the
    program does — help, rejection, or the bytes on stdout and the exit status — depends on the
    bytes of the input only, never on how the successive `fill_buf()` calls split them; for ALL
    engines, `-M` included (whatever the bounds parser produces has no two adjacent fillers, so
    `dispatch_fixedMemory_chunk_independent` applies to every record, admissible or not).  Unlike
    `tucMain_chunk_independent` the reads must be non-empty (both segmentations are in the domain):
    an empty read IS end of input for the Rust loops. -/
theorem tucProgramLit_chunk_independent (regexOk : Arg → Bool) (argv : List Arg) (segs₁ segs₂ : List Bytes)
    (h₁ : InDomain regexOk argv segs₁) (h₂ : InDomain regexOk argv segs₂)
    (he : segs₁.flatten = segs₂.flatten) :
    tucProgramLit regexOk argv segs₁ = tucProgramLit regexOk argv segs₂ := by
  rw [tucProgramLit_eq regexOk argv segs₁ h₁, tucProgramLit_eq regexOk argv segs₂ h₂]
  exact tucMain_chunk_independent regexOk argv segs₁ segs₂ he

/-- … with the domain condition of the second segmentation reduced to "no empty read" -/
theorem tucProgramLit_chunk_independent' (regexOk : Arg → Bool) (argv : List Arg) (segs₁ segs₂ : List Bytes)
    (h₁ : InDomain regexOk argv segs₁) (h₂ : ∀ s ∈ segs₂, s ≠ [])
    (he : segs₁.flatten = segs₂.flatten) :
    tucProgramLit regexOk argv segs₁ = tucProgramLit regexOk argv segs₂ :=
  tucProgramLit_chunk_independent regexOk argv segs₁ segs₂ h₁ (inDomain_of_flatten h₁ h₂ he) he

/-- … in particular it is what ONE read of the whole (non-empty) input gives -/
theorem tucProgramLit_one_read (regexOk : Arg → Bool) (argv : List Arg) (segs : List Bytes)
    (h : InDomain regexOk argv segs) (hne : segs.flatten ≠ []) :
    tucProgramLit regexOk argv segs = tucProgramLit regexOk argv [segs.flatten] :=
  tucProgramLit_chunk_independent' regexOk argv segs [segs.flatten] h
    (by intro s hs; rw [List.mem_singleton] at hs; subst hs; exact hne) (by simp)

/-- **(3) an end-to-end specification, transported**: field mode (`-f`, or no mode option), literal
    non-empty delimiter, any subset of `-g -p -s -t -z -m -j --no-join -r R --fallback-oob`, without
    `-e`, `-M`, `--json`: what the program made of the Rust statements writes to stdout, and its exit
    status, are the specification's `specRun` of the request on the input
    (`tuc_fields_eq_spec`) -/
theorem tucProgramLit_fields_eq_spec (regexOk : Arg → Bool) (hcre : regexOk charsRegexText = true) (K : Canon)
    (hK : K.accepted = true) (hmode : K.mode = .f ∨ K.mode = .dflt) (hd : K.d ≠ Option.some [])
    (he : K.e = none) (hM : K.mem = none) (hjson : K.json = false) (segs : List Bytes)
    (hdom : InDomain regexOk (canonArgv K) segs) :
    tucProgramLit regexOk (canonArgv K) segs = .run (Spec.specRun K.cfg segs.flatten) := by
  rw [tucProgramLit_eq regexOk _ segs hdom]
  exact tuc_fields_eq_spec regexOk hcre K hK hmode hd he hM hjson segs

/-- what `parse_args` answers on an accepted canonical command line (from the proof of
    `tucMain_canon`) -/
theorem parseArgv_canon_run (regexOk : Arg → Bool) (K : Canon) (hK : K.accepted = true)
    (hre : optAll regexOk K.e = true) (hcre : regexOk charsRegexText = true) :
    parseArgv regexOk (canonArgv K) = .run (optOf K.table) K.table.memKb.isSome K.table.regexText := by
  obtain ⟨hW, hc, _, hu⟩ := K.accepted_parts hK
  have hs := K.sensible regexOk hW hre hcre
  rw [parseArgv_canonArgv regexOk K hc hs, tableAnswer, hu]
  rfl

/-- the domain on an accepted canonical command line without `-c` and `-e`, in closed form -/
theorem inDomain_canon_plain (regexOk : Arg → Bool) (hcre : regexOk charsRegexText = true) (K : Canon)
    (hK : K.accepted = true) (hc : K.mode ≠ .c) (he : K.e = none) (segs : List Bytes) :
    InDomain regexOk (canonArgv K) segs ↔
      (∀ s ∈ segs, s ≠ []) ∧ inputFitsB (optOf K.table) segs.flatten = true := by
  have hp := parseArgv_canon_run regexOk K hK (by rw [he]; rfl) hcre
  rw [K.regexText_none hc he] at hp
  have hbt : (optOf K.table).boundsType ≠ .characters := by
    rw [K.optOf_boundsType]
    cases hm : K.mode <;> simp_all [boundsTypeOf]
  have hcb : compileBag (optOf K.table) none = Option.some none := by
    simp only [compileBag, hbt, if_false]
  exact inDomain_iff_of_run hp hcb segs (by simp [hbt])

/-- **`-b`, end to end, for the program made of the Rust statements**: every accepted canonical
    command line with `-b`, EVERY input in every segmentation into non-empty reads — no other
    hypothesis (`tuc_bytes_eq_spec`) -/
theorem tucProgramLit_bytes_eq_spec (regexOk : Arg → Bool) (hcre : regexOk charsRegexText = true) (K : Canon)
    (hK : K.accepted = true) (hmode : K.mode = .b) (he : K.e = none) (hM : K.mem = none)
    (segs : List Bytes) (hsegs : ∀ s ∈ segs, s ≠ []) :
    tucProgramLit regexOk (canonArgv K) segs = .run (Spec.specBytes K.cfg segs.flatten) := by
  have hdom : InDomain regexOk (canonArgv K) segs :=
    (inDomain_canon_plain regexOk hcre K hK (by rw [hmode]; decide) he segs).mpr
      ⟨hsegs, inputFitsB_of_bytes _ _ (by rw [K.optOf_boundsType, hmode]; rfl)⟩
  rw [tucProgramLit_eq regexOk _ segs hdom]
  exact tuc_bytes_eq_spec regexOk hcre K hK hmode he hM segs

/-- **`-M`, end to end, for the program made of the Rust statements**: as `tuc_fixedMemory_eq_spec`
    (accepted canonical command line that `StreamOpt::try_from` accepts, admissible records), every
    segmentation into non-empty reads — no other hypothesis -/
theorem tucProgramLit_fixedMemory_eq_spec (regexOk : Arg → Bool) (hcre : regexOk charsRegexText = true)
    (K : Canon) (hK : K.accepted = true) (hM : K.mem.isSome = true)
    (hst : (flagsOf K.table).streamOk = true) (segs : List Bytes) (hsegs : ∀ s ∈ segs, s ≠ [])
    (hadm : ∀ r ∈ records K.eol.byte segs.flatten,
      Admissible K.ubl.list (r.count K.delimiterByte + 1)) :
    tucProgramLit regexOk (canonArgv K) segs = .run (Spec.specRun K.cfg segs.flatten) := by
  obtain ⟨hmode, he⟩ := K.streamOk_facts hst
  have hc : K.mode ≠ .c := by rcases hmode with h | h <;> rw [h] <;> decide
  have hp := parseArgv_canon_run regexOk K hK (by rw [he]; rfl) hcre
  have hfm : (optOf K.table).fixedMemory.isSome = true := by
    rw [(parseArgv_run regexOk _ _ _ _ hp).2]; exact K.memKb_isSome hK hM
  have hdom : InDomain regexOk (canonArgv K) segs :=
    (inDomain_canon_plain regexOk hcre K hK hc he segs).mpr ⟨hsegs, inputFitsB_of_fixedMemory _ _ hfm⟩
  rw [tucProgramLit_eq regexOk _ segs hdom]
  exact tuc_fixedMemory_eq_spec regexOk hcre K hK hM hst segs hadm

/-! ## 10. non-vacuity: the program made of the Rust statements, by evaluation

`agree argv reads expected`: the reads are in the domain, `tucProgramLit` and `tucMain` both give
`expected`.  One line per engine and per way `main` can end. -/

def argvOf (l : List String) : List Arg := l.map String.toList
def bytesOf (s : String) : Bytes := s.toUTF8.toList
def readsOf (l : List String) : List Bytes := l.map bytesOf
def okS (s : String) : MainResult := .run (Run.ok (bytesOf s))
def yes : Arg → Bool := fun _ => true

def agreeB (argv : List Arg) (reads : List Bytes) (expected : MainResult) : Bool :=
  programFitsB yes argv reads
    && tucProgramLit yes argv reads == expected && tucMain yes argv reads == expected

def agree (argv : List String) (reads : List String) (expected : MainResult) : Bool :=
  agreeB (argvOf argv) (readsOf reads) expected

-- the general engine (`-r` keeps `FastOpt::try_from` from accepting): `for_byte_record` + `cut_str`
#guard agree ["-d", ":", "-f", "2,1", "-r", "-"] ["a:b", ":c\nx", ":y:z\n"] (okS "b-a\ny-x\n")
-- … `-z -g`, a record that straddles two reads, a final record without terminator
#guard agree ["-z", "-d", ":", "-f", "2", "-g"] ["a::b\x00c:", ":d"] (okS "b\x00d\x00")
-- … `cut_str` returns `Err` on the first record: nothing more is read
#guard agree ["-d", ":", "-f", "3", "-r", "-"] ["a:b\nc:d:e\n"] (.run Run.fail)
-- the fast lane: `for_byte_record` + `cut_str_fast_lane`
#guard agree ["-d", ":", "-f", "1,3"] ["a:b", ":c\nx", ":y:z\n"] (okS "ac\nxz\n")
#guard agree ["-d", ":", "-f", "2", "-s"] ["a:b\nc", "\nd:e"] (okS "b\ne\n")
-- `-M`: `StreamOpt::try_from`, `get_last_bound`, `cut_bytes_stream`
#guard agree ["-M", "1", "-d", ":", "-f", "1,3"] ["a:b", ":c\nx", ":y:z\n"] (okS "ac\nxz\n")
-- … refused by `StreamOpt::try_from` (exit 1, nothing read)
#guard agree ["-M", "1", "-f", "2", "-g"] ["a\n"] .reject
-- `-l`, line at a time: `read_line_with_eol` over `read_until` over `fill_buf`
#guard agree ["-l", "2:3"] ["a\nb", "b\nc\n", "d\n"] (okS "bb\nc\n")
#guard agree ["-l", "2:3", "-z"] ["a\x00b", "b\x00c\x00", "d\x00"] (okS "bb\x00c\x00")
-- … a line that is not UTF-8 (`line?`)
#guard agreeB (argvOf ["-l", "2:"]) [[97, 10, 255], [98, 10]] (.run Run.fail)
-- `-l`, buffered (`3,1` is not forward-only): `read_to_end` + `cut_str` on the whole input
#guard agree ["-l", "3,1"] ["a\nb", "b\nc\n", "d\n"] (okS "c\na\n")
#guard agreeB (argvOf ["-l", "2,1"]) [[97, 10, 255], [98, 10]] (.run Run.fail)
-- `-b`: `read_bytes_to_end` + `cut_bytes`
#guard agree ["-b", "2:3"] ["ab", "cd", "e"] (okS "bc")
-- `-c` (the `\b|\B` regex bag; a two-byte character split between two reads)
#guard agreeB (argvOf ["-c", "2:3"]) [[104, 195], [169, 108, 108, 111, 10, 119, 111, 114], [108, 100, 10]]
  (okS "él\nor\n")
-- `--json`
#guard agree ["-d", ":", "-f", "2:3", "--json"] ["a:b", ":c\nx", ":y:z\n"] (okS "[\"b\",\"c\"]\n[\"y\",\"z\"]\n")
-- `-e` (a regex of the modelled family), plain and greedy
#guard agree ["-e", "[:;]+", "-f", "2"] ["a:;b;", "c\nx", ";y\n"] (okS "b\ny\n")
-- a regex outside the modelled family: both say `unmodelled`
#guard agree ["-e", "[0-9]*", "-f", "2"] ["a1b\n"] .unmodelled
-- a rejected command line, help, version: nothing is read (and no condition on the reads)
#guard agree ["-f", "0"] ["a\n", ""] .reject
#guard agree ["--help"] ["", "a\n"] .help
#guard agree [] [] .help
#guard agree ["-V"] ["a\n"] .version
-- `-c` on input that is not UTF-8: `unmodelled` on both sides, whatever the reads
#guard agreeB (argvOf ["-c", "1"]) [[255], [], [10]] .unmodelled

/-- an instance of the capstone theorem (general engine, three reads) -/
example :
    tucProgramLit yes (argvOf ["-d", ":", "-f", "2,1", "-r", "-"]) (readsOf ["a:b", ":c\nx", ":y:z\n"]) =
      tucMain yes (argvOf ["-d", ":", "-f", "2,1", "-r", "-"]) (readsOf ["a:b", ":c\nx", ":y:z\n"]) :=
  tucProgramLit_eq _ _ _ (by decide +kernel)

/-- … and of the transported specification: `tuc -f 1,3 -d :` (`exFields`) on `a:b` + `:c⏎` -/
example : tucProgramLit (fun _ => true) (canonArgv exFields) [[97, 58, 98], [58, 99, 10]] =
    .run (Run.ok [97, 99, 10]) := by
  rw [tucProgramLit_fields_eq_spec (fun _ => true) rfl exFields (by decide +kernel) (Or.inl rfl) (by decide)
    rfl rfl rfl _ (by decide +kernel)]
  decide +kernel

/-- … `tuc -b 1:2` (`exBytes`) on the bytes `FF 00` + `0A 61` -/
example : tucProgramLit (fun _ => true) (canonArgv exBytes) [[255, 0], [10, 97]] = .run (Run.ok [255, 0]) := by
  rw [tucProgramLit_bytes_eq_spec (fun _ => true) rfl exBytes (by decide +kernel) rfl rfl rfl _ (by decide)]
  decide +kernel

/-! ## 11. the hypotheses cannot be dropped

### non-empty reads

An empty `fill_buf()` IS end of input for every loop of the Rust text (bstr io.rs:305, std
mod.rs:2266, `read` returning 0, stream.rs `'new_chunk`), whereas `tucMain` (`List.flatten`) does
not see an empty chunk: with an empty read in the middle every engine stops early.  The real
program cannot get there: `BufReader::fill_buf` returns an empty slice only at end of input. -/

def differ (argv : List String) (reads : List String) (lit model : MainResult) : Bool :=
  !programFitsB yes (argvOf argv) (readsOf reads)
    && tucProgramLit yes (argvOf argv) (readsOf reads) == lit
    && tucMain yes (argvOf argv) (readsOf reads) == model

#guard differ ["-d", ":", "-f", "2,1", "-r", "-"] ["a:b\nc:", "", "d\n"]
  (.run ⟨bytesOf "b-a\n-c\n", .fail⟩) (okS "b-a\nd-c\n")
#guard differ ["-d", ":", "-f", "2"] ["a:b\nc:", "", "d\n"] (.run ⟨bytesOf "b\n\n", .fail⟩) (okS "b\nd\n")
#guard differ ["-M", "1", "-d", ":", "-f", "2"] ["a:b\nc:", "", "d\n"] (okS "b\n\n") (okS "b\nd\n")
#guard differ ["-l", "2:3"] ["a\nb", "", "b\nc\n", "d\n"] (okS "b\nb\n") (okS "bb\nc\n")
#guard differ ["-l", "3,1"] ["a\nb", "", "b\nc\n", "d\n"] (.run Run.fail) (okS "c\na\n")
#guard differ ["-b", "2:3"] ["ab", "", "cd", "e"] (.run Run.fail) (okS "bc")

/-! ### fewer than 2³¹ fields per record (general engine), the `i32` counter (fast lane)

Records of 2 GiB cannot be evaluated; the component files prove, for one call, the AGREEMENT of `cut_str`
with the model on such a record for `tuc` without options (`CutStrLitProps.cutStrLit_eq_cutStr_oneOpen`:
since the repair of `try_into_range`, which computes in `i64`; until then the divergence
`cutStrLit_length_necessary`, "Out of bounds: 1", lifted here as `readAndCutStrWhole_length_necessary` /
`readAndCutStrWhole_ne_readAndCutStr_on_2GiB_record` — false now, see the commit history) and the
divergence of `cut_str_fast_lane` (`cutStrFastLaneLoop_overflow`: its `i32` field counter, which the
repair does not touch).  Here they are lifted through `for_byte_record` to the engines and — for the
fast lane — to the whole program. -/

theorem splitRecords_of_not_mem (t : UInt8) : ∀ (line cur : Bytes), t ∉ line →
    splitRecords t cur line = if (cur.isEmpty && line.isEmpty) = true then [] else [cur.reverse ++ line]
  | [], cur, _ => by cases cur <;> simp [splitRecords]
  | c :: tl, cur, h => by
    have hc : c ≠ t := fun e => h (by simp [e])
    have htl : t ∉ tl := fun e => h (List.mem_cons_of_mem _ e)
    rw [splitRecords, if_neg hc, splitRecords_of_not_mem t tl (c :: cur) htl]
    simp

/-- a non-empty input without terminator is one record -/
theorem records_single (t : UInt8) (line : Bytes) (h : t ∉ line) (hne : line ≠ []) :
    records t line = [line] := by
  unfold records
  rw [splitRecords_of_not_mem t line [] h]
  cases line with
  | nil => exact absurd rfl hne
  | cons _ _ => simp

/-- **`FieldsFit` is no longer needed by `tuc` without arguments (general engine)**: `read_and_cut_str`
    with `-f 1:`, TAB on an input that is ONE record, delivered in one read — 2³¹ fields and more
    included, where until the repair of `try_into_range` the statement-level engine returned `Err`
    ("Out of bounds: 1": `parts_length as i32` was negative; `readAndCutStrWhole_length_necessary` in
    the commit history) — computes what the model says. -/
theorem readAndCutStrWhole_eq_on_long_record (line : Bytes) (h10 : (10 : UInt8) ∉ line)
    (hne : line ≠ [])
    (h : (fillWithFieldsLocations [] line [9]).length < 9223372036854775808) :
    readAndCutStrWhole CutStrLitProps.optOneOpen [line] =
      readAndCutStr CutStrLitProps.optOneOpen line := by
  have hc := CutStrLitProps.cutStrLit_eq_cutStr_oneOpen line [] [] [10] h
  have hb : CutStrLitProps.optOneOpen.eol.byte = 10 := rfl
  unfold readAndCutStrWhole readAndCutStr
  have hsegs : ∀ s ∈ [line], s ≠ [] := by
    intro s hs; rw [List.mem_singleton] at hs; subst hs; exact hne
  simp only [ReadLoops.forByteRecordLoop_eq_records _ _ _ _ hsegs]
  have hf : [line].flatten = line := by simp
  rw [hf, hb, records_single 10 line h10 hne]
  simp only [foldRecords, cutStrLitClosure, hb, ReadLoops.stripSuffix_not_mem line 10 h10,
    Option.getD_none, hc, cutRecords, Run.seq_empty]
  split <;> rfl

/-- … for instance on the record made of 2³¹ − 1 TABs (2 GiB, 2³¹ empty fields) -/
theorem readAndCutStrWhole_eq_readAndCutStr_on_2GiB_record :
    ∃ line : Bytes, line.length = 2147483647 ∧
      (fillWithFieldsLocations [] line [9]).length = 2147483648 ∧
      readAndCutStrWhole CutStrLitProps.optOneOpen [line] =
        readAndCutStr CutStrLitProps.optOneOpen line :=
  ⟨List.replicate 2147483647 9, List.length_replicate, CutStrLitProps.fields_tabs _ (by omega),
    readAndCutStrWhole_eq_on_long_record _
      (by intro hm; have := List.eq_of_mem_replicate hm; cases this)
      (by intro e; have := congrArg List.length e; rw [List.length_replicate, List.length_nil] at this; omega)
      (by rw [CutStrLitProps.fields_tabs _ (by omega)]; omega)⟩

/-- **`CounterFits` cannot be dropped (fast lane)**: on an input that is one record with more
    delimiters than an `i32` can count, not trimmed and not stopped early, the statement-level
    `read_and_cut_text_as_bytes` panics (`curr_field += 1`, fast_lane.rs:52, debug build; the release
    build wraps around) -/
theorem readAndCutTextAsBytesWhole_overflow (fo : FastOpt) (line : Bytes) (hne : line ≠ [])
    (heol : fo.eol.byte ∉ line) (htrim : fo.trim = Option.none) (hlif : fo.bounds.lastInteresting = .cont)
    (hmany : i32Max < ((FastLoop.memchrIter fo.delimiter line).length : Int)) :
    readAndCutTextAsBytesWhole fo [line] = Run.panic := by
  have hsegs : ∀ s ∈ [line], s ≠ [] := by
    intro s hs; rw [List.mem_singleton] at hs; subst hs; exact hne
  rw [readAndCutTextAsBytesWhole_loop fo [line] hsegs]
  have hf : [line].flatten = line := by simp
  have hp := cutStrFastLaneLoop_overflow line fo [] htrim hmany
  unfold readAndCutTextAsBytesLoop
  rw [hf, records_single _ line heol hne, hlif]
  simp only [FastLoop.forByteRecord, hp]
  split <;> decide

theorem memchrIterFrom_replicate (c : UInt8) : ∀ (n i : Nat),
    (FastLoop.memchrIterFrom c i (List.replicate n c)).length = n
  | 0, _ => rfl
  | n + 1, i => by
    rw [List.replicate_succ, FastLoop.memchrIterFrom, if_pos rfl, List.length_cons,
      memchrIterFrom_replicate c n]

/-- the `Opt` that `parse_args` builds for `tuc -f 1:` -/
def optF1 : Opt :=
  { delimiter := [9],
    bounds := { list := [.bound { l := .some 1, r := .cont, isLast := true }], lastInteresting := .cont } }

/-- the `FastOpt` that `FastOpt::try_from` builds from it -/
def fastF1 : FastOpt :=
  { delimiter := 9, join := false, eol := .newline, bounds := optF1.bounds, onlyDelimited := false,
    trim := Option.none, fallbackOob := Option.none }

/-- **the domain of `tucProgramLit_eq` cannot be enlarged to all inputs**: `tuc -f 1:` on an input
    that is one record with 2³¹ TABs or more — the program made of the Rust statements panics (debug
    build: `attempt to add with overflow`, fast_lane.rs:52) … -/
theorem tucProgramLit_fast_overflow (line : Bytes) (hne : line ≠ []) (h10 : (10 : UInt8) ∉ line)
    (hmany : i32Max < ((FastLoop.memchrIter 9 line).length : Int)) :
    tucProgramLit yes [['-', 'f'], ['1', ':']] [line] = .run Run.panic := by
  have hp : parseArgv yes [['-', 'f'], ['1', ':']] = .run optF1 false Option.none := by rfl
  have hc : compileBag optF1 Option.none = Option.some Option.none := by rfl
  have ht : FastOptLit.tryFrom optF1 = .ok fastF1 := by rfl
  have hd : dispatchWhole optF1 [line] = Option.some (readAndCutTextAsBytesWhole fastF1 [line]) := by
    unfold dispatchWhole
    rw [ht]
    rfl
  unfold tucProgramLit
  rw [hp]
  show tucRunWhole optF1 Option.none [line] = _
  unfold tucRunWhole
  rw [hc]
  show (if (optF1.boundsType = .characters && !validUtf8 [line].flatten) = true then MainResult.unmodelled
        else MainResult.ofDispatch (dispatchWhole optF1 [line])) = _
  rw [if_neg (by simp [optF1]), hd,
    readAndCutTextAsBytesWhole_overflow fastF1 line hne h10 rfl rfl hmany]
  rfl

/-- … where `tucMain` does not (it never does: `tucMain_never_panics`) -/
theorem tucProgramLit_ne_tucMain_on_2GiB_record :
    ∃ line : Bytes, line.length = 2147483648 ∧
      tucProgramLit yes [['-', 'f'], ['1', ':']] [line] = .run Run.panic ∧
      tucProgramLit yes [['-', 'f'], ['1', ':']] [line] ≠ tucMain yes [['-', 'f'], ['1', ':']] [line] := by
  have hlit := tucProgramLit_fast_overflow (List.replicate 2147483648 9)
    (by intro e; have := congrArg List.length e; rw [List.length_replicate] at this; cases this)
    (by intro hm; have := List.eq_of_mem_replicate hm; cases this)
    (by unfold FastLoop.memchrIter; rw [memchrIterFrom_replicate]; decide)
  refine ⟨_, List.length_replicate, hlit, ?_⟩
  intro he
  rw [hlit] at he
  rcases (tucMain_never_panics yes _ _).2 Run.panic he.symm with h | h <;> cases h

end WholeLit
end Tuc
