import Tuc.Model.StreamLoop
import Tuc.Props.C04
import Tuc.Props.C10Stream
import Tuc.Props.C03Refine

/-!
# Tuc.Props.StreamLoop — the chunk loop of `cut_bytes_stream` refines to the tagged-byte machine

`Tuc.Model.StreamLoop` transcribes `cut_bytes_stream` (stream.rs:278-421) statement by statement:
`'new_line` / `'new_chunk`, `fill_buf`, `memchr2_iter`, the slices `chunk[chunk_part_start_idx..idx]`,
`consume`, every flag with its Rust name.  `Tuc.Model.Stream` — what C03, C04, C10, C11, C13, C14
are about — is a machine over bytes tagged "last byte of its chunk".  This file proves that they
are the same function of the option record and of the list of reads:

* `cutBytesStreamLoop_eq` — output **and** status, for all reads that are non-empty and all option
  records without negative indexes; `cutBytesStreamLoop_of_opt` / `readAndCutBytesStreamLoop_of_opt`
  — no hypothesis left for what `StreamOpt::try_from` accepts;
* `newChunk_eq` — the same from any point where `'new_chunk` is about to read, for any amount of
  fuel ≥ `fuelFor stdin` (`newChunk_fuel_irrelevant`: the fuel is not observable, `hang` never
  comes from it);
* as a by-product the checked operations of the literal model (`chunk[chunk_idx]`,
  `&chunk[a..b]`) never fail: the machine has no such panic and the two are equal.

Plan of the proof.
1. `skip` of the machine is a ghost variable: a state with `bof_idx = bounds.len()` whose field
   is the last interesting one behaves like the skip state (`streamRun_skip_irrel`); the look-ahead
   `memchr(eol, …)` is the machine walking to the EOL in skip mode (`streamRun_skip_scan_*`).
2. One chunk (`chunkRest_sim`): induction over the suffix of the chunk still to be scanned, with
   `chunk = pre ++ piece ++ suf`, `chunk_part_start_idx = bytes_to_consume = |pre|`, `piece` the
   machine's pending piece and the iterator at `memchr2IterFrom … (|pre| + |piece|) suf`.  Eight
   cases: empty record, EOL, delimiter (3: early stop with / without the EOL in the chunk, next
   field), ordinary byte (not last / last of the chunk → "remaining data"), end of the chunk.
3. The loops (`newChunk_eq`): strong induction on the fuel; an iteration of `'new_chunk` consumes
   at least one byte (`ConsumeOk`), `consume` on the model reader is `drop` on the tagged list.
4. `print_filler_or_fallbacks` is re-modelled from the Rust text; it is the existing definition
   when no index is negative (`printFillerOrFallbacksLit_eq`).

The executable comparison at the end of the file is independent of the proof.
-/

namespace Tuc
namespace StreamLoop

/-! ## the tagged-byte machine: facts used by the refinement -/

theorem ok_nil : Run.ok [] = Run.empty := rfl

theorem tagSegment_cons (c : UInt8) (t : Bytes) :
    tagSegment (c :: t) = (c, t.isEmpty) :: tagSegment t := by
  cases t <;> rfl

/-- past the end of the bounds `print_bof` does nothing -/
theorem printBof_at_end (o : StreamOpt) (k : Int) (tr : Bool) (p : Bytes) (fc : Bool) :
    printBof o o.bounds.length k tr p fc = Option.some ([], o.bounds.length) := by
  simp [printBof]

theorem endOfRecord_at_end (o : StreamOpt) (st : SState) (h : st.bofIdx = o.bounds.length) :
    endOfRecord o st = Run.ok [o.eol.byte] := by
  simp [endOfRecord, h, printBof_at_end, printFillerOrFallbacks, Run.seq, Run.empty, Run.ok]

/-- the canonical skip state -/
def skipState (o : StreamOpt) (k : Int) (started : Bool) : SState :=
  ⟨o.bounds.length, k, false, [], true, started⟩

/-- `skip` is a ghost variable: a state with `bof_idx = bounds.len()` whose field is the last
    interesting one behaves like the skip state, whatever `trunc` and the pending piece are -/
theorem streamRun_skip_irrel (o : StreamOpt) (l : List (UInt8 × Bool)) : ∀ st : SState,
    st.skip = false → st.bofIdx = o.bounds.length → Side.some st.currField = o.lastInterestingField →
    streamRun o st l = streamRun o (skipState o st.currField st.started) l := by
  induction l with
  | nil =>
    intro st hs hb hl
    obtain ⟨b, k, tr, p, sk, sd⟩ := st
    simp only at hs hb hl
    subst hs hb
    cases sd
    · simp [streamRun, streamEof, skipState]
    · cases p with
      | nil => simp [streamRun, streamEof, skipState, endOfRecord_at_end]
      | cons c p =>
        simp [streamRun, streamEof, skipState, endOfRecord_at_end, printBof_at_end, Run.seq, Run.ok]
  | cons x l ih =>
    obtain ⟨c, t⟩ := x
    intro st hs hb hl
    rw [streamRun_cons', streamRun_cons', streamStep_skip _ (skipState o st.currField st.started) _ _ rfl]
    by_cases hc : c = o.eol.byte
    · rw [streamStep_eol _ _ _ _ hs hc, if_pos hc, endOfRecord_at_end o st hb]
      split <;> rfl
    · rw [if_neg hc]
      by_cases hd : c = o.delimiter
      · rw [streamStep_delim_some _ _ _ _ hs hc hd [] o.bounds.length (by rw [hb]; exact printBof_at_end ..),
          if_pos hl]
        simp [printFillerOrFallbacks, Run.seq_ok, Run.pre, Run.empty, skipState]
      · cases t with
        | false =>
          rw [streamStep_ord_false _ _ _ hs hc hd]
          simp only [Run.empty_seq]
          exact (ih { st with piece := st.piece ++ [c], started := true } hs hb hl).trans rfl
        | true =>
          rw [streamStep_ord_true_some _ _ _ hs hc hd [] o.bounds.length (by rw [hb]; exact printBof_at_end ..)]
          have e : Run.ok [] = Run.empty := rfl
          rw [e, Run.empty_seq]
          exact (ih { st with bofIdx := o.bounds.length, trunc := true, piece := [], started := true }
            hs rfl hl).trans rfl

/-- the look-ahead `memchr(eol, &chunk[bytes_to_consume..])` found the EOL: the machine in skip
    mode gets there byte by byte -/
theorem streamRun_skip_scan_eol (o : StreamOpt) (k : Int) (rest : List (UInt8 × Bool)) :
    ∀ (suf : Bytes) (s : Bool) (i : Nat), memchr o.eol.byte suf = Option.some i →
    streamRun o (skipState o k s) (tagSegment suf ++ rest) =
      (Run.ok [o.eol.byte]).seq (streamRun o {} (tagSegment (suf.drop (i + 1)) ++ rest)) := by
  intro suf
  induction suf with
  | nil => intro s i h; simp [memchr] at h
  | cons c t ih =>
    intro s i h
    rw [tagSegment_cons, List.cons_append, streamRun_cons', streamStep_skip _ _ _ _ rfl]
    unfold memchr at h
    by_cases hc : c = o.eol.byte
    · rw [if_pos hc] at h
      cases h
      rw [if_pos hc]
      rfl
    · rw [if_neg hc] at h
      rw [if_neg hc]
      cases hm : memchr o.eol.byte t with
      | none => rw [hm] at h; cases h
      | some j =>
        rw [hm] at h
        cases h
        simp only [Run.empty_seq]
        exact ih true j hm

/-- … or did not find it: the rest of the chunk is skipped -/
theorem streamRun_skip_scan_none (o : StreamOpt) (k : Int) (rest : List (UInt8 × Bool)) :
    ∀ (suf : Bytes) (s : Bool), memchr o.eol.byte suf = none →
    streamRun o (skipState o k s) (tagSegment suf ++ rest) =
      streamRun o (skipState o k (s || !suf.isEmpty)) rest := by
  intro suf
  induction suf with
  | nil => intro s _; simp [tagSegment]
  | cons c t ih =>
    intro s h
    rw [tagSegment_cons, List.cons_append, streamRun_cons', streamStep_skip _ _ _ _ rfl]
    unfold memchr at h
    by_cases hc : c = o.eol.byte
    · rw [if_pos hc] at h; cases h
    · rw [if_neg hc] at h
      rw [if_neg hc]
      cases hm : memchr o.eol.byte t with
      | some j => rw [hm] at h; cases h
      | none =>
        simp only [Run.empty_seq]
        refine (ih true hm).trans ?_
        simp

/-! ## lists, slices, positions -/

theorem slice_mid (a b c : Bytes) : slice (a ++ b ++ c) a.length (a.length + b.length) = b := by
  simp [slice]

theorem getElem?_mid (a b : Bytes) (c : UInt8) (d : Bytes) :
    (a ++ b ++ c :: d)[a.length + b.length]? = Option.some c := by
  rw [← List.length_append, List.getElem?_append_right (Nat.le_refl _)]
  simp

theorem drop_mid (a b : Bytes) (c : UInt8) (d : Bytes) :
    (a ++ b ++ c :: d).drop (a.length + b.length + 1) = d := by
  have : a ++ b ++ c :: d = (a ++ b ++ [c]) ++ d := by simp
  rw [this, List.drop_left' (by simp; omega)]

theorem drop_min_length {α : Type} (l : List α) (i : Nat) : l.drop (min i l.length) = l.drop i := by
  by_cases h : i ≤ l.length
  · rw [Nat.min_eq_left h]
  · have h' : l.length ≤ i := by omega
    rw [Nat.min_eq_right h', List.drop_length, List.drop_eq_nil_of_le h']

/-- the wrapper around `printBof` on the slice `chunk[|pre| .. |pre| + |piece|]` -/
theorem printBofCall_mid_none (o : StreamOpt) (i : Nat) (k : Int) (pre piece suf : Bytes) (tr fc : Bool)
    (h : printBof o i k tr piece fc = none) :
    printBofCall o i k (pre ++ piece ++ suf) pre.length (pre.length + piece.length) tr fc =
      (Run.panic, i) := by
  unfold printBofCall
  rw [slice_mid, if_pos (by simp), h]

theorem printBofCall_mid_some (o : StreamOpt) (i : Nat) (k : Int) (pre piece suf : Bytes) (tr fc : Bool)
    (w : Bytes) (i' : Nat) (h : printBof o i k tr piece fc = Option.some (w, i')) :
    printBofCall o i k (pre ++ piece ++ suf) pre.length (pre.length + piece.length) tr fc =
      (Run.ok w, i') := by
  unfold printBofCall
  rw [slice_mid, if_pos (by simp), h]

/-- `tuc -M … -d - -f 1` -/
def exOptF1 : StreamOpt :=
  { delimiter := 0x2d, replaceDelimiter := none, join := false, eol := .newline,
    fallbackOob := none, bounds := [.bound { l := .some 1, r := .some 1, isLast := true }],
    lastInterestingField := .some 1 }

/-! ## `print_filler_or_fallbacks`: the Rust text against `printFillerOrFallbacks` -/

/-- `matches` is not an `Err` for a positive field number and sides that are not negative -/
theorem matches_ne_none (b : UserBounds) (k : Int) (hk : 1 ≤ k) (hl : b.l.isNeg = false)
    (hr : b.r.isNeg = false) : b.matches k ≠ none := by
  obtain ⟨l, r, il, fb⟩ := b
  cases l with
  | cont =>
    cases r with
    | cont => simp [UserBounds.matches]
    | some r =>
      simp only [Side.isNeg, decide_eq_false_iff_not] at hr
      have : oppSign r k = false := by
        simp only [oppSign, Bool.or_eq_false_iff, Bool.and_eq_false_iff, decide_eq_false_iff_not]
        omega
      simp [UserBounds.matches, this]
  | some l =>
    simp only [Side.isNeg, decide_eq_false_iff_not] at hl
    have hl' : oppSign l k = false := by
      simp only [oppSign, Bool.or_eq_false_iff, Bool.and_eq_false_iff, decide_eq_false_iff_not]
      omega
    cases r with
    | cont => simp [UserBounds.matches, hl']
    | some r =>
      simp only [Side.isNeg, decide_eq_false_iff_not] at hr
      have : oppSign r k = false := by
        simp only [oppSign, Bool.or_eq_false_iff, Bool.and_eq_false_iff, decide_eq_false_iff_not]
        omega
      simp [UserBounds.matches, hl', this]

/-- the literal `print_filler_or_fallbacks` is the existing one wherever `matches` is not an `Err` -/
theorem printFillerOrFallbacksLit_eq (o : StreamOpt) (k : Int) (hk : 1 ≤ k) : ∀ l : List BoF,
    hasNegativeIndices l = false →
    printFillerOrFallbacksLit o k l = printFillerOrFallbacks o k l := by
  intro l
  induction l with
  | nil => intro _; rfl
  | cons x t ih =>
    intro hn
    cases x with
    | filler f =>
      have ht : hasNegativeIndices t = false := by simpa [hasNegativeIndices, boundsOnly] using hn
      simp only [printFillerOrFallbacksLit, printFillerOrFallbacks, ih ht]
    | bound b =>
      simp only [hasNegativeIndices, boundsOnly, List.any_cons, Bool.or_eq_false_iff] at hn
      have ht : hasNegativeIndices t = false := hn.2
      have hm := matches_ne_none b k hk hn.1.1 hn.1.2
      cases hmk : b.matches k with
      | none => exact absurd hmk hm
      | some m =>
        by_cases hc : b.r = .cont
        · cases m <;> cases hfb : b.fallback <;> cases hfo : o.fallbackOob <;>
            simp [printFillerOrFallbacksLit, printFillerOrFallbacks, hmk, ih ht, hc, hfb, hfo]
        · cases hfb : b.fallback <;> cases hfo : o.fallbackOob <;>
            simp [printFillerOrFallbacksLit, printFillerOrFallbacks, hmk, ih ht, hc, hfb, hfo]

theorem hasNegativeIndices_drop (l : List BoF) (i : Nat) (h : hasNegativeIndices l = false) :
    hasNegativeIndices (l.drop i) = false := by
  induction i generalizing l with
  | zero => simpa using h
  | succ i ih =>
    cases l with
    | nil => simpa using h
    | cons x t =>
      rw [List.drop_succ_cons]
      apply ih
      cases x with
      | filler f => simpa [hasNegativeIndices, boundsOnly] using h
      | bound b =>
        simp only [hasNegativeIndices, boundsOnly, List.any_cons, Bool.or_eq_false_iff] at h
        exact h.2

/-- the difference is real outside that domain (`-f -1` is not a forward bound:
    `StreamOpt::try_from` rejects it): the Rust code reports "Out of bounds" (exit 1), the existing
    definition says `panic` -/
example : printFillerOrFallbacksLit exOptF1 1 [.bound { l := .some (-1), r := .some (-1) }] = Run.fail
    ∧ printFillerOrFallbacks exOptF1 1 [.bound { l := .some (-1), r := .some (-1) }] = Run.panic := by
  decide

theorem printFillerOrFallbacksCall_eq (o : StreamOpt) (i : Nat) (k : Int)
    (hneg : hasNegativeIndices o.bounds = false) (hk : 1 ≤ k) :
    printFillerOrFallbacksCall o i k = (printFillerOrFallbacks o k (o.bounds.drop i), o.bounds.length) := by
  unfold printFillerOrFallbacksCall
  rw [drop_min_length, printFillerOrFallbacksLit_eq o k hk _ (hasNegativeIndices_drop _ _ hneg)]

/-! ## the body of the `for` loop, case by case -/

theorem forBody_emptyRecord (o : StreamOpt) (chunk : Bytes) (idx : Nat) (v : Vars)
    (hc : chunk[idx]? = Option.some o.eol.byte) (h1 : v.currField = 1)
    (h2 : v.prevChunkMayBeTruncated = false) (h3 : v.chunkPartStartIdx = idx) :
    forBody o chunk idx v =
      (Run.ok [o.eol.byte], { v with eolReached := true, bytesToConsume := idx + 1 }, true) := by
  simp [forBody, hc, h1, h2, h3]

theorem forBody_eol (o : StreamOpt) (chunk : Bytes) (idx : Nat) (v : Vars)
    (hneg : hasNegativeIndices o.bounds = false) (hk : 1 ≤ v.currField)
    (hc : chunk[idx]? = Option.some o.eol.byte)
    (hne : ¬(v.currField = 1 ∧ v.prevChunkMayBeTruncated = false ∧ v.chunkPartStartIdx = idx)) :
    forBody o chunk idx v =
      ((printBofCall o v.bofIdx v.currField chunk v.chunkPartStartIdx idx v.prevChunkMayBeTruncated true).1.seq
        ((printFillerOrFallbacks o v.currField (o.bounds.drop
          (printBofCall o v.bofIdx v.currField chunk v.chunkPartStartIdx idx v.prevChunkMayBeTruncated true).2)).seq
          (Run.ok [o.eol.byte])),
       { v with eolReached := true, bytesToConsume := idx + 1, bofIdx := o.bounds.length,
                prevChunkMayBeTruncated := false, chunkPartStartIdx := idx + 1 }, true) := by
  have hne' : (v.currField == 1 && !v.prevChunkMayBeTruncated && v.chunkPartStartIdx == idx) = false := by
    cases h : (v.currField == 1 && !v.prevChunkMayBeTruncated && v.chunkPartStartIdx == idx) with
    | false => rfl
    | true => exact absurd (by simpa [and_assoc] using h) hne
  simp [forBody, hc, hne', printFillerOrFallbacksCall_eq o _ _ hneg hk]

theorem forBody_delim_stop_some (o : StreamOpt) (chunk : Bytes) (idx : Nat) (v : Vars) (c : UInt8)
    (hneg : hasNegativeIndices o.bounds = false) (hk : 1 ≤ v.currField)
    (hc : chunk[idx]? = Option.some c) (hce : c ≠ o.eol.byte)
    (hl : Side.some v.currField = o.lastInterestingField) (j : Nat)
    (hm : memchr o.eol.byte (chunk.drop (idx + 1)) = Option.some j) :
    forBody o chunk idx v =
      ((printBofCall o v.bofIdx v.currField chunk v.chunkPartStartIdx idx v.prevChunkMayBeTruncated true).1.seq
        ((printFillerOrFallbacks o v.currField (o.bounds.drop
          (printBofCall o v.bofIdx v.currField chunk v.chunkPartStartIdx idx v.prevChunkMayBeTruncated true).2)).seq
          (Run.ok [o.eol.byte])),
       { v with eolReached := true, bytesToConsume := idx + 1 + j + 1, bofIdx := o.bounds.length,
                prevChunkMayBeTruncated := false, chunkPartStartIdx := idx + 1 }, true) := by
  simp [forBody, hc, hce, hl, hm, printFillerOrFallbacksCall_eq o _ _ hneg hk]

theorem forBody_delim_stop_none (o : StreamOpt) (chunk : Bytes) (idx : Nat) (v : Vars) (c : UInt8)
    (hneg : hasNegativeIndices o.bounds = false) (hk : 1 ≤ v.currField)
    (hc : chunk[idx]? = Option.some c) (hce : c ≠ o.eol.byte)
    (hl : Side.some v.currField = o.lastInterestingField)
    (hm : memchr o.eol.byte (chunk.drop (idx + 1)) = none) :
    forBody o chunk idx v =
      ((printBofCall o v.bofIdx v.currField chunk v.chunkPartStartIdx idx v.prevChunkMayBeTruncated true).1.seq
        (printFillerOrFallbacks o v.currField (o.bounds.drop
          (printBofCall o v.bofIdx v.currField chunk v.chunkPartStartIdx idx v.prevChunkMayBeTruncated true).2)),
       { v with eolReached := false, bytesToConsume := idx + 1, bofIdx := o.bounds.length,
                prevChunkMayBeTruncated := false, chunkPartStartIdx := idx + 1 }, true) := by
  simp [forBody, hc, hce, hl, hm, printFillerOrFallbacksCall_eq o _ _ hneg hk]

theorem forBody_delim_cont (o : StreamOpt) (chunk : Bytes) (idx : Nat) (v : Vars) (c : UInt8)
    (hc : chunk[idx]? = Option.some c) (hce : c ≠ o.eol.byte)
    (hl : ¬ Side.some v.currField = o.lastInterestingField) :
    forBody o chunk idx v =
      ((printBofCall o v.bofIdx v.currField chunk v.chunkPartStartIdx idx v.prevChunkMayBeTruncated true).1,
       { v with eolReached := false, bytesToConsume := idx + 1,
                bofIdx := (printBofCall o v.bofIdx v.currField chunk v.chunkPartStartIdx idx
                            v.prevChunkMayBeTruncated true).2,
                prevChunkMayBeTruncated := false, chunkPartStartIdx := idx + 1,
                currField := v.currField + 1 }, false) := by
  simp [forBody, hc, hce, hl]

/-! ## "Handle remaining data in chunk", case by case -/

theorem remainingData_eol (o : StreamOpt) (chunk : Bytes) (v : Vars) (h : v.eolReached = true) :
    remainingData o chunk v = (Run.empty, v) := by
  simp [remainingData, h]

theorem remainingData_used (o : StreamOpt) (chunk : Bytes) (v : Vars) (h : v.eolReached = false)
    (hu : chunk.length ≤ v.bytesToConsume) :
    remainingData o chunk v = (Run.empty, { v with bytesToConsume := chunk.length }) := by
  have : ¬ v.bytesToConsume < chunk.length := by omega
  simp [remainingData, h, this]

theorem remainingData_unused (o : StreamOpt) (chunk : Bytes) (v : Vars) (h : v.eolReached = false)
    (hu : v.bytesToConsume < chunk.length) :
    remainingData o chunk v =
      ((printBofCall o v.bofIdx v.currField chunk v.chunkPartStartIdx chunk.length
          v.prevChunkMayBeTruncated false).1,
       { v with bofIdx := (printBofCall o v.bofIdx v.currField chunk v.chunkPartStartIdx chunk.length
                             v.prevChunkMayBeTruncated false).2,
                prevChunkMayBeTruncated := true, bytesToConsume := chunk.length }) := by
  simp [remainingData, h, hu]

/-! ## the `for` loop followed by the remaining data -/

/-- l.311-388 from the position the iterator is at -/
def chunkRest (o : StreamOpt) (chunk : Bytes) (iter : List Nat) (v : Vars) : Run × Vars :=
  ((forLoop o chunk iter v).1.seq (remainingData o chunk (forLoop o chunk iter v).2).1,
   (remainingData o chunk (forLoop o chunk iter v).2).2)

theorem chunkBody_eq (o : StreamOpt) (chunk : Bytes) (v : Vars) :
    chunkBody o chunk v =
      chunkRest o chunk (memchr2IterFrom o.delimiter o.eol.byte 0 chunk)
        { v with emptyLine := false, chunkPartStartIdx := 0, bytesToConsume := 0 } := rfl

theorem chunkRest_nil (o : StreamOpt) (chunk : Bytes) (v : Vars) :
    chunkRest o chunk [] v = remainingData o chunk v := by
  simp [chunkRest, forLoop]

theorem chunkRest_break (o : StreamOpt) (chunk : Bytes) (idx : Nat) (iter : List Nat) (v v' : Vars)
    (r : Run) (h : forBody o chunk idx v = (r, v', true)) :
    chunkRest o chunk (idx :: iter) v =
      (r.seq (remainingData o chunk v').1, (remainingData o chunk v').2) := by
  simp [chunkRest, forLoop, h]

theorem chunkRest_continue (o : StreamOpt) (chunk : Bytes) (idx : Nat) (iter : List Nat) (v v' : Vars)
    (r : Run) (h : forBody o chunk idx v = (r, v', false)) :
    chunkRest o chunk (idx :: iter) v =
      (r.seq (chunkRest o chunk iter v').1, (chunkRest o chunk iter v').2) := by
  simp [chunkRest, forLoop, h, Run.seq_assoc]

theorem printBofCall_at_end (o : StreamOpt) (k : Int) (chunk : Bytes) (a b : Nat) (tr fc : Bool)
    (h : a ≤ b ∧ b ≤ chunk.length) :
    printBofCall o o.bounds.length k chunk a b tr fc = (Run.ok [], o.bounds.length) := by
  unfold printBofCall
  rw [if_pos h, printBof_at_end]

theorem printBofCall_tail_none (o : StreamOpt) (i : Nat) (k : Int) (pre piece : Bytes) (tr fc : Bool)
    (h : printBof o i k tr piece fc = none) :
    printBofCall o i k (pre ++ piece) pre.length (pre ++ piece).length tr fc = (Run.panic, i) := by
  have := printBofCall_mid_none o i k pre piece [] tr fc h
  simpa using this

theorem printBofCall_tail_some (o : StreamOpt) (i : Nat) (k : Int) (pre piece : Bytes) (tr fc : Bool)
    (w : Bytes) (i' : Nat) (h : printBof o i k tr piece fc = Option.some (w, i')) :
    printBofCall o i k (pre ++ piece) pre.length (pre ++ piece).length tr fc = (Run.ok w, i') := by
  have := printBofCall_mid_some o i k pre piece [] tr fc w i' h
  simpa using this

/-! ## one chunk: the literal code against the machine -/

/-- what the tagged machine still has to do once the literal code is done with the chunk -/
def cont (o : StreamOpt) (chunk : Bytes) (rest : List (UInt8 × Bool)) (s : Bool) (v' : Vars) : Run :=
  if v'.eolReached then streamRun o {} (tagSegment (chunk.drop v'.bytesToConsume) ++ rest)
  else streamRun o ⟨v'.bofIdx, v'.currField, v'.prevChunkMayBeTruncated, [], false, s⟩ rest

/-- what `consume` needs to know -/
def ConsumeOk (chunk : Bytes) (x : Run × Vars) : Prop :=
  x.1.status = .ok →
    if x.2.eolReached then 1 ≤ x.2.bytesToConsume else x.2.bytesToConsume = chunk.length

theorem chunkRest_sim (o : StreamOpt) (hneg : hasNegativeIndices o.bounds = false) (chunk : Bytes)
    (rest : List (UInt8 × Bool)) :
    ∀ (suf pre piece : Bytes) (v : Vars) (s : Bool), 1 ≤ v.currField →
    chunk = pre ++ piece ++ suf → (suf = [] → piece = []) → v.eolReached = false →
    v.chunkPartStartIdx = pre.length → v.bytesToConsume = pre.length →
    streamRun o ⟨v.bofIdx, v.currField, v.prevChunkMayBeTruncated, piece, false, s⟩
        (tagSegment suf ++ rest) =
      (chunkRest o chunk (memchr2IterFrom o.delimiter o.eol.byte (pre.length + piece.length) suf) v).1.seq
        (cont o chunk rest (s || !suf.isEmpty)
          (chunkRest o chunk (memchr2IterFrom o.delimiter o.eol.byte (pre.length + piece.length) suf) v).2)
    ∧ ConsumeOk chunk
        (chunkRest o chunk (memchr2IterFrom o.delimiter o.eol.byte (pre.length + piece.length) suf) v) := by
  intro suf
  induction suf with
  | nil =>
    intro pre piece v s hk hch hp he hs hb
    have hp' := hp rfl
    subst hp'
    have hlen : chunk.length = pre.length := by simp [hch]
    rw [memchr2IterFrom, chunkRest_nil, remainingData_used o chunk v he (by omega)]
    constructor
    · simp [cont, he, tagSegment]
    · intro _
      simp [he]
  | cons c suf' ih =>
    intro pre piece v s hk hch hp he hs hb
    subst hch
    have hget := getElem?_mid pre piece c suf'
    have hdrop := drop_mid pre piece c suf'
    have hdrop' : List.drop (pre.length + piece.length + 1) (pre ++ (piece ++ c :: suf')) = suf' := by
      rw [← List.append_assoc]; exact hdrop
    rw [tagSegment_cons, List.cons_append, streamRun_cons']
    by_cases hc : c = o.eol.byte
    · -- EOL
      rw [memchr2IterFrom, if_pos (Or.inr hc), streamStep_eol _ _ _ _ rfl hc]
      subst hc
      by_cases hempty : v.currField = 1 ∧ v.prevChunkMayBeTruncated = false ∧ piece = []
      · obtain ⟨h1, h2, h3⟩ := hempty
        subst h3
        rw [chunkRest_break _ _ _ _ _ _ _ (forBody_emptyRecord o _ _ v hget h1 h2 (by simpa using hs)),
          remainingData_eol _ _ _ rfl]
        constructor
        · simp [cont, h1, h2]
        · intro _; simp
      · have hne : ¬(v.currField = 1 ∧ v.prevChunkMayBeTruncated = false ∧
            v.chunkPartStartIdx = pre.length + piece.length) := by
          intro ⟨h1, h2, h3⟩
          apply hempty
          refine ⟨h1, h2, ?_⟩
          have : piece.length = 0 := by omega
          exact List.eq_nil_of_length_eq_zero this
        rw [chunkRest_break _ _ _ _ _ _ _ (forBody_eol o _ _ v hneg hk hget hne), remainingData_eol _ _ _ rfl,
          if_neg (by simpa using hempty), hs]
        cases hpb : printBof o v.bofIdx v.currField v.prevChunkMayBeTruncated piece true with
        | none =>
          rw [printBofCall_mid_none _ _ _ _ _ _ _ _ hpb]
          simp [endOfRecord, hpb, Run.seq, Run.panic, ConsumeOk]
        | some x =>
          obtain ⟨w, i⟩ := x
          rw [printBofCall_mid_some _ _ _ _ _ _ _ _ _ _ hpb]
          constructor
          · simp [endOfRecord, hpb, cont, hdrop', Run.seq_assoc]
          · intro _; simp
    · by_cases hd : c = o.delimiter
      · -- delimiter
        rw [memchr2IterFrom, if_pos (Or.inl hd)]
        cases hpb : printBof o v.bofIdx v.currField v.prevChunkMayBeTruncated piece true with
        | none =>
          rw [streamStep_delim_none _ _ _ _ rfl hc hd hpb]
          by_cases hl : Side.some v.currField = o.lastInterestingField
          · cases hm : memchr o.eol.byte suf' with
            | none =>
              rw [chunkRest_break _ _ _ _ _ _ _
                (forBody_delim_stop_none o _ _ v c hneg hk hget hc hl (by rw [hdrop]; exact hm)), hs,
                printBofCall_mid_none _ _ _ _ _ _ _ _ hpb]
              simp [Run.seq, Run.panic, ConsumeOk]
            | some j =>
              rw [chunkRest_break _ _ _ _ _ _ _
                (forBody_delim_stop_some o _ _ v c hneg hk hget hc hl j (by rw [hdrop]; exact hm)), hs,
                printBofCall_mid_none _ _ _ _ _ _ _ _ hpb]
              simp [Run.seq, Run.panic, ConsumeOk]
          · rw [chunkRest_continue _ _ _ _ _ _ _ (forBody_delim_cont o _ _ v c hget hc hl), hs,
              printBofCall_mid_none _ _ _ _ _ _ _ _ hpb]
            simp [Run.seq, Run.panic, ConsumeOk]
        | some x =>
          obtain ⟨w, i⟩ := x
          rw [streamStep_delim_some _ _ _ _ rfl hc hd w i hpb]
          dsimp only
          by_cases hl : Side.some v.currField = o.lastInterestingField
          · rw [if_pos hl]
            have hsk : ({ bofIdx := o.bounds.length, currField := v.currField, skip := true,
                          started := true } : SState) = skipState o v.currField true := rfl
            dsimp only
            rw [hsk]
            cases hm : memchr o.eol.byte suf' with
            | some j =>
              rw [chunkRest_break _ _ _ _ _ _ _
                (forBody_delim_stop_some o _ _ v c hneg hk hget hc hl j (by rw [hdrop]; exact hm)), hs,
                printBofCall_mid_some _ _ _ _ _ _ _ _ _ _ hpb, remainingData_eol _ _ _ rfl,
                streamRun_skip_scan_eol o _ _ _ _ j hm]
              have hdd : List.drop (pre.length + piece.length + 1 + j + 1) (pre ++ piece ++ c :: suf') =
                  suf'.drop (j + 1) := by
                rw [show pre.length + piece.length + 1 + j + 1 = (pre.length + piece.length + 1) + (j + 1) by omega,
                  ← List.drop_drop, hdrop]
              constructor
              · simp only [cont, if_true]
                rw [hdd]
                simp [Run.seq_assoc]
              · intro _; simp
            | none =>
              rw [chunkRest_break _ _ _ _ _ _ _
                (forBody_delim_stop_none o _ _ v c hneg hk hget hc hl (by rw [hdrop]; exact hm)), hs,
                printBofCall_mid_some _ _ _ _ _ _ _ _ _ _ hpb, streamRun_skip_scan_none o _ _ _ _ hm]
              by_cases hsuf : suf' = []
              · subst hsuf
                rw [remainingData_used _ _ _ rfl (by simp; omega)]
                have key := streamRun_skip_irrel o rest ⟨o.bounds.length, v.currField, false, [], false, true⟩
                  rfl rfl hl
                constructor
                · simp [cont, key]
                · intro _; simp
              · have hlen : 0 < suf'.length := List.length_pos_iff.mpr hsuf
                rw [remainingData_unused _ _ _ rfl (by simp; omega)]
                dsimp only
                rw [printBofCall_at_end _ _ _ _ _ _ _ (by simp; omega)]
                have key := streamRun_skip_irrel o rest ⟨o.bounds.length, v.currField, true, [], false, true⟩
                  rfl rfl hl
                constructor
                · simp [cont, key, ok_nil]
                · intro _; simp
          · rw [if_neg hl]
            dsimp only
            rw [chunkRest_continue _ _ _ _ _ _ _ (forBody_delim_cont o _ _ v c hget hc hl), hs,
              printBofCall_mid_some _ _ _ _ _ _ _ _ _ _ hpb]
            dsimp only
            have hq : (pre ++ piece ++ [c]).length + ([] : Bytes).length =
                pre.length + piece.length + 1 := by simp; omega
            have ih' := ih (pre ++ piece ++ [c]) []
              { v with eolReached := false, bytesToConsume := pre.length + piece.length + 1, bofIdx := i,
                       prevChunkMayBeTruncated := false,
                       chunkPartStartIdx := pre.length + piece.length + 1,
                       currField := v.currField + 1 } true
              (by simp; omega) (by simp) (fun _ => rfl) rfl (by simp; omega) (by simp; omega)
            rw [hq] at ih'
            obtain ⟨ih1, ih2⟩ := ih'
            constructor
            · rw [Run.seq_assoc]
              congr 1
              simpa using ih1
            · intro hok
              exact ih2 (Run.seq_status_ok hok).2
      · -- an ordinary byte
        rw [memchr2IterFrom, if_neg (by simp [hc, hd])]
        cases suf' with
        | nil =>
          -- the last byte of the chunk: the partial field is flushed
          rw [memchr2IterFrom, chunkRest_nil, remainingData_unused _ _ _ he (by rw [hb]; simp), hs,
            List.isEmpty_nil, List.append_assoc]
          cases hpb : printBof o v.bofIdx v.currField v.prevChunkMayBeTruncated (piece ++ [c]) false with
          | none =>
            rw [streamStep_ord_true_none _ _ _ rfl hc hd hpb, printBofCall_tail_none _ _ _ _ _ _ _ hpb]
            simp [Run.seq, Run.panic, ConsumeOk]
          | some x =>
            obtain ⟨w, i⟩ := x
            rw [streamStep_ord_true_some _ _ _ rfl hc hd w i hpb, printBofCall_tail_some _ _ _ _ _ _ _ _ _ hpb]
            constructor
            · simp [cont, he, tagSegment]
            · intro _; simp [he]
        | cons c' suf'' =>
          rw [List.isEmpty_cons, streamStep_ord_false _ _ _ rfl hc hd]
          dsimp only
          rw [Run.empty_seq]
          have hq : pre.length + (piece ++ [c]).length = pre.length + piece.length + 1 := by simp; omega
          have ih' := ih pre (piece ++ [c]) v true hk (by simp) (fun h => by cases h) he hs hb
          rw [hq] at ih'
          obtain ⟨ih1, ih2⟩ := ih'
          constructor
          · simpa using ih1
          · exact ih2

/-! ## `eof` and `empty_line` are not touched inside a chunk -/

theorem forBody_keeps (o : StreamOpt) (chunk : Bytes) (idx : Nat) (v : Vars) :
    (forBody o chunk idx v).2.1.eof = v.eof ∧ (forBody o chunk idx v).2.1.emptyLine = v.emptyLine := by
  unfold forBody
  split
  · exact ⟨rfl, rfl⟩
  · dsimp only
    split
    · exact ⟨rfl, rfl⟩
    · split
      · exact ⟨rfl, rfl⟩
      · split
        · split <;> exact ⟨rfl, rfl⟩
        · exact ⟨rfl, rfl⟩

theorem forLoop_keeps (o : StreamOpt) (chunk : Bytes) (iter : List Nat) : ∀ v : Vars,
    (forLoop o chunk iter v).2.eof = v.eof ∧ (forLoop o chunk iter v).2.emptyLine = v.emptyLine := by
  induction iter with
  | nil => intro v; exact ⟨rfl, rfl⟩
  | cons idx iter ih =>
    intro v
    unfold forLoop
    dsimp only
    split
    · exact forBody_keeps o chunk idx v
    · have h1 := ih (forBody o chunk idx v).2.1
      have h2 := forBody_keeps o chunk idx v
      exact ⟨h1.1.trans h2.1, h1.2.trans h2.2⟩

theorem remainingData_keeps (o : StreamOpt) (chunk : Bytes) (v : Vars) :
    (remainingData o chunk v).2.eof = v.eof ∧ (remainingData o chunk v).2.emptyLine = v.emptyLine := by
  unfold remainingData
  split
  · dsimp only
    split <;> exact ⟨rfl, rfl⟩
  · exact ⟨rfl, rfl⟩

theorem chunkBody_keeps (o : StreamOpt) (chunk : Bytes) (v : Vars) :
    (chunkBody o chunk v).2.eof = v.eof ∧ (chunkBody o chunk v).2.emptyLine = false := by
  rw [chunkBody_eq]
  unfold chunkRest
  have h1 := remainingData_keeps o chunk (forLoop o chunk (memchr2IterFrom o.delimiter o.eol.byte 0 chunk)
    { v with emptyLine := false, chunkPartStartIdx := 0, bytesToConsume := 0 }).2
  have h2 := forLoop_keeps o chunk (memchr2IterFrom o.delimiter o.eol.byte 0 chunk)
    { v with emptyLine := false, chunkPartStartIdx := 0, bytesToConsume := 0 }
  exact ⟨h1.1.trans h2.1, h1.2.trans h2.2⟩

/-! ## `curr_field` only grows inside a chunk -/

theorem forBody_currField (o : StreamOpt) (chunk : Bytes) (idx : Nat) (v : Vars) :
    v.currField ≤ (forBody o chunk idx v).2.1.currField := by
  unfold forBody
  split
  · exact Int.le_refl _
  · dsimp only
    split
    · exact Int.le_refl _
    · split
      · exact Int.le_refl _
      · split
        · split <;> exact Int.le_refl _
        · show v.currField ≤ v.currField + 1
          omega

theorem forLoop_currField (o : StreamOpt) (chunk : Bytes) (iter : List Nat) : ∀ v : Vars,
    v.currField ≤ (forLoop o chunk iter v).2.currField := by
  induction iter with
  | nil => intro v; exact Int.le_refl _
  | cons idx iter ih =>
    intro v
    unfold forLoop
    dsimp only
    split
    · exact forBody_currField o chunk idx v
    · exact Int.le_trans (forBody_currField o chunk idx v) (ih _)

theorem remainingData_currField (o : StreamOpt) (chunk : Bytes) (v : Vars) :
    (remainingData o chunk v).2.currField = v.currField := by
  unfold remainingData
  split
  · dsimp only
    split <;> rfl
  · rfl

theorem chunkBody_currField (o : StreamOpt) (chunk : Bytes) (v : Vars) :
    v.currField ≤ (chunkBody o chunk v).2.currField := by
  rw [chunkBody_eq]
  unfold chunkRest
  rw [remainingData_currField]
  exact forLoop_currField o chunk _ _

/-! ## the reader -/

theorem tagSegments_cons (chunk : Bytes) (t : List Bytes) :
    tagSegments (chunk :: t) = tagSegment chunk ++ tagSegments t := by
  simp [tagSegments]

theorem consume_cons (n : Nat) (chunk : Bytes) (t : List Bytes) :
    consume n (chunk :: t) = if n < chunk.length then chunk.drop n :: t else t := rfl

theorem tagSegments_consume (n : Nat) (chunk : Bytes) (t : List Bytes) :
    tagSegments (consume n (chunk :: t)) = tagSegment (chunk.drop n) ++ tagSegments t := by
  rw [consume_cons]
  by_cases h : n < chunk.length
  · rw [if_pos h, tagSegments_cons]
  · rw [if_neg h, List.drop_eq_nil_of_le (by omega)]
    rfl

theorem totalBytes_consume (n : Nat) (chunk : Bytes) (t : List Bytes) (hn : 1 ≤ n) (hc : chunk ≠ []) :
    totalBytes (consume n (chunk :: t)) + 1 ≤ totalBytes (chunk :: t) := by
  have : 0 < chunk.length := List.length_pos_iff.mpr hc
  rw [consume_cons]
  by_cases h : n < chunk.length
  · rw [if_pos h]; simp [totalBytes]; omega
  · rw [if_neg h]; simp [totalBytes]; omega

theorem consume_nonempty (n : Nat) (stdin : List Bytes) (h : ∀ s ∈ stdin, s ≠ []) :
    ∀ s ∈ consume n stdin, s ≠ [] := by
  cases stdin with
  | nil => intro s hs; simp [consume] at hs
  | cons chunk t =>
    rw [consume_cons]
    by_cases hn : n < chunk.length
    · rw [if_pos hn]
      intro s hs
      rcases List.mem_cons.mp hs with rfl | hs
      · intro h0
        have := congrArg List.length h0
        simp at this
        omega
      · exact h s (List.mem_cons_of_mem _ hs)
    · rw [if_neg hn]
      intro s hs
      exact h s (List.mem_cons_of_mem _ hs)

theorem consume_all (chunk : Bytes) (t : List Bytes) : consume chunk.length (chunk :: t) = t := by
  simp [consume]

/-! ## one turn of `'new_chunk` -/

theorem whileStep_eof (o : StreamOpt) (v : Vars) (he : v.eolReached = false) (hf : v.eof = false) :
    whileStep o [] v =
      .leave (if v.emptyLine then { v with eof := true, eolReached := true } else { v with eof := true }) := by
  simp [whileStep, he, hf, fillBuf]

theorem whileStep_chunk (o : StreamOpt) (chunk : Bytes) (t : List Bytes) (v : Vars)
    (he : v.eolReached = false) (hf : v.eof = false) (hc : chunk ≠ []) :
    whileStep o (chunk :: t) v =
      .again (chunkBody o chunk v).1 (consume (chunkBody o chunk v).2.bytesToConsume (chunk :: t))
        (chunkBody o chunk v).2 := by
  simp [whileStep, he, hf, fillBuf, hc]

theorem whileStep_done (o : StreamOpt) (stdin : List Bytes) (v : Vars) (he : v.eolReached = true) :
    whileStep o stdin v = .leave v := by
  simp [whileStep, he]

theorem newChunk_succ (o : StreamOpt) (fuel : Nat) (stdin : List Bytes) (v : Vars) :
    newChunk o (fuel + 1) stdin v =
      match whileStep o stdin v with
      | .again r stdin' v' => r.seq (newChunk o fuel stdin' v')
      | .leave v' =>
        if (afterNewChunk o v').2 then (afterNewChunk o v').1
        else (afterNewChunk o v').1.seq (newChunk o fuel stdin (newLineVars v'.eof)) := rfl

/-- after an EOL (not at EOF) the next record starts with fresh variables -/
theorem newChunk_after_eol (o : StreamOpt) (fuel : Nat) (stdin : List Bytes) (v : Vars)
    (he : v.eolReached = true) (hf : v.eof = false) :
    newChunk o (fuel + 1) stdin v = newChunk o fuel stdin (newLineVars false) := by
  rw [newChunk_succ, whileStep_done _ _ _ he]
  simp [afterNewChunk, he, hf]

/-- "Handle EOF at end of line" -/
theorem newChunk_at_eof (o : StreamOpt) (hneg : hasNegativeIndices o.bounds = false) (fuel : Nat)
    (v : Vars) (hk : 1 ≤ v.currField) (he : v.eolReached = false) (hf : v.eof = false) :
    newChunk o (fuel + 1) [] v =
      streamEof o ⟨v.bofIdx, v.currField, v.prevChunkMayBeTruncated, [], false, !v.emptyLine⟩ := by
  rw [newChunk_succ, whileStep_eof _ _ he hf]
  cases hel : v.emptyLine
  · have hsl : slice ([] : Bytes) 0 0 = [] := rfl
    cases hpb : printBof o v.bofIdx v.currField v.prevChunkMayBeTruncated [] true with
    | none =>
      simp [afterNewChunk, he, printBofCall, hsl, hpb, streamEof, endOfRecord, Run.seq, Run.panic]
    | some x =>
      obtain ⟨w, i⟩ := x
      simp [afterNewChunk, he, printBofCall, hsl, hpb, printFillerOrFallbacksCall_eq o _ _ hneg hk, streamEof,
        endOfRecord]
  · simp [afterNewChunk, streamEof]

/-! ## the loops -/

/-- **The chunk loop is the tagged-byte machine**, from any point where `'new_chunk` is about to
    read (`eol_reached = false`, `eof = false`), for any amount of fuel from `fuelFor stdin` on. -/
theorem newChunk_eq (o : StreamOpt) (hneg : hasNegativeIndices o.bounds = false) :
    ∀ (fuel : Nat) (stdin : List Bytes) (v : Vars),
    (∀ s ∈ stdin, s ≠ []) → fuelFor stdin ≤ fuel → 1 ≤ v.currField → v.eolReached = false →
    v.eof = false →
    newChunk o fuel stdin v =
      streamRun o ⟨v.bofIdx, v.currField, v.prevChunkMayBeTruncated, [], false, !v.emptyLine⟩
        (tagSegments stdin) := by
  intro fuel
  induction fuel using Nat.strongRecOn with
  | _ fuel ih =>
    intro stdin v hne hfuel hk he hf
    cases fuel with
    | zero => simp [fuelFor] at hfuel
    | succ fuel =>
      cases stdin with
      | nil => exact newChunk_at_eof o hneg fuel v hk he hf
      | cons chunk t =>
        have hc : chunk ≠ [] := hne chunk (List.mem_cons_self ..)
        have hclen : 0 < chunk.length := List.length_pos_iff.mpr hc
        rw [newChunk_succ, whileStep_chunk _ _ _ _ he hf hc, tagSegments_cons]
        dsimp only
        have hsim := chunkRest_sim o hneg chunk (tagSegments t) chunk [] []
          { v with emptyLine := false, chunkPartStartIdx := 0, bytesToConsume := 0 } (!v.emptyLine)
          hk (by simp) (fun _ => rfl) he rfl rfl
        rw [show ([] : Bytes).length + ([] : Bytes).length = 0 from rfl, ← chunkBody_eq] at hsim
        obtain ⟨hrun, hcons⟩ := hsim
        have hkeep := chunkBody_keeps o chunk v
        refine Eq.trans ?_ hrun.symm
        by_cases hok : (chunkBody o chunk v).1.status = .ok
        · congr 1
          have hcons' := hcons hok
          unfold cont
          cases hel : (chunkBody o chunk v).2.eolReached with
          | true =>
            rw [hel] at hcons'
            simp only [if_true] at hcons' ⊢
            have htb := totalBytes_consume _ chunk t hcons' hc
            have hfuel' : 2 * totalBytes (chunk :: t) + 2 ≤ fuel + 1 := hfuel
            have htb1 : 1 ≤ totalBytes (chunk :: t) := by simp [totalBytes]; omega
            obtain ⟨fuel', rfl⟩ : ∃ f, fuel = f + 1 := ⟨fuel - 1, by omega⟩
            rw [newChunk_after_eol _ _ _ _ hel (hkeep.1.trans hf),
              ih fuel' (by omega) _ (newLineVars false) (consume_nonempty _ _ hne)
                (by unfold fuelFor; omega) (Int.le_refl 1) rfl rfl,
              tagSegments_consume]
            rfl
          | false =>
            rw [hel] at hcons'
            simp only [Bool.false_eq_true, if_false] at hcons' ⊢
            rw [hcons', consume_all,
              ih fuel (by omega) t _ (fun s hs => hne s (List.mem_cons_of_mem _ hs))
                (by unfold fuelFor at hfuel ⊢; simp [totalBytes] at hfuel; omega)
                (Int.le_trans hk (chunkBody_currField o chunk v)) hel (hkeep.1.trans hf),
              hkeep.2]
            have hce : chunk.isEmpty = false := by
              cases chunk with
              | nil => exact absurd rfl hc
              | cons _ _ => rfl
            simp [hce]
        · rw [Run.seq_of_not_ok _ _ hok, Run.seq_of_not_ok _ _ hok]

/-- **Refinement.**  The literal transcription of `cut_bytes_stream` and the tagged-byte machine
    deliver the same bytes and end with the same status, for every list of non-empty reads and
    every option record without negative indexes — nothing else is assumed about the bounds
    (adjacent fillers, unsorted or repeated bounds, any `is_last`) or about
    `last_interesting_field`.

    * `h` is the `BufRead` contract the code relies on: an empty `fill_buf()` *is* EOF for the
      Rust loop (l.297), whereas `tagSegments` silently drops an empty segment; the harness'
      `SegReader` never hands out an empty chunk before the end (`l.max(1)`).
    * `hneg` is one of the checks of `ForwardBounds::try_from` (`is_forward_only`, l.25), so it
      holds for everything `StreamOpt::try_from` accepts (`cutBytesStreamLoop_of_opt`).  It is
      needed for one reason only: l.255 of `print_filler_or_fallbacks` does not evaluate
      `matches` for a closed bound, `printFillerOrFallbacks` of `Tuc.Model.Stream` does
      (`printFillerOrFallbacksLit_eq`; the `example`s below show both hypotheses are needed). -/
theorem cutBytesStreamLoop_eq (o : StreamOpt) (segs : List Bytes) (h : ∀ s ∈ segs, s ≠ [])
    (hneg : hasNegativeIndices o.bounds = false) :
    cutBytesStreamLoop o segs = cutBytesStream o segs :=
  newChunk_eq o hneg _ segs (newLineVars false) h (Nat.le_refl _) (Int.le_refl 1) rfl rfl

/-- the fuel suffices: any larger amount gives the same run (so `Run.hang` is never an artefact
    of `fuelFor`) -/
theorem newChunk_fuel_irrelevant (o : StreamOpt) (segs : List Bytes) (h : ∀ s ∈ segs, s ≠ [])
    (hneg : hasNegativeIndices o.bounds = false) (fuel : Nat) (hfuel : fuelFor segs ≤ fuel) :
    newChunk o fuel segs (newLineVars false) = cutBytesStreamLoop o segs := by
  rw [cutBytesStreamLoop_eq o segs h hneg]
  exact newChunk_eq o hneg fuel segs (newLineVars false) h hfuel (Int.le_refl 1) rfl rfl

/-- the first hypothesis of `cutBytesStreamLoop_eq` is needed: an empty read in the middle is EOF
    for the loop, and is invisible to `tagSegments` -/
example : cutBytesStreamLoop exOptF1 [[], [0x61]] = Run.empty
    ∧ cutBytesStream exOptF1 [[], [0x61]] = Run.ok [0x61, 0x0a] := by
  decide

/-- a record of options `StreamOpt::try_from` cannot produce: the second bound is `-2:-1` -/
def exOptNeg : StreamOpt :=
  { exOptF1 with
      bounds := [.bound { l := .some 1, r := .some 1 }, .bound { l := .some (-2), r := .some (-1), isLast := true }],
      lastInterestingField := .some (-1) }

/-- the second hypothesis is needed too: on `"a\n"` the Rust text reaches l.255 with the closed
    bound `-2:-1`, does not call `matches`, and ends with "Out of bounds" (`Err`); the tagged-byte
    model (through `printFillerOrFallbacks`) says `panic` -/
example : cutBytesStreamLoop exOptNeg [[0x61, 0x0a]] = ⟨[0x61], .fail⟩
    ∧ cutBytesStream exOptNeg [[0x61, 0x0a]] = ⟨[0x61], .panic⟩ := by
  decide

/-! ## `read_and_cut_bytes_stream`: `get_last_bound().r` is the model's `lastInterestingField` -/

theorem lastBoundIdx_snoc (l : List BoF) (x : BoF) :
    lastBoundIdx (l ++ [x]) =
      match x with
      | .bound _ => Option.some l.length
      | .filler _ => lastBoundIdx l := by
  unfold lastBoundIdx
  rw [List.zipIdx_append, List.reverse_append, List.zipIdx_singleton]
  cases x <;> simp

theorem lastBoundIdx_get (l : List BoF) (i : Nat) (h : lastBoundIdx l = Option.some i) :
    ∃ b, l[i]? = Option.some (.bound b) := by
  unfold lastBoundIdx at h
  rw [Option.map_eq_some_iff] at h
  obtain ⟨⟨bof, j⟩, hf, hj⟩ := h
  simp only at hj
  subst hj
  have hp := List.find?_some hf
  have hm := List.mem_of_find?_eq_some hf
  rw [List.mem_reverse, List.mem_zipIdx_iff_getElem?] at hm
  cases bof with
  | bound b => exact ⟨b, hm⟩
  | filler f => simp at hp

theorem getLastBound_snoc_bound (l : List BoF) (b : UserBounds) :
    getLastBound (l ++ [.bound b]) = Option.some b := by
  unfold getLastBound
  rw [lastBoundIdx_snoc]
  simp

theorem getLastBound_snoc_filler (l : List BoF) (f : Bytes) :
    getLastBound (l ++ [.filler f]) = getLastBound l := by
  unfold getLastBound
  rw [lastBoundIdx_snoc]
  cases h : lastBoundIdx l with
  | none => rfl
  | some i =>
    obtain ⟨b, hb⟩ := lastBoundIdx_get l i h
    have hi : i < l.length := (List.getElem?_eq_some_iff.mp hb).1
    simp only
    rw [List.getElem?_append_left hi]

theorem boundsOnly_app (a b : List BoF) : boundsOnly (a ++ b) = boundsOnly a ++ boundsOnly b := by
  induction a with
  | nil => rfl
  | cons x a ih => cases x <;> simp [boundsOnly, ih]

theorem lastBoundRight_snoc (bs : List UserBounds) (b : UserBounds) :
    lastBoundRight (bs ++ [b]) = Option.some b.r := by
  induction bs with
  | nil => rfl
  | cons a bs ih =>
    cases bs with
    | nil => rfl
    | cons a' bs' => exact ih

theorem getLastBound_r_rev (r : List BoF) :
    (getLastBound r.reverse).map (·.r) = lastBoundRight (boundsOnly r.reverse) := by
  induction r with
  | nil => rfl
  | cons x r ih =>
    rw [List.reverse_cons, boundsOnly_app]
    cases x with
    | bound b => rw [getLastBound_snoc_bound]; exact (lastBoundRight_snoc _ b).symm
    | filler f =>
      rw [getLastBound_snoc_filler, ih]
      simp [boundsOnly]

/-- `opt.bounds.get_last_bound().r` (computed through `last_bound_idx`) is what `streamOptOf`
    stores in `lastInterestingField` -/
theorem getLastBound_r (l : List BoF) :
    (getLastBound l).map (·.r) = lastBoundRight (boundsOnly l) := by
  have := getLastBound_r_rev l.reverse
  rwa [List.reverse_reverse] at this

/-- `read_and_cut_bytes_stream`, literally, against the machine: for an option record whose
    `lastInterestingField` is the `r` of the last bound (what `streamOptOf` builds) -/
theorem readAndCutBytesStreamLoop_eq (o : StreamOpt) (segs : List Bytes) (h : ∀ s ∈ segs, s ≠ [])
    (hneg : hasNegativeIndices o.bounds = false)
    (hl : lastBoundRight (boundsOnly o.bounds) = Option.some o.lastInterestingField) :
    readAndCutBytesStreamLoop o segs = cutBytesStream o segs := by
  have hr := getLastBound_r o.bounds
  rw [hl] at hr
  unfold readAndCutBytesStreamLoop
  cases hg : getLastBound o.bounds with
  | none => rw [hg] at hr; simp at hr
  | some b =>
    rw [hg] at hr
    simp only [Option.map_some, Option.some.injEq] at hr
    simp only [hr]
    exact cutBytesStreamLoop_eq o segs h hneg

theorem streamOptOf_lastInteresting (opt : Opt) (o : StreamOpt) (h : streamOptOf opt = Option.some o) :
    lastBoundRight (boundsOnly o.bounds) = Option.some o.lastInterestingField := by
  unfold streamOptOf at h
  split at h
  · simp only at h
    split at h
    · simp at h
    · split at h
      · simp at h
      · split at h
        · simp at h
        · split at h
          · simp at h
          · rename_i hlast
            simp only [Option.some.injEq] at h
            subst h
            exact hlast
  · simp at h

theorem markLast_hasNegativeIndices (l : List BoF) : ∀ l', markLast l = Option.some l' →
    hasNegativeIndices l' = hasNegativeIndices l := by
  induction l with
  | nil => intro l' h; simp [markLast] at h
  | cons x t ih =>
    intro l' h
    cases x with
    | filler f =>
      simp only [markLast, Option.map_eq_some_iff] at h
      obtain ⟨t', ht', rfl⟩ := h
      have := ih t' ht'
      simpa [hasNegativeIndices, boundsOnly] using this
    | bound b =>
      simp only [markLast] at h
      cases hm : markLast t with
      | some t' =>
        rw [hm] at h
        simp only [Option.some.injEq] at h
        subst h
        have := ih t' hm
        simp only [hasNegativeIndices] at this
        simp [hasNegativeIndices, boundsOnly, this]
      | none =>
        rw [hm] at h
        simp only [Option.some.injEq] at h
        subst h
        simp [hasNegativeIndices, boundsOnly]

/-- what `StreamOpt::try_from(&opt)` accepts has no negative index (`is_forward_only`, l.25) -/
theorem streamOptOf_noNeg (opt : Opt) (o : StreamOpt) (h : streamOptOf opt = Option.some o) :
    hasNegativeIndices o.bounds = false := by
  obtain ⟨_, hneg, _, hml⟩ := forwardBoundsOf_facts _ _ (streamOptOf_bounds opt o h)
  rw [markLast_hasNegativeIndices _ _ hml]
  exact hneg

/-- **Refinement, for everything `StreamOpt::try_from(&opt)` accepts**: both hypotheses about the
    option record are discharged -/
theorem cutBytesStreamLoop_of_opt (opt : Opt) (o : StreamOpt) (ho : streamOptOf opt = Option.some o)
    (segs : List Bytes) (h : ∀ s ∈ segs, s ≠ []) :
    cutBytesStreamLoop o segs = cutBytesStream o segs :=
  cutBytesStreamLoop_eq o segs h (streamOptOf_noNeg opt o ho)

theorem readAndCutBytesStreamLoop_of_opt (opt : Opt) (o : StreamOpt) (ho : streamOptOf opt = Option.some o)
    (segs : List Bytes) (h : ∀ s ∈ segs, s ≠ []) :
    readAndCutBytesStreamLoop o segs = cutBytesStream o segs :=
  readAndCutBytesStreamLoop_eq o segs h (streamOptOf_noNeg opt o ho) (streamOptOf_lastInteresting opt o ho)

/-! ## concrete runs

Options built the way `main` builds them (`boundsListOfString`, `streamOptOf`), delimiter `-`.
Every expected value below is what the real code delivers for that input and that sequence of
reads (in-process harness, `SegReader`): `ok` = `Ok(())`, `fail` = `Err`. -/

/-- `tuc -M … -d - -f <bounds>` (+ `-j`, `-r`, `--fallback-oob`, `-z`) -/
def mkOpt (bounds : String) (join : Bool := false) (repl : Option Bytes := none)
    (fb : Option Bytes := none) (eol : EOL := .newline) : StreamOpt :=
  match boundsListOfString bounds.toList with
  | .ok l =>
    match streamOptOf { delimiter := [0x2d], bounds := l, join := join, replaceDelimiter := repl,
                        fallbackOob := fb, eol := eol } with
    | Option.some o => o
    | none => { exOptF1 with bounds := [] }
  | _ => { exOptF1 with bounds := [] }

/-- split `input` into reads of the given lengths (the rest, if any, is one more read) -/
def segsOf (l : Bytes) : List Nat → List Bytes
  | [] => if l.isEmpty then [] else [l]
  | n :: ns => if l.isEmpty then [] else l.take (max n 1) :: segsOf (l.drop (max n 1)) ns

/-- both models (and the literal `read_and_cut_bytes_stream`) on one case -/
def both (o : StreamOpt) (input : String) (seg : List Nat) (expected : Run) : Bool :=
  let segs := segsOf input.toUTF8.toList seg
  cutBytesStreamLoop o segs == expected && readAndCutBytesStreamLoop o segs == expected
    && cutBytesStream o segs == expected

def okS (s : String) : Run := Run.ok s.toUTF8.toList

-- EOL is the first byte of a chunk
#guard both (mkOpt "2") "a-b\nc-d\n" [3, 5] (okS "b\nd\n")
-- the delimiter is the last byte of a chunk
#guard both (mkOpt "1,2") "a-b\n" [2, 2] (okS "ab\n")
-- early stop, the EOL comes two chunks later
#guard both (mkOpt "2") "a-b-c-de\nf-g\n" [4, 3, 6] (okS "b\ng\n")
-- early stop, the EOL is in the same chunk (`memchr` finds it)
#guard both (mkOpt "1") "a-b-c\nd-e-f\n" [12] (okS "a\nd\n")
-- early stop at the end of a chunk, the next chunk starts with the EOL (the "empty record" branch
-- is taken although the record is not empty; nothing is left to print, so it does not show)
#guard both (mkOpt "1") "a-\nb\n" [2, 3] (okS "a\nb\n")
-- empty records, one per chunk and inside a chunk
#guard both (mkOpt "1") "\n\na\n\n" [1, 1, 3] (okS "\n\na\n\n")
-- last record without EOL
#guard both (mkOpt "2") "a-b\nc-d" [5, 2] (okS "b\nd\n")
-- EOF right after a delimiter: the last field is empty
#guard both (mkOpt "2") "a-" [2] (okS "\n")
-- -z: NUL ends the records, LF is an ordinary byte
#guard both (mkOpt "2" (eol := .zero)) "a-b\n\x00c-d\x00" [3, 2, 4] (okS "b\n\x00d\x00")
-- a field cut in three pieces, join and replaced delimiter
#guard both (mkOpt "1,2:3" (join := true) (repl := Option.some [0x2f])) "abc-def-g-h\n" [2, 3, 1, 3, 3]
  (okS "abc/def/g\n")
-- fillers and fallbacks at the EOL, byte by byte
#guard both (mkOpt "{1}x{3=fb}y") "a-b\nc\n" [1, 1, 1, 1, 1, 1] (okS "axfby\ncxfby\n")
-- out of bounds: `Err`, the first record has been written
#guard both (mkOpt "2") "a-b\nc\n" [4, 2] ⟨"b\n".toUTF8.toList, .fail⟩
-- open range to the end of the record over chunk borders
#guard both (mkOpt "2:") "a-b-c\nd-e" [3, 4, 2] (okS "b-c\ne\n")
-- generic fallback, byte by byte
#guard both (mkOpt "3" (fb := Option.some [0x46])) "a-b\n" [1, 1, 1, 1] (okS "F\n")

/-! ## exhaustive comparison on a small space

Independent of the proof (it runs the two definitions): every input up to 6 bytes over
`{a, -, LF}` × every segmentation × 14 option records the parser produces, the same with NUL as
a fourth letter up to 5 bytes for `-z`, and 7 hand-made option records nothing parses to
(adjacent fillers, negative sides whose `matches` is an `Err`, delimiter = EOL, no bounds,
`last_interesting_field` that is not the last bound's). -/

def wordsN (alpha : List UInt8) : Nat → List Bytes
  | 0 => [[]]
  | n + 1 => (wordsN alpha n).flatMap fun w => alpha.map fun c => c :: w

def wordsUpTo (alpha : List UInt8) (n : Nat) : List Bytes :=
  (List.range (n + 1)).flatMap (wordsN alpha)

/-- all the ways to cut `l` into non-empty reads -/
def segmentations : Bytes → List (List Bytes)
  | [] => [[]]
  | c :: t =>
    (segmentations t).flatMap fun s =>
      match s with
      | [] => [[[c]]]
      | h :: more => [(c :: h) :: more, [c] :: h :: more]

def optsParsed : List StreamOpt :=
  [ mkOpt "1", mkOpt "2", mkOpt "1,3", mkOpt "2:", mkOpt ":2", mkOpt "1:2,4" (join := true),
    mkOpt "{1}x{2}", mkOpt "x{2=fb}y", mkOpt "3" (fb := Option.some [0x46]),
    mkOpt "1,2" (join := true) (repl := Option.some [0x2f]), mkOpt "2,3:" (join := true),
    mkOpt "x{1}y{3}z" (fb := Option.some [0x46]), mkOpt "1" (eol := .zero), mkOpt "2" (eol := .zero) ]

/-- option records nothing parses to (the theorem does not need well-formed bounds) -/
def optsWild : List StreamOpt :=
  [ { exOptF1 with
        bounds := [.filler [0x78], .filler [0x79], .bound { l := .some 1, r := .some 1, isLast := true }] },
    { exOptF1 with
        join := true, fallbackOob := Option.some [0x46], lastInterestingField := .some 2,
        bounds := [.bound { l := .some 2, r := .some 2 }, .filler [0x79], .bound { l := .some 1, r := .some 3 }] },
    { exOptF1 with
        bounds := [.bound { l := .some (-1), r := .some (-1), isLast := true }],
        lastInterestingField := .some (-1) },
    { exOptF1 with
        fallbackOob := Option.some [0x46],
        bounds := [.bound { l := .some 1, r := .some 1 }, .bound { l := .some (-1), r := .cont, isLast := true }] },
    { exOptF1 with
        delimiter := 0x0a, fallbackOob := Option.some [0x46], lastInterestingField := .some 2,
        bounds := [.bound { l := .some 1, r := .some 2, isLast := true }] },
    { exOptF1 with
        bounds := [], lastInterestingField := .cont },
    { exOptF1 with
        bounds := [.bound { l := .some 1, r := .cont, isLast := true }] } ]

/-- number of (option, segmented input) pairs on which the two models differ -/
def disagreements (opts : List StreamOpt) (alpha : List UInt8) (n : Nat) : Nat :=
  (opts.map fun o =>
    ((wordsUpTo alpha n).map fun w =>
      ((segmentations w).filter fun s => cutBytesStreamLoop o s != cutBytesStream o s).length).sum).sum

def countCases (opts : List StreamOpt) (alpha : List UInt8) (n : Nat) : Nat :=
  opts.length * ((wordsUpTo alpha n).map fun w => (segmentations w).length).sum

-- every option text above parses and is accepted by `StreamOpt::try_from`
#guard optsParsed.all fun o => !o.bounds.isEmpty
#guard (segmentations [1, 2, 3]).length == 4
#guard countCases (optsParsed.filter (·.eol == .newline)) [0x61, 0x2d, 0x0a] 6 == 335928
#guard disagreements (optsParsed.filter (·.eol == .newline)) [0x61, 0x2d, 0x0a] 6 == 0
#guard countCases (optsParsed.filter (·.eol == .zero)) [0x61, 0x2d, 0x00, 0x0a] 5 == 37450
#guard disagreements (optsParsed.filter (·.eol == .zero)) [0x61, 0x2d, 0x00, 0x0a] 5 == 0
#guard countCases optsWild [0x61, 0x2d, 0x0a] 5 == 32662
#guard disagreements optsWild [0x61, 0x2d, 0x0a] 5 == 0

end StreamLoop
end Tuc
