import Tuc.Model.Argv
import Tuc.Model.Args
/-!
# C19 (argv layer) — `parse_args` over `pico_args`, on canonical command lines, is the decision table

`Tuc.Model.Argv` models `pico_args` and `parse_args` literally (and is tied to the real binary by
`tool/argv_diff.py`).  Here:

* `parseArgv_nil`, `parseArgv_total` (no `unwrap` of `parse_args` can fail), `parseArgv_reject_no_run`;
* the **simulation theorem** `Hom.parseWith`: `parse_args` commutes with any homomorphism of
  argument stores; instantiated twice — `pico_args` over the rendering of a well-formed list of
  option *groups* (`render`), and a table of options (`tableOf`) — it gives
  `parseArgv_render : parseArgv ok (render gs) = parseTable ok (tableOf gs)`;
* (c) `parseArgv_perm`: on canonical command lines the order of the option groups is irrelevant;
* (b) `parseTable_eq` / `parseArgv_canon`: on a canonical command line whose values parse
  (`Sensible`) `parse_args` answers `tableAnswer`: `reject` iff `upFrontReject (flagsOf t)` (the
  tests of `decision` that sit inside `parse_args`), otherwise `run (optOf t) ..` with the `Opt` in
  closed form; `streamOptOf_optOf` adds the `-M` eligibility test of `main`, and
  `parseArgv_canon_decision` (any order of the groups) / `parseArgv_canonArgv_decision` (the
  canonical command line `canonArgv K` of a `Flags`-like record `K`) conclude: the real parsing
  chain rejects up front iff `decision (flagsOf ..) = .reject` — `decision` being the model of
  `Tuc.Model.Args`, proved equal to the property's `conflict` list in `Tuc.Props.C19`.

Canonical = every option at most once, spelled with its first key (`-d`, `--json`), the value as a
separate argument, values and stray arguments not starting with `-`.  The last section lifts the
restriction for the values of `-f -c -b -l` (`-1=hello`, `-2:-1`; `parseArgv_canonB` and friends):
`parse_args` consumes them before it looks for `-h`, so their letters cannot be taken for a flag.
Everything else pico_args accepts (glued values, `=`, clusters, repeated options, other values
that look like options) is covered by the differential test only.
-/
namespace Tuc
set_option linter.constructorNameAsVariable false
/-! ## simulation -/

def Step.map {σ₁ σ₂ α : Type} (h : σ₂ → σ₁) : Step σ₂ α → Step σ₁ α
  | .done r => .done r
  | .next a s => .next a (h s)

/-- `m₁` started from `h s` does what `m₂` does from `s` -/
def Sim {σ₁ σ₂ α : Type} (h : σ₂ → σ₁) (m₁ : P σ₁ α) (m₂ : P σ₂ α) : Prop :=
  ∀ s, m₁ (h s) = Step.map h (m₂ s)

theorem Sim.bind {σ₁ σ₂ α β : Type} {h : σ₂ → σ₁} {m₁ : P σ₁ α} {m₂ : P σ₂ α}
    {f₁ : α → P σ₁ β} {f₂ : α → P σ₂ β} (hm : Sim h m₁ m₂) (hf : ∀ a, Sim h (f₁ a) (f₂ a)) :
    Sim h (m₁ >>= f₁) (m₂ >>= f₂) := by
  intro s
  show P.bind m₁ f₁ (h s) = Step.map h (P.bind m₂ f₂ s)
  unfold P.bind
  rw [hm s]
  cases m₂ s with
  | done r => rfl
  | next a s' => exact hf a s'

theorem Sim.pure {σ₁ σ₂ α : Type} {h : σ₂ → σ₁} (a : α) : Sim h (pure a : P σ₁ α) (pure a : P σ₂ α) :=
  fun _ => rfl

theorem Sim.exitIf {σ₁ σ₂ : Type} {h : σ₂ → σ₁} (c : Bool) (r : ArgvResult) :
    Sim h (P.exitIf c r : P σ₁ Unit) (P.exitIf c r) := by
  intro s; unfold P.exitIf; cases c <;> rfl

theorem Sim.unwrap {σ₁ σ₂ α : Type} {h : σ₂ → σ₁} (o : Option α) :
    Sim h (P.unwrap o : P σ₁ α) (P.unwrap o) := by
  intro s; unfold P.unwrap; cases o <;> rfl

theorem Sim.ite {σ₁ σ₂ α : Type} {h : σ₂ → σ₁} (c : Prop) [Decidable c] {a₁ b₁ : P σ₁ α} {a₂ b₂ : P σ₂ α}
    (ha : Sim h a₁ a₂) (hb : Sim h b₁ b₂) : Sim h (if c then a₁ else b₁) (if c then a₂ else b₂) := by
  by_cases hc : c <;> simp only [hc, if_true, if_false] <;> assumption

def usedFlagKeys : List Keys :=
  [kHelp, kGreedy, kJson, kJoin, kNoJoin, kComplement, kOnlyDelimited, kCompress, kVersion, kZero, kFallbackEq]

def usedValKeys : List Keys :=
  [kFields, kCharacters, kBytes, kLines, kDelimiter, kReplace, kFixedMemory, kRegex, kTrim, kFallback]

def mapOptValue {σ₁ σ₂ : Type} (h : σ₂ → σ₁) :
    Except PicoErr (Option (Arg × σ₂)) → Except PicoErr (Option (Arg × σ₁))
  | .error e => .error e
  | .ok none => .ok none
  | .ok (some (v, s)) => .ok (some (v, h s))

/-- `h` maps the states of `ops₂` to states of `ops₁` on which `ops₁` does the same -/
structure Hom {σ₁ σ₂ : Type} (ops₁ : Ops σ₁) (ops₂ : Ops σ₂) (h : σ₂ → σ₁) : Prop where
  isEmpty : ∀ s, ops₁.isEmpty (h s) = ops₂.isEmpty s
  contains : ∀ k ∈ usedFlagKeys, ∀ s,
    ops₁.contains k (h s) = ((ops₂.contains k s).1, h (ops₂.contains k s).2)
  optValue : ∀ k ∈ usedValKeys, ∀ s, ops₁.optValue k (h s) = mapOptValue h (ops₂.optValue k s)

section
variable {σ₁ σ₂ : Type} {ops₁ : Ops σ₁} {ops₂ : Ops σ₂} {h : σ₂ → σ₁}

theorem Hom.test (H : Hom ops₁ ops₂ h) : Sim h (P.test ops₁.isEmpty) (P.test ops₂.isEmpty) := by
  intro s; simp only [P.test, H.isEmpty, Step.map]

theorem Hom.flag (H : Hom ops₁ ops₂ h) (k : Keys) (hk : k ∈ usedFlagKeys) :
    Sim h (ops₁.flag k) (ops₂.flag k) := by
  intro s; simp only [Ops.flag, H.contains k hk, Step.map]

theorem Hom.value (H : Hom ops₁ ops₂ h) {α : Type} (k : Keys) (hk : k ∈ usedValKeys) (f : Arg → Res α) :
    Sim h (ops₁.value k f) (ops₂.value k f) := by
  intro s
  simp only [Ops.value, H.optValue k hk]
  cases hv : ops₂.optValue k s with
  | error e => rfl
  | ok o =>
    cases o with
    | none => rfl
    | some p =>
      obtain ⟨v, s'⟩ := p
      simp only [mapOptValue]
      cases f v <;> rfl

theorem Hom.fallbackOob (H : Hom ops₁ ops₂ h) : Sim h ops₁.fallbackOob ops₂.fallbackOob := by
  intro s
  simp only [Ops.fallbackOob, H.optValue kFallback (by decide)]
  cases hv : ops₂.optValue kFallback s with
  | error e =>
    cases e
    · simp only [mapOptValue, H.contains kFallbackEq (by decide), Step.map]
    · rfl
  | ok o =>
    cases o with
    | none => rfl
    | some p => obtain ⟨v, s'⟩ := p; rfl

/-- **`parse_args` commutes with a homomorphism of argument stores.** -/
theorem Hom.parseWith (H : Hom ops₁ ops₂ h) (regexOk : Arg → Bool) :
    Sim h (parseWith ops₁ regexOk) (parseWith ops₂ regexOk) := by
  unfold Tuc.parseWith
  repeat' first
    | exact Sim.pure _
    | exact Sim.exitIf _ _
    | exact Sim.unwrap _
    | exact H.test
    | exact H.fallbackOob
    | exact H.flag _ (by decide)
    | exact H.value _ (by decide) _
    | apply Sim.ite
    | apply Sim.bind
    | intro _
    | dsimp only
end

/-! ## canonical command lines: lists of option groups -/

inductive FlagId where
  | help | g | json | j | noJoin | m | s | p | V | z
  deriving DecidableEq, Repr

inductive ValId where
  | f | c | b | l | d | r | M | e | t | fallback
  deriving DecidableEq, Repr

def FlagId.keys : FlagId → Keys
  | .help => kHelp | .g => kGreedy | .json => kJson | .j => kJoin | .noJoin => kNoJoin
  | .m => kComplement | .s => kOnlyDelimited | .p => kCompress | .V => kVersion | .z => kZero

def ValId.keys : ValId → Keys
  | .f => kFields | .c => kCharacters | .b => kBytes | .l => kLines | .d => kDelimiter
  | .r => kReplace | .M => kFixedMemory | .e => kRegex | .t => kTrim | .fallback => kFallback

/-- the canonical spelling of an option: the first key (the short one when there is one) -/
def FlagId.tok (i : FlagId) : Arg := i.keys.first
def ValId.tok (i : ValId) : Arg := i.keys.first

/-- an option together with its value, or an argument that is no option -/
inductive Group where
  | flag (i : FlagId)
  | opt (i : ValId) (v : Arg)
  | extra (a : Arg)
  deriving DecidableEq, Repr

def Group.head : Group → Arg
  | .flag i => i.tok
  | .opt i _ => i.tok
  | .extra a => a

/-- each option as separate arguments: `-g`, `-d VALUE` -/
def Group.render : Group → List Arg
  | .flag i => [i.tok]
  | .opt i v => [i.tok, v]
  | .extra a => [a]

def render (gs : List Group) : List Arg := gs.flatMap Group.render

/-- the argument does not start with `-` -/
def noDash (a : Arg) : Bool := a.head? != some '-'

def Group.clean : Group → Bool
  | .flag _ => true
  | .opt _ v => noDash v
  | .extra a => noDash a

/-- canonical: every option at most once, values and stray arguments do not start with `-` -/
def WF (gs : List Group) : Prop := (gs.map Group.head).Nodup ∧ ∀ g ∈ gs, g.clean = true

def allTokens : List Arg :=
  [FlagId.help, .g, .json, .j, .noJoin, .m, .s, .p, .V, .z].map FlagId.tok ++
  [ValId.f, .c, .b, .l, .d, .r, .M, .e, .t, .fallback].map ValId.tok

theorem FlagId.tok_mem (i : FlagId) : i.tok ∈ allTokens := by cases i <;> decide
theorem ValId.tok_mem (i : ValId) : i.tok ∈ allTokens := by cases i <;> decide

/-- the argument is invisible to `contains(k)` -/
def missesFlag (k : Keys) (a : Arg) : Bool :=
  !(a == k.first) && (k.second.isEmpty || !(a == k.second)) &&
    (match k.first with
     | [_, flag] => !isClusterWith flag a
     | _ => true)

/-- the argument is invisible to `opt_value_from_str(k)` -/
def missesVal (k : Keys) (a : Arg) : Bool :=
  !(a == k.first) && !indexPredicate a k.first &&
    (k.second.isEmpty || (!(a == k.second) && !indexPredicate a k.second))

theorem tokens_miss_flag : ∀ k ∈ usedFlagKeys, ∀ t ∈ allTokens, t ≠ k.first → missesFlag k t = true := by
  decide +kernel

theorem tokens_miss_val : ∀ k ∈ usedValKeys, ∀ t ∈ allTokens, t ≠ k.first → missesVal k t = true := by
  decide +kernel

theorem keys_dash : ∀ k ∈ usedFlagKeys ++ usedValKeys,
    k.first.head? = some '-' ∧ (k.second = [] ∨ k.second.head? = some '-') := by
  decide +kernel

theorem flag_tok_ne_val_key : ∀ k ∈ usedValKeys, ∀ i : FlagId, i.tok ≠ k.first := by
  intro k hk i; cases i <;> revert k <;> decide +kernel

theorem val_tok_ne_flag_key : ∀ k ∈ usedFlagKeys, ∀ i : ValId, i.tok ≠ k.first := by
  intro k hk i; cases i <;> revert k <;> decide +kernel

theorem noDash_beq {a b : Arg} (ha : noDash a = true) (hb : b.head? = some '-') : (a == b) = false := by
  cases h : a == b with
  | false => rfl
  | true =>
    have : a = b := by simpa using h
    subst this
    simp [noDash, hb] at ha

theorem noDash_prefix {a p : Arg} (ha : noDash a = true) (hp : p.head? = some '-') :
    p.isPrefixOf a = false := by
  cases p with
  | nil => simp at hp
  | cons c p' =>
    simp only [List.head?_cons, Option.some.injEq] at hp
    subst hp
    cases a with
    | nil => rfl
    | cons d a' =>
      have hd : ('-' == d) = false := by
        cases h : '-' == d with
        | false => rfl
        | true =>
          have : '-' = d := by simpa using h
          subst this
          simp [noDash] at ha
      simp [List.isPrefixOf, hd]

theorem noDash_indexPredicate {a key : Arg} (ha : noDash a = true) (hk : key.head? = some '-') :
    indexPredicate a key = false := by
  simp only [indexPredicate, startsWithPlusEq, startsWithShortPrefix, noDash_prefix ha hk]
  simp

theorem noDash_cluster {a : Arg} (flag : Char) (ha : noDash a = true) : isClusterWith flag a = false := by
  have : ['-'].isPrefixOf a = false := noDash_prefix ha rfl
  simp [isClusterWith, this]

theorem clean_miss_flag (k : Keys) (hk : k ∈ usedFlagKeys) (a : Arg) (ha : noDash a = true) :
    missesFlag k a = true := by
  obtain ⟨h1, h2⟩ := keys_dash k (List.mem_append_left _ hk)
  have e1 := noDash_beq ha h1
  have e2 : (k.second.isEmpty || !(a == k.second)) = true := by
    rcases h2 with h2 | h2
    · simp [h2]
    · simp [noDash_beq ha h2]
  unfold missesFlag
  rw [e1, e2]
  split
  · simp [noDash_cluster _ ha]
  · rfl

theorem clean_miss_val (k : Keys) (hk : k ∈ usedValKeys) (a : Arg) (ha : noDash a = true) :
    missesVal k a = true := by
  obtain ⟨h1, h2⟩ := keys_dash k (List.mem_append_right _ hk)
  unfold missesVal
  rw [noDash_beq ha h1, noDash_indexPredicate ha h1]
  rcases h2 with h2 | h2
  · simp [h2]
  · simp [noDash_beq ha h2, noDash_indexPredicate ha h2]

/-! ### `pico_args` on an argument list with a known shape -/

theorem findIdx?_none_of_forall {α : Type} {p : α → Bool} {l : List α} (h : ∀ a ∈ l, p a = false) :
    l.findIdx? p = none := by
  rw [List.findIdx?_eq_none_iff]
  intro a ha; simp [h a ha]

theorem findIdx?_hit {α : Type} {p : α → Bool} {A B : List α} {x : α} (hA : ∀ a ∈ A, p a = false)
    (hx : p x = true) : (A ++ x :: B).findIdx? p = some A.length := by
  rw [List.findIdx?_append, findIdx?_none_of_forall hA, List.findIdx?_cons]
  simp [hx]

theorem eraseIdx_mid {α : Type} (A B : List α) (x : α) : (A ++ x :: B).eraseIdx A.length = A ++ B := by
  rw [List.eraseIdx_append_of_length_le (Nat.le_refl _)]
  simp

theorem getElem?_mid {α : Type} (A B : List α) (x : α) : (A ++ x :: B)[A.length]? = some x := by
  simp

theorem getElem?_mid_succ {α : Type} (A B : List α) (x y : α) :
    (A ++ x :: y :: B)[A.length + 1]? = some y := by
  rw [List.getElem?_append_right (by omega)]
  simp

theorem picoContains_miss (k : Keys) (args : List Arg)
    (h : ∀ a ∈ args, missesFlag k a = true) : picoContains k args = (false, args) := by
  have h1 : ∀ a ∈ args, (a == k.first) = false := by
    intro a ha; have := h a ha; simp only [missesFlag, Bool.and_eq_true, Bool.not_eq_true'] at this
    exact this.1.1
  have h2 : k.second.isEmpty = true ∨ ∀ a ∈ args, (a == k.second) = false := by
    cases hs : k.second.isEmpty with
    | true => exact Or.inl rfl
    | false =>
      right; intro a ha; have := h a ha
      simp only [missesFlag, hs, Bool.false_or, Bool.and_eq_true, Bool.not_eq_true'] at this
      exact this.1.2
  have hio : indexOf args k = none := by
    unfold indexOf indexOfKey
    rw [findIdx?_none_of_forall h1]
    rcases h2 with h2 | h2
    · simp [h2]
    · rw [findIdx?_none_of_forall h2]; simp
  unfold picoContains
  rw [hio]
  dsimp only
  split
  · rename_i x flag hk
    have h3 : ∀ a ∈ args, isClusterWith flag a = false := by
      intro a ha; have := h a ha
      simp only [missesFlag, hk, Bool.and_eq_true, Bool.not_eq_true'] at this
      exact this.2
    simp only [findIdx?_none_of_forall h3]
  · rfl

theorem picoContains_hit (k : Keys) (A B : List Arg) (hne : k.first ≠ [])
    (hA : ∀ a ∈ A, (a == k.first) = false) : picoContains k (A ++ k.first :: B) = (true, A ++ B) := by
  have hio : indexOf (A ++ k.first :: B) k = some (A.length, k.first) := by
    unfold indexOf indexOfKey
    rw [findIdx?_hit hA (by simp)]
    simp [hne]
  unfold picoContains
  rw [hio]
  simp only [eraseIdx_mid]

theorem picoOptValue_miss (k : Keys) (args : List Arg)
    (h : ∀ a ∈ args, missesVal k a = true) : picoOptValue k args = .ok none := by
  have h1 : ∀ a ∈ args, (a == k.first) = false ∧ indexPredicate a k.first = false := by
    intro a ha; have := h a ha
    simp only [missesVal, Bool.and_eq_true, Bool.not_eq_true'] at this
    exact ⟨this.1.1, this.1.2⟩
  have h2 : k.second.isEmpty = true ∨
      ∀ a ∈ args, (a == k.second) = false ∧ indexPredicate a k.second = false := by
    cases hs : k.second.isEmpty with
    | true => exact Or.inl rfl
    | false =>
      right; intro a ha; have := h a ha
      simp only [missesVal, hs, Bool.false_or, Bool.and_eq_true, Bool.not_eq_true'] at this
      exact this.2
  have hio : indexOf args k = none := by
    unfold indexOf indexOfKey
    rw [findIdx?_none_of_forall (fun a ha => (h1 a ha).1)]
    rcases h2 with h2 | h2
    · simp [h2]
    · rw [findIdx?_none_of_forall (fun a ha => (h2 a ha).1)]; simp
  have hio2 : indexOf2 args k = none := by
    unfold indexOf2 indexOf2Key
    rw [findIdx?_none_of_forall (fun a ha => (h1 a ha).2)]
    rcases h2 with h2 | h2
    · simp [h2]
    · rw [findIdx?_none_of_forall (fun a ha => (h2 a ha).2)]; simp
  unfold picoOptValue findValue
  rw [hio, hio2]

theorem picoOptValue_hit (k : Keys) (A B : List Arg) (v : Arg) (hne : k.first ≠ [])
    (hA : ∀ a ∈ A, (a == k.first) = false) :
    picoOptValue k (A ++ k.first :: v :: B) = .ok (some (v, A ++ B)) := by
  have hio : indexOf (A ++ k.first :: v :: B) k = some (A.length, k.first) := by
    unfold indexOf indexOfKey
    rw [findIdx?_hit hA (by simp)]
    simp [hne]
  unfold picoOptValue findValue
  rw [hio]
  simp only [getElem?_mid_succ, removeFound, eraseIdx_mid]
  simp

/-! ### the same operations on lists of groups -/

def Group.isFlagOf (k : Keys) : Group → Bool
  | .flag i => i.tok == k.first
  | _ => false

def Group.valOf (k : Keys) : Group → Option Arg
  | .opt i v => if i.tok == k.first then some v else none
  | _ => none

def grpContains (k : Keys) (gs : List Group) : Bool × List Group :=
  (gs.any (Group.isFlagOf k), gs.filter (fun g => !g.isFlagOf k))

def grpOptValue (k : Keys) (gs : List Group) : Except PicoErr (Option (Arg × List Group)) :=
  match gs.findSome? (Group.valOf k) with
  | none => .ok none
  | some v => .ok (some (v, gs.filter (fun g => (g.valOf k).isNone)))

theorem render_append (a b : List Group) : render (a ++ b) = render a ++ render b := by
  simp [render]

theorem render_cons (g : Group) (gs : List Group) : render (g :: gs) = g.render ++ render gs := by
  simp [render]

theorem mem_render {a : Arg} {gs : List Group} : a ∈ render gs ↔ ∃ g ∈ gs, a ∈ g.render := by
  simp [render]

theorem group_miss_flag (k : Keys) (hk : k ∈ usedFlagKeys) (g : Group) (hc : g.clean = true)
    (hh : g.head ≠ k.first) : ∀ a ∈ g.render, missesFlag k a = true := by
  intro a ha
  cases g with
  | flag i =>
    simp only [Group.render, List.mem_singleton] at ha; subst ha
    exact tokens_miss_flag k hk _ i.tok_mem hh
  | opt i v =>
    simp only [Group.render, List.mem_cons, List.not_mem_nil, or_false] at ha
    rcases ha with rfl | rfl
    · exact tokens_miss_flag k hk _ i.tok_mem hh
    · exact clean_miss_flag k hk _ hc
  | extra x =>
    simp only [Group.render, List.mem_singleton] at ha; subst ha
    exact clean_miss_flag k hk _ hc

theorem group_miss_val (k : Keys) (hk : k ∈ usedValKeys) (g : Group) (hc : g.clean = true)
    (hh : g.head ≠ k.first) : ∀ a ∈ g.render, missesVal k a = true := by
  intro a ha
  cases g with
  | flag i =>
    simp only [Group.render, List.mem_singleton] at ha; subst ha
    exact tokens_miss_val k hk _ i.tok_mem hh
  | opt i v =>
    simp only [Group.render, List.mem_cons, List.not_mem_nil, or_false] at ha
    rcases ha with rfl | rfl
    · exact tokens_miss_val k hk _ i.tok_mem hh
    · exact clean_miss_val k hk _ hc
  | extra x =>
    simp only [Group.render, List.mem_singleton] at ha; subst ha
    exact clean_miss_val k hk _ hc

theorem extra_head_ne (k : Keys) (hk : k ∈ usedFlagKeys ++ usedValKeys) (x : Arg) (hx : noDash x = true) :
    x ≠ k.first := by
  intro h
  have := noDash_beq hx (keys_dash k hk).1
  simp [h] at this

/-- a group that `contains(k)` does not take has another first argument -/
theorem head_ne_of_not_isFlagOf (k : Keys) (hk : k ∈ usedFlagKeys) (g : Group) (hc : g.clean = true)
    (h : g.isFlagOf k = false) : g.head ≠ k.first := by
  cases g with
  | flag i => simpa [Group.isFlagOf, Group.head] using h
  | opt i v => exact val_tok_ne_flag_key k hk i
  | extra x => exact extra_head_ne k (List.mem_append_left _ hk) x hc

theorem head_ne_of_valOf_none (k : Keys) (hk : k ∈ usedValKeys) (g : Group) (hc : g.clean = true)
    (h : g.valOf k = none) : g.head ≠ k.first := by
  cases g with
  | flag i => exact flag_tok_ne_val_key k hk i
  | opt i v =>
    simp only [Group.valOf] at h
    split at h
    · cases h
    · rename_i hne; simpa [Group.head] using hne
  | extra x => exact extra_head_ne k (List.mem_append_right _ hk) x hc

theorem isFlagOf_of_head_ne (k : Keys) (g : Group) (h : g.head ≠ k.first) : g.isFlagOf k = false := by
  cases g with
  | flag i => simpa [Group.isFlagOf, Group.head] using h
  | opt i v => rfl
  | extra x => rfl

theorem valOf_of_head_ne (k : Keys) (g : Group) (h : g.head ≠ k.first) : g.valOf k = none := by
  cases g with
  | flag i => rfl
  | opt i v =>
    have : (i.tok == k.first) = false := by simpa [Group.head] using h
    simp [Group.valOf, this]
  | extra x => rfl

theorem WF.split {pre post : List Group} {g : Group} (h : WF (pre ++ g :: post)) :
    (∀ g' ∈ pre, g'.head ≠ g.head) ∧ (∀ g' ∈ post, g'.head ≠ g.head) ∧
      (∀ g' ∈ pre, g'.clean = true) ∧ (∀ g' ∈ post, g'.clean = true) ∧ g.clean = true := by
  obtain ⟨hn, hc⟩ := h
  simp only [List.map_append, List.map_cons, List.nodup_append, List.nodup_cons, List.mem_map,
    List.mem_cons] at hn
  refine ⟨?_, ?_, ?_, ?_, ?_⟩
  · intro g' hg' heq
    exact hn.2.2 _ ⟨g', hg', rfl⟩ _ (Or.inl rfl) heq
  · intro g' hg' heq
    exact hn.2.1.1 ⟨g', hg', heq⟩
  · intro g' hg'; exact hc g' (by simp [hg'])
  · intro g' hg'; exact hc g' (by simp [hg'])
  · exact hc g (by simp)

theorem WF.filter {gs : List Group} (h : WF gs) (p : Group → Bool) : WF (gs.filter p) := by
  refine ⟨?_, fun g hg => h.2 g (List.mem_filter.mp hg).1⟩
  exact List.Nodup.sublist (List.Sublist.map _ List.filter_sublist) h.1

theorem filter_mid {α : Type} (p : α → Bool) (pre post : List α) (x : α) (hpre : ∀ a ∈ pre, p a = true)
    (hpost : ∀ a ∈ post, p a = true) (hx : p x = false) : (pre ++ x :: post).filter p = pre ++ post := by
  rw [List.filter_append, List.filter_cons, List.filter_eq_self.mpr hpre, List.filter_eq_self.mpr hpost]
  simp [hx]

/-- **`contains` on a canonical command line** looks the flag up and removes its group -/
theorem picoContains_render (k : Keys) (hk : k ∈ usedFlagKeys) (gs : List Group) (hwf : WF gs) :
    picoContains k (render gs) = ((grpContains k gs).1, render (grpContains k gs).2) := by
  have hne : k.first ≠ [] := by
    have := (keys_dash k (List.mem_append_left _ hk)).1
    intro h; simp [h] at this
  by_cases h : ∃ g ∈ gs, g.isFlagOf k = true
  · obtain ⟨g, hg, hgk⟩ := h
    obtain ⟨pre, post, rfl⟩ := List.append_of_mem hg
    obtain ⟨hpre, hpost, cpre, cpost, -⟩ := hwf.split
    cases g with
    | opt i v => simp [Group.isFlagOf] at hgk
    | extra x => simp [Group.isFlagOf] at hgk
    | flag i =>
      have hik : i.tok = k.first := by simpa [Group.isFlagOf] using hgk
      have e1 : render (pre ++ Group.flag i :: post) = render pre ++ k.first :: render post := by
        simp [render_append, render_cons, Group.render, hik]
      have hA : ∀ a ∈ render pre, (a == k.first) = false := by
        intro a ha
        obtain ⟨g', hg', hag'⟩ := mem_render.mp ha
        have hh : g'.head ≠ k.first := by rw [← hik]; exact hpre g' hg'
        have := group_miss_flag k hk g' (cpre g' hg') hh a hag'
        simp only [missesFlag, Bool.and_eq_true, Bool.not_eq_true'] at this
        exact this.1.1
      rw [e1, picoContains_hit k _ _ hne hA]
      have f1 : ∀ g' ∈ pre, (!g'.isFlagOf k) = true := by
        intro g' hg'; rw [isFlagOf_of_head_ne k g' (by rw [← hik]; exact hpre g' hg')]; rfl
      have f2 : ∀ g' ∈ post, (!g'.isFlagOf k) = true := by
        intro g' hg'; rw [isFlagOf_of_head_ne k g' (by rw [← hik]; exact hpost g' hg')]; rfl
      simp only [grpContains]
      rw [filter_mid _ pre post _ f1 f2 (by simp [hgk]), render_append]
      simp [hgk]
  · have hall : ∀ g ∈ gs, g.isFlagOf k = false := by
      intro g hg
      cases hq : g.isFlagOf k with
      | false => rfl
      | true => exact absurd ⟨g, hg, hq⟩ h
    have hmiss : ∀ a ∈ render gs, missesFlag k a = true := by
      intro a ha
      obtain ⟨g, hg, hag⟩ := mem_render.mp ha
      exact group_miss_flag k hk g (hwf.2 g hg) (head_ne_of_not_isFlagOf k hk g (hwf.2 g hg) (hall g hg)) a hag
    rw [picoContains_miss k _ hmiss]
    simp only [grpContains]
    have : gs.filter (fun g => !g.isFlagOf k) = gs :=
      List.filter_eq_self.mpr (fun g hg => by rw [hall g hg]; rfl)
    rw [this]
    have : gs.any (Group.isFlagOf k) = false := by
      rw [List.any_eq_false]; intro g hg; simp [hall g hg]
    rw [this]

theorem findSome?_mid {α β : Type} (f : α → Option β) (pre post : List α) (x : α) (b : β)
    (hpre : ∀ a ∈ pre, f a = none) (hx : f x = some b) : (pre ++ x :: post).findSome? f = some b := by
  rw [List.findSome?_append, List.findSome?_eq_none_iff.mpr hpre]
  simp [hx]

/-- **`opt_value_from_str` on a canonical command line** looks the option up and removes its group -/
theorem picoOptValue_render (k : Keys) (hk : k ∈ usedValKeys) (gs : List Group) (hwf : WF gs) :
    picoOptValue k (render gs) = mapOptValue render (grpOptValue k gs) := by
  have hne : k.first ≠ [] := by
    have := (keys_dash k (List.mem_append_right _ hk)).1
    intro h; simp [h] at this
  by_cases h : ∃ g ∈ gs, (g.valOf k).isSome = true
  · obtain ⟨g, hg, hgk⟩ := h
    obtain ⟨pre, post, rfl⟩ := List.append_of_mem hg
    obtain ⟨hpre, hpost, cpre, cpost, -⟩ := hwf.split
    cases g with
    | flag i => simp [Group.valOf] at hgk
    | extra x => simp [Group.valOf] at hgk
    | opt i v =>
      have hik : i.tok = k.first := by
        simp only [Group.valOf] at hgk
        split at hgk
        · rename_i hh; simpa using hh
        · simp at hgk
      have hval : (Group.opt i v).valOf k = some v := by simp [Group.valOf, hik]
      have e1 : render (pre ++ Group.opt i v :: post) = render pre ++ k.first :: v :: render post := by
        simp [render_append, render_cons, Group.render, hik]
      have hA : ∀ a ∈ render pre, (a == k.first) = false := by
        intro a ha
        obtain ⟨g', hg', hag'⟩ := mem_render.mp ha
        have hh : g'.head ≠ k.first := by rw [← hik]; exact hpre g' hg'
        have := group_miss_val k hk g' (cpre g' hg') hh a hag'
        simp only [missesVal, Bool.and_eq_true, Bool.not_eq_true'] at this
        exact this.1.1
      rw [e1, picoOptValue_hit k _ _ v hne hA]
      have n1 : ∀ g' ∈ pre, g'.valOf k = none := fun g' hg' =>
        valOf_of_head_ne k g' (by rw [← hik]; exact hpre g' hg')
      have n2 : ∀ g' ∈ post, g'.valOf k = none := fun g' hg' =>
        valOf_of_head_ne k g' (by rw [← hik]; exact hpost g' hg')
      simp only [grpOptValue]
      rw [findSome?_mid _ pre post _ v n1 hval]
      rw [filter_mid _ pre post _ (fun g' hg' => by simp [n1 g' hg']) (fun g' hg' => by simp [n2 g' hg'])
        (by simp [hval])]
      simp [mapOptValue, render_append]
  · have hall : ∀ g ∈ gs, g.valOf k = none := by
      intro g hg
      cases hq : g.valOf k with
      | none => rfl
      | some v => exact absurd ⟨g, hg, by simp [hq]⟩ h
    have hmiss : ∀ a ∈ render gs, missesVal k a = true := by
      intro a ha
      obtain ⟨g, hg, hag⟩ := mem_render.mp ha
      exact group_miss_val k hk g (hwf.2 g hg) (head_ne_of_valOf_none k hk g (hwf.2 g hg) (hall g hg)) a hag
    rw [picoOptValue_miss k _ hmiss]
    simp only [grpOptValue]
    rw [List.findSome?_eq_none_iff.mpr hall]
    rfl

theorem render_isEmpty (gs : List Group) : (render gs).isEmpty = gs.isEmpty := by
  cases gs with
  | nil => rfl
  | cons g gs => cases g <;> simp [render_cons, Group.render]

/-! ### level 1: well-formed group lists as an argument store -/

def WFG : Type := { gs : List Group // WF gs }

def grpOps : Ops WFG where
  isEmpty s := s.1.isEmpty
  contains k s := ((grpContains k s.1).1, ⟨(grpContains k s.1).2, s.2.filter _⟩)
  optValue k s :=
    match s.1.findSome? (Group.valOf k) with
    | none => .ok none
    | some v => .ok (some (v, ⟨s.1.filter (fun g => (g.valOf k).isNone), s.2.filter _⟩))

theorem hom_pico_grp : Hom picoOps grpOps (fun s : WFG => render s.1) where
  isEmpty s := render_isEmpty s.1
  contains k hk s := picoContains_render k hk s.1 s.2
  optValue k hk s := by
    show picoOptValue k (render s.1) = _
    rw [picoOptValue_render k hk s.1 s.2]
    simp only [grpOptValue, grpOps]
    cases s.1.findSome? (Group.valOf k) <;> rfl

/-! ### level 2: a table of options -/

structure Table where
  flag : FlagId → Bool
  val : ValId → Option Arg
  extra : Bool

def Table.clearFlag (t : Table) (i : FlagId) : Table :=
  { t with flag := fun j => if j = i then false else t.flag j }

def Table.clearVal (t : Table) (i : ValId) : Table :=
  { t with val := fun j => if j = i then none else t.val j }

def allFlagIds : List FlagId := [.help, .g, .json, .j, .noJoin, .m, .s, .p, .V, .z]
def allValIds : List ValId := [.f, .c, .b, .l, .d, .r, .M, .e, .t, .fallback]

def flagIdOf (k : Keys) : Option FlagId := allFlagIds.find? (fun i => i.tok == k.first)
def valIdOf (k : Keys) : Option ValId := allValIds.find? (fun i => i.tok == k.first)

def Table.isEmpty (t : Table) : Bool :=
  allFlagIds.all (fun i => !t.flag i) && allValIds.all (fun i => (t.val i).isNone) && !t.extra

def tableOps : Ops Table where
  isEmpty := Table.isEmpty
  contains k t :=
    match flagIdOf k with
    | some i => (t.flag i, t.clearFlag i)
    | none => (false, t)
  optValue k t :=
    match valIdOf k with
    | some i =>
      match t.val i with
      | some v => .ok (some (v, t.clearVal i))
      | none => .ok none
    | none => .ok none

def Group.isExtra : Group → Bool
  | .extra _ => true
  | _ => false

def Group.optVal (i : ValId) : Group → Option Arg
  | .opt j v => if j = i then some v else none
  | _ => none

def tableOf (gs : List Group) : Table where
  flag i := gs.any (· == .flag i)
  val i := gs.findSome? (Group.optVal i)
  extra := gs.any Group.isExtra

/-- what `parse_args` makes of a table of options -/
def parseTable (regexOk : Arg → Bool) (t : Table) : ArgvResult := (parseWith tableOps regexOk t).result

theorem FlagId.tok_inj (a b : FlagId) (h : a.tok = b.tok) : a = b := by
  revert h; cases a <;> cases b <;> decide +kernel

theorem ValId.tok_inj (a b : ValId) (h : a.tok = b.tok) : a = b := by
  revert h; cases a <;> cases b <;> decide +kernel

theorem FlagId.mem_all (i : FlagId) : i ∈ allFlagIds := by cases i <;> decide
theorem ValId.mem_all (i : ValId) : i ∈ allValIds := by cases i <;> decide

theorem flagIdOf_some {k : Keys} {i : FlagId} (h : flagIdOf k = some i) : i.tok = k.first := by
  have := List.find?_some h
  simpa using this

theorem flagIdOf_none {k : Keys} (h : flagIdOf k = none) (i : FlagId) : (i.tok == k.first) = false := by
  have := List.find?_eq_none.mp h i i.mem_all
  simpa using this

theorem valIdOf_some {k : Keys} {i : ValId} (h : valIdOf k = some i) : i.tok = k.first := by
  have := List.find?_some h
  simpa using this

theorem valIdOf_none {k : Keys} (h : valIdOf k = none) (i : ValId) : (i.tok == k.first) = false := by
  have := List.find?_eq_none.mp h i i.mem_all
  simpa using this

theorem isFlagOf_eq {k : Keys} {i : FlagId} (h : i.tok = k.first) (g : Group) :
    g.isFlagOf k = (g == .flag i) := by
  cases g with
  | flag i' =>
    simp only [Group.isFlagOf, ← h]
    by_cases e : i' = i
    · subst e; simp
    · have h1 : i'.tok ≠ i.tok := fun he => e (FlagId.tok_inj _ _ he)
      have h2 : Group.flag i' ≠ Group.flag i := fun hh => e (by cases hh; rfl)
      rw [beq_eq_false_iff_ne.mpr h1, beq_eq_false_iff_ne.mpr h2]
  | opt i' v => simp [Group.isFlagOf]
  | extra x => simp [Group.isFlagOf]

theorem valOf_eq {k : Keys} {i : ValId} (h : i.tok = k.first) (g : Group) : g.valOf k = g.optVal i := by
  cases g with
  | flag i' => rfl
  | opt i' v =>
    simp only [Group.valOf, Group.optVal, ← h]
    by_cases e : i' = i
    · subst e; simp
    · have : i'.tok ≠ i.tok := fun he => e (ValId.tok_inj _ _ he)
      simp [this, e]
  | extra x => rfl

theorem findSome?_filter {α β : Type} (f : α → Option β) (p : α → Bool) (l : List α)
    (h : ∀ a, p a = false → f a = none) : (l.filter p).findSome? f = l.findSome? f := by
  induction l with
  | nil => rfl
  | cons a l ih =>
    rw [List.filter_cons]
    cases hp : p a with
    | true => simp only [if_true, List.findSome?_cons, ih]
    | false => simp [h a hp, ih]

theorem tableOf_filter_flag (gs : List Group) (i : FlagId) :
    tableOf (gs.filter (fun g => !(g == Group.flag i))) = (tableOf gs).clearFlag i := by
  simp only [tableOf, Table.clearFlag, Table.mk.injEq]
  refine ⟨?_, ?_, ?_⟩
  · funext i'
    rw [List.any_filter]
    by_cases e : i' = i
    · subst e; simp
    · simp only [e, if_false]
      congr 1; funext g
      cases hg : g == Group.flag i' with
      | false => simp
      | true =>
        have : g = Group.flag i' := by simpa using hg
        subst this
        simp [e]
  · funext i'
    apply findSome?_filter
    intro g hg
    have : g = Group.flag i := by simpa using hg
    subst this; rfl
  · rw [List.any_filter]
    congr 1; funext g
    cases g <;> simp [Group.isExtra]

theorem tableOf_filter_val (gs : List Group) (i : ValId) :
    tableOf (gs.filter (fun g => (g.optVal i).isNone)) = (tableOf gs).clearVal i := by
  simp only [tableOf, Table.clearVal, Table.mk.injEq]
  refine ⟨?_, ?_, ?_⟩
  · funext i'
    rw [List.any_filter]
    congr 1; funext g
    cases g <;> simp [Group.optVal]
  · funext i'
    by_cases e : i' = i
    · subst e
      simp only [if_true]
      rw [List.findSome?_eq_none_iff]
      intro g hg
      have := (List.mem_filter.mp hg).2
      simpa using this
    · simp only [e, if_false]
      apply findSome?_filter
      intro g hg
      cases g with
      | flag j => rfl
      | extra x => rfl
      | opt j v =>
        simp only [Group.optVal] at hg ⊢
        by_cases e2 : j = i
        · subst e2; simp [Ne.symm e]
        · simp [e2] at hg
  · rw [List.any_filter]
    congr 1; funext g
    cases g <;> simp [Group.isExtra, Group.optVal]

theorem tableOf_isEmpty (gs : List Group) : (tableOf gs).isEmpty = gs.isEmpty := by
  cases gs with
  | nil => rfl
  | cons g gs =>
    simp only [List.isEmpty_cons]
    cases g with
    | flag i =>
      have : allFlagIds.all (fun j => !(tableOf (Group.flag i :: gs)).flag j) = false := by
        rw [List.all_eq_false]
        exact ⟨i, i.mem_all, by simp [tableOf]⟩
      simp [Table.isEmpty, this]
    | opt i v =>
      have : allValIds.all (fun j => ((tableOf (Group.opt i v :: gs)).val j).isNone) = false := by
        rw [List.all_eq_false]
        exact ⟨i, i.mem_all, by simp [tableOf, Group.optVal]⟩
      simp [Table.isEmpty, this]
    | extra x => simp [Table.isEmpty, tableOf, Group.isExtra]

theorem hom_table_grp : Hom tableOps grpOps (fun s : WFG => tableOf s.1) where
  isEmpty s := tableOf_isEmpty s.1
  contains k _ s := by
    show (match flagIdOf k with
      | some i => ((tableOf s.1).flag i, (tableOf s.1).clearFlag i)
      | none => (false, tableOf s.1)) = _
    simp only [grpOps, grpContains]
    cases h : flagIdOf k with
    | some i =>
      have e : Group.isFlagOf k = fun g => g == Group.flag i := funext (isFlagOf_eq (flagIdOf_some h))
      simp only [e, tableOf_filter_flag]
      rfl
    | none =>
      have e : Group.isFlagOf k = fun _ => false := by
        funext g; cases g with
        | flag i => exact flagIdOf_none h i
        | opt i v => rfl
        | extra x => rfl
      have e1 : s.1.filter (fun _ => true) = s.1 := List.filter_eq_self.mpr (fun _ _ => rfl)
      have e2 : (s.1.any fun _ => false) = false := by rw [List.any_eq_false]; intro _ _; simp
      simp only [e, Bool.not_false, e1, e2]
  optValue k _ s := by
    show (match valIdOf k with
      | some i =>
        match (tableOf s.1).val i with
        | some v => Except.ok (some (v, (tableOf s.1).clearVal i))
        | none => .ok none
      | none => .ok none) = _
    simp only [grpOps]
    cases h : valIdOf k with
    | some i =>
      have e : Group.valOf k = Group.optVal i := funext (valOf_eq (valIdOf_some h))
      simp only [e]
      show (match s.1.findSome? (Group.optVal i) with
        | some v => Except.ok (some (v, (tableOf s.1).clearVal i))
        | none => .ok none) = _
      cases s.1.findSome? (Group.optVal i) with
      | none => rfl
      | some v => simp only [mapOptValue, tableOf_filter_val]
    | none =>
      have e : Group.valOf k = fun _ => none := by
        funext g; cases g with
        | flag i => rfl
        | opt i v => simp [Group.valOf, valIdOf_none h i]
        | extra x => rfl
      have e2 : s.1.findSome? (fun _ => (none : Option Arg)) = none := by
        rw [List.findSome?_eq_none_iff]; intro _ _; rfl
      simp only [e, e2, mapOptValue]

theorem Step.result_map {σ₁ σ₂ : Type} (h : σ₂ → σ₁) (x : Step σ₂ ArgvResult) :
    (Step.map h x).result = x.result := by
  cases x <;> rfl

/-- **On a canonical command line `parse_args` over `pico_args` is `parse_args` over the table of
    the options given.** -/
theorem parseArgv_render (regexOk : Arg → Bool) (gs : List Group) (hwf : WF gs) :
    parseArgv regexOk (render gs) = parseTable regexOk (tableOf gs) := by
  have h1 := hom_pico_grp.parseWith regexOk ⟨gs, hwf⟩
  have h2 := hom_table_grp.parseWith regexOk ⟨gs, hwf⟩
  simp only [parseArgv, parseTable] at *
  rw [h1, h2, Step.result_map, Step.result_map]

/-! ## (c) the order of the option groups is irrelevant -/

theorem WF.perm {gs gs' : List Group} (h : gs.Perm gs') (hwf : WF gs) : WF gs' :=
  ⟨(h.map Group.head).nodup hwf.1, fun g hg => hwf.2 g (h.mem_iff.mpr hg)⟩

theorem any_perm {α : Type} {l l' : List α} (h : l.Perm l') (p : α → Bool) : l.any p = l'.any p := by
  cases hl : l.any p with
  | true =>
    obtain ⟨a, ha, hp⟩ := List.any_eq_true.mp hl
    exact (List.any_eq_true.mpr ⟨a, h.mem_iff.mp ha, hp⟩).symm
  | false =>
    symm; rw [List.any_eq_false] at hl ⊢
    intro a ha; exact hl a (h.mem_iff.mpr ha)

/-- in a well-formed list the table's value of an option is the value of THE group of that option -/
theorem tableOf_val_eq_some_iff {gs : List Group} (hwf : WF gs) (i : ValId) (v : Arg) :
    (tableOf gs).val i = some v ↔ Group.opt i v ∈ gs := by
  constructor
  · intro h
    obtain ⟨g, hg, hv⟩ := List.exists_of_findSome?_eq_some h
    cases g with
    | flag j => simp [Group.optVal] at hv
    | extra x => simp [Group.optVal] at hv
    | opt j w =>
      simp only [Group.optVal] at hv
      split at hv
      · rename_i e; subst e; cases hv; exact hg
      · cases hv
  · intro h
    obtain ⟨pre, post, rfl⟩ := List.append_of_mem h
    obtain ⟨hpre, -, -, -, -⟩ := hwf.split
    apply findSome?_mid
    · intro g hg
      cases g with
      | flag j => rfl
      | extra x => rfl
      | opt j w =>
        have : j.tok ≠ i.tok := hpre _ hg
        have : j ≠ i := fun e => this (by rw [e])
        simp [Group.optVal, this]
    · simp [Group.optVal]

theorem tableOf_perm {gs gs' : List Group} (h : gs.Perm gs') (hwf : WF gs) : tableOf gs = tableOf gs' := by
  have hwf' := hwf.perm h
  have hv : ∀ i, (tableOf gs).val i = (tableOf gs').val i := by
    intro i
    cases e : (tableOf gs).val i with
    | some v =>
      have := (tableOf_val_eq_some_iff hwf i v).mp e
      exact ((tableOf_val_eq_some_iff hwf' i v).mpr (h.mem_iff.mp this)).symm
    | none =>
      cases e' : (tableOf gs').val i with
      | none => rfl
      | some v =>
        have := (tableOf_val_eq_some_iff hwf' i v).mp e'
        have := (tableOf_val_eq_some_iff hwf i v).mpr (h.mem_iff.mpr this)
        rw [e] at this; cases this
  have hf : ∀ i, (tableOf gs).flag i = (tableOf gs').flag i := fun i => any_perm h _
  have he : (tableOf gs).extra = (tableOf gs').extra := any_perm h _
  cases ht : tableOf gs with
  | mk f v x =>
    cases ht' : tableOf gs' with
    | mk f' v' x' =>
      rw [ht, ht'] at hv hf he
      simp only at hv hf he
      rw [funext hf, funext hv, he]

/-- **Order independence.**  On a canonical command line (every option at most once, as separate
    arguments, values and stray arguments not starting with `-`) any permutation of the option
    groups — an option together with its value — gives the same result of `parse_args`. -/
theorem parseArgv_perm (regexOk : Arg → Bool) (gs gs' : List Group) (hwf : WF gs) (h : gs.Perm gs') :
    parseArgv regexOk (render gs) = parseArgv regexOk (render gs') := by
  rw [parseArgv_render regexOk gs hwf, parseArgv_render regexOk gs' (hwf.perm h), tableOf_perm h hwf]

/-! ## (a) totality: no `unwrap` of `parse_args` fails -/

/-- `m` never ends in `panic`, and what it returns satisfies `Q` -/
def Safe {σ α : Type} (m : P σ α) (Q : α → Prop) : Prop :=
  ∀ s, match m s with
    | .done r => r ≠ .panic
    | .next a _ => Q a

theorem Safe.bind {σ α β : Type} {m : P σ α} {f : α → P σ β} {Q : α → Prop} {R : β → Prop}
    (hm : Safe m Q) (hf : ∀ a, Q a → Safe (f a) R) : Safe (m >>= f) R := by
  intro s
  show match P.bind m f s with | .done r => r ≠ .panic | .next a _ => R a
  unfold P.bind
  have := hm s
  cases h : m s with
  | done r => rw [h] at this; exact this
  | next a s' => rw [h] at this; exact hf a this s'

theorem Safe.pure {σ α : Type} {Q : α → Prop} (a : α) (h : Q a) : Safe (pure a : P σ α) Q := fun _ => h

theorem Safe.exitIf {σ : Type} (c : Bool) (r : ArgvResult) (hr : r ≠ .panic) :
    Safe (P.exitIf c r : P σ Unit) (fun _ => True) := by
  intro s; unfold P.exitIf; cases c
  · exact trivial
  · exact hr

theorem Safe.unwrap {σ α : Type} (o : Option α) (h : o.isSome = true) : Safe (P.unwrap o : P σ α) (fun _ => True) := by
  intro s; unfold P.unwrap; cases o with
  | none => cases h
  | some a => exact trivial

theorem Safe.test {σ : Type} (f : σ → Bool) : Safe (P.test f) (fun _ => True) := fun _ => trivial

theorem Safe.flag {σ : Type} (ops : Ops σ) (k : Keys) : Safe (ops.flag k) (fun _ => True) := fun _ => trivial

theorem Safe.value {σ α : Type} (ops : Ops σ) (k : Keys) (f : Arg → Res α) (hf : ∀ v, f v ≠ .panic) :
    Safe (ops.value k f) (fun _ => True) := by
  intro s
  unfold Ops.value
  cases ops.optValue k s with
  | error e => simp
  | ok o =>
    cases o with
    | none => exact trivial
    | some p =>
      obtain ⟨v, s'⟩ := p
      have := hf v
      dsimp only
      cases h : f v <;> simp_all

theorem Safe.fallbackOob {σ : Type} (ops : Ops σ) : Safe ops.fallbackOob (fun _ => True) := by
  intro s
  unfold Ops.fallbackOob
  cases ops.optValue kFallback s with
  | error e => cases e <;> simp
  | ok o =>
    cases o with
    | none => exact trivial
    | some p => exact trivial

theorem Safe.ite_true {σ α : Type} (c : Prop) [Decidable c] {a b : P σ α}
    (ha : Safe a (fun _ => True)) (hb : Safe b (fun _ => True)) :
    Safe (if c then a else b) (fun _ => True) := by
  by_cases hc : c <;> simp only [hc, if_true, if_false] <;> assumption

/-- the step `maybe_fields = Some(UserBoundsList::from_str("1:").unwrap())` -/
theorem Safe.defaultStep {σ β : Type} (c : Bool) (o : Option (Option β)) (x : Option β)
    (ho : ∃ y, o = some (some y)) :
    Safe (if c = true then P.unwrap o else (Pure.pure x : P σ (Option β)))
      (fun r => if c = true then r.isSome = true else r = x) := by
  obtain ⟨y, rfl⟩ := ho
  intro s
  cases c
  · simp [Pure.pure, P.pure]
  · simp [P.unwrap]

theorem markLast_isSome (l : List BoF) (h : (boundsOnly l).isEmpty = false) : (markLast l).isSome = true := by
  induction l with
  | nil => simp [boundsOnly] at h
  | cons a t ih =>
    cases a with
    | bound b =>
      simp only [markLast]
      cases markLast t <;> rfl
    | filler f =>
      have : (boundsOnly t).isEmpty = false := by simpa [boundsOnly] using h
      simp only [markLast]
      have := ih this
      cases hm : markLast t with
      | none => rw [hm] at this; cases this
      | some t' => rfl

/-- `UserBoundsList::from_str` never hits the `expect` of `From<Vec<BoundOrFiller>>` -/
theorem boundsArg_ne_panic (v : Arg) : boundsArg v ≠ .panic := by
  unfold boundsArg boundsListOfString
  split
  · simp
  · split
    · simp
    · rename_i l hl
      split
      · simp
      · rename_i hne
        have := markLast_isSome l (by simpa using hne)
        unfold fromVec
        cases hm : markLast l with
        | none => rw [hm] at this; cases this
        | some l' => simp

theorem default_bounds_ok : ∃ y, (boundsListOfString ['1', ':']).toOption.map some = some (some y) := by
  have : (boundsListOfString ['1', ':']).isOk = true := by decide +kernel
  cases h : boundsListOfString ['1', ':'] with
  | ok a => exact ⟨a, rfl⟩
  | fail => rw [h] at this; cases this
  | panic => rw [h] at this; cases this

theorem or_isSome {β : Type} (mf mc mb ml mf' : Option β)
    (h : if (!mf.isSome && !mb.isSome && !mc.isSome && !ml.isSome) = true then mf'.isSome = true else mf' = mf) :
    (mf'.or (mc.or (mb.or ml))).isSome = true := by
  cases mf <;> cases mc <;> cases mb <;> cases ml <;> cases mf' <;> simp_all

theorem strArg_ne_panic (v : Arg) : strArg v ≠ .panic := by simp [strArg]

theorem usizeArg_ne_panic (v : Arg) : usizeArg v ≠ .panic := by
  unfold usizeArg; cases parseUsize v <;> simp

theorem trimArg_ne_panic (v : Arg) : trimArg v ≠ .panic := by
  unfold trimArg; split <;> simp

attribute [local irreducible] Safe in
theorem parseWith_safe {σ : Type} (ops : Ops σ) (regexOk : Arg → Bool) :
    Safe (parseWith ops regexOk) (fun r => r ≠ .panic) := by
  unfold parseWith
  repeat' first
    | exact Safe.defaultStep _ _ _ default_bounds_ok
    | exact Safe.exitIf _ _ (by simp)
    | exact Safe.test _
    | exact Safe.fallbackOob _
    | exact Safe.flag _ _
    | exact Safe.value _ _ _ boundsArg_ne_panic
    | exact Safe.value _ _ _ strArg_ne_panic
    | exact Safe.value _ _ _ usizeArg_ne_panic
    | exact Safe.value _ _ _ trimArg_ne_panic
    | exact Safe.unwrap _ (or_isSome _ _ _ _ _ (by assumption))
    | exact Safe.pure _ trivial
    | exact Safe.pure _ (by simp)
    | apply Safe.ite_true
    | apply Safe.bind
    | intro _
    | dsimp only

/-- **No `unwrap`/`expect` of `parse_args` can fail**, whatever the arguments. -/
theorem parseArgv_total (regexOk : Arg → Bool) (argv : List Arg) : parseArgv regexOk argv ≠ .panic := by
  have := parseWith_safe picoOps regexOk argv
  unfold parseArgv
  cases h : parseWith picoOps regexOk argv with
  | done r => rw [h] at this; exact this
  | next r s => rw [h] at this; exact this

/-- no arguments: the short help, exit 0 -/
theorem parseArgv_nil (regexOk : Arg → Bool) : parseArgv regexOk [] = .help := rfl

/-- a rejection is final: nothing is run (exit 1 with nothing on stdout) -/
theorem parseArgv_reject_no_run (regexOk : Arg → Bool) (argv : List Arg) (h : parseArgv regexOk argv = .reject)
    (o : Opt) (fm : Bool) (re : Option Arg) : parseArgv regexOk argv ≠ .run o fm re := by
  rw [h]; intro h'; cases h'

/-! ## (b) the decision table -/

@[simp] theorem Table.clearFlag_flag (t : Table) (i j : FlagId) :
    (t.clearFlag i).flag j = if j = i then false else t.flag j := rfl
@[simp] theorem Table.clearFlag_val (t : Table) (i : FlagId) : (t.clearFlag i).val = t.val := rfl
@[simp] theorem Table.clearFlag_extra (t : Table) (i : FlagId) : (t.clearFlag i).extra = t.extra := rfl
@[simp] theorem Table.clearVal_val (t : Table) (i j : ValId) :
    (t.clearVal i).val j = if j = i then none else t.val j := rfl
@[simp] theorem Table.clearVal_flag (t : Table) (i : ValId) : (t.clearVal i).flag = t.flag := rfl
@[simp] theorem Table.clearVal_extra (t : Table) (i : ValId) : (t.clearVal i).extra = t.extra := rfl

theorem Table.clearVal_of_none (t : Table) (i : ValId) (h : t.val i = none) : t.clearVal i = t := by
  cases t with
  | mk f v x =>
    simp only [Table.clearVal, Table.mk.injEq, true_and, and_true]
    funext j
    by_cases e : j = i
    · subst e; simp [h.symm]
    · simp [e]

theorem tflag_bind {β : Type} (k : Keys) (i : FlagId) (h : flagIdOf k = some i) (f : Bool → P Table β)
    (t : Table) : (tableOps.flag k >>= f) t = f (t.flag i) (t.clearFlag i) := by
  show P.bind _ _ _ = _
  simp only [P.bind, Ops.flag, tableOps, h]

theorem tvalue_bind {α β : Type} (k : Keys) (i : ValId) (h : valIdOf k = some i) (f : Arg → Res α)
    (cont : Option α → P Table β) (t : Table) (hok : ∀ v, t.val i = some v → (f v).isOk = true) :
    (tableOps.value k f >>= cont) t = cont ((t.val i).bind fun v => (f v).toOption) (t.clearVal i) := by
  show P.bind _ _ _ = _
  simp only [P.bind, Ops.value, tableOps, h]
  cases hv : t.val i with
  | none => simp [Table.clearVal_of_none t i hv]
  | some v =>
    have := hok v hv
    cases hf : f v with
    | ok a => simp [Res.toOption, hf]
    | fail => rw [hf] at this; cases this
    | panic => rw [hf] at this; cases this

theorem tfallback_bind {β : Type} (cont : Option Arg → P Table β) (t : Table) :
    (tableOps.fallbackOob >>= cont) t = cont (t.val .fallback) (t.clearVal .fallback) := by
  show P.bind _ _ _ = _
  have h : valIdOf kFallback = some .fallback := by decide +kernel
  simp only [P.bind, Ops.fallbackOob, tableOps, h]
  cases hv : t.val .fallback with
  | none => simp [Table.clearVal_of_none t _ hv]
  | some v => simp

theorem ttest_bind {β : Type} (cont : Bool → P Table β) (t : Table) :
    (P.test tableOps.isEmpty >>= cont) t = cont t.isEmpty t := rfl

theorem exitIf_bind {σ β : Type} (c : Bool) (r : ArgvResult) (cont : Unit → P σ β) (s : σ) :
    (P.exitIf c r >>= cont) s = if c = true then .done r else cont () s := by
  show P.bind _ _ _ = _
  unfold P.bind P.exitIf
  cases c <;> rfl

theorem pure_bind' {σ α β : Type} (a : α) (cont : α → P σ β) (s : σ) :
    ((pure a : P σ α) >>= cont) s = cont a s := rfl

theorem unwrap_bind {σ α β : Type} (a : α) (cont : α → P σ β) (s : σ) :
    (P.unwrap (some a) >>= cont) s = cont a s := rfl


theorem ite_bind {σ α β : Type} (c : Prop) [Decidable c] (m₁ m₂ : P σ α) (cont : α → P σ β) (s : σ) :
    ((if c then m₁ else m₂) >>= cont) s = if c then (m₁ >>= cont) s else (m₂ >>= cont) s := by
  by_cases h : c <;> simp [h]

theorem fid_help : flagIdOf kHelp = some .help := by decide +kernel
theorem fid_g : flagIdOf kGreedy = some .g := by decide +kernel
theorem fid_json : flagIdOf kJson = some .json := by decide +kernel
theorem fid_j : flagIdOf kJoin = some .j := by decide +kernel
theorem fid_noJoin : flagIdOf kNoJoin = some .noJoin := by decide +kernel
theorem fid_m : flagIdOf kComplement = some .m := by decide +kernel
theorem fid_s : flagIdOf kOnlyDelimited = some .s := by decide +kernel
theorem fid_p : flagIdOf kCompress = some .p := by decide +kernel
theorem fid_V : flagIdOf kVersion = some .V := by decide +kernel
theorem fid_z : flagIdOf kZero = some .z := by decide +kernel
theorem vid_f : valIdOf kFields = some .f := by decide +kernel
theorem vid_c : valIdOf kCharacters = some .c := by decide +kernel
theorem vid_b : valIdOf kBytes = some .b := by decide +kernel
theorem vid_l : valIdOf kLines = some .l := by decide +kernel
theorem vid_d : valIdOf kDelimiter = some .d := by decide +kernel
theorem vid_r : valIdOf kReplace = some .r := by decide +kernel
theorem vid_M : valIdOf kFixedMemory = some .M := by decide +kernel
theorem vid_e : valIdOf kRegex = some .e := by decide +kernel
theorem vid_t : valIdOf kTrim = some .t := by decide +kernel


theorem strArg_isOk (v : Arg) : (strArg v).isOk = true := rfl

macro "table_walk" Hf:term "," Hc:term "," Hb:term "," Hl:term "," HM:term "," Ht:term "," facts:Lean.Parser.Tactic.simpLemma,* : tactic => `(tactic| (
  unfold parseWith
  simp only [ttest_bind, exitIf_bind]
  rw [tvalue_bind _ _ vid_f _ _ _ (by intro v hv; exact $Hf v hv)]
  rw [tvalue_bind _ _ vid_c _ _ _ (by intro v hv; simp at hv; exact $Hc v hv)]
  rw [tvalue_bind _ _ vid_b _ _ _ (by intro v hv; simp at hv; exact $Hb v hv)]
  rw [tvalue_bind _ _ vid_l _ _ _ (by intro v hv; simp at hv; exact $Hl v hv)]
  simp only [tflag_bind _ _ fid_help, exitIf_bind]
  simp only [Table.clearVal_val, Table.clearFlag_val, $facts,*, reduceCtorEq, if_false, Option.bind_none,
    Option.bind_some, Res.toOption, Option.map_some, Option.isSome_none, Option.isSome_some,
    Bool.not_false, Bool.not_true, Bool.and_self, Bool.and_false, Bool.false_and, Bool.true_and, Bool.and_true,
    if_true, unwrap_bind, pure_bind', exitIf_bind, Bool.false_eq_true]
  try rw [tvalue_bind _ _ vid_d _ _ _ (fun v _ => strArg_isOk v)]
  simp only [tflag_bind _ _ fid_g]
  rw [tvalue_bind _ _ vid_r _ _ _ (fun v _ => strArg_isOk v)]
  rw [tvalue_bind _ _ vid_M _ _ _ (by intro v hv; simp at hv; exact $HM v hv)]
  simp only [exitIf_bind, tflag_bind _ _ fid_json, tflag_bind _ _ fid_j, tflag_bind _ _ fid_noJoin, pure_bind']
  try rw [tvalue_bind _ _ vid_e _ _ _ (fun v _ => strArg_isOk v)]
  simp only [exitIf_bind, unwrap_bind, Option.or_some, Option.or_none, Option.none_or, tflag_bind _ _ fid_m, tflag_bind _ _ fid_s,
    tflag_bind _ _ fid_p, tflag_bind _ _ fid_V, tflag_bind _ _ fid_z]
  rw [tvalue_bind _ _ vid_t _ _ _ (by intro v hv; simp at hv; exact $Ht v hv)]
  simp only [tfallback_bind, ttest_bind, exitIf_bind]))


def widthOf : Option Arg → Width
  | none => .absent
  | some v => if (utf8 v).length = 1 then .one else .other

/-- which of `-f` / `-b` / `-c` / `-l` is given (in the priority order of `parse_args`) -/
def Table.mode (t : Table) : Mode :=
  if (t.val .f).isSome then .f else if (t.val .b).isSome then .b else if (t.val .c).isSome then .c
  else if (t.val .l).isSome then .l else .dflt

/-- the text of the bounds in force (`1:` when none of `-f -c -b -l` is given) -/
def Table.boundsText (t : Table) : Arg :=
  ((t.val .f).or ((t.val .c).or ((t.val .b).or (t.val .l)))).getD ['1', ':']

def memOf : Option Arg → MemArg
  | none => .absent
  | some v =>
    match parseUsize v with
    | some 0 => .zero
    | some _ => .pos
    | none => .absent

/-- the abstraction of `Tuc.Model.Args`: what the decision logic sees of the options given -/
def flagsOf (t : Table) : Flags where
  mode := t.mode
  d := widthOf (t.val .d)
  e := (t.val .e).isSome
  g := t.flag .g
  p := t.flag .p
  s := t.flag .s
  z := t.flag .z
  m := t.flag .m
  j := t.flag .j
  noJoin := t.flag .noJoin
  json := t.flag .json
  r := widthOf (t.val .r)
  t := (t.val .t).isSome
  fallback := (t.val .fallback).isSome
  mem := memOf (t.val .M)
  fmt := match boundsListOfString t.boundsText with
    | .ok l => l.list.any isFiller
    | _ => false
  fwd := match boundsListOfString t.boundsText with
    | .ok l => (forwardBoundsOf l).isSome
    | _ => false
  extra := t.extra

/-- the hypotheses under which the option-set abstraction says everything: at most one of
    `-f -c -b -l`, every value parses, the regex compiles, no `-h` / `-V`, something is given -/
structure Sensible (regexOk : Arg → Bool) (t : Table) : Prop where
  nonempty : t.isEmpty = false
  noHelp : t.flag .help = false
  noVersion : t.flag .V = false
  oneMode :
    (t.val .c = none ∧ t.val .b = none ∧ t.val .l = none) ∨ (t.val .f = none ∧ t.val .b = none ∧ t.val .l = none) ∨
    (t.val .f = none ∧ t.val .c = none ∧ t.val .l = none) ∨ (t.val .f = none ∧ t.val .c = none ∧ t.val .b = none)
  bounds : (boundsListOfString t.boundsText).isOk = true
  mem : ∀ v, t.val .M = some v → (parseUsize v).isSome = true
  trim : ∀ v, t.val .t = some v → (trimArg v).isOk = true
  regex : ∀ v, t.val .e = some v → regexOk v = true
  charsRegex : regexOk charsRegexText = true

/-- the rejections of `decision` that are decided inside `parse_args` (tuc.rs:101–247) -/
def upFrontReject (f : Flags) : Bool :=
  f.mem = .zero || (f.j && f.noJoin) || (f.json && f.noJoin) || (f.r ≠ .absent && f.noJoin) ||
  (f.r ≠ .absent && f.json) || (f.mode = .c && f.noJoin) || (f.json && !(f.mode = .c || f.isFields)) ||
  (f.json && f.fmt) || (f.d ≠ .absent && !f.isFields) || (f.e && f.mode = .c) || f.extra

theorem usizeArg_isOk (v : Arg) (h : (parseUsize v).isSome = true) : (usizeArg v).isOk = true := by
  unfold usizeArg; cases hp : parseUsize v with
  | none => rw [hp] at h; cases h
  | some n => rfl

theorem markLast_ne_nil (l l' : List BoF) (h : markLast l = some l') : l'.isEmpty = false := by
  cases l with
  | nil => simp [markLast] at h
  | cons a t =>
    cases a with
    | bound b =>
      simp only [markLast] at h
      cases hm : markLast t with
      | none => rw [hm] at h; cases h; rfl
      | some t' => rw [hm] at h; cases h; rfl
    | filler f =>
      simp only [markLast] at h
      cases hm : markLast t with
      | none => rw [hm] at h; cases h
      | some t' => rw [hm] at h; cases h; rfl

/-- a parsed bounds list is not empty (the "invariant error" of `parse_args` cannot happen) -/
theorem boundsListOfString_nonempty (s : Arg) (l : UserBoundsList) (h : boundsListOfString s = .ok l) :
    l.list.isEmpty = false := by
  unfold boundsListOfString at h
  split at h
  · cases h
  · split at h
    · cases h
    · split at h
      · cases h
      · rename_i l0 _ _
        simp only [fromVec] at h
        cases hm : markLast l0 with
        | none => rw [hm] at h; cases h
        | some l' => rw [hm] at h; cases h; exact markLast_ne_nil _ _ hm

@[simp] theorem widthOf_none : widthOf none = .absent := rfl
@[simp] theorem widthOf_some_ne (v : Arg) : (widthOf (some v) = .absent) = False := by
  simp only [widthOf, eq_iff_iff, iff_false]; split <;> simp

@[simp] theorem Step.result_done {σ : Type} (r : ArgvResult) : (Step.done r : Step σ ArgvResult).result = r := rfl
@[simp] theorem Step.result_next {σ : Type} (r : ArgvResult) (s : σ) : (Step.next r s).result = r := rfl
theorem Step.result_ite {σ : Type} (c : Prop) [Decidable c] (a b : Step σ ArgvResult) :
    (if c then a else b).result = if c then a.result else b.result := by
  by_cases h : c <;> simp [h]

def boundsTypeOf : Mode → BoundsType
  | .f => .fields
  | .dflt => .fields
  | .c => .characters
  | .b => .bytes
  | .l => .lines

/-- the parsed bounds in force -/
def Table.bounds (t : Table) : UserBoundsList :=
  match boundsListOfString t.boundsText with
  | .ok l => l
  | _ => ⟨[], .cont⟩

/-- `-M`'s value in KiB -/
def Table.memKb (t : Table) : Option Nat := (t.val .M).bind fun v => (usizeArg v).toOption

/-- the text of the regex: `-e`'s value, or the fixed one of `-c` -/
def Table.regexText (t : Table) : Option Arg :=
  if t.mode = .c then some charsRegexText else t.val .e

/-- **the `Opt` that `parse_args` builds**, in closed form -/
def optOf (t : Table) : Opt :=
  { delimiter :=
      if boundsTypeOf t.mode = .lines then [(if t.flag .z = true then EOL.zero else EOL.newline).byte]
      else if boundsTypeOf t.mode = .fields then (match t.val .d with | some x => utf8 x | none => [9])
      else []
    eol := if t.flag .z = true then .zero else .newline
    bounds := t.bounds
    boundsType := boundsTypeOf t.mode
    onlyDelimited := t.flag .s
    greedyDelimiter := t.flag .g
    compressDelimiter := t.flag .p
    replaceDelimiter :=
      if t.flag .json = true then some [44]
      else if boundsTypeOf t.mode = .characters then some []
      else (t.val .r).map utf8
    trim := (t.val .t).bind fun v => (trimArg v).toOption
    complement := t.flag .m
    join := t.flag .j || t.flag .json || (t.val .r).isSome || (boundsTypeOf t.mode = .lines && !t.flag .noJoin)
      || boundsTypeOf t.mode = .characters
    json := t.flag .json
    fixedMemory := t.memKb.map saturatingMul1024
    fallbackOob := (t.val .fallback).map utf8
    regexBag := none }

/-- what `parse_args` answers on a sensible table -/
def tableAnswer (t : Table) : ArgvResult :=
  if upFrontReject (flagsOf t) = true then .reject else .run (optOf t) t.memKb.isSome t.regexText

def memOfNat : Option Nat → MemArg
  | none => .absent
  | some 0 => .zero
  | some _ => .pos

theorem memOf_eq (o : Option Arg) (h : ∀ v, o = some v → (parseUsize v).isSome = true) :
    memOf o = memOfNat (o.bind fun v => (usizeArg v).toOption) := by
  cases o with
  | none => rfl
  | some v =>
    have := h v rfl
    simp only [memOf, usizeArg, Option.bind_some]
    cases hp : parseUsize v with
    | none => rw [hp] at this; cases this
    | some n => cases n <;> rfl

theorem strArg_bind (o : Option Arg) : (o.bind fun v => (strArg v).toOption) = o := by
  cases o <;> rfl

/-- the last part of the proof of `parseTable_reject_iff`, the same in every mode: split on the
    presence of `-M` (zero / positive), `-r`, `-d`, `-e` and on the flags the tests look at -/
macro "table_finish" hs:term "," t:term "," l:term "," facts:Lean.Parser.Tactic.simpLemma,* : tactic => `(tactic| (
  simp only [($hs).nonempty, Bool.false_eq_true, if_false]
  simp only [Table.clearVal_val, Table.clearFlag_val, Table.clearFlag_flag, Table.clearVal_flag,
    Table.clearFlag_extra, Table.clearVal_extra, reduceCtorEq, if_false, if_true, ($hs).noHelp, ($hs).noVersion,
    Table.isEmpty, allFlagIds, allValIds, List.all_cons, List.all_nil, Bool.false_eq_true,
    tableAnswer, optOf, Table.bounds, Table.memKb, Table.regexText, boundsTypeOf,
    upFrontReject, flagsOf, Table.mode, Table.boundsText, $facts,*, Option.or_none, Option.getD_none,
    Option.or_some, Option.none_or, Option.getD_some,
    Option.isSome_none, Option.isSome_some, Flags.isFields, memOf_eq _ ($hs).mem, strArg_bind]
  have hre := ($hs).regex
  have hcre := ($hs).charsRegex
  generalize ($l).list.any isFiller = fmt
  generalize ((($t).val ValId.M).bind fun v => (usizeArg v).toOption) = mk
  generalize ($t).flag FlagId.json = json
  generalize ($t).flag FlagId.j = jn
  generalize ($t).flag FlagId.noJoin = noJoin
  generalize ($t).extra = extra
  rcases mk with _ | _ | n <;>
  cases hr : ($t).val ValId.r <;> cases hd : ($t).val ValId.d <;> cases he : ($t).val ValId.e <;>
    simp [memOfNat, Step.result_ite, Pure.pure, P.pure, he, hcre] at hre ⊢ <;>
    cases json <;> cases jn <;> cases noJoin <;> cases extra <;> cases fmt <;> simp [hre]))

theorem reject_dflt (regexOk : Arg → Bool) (t : Table) (hs : Sensible regexOk t)
    (hf : t.val .f = none) (hc : t.val .c = none) (hb : t.val .b = none) (hl : t.val .l = none) :
    parseTable regexOk t = tableAnswer t := by
  obtain ⟨l1, h1⟩ : ∃ l1, boundsListOfString ['1', ':'] = .ok l1 := by
    have := hs.bounds
    simp only [Table.boundsText, hf, hc, hb, hl, Option.or_none, Option.getD_none] at this
    cases h : boundsListOfString ['1', ':'] with
    | ok a => exact ⟨a, rfl⟩
    | fail => rw [h] at this; cases this
    | panic => rw [h] at this; cases this
  have hM : ∀ v, t.val .M = some v → (usizeArg v).isOk = true := fun v hv => usizeArg_isOk v (hs.mem v hv)
  have ht := hs.trim
  have hne := boundsListOfString_nonempty _ _ h1
  unfold parseTable
  table_walk (fun v hv => by rw [hf] at hv; cases hv), (fun v hv => by rw [hc] at hv; cases hv),
    (fun v hv => by rw [hb] at hv; cases hv), (fun v hv => by rw [hl] at hv; cases hv), hM, ht, hf, hc, hb, hl, h1
  table_finish hs, t, l1, hf, hc, hb, hl, h1, hne

theorem reject_f (regexOk : Arg → Bool) (t : Table) (hs : Sensible regexOk t) (v0 : Arg)
    (hf : t.val .f = some v0) (hc : t.val .c = none) (hb : t.val .b = none) (hl : t.val .l = none) :
    parseTable regexOk t = tableAnswer t := by
  obtain ⟨l1, h1⟩ : ∃ l1, boundsListOfString v0 = .ok l1 := by
    have := hs.bounds
    simp [Table.boundsText, hf, hc, hb, hl] at this
    cases h : boundsListOfString v0 with
    | ok a => exact ⟨a, rfl⟩
    | fail => rw [h] at this; cases this
    | panic => rw [h] at this; cases this
  have hM : ∀ v, t.val .M = some v → (usizeArg v).isOk = true := fun v hv => usizeArg_isOk v (hs.mem v hv)
  have ht := hs.trim
  have hne := boundsListOfString_nonempty _ _ h1
  unfold parseTable
  table_walk (fun v hv => by rw [hf] at hv; cases hv; show (boundsListOfString v0).isOk = true; rw [h1]; rfl), (fun v hv => by rw [hc] at hv; cases hv), (fun v hv => by rw [hb] at hv; cases hv), (fun v hv => by rw [hl] at hv; cases hv), hM, ht, hf, hc, hb, hl, boundsArg, h1
  table_finish hs, t, l1, hf, hc, hb, hl, h1, hne

theorem reject_c (regexOk : Arg → Bool) (t : Table) (hs : Sensible regexOk t) (v0 : Arg)
    (hf : t.val .f = none) (hc : t.val .c = some v0) (hb : t.val .b = none) (hl : t.val .l = none) :
    parseTable regexOk t = tableAnswer t := by
  obtain ⟨l1, h1⟩ : ∃ l1, boundsListOfString v0 = .ok l1 := by
    have := hs.bounds
    simp [Table.boundsText, hf, hc, hb, hl] at this
    cases h : boundsListOfString v0 with
    | ok a => exact ⟨a, rfl⟩
    | fail => rw [h] at this; cases this
    | panic => rw [h] at this; cases this
  have hM : ∀ v, t.val .M = some v → (usizeArg v).isOk = true := fun v hv => usizeArg_isOk v (hs.mem v hv)
  have ht := hs.trim
  have hne := boundsListOfString_nonempty _ _ h1
  unfold parseTable
  table_walk (fun v hv => by rw [hf] at hv; cases hv), (fun v hv => by rw [hc] at hv; cases hv; show (boundsListOfString v0).isOk = true; rw [h1]; rfl), (fun v hv => by rw [hb] at hv; cases hv), (fun v hv => by rw [hl] at hv; cases hv), hM, ht, hf, hc, hb, hl, boundsArg, h1
  table_finish hs, t, l1, hf, hc, hb, hl, h1, hne

theorem reject_b (regexOk : Arg → Bool) (t : Table) (hs : Sensible regexOk t) (v0 : Arg)
    (hf : t.val .f = none) (hc : t.val .c = none) (hb : t.val .b = some v0) (hl : t.val .l = none) :
    parseTable regexOk t = tableAnswer t := by
  obtain ⟨l1, h1⟩ : ∃ l1, boundsListOfString v0 = .ok l1 := by
    have := hs.bounds
    simp [Table.boundsText, hf, hc, hb, hl] at this
    cases h : boundsListOfString v0 with
    | ok a => exact ⟨a, rfl⟩
    | fail => rw [h] at this; cases this
    | panic => rw [h] at this; cases this
  have hM : ∀ v, t.val .M = some v → (usizeArg v).isOk = true := fun v hv => usizeArg_isOk v (hs.mem v hv)
  have ht := hs.trim
  have hne := boundsListOfString_nonempty _ _ h1
  unfold parseTable
  table_walk (fun v hv => by rw [hf] at hv; cases hv), (fun v hv => by rw [hc] at hv; cases hv), (fun v hv => by rw [hb] at hv; cases hv; show (boundsListOfString v0).isOk = true; rw [h1]; rfl), (fun v hv => by rw [hl] at hv; cases hv), hM, ht, hf, hc, hb, hl, boundsArg, h1
  table_finish hs, t, l1, hf, hc, hb, hl, h1, hne

theorem reject_l (regexOk : Arg → Bool) (t : Table) (hs : Sensible regexOk t) (v0 : Arg)
    (hf : t.val .f = none) (hc : t.val .c = none) (hb : t.val .b = none) (hl : t.val .l = some v0) :
    parseTable regexOk t = tableAnswer t := by
  obtain ⟨l1, h1⟩ : ∃ l1, boundsListOfString v0 = .ok l1 := by
    have := hs.bounds
    simp [Table.boundsText, hf, hc, hb, hl] at this
    cases h : boundsListOfString v0 with
    | ok a => exact ⟨a, rfl⟩
    | fail => rw [h] at this; cases this
    | panic => rw [h] at this; cases this
  have hM : ∀ v, t.val .M = some v → (usizeArg v).isOk = true := fun v hv => usizeArg_isOk v (hs.mem v hv)
  have ht := hs.trim
  have hne := boundsListOfString_nonempty _ _ h1
  unfold parseTable
  table_walk (fun v hv => by rw [hf] at hv; cases hv), (fun v hv => by rw [hc] at hv; cases hv), (fun v hv => by rw [hb] at hv; cases hv), (fun v hv => by rw [hl] at hv; cases hv; show (boundsListOfString v0).isOk = true; rw [h1]; rfl), hM, ht, hf, hc, hb, hl, boundsArg, h1
  table_finish hs, t, l1, hf, hc, hb, hl, h1, hne


/-- **`parse_args` in closed form.**  On a sensible table of options `parse_args` rejects exactly
    when the option-set abstraction says so (`upFrontReject`), and otherwise builds `optOf t`. -/
theorem parseTable_eq (regexOk : Arg → Bool) (t : Table) (hs : Sensible regexOk t) :
    parseTable regexOk t = tableAnswer t := by
  rcases hs.oneMode with ⟨hc, hb, hl⟩ | ⟨hf, hb, hl⟩ | ⟨hf, hc, hl⟩ | ⟨hf, hc, hb⟩
  · cases hf : t.val .f with
    | none => exact reject_dflt regexOk t hs hf hc hb hl
    | some v => exact reject_f regexOk t hs v hf hc hb hl
  · cases hc : t.val .c with
    | none => exact reject_dflt regexOk t hs hf hc hb hl
    | some v => exact reject_c regexOk t hs v hf hc hb hl
  · cases hb : t.val .b with
    | none => exact reject_dflt regexOk t hs hf hc hb hl
    | some v => exact reject_b regexOk t hs v hf hc hb hl
  · cases hl : t.val .l with
    | none => exact reject_dflt regexOk t hs hf hc hb hl
    | some v => exact reject_l regexOk t hs v hf hc hb hl

theorem parseTable_reject_iff (regexOk : Arg → Bool) (t : Table) (hs : Sensible regexOk t) :
    parseTable regexOk t = .reject ↔ upFrontReject (flagsOf t) = true := by
  rw [parseTable_eq regexOk t hs, tableAnswer]
  cases upFrontReject (flagsOf t) <;> simp

/-- (b) **On a canonical command line** — the rendering of a well-formed list of option groups, in
    any order — `parse_args` over `pico_args` answers what the option-set abstraction says. -/
theorem parseArgv_canon (regexOk : Arg → Bool) (gs : List Group) (hwf : WF gs)
    (hs : Sensible regexOk (tableOf gs)) :
    parseArgv regexOk (render gs) = tableAnswer (tableOf gs) := by
  rw [parseArgv_render regexOk gs hwf, parseTable_eq regexOk _ hs]

theorem parseArgv_canon_reject_iff (regexOk : Arg → Bool) (gs : List Group) (hwf : WF gs)
    (hs : Sensible regexOk (tableOf gs)) :
    parseArgv regexOk (render gs) = .reject ↔ upFrontReject (flagsOf (tableOf gs)) = true := by
  rw [parseArgv_render regexOk gs hwf]; exact parseTable_reject_iff regexOk _ hs

/-- `decision` rejects for one of the reasons decided inside `parse_args`, or because `-M` is given
    and `StreamOpt::try_from` refuses the options -/
theorem decision_reject_iff (f : Flags) :
    decision f = .reject ↔ (upFrontReject f = true ∨ (f.mem = .pos ∧ f.streamOk = false)) := by
  rcases f with ⟨mode, d, e, g, p, s, z, m, j, noJoin, json, r, t, fallback, mem, fmt, fwd, extra⟩
  cases mem <;> cases mode <;> cases r <;> cases d <;>
    simp [decision, upFrontReject, Flags.isFields, Flags.streamOk, Flags.fastOk, Flags.regex, Flags.replSome,
      Flags.join] <;> grind

/-! ## (b, continued) the `-M` eligibility test of `main` -/

/-- the regex bag `parse_args` compiles from the regex text (`bagOf` stands for the regex engine) -/
def fillBag (bagOf : Arg → RegexBag) (o : Opt) (re : Option Arg) : Opt := { o with regexBag := re.map bagOf }

/-- the command line is rejected before any input is read: by `parse_args`, or by
    `StreamOpt::try_from` at the head of `main` (`dispatch = none`) -/
def rejectsUpFront (bagOf : Arg → RegexBag) (segs : List Bytes) : ArgvResult → Prop
  | .reject => True
  | .run o fm re => dispatch (fillBag bagOf o re) fm segs = none
  | _ => False

theorem dispatch_none_iff (o : Opt) (fm : Bool) (segs : List Bytes) :
    dispatch o fm segs = none ↔ fm = true ∧ streamOptOf o = none := by
  unfold dispatch
  cases fm with
  | true =>
    cases h : streamOptOf o <;> simp
  | false =>
    simp only [Bool.false_eq_true, if_false, false_and, iff_false]
    split
    · simp
    · split
      · simp
      · split <;> simp

theorem markLast_boundsOnly (l l' : List BoF) (h : markLast l = some l') : (boundsOnly l').isEmpty = false := by
  induction l generalizing l' with
  | nil => simp [markLast] at h
  | cons a t ih =>
    cases a with
    | bound b =>
      simp only [markLast] at h
      cases hm : markLast t with
      | none => rw [hm] at h; cases h; simp [boundsOnly]
      | some t' => rw [hm] at h; cases h; simp [boundsOnly]
    | filler f =>
      simp only [markLast] at h
      cases hm : markLast t with
      | none => rw [hm] at h; cases h
      | some t' => rw [hm] at h; cases h; simpa [boundsOnly] using ih t' hm

theorem lastBoundRight_isSome (l : List UserBounds) (h : l.isEmpty = false) : (lastBoundRight l).isSome = true := by
  induction l with
  | nil => cases h
  | cons b t ih =>
    cases t with
    | nil => rfl
    | cons c t' => simpa [lastBoundRight] using ih rfl

theorem forwardBoundsOf_last (l : UserBoundsList) (bs : List BoF) (h : forwardBoundsOf l = some bs) :
    (lastBoundRight (boundsOnly bs)).isSome = true := by
  unfold forwardBoundsOf at h
  split at h
  · cases h
  · split at h
    · split at h
      · simp only [fromVec] at h
        cases hm : markLast l.list with
        | none => rw [hm] at h; cases h
        | some l' =>
          rw [hm] at h
          cases h
          exact lastBoundRight_isSome _ (markLast_boundsOnly _ _ hm)
      · cases h
    · cases h
/-- `StreamOpt::try_from(&opt).is_ok()`, test by test -/
theorem streamOptOf_isSome (o : Opt) :
    (streamOptOf o).isSome =
      (o.delimiter.length == 1 && (match o.replaceDelimiter with | none => true | some r => r.length == 1) &&
        !(o.complement || o.greedyDelimiter || o.compressDelimiter || o.json || o.boundsType != .fields
          || o.trim.isSome || o.regexBag.isSome || o.onlyDelimited) && (forwardBoundsOf o.bounds).isSome) := by
  unfold streamOptOf
  rcases hd : o.delimiter with _ | ⟨d, _ | ⟨d2, dt⟩⟩
  · simp
  · rcases hr : o.replaceDelimiter with _ | ⟨_ | ⟨r, _ | ⟨r2, rt⟩⟩⟩
    · simp only [List.length_singleton, beq_self_eq_true, Bool.true_and]
      split
      · rename_i hc; simp [hc]
      · rename_i hc
        simp only [hc]
        cases hfw : forwardBoundsOf o.bounds with
        | none => simp
        | some bs =>
          have := forwardBoundsOf_last _ _ hfw
          cases hl : lastBoundRight (boundsOnly bs) with
          | none => rw [hl] at this; cases this
          | some last => simp [hl]
    · simp
    · simp only [List.length_singleton, beq_self_eq_true, Bool.true_and]
      split
      · rename_i hc; simp [hc]
      · rename_i hc
        simp only [hc]
        cases hfw : forwardBoundsOf o.bounds with
        | none => simp
        | some bs =>
          have := forwardBoundsOf_last _ _ hfw
          cases hl : lastBoundRight (boundsOnly bs) with
          | none => rw [hl] at this; cases this
          | some last => simp [hl]
    · simp
  · simp
theorem trim_isSome (o : Option Arg) (h : ∀ v, o = some v → (trimArg v).isOk = true) :
    (o.bind fun v => (trimArg v).toOption).isSome = o.isSome := by
  cases o with
  | none => rfl
  | some v =>
    have := h v rfl
    cases ht : trimArg v with
    | ok a => simp [Res.toOption, ht]
    | fail => rw [ht] at this; cases this
    | panic => rw [ht] at this; cases this

/-- `StreamOpt::try_from` accepts the `Opt` built by `parse_args` iff the option-set abstraction
    says the options are eligible for `-M` -/
theorem streamOptOf_optOf (regexOk : Arg → Bool) (bagOf : Arg → RegexBag) (t : Table) (hs : Sensible regexOk t) :
    (streamOptOf (fillBag bagOf (optOf t) t.regexText)).isSome = (flagsOf t).streamOk := by
  obtain ⟨l, hl⟩ : ∃ l, boundsListOfString t.boundsText = .ok l := by
    have := hs.bounds
    cases h : boundsListOfString t.boundsText with
    | ok a => exact ⟨a, rfl⟩
    | fail => rw [h] at this; cases this
    | panic => rw [h] at this; cases this
  rw [streamOptOf_isSome]
  simp only [fillBag, optOf, flagsOf, Flags.streamOk, Flags.isFields, Flags.regex, Table.bounds, hl,
    trim_isSome _ hs.trim, Table.regexText, Option.isSome_map]
  generalize (forwardBoundsOf l).isSome = fwd
  generalize t.flag .m = m
  generalize t.flag .g = g
  generalize t.flag .p = p
  generalize t.flag .s = s
  generalize t.flag .json = json
  generalize (t.val .t).isSome = tr
  cases hm : t.mode <;> cases hd : t.val .d <;> cases hr : t.val .r <;> cases he : t.val .e <;>
    simp [boundsTypeOf, widthOf] <;> grind
theorem rejectsUpFront_tableAnswer (regexOk : Arg → Bool) (bagOf : Arg → RegexBag) (segs : List Bytes)
    (t : Table) (hs : Sensible regexOk t) :
    rejectsUpFront bagOf segs (tableAnswer t) ↔ decision (flagsOf t) = .reject := by
  rw [decision_reject_iff]
  unfold tableAnswer
  cases hu : upFrontReject (flagsOf t) with
  | true => simp [rejectsUpFront]
  | false =>
    simp only [Bool.false_eq_true, if_false, rejectsUpFront, false_or, dispatch_none_iff]
    have hso := streamOptOf_optOf regexOk bagOf t hs
    have hmem : (flagsOf t).mem = memOfNat t.memKb := memOf_eq _ hs.mem
    have hz : (flagsOf t).mem ≠ .zero := by
      intro hz
      simp [upFrontReject, hz] at hu
    rw [← hso, hmem]
    rw [hmem] at hz
    cases hk : t.memKb with
    | none => simp [memOfNat]
    | some n =>
      cases n with
      | zero => simp [hk, memOfNat] at hz
      | succ n =>
        cases hst : streamOptOf (fillBag bagOf (optOf t) t.regexText) <;> simp [memOfNat]

/-- (b, full) **On a canonical command line the real parsing chain decides like the decision
    table.**  `parse_args` over `pico_args`, followed by the `-M` eligibility test at the head of
    `main`, rejects the command line up front — exit 1, nothing read, nothing written — iff
    `decision` (the model of `Tuc.Model.Args`, equal to the property's `conflict` list by
    `reject_iff_conflict`) rejects the option set. -/
theorem parseArgv_canon_decision (regexOk : Arg → Bool) (bagOf : Arg → RegexBag) (segs : List Bytes)
    (gs : List Group) (hwf : WF gs) (hs : Sensible regexOk (tableOf gs)) :
    rejectsUpFront bagOf segs (parseArgv regexOk (render gs)) ↔ decision (flagsOf (tableOf gs)) = .reject := by
  rw [parseArgv_canon regexOk gs hwf hs]
  exact rejectsUpFront_tableAnswer regexOk bagOf segs _ hs

/-! ## the canonical command line of a `Flags`-like record -/

/-- the options given, `Flags`-like but with the values -/
structure Canon where
  mode : Mode := .dflt          -- which of `-f -c -b -l` is given
  bounds : Arg := []            -- its value
  d : Option Arg := none
  e : Option Arg := none
  r : Option Arg := none
  tr : Option Arg := none       -- `-t`
  fallback : Option Arg := none
  mem : Option Arg := none      -- `-M`
  g : Bool := false
  p : Bool := false
  s : Bool := false
  z : Bool := false
  m : Bool := false
  j : Bool := false
  noJoin : Bool := false
  json : Bool := false
  extra : Option Arg := none    -- an argument that is no option

def flagG (i : FlagId) (b : Bool) : List Group := if b = true then [.flag i] else []

def optG (i : ValId) : Option Arg → List Group
  | some v => [.opt i v]
  | none => []

def modeG (m : Mode) (v : Arg) : List Group :=
  match m with
  | .f => [.opt .f v]
  | .c => [.opt .c v]
  | .b => [.opt .b v]
  | .l => [.opt .l v]
  | .dflt => []

def extraG : Option Arg → List Group
  | some a => [.extra a]
  | none => []

/-- each given option once, as separate arguments -/
def Canon.groups (K : Canon) : List Group :=
  modeG K.mode K.bounds ++ optG .d K.d ++ optG .r K.r ++ optG .M K.mem ++ optG .e K.e ++ optG .t K.tr ++
    optG .fallback K.fallback ++ flagG .g K.g ++ flagG .json K.json ++ flagG .j K.j ++ flagG .noJoin K.noJoin ++
    flagG .m K.m ++ flagG .s K.s ++ flagG .p K.p ++ flagG .z K.z ++ extraG K.extra

/-- `canonArgv K`: e.g. `-f 1,2 -d : -g --json` -/
def canonArgv (K : Canon) : List Arg := render K.groups

def optClean : Option Arg → Bool
  | some v => noDash v
  | none => true

/-- no value (and no stray argument) starts with `-` -/
def Canon.clean (K : Canon) : Bool :=
  (K.mode = .dflt || noDash K.bounds) && optClean K.d && optClean K.e && optClean K.r && optClean K.tr &&
    optClean K.fallback && optClean K.mem && optClean K.extra

/-- the table of the options of `K` -/
def Canon.table (K : Canon) : Table where
  flag
    | .help => false | .V => false
    | .g => K.g | .json => K.json | .j => K.j | .noJoin => K.noJoin | .m => K.m | .s => K.s | .p => K.p | .z => K.z
  val
    | .f => if K.mode = .f then some K.bounds else none
    | .c => if K.mode = .c then some K.bounds else none
    | .b => if K.mode = .b then some K.bounds else none
    | .l => if K.mode = .l then some K.bounds else none
    | .d => K.d | .r => K.r | .M => K.mem | .e => K.e | .t => K.tr | .fallback => K.fallback
  extra := K.extra.isSome

theorem sublist_ite_singleton {α : Type} (c : Prop) [Decidable c] (x : α) : List.Sublist (if c then [x] else []) [x] := by
  by_cases h : c <;> simp [h]

theorem Canon.groups_heads (K : Canon) :
    List.Sublist (K.groups.map Group.head)
      (([ValId.f, .c, .b, .l, .d, .r, .M, .e, .t, .fallback].map ValId.tok ++
        [FlagId.g, .json, .j, .noJoin, .m, .s, .p, .z].map FlagId.tok) ++ (extraG K.extra).map Group.head) := by
  have hopt : ∀ i o, List.Sublist ((optG i o).map Group.head) [i.tok] := by
    intro i o; cases o <;> simp [optG, Group.head]
  have hflag : ∀ i b, List.Sublist ((flagG i b).map Group.head) [i.tok] := by
    intro i b; cases b <;> simp [flagG, Group.head]
  have hmode : List.Sublist ((modeG K.mode K.bounds).map Group.head) ([ValId.f, .c, .b, .l].map ValId.tok) := by
    cases K.mode <;> simp [modeG, Group.head]
  simp only [Canon.groups, List.map_append]
  refine List.Sublist.append ?_ (List.Sublist.refl _)
  have := List.Sublist.append hmode <| List.Sublist.append (hopt .d K.d) <| List.Sublist.append (hopt .r K.r) <|
    List.Sublist.append (hopt .M K.mem) <| List.Sublist.append (hopt .e K.e) <| List.Sublist.append (hopt .t K.tr) <|
    List.Sublist.append (hopt .fallback K.fallback) <| List.Sublist.append (hflag .g K.g) <|
    List.Sublist.append (hflag .json K.json) <| List.Sublist.append (hflag .j K.j) <|
    List.Sublist.append (hflag .noJoin K.noJoin) <| List.Sublist.append (hflag .m K.m) <|
    List.Sublist.append (hflag .s K.s) <| List.Sublist.append (hflag .p K.p) (hflag .z K.z)
  simpa [List.append_assoc] using this
def canonTokens : List Arg :=
  [ValId.f, .c, .b, .l, .d, .r, .M, .e, .t, .fallback].map ValId.tok ++
    [FlagId.g, .json, .j, .noJoin, .m, .s, .p, .z].map FlagId.tok

theorem canonTokens_nodup : canonTokens.Nodup := by decide +kernel

theorem canonTokens_dash : ∀ t ∈ canonTokens, t.head? = some '-' := by decide +kernel

theorem Canon.wf (K : Canon) (hc : K.clean = true) : WF K.groups := by
  simp only [Canon.clean, Bool.and_eq_true] at hc
  obtain ⟨⟨⟨⟨⟨⟨⟨hb, hd⟩, he⟩, hr⟩, ht⟩, hfb⟩, hm⟩, hx⟩ := hc
  constructor
  · refine List.Nodup.sublist K.groups_heads ?_
    show (canonTokens ++ (extraG K.extra).map Group.head).Nodup
    rw [List.nodup_append]
    refine ⟨canonTokens_nodup, ?_, ?_⟩
    · cases K.extra <;> simp [extraG]
    · intro a ha b hb' hab
      subst hab
      cases hxe : K.extra with
      | none => rw [hxe] at hb'; simp [extraG] at hb'
      | some x =>
        rw [hxe] at hb' hx
        simp only [extraG, List.map_cons, List.map_nil, Group.head, List.mem_singleton] at hb'
        subst hb'
        have := canonTokens_dash _ ha
        simp [optClean, noDash, this] at hx
  · intro g hg
    simp only [Canon.groups, List.mem_append] at hg
    have hopt : ∀ i o, optClean o = true → g ∈ optG i o → g.clean = true := by
      intro i o ho hg
      cases o with
      | none => simp [optG] at hg
      | some v => simp only [optG, List.mem_singleton] at hg; subst hg; exact ho
    have hflag : ∀ i b, g ∈ flagG i b → g.clean = true := by
      intro i b hg
      cases b with
      | false => simp [flagG] at hg
      | true => simp only [flagG, if_true, List.mem_singleton] at hg; subst hg; rfl
    rcases hg with (((((((((((((((hg | hg) | hg) | hg) | hg) | hg) | hg) | hg) | hg) | hg) | hg) | hg) | hg) | hg) | hg) | hg)
    · cases hmode : K.mode <;> rw [hmode] at hg hb <;> simp [modeG] at hg hb <;> subst hg <;> exact hb
    · exact hopt _ _ hd hg
    · exact hopt _ _ hr hg
    · exact hopt _ _ hm hg
    · exact hopt _ _ he hg
    · exact hopt _ _ ht hg
    · exact hopt _ _ hfb hg
    · exact hflag _ _ hg
    · exact hflag _ _ hg
    · exact hflag _ _ hg
    · exact hflag _ _ hg
    · exact hflag _ _ hg
    · exact hflag _ _ hg
    · exact hflag _ _ hg
    · exact hflag _ _ hg
    · cases hxe : K.extra with
      | none => rw [hxe] at hg; simp [extraG] at hg
      | some x =>
        rw [hxe] at hg hx
        simp only [extraG, List.mem_singleton] at hg; subst hg; exact hx
theorem any_flagG (i j : FlagId) (b : Bool) :
    (flagG i b).any (fun g => g == Group.flag j) = (b && decide (i = j)) := by
  cases b
  · simp [flagG]
  · by_cases h : i = j
    · subst h; simp [flagG]
    · have : Group.flag i ≠ Group.flag j := fun hh => h (by cases hh; rfl)
      simp [flagG, h, this]

theorem any_optG_flag (i : ValId) (o : Option Arg) (j : FlagId) :
    (optG i o).any (fun g => g == Group.flag j) = false := by
  cases o <;> simp [optG]

theorem any_modeG_flag (m : Mode) (v : Arg) (j : FlagId) :
    (modeG m v).any (fun g => g == Group.flag j) = false := by
  cases m <;> simp [modeG]

theorem any_extraG_flag (o : Option Arg) (j : FlagId) :
    (extraG o).any (fun g => g == Group.flag j) = false := by
  cases o <;> simp [extraG]

theorem findSome_flagG (i : FlagId) (b : Bool) (j : ValId) : (flagG i b).findSome? (Group.optVal j) = none := by
  cases b <;> simp [flagG, Group.optVal]

theorem findSome_optG (i j : ValId) (o : Option Arg) :
    (optG i o).findSome? (Group.optVal j) = if i = j then o else none := by
  cases o <;> by_cases h : i = j <;> simp [optG, Group.optVal, h]

theorem findSome_modeG (m : Mode) (v : Arg) (j : ValId) :
    (modeG m v).findSome? (Group.optVal j) =
      match m, j with
      | .f, .f => some v | .c, .c => some v | .b, .b => some v | .l, .l => some v
      | _, _ => none := by
  cases m <;> cases j <;> simp [modeG, Group.optVal]

theorem findSome_extraG (o : Option Arg) (j : ValId) : (extraG o).findSome? (Group.optVal j) = none := by
  cases o <;> simp [extraG, Group.optVal]

theorem any_extra_flagG (i : FlagId) (b : Bool) : (flagG i b).any Group.isExtra = false := by
  cases b <;> simp [flagG, Group.isExtra]

theorem any_extra_optG (i : ValId) (o : Option Arg) : (optG i o).any Group.isExtra = false := by
  cases o <;> simp [optG, Group.isExtra]

theorem any_extra_modeG (m : Mode) (v : Arg) : (modeG m v).any Group.isExtra = false := by
  cases m <;> simp [modeG, Group.isExtra]

theorem any_extra_extraG (o : Option Arg) : (extraG o).any Group.isExtra = o.isSome := by
  cases o <;> simp [extraG, Group.isExtra]

/-- the table of the canonical command line of `K` is `K` -/
theorem Canon.tableOf_groups (K : Canon) : tableOf K.groups = K.table := by
  simp only [tableOf, Canon.table, Table.mk.injEq]
  refine ⟨funext fun i => ?_, funext fun i => ?_, ?_⟩
  · cases i <;>
      simp [Canon.groups, List.any_append, any_flagG, any_optG_flag, any_modeG_flag, any_extraG_flag]
  · cases i <;> cases hm : K.mode <;>
      simp [Canon.groups, List.findSome?_append, findSome_flagG, findSome_optG, findSome_modeG, findSome_extraG, hm]
  · simp [Canon.groups, List.any_append, any_extra_flagG, any_extra_optG, any_extra_modeG, any_extra_extraG]

/-- (b) for the canonical command line of a `Flags`-like record `K`: each given option once, as
    separate arguments (`-d VALUE`), values not starting with `-`.  `parse_args` over `pico_args`
    followed by the `-M` eligibility test rejects `canonArgv K` up front iff the decision table
    rejects the option set `flagsOf K.table`. -/
theorem parseArgv_canonArgv_decision (regexOk : Arg → Bool) (bagOf : Arg → RegexBag) (segs : List Bytes)
    (K : Canon) (hc : K.clean = true) (hs : Sensible regexOk K.table) :
    rejectsUpFront bagOf segs (parseArgv regexOk (canonArgv K)) ↔ decision (flagsOf K.table) = .reject := by
  have := parseArgv_canon_decision regexOk bagOf segs K.groups (K.wf hc) (by rw [K.tableOf_groups]; exact hs)
  rw [K.tableOf_groups] at this
  exact this

/-- … and what `parse_args` answers on it, in closed form -/
theorem parseArgv_canonArgv (regexOk : Arg → Bool) (K : Canon) (hc : K.clean = true)
    (hs : Sensible regexOk K.table) : parseArgv regexOk (canonArgv K) = tableAnswer K.table := by
  have := parseArgv_canon regexOk K.groups (K.wf hc) (by rw [K.tableOf_groups]; exact hs)
  rw [K.tableOf_groups] at this
  exact this
/-! ### two concrete instances (the hypotheses are satisfiable, the theorems compute) -/

/-- `tuc -f 2 -d : -j --no-join` is rejected -/
example : parseArgv (fun _ => true)
    (canonArgv { mode := .f, bounds := ['2'], d := some [':'], j := true, noJoin := true }) = .reject := by
  rw [parseArgv_canonArgv _ _ (by decide +kernel)
    ⟨by decide +kernel, rfl, rfl, by simp [Canon.table], by decide +kernel, by simp [Canon.table],
      by simp [Canon.table], by simp, rfl⟩]
  have : upFrontReject (flagsOf ({ mode := .f, bounds := ['2'], d := some [':'], j := true, noJoin := true } : Canon).table)
      = true := by decide +kernel
  simp [tableAnswer, this]

/-- the arguments of the first instance -/
example : canonArgv { mode := .f, bounds := ['2'], d := some [':'], j := true, noJoin := true } =
    [['-', 'f'], ['2'], ['-', 'd'], [':'], ['-', 'j'], ['-', '-', 'n', 'o', '-', 'j', 'o', 'i', 'n']] := by
  decide +kernel

/-! ## the help lookup comes AFTER the bounds values

`parse_args` consumes the values of `-f`, `-c`, `-b`, `-l` before it looks for `-h` / `--help` (with
pico_args' `combined-flags` the lookup of `-h` takes the first `h` of the first argument that starts
with one `-`: a bounds value such as `-1=hello` would be taken for a cluster with `h`).  So:

* `simB_parseWith` / `parseArgv_renderB` / `parseArgv_canonB` / `parseArgv_canonB_decision`: the
  theorems `parseArgv_render`, `parseArgv_canon`, `parseArgv_canon_decision` hold for command lines
  that are canonical EXCEPT that the values of `-f -c -b -l` may start with `-` (`WFB`: such a
  value must only be invisible to the four bounds lookups themselves, `quietVal`);
* `parseTable_help`, `parseTable_badBounds` (`parseArgv_canonB_help`, `parseArgv_canonB_badBounds`):
  the precedence — a bounds value that does not parse is an error even with `-h`; `-h` prints the
  help when the bounds values given parse;
* `parseTable_congr`, `parseArgv_bounds_letters`: the answer depends on a bounds value only through
  `UserBoundsList::from_str`, not on its letters;
* the repaired command lines, by computation (`parseArgv_dash_value_f`, …).
-/

/-- `Sim` from the states that satisfy `I`; the states it goes on with satisfy `J` -/
def SimI {σ₁ σ₂ α : Type} (h : σ₂ → σ₁) (I J : σ₂ → Prop) (m₁ : P σ₁ α) (m₂ : P σ₂ α) : Prop :=
  ∀ s, I s → m₁ (h s) = Step.map h (m₂ s) ∧ ∀ a s', m₂ s = .next a s' → J s'

theorem SimI.bind {σ₁ σ₂ α β : Type} {h : σ₂ → σ₁} {I J K : σ₂ → Prop} {m₁ : P σ₁ α} {m₂ : P σ₂ α}
    {f₁ : α → P σ₁ β} {f₂ : α → P σ₂ β} (hm : SimI h I J m₁ m₂) (hf : ∀ a, SimI h J K (f₁ a) (f₂ a)) :
    SimI h I K (m₁ >>= f₁) (m₂ >>= f₂) := by
  intro s hs
  obtain ⟨e, post⟩ := hm s hs
  show P.bind m₁ f₁ (h s) = Step.map h (P.bind m₂ f₂ s) ∧ ∀ a s', P.bind m₂ f₂ s = .next a s' → K s'
  unfold P.bind
  rw [e]
  cases hm2 : m₂ s with
  | done r => exact ⟨rfl, fun a s' h' => by cases h'⟩
  | next a s' => exact hf a s' (post a s' hm2)

theorem SimI.pure {σ₁ σ₂ α : Type} {h : σ₂ → σ₁} {I : σ₂ → Prop} (a : α) :
    SimI h I I (pure a : P σ₁ α) (pure a : P σ₂ α) := by
  intro s hs
  refine ⟨rfl, fun a' s' h' => ?_⟩
  cases h'; exact hs

theorem SimI.exitIf {σ₁ σ₂ : Type} {h : σ₂ → σ₁} {I : σ₂ → Prop} (c : Bool) (r : ArgvResult) :
    SimI h I I (P.exitIf c r : P σ₁ Unit) (P.exitIf c r) := by
  intro s hs
  unfold P.exitIf
  cases c
  · exact ⟨rfl, fun a' s' h' => by cases h'; exact hs⟩
  · exact ⟨rfl, fun a' s' h' => by cases h'⟩

theorem SimI.unwrap {σ₁ σ₂ α : Type} {h : σ₂ → σ₁} {I : σ₂ → Prop} (o : Option α) :
    SimI h I I (P.unwrap o : P σ₁ α) (P.unwrap o) := by
  intro s hs
  unfold P.unwrap
  cases o
  · exact ⟨rfl, fun a' s' h' => by cases h'⟩
  · exact ⟨rfl, fun a' s' h' => by cases h'; exact hs⟩

theorem SimI.ite {σ₁ σ₂ α : Type} {h : σ₂ → σ₁} {I J : σ₂ → Prop} (c : Prop) [Decidable c]
    {a₁ b₁ : P σ₁ α} {a₂ b₂ : P σ₂ α} (ha : SimI h I J a₁ a₂) (hb : SimI h I J b₁ b₂) :
    SimI h I J (if c then a₁ else b₁) (if c then a₂ else b₂) := by
  by_cases hc : c <;> simp only [hc, if_true, if_false] <;> assumption

/-- the group-level argument store without the well-formedness subtype -/
def rawOps : Ops (List Group) where
  isEmpty := List.isEmpty
  contains := grpContains
  optValue := grpOptValue

/-- the keys of the four bounds options, in the order `parse_args` looks them up -/
def boundsKeys : List Keys := [kFields, kCharacters, kBytes, kLines]

theorem boundsKeys_used : ∀ k ∈ boundsKeys, k ∈ usedValKeys := by decide +kernel

/-- the value is invisible to the lookups of `-f`, `-c`, `-b`, `-l`: it is none of `-f`, `--fields`, …
    and starts with none of `-f`, `--fields=`, … (e.g. `-1=hello`, `-2:-1`) -/
def quietVal (v : Arg) : Bool :=
  missesVal kFields v && missesVal kCharacters v && missesVal kBytes v && missesVal kLines v

theorem quietVal_miss {v : Arg} (hq : quietVal v = true) : ∀ k ∈ boundsKeys, missesVal k v = true := by
  intro k hk
  simp only [quietVal, Bool.and_eq_true] at hq
  simp only [boundsKeys, List.mem_cons, List.not_mem_nil, or_false] at hk
  rcases hk with rfl | rfl | rfl | rfl
  · exact hq.1.1.1
  · exact hq.1.1.2
  · exact hq.1.2
  · exact hq.2

/-- canonical, except that the value of an option of `S` may start with `-` when it is `quietVal` -/
def Group.cleanB (S : List ValId) : Group → Bool
  | .flag _ => true
  | .opt i v => noDash v || (S.contains i && quietVal v)
  | .extra a => noDash a

def WFB (S : List ValId) (gs : List Group) : Prop :=
  (gs.map Group.head).Nodup ∧ ∀ g ∈ gs, g.cleanB S = true

instance (S : List ValId) (gs : List Group) : Decidable (WFB S gs) := by unfold WFB; infer_instance

theorem Group.cleanB_nil (g : Group) : g.cleanB [] = g.clean := by
  cases g <;> simp [Group.cleanB, Group.clean]

theorem WFB.toWF {gs : List Group} (h : WFB [] gs) : WF gs :=
  ⟨h.1, fun g hg => by rw [← g.cleanB_nil]; exact h.2 g hg⟩

theorem WF.toWFB {gs : List Group} (h : WF gs) (S : List ValId) : WFB S gs := by
  refine ⟨h.1, fun g hg => ?_⟩
  have := h.2 g hg
  cases g <;> simp_all [Group.cleanB, Group.clean]

theorem WFB.filter {S : List ValId} {gs : List Group} (h : WFB S gs) (p : Group → Bool) : WFB S (gs.filter p) := by
  refine ⟨?_, fun g hg => h.2 g (List.mem_filter.mp hg).1⟩
  exact List.Nodup.sublist (List.Sublist.map _ List.filter_sublist) h.1

theorem WFB.split {S : List ValId} {pre post : List Group} {g : Group} (h : WFB S (pre ++ g :: post)) :
    (∀ g' ∈ pre, g'.head ≠ g.head) ∧ (∀ g' ∈ post, g'.head ≠ g.head) ∧
      (∀ g' ∈ pre, g'.cleanB S = true) ∧ (∀ g' ∈ post, g'.cleanB S = true) := by
  obtain ⟨hn, hc⟩ := h
  simp only [List.map_append, List.map_cons, List.nodup_append, List.nodup_cons, List.mem_map,
    List.mem_cons] at hn
  refine ⟨?_, ?_, ?_, ?_⟩
  · intro g' hg' heq
    exact hn.2.2 _ ⟨g', hg', rfl⟩ _ (Or.inl rfl) heq
  · intro g' hg' heq
    exact hn.2.1.1 ⟨g', hg', heq⟩
  · intro g' hg'; exact hc g' (by simp [hg'])
  · intro g' hg'; exact hc g' (by simp [hg'])

theorem group_miss_valB (k : Keys) (hk : k ∈ boundsKeys) {S : List ValId} (g : Group) (hc : g.cleanB S = true)
    (hh : g.head ≠ k.first) : ∀ a ∈ g.render, missesVal k a = true := by
  have hku := boundsKeys_used k hk
  intro a ha
  cases g with
  | flag i =>
    simp only [Group.render, List.mem_singleton] at ha; subst ha
    exact tokens_miss_val k hku _ i.tok_mem hh
  | opt i v =>
    simp only [Group.render, List.mem_cons, List.not_mem_nil, or_false] at ha
    rcases ha with rfl | rfl
    · exact tokens_miss_val k hku _ i.tok_mem hh
    · simp only [Group.cleanB, Bool.or_eq_true, Bool.and_eq_true] at hc
      rcases hc with hc | ⟨-, hq⟩
      · exact clean_miss_val k hku _ hc
      · exact quietVal_miss hq k hk
  | extra x =>
    simp only [Group.render, List.mem_singleton] at ha; subst ha
    exact clean_miss_val k hku _ hc

theorem head_ne_of_valOf_noneB (k : Keys) (hk : k ∈ usedValKeys) {S : List ValId} (g : Group)
    (hc : g.cleanB S = true) (h : g.valOf k = none) : g.head ≠ k.first := by
  cases g with
  | flag i => exact flag_tok_ne_val_key k hk i
  | opt i v =>
    simp only [Group.valOf] at h
    split at h
    · cases h
    · rename_i hne; simpa [Group.head] using hne
  | extra x => exact extra_head_ne k (List.mem_append_right _ hk) x hc

/-- `opt_value_from_str` of a bounds option, on a command line whose bounds values may start with `-` -/
theorem picoOptValue_renderB (k : Keys) (hk4 : k ∈ boundsKeys) (S : List ValId) (gs : List Group)
    (hwf : WFB S gs) : picoOptValue k (render gs) = mapOptValue render (grpOptValue k gs) := by
  have hk := boundsKeys_used k hk4
  have hne : k.first ≠ [] := by
    have := (keys_dash k (List.mem_append_right _ hk)).1
    intro h; simp [h] at this
  by_cases h : ∃ g ∈ gs, (g.valOf k).isSome = true
  · obtain ⟨g, hg, hgk⟩ := h
    obtain ⟨pre, post, rfl⟩ := List.append_of_mem hg
    obtain ⟨hpre, hpost, cpre, cpost⟩ := hwf.split
    cases g with
    | flag i => simp [Group.valOf] at hgk
    | extra x => simp [Group.valOf] at hgk
    | opt i v =>
      have hik : i.tok = k.first := by
        simp only [Group.valOf] at hgk
        split at hgk
        · rename_i hh; simpa using hh
        · simp at hgk
      have hval : (Group.opt i v).valOf k = some v := by simp [Group.valOf, hik]
      have e1 : render (pre ++ Group.opt i v :: post) = render pre ++ k.first :: v :: render post := by
        simp [render_append, render_cons, Group.render, hik]
      have hA : ∀ a ∈ render pre, (a == k.first) = false := by
        intro a ha
        obtain ⟨g', hg', hag'⟩ := mem_render.mp ha
        have hh : g'.head ≠ k.first := by rw [← hik]; exact hpre g' hg'
        have := group_miss_valB k hk4 g' (cpre g' hg') hh a hag'
        simp only [missesVal, Bool.and_eq_true, Bool.not_eq_true'] at this
        exact this.1.1
      rw [e1, picoOptValue_hit k _ _ v hne hA]
      have n1 : ∀ g' ∈ pre, g'.valOf k = none := fun g' hg' =>
        valOf_of_head_ne k g' (by rw [← hik]; exact hpre g' hg')
      have n2 : ∀ g' ∈ post, g'.valOf k = none := fun g' hg' =>
        valOf_of_head_ne k g' (by rw [← hik]; exact hpost g' hg')
      simp only [grpOptValue]
      rw [findSome?_mid _ pre post _ v n1 hval]
      rw [filter_mid _ pre post _ (fun g' hg' => by simp [n1 g' hg']) (fun g' hg' => by simp [n2 g' hg'])
        (by simp [hval])]
      simp [mapOptValue, render_append]
  · have hall : ∀ g ∈ gs, g.valOf k = none := by
      intro g hg
      cases hq : g.valOf k with
      | none => rfl
      | some v => exact absurd ⟨g, hg, by simp [hq]⟩ h
    have hmiss : ∀ a ∈ render gs, missesVal k a = true := by
      intro a ha
      obtain ⟨g, hg, hag⟩ := mem_render.mp ha
      exact group_miss_valB k hk4 g (hwf.2 g hg) (head_ne_of_valOf_noneB k hk g (hwf.2 g hg) (hall g hg)) a hag
    rw [picoOptValue_miss k _ hmiss]
    simp only [grpOptValue]
    rw [List.findSome?_eq_none_iff.mpr hall]
    rfl

/-- once the option `i` is consumed, no value of `i` is left -/
theorem Group.cleanB_drop {i : ValId} {S : List ValId} {g : Group} (hc : g.cleanB (i :: S) = true)
    (h : g.valOf i.keys = none) : g.cleanB S = true := by
  cases g with
  | flag j => rfl
  | extra x => exact hc
  | opt j v =>
    have hji : j ≠ i := by
      intro e; subst e
      simp [Group.valOf, ValId.tok] at h
    simp only [Group.cleanB, List.contains_cons, Bool.or_eq_true, Bool.and_eq_true, beq_iff_eq] at hc ⊢
    rcases hc with hc | ⟨hc | hc, hq⟩
    · exact Or.inl hc
    · exact absurd hc hji
    · exact Or.inr ⟨hc, hq⟩

theorem WFB.drop {i : ValId} {S : List ValId} {gs : List Group} (hwf : WFB (i :: S) gs) :
    WFB S (gs.filter fun g => (g.valOf i.keys).isNone) := by
  refine ⟨(hwf.filter _).1, fun g hg => ?_⟩
  obtain ⟨hg1, hg2⟩ := List.mem_filter.mp hg
  exact Group.cleanB_drop (hwf.2 g hg1) (by simpa using hg2)

theorem WFB.drop_none {i : ValId} {S : List ValId} {gs : List Group} (hwf : WFB (i :: S) gs)
    (h : gs.findSome? (Group.valOf i.keys) = none) : WFB S gs :=
  ⟨hwf.1, fun g hg => Group.cleanB_drop (hwf.2 g hg) (List.findSome?_eq_none_iff.mp h g hg)⟩

/-- the lookup of a bounds option: the values of the options of `S` may still start with `-` -/
theorem SimI.valueB {α : Type} (i : ValId) (hi : i.keys ∈ boundsKeys) (S : List ValId) (f : Arg → Res α) :
    SimI render (WFB (i :: S)) (WFB S) (picoOps.value i.keys f) (rawOps.value i.keys f) := by
  intro gs hwf
  have e : picoOps.optValue i.keys (render gs) = mapOptValue render (grpOptValue i.keys gs) :=
    picoOptValue_renderB i.keys hi _ gs hwf
  have e2 : rawOps.optValue i.keys gs = grpOptValue i.keys gs := rfl
  simp only [Ops.value, e, e2]
  unfold grpOptValue
  cases hv : gs.findSome? (Group.valOf i.keys) with
  | none =>
    refine ⟨rfl, fun a s' h' => ?_⟩
    cases h'
    exact hwf.drop_none hv
  | some v =>
    simp only [mapOptValue]
    cases f v with
    | ok a =>
      refine ⟨rfl, fun a s' h' => ?_⟩
      cases h'
      exact hwf.drop
    | fail => exact ⟨rfl, fun a s' h' => by cases h'⟩
    | panic => exact ⟨rfl, fun a s' h' => by cases h'⟩

/-! after the four bounds lookups the command line is canonical in the strict sense -/

theorem SimI.test {I : List Group → Prop} :
    SimI render I I (P.test picoOps.isEmpty) (P.test rawOps.isEmpty) := by
  intro gs hs
  refine ⟨?_, fun a s' h' => ?_⟩
  · show Step.next (render gs).isEmpty (render gs) = Step.next gs.isEmpty (render gs)
    rw [render_isEmpty]
  · cases h'; exact hs

theorem SimI.flagLate (k : Keys) (hk : k ∈ usedFlagKeys) :
    SimI render (WFB []) (WFB []) (picoOps.flag k) (rawOps.flag k) := by
  intro gs hs
  have e : picoOps.contains k (render gs) = ((grpContains k gs).1, render (grpContains k gs).2) :=
    picoContains_render k hk gs hs.toWF
  have e2 : rawOps.contains k gs = grpContains k gs := rfl
  simp only [Ops.flag, e, e2, Step.map]
  refine ⟨trivial, fun a s' h' => ?_⟩
  cases h'
  exact hs.filter _

theorem SimI.valueLate {α : Type} (k : Keys) (hk : k ∈ usedValKeys) (f : Arg → Res α) :
    SimI render (WFB []) (WFB []) (picoOps.value k f) (rawOps.value k f) := by
  intro gs hs
  have e : picoOps.optValue k (render gs) = mapOptValue render (grpOptValue k gs) :=
    picoOptValue_render k hk gs hs.toWF
  have e2 : rawOps.optValue k gs = grpOptValue k gs := rfl
  simp only [Ops.value, e, e2]
  unfold grpOptValue
  cases hv : gs.findSome? (Group.valOf k) with
  | none =>
    refine ⟨rfl, fun a s' h' => ?_⟩
    cases h'; exact hs
  | some v =>
    simp only [mapOptValue]
    cases f v with
    | ok a =>
      refine ⟨rfl, fun a s' h' => ?_⟩
      cases h'
      exact hs.filter _
    | fail => exact ⟨rfl, fun a s' h' => by cases h'⟩
    | panic => exact ⟨rfl, fun a s' h' => by cases h'⟩

theorem SimI.fallbackLate :
    SimI render (WFB []) (WFB []) picoOps.fallbackOob rawOps.fallbackOob := by
  intro gs hs
  have e : picoOps.optValue kFallback (render gs) = mapOptValue render (grpOptValue kFallback gs) :=
    picoOptValue_render kFallback (by decide) gs hs.toWF
  have e2 : rawOps.optValue kFallback gs = grpOptValue kFallback gs := rfl
  have e3 : picoOps.contains kFallbackEq (render gs) =
      ((grpContains kFallbackEq gs).1, render (grpContains kFallbackEq gs).2) :=
    picoContains_render kFallbackEq (by decide) gs hs.toWF
  have e4 : rawOps.contains kFallbackEq gs = grpContains kFallbackEq gs := rfl
  simp only [Ops.fallbackOob, e, e2, e3, e4]
  unfold grpOptValue
  cases hv : gs.findSome? (Group.valOf kFallback) with
  | none =>
    refine ⟨rfl, fun a s' h' => ?_⟩
    cases h'; exact hs
  | some v =>
    refine ⟨rfl, fun a s' h' => ?_⟩
    cases h'
    exact hs.filter _

/-- **`parse_args` over `pico_args` follows `parse_args` over the option groups** from a command line
    whose BOUNDS values may start with `-`: they are consumed before any flag is looked up. -/
theorem simB_parseWith (regexOk : Arg → Bool) :
    SimI render (WFB [.f, .c, .b, .l]) (WFB []) (parseWith picoOps regexOk) (parseWith rawOps regexOk) := by
  unfold Tuc.parseWith
  refine SimI.bind SimI.test fun _ => SimI.bind (SimI.exitIf _ _) fun _ =>
    SimI.bind (SimI.valueB .f (by decide) _ _) fun _ => SimI.bind (SimI.valueB .c (by decide) _ _) fun _ =>
    SimI.bind (SimI.valueB .b (by decide) _ _) fun _ => SimI.bind (SimI.valueB .l (by decide) _ _) fun _ => ?_
  repeat' first
    | exact SimI.pure _
    | exact SimI.exitIf _ _
    | exact SimI.unwrap _
    | exact SimI.test
    | exact SimI.fallbackLate
    | exact SimI.flagLate _ (by decide)
    | exact SimI.valueLate _ (by decide) _
    | apply SimI.ite
    | apply SimI.bind
    | intro _
    | dsimp only

theorem hom_table_raw : Hom tableOps rawOps tableOf where
  isEmpty s := tableOf_isEmpty s
  contains k _ s := by
    show (match flagIdOf k with
      | some i => ((tableOf s).flag i, (tableOf s).clearFlag i)
      | none => (false, tableOf s)) = _
    simp only [rawOps, grpContains]
    cases h : flagIdOf k with
    | some i =>
      have e : Group.isFlagOf k = fun g => g == Group.flag i := funext (isFlagOf_eq (flagIdOf_some h))
      simp only [e, tableOf_filter_flag]
      rfl
    | none =>
      have e : Group.isFlagOf k = fun _ => false := by
        funext g; cases g with
        | flag i => exact flagIdOf_none h i
        | opt i v => rfl
        | extra x => rfl
      have e1 : s.filter (fun _ => true) = s := List.filter_eq_self.mpr (fun _ _ => rfl)
      have e2 : (s.any fun _ => false) = false := by rw [List.any_eq_false]; intro _ _; simp
      simp only [e, Bool.not_false, e1, e2]
  optValue k _ s := by
    show (match valIdOf k with
      | some i =>
        match (tableOf s).val i with
        | some v => Except.ok (some (v, (tableOf s).clearVal i))
        | none => .ok none
      | none => .ok none) = _
    simp only [rawOps, grpOptValue]
    cases h : valIdOf k with
    | some i =>
      have e : Group.valOf k = Group.optVal i := funext (valOf_eq (valIdOf_some h))
      simp only [e]
      show (match s.findSome? (Group.optVal i) with
        | some v => Except.ok (some (v, (tableOf s).clearVal i))
        | none => .ok none) = _
      cases s.findSome? (Group.optVal i) with
      | none => rfl
      | some v => simp only [mapOptValue, tableOf_filter_val]
    | none =>
      have e : Group.valOf k = fun _ => none := by
        funext g; cases g with
        | flag i => rfl
        | opt i v => simp [Group.valOf, valIdOf_none h i]
        | extra x => rfl
      have e2 : s.findSome? (fun _ => (none : Option Arg)) = none := by
        rw [List.findSome?_eq_none_iff]; intro _ _; rfl
      simp only [e, e2, mapOptValue]

/-- **`parseArgv_render` for bounds values that start with `-`.** -/
theorem parseArgv_renderB (regexOk : Arg → Bool) (gs : List Group) (hwf : WFB [.f, .c, .b, .l] gs) :
    parseArgv regexOk (render gs) = parseTable regexOk (tableOf gs) := by
  have h1 := (simB_parseWith regexOk gs hwf).1
  have h2 := hom_table_raw.parseWith regexOk gs
  simp only [parseArgv, parseTable] at *
  rw [h1, h2, Step.result_map, Step.result_map]

theorem parseArgv_canonB (regexOk : Arg → Bool) (gs : List Group) (hwf : WFB [.f, .c, .b, .l] gs)
    (hs : Sensible regexOk (tableOf gs)) :
    parseArgv regexOk (render gs) = tableAnswer (tableOf gs) := by
  rw [parseArgv_renderB regexOk gs hwf, parseTable_eq regexOk _ hs]


/-! ### the precedence of the help over the bounds, on the table -/

theorem tvalue_reject {α : Type} (k : Keys) (i : ValId) (h : valIdOf k = some i) (f : Arg → Res α)
    (cont : Option α → P Table ArgvResult) (t : Table) (v : Arg) (hv : t.val i = some v)
    (hbad : (f v).isOk = false) (hp : f v ≠ .panic) :
    ((tableOps.value k f >>= cont) t).result = .reject := by
  show (P.bind _ _ _).result = _
  cases hf : f v with
  | ok a => rw [hf] at hbad; cases hbad
  | fail => simp only [P.bind, Ops.value, tableOps, h, hv, hf, Step.result_done]
  | panic => exact absurd hf hp

theorem tvalue_through {α : Type} (k : Keys) (i : ValId) (h : valIdOf k = some i) (f : Arg → Res α)
    (hp : ∀ v, f v ≠ .panic) (cont : Option α → P Table ArgvResult) (t : Table)
    (hc : ∀ a t', (∀ j, j ≠ i → t'.val j = t.val j) → (cont a t').result = .reject) :
    ((tableOps.value k f >>= cont) t).result = .reject := by
  show (P.bind _ _ _).result = _
  cases hv : t.val i with
  | none =>
    simp only [P.bind, Ops.value, tableOps, h, hv]
    exact hc none t (fun _ _ => rfl)
  | some v =>
    cases hf : f v with
    | ok a =>
      simp only [P.bind, Ops.value, tableOps, h, hv, hf]
      exact hc (some a) (t.clearVal i) (fun j hj => by simp [hj])
    | fail => simp only [P.bind, Ops.value, tableOps, h, hv, hf, Step.result_done]
    | panic => exact absurd hf (hp v)

/-- **A bounds value that does not parse is reported (exit 1), whether or not `-h` is given.** -/
theorem parseTable_badBounds (regexOk : Arg → Bool) (t : Table) (i : ValId) (hi : i ∈ [ValId.f, .c, .b, .l])
    (v : Arg) (hv : t.val i = some v) (hbad : (boundsArg v).isOk = false) :
    parseTable regexOk t = .reject := by
  have hne : t.isEmpty = false := by
    have : allValIds.all (fun j => (t.val j).isNone) = false := by
      rw [List.all_eq_false]
      exact ⟨i, i.mem_all, by simp [hv]⟩
    simp [Table.isEmpty, this]
  unfold parseTable parseWith
  simp only [ttest_bind, exitIf_bind, hne, Bool.false_eq_true, if_false]
  simp only [List.mem_cons, List.not_mem_nil, or_false] at hi
  rcases hi with rfl | rfl | rfl | rfl
  · exact tvalue_reject _ _ vid_f _ _ _ v hv hbad (boundsArg_ne_panic v)
  · refine tvalue_through _ _ vid_f _ boundsArg_ne_panic _ _ fun _ t1 h1 => ?_
    exact tvalue_reject _ _ vid_c _ _ _ v (by rw [h1 _ (by decide)]; exact hv) hbad (boundsArg_ne_panic v)
  · refine tvalue_through _ _ vid_f _ boundsArg_ne_panic _ _ fun _ t1 h1 => ?_
    refine tvalue_through _ _ vid_c _ boundsArg_ne_panic _ _ fun _ t2 h2 => ?_
    exact tvalue_reject _ _ vid_b _ _ _ v (by rw [h2 _ (by decide), h1 _ (by decide)]; exact hv) hbad
      (boundsArg_ne_panic v)
  · refine tvalue_through _ _ vid_f _ boundsArg_ne_panic _ _ fun _ t1 h1 => ?_
    refine tvalue_through _ _ vid_c _ boundsArg_ne_panic _ _ fun _ t2 h2 => ?_
    refine tvalue_through _ _ vid_b _ boundsArg_ne_panic _ _ fun _ t3 h3 => ?_
    exact tvalue_reject _ _ vid_l _ _ _ v
      (by rw [h3 _ (by decide), h2 _ (by decide), h1 _ (by decide)]; exact hv) hbad (boundsArg_ne_panic v)

/-- **`-h` prints the help when the bounds values given (if any) parse**: the help lookup comes
    after `-f`, `-c`, `-b`, `-l` have been consumed, and before everything else. -/
theorem parseTable_help (regexOk : Arg → Bool) (t : Table) (hh : t.flag .help = true)
    (hb : ∀ i ∈ [ValId.f, .c, .b, .l], ∀ v, t.val i = some v → (boundsArg v).isOk = true) :
    parseTable regexOk t = .help := by
  unfold parseTable parseWith
  simp only [ttest_bind, exitIf_bind]
  rw [tvalue_bind _ _ vid_f _ _ _ (by intro v hv; exact hb .f (by decide) v hv)]
  rw [tvalue_bind _ _ vid_c _ _ _ (by intro v hv; simp at hv; exact hb .c (by decide) v hv)]
  rw [tvalue_bind _ _ vid_b _ _ _ (by intro v hv; simp at hv; exact hb .b (by decide) v hv)]
  rw [tvalue_bind _ _ vid_l _ _ _ (by intro v hv; simp at hv; exact hb .l (by decide) v hv)]
  simp only [tflag_bind _ _ fid_help, exitIf_bind, Table.clearVal_flag, hh, if_true]
  cases t.isEmpty <;> rfl

theorem tableOf_val_of_memB {S : List ValId} {gs : List Group} (hwf : WFB S gs) (i : ValId) (v : Arg)
    (h : Group.opt i v ∈ gs) : (tableOf gs).val i = some v := by
  obtain ⟨pre, post, rfl⟩ := List.append_of_mem h
  obtain ⟨hpre, -, -, -⟩ := hwf.split
  apply findSome?_mid
  · intro g hg
    cases g with
    | flag j => rfl
    | extra x => rfl
    | opt j w =>
      have : j.tok ≠ i.tok := hpre _ hg
      have : j ≠ i := fun e => this (by rw [e])
      simp [Group.optVal, this]
  · simp [Group.optVal]

theorem mem_of_tableOf_val {gs : List Group} {i : ValId} {v : Arg} (h : (tableOf gs).val i = some v) :
    Group.opt i v ∈ gs := by
  obtain ⟨g, hg, hv⟩ := List.exists_of_findSome?_eq_some h
  cases g with
  | flag j => simp [Group.optVal] at hv
  | extra x => simp [Group.optVal] at hv
  | opt j w =>
    simp only [Group.optVal] at hv
    split at hv
    · rename_i e; subst e; cases hv; exact hg
    · cases hv

/-- `tuc … -f VALUE … -h …` with a `VALUE` that is no bounds list: exit 1, not the help — on a
    canonical command line, the bounds values possibly starting with `-` -/
theorem parseArgv_canonB_badBounds (regexOk : Arg → Bool) (gs : List Group) (hwf : WFB [.f, .c, .b, .l] gs)
    (i : ValId) (hi : i ∈ [ValId.f, .c, .b, .l]) (v : Arg) (hmem : Group.opt i v ∈ gs)
    (hbad : (boundsArg v).isOk = false) : parseArgv regexOk (render gs) = .reject := by
  rw [parseArgv_renderB regexOk gs hwf]
  exact parseTable_badBounds regexOk _ i hi v (tableOf_val_of_memB hwf i v hmem) hbad

/-- `tuc … -h …` prints the help when the bounds values given parse, whatever their letters -/
theorem parseArgv_canonB_help (regexOk : Arg → Bool) (gs : List Group) (hwf : WFB [.f, .c, .b, .l] gs)
    (hh : Group.flag .help ∈ gs)
    (hb : ∀ i ∈ [ValId.f, .c, .b, .l], ∀ v, Group.opt i v ∈ gs → (boundsArg v).isOk = true) :
    parseArgv regexOk (render gs) = .help := by
  rw [parseArgv_renderB regexOk gs hwf]
  refine parseTable_help regexOk _ ?_ (fun i hi v hv => hb i hi v (mem_of_tableOf_val hv))
  exact List.any_eq_true.mpr ⟨_, hh, by simp⟩

/-- without `-h` (and `-V`), every value parsing: never the help, whatever the letters of the bounds -/
theorem parseArgv_canonB_ne_help (regexOk : Arg → Bool) (gs : List Group) (hwf : WFB [.f, .c, .b, .l] gs)
    (hs : Sensible regexOk (tableOf gs)) : parseArgv regexOk (render gs) ≠ .help := by
  rw [parseArgv_canonB regexOk gs hwf hs, tableAnswer]
  split <;> simp

theorem parseArgv_canonB_decision (regexOk : Arg → Bool) (bagOf : Arg → RegexBag) (segs : List Bytes)
    (gs : List Group) (hwf : WFB [.f, .c, .b, .l] gs) (hs : Sensible regexOk (tableOf gs)) :
    rejectsUpFront bagOf segs (parseArgv regexOk (render gs)) ↔ decision (flagsOf (tableOf gs)) = .reject := by
  rw [parseArgv_canonB regexOk gs hwf hs]
  exact rejectsUpFront_tableAnswer regexOk bagOf segs _ hs

/-! ### the answer depends on a bounds value only through its parse -/

def optRes {α : Type} : Option (Res α) → Res (Option α)
  | none => .ok none
  | some (.ok a) => .ok (some a)
  | some .fail => .fail
  | some .panic => .panic

theorem tvalue_bind_map {α β : Type} (k : Keys) (i : ValId) (h : valIdOf k = some i) (f : Arg → Res α)
    (cont : Option α → P Table β) (t : Table) :
    (tableOps.value k f >>= cont) t =
      match optRes ((t.val i).map f) with
      | .ok o => cont o (t.clearVal i)
      | .fail => .done .reject
      | .panic => .done .panic := by
  show P.bind _ _ _ = _
  cases hv : t.val i with
  | none => simp [P.bind, Ops.value, tableOps, h, hv, optRes, Table.clearVal_of_none t i hv]
  | some v => cases hf : f v <;> simp [P.bind, Ops.value, tableOps, h, hv, hf, optRes]

/-- **`parse_args` looks at the values of `-f -c -b -l` only through `UserBoundsList::from_str`**:
    two tables that differ in the text of bounds values with the same parse get the same answer
    (in particular the letters of a bounds value cannot turn the command into `--help`). -/
theorem parseTable_congr (regexOk : Arg → Bool) (t t' : Table) (hflag : t.flag = t'.flag)
    (hextra : t.extra = t'.extra) (hval : ∀ j, j ∉ [ValId.f, .c, .b, .l] → t.val j = t'.val j)
    (hb : ∀ j ∈ [ValId.f, .c, .b, .l], (t.val j).map boundsArg = (t'.val j).map boundsArg) :
    parseTable regexOk t = parseTable regexOk t' := by
  have hclear : (((t.clearVal .f).clearVal .c).clearVal .b).clearVal .l =
      (((t'.clearVal .f).clearVal .c).clearVal .b).clearVal .l := by
    cases t with
    | mk fl vl ex =>
      cases t' with
      | mk fl' vl' ex' =>
        simp only at hflag hextra hval
        subst hflag; subst hextra
        simp only [Table.clearVal, Table.mk.injEq, true_and, and_true]
        funext j
        by_cases hj : j ∈ [ValId.f, .c, .b, .l]
        · simp only [List.mem_cons, List.not_mem_nil, or_false] at hj
          rcases hj with rfl | rfl | rfl | rfl <;> simp
        · have := hval j hj
          simp only [List.mem_cons, List.not_mem_nil, or_false, not_or] at hj
          simp [hj, this]
  have hn : ∀ j, (t.val j).isNone = (t'.val j).isNone := by
    intro j
    by_cases hj : j ∈ [ValId.f, .c, .b, .l]
    · have := congrArg Option.isNone (hb j hj)
      simpa using this
    · rw [hval j hj]
  have hemp : t.isEmpty = t'.isEmpty := by simp only [Table.isEmpty, hflag, hextra, hn]
  have hf := hb .f (by decide)
  have hc := hb .c (by decide)
  have hb' := hb .b (by decide)
  have hl := hb .l (by decide)
  unfold parseTable parseWith
  simp only [ttest_bind, exitIf_bind, tvalue_bind_map _ _ vid_f, tvalue_bind_map _ _ vid_c,
    tvalue_bind_map _ _ vid_b, tvalue_bind_map _ _ vid_l, Table.clearVal_val, reduceCtorEq, if_false,
    hf, hc, hb', hl, hclear, hemp]

theorem tableOf_swap_flag (pre post : List Group) (i : ValId) (v v' : Arg) :
    (tableOf (pre ++ Group.opt i v :: post)).flag = (tableOf (pre ++ Group.opt i v' :: post)).flag := by
  funext j
  have e : ∀ w, (Group.opt i w == Group.flag j) = false := fun w => beq_eq_false_iff_ne.mpr (by simp)
  simp [tableOf, List.any_append, e]

theorem tableOf_swap_extra (pre post : List Group) (i : ValId) (v v' : Arg) :
    (tableOf (pre ++ Group.opt i v :: post)).extra = (tableOf (pre ++ Group.opt i v' :: post)).extra := by
  simp [tableOf, List.any_append, Group.isExtra]

theorem tableOf_swap_val (pre post : List Group) (i j : ValId) (hj : j ≠ i) (v v' : Arg) :
    (tableOf (pre ++ Group.opt i v :: post)).val j = (tableOf (pre ++ Group.opt i v' :: post)).val j := by
  simp [tableOf, List.findSome?_append, List.findSome?_cons, Group.optVal, Ne.symm hj]

/-- **The letters of a bounds value do not matter**: on a canonical command line — the values of
    `-f -c -b -l` possibly starting with `-` — two bounds values with the same parse get the same
    answer of `parse_args`. -/
theorem parseArgv_bounds_letters (regexOk : Arg → Bool) (pre post : List Group) (i : ValId)
    (hi : i ∈ [ValId.f, .c, .b, .l]) (v v' : Arg)
    (hwf : WFB [.f, .c, .b, .l] (pre ++ Group.opt i v :: post))
    (hwf' : WFB [.f, .c, .b, .l] (pre ++ Group.opt i v' :: post)) (h : boundsArg v = boundsArg v') :
    parseArgv regexOk (render (pre ++ Group.opt i v :: post)) =
      parseArgv regexOk (render (pre ++ Group.opt i v' :: post)) := by
  rw [parseArgv_renderB regexOk _ hwf, parseArgv_renderB regexOk _ hwf']
  apply parseTable_congr
  · exact tableOf_swap_flag pre post i v v'
  · exact tableOf_swap_extra pre post i v v'
  · intro j hj
    exact tableOf_swap_val pre post i j (fun e => hj (e ▸ hi)) v v'
  · intro j _
    by_cases e : j = i
    · subst e
      rw [tableOf_val_of_memB hwf j v (by simp), tableOf_val_of_memB hwf' j v' (by simp)]
      simp [h]
    · rw [tableOf_swap_val pre post i j e v v']

/-! ### the repaired command lines, by computation -/

/-- the bounds `-1=hello`: the last field, `hello` when there is none -/
def lastOrHello : UserBoundsList :=
  ⟨[.bound { l := .some (-1), r := .some (-1), isLast := true, fallback := some (utf8 ['h', 'e', 'l', 'l', 'o']) }],
    .some (-1)⟩

theorem boundsArg_lastOrHello : boundsArg ['-', '1', '=', 'h', 'e', 'l', 'l', 'o'] = .ok lastOrHello := by
  decide +kernel

/-- `tuc -d , -f -1=hello` cuts (before the repair: the `h` of `hello` was taken for `-h`) -/
theorem parseArgv_dash_value_f (regexOk : Arg → Bool) :
    parseArgv regexOk [['-', 'd'], [','], ['-', 'f'], ['-', '1', '=', 'h', 'e', 'l', 'l', 'o']] =
      .run { delimiter := [44], bounds := lastOrHello } false none := rfl

/-- … wherever the value stands, and for `-c`, `-b`, `-l` alike -/
theorem parseArgv_dash_value_f_first (regexOk : Arg → Bool) :
    parseArgv regexOk [['-', 'f'], ['-', '1', '=', 'h', 'e', 'l', 'l', 'o'], ['-', 'd'], [',']] =
      .run { delimiter := [44], bounds := lastOrHello } false none := rfl

theorem parseArgv_dash_value_b (regexOk : Arg → Bool) :
    parseArgv regexOk [['-', 'b'], ['-', '1', '=', 'h', 'e', 'l', 'l', 'o']] =
      .run { delimiter := [], bounds := lastOrHello, boundsType := .bytes } false none := rfl

theorem parseArgv_dash_value_l (regexOk : Arg → Bool) :
    parseArgv regexOk [['-', 'l'], ['-', '1', '=', 'h', 'e', 'l', 'l', 'o']] =
      .run { delimiter := [10], bounds := lastOrHello, boundsType := .lines, join := true } false none := rfl

theorem parseArgv_dash_value_c :
    parseArgv (fun _ => true) [['-', 'c'], ['-', '1', '=', 'h', 'e', 'l', 'l', 'o']] =
      .run { delimiter := [], bounds := lastOrHello, boundsType := .characters, replaceDelimiter := some [],
             join := true } false (some charsRegexText) := rfl

/-- `tuc -h`, `tuc --help`, `tuc -d : -h`, `tuc -f 1 -h`, `tuc -gh` still print the help -/
theorem parseArgv_h (regexOk : Arg → Bool) : parseArgv regexOk [['-', 'h']] = .help := rfl
theorem parseArgv_help (regexOk : Arg → Bool) : parseArgv regexOk [['-', '-', 'h', 'e', 'l', 'p']] = .help := rfl
theorem parseArgv_d_h (regexOk : Arg → Bool) : parseArgv regexOk [['-', 'd'], [':'], ['-', 'h']] = .help := rfl
theorem parseArgv_f_h (regexOk : Arg → Bool) : parseArgv regexOk [['-', 'f'], ['1'], ['-', 'h']] = .help := rfl
theorem parseArgv_gh (regexOk : Arg → Bool) : parseArgv regexOk [['-', 'g', 'h']] = .help := rfl

/-- `tuc -f 0 -h` (`0` is no bound) and `tuc -h -f` (no value) are now errors: exit 1, no help -/
theorem parseArgv_f0_h (regexOk : Arg → Bool) : parseArgv regexOk [['-', 'f'], ['0'], ['-', 'h']] = .reject := rfl
theorem parseArgv_h_f (regexOk : Arg → Bool) : parseArgv regexOk [['-', 'h'], ['-', 'f']] = .reject := rfl

/-- the same through the general theorem: the hypotheses of `parseArgv_canonB` are satisfiable -/
example : parseArgv (fun _ => true) (render [.opt .d [','], .opt .f ['-', '1', '=', 'h', 'e', 'l', 'l', 'o']]) =
    tableAnswer (tableOf [.opt .d [','], .opt .f ['-', '1', '=', 'h', 'e', 'l', 'l', 'o']]) :=
  parseArgv_canonB _ _ (by decide +kernel)
    ⟨by decide +kernel, by decide +kernel, by decide +kernel, by decide +kernel, by decide +kernel,
      by simp [tableOf, Group.optVal], by simp [tableOf, Group.optVal], by simp, rfl⟩
end Tuc
