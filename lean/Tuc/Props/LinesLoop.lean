import Tuc.Model.LinesLoop
import Tuc.Lemmas.LinesLoop
import Tuc.Props.C12
/-!
# Tuc.Props.LinesLoop — the statements of `cut_lines.rs` refine the normal-form model

`Tuc.Model.LinesLoop` follows the Rust text (commit 9782769) of `read_line_with_eol`,
`cut_lines_forward_only`, `cut_lines` and `read_and_cut_lines` statement by statement
(`bounds_idx` a `usize` index with `opt.bounds.get(bounds_idx).unwrap()` checked, `line_idx` an
`i32` advanced with `checked_add` and the flag `past_last_index`, the three `while` loops with
fuel, the reader a byte string consumed by `read_until`).  This file proves that they compute
exactly what `Tuc.Model.Lines` says, on inputs of ANY number of lines:

* `cutLinesForwardOnlyLoop_eq` — `cutLinesForwardOnlyLoop = cutLinesForwardOnly` for EVERY input
  (valid UTF-8 or not, any number of lines) and every `Opt` whose bounds are `LinesLoop.PastOk`:
  every written side is at most `i32::MAX` and no open-ended bound starts at a negative index.
  The model counts lines in `Int`; the code counts in `i32` and, from the 2³¹-th line on, takes
  "open-ended" for "matches" and no bound for exhausted — `LinesLoop.isMatch_eq` and
  `LinesLoop.exhausted_eq` show that this is what `matches` / `b.r == Some(n)` say for every
  `n > i32::MAX` on such bounds (`LinesLoop.Tracks` relates `(line_idx, past_last_index)` to the
  model's index).  The hypothesis is needed for equality with the model as it is written (two
  `#guard`s below: `-2:` and a side above `i32::MAX` differ past the edge) but never bites:
  `pastOk_of_forwardOnly` — a forward-only list with sides inside `i32` is `PastOk`;
  `parsed_inI32` — the parser only produces sides inside `i32`.
* `cutLinesForwardOnlyLoop_eq_of_count` / `_of_length` — the same for EVERY bounds list
  (forward-only or not, sides of any size) when the input has at most 2³¹ − 1 lines (is shorter than
  2³¹ bytes): the function is compared as it is written, not only where the dispatcher calls it.
* `cutLinesForwardOnlyLoop_safe` — the run ends with `Ok` or `Err`: the `.unwrap()` of l.36 cannot
  panic and none of the three loops uses up its fuel (`input.len() + 1` calls of
  `read_line_with_eol`, `bounds.len() + 1` turns of the loop over the bounds per line and of the
  epilogue): they terminate.
* `cutLinesLit_eq` — the buffered `cut_lines` is the existing definition (by `rfl`).
* `readAndCutLinesLoop_eq` — the dispatcher `read_and_cut_lines` takes the same path and gives the
  same run as `readAndCutLines`, for EVERY input and every `Opt` whose written sides fit an `i32`;
  `readAndCutLinesLoop_eq_of_parsed` — for bounds the parser accepted: no hypothesis left;
  `readAndCutLinesLoop_eq_buffered` — the buffered path, no hypothesis.
* pieces (in `Tuc.Lemmas.LinesLoop`): `reader_step` / `readLineWithEol_eq` (one call of
  `read_line_with_eol` against the record splitter `records` and the UTF-8 check of the model —
  the EOL byte does not change validity), `tracks_step` (l.23-26), `innerWhile_eq` (l.35-81 =
  `fwdLine`), `epilogueWhile_eq` (l.90-124 = `fwdEnd`), `readWhile_eq` (l.22-87 = `fwdLines`, from
  any state of the counter).

History: the first version of this file transcribed `line_idx += 1` (commit 103500e) and proved
the equality only for inputs of fewer than 2³¹ lines, together with a theorem
`cutLinesForwardOnlyLoop_overflow` (panic on the 2³¹-th line; the release binary silently dropped
every later line, exit 0).  That defect was repaired in `/repo` (9782769); the theorem went with
the old text.

Section 0 compares literal and existing model by evaluation on all 728 inputs of at most 5 lines
from `{"", a, bc}` with / without the final EOL × 15 bounds lists as the parser builds them (10
forward-only, 5 not) × join / `--no-join` × `-z` (43 680 cases, both for the line-at-a-time function
alone and for the dispatcher), then with lines that are not UTF-8, fallbacks, `-m` and `-p`, and
then with the counter started at `i32::MAX − 2 … i32::MAX` and past it (11 bounds lists with sides
at the edge × 62 inputs × join × 3 start values, twice).
-/

namespace Tuc
open LinesLoop

/-! ## 0. exhaustive executable comparison -/

namespace LinesLoop

/-- every list of exactly `n` lines over the given lines -/
def lineListsOfLength (lines : List Bytes) : Nat → List (List Bytes)
  | 0 => [[]]
  | n + 1 => (lineListsOfLength lines n).flatMap fun l => lines.map fun c => c :: l

/-- the text of a list of lines: every line but the last one is followed by the EOL, the last one
    too when `finalEol` -/
def textOf (eol : UInt8) (finalEol : Bool) : List Bytes → Bytes
  | [] => []
  | [l] => if finalEol then l ++ [eol] else l
  | l :: t => l ++ [eol] ++ textOf eol finalEol t

/-- all inputs of at most `n` lines from `lines`, with and without the final EOL -/
def testInputs (lines : List Bytes) (n : Nat) (eol : UInt8) : List Bytes :=
  ((List.range (n + 1)).flatMap (lineListsOfLength lines)).flatMap fun ls =>
    [textOf eol false ls, textOf eol true ls]

/-- the bounds lists, as the parser builds them: ten forward-only ones, five that are not -/
def testBoundsTexts : List String :=
  ["1", "2", "1:", "2:3", "1,3", "1:2,2,4:", "2=F,7=G", "a{1}b{3:}", "{2}{2}", ":2,4",
   "3,1", "-1", "2:-1", "-2:", "2,1:"]

def testBounds : List UserBoundsList :=
  testBoundsTexts.filterMap fun s => (boundsListOfString s.toList).toOption

def testOpt (bounds : UserBoundsList) (join : Bool) (eol : EOL) (fb : Option Bytes) : Opt :=
  { delimiter := [eol.byte], eol := eol, bounds := bounds, boundsType := .lines, join := join,
    fallbackOob := fb }

end LinesLoop

#guard (testInputs [[], [97], [98, 99]] 5 10).length == 728
#guard testBounds.length == 15
#guard (testBounds.map fun b => isForwardOnly b.list) ==
  [true, true, true, true, true, true, true, true, true, true, false, false, false, false, false]

#guard [EOL.newline, .zero].all fun eol => testBounds.all fun bounds => [false, true].all fun join =>
  (testInputs [[], [97], [98, 99]] 5 eol.byte).all fun input =>
    let opt := testOpt bounds join eol Option.none
    cutLinesForwardOnlyLoop opt input == cutLinesForwardOnly opt input &&
    readAndCutLinesLoop opt input == readAndCutLines opt input

/-! lines that are not UTF-8 (`0xFF`, a truncated `é`) next to `é` and `a`; `--fallback-oob`;
    `-m` / `-p` (the dispatcher then takes the buffered path) -/

#guard [EOL.newline, .zero].all fun eol => testBounds.all fun bounds => [false, true].all fun join =>
  (testInputs [[], [97], [0xFF], [0xC3, 0xA9], [98, 0xC3]] 3 eol.byte).all fun input =>
    let opt := testOpt bounds join eol (Option.some [71])
    cutLinesForwardOnlyLoop opt input == cutLinesForwardOnly opt input &&
    readAndCutLinesLoop opt input == readAndCutLines opt input &&
    readAndCutLinesLoop { opt with complement := true } input ==
      readAndCutLines { opt with complement := true } input &&
    readAndCutLinesLoop { opt with compressDelimiter := true } input ==
      readAndCutLines { opt with compressDelimiter := true } input

/-! one call of `read_line_with_eol` (`a` LF `b`, NUL-terminated, not UTF-8, end of input) -/

#guard readLineWithEol [97, 10, 98] .newline == (.someOk [97, 10], [98])
#guard readLineWithEol [98] .newline == (.someOk [98], [])
#guard readLineWithEol [97, 10, 98, 0, 99] .zero == (.someOk [97, 10, 98, 0], [99])
#guard readLineWithEol [0xFF, 0, 99] .zero == (.someErr, [99])
#guard readLineWithEol [0xFF, 10, 99] .newline == (.someErr, [99])
#guard readLineWithEol [] .zero == (.none, [])

/-! the `i32` counter started next to its last value (`2147483647` = `i32::MAX`): every input of
    at most 4 lines from `{"", a}`, bounds with sides at the edge, from two lines before it — the
    rest of the function against the model started at the same index -/

namespace LinesLoop

def edgeBoundsTexts : List String :=
  ["2147483646", "2147483647", "2147483646:", "2147483647:", "2147483646:2147483647",
   "2147483645:2147483646,2147483647:", "2147483647,2147483647:", "1:", "{2147483646}x{2147483647:}",
   "2147483645,2147483647=F", ":2147483647"]

def edgeBounds : List UserBoundsList :=
  edgeBoundsTexts.filterMap fun s => (boundsListOfString s.toList).toOption

end LinesLoop

#guard edgeBounds.length == 11

#guard [2147483645, 2147483646, 2147483647].all fun (start : Int) =>
  edgeBounds.all fun bounds => [false, true].all fun join =>
    (testInputs [[], [97]] 4 10).all fun input =>
      let opt := testOpt bounds join .newline Option.none
      finish opt (readWhile opt (input.length + 1) input { lineIdx := start }) ==
        fwdLines opt (records 10 input) start bounds.list false

/-! … and with the flag already set (the model's index is then anything above `i32::MAX`) -/

#guard [2147483648, 2147483650, 4294967296].all fun (idx : Int) =>
  edgeBounds.all fun bounds => [false, true].all fun join =>
    (testInputs [[], [97]] 4 10).all fun input =>
      let opt := testOpt bounds join .newline Option.none
      finish opt (readWhile opt (input.length + 1) input
          { lineIdx := 2147483647, pastLastIndex := true }) ==
        fwdLines opt (records 10 input) idx bounds.list false

/-! why `PastOk` is asked for: past the edge the code takes "open-ended" for "matches"; the MODEL
    (an `Int` index handed to `matches`) says otherwise for an open-ended bound with a negative
    start (`-2:`: sign mismatch, no match) or with a start above `i32::MAX` — neither is ever
    handed to this function by the dispatcher, resp. produced by the parser -/

#guard finish (testOpt ⟨[.bound { l := .some (-2), r := .cont, isLast := true }], .cont⟩ true
    .newline Option.none)
  (readWhile (testOpt ⟨[.bound { l := .some (-2), r := .cont, isLast := true }], .cont⟩ true
    .newline Option.none) 9 [97, 10] { lineIdx := 2147483647, pastLastIndex := true }) !=
  fwdLines (testOpt ⟨[.bound { l := .some (-2), r := .cont, isLast := true }], .cont⟩ true
    .newline Option.none) [[97]] 2147483648 [.bound { l := .some (-2), r := .cont, isLast := true }] false

#guard finish (testOpt ⟨[.bound { l := .some 2147483650, r := .cont, isLast := true }], .cont⟩ true
    .newline Option.none)
  (readWhile (testOpt ⟨[.bound { l := .some 2147483650, r := .cont, isLast := true }], .cont⟩ true
    .newline Option.none) 9 [97, 10] { lineIdx := 2147483647, pastLastIndex := true }) !=
  fwdLines (testOpt ⟨[.bound { l := .some 2147483650, r := .cont, isLast := true }], .cont⟩ true
    .newline Option.none) [[97]] 2147483648 [.bound { l := .some 2147483650, r := .cont, isLast := true }] false

/-! `-l 2147483647:` on three lines read as lines 2³¹−2, 2³¹−1 and 2³¹: the last two are printed
    (before the repair the third one made `line_idx += 1` overflow) -/

#guard finish (testOpt ⟨[.bound { l := .some 2147483647, r := .cont, isLast := true }], .cont⟩ true
    .newline Option.none)
  (readWhile (testOpt ⟨[.bound { l := .some 2147483647, r := .cont, isLast := true }], .cont⟩ true
    .newline Option.none) 9 [97, 10, 98, 10, 99, 10] { lineIdx := 2147483645 }) ==
  Run.ok [98, 10, 99, 10]

#guard nextLine { lineIdx := 2147483646 } == { lineIdx := 2147483647 }
#guard nextLine { lineIdx := 2147483647 } == { lineIdx := 2147483647, pastLastIndex := true }
#guard nextLine { lineIdx := 2147483647, pastLastIndex := true } ==
  { lineIdx := 2147483647, pastLastIndex := true }

/-! ## 1. `cut_lines_forward_only` -/

/-- the initial state of the counter stands for the model's index 0 -/
theorem tracks_init : Tracks 0 0 false := Or.inl ⟨rfl, rfl, Int.le_refl _, by simp [i32Max]⟩

/-- **`cut_lines_forward_only`: the statements are the normal form** — same bytes, same status —
    for EVERY input, of any number of lines, and every `Opt` whose bounds are `PastOk`: every
    written side is at most `i32::MAX` and no open-ended bound starts at a negative index (every
    forward-only list the parser produces: `pastOk_of_forwardOnly`, `parsed_inI32`).  The `i32`
    counter with its flag `past_last_index` behaves like the unbounded counter of the model. -/
theorem cutLinesForwardOnlyLoop_eq (opt : Opt) (input : Bytes)
    (hb : ∀ b, BoF.bound b ∈ opt.bounds.list → PastOk b) :
    cutLinesForwardOnlyLoop opt input = cutLinesForwardOnly opt input :=
  readWhile_eq opt (input.length + 1) input [] opt.bounds.list 0 0 false false (by simp) (by omega)
    tracks_init (Or.inl hb)

/-- the same for EVERY bounds list (forward-only or not, sides of any size) on an input of at most
    2³¹ − 1 lines: the flag is then never set -/
theorem cutLinesForwardOnlyLoop_eq_of_count (opt : Opt) (input : Bytes)
    (hfit : ((records opt.eol.byte input).length : Int) ≤ i32Max) :
    cutLinesForwardOnlyLoop opt input = cutLinesForwardOnly opt input :=
  readWhile_eq opt (input.length + 1) input [] opt.bounds.list 0 0 false false (by simp) (by omega)
    tracks_init (Or.inr (by omega))

/-- **it ends with `Ok` or `Err`**: no panic (`.unwrap()` of l.36), and the loops terminate (the
    fuel is never used up) -/
theorem cutLinesForwardOnlyLoop_safe (opt : Opt) (input : Bytes)
    (hb : ∀ b, BoF.bound b ∈ opt.bounds.list → PastOk b) :
    (cutLinesForwardOnlyLoop opt input).Safe := by
  rw [cutLinesForwardOnlyLoop_eq opt input hb]
  exact cutLinesForwardOnly_safe opt input

/-! ## 2. `cut_lines` and the dispatcher -/

/-- `cut_lines`: the transcription is the existing definition -/
theorem cutLinesLit_eq (opt : Opt) (input : Bytes) : cutLinesLit opt input = cutLines opt input := rfl

/-- a forward-only list whose written sides fit an `i32` is `PastOk`: forward-only lists have no
    negative index -/
theorem pastOk_of_forwardOnly (l : List BoF) (hfwd : isForwardOnly l = true)
    (h32 : ∀ b, BoF.bound b ∈ l → b.l.InI32 ∧ b.r.InI32) :
    ∀ b, BoF.bound b ∈ l → PastOk b := by
  intro b hb
  obtain ⟨hl, hr⟩ := h32 b hb
  have hneg : hasNegativeIndices l = false := by
    unfold isForwardOnly at hfwd
    simp only [Bool.and_eq_true, Bool.not_eq_true'] at hfwd
    exact hfwd.2
  have hbn : (b.l.isNeg || b.r.isNeg) = false := by
    unfold hasNegativeIndices at hneg
    have := List.any_eq_false.1 hneg b ((mem_boundsOnly l b).2 hb)
    simpa using this
  refine ⟨?_, ?_, ?_⟩
  · intro v hv; rw [hv] at hl; exact hl.2
  · intro w hw; rw [hw] at hr; exact hr.2
  · intro _ v hv
    rw [hv] at hbn
    simp only [Side.isNeg, Bool.or_eq_false_iff, decide_eq_false_iff_not] at hbn
    omega

/-- **`read_and_cut_lines`: same path, same run**, for EVERY input (any number of lines) and every
    `Opt` whose written sides fit an `i32` (what the parser guarantees: `parsed_inI32`) -/
theorem readAndCutLinesLoop_eq (opt : Opt) (input : Bytes)
    (h32 : ∀ b, BoF.bound b ∈ opt.bounds.list → b.l.InI32 ∧ b.r.InI32) :
    readAndCutLinesLoop opt input = readAndCutLines opt input := by
  unfold readAndCutLinesLoop readAndCutLines
  by_cases hs : (!opt.complement && !opt.compressDelimiter && isForwardOnly opt.bounds.list) = true
  · have hfwd : isForwardOnly opt.bounds.list = true := by
      simp only [Bool.and_eq_true] at hs
      exact hs.2
    simp only [hs, if_true, Run.seq_empty,
      cutLinesForwardOnlyLoop_eq opt input (pastOk_of_forwardOnly _ hfwd h32)]
  · simp only [hs, Bool.false_eq_true, if_false, Run.seq_empty, cutLinesLit_eq]

/-- the buffered path needs no hypothesis -/
theorem readAndCutLinesLoop_eq_buffered (opt : Opt) (input : Bytes)
    (h : (!opt.complement && !opt.compressDelimiter && isForwardOnly opt.bounds.list) = false) :
    readAndCutLinesLoop opt input = readAndCutLines opt input := by
  unfold readAndCutLinesLoop readAndCutLines
  simp only [h, Bool.false_eq_true, if_false, Run.seq_empty, cutLinesLit_eq]

/-- whatever `UserBoundsList::from_str` accepts has all its written sides inside `i32` -/
theorem parsed_inI32 (f : List Char) (u : UserBoundsList) (h : boundsListOfString f = .ok u) :
    ∀ b, BoF.bound b ∈ u.list → b.l.InI32 ∧ b.r.InI32 := by
  obtain ⟨l0, hl0, hfv⟩ := parsed_fromVec f u h
  intro b hb
  obtain ⟨b0, h0, h1, h2⟩ := fromVec_sides l0 u hfv b hb
  obtain ⟨s, hs⟩ := parseBoundsList_parsed f l0 hl0 b0 h0
  have wf := accepted_wellformed s b0 hs
  exact ⟨h1 ▸ wf.2.2.1, h2 ▸ wf.2.2.2.1⟩

/-- **`read_and_cut_lines` on what the command line can produce**: bounds the parser accepted, any
    other option, EVERY input — no hypothesis left -/
theorem readAndCutLinesLoop_eq_of_parsed (opt : Opt) (linesArg : List Char)
    (hb : boundsListOfString linesArg = .ok opt.bounds) (input : Bytes) :
    readAndCutLinesLoop opt input = readAndCutLines opt input :=
  readAndCutLinesLoop_eq opt input (parsed_inI32 linesArg opt.bounds hb)

/-- … and the line-at-a-time function on its own, for parsed forward-only bounds -/
theorem cutLinesForwardOnlyLoop_eq_of_parsed (opt : Opt) (linesArg : List Char)
    (hb : boundsListOfString linesArg = .ok opt.bounds)
    (hfwd : isForwardOnly opt.bounds.list = true) (input : Bytes) :
    cutLinesForwardOnlyLoop opt input = cutLinesForwardOnly opt input :=
  cutLinesForwardOnlyLoop_eq opt input
    (pastOk_of_forwardOnly _ hfwd (parsed_inI32 linesArg opt.bounds hb))

/-! ## 3. any bounds list, in terms of the length of the input -/

namespace LinesLoop

theorem splitRecords_count_le (eol : UInt8) :
    ∀ (x cur : Bytes), (splitRecords eol cur x).length ≤ x.length + (if cur.isEmpty then 0 else 1) := by
  intro x
  induction x with
  | nil =>
    intro cur
    simp only [splitRecords]
    split <;> simp
  | cons c t ih =>
    intro cur
    simp only [splitRecords]
    split
    · have := ih []
      simp only [List.isEmpty_nil, if_true, Nat.add_zero] at this
      simp only [List.length_cons]
      omega
    · have := ih (c :: cur)
      simp only [List.isEmpty_cons, Bool.false_eq_true, if_false] at this
      simp only [List.length_cons]
      omega

theorem records_count_le (eol : UInt8) (input : Bytes) : (records eol input).length ≤ input.length := by
  have := splitRecords_count_le eol input []
  simpa [records] using this

end LinesLoop

/-- every bounds list (forward-only or not, sides of any size), input shorter than 2³¹ bytes -/
theorem cutLinesForwardOnlyLoop_eq_of_length (opt : Opt) (input : Bytes)
    (hlen : (input.length : Int) ≤ i32Max) :
    cutLinesForwardOnlyLoop opt input = cutLinesForwardOnly opt input :=
  cutLinesForwardOnlyLoop_eq_of_count opt input
    (by have := records_count_le opt.eol.byte input; omega)

end Tuc
