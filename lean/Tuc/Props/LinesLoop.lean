import Tuc.Model.LinesLoop
import Tuc.Lemmas.LinesLoop
import Tuc.Props.C12
/-!
# Tuc.Props.LinesLoop — the statements of `cut_lines.rs` refine the normal-form model

`Tuc.Model.LinesLoop` follows the Rust text of `read_line_with_eol`, `cut_lines_forward_only`,
`cut_lines` and `read_and_cut_lines` statement by statement (`bounds_idx` a `usize` index with
`opt.bounds.get(bounds_idx).unwrap()` checked, `line_idx` an `i32` with a checked `+= 1`, the three
`while` loops with fuel, the reader a byte string consumed by `read_until`).  This file proves that
they compute exactly what `Tuc.Model.Lines` says:

* `cutLinesForwardOnlyLoop_eq` — `cutLinesForwardOnlyLoop = cutLinesForwardOnly` for EVERY input
  (valid UTF-8 or not), EVERY `Opt` and EVERY bounds list — forward-only or not: the function is
  compared as it is written, not only where the dispatcher calls it — under ONE hypothesis: the
  input has at most 2³¹ − 1 lines (`line_idx` is an `i32`; the model counts in `Int`).
* `cutLinesForwardOnlyLoop_safe` — under the same hypothesis the run ends with `Ok` or `Err`: the
  `.unwrap()` of l.30 cannot panic, `line_idx += 1` does not overflow, and none of the three loops
  uses up its fuel (`input.len() + 1` calls of `read_line_with_eol`, `bounds.len() + 1` turns of
  the loop over the bounds per line and of the epilogue): they terminate.
* `cutLinesForwardOnlyLoop_overflow` — the hypothesis is needed: with an open last bound and 2³¹
  UTF-8 lines or more the literal function panics (debug build) where the model goes on.
* `cutLinesLit_eq` — the buffered `cut_lines` is the existing definition (by `rfl`).
* `readAndCutLinesLoop_eq` — the dispatcher `read_and_cut_lines` takes the same path and gives the
  same run as `readAndCutLines`, for every input and every `Opt` (same hypothesis, needed on the
  line-at-a-time path only: `readAndCutLinesLoop_eq_buffered` has none).
* `_of_length` variants: an input shorter than 2³¹ bytes has fewer than 2³¹ lines.
* pieces (in `Tuc.Lemmas.LinesLoop`): `reader_step` / `readLineWithEol_eq` (one call of
  `read_line_with_eol` against the record splitter `records` and the UTF-8 check of the model —
  the EOL byte does not change validity), `innerWhile_eq` (l.29-69 = `fwdLine`),
  `epilogueWhile_eq` (l.78-112 = `fwdEnd`), `readWhile_eq` (l.19-75 = `fwdLines`).

Section 0 compares literal and existing model by evaluation on all 728 inputs of at most 5 lines
from `{"", a, bc}` with / without the final EOL × 15 bounds lists as the parser builds them (10
forward-only, 5 not) × join / `--no-join` × `-z` (43 680 cases, both for the line-at-a-time function
alone and for the dispatcher), then with lines that are not UTF-8, fallbacks, `-m` and `-p`.
-/

namespace Tuc
open LinesLoop

/-! ## 0. exhaustive executable comparison -/

namespace LinesLoop

/-- every list of exactly `n` lines over the given lines -/
def lineListsOfLength (lines : List Bytes) : Nat → List (List Bytes)
  | 0 => [[]]
  | n + 1 => (lineListsOfLength lines n).flatMap fun l => lines.map fun c => c :: l

/-- the text of a list of lines: every line but the last one is followed by the EOL, the last one
    too when `finalEol` -/
def textOf (eol : UInt8) (finalEol : Bool) : List Bytes → Bytes
  | [] => []
  | [l] => if finalEol then l ++ [eol] else l
  | l :: t => l ++ [eol] ++ textOf eol finalEol t

/-- all inputs of at most `n` lines from `lines`, with and without the final EOL -/
def testInputs (lines : List Bytes) (n : Nat) (eol : UInt8) : List Bytes :=
  ((List.range (n + 1)).flatMap (lineListsOfLength lines)).flatMap fun ls =>
    [textOf eol false ls, textOf eol true ls]

/-- the bounds lists, as the parser builds them: ten forward-only ones, five that are not -/
def testBoundsTexts : List String :=
  ["1", "2", "1:", "2:3", "1,3", "1:2,2,4:", "2=F,7=G", "a{1}b{3:}", "{2}{2}", ":2,4",
   "3,1", "-1", "2:-1", "-2:", "2,1:"]

def testBounds : List UserBoundsList :=
  testBoundsTexts.filterMap fun s => (boundsListOfString s.toList).toOption

def testOpt (bounds : UserBoundsList) (join : Bool) (eol : EOL) (fb : Option Bytes) : Opt :=
  { delimiter := [eol.byte], eol := eol, bounds := bounds, boundsType := .lines, join := join,
    fallbackOob := fb }

end LinesLoop

#guard (testInputs [[], [97], [98, 99]] 5 10).length == 728
#guard testBounds.length == 15
#guard (testBounds.map fun b => isForwardOnly b.list) ==
  [true, true, true, true, true, true, true, true, true, true, false, false, false, false, false]

#guard [EOL.newline, .zero].all fun eol => testBounds.all fun bounds => [false, true].all fun join =>
  (testInputs [[], [97], [98, 99]] 5 eol.byte).all fun input =>
    let opt := testOpt bounds join eol Option.none
    cutLinesForwardOnlyLoop opt input == cutLinesForwardOnly opt input &&
    readAndCutLinesLoop opt input == readAndCutLines opt input

/-! lines that are not UTF-8 (`0xFF`, a truncated `é`) next to `é` and `a`; `--fallback-oob`;
    `-m` / `-p` (the dispatcher then takes the buffered path) -/

#guard [EOL.newline, .zero].all fun eol => testBounds.all fun bounds => [false, true].all fun join =>
  (testInputs [[], [97], [0xFF], [0xC3, 0xA9], [98, 0xC3]] 3 eol.byte).all fun input =>
    let opt := testOpt bounds join eol (Option.some [71])
    cutLinesForwardOnlyLoop opt input == cutLinesForwardOnly opt input &&
    readAndCutLinesLoop opt input == readAndCutLines opt input &&
    readAndCutLinesLoop { opt with complement := true } input ==
      readAndCutLines { opt with complement := true } input &&
    readAndCutLinesLoop { opt with compressDelimiter := true } input ==
      readAndCutLines { opt with compressDelimiter := true } input

/-! one call of `read_line_with_eol` (`a` LF `b`, NUL-terminated, not UTF-8, end of input) -/

#guard readLineWithEol [97, 10, 98] .newline == (.someOk [97, 10], [98])
#guard readLineWithEol [98] .newline == (.someOk [98], [])
#guard readLineWithEol [97, 10, 98, 0, 99] .zero == (.someOk [97, 10, 98, 0], [99])
#guard readLineWithEol [0xFF, 0, 99] .zero == (.someErr, [99])
#guard readLineWithEol [0xFF, 10, 99] .newline == (.someErr, [99])
#guard readLineWithEol [] .zero == (.none, [])

/-! the `i32` counter: the 2³¹-th line -/

#guard (readWhile (testOpt ⟨[.bound { l := .some 1, r := .cont, isLast := true }], .cont⟩ true .newline
    Option.none) 5 [97, 10] { lineIdx := 2147483646 }).1 == Run.ok [97]
#guard (readWhile (testOpt ⟨[.bound { l := .some 1, r := .cont, isLast := true }], .cont⟩ true .newline
    Option.none) 5 [97, 10] { lineIdx := 2147483647 }).1 == Run.panic

/-! ## 1. `cut_lines_forward_only` -/

/-- **`cut_lines_forward_only`: the statements are the normal form** — same bytes, same status —
    for every input, every `Opt`, every bounds list (forward-only or not), as long as the `i32`
    counter `line_idx` fits: at most 2³¹ − 1 lines. -/
theorem cutLinesForwardOnlyLoop_eq (opt : Opt) (input : Bytes)
    (hfit : ((records opt.eol.byte input).length : Int) ≤ i32Max) :
    cutLinesForwardOnlyLoop opt input = cutLinesForwardOnly opt input := by
  have := readWhile_eq opt (input.length + 1) input [] opt.bounds.list 0 false (by simp) (by omega)
    (Int.le_refl _) (by omega)
  exact this

/-- **it ends with `Ok` or `Err`**: no panic (`.unwrap()` of l.30, `line_idx += 1`), and the loops
    terminate (the fuel is never used up) -/
theorem cutLinesForwardOnlyLoop_safe (opt : Opt) (input : Bytes)
    (hfit : ((records opt.eol.byte input).length : Int) ≤ i32Max) :
    (cutLinesForwardOnlyLoop opt input).Safe := by
  rw [cutLinesForwardOnlyLoop_eq opt input hfit]
  exact cutLinesForwardOnly_safe opt input

/-- **the hypothesis on the number of lines is needed**: when the bounds list ends with an open
    bound (`N:` — the read loop is then never left early), every line is UTF-8 and the input has
    2³¹ lines or more, the literal function panics (`line_idx += 1` overflows: panic in the debug
    build; the release build wraps to `i32::MIN`, after which `matches` answers `Err` — taken as
    "no match" by `unwrap_or(false)` — for every further line) — the normal-form model counts in
    `Int` and prints every line. -/
theorem cutLinesForwardOnlyLoop_overflow (opt : Opt) (input : Bytes) (r0 : List BoF) (b : UserBounds)
    (hlist : opt.bounds.list = r0 ++ [.bound b]) (hb : b.r = .cont)
    (hval : ∀ l ∈ records opt.eol.byte input, validUtf8 l = true)
    (hmany : i32Max < ((records opt.eol.byte input).length : Int)) :
    (cutLinesForwardOnlyLoop opt input).status = .panic := by
  have h : (readWhile opt (input.length + 1) input
      { lineIdx := 0, boundsIdx := 0, addNewlineNext := false }).1.status = .panic :=
    readWhile_overflow opt b hb (input.length + 1) input [] r0 0 false (by simpa using hlist)
      (by omega) (Int.le_refl _) (by simp [i32Max]) hval (by omega)
  have hne : (readWhile opt (input.length + 1) input
      { lineIdx := 0, boundsIdx := 0, addNewlineNext := false }).1.status ≠ .ok := by rw [h]; simp
  unfold cutLinesForwardOnlyLoop
  simp only [Run.seq_of_not_ok _ _ hne]
  exact h

/-! ## 2. `cut_lines` and the dispatcher -/

/-- `cut_lines`: the transcription is the existing definition -/
theorem cutLinesLit_eq (opt : Opt) (input : Bytes) : cutLinesLit opt input = cutLines opt input := rfl

/-- **`read_and_cut_lines`: same path, same run**, for every input and every `Opt` -/
theorem readAndCutLinesLoop_eq (opt : Opt) (input : Bytes)
    (hfit : ((records opt.eol.byte input).length : Int) ≤ i32Max) :
    readAndCutLinesLoop opt input = readAndCutLines opt input := by
  unfold readAndCutLinesLoop readAndCutLines
  simp only [Run.seq_empty, cutLinesLit_eq, cutLinesForwardOnlyLoop_eq opt input hfit]

/-- the buffered path needs no hypothesis -/
theorem readAndCutLinesLoop_eq_buffered (opt : Opt) (input : Bytes)
    (h : (!opt.complement && !opt.compressDelimiter && isForwardOnly opt.bounds.list) = false) :
    readAndCutLinesLoop opt input = readAndCutLines opt input := by
  unfold readAndCutLinesLoop readAndCutLines
  simp only [h, Bool.false_eq_true, if_false, Run.seq_empty, cutLinesLit_eq]

/-! ## 3. in terms of the length of the input -/

namespace LinesLoop

theorem splitRecords_count_le (eol : UInt8) :
    ∀ (x cur : Bytes), (splitRecords eol cur x).length ≤ x.length + (if cur.isEmpty then 0 else 1) := by
  intro x
  induction x with
  | nil =>
    intro cur
    simp only [splitRecords]
    split <;> simp
  | cons c t ih =>
    intro cur
    simp only [splitRecords]
    split
    · have := ih []
      simp only [List.isEmpty_nil, if_true, Nat.add_zero] at this
      simp only [List.length_cons]
      omega
    · have := ih (c :: cur)
      simp only [List.isEmpty_cons, Bool.false_eq_true, if_false] at this
      simp only [List.length_cons]
      omega

theorem records_count_le (eol : UInt8) (input : Bytes) : (records eol input).length ≤ input.length := by
  have := splitRecords_count_le eol input []
  simpa [records] using this

end LinesLoop

theorem cutLinesForwardOnlyLoop_eq_of_length (opt : Opt) (input : Bytes)
    (hlen : (input.length : Int) ≤ i32Max) :
    cutLinesForwardOnlyLoop opt input = cutLinesForwardOnly opt input :=
  cutLinesForwardOnlyLoop_eq opt input (by have := records_count_le opt.eol.byte input; omega)

theorem readAndCutLinesLoop_eq_of_length (opt : Opt) (input : Bytes)
    (hlen : (input.length : Int) ≤ i32Max) :
    readAndCutLinesLoop opt input = readAndCutLines opt input :=
  readAndCutLinesLoop_eq opt input (by have := records_count_le opt.eol.byte input; omega)

end Tuc
