import Tuc.Model.Main
import Tuc.Props.C19
import Tuc.Props.C19Argv
import Tuc.Props.C01
import Tuc.Props.C02
import Tuc.Props.C03Parsed
import Tuc.Props.C05Buffered
import Tuc.Props.C06
import Tuc.Props.C07Spec
import Tuc.Props.C08Spec
/-!
# End to end — from the argument vector to the abstract specification

`tucMain regexOk argv segs` (`Tuc.Model.Main`) is `main` of `src/bin/tuc.rs`: `parseArgv` (pico_args
+ `parse_args`), the regex bag, `dispatch` on a stdin that delivers `segs.flatten` in the pieces
`segs`.  It is the very function the driver's case kind `argv` prints and `tool/argv_diff.py`
compares with the real binary.  Here, for the canonical command line `canonArgv K` of a record `K`
of options (`Canon`: each option at most once, first key, value as a separate argument, values not
starting with `-`) with `K.accepted` (decidable: values parse, no conflict decided in
`parse_args`), the request is `K.cfg : Spec.Cfg` in closed form and

| theorem | command lines | inputs | composed from |
|---|---|---|---|
| `tucMain_canon` | every accepted `K` | all | `parseArgv_canonArgv` (= `parseArgv_render` ∘ `parseTable_eq`, `Canon.wf`, `Canon.tableOf_groups`) |
| `tuc_fields_eq_spec` | `-f`/default, `-d X` (`X ≠ ""`), any of `-g -p -s -t -z -m -j --no-join -r --fallback-oob` | all, every segmentation | + engine choice, C02 `readAndCutFast_eq_readAndCutStr`, C01 `general_engine_eq_spec_of_parsed` |
| `tuc_fields_json_eq_spec` | the same with `--json` | all | + C08 `json_run_eq_spec_of_parsed` |
| `tuc_fixedMemory_eq_spec` | `-M N`, option set `streamOk` | admissible records (`hadm`), EVERY segmentation | + `streamOptOf_optOf`, C03 `dispatch_fixedMemory_eq_spec` (= `stream_refines_spec_of_parsed`, C04, C18) |
| `tuc_bytes_eq_spec` | `-b` | all | + C06 `readAndCutBytes_eq_spec` |
| `tuc_chars_eq_spec` | `-c`, with or without `--json` | valid UTF-8 | + C07/C08 `chars_run_eq_spec_gen` |
| `tuc_lines_eq_spec` | `-l`, any of `-z -m -j --no-join --fallback-oob` | valid UTF-8, not empty / a lone EOL; `hfwd` for forward-only requests | + C05 `readAndCutLines_eq_specLines` |
| `tuc_lines_buffered_eq_spec` | `-l` with `-m` or bounds not forward-only | valid UTF-8 | + `readAndCutLines_buffered`, C05 `cutLines_eq_specLines_all` |
| `tuc_reject_iff_conflict` | every well-formed `K` without `-e` | all | `parseArgv_canonArgv`, `rejectsUpFront_tableAnswer` (`decision_reject_iff`, `streamOptOf_optOf`), C19 `reject_iff_conflict` |

In every theorem the bounds hypotheses of the engine theorems (no index 0, `is_last` on the last
bound, no two fillers in a row, well-formed ranges) are discharged from "the bounds text parses"
(`boundsListOfString_good`, C18 `accepted_wellformed`, C04), and the conclusion is an equation
between `MainResult`s: `.run r` with `r : Run` = the bytes on stdout AND the exit status.

Hypotheses kept because no canonical command line guarantees them (each with a kernel-checked
counter-example at the end of the file): `-d` is not the empty string (C01), `-l` without
`-s -t -g -p -r` (C05: `parse_args` accepts them, `cut_lines` obeys them, `specLines` ignores
them), the input-side hypotheses of C03 (`Admissible`), C05 (valid UTF-8; forward-only requests:
no format text, resolvable, input not empty) and C07 (valid UTF-8).  `regexOk "\\b|\\B"` is asked
in every mode only because `Sensible` (C19Argv) bundles it.

Outside: every NON-canonical spelling pico_args accepts (`-d:`, `--delimiter=:`, clusters `-gp`,
repeated options, values that look like options such as `-d -` or `-l -1`, `-h`/`-V`) — covered
only by the differential test of the argv model (`tool/argv_diff.py`, K-argv), not by a theorem
(at the argv layer alone, bounds values that start with `-` are: `parseArgv_canonB` of C19Argv);
`-e RE` (regex delimiters: `Re.parse` is a `partial def`, C16 is per-record); read and write
faults, short writes and the `BufWriter` (C12/C14: `deliver`, `dispatchReadFault`, not part of
`tucMain`); argv that is not UTF-8; the regex engine's verdict `regexOk`.
-/
namespace Tuc
open Tuc.Spec
set_option linter.constructorNameAsVariable false

/-! ## the request of a canonical command line, in closed form -/

/-- the text of the bounds in force: the value of `-f`/`-c`/`-b`/`-l`, or `1:` -/
def Canon.boundsText (K : Canon) : Arg := if K.mode = .dflt then ['1', ':'] else K.bounds

/-- the parsed bounds (`UserBoundsList::from_str`) -/
def Canon.ubl (K : Canon) : UserBoundsList :=
  match boundsListOfString K.boundsText with
  | .ok l => l
  | _ => ⟨[], .cont⟩

def Canon.eol (K : Canon) : EOL := if K.z = true then .zero else .newline

/-- the delimiter: `-d`'s value (TAB by default) in field mode, the EOL in line mode -/
def Canon.delimiter (K : Canon) : Bytes :=
  match K.mode with
  | .l => [K.eol.byte]
  | .c => []
  | .b => []
  | _ => match K.d with
    | Option.some x => utf8 x
    | none => [9]

/-- **the specification's request (`Cfg`) of the command line `canonArgv K`** -/
def Canon.cfg (K : Canon) : Cfg :=
  { delimiter := K.delimiter
    eol := K.eol.byte
    bofs := K.ubl.list
    chars := decide (K.mode = .c)
    onlyDelimited := K.s
    greedy := K.g
    compress := K.p && (decide (K.mode = .f) || decide (K.mode = .dflt) || decide (K.mode = .l))
    replace := if K.json = true then Option.some [44] else if K.mode = .c then Option.some [] else K.r.map utf8
    trim := K.tr.bind fun v => (trimArg v).toOption
    complement := K.m
    join := K.j || K.json || K.r.isSome || (decide (K.mode = .l) && !K.noJoin) || decide (K.mode = .c)
    json := K.json
    fallback := K.fallback.map utf8 }

theorem Canon.table_mode (K : Canon) : K.table.mode = K.mode := by
  cases hm : K.mode <;> simp [Table.mode, Canon.table, hm]

theorem Canon.table_boundsText (K : Canon) : K.table.boundsText = K.boundsText := by
  cases hm : K.mode <;> simp [Table.boundsText, Canon.boundsText, Canon.table, hm]

theorem Canon.table_bounds (K : Canon) : K.table.bounds = K.ubl := by
  simp only [Table.bounds, Canon.ubl, Canon.table_boundsText]
  cases boundsListOfString K.boundsText <;> rfl

/-- the `Opt` built by `parse_args`, seen by the specification, is `K.cfg` (whatever the regex bag) -/
theorem Canon.cfgOf_optOf (K : Canon) (bag : Option RegexBag) :
    cfgOf { optOf K.table with regexBag := bag } = K.cfg := by
  simp only [cfgOf, optOf, Canon.cfg, Canon.table_mode, Canon.table_bounds, Canon.delimiter, Canon.eol]
  cases hm : K.mode <;> cases hz : K.z <;> cases hd : K.d <;> simp [boundsTypeOf, Canon.table, hz, hd]

/-! ## accepted canonical command lines -/

def optAll (p : Arg → Bool) : Option Arg → Bool
  | none => true
  | Option.some v => p v

/-- every value given parses: the bounds (`UserBoundsList::from_str`), `-M` (`usize`), `-t`
    (`l|r|b`, any case) -/
def Canon.valuesOk (K : Canon) : Bool :=
  (boundsListOfString K.boundsText).isOk && optAll (fun v => (parseUsize v).isSome) K.mem &&
    optAll (fun v => (trimArg v).isOk) K.tr

/-- the canonical command line of `K` is well formed (a decidable condition on `K`): no value
    starts with `-`, some argument is given (else: the short help), every value parses -/
def Canon.wellFormed (K : Canon) : Bool :=
  K.clean && !(canonArgv K).isEmpty && K.valuesOk

/-- **`parse_args` accepts the canonical command line of `K`** (a decidable condition on `K`): it is
    well formed and none of the conflicts decided inside `parse_args` (`upFrontReject`, the part of
    the decision table `decision` that sits in `parse_args`; `decision_reject_iff`) is present. -/
def Canon.accepted (K : Canon) : Bool :=
  K.wellFormed && !upFrontReject (flagsOf K.table)

theorem canonArgv_isEmpty (K : Canon) : (canonArgv K).isEmpty = K.table.isEmpty := by
  rw [canonArgv, render_isEmpty, ← tableOf_isEmpty, K.tableOf_groups]

theorem optAll_spec {p : Arg → Bool} {o : Option Arg} (h : optAll p o = true) (v : Arg)
    (hv : o = Option.some v) : p v = true := by
  subst hv; exact h

/-- the hypotheses of `parseArgv_canon` (`Sensible`) for an accepted `K`.  `regexOk` is the regex
    engine's verdict: on the value of `-e` if there is one, and on the fixed `\b|\B` of `-c`
    (`Sensible` asks for the latter in every mode). -/
theorem Canon.sensible (regexOk : Arg → Bool) (K : Canon) (hK : K.wellFormed = true)
    (hre : optAll regexOk K.e = true) (hcre : regexOk charsRegexText = true) :
    Sensible regexOk K.table := by
  simp only [Canon.wellFormed, Canon.valuesOk, Bool.and_eq_true, Bool.not_eq_true'] at hK
  obtain ⟨⟨_, hne⟩, ⟨hb, hm⟩, ht⟩ := hK
  refine ⟨?_, rfl, rfl, ?_, ?_, ?_, ?_, ?_, hcre⟩
  · rw [← canonArgv_isEmpty]; exact hne
  · cases hmode : K.mode <;> simp [Canon.table, hmode]
  · rw [K.table_boundsText]; exact hb
  · intro v hv; exact optAll_spec hm v hv
  · intro v hv; exact optAll_spec ht v hv
  · intro v hv; exact optAll_spec hre v hv

theorem Canon.accepted_parts (K : Canon) (hK : K.accepted = true) :
    K.wellFormed = true ∧ K.clean = true ∧ K.valuesOk = true ∧ upFrontReject (flagsOf K.table) = false := by
  simp only [Canon.accepted, Canon.wellFormed, Bool.and_eq_true, Bool.not_eq_true'] at hK ⊢
  exact ⟨hK.1, hK.1.1.1, hK.1.2, hK.2⟩

/-- **From the argument vector to the engines.**  On an accepted canonical command line `main` is:
    the `Opt` of `optOf` (closed form of what `parse_args` builds), the regex bag, the dispatch.
    Composes `parseArgv_canonArgv` (= `parseArgv_render` ∘ `parseTable_eq`). -/
theorem tucMain_canon (regexOk : Arg → Bool) (K : Canon) (hK : K.accepted = true)
    (hre : optAll regexOk K.e = true) (hcre : regexOk charsRegexText = true) (segs : List Bytes) :
    tucMain regexOk (canonArgv K) segs =
      tucRun (optOf K.table) K.table.memKb.isSome K.table.regexText segs := by
  obtain ⟨hW, hc, _, hu⟩ := K.accepted_parts hK
  have hs := K.sensible regexOk hW hre hcre
  unfold tucMain
  rw [parseArgv_canonArgv regexOk K hc hs, tableAnswer, hu]
  rfl

/-! ## `main`'s dispatch against the specification, mode by mode (over any `Opt`) -/

theorem fromVec_of_parsed (s : Arg) (ubl : UserBoundsList) (h : boundsListOfString s = .ok ubl) :
    ∃ l, fromVec l = .ok ubl := by
  unfold boundsListOfString at h
  split at h
  · cases h
  · split at h
    · cases h
    · rename_i l hl
      split at h
      · cases h
      · exact ⟨l, h⟩

/-- field mode, literal delimiter, no `--json`: whichever of the fast lane and the general path
    `main` picks (C02), it is the specification (C01) -/
theorem dispatch_fields_eq_spec (o : Opt) (arg : Arg) (hparse : boundsListOfString arg = .ok o.bounds)
    (hd : o.delimiter ≠ []) (hre : o.regexBag = none) (hty : o.boundsType = .fields)
    (hjson : o.json = false) (segs : List Bytes) :
    dispatch o false segs = Option.some (specRun (cfgOf o) segs.flatten) := by
  have hgood := boundsListOfString_good arg o.bounds hparse
  have hstr := general_engine_eq_spec_of_parsed o segs.flatten arg hparse hd hre hty hjson
  unfold dispatch
  simp only [Bool.false_eq_true, if_false, hty, reduceCtorEq]
  cases hf : fastOptOf o with
  | none => simp only [hstr]
  | some fo =>
    obtain ⟨l, hl⟩ := fromVec_of_parsed arg o.bounds hparse
    simp only [readAndCutFast_eq_readAndCutStr o fo hf l hl hgood.1, hstr]

/-- field mode with `--json`: never the fast lane; the general path is the specification (C08) -/
theorem dispatch_fields_json_eq_spec (o : Opt) (arg : Arg)
    (hparse : boundsListOfString arg = .ok o.bounds)
    (hd : o.delimiter ≠ []) (hre : o.regexBag = none) (hty : o.boundsType = .fields)
    (hjson : o.json = true) (segs : List Bytes) :
    dispatch o false segs = Option.some (specRun (cfgOf o) segs.flatten) := by
  have hstr := json_run_eq_spec_of_parsed o segs.flatten arg hparse hd hre (Or.inl hty) hjson
  have hf : fastOptOf o = none := by
    cases h : fastOptOf o with
    | none => rfl
    | some fo =>
      have := (fastOptOf_isSome_iff o).mp (by rw [h]; rfl)
      rw [this.2.2.2.2.1] at hjson; cases hjson
  unfold dispatch
  simp only [Bool.false_eq_true, if_false, hty, reduceCtorEq, hf, hstr]

/-- `tucRun` without a regex -/
theorem tucRun_plain (o : Opt) (fm : Bool) (segs : List Bytes) (hbt : o.boundsType ≠ .characters)
    (hbag : o.regexBag = none) :
    tucRun o fm none segs = MainResult.ofDispatch (dispatch o fm segs) := by
  have ho : { o with regexBag := none } = o := by
    cases o; simp only at hbag; subst hbag; rfl
  simp only [tucRun, compileBag, hbt, if_false, ho, decide_false, Bool.false_and, Bool.false_eq_true]

/-- `tucRun` in character mode on valid UTF-8 -/
theorem tucRun_chars (o : Opt) (fm : Bool) (re : Option Arg) (segs : List Bytes)
    (hbt : o.boundsType = .characters) (hv : validUtf8 segs.flatten = true) :
    tucRun o fm re segs =
      MainResult.ofDispatch (dispatch { o with regexBag := Option.some charsBag } fm segs) := by
  simp only [tucRun, compileBag, hbt, if_true, hv, Bool.not_true, Bool.and_false, Bool.false_eq_true,
    if_false]

theorem utf8EncodeChar_ne_nil (c : Char) : String.utf8EncodeChar c ≠ [] := by
  unfold String.utf8EncodeChar
  dsimp only
  split
  · simp
  · split
    · simp
    · split <;> simp

theorem utf8_ne_nil {x : Arg} (h : x ≠ []) : utf8 x ≠ [] := by
  cases x with
  | nil => exact absurd rfl h
  | cons c t =>
    have := utf8EncodeChar_ne_nil c
    simp [utf8, this]

theorem Canon.parsed (K : Canon) (h : (boundsListOfString K.boundsText).isOk = true) :
    boundsListOfString K.boundsText = .ok K.ubl := by
  unfold Canon.ubl
  cases hb : boundsListOfString K.boundsText with
  | ok l => rfl
  | fail => rw [hb] at h; cases h
  | panic => rw [hb] at h; cases h

theorem Canon.accepted_parsed (K : Canon) (hK : K.accepted = true) :
    boundsListOfString K.boundsText = .ok K.ubl := by
  obtain ⟨_, _, hv, _⟩ := K.accepted_parts hK
  simp only [Canon.valuesOk, Bool.and_eq_true] at hv
  exact K.parsed hv.1.1

/-! ## the `Opt` of a canonical command line, field by field -/

theorem Canon.optOf_boundsType (K : Canon) : (optOf K.table).boundsType = boundsTypeOf K.mode := by
  show boundsTypeOf K.table.mode = _
  rw [K.table_mode]

theorem Canon.optOf_bounds (K : Canon) : (optOf K.table).bounds = K.ubl := K.table_bounds

theorem Canon.optOf_delimiter (K : Canon) : (optOf K.table).delimiter = K.delimiter := by
  simp only [optOf, Canon.table_mode, Canon.delimiter, Canon.eol]
  cases hm : K.mode <;> cases hz : K.z <;> cases hd : K.d <;> simp [boundsTypeOf, Canon.table, hz, hd]

theorem Canon.memKb_none (K : Canon) (hM : K.mem = none) : K.table.memKb = none := by
  simp [Table.memKb, Canon.table, hM]

theorem Canon.regexText_none (K : Canon) (hc : K.mode ≠ .c) (he : K.e = none) :
    K.table.regexText = none := by
  unfold Table.regexText
  rw [K.table_mode, if_neg hc]
  exact he

theorem Canon.accepted_parsed' (K : Canon) (hK : K.accepted = true) :
    boundsListOfString K.boundsText = .ok (optOf K.table).bounds := by
  rw [K.optOf_bounds]; exact K.accepted_parsed hK

theorem Canon.fields_delimiter_ne_nil (K : Canon) (hmode : K.mode = .f ∨ K.mode = .dflt)
    (hd : K.d ≠ Option.some []) : (optOf K.table).delimiter ≠ [] := by
  rw [K.optOf_delimiter]
  unfold Canon.delimiter
  cases hdd : K.d with
  | none => rcases hmode with h | h <;> simp [h]
  | some x =>
    have hx : x ≠ [] := by intro hx; rw [hx] at hdd; exact hd hdd
    rcases hmode with h | h <;> simp [h, utf8_ne_nil hx]

theorem Canon.optOf_cfg (K : Canon) : cfgOf (optOf K.table) = K.cfg := K.cfgOf_optOf none

/-! ## the end-to-end theorems -/

/-- **Field mode, end to end** (`-f`, or no mode option at all = `-f 1:`): for every accepted
    canonical command line with a literal, non-empty delimiter (`-d X`, default TAB) and any subset
    of `-g -p -s -t -z -m -j --no-join -r R --fallback-oob`, without `-e`, `-M`, `--json`, and for
    every input in every read segmentation, what `tuc` writes to stdout and its exit status are
    exactly the specification's `specRun` of the request `K.cfg` on the input.

    Composes `tucMain_canon` (argv → `Opt`), the engine choice of `dispatch`, C02
    (`readAndCutFast_eq_readAndCutStr`, when `main` picks the fast lane) and C01
    (`general_engine_eq_spec_of_parsed`).  `hd` (the value of `-d` is not the empty string) is NOT
    guaranteed by a canonical command line: `tuc -d ''` is accepted by `parse_args`; C01 excludes
    it (see the remark at the end of the file). -/
theorem tuc_fields_eq_spec (regexOk : Arg → Bool) (hcre : regexOk charsRegexText = true) (K : Canon)
    (hK : K.accepted = true) (hmode : K.mode = .f ∨ K.mode = .dflt) (hd : K.d ≠ Option.some [])
    (he : K.e = none) (hM : K.mem = none) (hjson : K.json = false) (segs : List Bytes) :
    tucMain regexOk (canonArgv K) segs = .run (specRun K.cfg segs.flatten) := by
  have hc : K.mode ≠ .c := by rcases hmode with h | h <;> rw [h] <;> decide
  have hty : (optOf K.table).boundsType = .fields := by
    rw [K.optOf_boundsType]; rcases hmode with h | h <;> rw [h] <;> rfl
  rw [tucMain_canon regexOk K hK (by rw [he]; rfl) hcre, K.memKb_none hM, K.regexText_none hc he,
    tucRun_plain _ _ _ (by rw [hty]; decide) rfl, Option.isSome_none,
    dispatch_fields_eq_spec (optOf K.table) K.boundsText (K.accepted_parsed' hK)
      (K.fields_delimiter_ne_nil hmode hd) rfl hty hjson segs, K.optOf_cfg]
  rfl

/-- `tuc -f 1,3 -d :` on `a:b:c⏎`, read as `a:b` + `:c⏎`, prints `ac⏎` and exits with 0 -/
def exFields : Canon := { mode := .f, bounds := ['1', ',', '3'], d := Option.some [':'] }

example : canonArgv exFields = [['-', 'f'], ['1', ',', '3'], ['-', 'd'], [':']] := by decide +kernel

example : tucMain (fun _ => true) (canonArgv exFields) [[97, 58, 98], [58, 99, 10]] =
    .run (Run.ok [97, 99, 10]) := by
  rw [tuc_fields_eq_spec (fun _ => true) rfl exFields (by decide +kernel) (Or.inl rfl) (by decide) rfl rfl rfl]
  decide +kernel

/-- **Field mode with `--json`, end to end**: as `tuc_fields_eq_spec`, with `--json` (which implies
    `-j -r ,`; `parse_args` refuses it together with `-r`, `--no-join` and format text in the
    bounds: part of `K.accepted`).  Composes `tucMain_canon`, the engine choice (never the fast
    lane) and C08 (`json_run_eq_spec_of_parsed`). -/
theorem tuc_fields_json_eq_spec (regexOk : Arg → Bool) (hcre : regexOk charsRegexText = true) (K : Canon)
    (hK : K.accepted = true) (hmode : K.mode = .f ∨ K.mode = .dflt) (hd : K.d ≠ Option.some [])
    (he : K.e = none) (hM : K.mem = none) (hjson : K.json = true) (segs : List Bytes) :
    tucMain regexOk (canonArgv K) segs = .run (specRun K.cfg segs.flatten) := by
  have hc : K.mode ≠ .c := by rcases hmode with h | h <;> rw [h] <;> decide
  have hty : (optOf K.table).boundsType = .fields := by
    rw [K.optOf_boundsType]; rcases hmode with h | h <;> rw [h] <;> rfl
  rw [tucMain_canon regexOk K hK (by rw [he]; rfl) hcre, K.memKb_none hM, K.regexText_none hc he,
    tucRun_plain _ _ _ (by rw [hty]; decide) rfl, Option.isSome_none,
    dispatch_fields_json_eq_spec (optOf K.table) K.boundsText (K.accepted_parsed' hK)
      (K.fields_delimiter_ne_nil hmode hd) rfl hty hjson segs, K.optOf_cfg]
  rfl

/-- `tuc -f 2:3 -d : --json` on `a:b:c⏎` prints `["b","c"]⏎` -/
def exJson : Canon := { mode := .f, bounds := ['2', ':', '3'], d := Option.some [':'], json := true }

example : tucMain (fun _ => true) (canonArgv exJson) [[97, 58, 98, 58, 99, 10]] =
    .run (Run.ok [0x5B, 0x22, 98, 0x22, 0x2C, 0x22, 99, 0x22, 0x5D, 10]) := by
  rw [tuc_fields_json_eq_spec (fun _ => true) rfl exJson (by decide +kernel) (Or.inl rfl) (by decide) rfl rfl rfl]
  decide +kernel

/-! ### `-M` -/

/-- `Admissible` (C03: no requested closed range straddles the end of the record) is decidable -/
def admissibleB (bs : List BoF) (n : Nat) : Bool :=
  (boundsOnly bs).all fun b =>
    match b.r with
    | .some hi => decide (hi ≤ (n : Int)) || decide ((n : Int) < BLo b)
    | .cont => true

theorem admissibleB_iff (bs : List BoF) (n : Nat) : admissibleB bs n = true ↔ Admissible bs n := by
  unfold admissibleB Admissible
  rw [List.all_eq_true]
  constructor
  · intro h b hb hi hr
    have := h b (mem_boundsOnly_iff.mpr hb)
    simpa [hr] using this
  · intro h b hb
    have := h b (mem_boundsOnly_iff.mp hb)
    cases hr : b.r with
    | cont => rfl
    | some hi => simpa using this hi hr

instance (bs : List BoF) (n : Nat) : Decidable (Admissible bs n) :=
  decidable_of_iff _ (admissibleB_iff bs n)

/-- the delimiter byte of a command line whose delimiter is one byte long -/
def Canon.delimiterByte (K : Canon) : UInt8 := K.delimiter.headD 9

theorem Canon.accepted_sensible_parts (K : Canon) (hK : K.accepted = true) :
    K.clean = true ∧ K.valuesOk = true ∧ upFrontReject (flagsOf K.table) = false :=
  (K.accepted_parts hK).2

theorem Canon.memKb_isSome (K : Canon) (hK : K.accepted = true) (hM : K.mem.isSome = true) :
    K.table.memKb.isSome = true := by
  obtain ⟨_, hv, _⟩ := K.accepted_sensible_parts hK
  simp only [Canon.valuesOk, Bool.and_eq_true] at hv
  have hm := hv.1.2
  show ((K.mem).bind fun v => (usizeArg v).toOption).isSome = true
  cases hmem : K.mem with
  | none => rw [hmem] at hM; cases hM
  | some v =>
    rw [hmem] at hm
    have : (parseUsize v).isSome = true := hm
    cases hp : parseUsize v with
    | none => rw [hp] at this; cases this
    | some n => simp [usizeArg, hp, Res.toOption]

/-- what the `-M` eligibility test (`StreamOpt::try_from`, `Flags.streamOk`) implies for `K` -/
theorem Canon.streamOk_facts (K : Canon) (h : (flagsOf K.table).streamOk = true) :
    (K.mode = .f ∨ K.mode = .dflt) ∧ K.e = none := by
  have hm : (flagsOf K.table).mode = K.mode := K.table_mode
  have he : (flagsOf K.table).e = K.e.isSome := rfl
  simp only [Flags.streamOk, Flags.isFields, Flags.regex, hm, he, Bool.and_eq_true, Bool.or_eq_true,
    decide_eq_true_eq, Bool.not_eq_true', Bool.or_eq_false_iff, Bool.and_eq_false_iff] at h
  obtain ⟨⟨⟨⟨⟨⟨⟨⟨⟨⟨hf, _⟩, _⟩, _⟩, _⟩, _⟩, _⟩, _⟩, hre⟩, _⟩, _⟩ := h
  refine ⟨hf, ?_⟩
  have hc : K.mode ≠ .c := by rcases hf with h | h <;> rw [h] <;> decide
  cases hke : K.e with
  | none => rfl
  | some v => simp [hke, hc] at hre

/-- **`-M` (fixed memory), end to end.**  For every accepted canonical command line with `-M N`
    that `StreamOpt::try_from` accepts (`Flags.streamOk`, a decidable condition on the option set:
    field mode, a one-byte `-d`, a one-byte `-r` if any, none of `-m -g -p -s -t -e --json`, bounds
    strictly ascending, positive, no field requested twice), for EVERY read segmentation `segs`,
    and every input all of whose records are admissible (`hadm`: no requested closed range
    straddles the end of a record — a hypothesis of C03, about the input, that no command line can
    guarantee): stdout and exit status are the specification's.

    Composes `tucMain_canon`, `streamOptOf_optOf` (the `Opt` of the command line passes
    `StreamOpt::try_from` iff `streamOk`) and C03 (`dispatch_fixedMemory_eq_spec` =
    `stream_refines_spec_of_parsed`). -/
theorem tuc_fixedMemory_eq_spec (regexOk : Arg → Bool) (hcre : regexOk charsRegexText = true) (K : Canon)
    (hK : K.accepted = true) (hM : K.mem.isSome = true) (hst : (flagsOf K.table).streamOk = true)
    (segs : List Bytes)
    (hadm : ∀ r ∈ records K.eol.byte segs.flatten, Admissible K.ubl.list (r.count K.delimiterByte + 1)) :
    tucMain regexOk (canonArgv K) segs = .run (specRun K.cfg segs.flatten) := by
  obtain ⟨hmode, he⟩ := K.streamOk_facts hst
  have hc : K.mode ≠ .c := by rcases hmode with h | h <;> rw [h] <;> decide
  have hty : (optOf K.table).boundsType = .fields := by
    rw [K.optOf_boundsType]; rcases hmode with h | h <;> rw [h] <;> rfl
  have hs := K.sensible regexOk (K.accepted_parts hK).1 (by rw [he]; rfl) hcre
  have hso := streamOptOf_optOf regexOk (fun _ => charsBag) K.table hs
  rw [K.regexText_none hc he, hst] at hso
  rw [tucMain_canon regexOk K hK (by rw [he]; rfl) hcre, K.memKb_isSome hK hM, K.regexText_none hc he,
    tucRun_plain _ _ _ (by rw [hty]; decide) rfl]
  cases hsome : streamOptOf (optOf K.table) with
  | none =>
    have : (streamOptOf (optOf K.table)).isSome = true := hso
    rw [hsome] at this; cases this
  | some so =>
    have hdel : (optOf K.table).delimiter = [so.delimiter] := (streamOptOf_facts _ _ hsome).1
    have hbyte : K.delimiterByte = so.delimiter := by
      rw [Canon.delimiterByte, ← K.optOf_delimiter, hdel]; rfl
    rw [dispatch_fixedMemory_eq_spec (optOf K.table) so hsome K.boundsText (K.accepted_parsed' hK) segs
      (by rw [K.optOf_bounds, ← hbyte]; exact hadm), K.optOf_cfg]
    rfl

/-- `tuc -f 1,3 -d : -M 1` on `a:b:c⏎x:y:z⏎` read in pieces of 4, 3 and 5 bytes -/
def exMem : Canon := { mode := .f, bounds := ['1', ',', '3'], d := Option.some [':'], mem := Option.some ['1'] }

example : tucMain (fun _ => true) (canonArgv exMem) [[97, 58, 98, 58], [99, 10, 120], [58, 121, 58, 122, 10]] =
    .run (Run.ok [97, 99, 10, 120, 122, 10]) := by
  rw [tuc_fixedMemory_eq_spec (fun _ => true) rfl exMem (by decide +kernel) rfl (by decide +kernel) _
    (by decide +kernel)]
  decide +kernel

/-! ### `-b` -/

theorem dispatch_bytes (o : Opt) (segs : List Bytes) (hty : o.boundsType = .bytes) :
    dispatch o false segs = Option.some (readAndCutBytes o segs.flatten) := by
  unfold dispatch
  simp only [Bool.false_eq_true, if_false, hty, if_true]

/-- **Byte mode, end to end**: for every accepted canonical command line with `-b` (no `-e`, no
    `-M`; `parse_args` itself refuses `-d` and `--json` with `-b`; every other option is accepted
    and ignored by the engine and by `specBytes` alike) and EVERY input — any byte values, any
    segmentation — stdout and exit status are the specification's `specBytes`.
    Composes `tucMain_canon`, the engine choice and C06 (`readAndCutBytes_eq_spec`), whose
    hypothesis (no index 0) is discharged by `boundsListOfString_good`. -/
theorem tuc_bytes_eq_spec (regexOk : Arg → Bool) (hcre : regexOk charsRegexText = true) (K : Canon)
    (hK : K.accepted = true) (hmode : K.mode = .b) (he : K.e = none) (hM : K.mem = none)
    (segs : List Bytes) :
    tucMain regexOk (canonArgv K) segs = .run (specBytes K.cfg segs.flatten) := by
  have hc : K.mode ≠ .c := by rw [hmode]; decide
  have hty : (optOf K.table).boundsType = .bytes := by rw [K.optOf_boundsType, hmode]; rfl
  have hgood := boundsListOfString_good _ _ (K.accepted_parsed' hK)
  rw [tucMain_canon regexOk K hK (by rw [he]; rfl) hcre, K.memKb_none hM, K.regexText_none hc he,
    tucRun_plain _ _ _ (by rw [hty]; decide) rfl, Option.isSome_none, dispatch_bytes _ _ hty,
    readAndCutBytes_eq_spec _ _ (fun b hb => hgood.1 b (mem_boundsOnly_iff.mp hb)), K.optOf_cfg]
  rfl

/-- `tuc -b 1:2` on the bytes `FF 00 0A 61` prints `FF 00` (nothing added) -/
def exBytes : Canon := { mode := .b, bounds := ['1', ':', '2'] }

example : tucMain (fun _ => true) (canonArgv exBytes) [[0xFF, 0], [10, 97]] = .run (Run.ok [0xFF, 0]) := by
  rw [tuc_bytes_eq_spec (fun _ => true) rfl exBytes (by decide +kernel) rfl rfl rfl]
  decide +kernel

/-! ### `-c` -/

theorem dispatch_chars (o : Opt) (segs : List Bytes) (hty : o.boundsType = .characters)
    (hbag : o.regexBag.isSome = true) :
    dispatch o false segs = Option.some (readAndCutStr o segs.flatten) := by
  have hf : fastOptOf o = none := by
    cases h : fastOptOf o with
    | none => rfl
    | some fo =>
      have := (fastOptOf_isSome_iff o).mp (by rw [h]; rfl)
      rw [this.2.2.2.2.2.2.2] at hbag; cases hbag
  unfold dispatch
  simp only [Bool.false_eq_true, if_false, hty, reduceCtorEq, hf]

/-- the tests of `upFrontReject` one by one -/
theorem upFrontReject_false {f : Flags} (h : upFrontReject f = false) :
    (f.json && !(decide (f.mode = .c) || f.isFields)) = false ∧ (f.e && decide (f.mode = .c)) = false := by
  simp only [upFrontReject, Bool.or_eq_false_iff] at h
  exact ⟨h.1.1.1.1.2, h.1.2⟩

/-- **Character mode, end to end**: for every accepted canonical command line with `-c` (no `-M`;
    `parse_args` itself refuses `-d`, `-e` and `--no-join` with `-c`; `--json` is allowed and
    covered) and every input that is valid UTF-8, in any segmentation: stdout and exit status are
    the specification's (every scalar value is a field).  `hutf` is a hypothesis of C07 about the
    input (on other input the model says `unmodelled`).
    Composes `tucMain_canon`, the engine choice (the general path with the `\b|\B` bag) and
    C07 ∧ C08 (`chars_run_eq_spec_gen`). -/
theorem tuc_chars_eq_spec (regexOk : Arg → Bool) (hcre : regexOk charsRegexText = true) (K : Canon)
    (hK : K.accepted = true) (hmode : K.mode = .c) (hM : K.mem = none)
    (segs : List Bytes) (hutf : validUtf8 segs.flatten = true) :
    tucMain regexOk (canonArgv K) segs = .run (specRun K.cfg segs.flatten) := by
  obtain ⟨_, _, hu⟩ := K.accepted_sensible_parts hK
  have he : K.e = none := by
    have h2 := (upFrontReject_false hu).2
    have hm : (flagsOf K.table).mode = K.mode := K.table_mode
    have hee : (flagsOf K.table).e = K.e.isSome := rfl
    rw [hm, hee, hmode] at h2
    cases hke : K.e with
    | none => rfl
    | some v => rw [hke] at h2; simp at h2
  have hty : (optOf K.table).boundsType = .characters := by rw [K.optOf_boundsType, hmode]; rfl
  have hgood := boundsListOfString_good _ _ (K.accepted_parsed' hK)
  have hrep : (optOf K.table).replaceDelimiter.isSome = true := by
    show (if K.table.flag .json = true then Option.some [44]
      else if boundsTypeOf K.table.mode = .characters then Option.some []
      else (K.table.val .r).map utf8).isSome = true
    rw [K.table_mode, hmode]
    cases K.table.flag .json <;> simp [boundsTypeOf]
  have hrun : dispatch { optOf K.table with regexBag := Option.some charsBag } false segs =
      Option.some (specRun K.cfg segs.flatten) := by
    rw [dispatch_chars { optOf K.table with regexBag := Option.some charsBag } segs hty rfl,
      chars_run_eq_spec_gen { optOf K.table with regexBag := Option.some charsBag } _ hty rfl
        (fun _ => hrep) (by show (_ || _) = true; rw [hrep]; simp) hgood.1 hgood.2 hutf, K.cfgOf_optOf]
  rw [tucMain_canon regexOk K hK (by rw [he]; rfl) hcre, K.memKb_none hM,
    tucRun_chars _ _ _ _ hty hutf, Option.isSome_none, hrun]
  rfl

/-- `tuc -c 2:3` on `héllo⏎` prints `él⏎` -/
def exChars : Canon := { mode := .c, bounds := ['2', ':', '3'] }

example : tucMain (fun _ => true) (canonArgv exChars) [[104, 0xC3], [0xA9, 108, 108, 111, 10]] =
    .run (Run.ok [0xC3, 0xA9, 108, 10]) := by
  rw [tuc_chars_eq_spec (fun _ => true) rfl exChars (by decide +kernel) rfl rfl _ (by decide +kernel)]
  decide +kernel

/-! ### `-l` -/

theorem dispatch_lines (o : Opt) (segs : List Bytes) (hty : o.boundsType = .lines) :
    dispatch o false segs = Option.some (readAndCutLines o segs.flatten) := by
  unfold dispatch
  simp only [Bool.false_eq_true, if_false, hty, reduceCtorEq, if_true]

/-- the `Opt` of a `-l` command line without `-s -t -g -p -r` -/
theorem Canon.lines_facts (K : Canon) (hK : K.accepted = true) (hmode : K.mode = .l)
    (hs : K.s = false) (ht : K.tr = none) (hg : K.g = false) (hp : K.p = false) (hr : K.r = none) :
    (optOf K.table).delimiter = [(optOf K.table).eol.byte] ∧ (optOf K.table).boundsType = .lines ∧
    (optOf K.table).json = false ∧ (optOf K.table).onlyDelimited = false ∧ (optOf K.table).trim = none ∧
    (optOf K.table).greedyDelimiter = false ∧ (optOf K.table).compressDelimiter = false ∧
    (optOf K.table).replaceDelimiter = none := by
  obtain ⟨_, _, hu⟩ := K.accepted_sensible_parts hK
  have hjson : K.json = false := by
    have h1 := (upFrontReject_false hu).1
    have hm : (flagsOf K.table).mode = K.mode := K.table_mode
    have hj : (flagsOf K.table).json = K.json := rfl
    rw [Flags.isFields, hm, hj, hmode] at h1
    cases hkj : K.json with
    | false => rfl
    | true => rw [hkj] at h1; simp at h1
  refine ⟨?_, ?_, hjson, hs, ?_, hg, hp, ?_⟩
  · rw [K.optOf_delimiter, Canon.delimiter, hmode]; rfl
  · rw [K.optOf_boundsType, hmode]; rfl
  · show (K.tr.bind fun v => (trimArg v).toOption) = none
    rw [ht]; rfl
  · show (if K.json = true then Option.some [44]
      else if boundsTypeOf K.table.mode = .characters then Option.some []
      else K.r.map utf8) = none
    rw [K.table_mode, hmode, hjson, hr]
    simp [boundsTypeOf]

/-- **Line mode, end to end, whichever algorithm `read_and_cut_lines` picks**: for every accepted
    canonical command line with `-l` and any of `-z -m -j --no-join --fallback-oob`, without
    `-e`, `-M` and without `-s -t -g -p -r` (`hs … hr`: `parse_args` ACCEPTS these with `-l`, and
    `cut_lines` hands them to `cut_str`, where they act on the whole input taken as one record,
    while `specLines` does not know them — C05 excludes them, a canonical command line does not),
    for every input that is valid UTF-8 other than the empty one and a lone EOL, in any
    segmentation; `hfwd` is the hypothesis of the one-line-at-a-time theorem of C05 for the
    requests `read_and_cut_lines` serves that way (no `-m`, forward-only bounds): no format text in
    the bounds and every bound resolvable on the input.

    Composes `tucMain_canon`, the engine choice and C05 (`readAndCutLines_eq_specLines`). -/
theorem tuc_lines_eq_spec (regexOk : Arg → Bool) (hcre : regexOk charsRegexText = true) (K : Canon)
    (hK : K.accepted = true) (hmode : K.mode = .l) (he : K.e = none) (hM : K.mem = none)
    (hs : K.s = false) (ht : K.tr = none) (hg : K.g = false) (hp : K.p = false) (hr : K.r = none)
    (segs : List Bytes) (hutf : validUtf8 segs.flatten = true) (h0 : segs.flatten ≠ [])
    (h1 : segs.flatten ≠ [K.eol.byte])
    (hfwd : K.m = false → isForwardOnly K.ubl.list = true →
      ∃ bs : List UserBounds, K.ubl.list = bs.map .bound ∧
        ∀ b ∈ bs, resolve b (records K.eol.byte segs.flatten).length ≠ none) :
    tucMain regexOk (canonArgv K) segs = .run (specLines K.cfg segs.flatten) := by
  have hc : K.mode ≠ .c := by rw [hmode]; decide
  obtain ⟨hd, hty, hjson, honly, htrim, hgr, hcp, hrepl⟩ := K.lines_facts hK hmode hs ht hg hp hr
  have hgood := boundsListOfString_good _ _ (K.accepted_parsed' hK)
  rw [tucMain_canon regexOk K hK (by rw [he]; rfl) hcre, K.memKb_none hM, K.regexText_none hc he,
    tucRun_plain _ _ _ (by rw [hty]; decide) rfl, Option.isSome_none, dispatch_lines _ _ hty,
    readAndCutLines_eq_specLines (optOf K.table) _ hd hty rfl hjson hgood.1 hgood.2 honly htrim hgr hcp hrepl
      hutf h0 h1 (by rw [K.optOf_bounds]; exact hfwd), K.optOf_cfg]
  rfl

/-- **Line mode, end to end, the buffered algorithm**: with `-m`, or with bounds that are not
    forward-only (reordered, overlapping or negative indexes — the latter only non-canonically
    spelled, e.g. `-l=-1`), the same for EVERY valid UTF-8 input and any bounds (format text,
    fallbacks).  Composes `tucMain_canon`, `readAndCutLines_buffered` and C05
    (`cutLines_eq_specLines_all`). -/
theorem tuc_lines_buffered_eq_spec (regexOk : Arg → Bool) (hcre : regexOk charsRegexText = true) (K : Canon)
    (hK : K.accepted = true) (hmode : K.mode = .l) (he : K.e = none) (hM : K.mem = none)
    (hs : K.s = false) (ht : K.tr = none) (hg : K.g = false) (hp : K.p = false) (hr : K.r = none)
    (hbuf : K.m = true ∨ isForwardOnly K.ubl.list = false)
    (segs : List Bytes) (hutf : validUtf8 segs.flatten = true) :
    tucMain regexOk (canonArgv K) segs = .run (specLines K.cfg segs.flatten) := by
  have hc : K.mode ≠ .c := by rw [hmode]; decide
  obtain ⟨hd, hty, hjson, honly, htrim, hgr, hcp, hrepl⟩ := K.lines_facts hK hmode hs ht hg hp hr
  have hgood := boundsListOfString_good _ _ (K.accepted_parsed' hK)
  have hbuf' : (optOf K.table).complement = true ∨ (optOf K.table).compressDelimiter = true ∨
      isForwardOnly (optOf K.table).bounds.list = false := by
    rcases hbuf with h | h
    · exact Or.inl h
    · exact Or.inr (Or.inr (by rw [K.optOf_bounds]; exact h))
  rw [tucMain_canon regexOk K hK (by rw [he]; rfl) hcre, K.memKb_none hM, K.regexText_none hc he,
    tucRun_plain _ _ _ (by rw [hty]; decide) rfl, Option.isSome_none, dispatch_lines _ _ hty,
    readAndCutLines_buffered _ _ hbuf',
    cutLines_eq_specLines_all (optOf K.table) _ hd hty rfl hjson hgood.1 hgood.2 honly htrim hgr hcp hrepl
      hutf, K.optOf_cfg]
  rfl

/-- `tuc -l 2:` on `a⏎b⏎c⏎` prints `b⏎c⏎` (one line at a time) -/
def e2eLines : Canon := { mode := .l, bounds := ['2', ':'] }

example : tucMain (fun _ => true) (canonArgv e2eLines) [[97, 10, 98], [10, 99, 10]] =
    .run (Run.ok [98, 10, 99, 10]) := by
  rw [tuc_lines_eq_spec (fun _ => true) rfl e2eLines (by decide +kernel) rfl rfl rfl rfl rfl rfl rfl rfl _
    (by decide +kernel) (by decide +kernel) (by decide +kernel)
    (fun _ _ => ⟨[{ l := .some 2, r := .cont, isLast := true }], by decide +kernel, by decide +kernel⟩)]
  decide +kernel

/-- `tuc -l 3,1 --no-join` on `a⏎b⏎c⏎` prints `ca⏎` (buffered) -/
def exLinesBuf : Canon := { mode := .l, bounds := ['3', ',', '1'], noJoin := true }

example : tucMain (fun _ => true) (canonArgv exLinesBuf) [[97, 10, 98], [10, 99, 10]] =
    .run (Run.ok [99, 97, 10]) := by
  rw [tuc_lines_buffered_eq_spec (fun _ => true) rfl exLinesBuf (by decide +kernel) rfl rfl rfl rfl rfl rfl
    rfl rfl (Or.inr (by decide +kernel)) _ (by decide +kernel)]
  decide +kernel

/-! ### rejection up front (C19) -/

/-- `tucRun` on the `Opt` of a canonical command line without `-e` -/
theorem tucRun_canon_noRegex (K : Canon) (he : K.e = none) (fm : Bool) (segs : List Bytes)
    (hutf : K.mode = .c → validUtf8 segs.flatten = true) :
    tucRun (optOf K.table) fm K.table.regexText segs =
      MainResult.ofDispatch
        (dispatch (fillBag (fun _ => charsBag) (optOf K.table) K.table.regexText) fm segs) := by
  by_cases hc : K.mode = .c
  · have hty : (optOf K.table).boundsType = .characters := by rw [K.optOf_boundsType, hc]; rfl
    have hrt : K.table.regexText = Option.some charsRegexText := by
      unfold Table.regexText; rw [K.table_mode, if_pos hc]
    rw [tucRun_chars _ _ _ _ hty (hutf hc), hrt]
    rfl
  · have hty : (optOf K.table).boundsType ≠ .characters := by
      rw [K.optOf_boundsType]; cases hm : K.mode <;> simp_all [boundsTypeOf]
    rw [K.regexText_none hc he, tucRun_plain _ _ _ hty rfl]
    rfl

/-- **Rejection, end to end (C19).**  For every well-formed canonical command line without `-e`:
    `tuc` exits with 1 having read and written nothing — by an error of `parse_args` or by
    `StreamOpt::try_from` at the head of `main` — iff the option set is one of the property's
    contradictory or unsupported combinations (`conflict`), whatever the input.  (With `-c` the
    input is taken to be valid UTF-8, otherwise the model of the run says `unmodelled`.)
    Composes `parseArgv_canonArgv`, `rejectsUpFront_tableAnswer` (= `decision_reject_iff` +
    `streamOptOf_optOf`) and `reject_iff_conflict` (C19). -/
theorem tuc_reject_iff_conflict (regexOk : Arg → Bool) (hcre : regexOk charsRegexText = true) (K : Canon)
    (hW : K.wellFormed = true) (he : K.e = none) (segs : List Bytes)
    (hutf : K.mode = .c → validUtf8 segs.flatten = true) :
    tucMain regexOk (canonArgv K) segs = .reject ↔ conflict (flagsOf K.table) = true := by
  have hs := K.sensible regexOk hW (by rw [he]; rfl) hcre
  have hc : K.clean = true := by
    simp only [Canon.wellFormed, Bool.and_eq_true] at hW; exact hW.1.1
  rw [← reject_iff_conflict, ← rejectsUpFront_tableAnswer regexOk (fun _ => charsBag) segs K.table hs]
  unfold tucMain
  rw [parseArgv_canonArgv regexOk K hc hs]
  unfold tableAnswer
  cases hu : upFrontReject (flagsOf K.table) with
  | true => simp [rejectsUpFront]
  | false =>
    simp only [Bool.false_eq_true, if_false, rejectsUpFront]
    rw [tucRun_canon_noRegex K he _ segs hutf]
    cases dispatch (fillBag (fun _ => charsBag) (optOf K.table) K.table.regexText)
      K.table.memKb.isSome segs <;> simp [MainResult.ofDispatch]

/-- `tuc -f 1 -j --no-join` and `tuc -f 2,1 -M 1` (bounds not ascending) are rejected;
    `tuc -f 1,2 -M 1` is not -/
example : tucMain (fun _ => true)
    (canonArgv { mode := .f, bounds := ['1'], j := true, noJoin := true }) [[97, 10]] = .reject :=
  (tuc_reject_iff_conflict (fun _ => true) rfl _ (by decide +kernel) rfl _ (by decide)).mpr (by decide +kernel)

example : tucMain (fun _ => true)
    (canonArgv { mode := .f, bounds := ['2', ',', '1'], mem := Option.some ['1'] }) [[97, 10]] = .reject :=
  (tuc_reject_iff_conflict (fun _ => true) rfl _ (by decide +kernel) rfl _ (by decide)).mpr (by decide +kernel)

example : tucMain (fun _ => true)
    (canonArgv { mode := .f, bounds := ['1', ',', '2'], mem := Option.some ['1'] }) [[97, 10]] ≠ .reject :=
  fun h => absurd ((tuc_reject_iff_conflict (fun _ => true) rfl _ (by decide +kernel) rfl _ (by decide)).mp h)
    (by decide +kernel)

/-- no argument at all: the short help -/
example (regexOk : Arg → Bool) (segs : List Bytes) : tucMain regexOk [] segs = .help := rfl

/-! ## the hypotheses that a canonical command line does not guarantee are needed

Each of the following command lines is accepted (`K.accepted`), the model of `main` (which agrees
with the real binary: `tool/argv_diff.py`, and these very cases were run through it) does one
thing and the specification says another — the hypothesis named is the one that excludes it.  None
is a defect of `tuc`: the specifications of C01 / C03 / C05 are stated on a smaller domain. -/

/-- `hd` of `tuc_fields_eq_spec`: `tuc -f 2 -d ''` on `a:b⏎` prints `a⏎` (an empty needle matches
    at every position); `specRun` with the empty delimiter says `⏎` -/
example :
    let K : Canon := { mode := .f, bounds := ['2'], d := Option.some [] }
    K.accepted = true ∧
    tucMain (fun _ => true) (canonArgv K) [[97, 58, 98, 10]] = .run (Run.ok [97, 10]) ∧
    specRun K.cfg [97, 58, 98, 10] = Run.ok [10] := by
  decide +kernel

/-- `hr` of `tuc_lines_buffered_eq_spec`: `tuc -l 2,1 -r X` on `a⏎b⏎` prints `bXa⏎` (`cut_lines`
    hands `-r` to `cut_str`); `specLines` says `b⏎a⏎`.  Likewise `-s`, `-t`, `-g`, `-p`. -/
example :
    let K : Canon := { mode := .l, bounds := ['2', ',', '1'], r := Option.some ['X'] }
    K.accepted = true ∧
    tucMain (fun _ => true) (canonArgv K) [[97, 10, 98, 10]] = .run (Run.ok [98, 88, 97, 10]) ∧
    specLines K.cfg [97, 10, 98, 10] = Run.ok [98, 10, 97, 10] := by
  decide +kernel

/-- `h0` of `tuc_lines_eq_spec`: `tuc -l 1` on the empty input fails (`Out of bounds: 1`);
    `specLines` takes the empty input for an empty record and says `⏎` -/
example :
    let K : Canon := { mode := .l, bounds := ['1'] }
    K.accepted = true ∧
    tucMain (fun _ => true) (canonArgv K) [] = .run Run.fail ∧
    specLines K.cfg [] = Run.ok [10] := by
  decide +kernel

/-- `hfwd` of `tuc_lines_eq_spec` (no format text when the request is served one line at a time):
    `tuc -l 'a{1}b'` on `a⏎b⏎` prints `a⏎a⏎b⏎` (an EOL after every element); `specLines` says
    `aab⏎` -/
example :
    let K : Canon := { mode := .l, bounds := ['a', '{', '1', '}', 'b'] }
    K.accepted = true ∧
    tucMain (fun _ => true) (canonArgv K) [[97, 10, 98, 10]] = .run (Run.ok [97, 10, 97, 10, 98, 10]) ∧
    specLines K.cfg [97, 10, 98, 10] = Run.ok [97, 97, 98, 10] := by
  decide +kernel

/-- `hadm` of `tuc_fixedMemory_eq_spec`: `tuc -f 1:3 -d : -M 1` on `a:b⏎` has written `a:b` when it
    finds the record too short; the specification (and `tuc` without `-M`) writes nothing -/
example :
    let K : Canon := { mode := .f, bounds := ['1', ':', '3'], d := Option.some [':'], mem := Option.some ['1'] }
    K.accepted = true ∧ (flagsOf K.table).streamOk = true ∧
    tucMain (fun _ => true) (canonArgv K) [[97, 58, 98, 10]] = .run ⟨[97, 58, 98], .fail⟩ ∧
    specRun K.cfg [97, 58, 98, 10] = Run.fail := by
  decide +kernel

end Tuc
