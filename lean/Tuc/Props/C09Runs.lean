import Tuc.Lemmas.SpecLaws
import Tuc.Props.C02
import Tuc.Props.C05Buffered
import Tuc.Props.C06
import Tuc.Props.C09
/-!
# C09 at the level of runs — a negative index is the mirror of a positive one

`Tuc.Props.C09` shows that every function through which an engine looks at one bound is blind
to the rewriting `-k ↦ n+1-k`.  Here the statement is lifted to whole runs.

Specification laws (no engine involved):
* `resolve_mirror'`   — `resolve` is blind to the rewriting (no side condition at all);
* `emit_mirror`       — hence `emit`, for any request, tokens, separator rendering and joiner;
* `mapBounds_complement_mirror`, `mapBounds_expand_mirror` — `-m` and the expansion of
  `--json`/`-c` commute with the rewriting (they look at a bound through `resolve` only);
* `specBody_mirror`, `specRecord_mirror`, `specRun_mirror` — hence the record and the run, with
  any of `-g -p -t -s -j -r -m --json -c`;
* `specLines_mirror`, `specBytes_mirror`.

Runs of the engines (through the refinement theorems):
* `readAndCutStr_mirror`   — general field engine;
* `readAndCutFast_mirror`  — fast lane (*not* a corollary of the per-loop lemma: the rewritten
  list may enable the early stop that the original list does not);
* `readAndCutLines_mirror` — `-l`: the original list is served by the buffered algorithm, the
  rewritten one possibly one line at a time;
* `readAndCutBytes_mirror` — `-b`.
-/
namespace Tuc
open Tuc.Spec

/-! ## the relation -/

theorem MirrorBound.refl (n : Nat) (b : UserBounds) : MirrorBound n b b :=
  ⟨.same _, .same _, rfl, rfl⟩

theorem MirrorList.refl (n : Nat) : ∀ (l : List BoF), MirrorList n l l
  | [] => .nil
  | .filler f :: t => .filler f (MirrorList.refl n t)
  | .bound b :: t => .bound (MirrorBound.refl n b) (MirrorList.refl n t)

theorem MirrorList.append {n : Nat} {xs xs' ys ys' : List BoF} (hx : MirrorList n xs xs')
    (hy : MirrorList n ys ys') : MirrorList n (xs ++ ys) (xs' ++ ys') := by
  induction hx with
  | nil => exact hy
  | filler f _ ih => exact .filler f ih
  | bound hb _ ih => exact .bound hb ih

theorem MirrorList.countBounds {n : Nat} {bs bs' : List BoF} (h : MirrorList n bs bs') :
    countBounds bs' = countBounds bs := by
  induction h with
  | nil => rfl
  | filler f _ ih => simpa [Spec.countBounds] using ih
  | bound _ _ ih => simpa [Spec.countBounds] using ih

theorem MirrorSide.nonzero {n : Nat} {s s' : Side} (h : MirrorSide n s s') (hz : s.Nonzero) :
    s'.Nonzero := by
  cases h with
  | same => exact hz
  | flip k h1 h2 => simp only [Side.Nonzero]; omega

/-- the rewritten list has no index 0 either -/
theorem MirrorList.allNonzero {n : Nat} {bs bs' : List BoF} (h : MirrorList n bs bs')
    (hz : AllNonzero bs) : AllNonzero bs' := by
  induction h with
  | nil => intro b hb; cases hb
  | filler f _ ih =>
    intro b hb
    simp only [List.mem_cons, reduceCtorEq, false_or] at hb
    exact ih (fun b hb => hz b (List.mem_cons_of_mem _ hb)) b hb
  | @bound b0 b0' t t' hb0 _ ih =>
    intro b hb
    simp only [List.mem_cons, BoF.bound.injEq] at hb
    rcases hb with rfl | hb
    · have := hz b0 (List.mem_cons_self ..)
      exact ⟨hb0.l.nonzero this.1, hb0.r.nonzero this.2⟩
    · exact ih (fun b hb => hz b (List.mem_cons_of_mem _ hb)) b hb

/-- and `is_last` sits where it sat -/
theorem MirrorList.lastMarked {n : Nat} {bs bs' : List BoF} (h : MirrorList n bs bs')
    (hL : LastMarked bs) : LastMarked bs' := by
  induction h with
  | nil => trivial
  | filler f _ ih => exact ih hL
  | bound hb ht ih =>
    simp only [LastMarked] at hL ⊢
    rw [hb.isLast, ht.countBounds]
    exact ⟨hL.1, ih hL.2⟩

/-- a list without negative indexes is not changed by the rewriting -/
theorem MirrorSide.eq_of_notNeg {n : Nat} {s s' : Side} (h : MirrorSide n s s')
    (hn : s.isNeg = false) : s' = s := by
  cases h with
  | same => rfl
  | flip k h1 h2 =>
    simp only [Side.isNeg, decide_eq_false_iff_not] at hn
    omega

theorem MirrorList.eq_of_noNeg {n : Nat} {bs bs' : List BoF} (h : MirrorList n bs bs')
    (hn : hasNegativeIndices bs = false) : bs' = bs := by
  induction h with
  | nil => rfl
  | filler f _ ih =>
    rw [ih (by simpa [hasNegativeIndices, boundsOnly] using hn)]
  | @bound b b' t t' hb _ ih =>
    simp only [hasNegativeIndices, boundsOnly, List.any_cons, Bool.or_eq_false_iff] at hn
    rw [ih (by simpa [hasNegativeIndices] using hn.2)]
    have h1 := hb.l.eq_of_notNeg hn.1.1
    have h2 := hb.r.eq_of_notNeg hn.1.2
    have h3 := hb.isLast
    have h4 := hb.fallback
    cases b; cases b'
    simp_all

/-! ## `resolve` -/

theorem resolveSide_mirror {n : Nat} {s s' : Side} (h : MirrorSide n s s') (dflt : Nat) :
    resolveSide s' n dflt = resolveSide s n dflt := by
  cases h with
  | same => rfl
  | flip k h1 h2 =>
    simp only [resolveSide]
    have a1 : ¬ ((n : Int) + 1 - k = 0 ∨ (n : Int) + 1 - k > n ∨ (n : Int) + 1 - k < -(n : Int)) := by
      omega
    have a2 : (n : Int) + 1 - k > 0 := by omega
    have a3 : ¬ (-(k : Int) = 0 ∨ -(k : Int) > n ∨ -(k : Int) < -(n : Int)) := by omega
    have a4 : ¬ (-(k : Int) > 0) := by omega
    rw [if_neg a1, if_pos a2, if_neg a3, if_neg a4]
    congr 2

/-- **the specification resolves a bound and its mirror to the same parts** — no side condition
    (`Tuc.resolve_mirror` is the same with the index 0 excluded, via `try_into_range`) -/
theorem resolve_mirror' {n : Nat} {b b' : UserBounds} (h : MirrorBound n b b') :
    resolve b' n = resolve b n := by
  unfold resolve
  rw [resolveSide_mirror h.l, resolveSide_mirror h.r]

/-! ## `emit` -/

theorem boundText_mirror (cfg : Cfg) (t : Tok) (sep : Nat → Bytes) {b b' : UserBounds}
    (h : MirrorBound t.numFields b b') : boundText cfg t sep b' = boundText cfg t sep b := by
  unfold boundText
  rw [resolve_mirror' h, h.fallback]

/-- **C09, the assembly of a record.**  Whatever the request, the tokens, the rendering of
    separators and the joiner: rewriting any of the negative indexes of the bounds list into the
    positive index of the same part changes nothing. -/
theorem emit_mirror (cfg : Cfg) (t : Tok) (sep : Nat → Bytes) (joiner : Bytes)
    {bs bs' : List BoF} (h : MirrorList t.numFields bs bs') :
    emit cfg t sep joiner bs' = emit cfg t sep joiner bs := by
  induction h with
  | nil => rfl
  | filler f _ ih => simp only [emit, ih]
  | bound hb ht ih =>
    rw [emit_bound, emit_bound, boundText_mirror cfg t sep hb, ih, ht.countBounds]

/-! ## `-m` and the expansion of ranges commute with the rewriting -/

theorem complementBound_mirror {n : Nat} {b b' : UserBounds} (h : MirrorBound n b b') :
    MirrorList n ((complementBound b n).map .bound) ((complementBound b' n).map .bound) := by
  unfold complementBound
  rw [resolve_mirror' h]
  cases resolve b n with
  | none => exact .bound ⟨h.l, h.r, rfl, h.fallback⟩ .nil
  | some p => exact MirrorList.refl n _

theorem expandBound_mirror {n : Nat} {b b' : UserBounds} (h : MirrorBound n b b') :
    MirrorList n ((expandBound b n).map .bound) ((expandBound b' n).map .bound) := by
  unfold expandBound
  rw [resolve_mirror' h]
  cases resolve b n with
  | none => exact .bound ⟨h.l, h.r, rfl, h.fallback⟩ .nil
  | some p => exact MirrorList.refl n _

theorem mapBounds_complement_mirror {n : Nat} {bs bs' : List BoF} (h : MirrorList n bs bs') :
    MirrorList n (mapBounds (complementBound · n) bs) (mapBounds (complementBound · n) bs') := by
  induction h with
  | nil => exact .nil
  | filler f _ ih => exact .filler f ih
  | bound hb _ ih => exact (complementBound_mirror hb).append ih

theorem mapBounds_expand_mirror {n : Nat} {bs bs' : List BoF} (h : MirrorList n bs bs') :
    MirrorList n (mapBounds (expandBound · n) bs) (mapBounds (expandBound · n) bs') := by
  induction h with
  | nil => exact .nil
  | filler f _ ih => exact .filler f ih
  | bound hb _ ih => exact (expandBound_mirror hb).append ih

/-! ## the record -/

theorem complemented_mirror {cfg cfg' : Cfg} (h : SameButBofs cfg cfg') {n : Nat}
    (hm : MirrorList n cfg.bofs cfg'.bofs) :
    MirrorList n (complemented cfg n) (complemented cfg' n) := by
  unfold complemented
  rw [h.complement]
  cases cfg.complement with
  | false => exact hm
  | true => exact mapBounds_complement_mirror hm

theorem rewritten_mirror {cfg cfg' : Cfg} (h : SameButBofs cfg cfg') {n : Nat}
    (hm : MirrorList n cfg.bofs cfg'.bofs) :
    MirrorList n (rewritten cfg n) (rewritten cfg' n) := by
  unfold rewritten
  rw [h.json, h.chars]
  cases (cfg.json || cfg.chars) with
  | false => exact complemented_mirror h hm
  | true => exact mapBounds_expand_mirror (complemented_mirror h hm)

/-- **C09, one tokenised record**: any request (`-g -p -t -s -j -r -m --json -c`, fallbacks,
    fillers); the two bounds lists are related for the number of fields of this record. -/
theorem specBody_mirror {cfg cfg' : Cfg} (h : SameButBofs cfg cfg') (tok : Tok)
    (hm : MirrorList tok.numFields cfg.bofs cfg'.bofs) :
    specBody cfg' tok = specBody cfg tok := by
  have e1 : openBracket cfg' = openBracket cfg := by unfold openBracket; rw [h.json]
  have e2 : closeBracket cfg' = closeBracket cfg := by unfold closeBracket; rw [h.json]
  have e3 : specSep cfg' = specSep cfg := by unfold specSep; rw [h.chars, h.replace, h.delimiter]
  have e4 : specJoiner cfg' = specJoiner cfg := by unfold specJoiner; rw [h.replace, h.delimiter]
  unfold specBody
  rw [h.onlyDelimited, h.complement, (complemented_mirror h hm).countBounds, e1, e2, e3, e4, h.eol,
    emit_cfg_congr h.json h.join h.fallback, emit_mirror cfg tok _ _ (rewritten_mirror h hm)]

/-- **C09, one record**: a record that has `n` fields (after `-t -p -g`) -/
theorem specRecord_mirror {cfg cfg' : Cfg} (h : SameButBofs cfg cfg') (n : Nat) (r : Bytes)
    (hn : HasNFields cfg n r) (hm : MirrorList n cfg.bofs cfg'.bofs) :
    specRecord cfg' r = specRecord cfg r :=
  specRecord_congr h.toSameTokens r fun tok ht =>
    specBody_mirror h tok (by rw [hn tok ht]; exact hm)

/-- **C09, the run**: an input all of whose records have `n` fields -/
theorem specRun_mirror {cfg cfg' : Cfg} (h : SameButBofs cfg cfg') (n : Nat) (input : Bytes)
    (hn : ∀ r ∈ specRecords cfg.eol input, HasNFields cfg n r)
    (hm : MirrorList n cfg.bofs cfg'.bofs) :
    specRun cfg' input = specRun cfg input := by
  unfold specRun
  rw [h.eol]
  exact specRunRecords_congr _ fun r hr => specRecord_mirror h n r (hn r hr) hm

/-! ## `-l` and `-b` -/

theorem specLinesBody_mirror {cfg cfg' : Cfg} (h : SameButBofs cfg cfg') (tok : Tok)
    (hm : MirrorList tok.numFields cfg.bofs cfg'.bofs) :
    specLinesBody cfg' tok = specLinesBody cfg tok := by
  have hc := complemented_mirror h hm
  unfold specLinesBody
  rw [emit_cfg_congr (cfg := { cfg with json := false }) (cfg' := { cfg' with json := false })
      rfl h.join h.fallback, emit_mirror _ tok _ _ hc, hc.countBounds, h.eol, h.complement]

/-- **C09, `-l`**: `n` is the number of lines of the input -/
theorem specLines_mirror {cfg cfg' : Cfg} (h : SameButBofs cfg cfg') (input : Bytes)
    (hm : MirrorList (records cfg.eol input).length cfg.bofs cfg'.bofs) :
    specLines cfg' input = specLines cfg input := by
  rw [specLines_eq, specLines_eq, h.eol]
  cases ht : tokOfParts 1 (records cfg.eol input) with
  | none => rfl
  | some tok =>
    rw [← tokOfParts_numFields ht] at hm
    exact specLinesBody_mirror h tok hm

/-- **C09, `-b`**: `n` is the number of bytes of the input -/
theorem specBytes_mirror {cfg cfg' : Cfg} (h : SameButBofs cfg cfg') (data : Bytes)
    (hm : MirrorList data.length cfg.bofs cfg'.bofs) :
    specBytes cfg' data = specBytes cfg data := by
  unfold specBytes
  cases ht : tokOfParts 0 (data.map fun b => [b]) with
  | none => rfl
  | some tok =>
    have hn := tokOfParts_numFields ht
    rw [List.length_map] at hn
    rw [← hn] at hm
    simp only []
    rw [emit_cfg_congr (cfg := { cfg with json := false, join := false })
      (cfg' := { cfg' with json := false, join := false }) rfl rfl h.fallback,
      emit_mirror _ tok _ _ hm]

/-! ## the runs of the engines -/

/-- **C09, general field engine, the run.**  Two invocations that differ only in their bounds
    lists, the second obtained from the first by rewriting any of its negative indexes `-k` into
    `n+1-k`, on an input all of whose records have `n` fields: same bytes, same exit status.
    Any of `-g -p -t -s -j -r -m`, fallbacks, format fillers, literal delimiter of any length. -/
theorem readAndCutStr_mirror (opt : Opt) (bl' : UserBoundsList) (n : Nat) (input : Bytes)
    (hm : MirrorList n opt.bounds.list bl'.list)
    (hn : ∀ r ∈ records opt.eol.byte input, HasNFields (cfgOf opt) n r)
    (hd : opt.delimiter ≠ []) (hre : opt.regexBag = none)
    (hty : opt.boundsType = .fields ∨ opt.boundsType = .lines) (hjson : opt.json = false)
    (hz : AllNonzero opt.bounds.list) (hL : LastMarked opt.bounds.list) :
    readAndCutStr { opt with bounds := bl' } input = readAndCutStr opt input := by
  rw [readAndCutStr_eq_specRun_gen { opt with bounds := bl' } input hd hre hty hjson
      (hm.allNonzero hz) (hm.lastMarked hL),
    readAndCutStr_eq_specRun_gen opt input hd hre hty hjson hz hL]
  exact specRun_mirror (sameButBofs_cfgOf opt bl') n input hn hm

/-- the bounds are carried over to the fast lane's options unchanged -/
theorem fastOptOf_with_bounds (o : Opt) (fo : FastOpt) (bl' : UserBoundsList)
    (h : fastOptOf o = some fo) :
    fastOptOf { o with bounds := bl' } = some { fo with bounds := bl' } := by
  unfold fastOptOf at h ⊢
  cases hd : o.delimiter with
  | nil => simp [hd] at h
  | cons d t =>
    cases t with
    | cons _ _ => simp [hd] at h
    | nil =>
      simp only [hd] at h ⊢
      split at h
      · cases h
      · rename_i hc
        simp only [Option.some.injEq] at h
        subst h
        rw [if_neg hc]

/-- **C09, fast lane, the run.**  Not a corollary of the per-loop lemma: the rewritten list may
    be sortable where the original is not, so that the fast lane stops scanning after the
    rightmost requested field for one and scans the whole record for the other.  Both runs are
    the general engine's (C02), which is the specification's (C01). -/
theorem readAndCutFast_mirror (o : Opt) (bl' : UserBoundsList) (fo : FastOpt) (n : Nat)
    (input : Bytes) (ho : fastOptOf o = some fo)
    (l l' : List BoF) (hfv : fromVec l = .ok o.bounds) (hfv' : fromVec l' = .ok bl')
    (hm : MirrorList n o.bounds.list bl'.list)
    (hn : ∀ r ∈ records o.eol.byte input, HasNFields (cfgOf o) n r)
    (hz : AllNonzero o.bounds.list) (hL : LastMarked o.bounds.list) :
    readAndCutFast { fo with bounds := bl' } input = readAndCutFast fo input := by
  have hs := (fastOptOf_isSome_iff o).1 (by rw [ho]; rfl)
  obtain ⟨⟨d, hd⟩, _, _, _, hjson, hty, _, hre⟩ := hs
  have hre' : o.regexBag = none := by
    cases hr : o.regexBag with
    | none => rfl
    | some _ => rw [hr] at hre; cases hre
  rw [readAndCutFast_eq_readAndCutStr { o with bounds := bl' } { fo with bounds := bl' }
      (fastOptOf_with_bounds o fo bl' ho) l' hfv' (hm.allNonzero hz) input,
    readAndCutFast_eq_readAndCutStr o fo ho l hfv hz input]
  exact readAndCutStr_mirror o bl' n input hm hn (by rw [hd]; simp) hre' (Or.inl hty) hjson hz hL

/-- **C09, `-l`, the run.**  `n` is the number of lines of the input.  The original request
    (with a negative index) is served by the buffered algorithm, the rewritten one by the
    line-at-a-time algorithm if it happens to be forward-only: the statement crosses the two.
    `hfwd` is the domain on which the line-at-a-time algorithm is the specification (C05): a
    plain list of bounds that resolve on the input; see the `example` below for what happens
    outside it. -/
theorem readAndCutLines_mirror (o : Opt) (bl' : UserBoundsList) (input : Bytes)
    (hm : MirrorList (records o.eol.byte input).length o.bounds.list bl'.list)
    (hd : o.delimiter = [o.eol.byte]) (hty : o.boundsType = .lines)
    (hre : o.regexBag = none) (hjson : o.json = false)
    (hz : AllNonzero o.bounds.list) (hL : LastMarked o.bounds.list)
    (honly : o.onlyDelimited = false) (htrim : o.trim = none) (hg : o.greedyDelimiter = false)
    (hp : o.compressDelimiter = false) (hrepl : o.replaceDelimiter = none)
    (hutf : validUtf8 input = true) (h0 : input ≠ []) (h1 : input ≠ [o.eol.byte])
    (hfwd : o.complement = false → isForwardOnly bl'.list = true →
      ∃ bs : List UserBounds, bl'.list = bs.map .bound ∧
        ∀ b ∈ bs, resolve b (records o.eol.byte input).length ≠ none) :
    readAndCutLines { o with bounds := bl' } input = readAndCutLines o input := by
  have hfwd_o : o.complement = false → isForwardOnly o.bounds.list = true →
      ∃ bs : List UserBounds, o.bounds.list = bs.map .bound ∧
        ∀ b ∈ bs, resolve b (records o.eol.byte input).length ≠ none := by
    intro hc hf
    have hneg : hasNegativeIndices o.bounds.list = false := by
      unfold isForwardOnly at hf
      simp only [Bool.and_eq_true, Bool.not_eq_true'] at hf
      exact hf.2
    have he := hm.eq_of_noNeg hneg
    rw [he] at hfwd
    exact hfwd hc hf
  rw [readAndCutLines_eq_specLines { o with bounds := bl' } input hd hty hre hjson
      (hm.allNonzero hz) (hm.lastMarked hL) honly htrim hg hp hrepl hutf h0 h1 hfwd,
    readAndCutLines_eq_specLines o input hd hty hre hjson hz hL honly htrim hg hp hrepl hutf h0 h1
      hfwd_o]
  exact specLines_mirror (sameButBofs_cfgOf o bl') input hm

theorem cutBytesLoop_congr (data : Bytes) (o o' : Opt) (h : o'.fallbackOob = o.fallbackOob) :
    ∀ (l : List BoF), cutBytesLoop data o' l = cutBytesLoop data o l
  | [] => rfl
  | .filler f :: t => by simp only [cutBytesLoop, cutBytesLoop_congr data o o' h t]
  | .bound b :: t => by simp only [cutBytesLoop, cutBytesLoop_congr data o o' h t, h]

/-- **C09, `-b`, the run.**  `n` is the number of bytes of the input; no side condition. -/
theorem readAndCutBytes_mirror (o : Opt) (bl' : UserBoundsList) (data : Bytes)
    (hm : MirrorList data.length o.bounds.list bl'.list) :
    readAndCutBytes { o with bounds := bl' } data = readAndCutBytes o data := by
  unfold readAndCutBytes
  by_cases he : data.isEmpty = true
  · rw [if_pos he, if_pos he]
  · rw [if_neg he, if_neg he]
    rw [cutBytesLoop_congr data o { o with bounds := bl' } rfl]
    exact cutBytesLoop_mirror data o hm

/-! ## the same for bounds as the parser returns them -/

theorem boundsListOfString_fromVec (s : List Char) (ubl : UserBoundsList)
    (h : boundsListOfString s = .ok ubl) : ∃ l, fromVec l = .ok ubl := by
  unfold boundsListOfString at h
  split at h
  · cases h
  · split at h
    · cases h
    · split at h
      · cases h
      · exact ⟨_, h⟩

/-- general engine: both bounds arguments went through `UserBoundsList::from_str` -/
theorem readAndCutStr_mirror_of_parsed (opt : Opt) (bl' : UserBoundsList) (n : Nat) (input : Bytes)
    (s : List Char) (hparse : boundsListOfString s = .ok opt.bounds)
    (hm : MirrorList n opt.bounds.list bl'.list)
    (hn : ∀ r ∈ records opt.eol.byte input, HasNFields (cfgOf opt) n r)
    (hd : opt.delimiter ≠ []) (hre : opt.regexBag = none)
    (hty : opt.boundsType = .fields ∨ opt.boundsType = .lines) (hjson : opt.json = false) :
    readAndCutStr { opt with bounds := bl' } input = readAndCutStr opt input :=
  have h := boundsListOfString_good s opt.bounds hparse
  readAndCutStr_mirror opt bl' n input hm hn hd hre hty hjson h.1 h.2

/-- fast lane: both bounds arguments went through `UserBoundsList::from_str` (which is what
    computes `lastInteresting`, i.e. decides about the early stop) -/
theorem readAndCutFast_mirror_of_parsed (o : Opt) (bl' : UserBoundsList) (fo : FastOpt) (n : Nat)
    (input : Bytes) (ho : fastOptOf o = some fo) (s s' : List Char)
    (hparse : boundsListOfString s = .ok o.bounds) (hparse' : boundsListOfString s' = .ok bl')
    (hm : MirrorList n o.bounds.list bl'.list)
    (hn : ∀ r ∈ records o.eol.byte input, HasNFields (cfgOf o) n r) :
    readAndCutFast { fo with bounds := bl' } input = readAndCutFast fo input := by
  obtain ⟨l, hl⟩ := boundsListOfString_fromVec s _ hparse
  obtain ⟨l', hl'⟩ := boundsListOfString_fromVec s' _ hparse'
  have h := boundsListOfString_good s o.bounds hparse
  exact readAndCutFast_mirror o bl' fo n input ho l l' hl hl' hm hn h.1 h.2

/-! ## executed instances -/

/-- `-1,x,-3:2` and `3,x,1:2` are related on records of 3 fields -/
def c09Neg : List BoF :=
  [.bound { l := .some (-1), r := .some (-1) }, .filler [0x78],
   .bound { l := .some (-3), r := .some 2, isLast := true }]
def c09Pos : List BoF :=
  [.bound { l := .some 3, r := .some 3 }, .filler [0x78],
   .bound { l := .some 1, r := .some 2, isLast := true }]

example : MirrorList 3 c09Neg c09Pos :=
  .bound ⟨.flip 1 (by omega) (by omega), .flip 1 (by omega) (by omega), rfl, rfl⟩
    (.filler _ (.bound ⟨.flip 3 (by omega) (by omega), .same _, rfl, rfl⟩ .nil))

/-- general engine and fast lane on `a-b-c⏎d-e-f⏎`, `-d - -j`: the same run, written with
    negative or with positive indexes; for the fast lane the first request scans whole records
    (`lastInteresting = cont`), the second may stop after field 3 -/
example :
    let o (l : List BoF) (li : Side) : Opt := { delimiter := [45], bounds := ⟨l, li⟩, join := true }
    let input : Bytes := [97, 45, 98, 45, 99, 10, 100, 45, 101, 45, 102, 10]
    readAndCutStr (o c09Pos (.some 3)) input = readAndCutStr (o c09Neg .cont) input ∧
    readAndCutStr (o c09Neg .cont) input =
      Run.ok [99, 45, 120, 97, 45, 98, 10, 102, 45, 120, 100, 45, 101, 10] ∧
    (fastOptOf (o c09Pos (.some 3))).map (readAndCutFast · input) =
      (fastOptOf (o c09Neg .cont)).map (readAndCutFast · input) ∧
    (fastOptOf (o c09Neg .cont)).isSome = true := by
  decide

/-- across the early stop: `-3,-4` scans the whole record (`lastInteresting = -3` is never met
    by the field counter), `2,1` stops after the second delimiter (`lastInteresting = 2`) of
    `a-b-c-d` -/
example :
    let neg : List BoF := [.bound { l := .some (-3), r := .some (-3) },
                           .bound { l := .some (-4), r := .some (-4), isLast := true }]
    let pos : List BoF := [.bound { l := .some 2, r := .some 2 },
                           .bound { l := .some 1, r := .some 1, isLast := true }]
    let o (l : List BoF) (li : Side) : Opt := { delimiter := [45], bounds := ⟨l, li⟩ }
    let input : Bytes := [97, 45, 98, 45, 99, 45, 100, 10]
    fromVec pos = .ok ⟨pos, .some 2⟩ ∧ fromVec neg = .ok ⟨neg, .some (-3)⟩ ∧
    (fastOptOf (o pos (.some 2))).map (readAndCutFast · input) = some (Run.ok [98, 97, 10]) ∧
    (fastOptOf (o neg (.some (-3)))).map (readAndCutFast · input) = some (Run.ok [98, 97, 10]) := by
  decide

/-- `-l` on `a⏎b⏎c⏎`: `-3:-2` (buffered algorithm) and `1:2` (one line at a time) -/
example :
    let o (l : List BoF) : Opt :=
      { delimiter := [10], boundsType := .lines, join := true, bounds := ⟨l, .cont⟩ }
    let input : Bytes := [97, 10, 98, 10, 99, 10]
    isForwardOnly [.bound { l := .some 1, r := .some 2, isLast := true }] = true ∧
    isForwardOnly [.bound { l := .some (-3), r := .some (-2), isLast := true }] = false ∧
    readAndCutLines (o [.bound { l := .some (-3), r := .some (-2), isLast := true }]) input =
      Run.ok [97, 10, 98, 10] ∧
    readAndCutLines (o [.bound { l := .some 1, r := .some 2, isLast := true }]) input =
      Run.ok [97, 10, 98, 10] := by
  decide

/-- **the side condition `hfwd` of `readAndCutLines_mirror` cannot be dropped** (known finding:
    a closed range cut short by the end of the input, one line at a time).  On the three lines
    `a b c`, `-3:5=x` does not resolve, is served by the buffered algorithm and prints its
    fallback; its mirror `1:5=x` is forward-only, is served one line at a time, prints the three
    lines and then fails.  The specification says `x⏎` for both. -/
example :
    let o (l : List BoF) : Opt :=
      { delimiter := [10], boundsType := .lines, join := true, bounds := ⟨l, .cont⟩ }
    let input : Bytes := [97, 10, 98, 10, 99, 10]
    let neg : List BoF := [.bound { l := .some (-3), r := .some 5, isLast := true, fallback := some [0x78] }]
    let pos : List BoF := [.bound { l := .some 1, r := .some 5, isLast := true, fallback := some [0x78] }]
    readAndCutLines (o neg) input = Run.ok [0x78, 10] ∧
    readAndCutLines (o pos) input = ⟨[97, 10, 98, 10, 99], .fail⟩ ∧
    specLines (cfgOf (o pos)) input = Run.ok [0x78, 10] ∧
    specLines (cfgOf (o neg)) input = Run.ok [0x78, 10] := by
  decide

/-- `-b` on the bytes `00 0A FF 61`: `-1,x,-3:3` and `4,x,2:3` -/
example :
    let o (l : List BoF) : Opt := { delimiter := [], boundsType := .bytes, bounds := ⟨l, .cont⟩ }
    readAndCutBytes (o [.bound { l := .some (-1), r := .some (-1) }, .filler [0x78],
        .bound { l := .some (-3), r := .some 3, isLast := true }]) [0x00, 0x0A, 0xFF, 0x61] =
    readAndCutBytes (o [.bound { l := .some 4, r := .some 4 }, .filler [0x78],
        .bound { l := .some 2, r := .some 3, isLast := true }]) [0x00, 0x0A, 0xFF, 0x61] := by
  decide

/-- the specification with `-m` and with `--json`: `-2` and `2` on `a-b-c` -/
example :
    let cfg (v : Int) (m js : Bool) : Cfg :=
      { delimiter := [45], eol := 10, bofs := [.bound { l := .some v, r := .some v }],
        complement := m, json := js }
    specRecord (cfg (-2) true false) [97, 45, 98, 45, 99] = Run.ok [97, 99, 10] ∧
    specRecord (cfg 2 true false) [97, 45, 98, 45, 99] = Run.ok [97, 99, 10] ∧
    specRecord (cfg (-2) true true) [97, 45, 98, 45, 99] =
      specRecord (cfg 2 true true) [97, 45, 98, 45, 99] := by
  decide

end Tuc
