import Tuc.Model.ReadLoops
import Tuc.Model.Lines
import Tuc.Lemmas.Run
import Tuc.Lemmas.Total
import Tuc.Props.StreamLoop

/-!
# Tuc.Props.ReadLoops — the general engine and byte mode do not depend on how the input is chunked

`Tuc.Model.ReadLoops` transcribes, statement by statement, the code that stands between the
`BufRead` and `cut_str` / `cut_bytes`: `read_and_cut_str` (cut_str.rs:458-503), bstr's
`for_byte_record` / `for_byte_record_with_terminator` / `trim_record_slice`, std's `read_until`,
`read_bytes_to_end` (read_utils.rs:4-14), `cut_bytes` / `read_and_cut_bytes` (cut_bytes.rs), over
the segmented reader of `Tuc.Model.StreamLoop` (`stdin : List Bytes` = the chunks the successive
`fill_buf()` calls hand out).  `readAndCutStr` (`Tuc.Model.CutStr`) and `readAndCutBytes`
(`Tuc.Model.Lines`) — what C01, C02, C05 … are about — take the whole input at once.  This file
proves that they are the same:

* `readAndCutStrLoop_eq`   : `readAndCutStrLoop opt segs = readAndCutStr opt segs.flatten`
* `readAndCutBytesLoop_eq` : `readAndCutBytesLoop opt segs = readAndCutBytes opt segs.flatten`

for EVERY option record, every input and every segmentation `segs` of it into non-empty chunks —
bytes written and status.  So the checked operations of the literal model (`split_at`,
`&record[..len-1]`, `&available[..=i]`, `&data[r.start..r.end]` beyond what `readAndCutBytes`
already checks) never panic and the fuel (`2 · bytes + 2` for the outer loops, `buf.len() + 1` /
`bytes + 1` for the inner ones) is never used up: `outerLoop_fuel_irrelevant`,
`readToEndLoop_spec`; with `Tuc.Lemmas.Total`: `readAndCutStrLoop_safe`, `readAndCutBytesLoop_safe`.

The only hypothesis, `∀ s ∈ segs, s ≠ []`, is the `BufRead` contract: an empty `fill_buf()` means
EOF — the loops stop there (io.rs:305 `break`, mod.rs:2266 `used == 0`, `read` returning 0),
whereas `List.flatten` does not see an empty chunk.  It cannot be dropped (the `#guard`s after the
theorems give the witnesses `["a-b\nc-", "", "d\n"]` / `["ab", "", "cd"]`); the real program
cannot reach such a state: `BufReader::fill_buf` returns an empty slice only when `read` returned
0, i.e. at end of input (and the harness' `SegReader` hands out at least one byte, `l.max(1)`).

Pieces, bottom up

1. `splitWT t cur input` — the records of `input` WITH their terminator, `cur` being the bytes of
   the current record seen so far (in order); `splitWT_memchr_none` / `splitWT_memchr_some` say what
   `find_byte` / `memchr` on a chunk mean for it.  `foldRecords f recs st` — call the closure on
   the records in order, threading its state, until `Ok(false)` or `Err`.
2. `whileFindByte_spec` (io.rs:308-320): the inner `while let` serves the complete records of
   the chunk and leaves the final fragment in `buf`; `consumed + buf.len()` is the chunk length.
3. `readUntilLoop_spec` (mod.rs:2244-2270): `read_until` appends the rest of the record that
   straddles the reads (through any number of chunks without terminator), stops after the
   terminator — also when it is the last byte of a chunk —, or at EOF (final record without
   terminator; `bytes` stays empty iff nothing is left), never hangs, leaves a reader without
   empty chunk.
4. `outerLoop_spec` (io.rs:301-343): induction on the fuel; one turn consumes the whole chunk (at
   least one byte).  `forByteRecordWithTerminatorLoop_eq`: the closure is called on exactly
   `splitWT t [] segs.flatten`.
5. `foldRecords_trimmed`: `trim_record_slice` turns these into the `splitRecords` / `records` of
   `Tuc.Model.Text` — the loop's record sequence IS the model's (`forByteRecordLoop_eq_records`,
   for every closure).
6. `foldRecords_cutStrClosure`: on a record without terminator (`records_not_mem`) the second
   `strip_suffix` of l.473 is the identity, the two scratch buffers are threaded as `cutRecords`
   threads them, and `res = Err(err); break 'outer` is the early exit of `Run.seq`: the run stops
   with status `fail` after the output of the earlier records.
7. byte mode: `readToEndLoop_spec`, `readBytesToEndLit_eq` (`None` iff no byte at all — then
   `buffer` is empty and `cut_bytes` returns at l.10), `tryForEach_cutBytesBody` (the closure of
   `try_for_each` against `cutBytesLoop`).

The executable comparison at the end of the file is independent of the proofs.
-/

namespace Tuc
namespace ReadLoops

open StreamLoop (fillBuf consume memchr totalBytes fuelFor)

/-! ## records with their terminator -/

/-- the records of `input`, each WITH its terminator (the last one possibly without); `cur`: the
    bytes of the current record seen so far, in order -/
def splitWT (t : UInt8) : Bytes → Bytes → List Bytes
  | cur, [] => if cur.isEmpty then [] else [cur]
  | cur, c :: tl => if c = t then (cur ++ [c]) :: splitWT t [] tl else splitWT t (cur ++ [c]) tl

theorem memchr_some_lt (t : UInt8) : ∀ (l : Bytes) (i : Nat), memchr t l = some i → i < l.length := by
  intro l
  induction l with
  | nil => intro i h; simp [memchr] at h
  | cons c tl ih =>
    intro i h
    unfold memchr at h
    by_cases hc : c = t
    · rw [if_pos hc] at h; cases h; simp
    · rw [if_neg hc] at h
      cases hm : memchr t tl with
      | none => rw [hm] at h; cases h
      | some j => rw [hm] at h; cases h; have := ih j hm; simp; omega

theorem splitWT_memchr_none (t : UInt8) (rest : Bytes) : ∀ (l cur : Bytes), memchr t l = none →
    splitWT t cur (l ++ rest) = splitWT t (cur ++ l) rest := by
  intro l
  induction l with
  | nil => intro cur _; simp
  | cons c tl ih =>
    intro cur h
    unfold memchr at h
    by_cases hc : c = t
    · rw [if_pos hc] at h; cases h
    · rw [if_neg hc] at h
      cases hm : memchr t tl with
      | some j => rw [hm] at h; cases h
      | none =>
        rw [List.cons_append, splitWT, if_neg hc, ih _ hm]
        simp

theorem splitWT_memchr_some (t : UInt8) (rest : Bytes) : ∀ (l cur : Bytes) (i : Nat), memchr t l = some i →
    splitWT t cur (l ++ rest) = (cur ++ l.take (i + 1)) :: splitWT t [] (l.drop (i + 1) ++ rest) := by
  intro l
  induction l with
  | nil => intro cur i h; simp [memchr] at h
  | cons c tl ih =>
    intro cur i h
    unfold memchr at h
    by_cases hc : c = t
    · rw [if_pos hc] at h; cases h
      rw [List.cons_append, splitWT, if_pos hc]
      simp
    · rw [if_neg hc] at h
      cases hm : memchr t tl with
      | none => rw [hm] at h; cases h
      | some j =>
        rw [hm] at h; cases h
        rw [List.cons_append, splitWT, if_neg hc, ih _ j hm]
        simp


/-- call the closure on the records in order, threading its captured state; stop after the first
    call that returns `Ok(false)`, `Err(_)` (or panics): the run then ends with what was written
    so far and that status -/
def foldRecords {σ : Type} (f : Closure σ) : List Bytes → σ → Run
  | [], _ => Run.empty
  | rec :: t, st =>
    if (f rec st).1.status = .ok ∧ (f rec st).2.1 = true then (f rec st).1.seq (foldRecords f t (f rec st).2.2)
    else (f rec st).1

theorem splitAt?_of_le (buf : Bytes) (mid : Nat) (h : mid ≤ buf.length) :
    splitAt? buf mid = some (buf.take mid, buf.drop mid) := by
  simp [splitAt?, h]

theorem whileFindByte_succ {σ : Type} (t : UInt8) (f : Closure σ) (fuel : Nat) (buf : Bytes) (consumed : Nat)
    (st : σ) :
    whileFindByte t f (fuel + 1) buf consumed st =
      match memchr t buf with
      | none => ⟨Run.empty, false, buf, consumed, st⟩
      | some index =>
        match splitAt? buf (index + 1) with
        | none => ⟨Run.panic, true, buf, consumed, st⟩
        | some (record, rest) =>
          if (f record st).1.status = .ok then
            if (f record st).2.1 then
              { whileFindByte t f fuel rest (consumed + record.length) (f record st).2.2 with
                run := (f record st).1.seq
                  (whileFindByte t f fuel rest (consumed + record.length) (f record st).2.2).run }
            else ⟨(f record st).1, true, rest, consumed + record.length, (f record st).2.2⟩
          else ⟨(f record st).1, true, rest, consumed + record.length, (f record st).2.2⟩ := rfl

/-- io.rs:308-320 on a buffer `buf` followed (in later chunks) by `rest`: serving the records of
    `buf ++ rest` is what the loop does, then — unless it left by `break 'outer` — serving the
    records of `rest` with the final fragment `buf'` pending; `consumed + buf.len()` is invariant -/
theorem whileFindByte_spec {σ : Type} (t : UInt8) (f : Closure σ) (rest : Bytes) :
    ∀ (fuel : Nat) (buf : Bytes) (consumed : Nat) (st : σ), buf.length < fuel →
    foldRecords f (splitWT t [] (buf ++ rest)) st =
      (if (whileFindByte t f fuel buf consumed st).breakOuter then (whileFindByte t f fuel buf consumed st).run
       else (whileFindByte t f fuel buf consumed st).run.seq
         (foldRecords f (splitWT t (whileFindByte t f fuel buf consumed st).buf rest)
           (whileFindByte t f fuel buf consumed st).st))
    ∧ ((whileFindByte t f fuel buf consumed st).breakOuter = false →
        (whileFindByte t f fuel buf consumed st).consumed + (whileFindByte t f fuel buf consumed st).buf.length
          = consumed + buf.length) := by
  intro fuel
  induction fuel with
  | zero => intro buf consumed st h; omega
  | succ fuel ih =>
    intro buf consumed st hfuel
    rw [whileFindByte_succ]
    cases hm : memchr t buf with
    | none =>
      simp only
      rw [splitWT_memchr_none t rest buf [] hm]
      simp
    | some index =>
      have hlt := memchr_some_lt t buf index hm
      simp only
      rw [splitAt?_of_le buf (index + 1) (by omega), splitWT_memchr_some t rest buf [] index hm]
      simp only [List.nil_append]
      have hdl : (buf.drop (index + 1)).length < fuel := by simp; omega
      have ih' := ih (buf.drop (index + 1)) (consumed + (buf.take (index + 1)).length)
        (f (buf.take (index + 1)) st).2.2 hdl
      rw [foldRecords]
      by_cases hok : (f (buf.take (index + 1)) st).1.status = .ok
      · by_cases hk : (f (buf.take (index + 1)) st).2.1 = true
        · rw [if_pos ⟨hok, hk⟩, if_pos hok, if_pos hk]
          simp only
          obtain ⟨ih1, ih2⟩ := ih'
          constructor
          · rw [ih1]
            split
            · rfl
            · rw [Run.seq_assoc]
          · intro hb
            rw [ih2 hb]
            simp
            omega
        · rw [if_neg (fun h => hk h.2), if_pos hok, if_neg hk]
          simp
      · rw [if_neg (fun h => hok h.1), if_neg hok]
        simp


/-! ## the reader -/

theorem flatten_consume (n : Nat) (chunk : Bytes) (more : List Bytes) :
    (consume n (chunk :: more)).flatten = chunk.drop n ++ more.flatten := by
  rw [StreamLoop.consume_cons]
  by_cases h : n < chunk.length
  · rw [if_pos h]; simp
  · rw [if_neg h, List.drop_eq_nil_of_le (by omega)]; simp

theorem totalBytes_consume_le (n : Nat) (stdin : List Bytes) : totalBytes (consume n stdin) ≤ totalBytes stdin := by
  cases stdin with
  | nil => simp [consume]
  | cons chunk more =>
    rw [StreamLoop.consume_cons]
    by_cases h : n < chunk.length
    · rw [if_pos h]; simp [totalBytes]
    · rw [if_neg h]; simp [totalBytes]

theorem readUntilLoop_succ (t : UInt8) (fuel : Nat) (r : List Bytes) (buf : Bytes) (read : Nat) :
    readUntilLoop t (fuel + 1) r buf read =
      match (match memchr t (fillBuf r) with
             | some i =>
               if i < (fillBuf r).length then some (true, i + 1, buf ++ (fillBuf r).take (i + 1)) else none
             | none => some (false, (fillBuf r).length, buf ++ fillBuf r) : Option (Bool × Nat × Bytes)) with
      | none => .panic
      | some (done, used, buf) =>
        if done || used == 0 then .ok (read + used, buf, consume used r)
        else readUntilLoop t fuel (consume used r) buf (read + used) := rfl

/-- `read_until` on a reader without empty chunks: it does not hang or panic, leaves a reader
    without empty chunks, and cuts the first record (with `buf` in front) off the input -/
theorem readUntilLoop_spec (t : UInt8) : ∀ (fuel : Nat) (stdin : List Bytes) (buf : Bytes) (read : Nat),
    (∀ s ∈ stdin, s ≠ []) → totalBytes stdin < fuel →
    ∃ read' buf' stdin', readUntilLoop t fuel stdin buf read = .ok (read', buf', stdin') ∧
      (∀ s ∈ stdin', s ≠ []) ∧ totalBytes stdin' ≤ totalBytes stdin ∧
      splitWT t buf stdin.flatten = (if buf'.isEmpty then [] else buf' :: splitWT t [] stdin'.flatten) := by
  intro fuel
  induction fuel with
  | zero => intro stdin buf read _ h; omega
  | succ fuel ih =>
    intro stdin buf read hne hfuel
    rw [readUntilLoop_succ]
    cases stdin with
    | nil =>
      refine ⟨read + 0, buf ++ [], [], ?_, ?_, ?_, ?_⟩
      · simp [fillBuf, memchr, consume]
      · intro s hs; cases hs
      · exact Nat.le_refl _
      · simp [splitWT]
    | cons chunk more =>
      have hc : chunk ≠ [] := hne chunk (List.mem_cons_self ..)
      have hclen : 0 < chunk.length := List.length_pos_iff.mpr hc
      have hfb : fillBuf (chunk :: more) = chunk := rfl
      rw [hfb]
      cases hm : memchr t chunk with
      | some i =>
        have hlt := memchr_some_lt t chunk i hm
        refine ⟨read + (i + 1), buf ++ chunk.take (i + 1), consume (i + 1) (chunk :: more), ?_, ?_, ?_, ?_⟩
        · simp [hlt]
        · exact StreamLoop.consume_nonempty _ _ hne
        · exact totalBytes_consume_le _ _
        · rw [List.flatten_cons, splitWT_memchr_some t more.flatten chunk buf i hm, flatten_consume]
          have : (buf ++ chunk.take (i + 1)).isEmpty = false := by
            cases chunk with
            | nil => exact absurd rfl hc
            | cons c tl => cases buf <;> simp
          rw [this]
          simp
      | none =>
        have hmore : ∀ s ∈ more, s ≠ [] := fun s hs => hne s (List.mem_cons_of_mem _ hs)
        have htb : totalBytes (chunk :: more) = chunk.length + totalBytes more := rfl
        obtain ⟨read', buf', stdin', h1, h2, h3, h4⟩ :=
          ih more (buf ++ chunk) (read + chunk.length) hmore (by omega)
        refine ⟨read', buf', stdin', ?_, h2, by omega, ?_⟩
        · have hz : (chunk.length == 0) = false := by simp; omega
          simp only [Bool.false_or, hz]
          rw [StreamLoop.consume_all]
          exact h1
        · rw [List.flatten_cons, splitWT_memchr_none t more.flatten chunk buf hm]
          exact h4


/-! ## the `'outer` loop -/

/-- io.rs:325-343 for a chunk on which the `while` loop ended normally -/
def afterWhile {σ : Type} (t : UInt8) (f : Closure σ) (fuel : Nat) (stdin : List Bytes) (bytes : Bytes)
    (w : WhileOut σ) : Run × List Bytes :=
  match readUntilLoop t (totalBytes (consume (w.consumed + w.buf.length) stdin) + 1)
      (consume (w.consumed + w.buf.length) stdin) (bytes ++ w.buf) 0 with
  | .hang => (w.run.seq Run.hang, consume (w.consumed + w.buf.length) stdin)
  | .panic => (w.run.seq Run.panic, consume (w.consumed + w.buf.length) stdin)
  | .ok (_, bytes, stdin) =>
    if bytes.isEmpty then (w.run, consume 0 stdin)
    else
      if (f bytes w.st).1.status = .ok then
        if !(f bytes w.st).2.1 then (w.run.seq (f bytes w.st).1, consume 0 stdin)
        else
          ((w.run.seq (f bytes w.st).1).seq (outerLoop t f fuel stdin (TextLoops.clear bytes) 0 (f bytes w.st).2.2).1,
           (outerLoop t f fuel stdin (TextLoops.clear bytes) 0 (f bytes w.st).2.2).2)
      else (w.run.seq (f bytes w.st).1, stdin)

theorem outerLoop_succ {σ : Type} (t : UInt8) (f : Closure σ) (fuel : Nat) (stdin : List Bytes) (bytes : Bytes)
    (consumed : Nat) (st : σ) :
    outerLoop t f (fuel + 1) stdin bytes consumed st =
      if (fillBuf stdin).isEmpty then (Run.empty, consume consumed stdin)
      else
        if (whileFindByte t f ((fillBuf stdin).length + 1) (fillBuf stdin) consumed st).breakOuter then
          ((whileFindByte t f ((fillBuf stdin).length + 1) (fillBuf stdin) consumed st).run,
           consume (whileFindByte t f ((fillBuf stdin).length + 1) (fillBuf stdin) consumed st).consumed stdin)
        else afterWhile t f fuel stdin bytes
          (whileFindByte t f ((fillBuf stdin).length + 1) (fillBuf stdin) consumed st) := rfl

/-- **the `'outer` loop** (io.rs:301-343) from the top of an iteration (`bytes` empty, `consumed = 0`),
    for any fuel above the number of bytes left -/
theorem outerLoop_spec {σ : Type} (t : UInt8) (f : Closure σ) : ∀ (fuel : Nat) (stdin : List Bytes) (st : σ),
    (∀ s ∈ stdin, s ≠ []) → totalBytes stdin < fuel →
    (outerLoop t f fuel stdin [] 0 st).1 = foldRecords f (splitWT t [] stdin.flatten) st := by
  intro fuel
  induction fuel with
  | zero => intro stdin st _ h; omega
  | succ fuel ih =>
    intro stdin st hne hfuel
    rw [outerLoop_succ]
    cases stdin with
    | nil => simp [fillBuf, splitWT, foldRecords]
    | cons chunk more =>
      have hc : chunk ≠ [] := hne chunk (List.mem_cons_self ..)
      have hclen : 0 < chunk.length := List.length_pos_iff.mpr hc
      have hmore : ∀ s ∈ more, s ≠ [] := fun s hs => hne s (List.mem_cons_of_mem _ hs)
      have htb : totalBytes (chunk :: more) = chunk.length + totalBytes more := rfl
      have hfb : fillBuf (chunk :: more) = chunk := rfl
      have hce : chunk.isEmpty = false := by
        cases chunk with
        | nil => exact absurd rfl hc
        | cons _ _ => rfl
      rw [hfb, hce]
      simp only [Bool.false_eq_true, if_false]
      obtain ⟨hw1, hw2⟩ := whileFindByte_spec t f more.flatten (chunk.length + 1) chunk 0 st (by omega)
      rw [List.flatten_cons, hw1]
      generalize whileFindByte t f (chunk.length + 1) chunk 0 st = w at hw2 ⊢
      cases hb : w.breakOuter with
      | true => simp
      | false =>
        simp only [Bool.false_eq_true, if_false]
        have hcons := hw2 hb
        unfold afterWhile
        rw [hcons, Nat.zero_add, StreamLoop.consume_all, List.nil_append]
        obtain ⟨read', bytes', stdin', h1, h2, h3, h4⟩ :=
          readUntilLoop_spec t (totalBytes more + 1) more w.buf 0 hmore (by omega)
        rw [h1, h4]
        simp only
        by_cases hbe : bytes'.isEmpty = true
        · rw [if_pos hbe, if_pos hbe]
          simp [foldRecords]
        · rw [if_neg hbe, if_neg hbe, foldRecords]
          by_cases hok : (f bytes' w.st).1.status = .ok
          · rw [if_pos hok]
            cases hk : (f bytes' w.st).2.1 with
            | true =>
              simp only [hok, and_self, if_true, Bool.not_true, Bool.false_eq_true, if_false]
              rw [show TextLoops.clear bytes' = ([] : Bytes) from rfl, ih stdin' _ h2 (by omega), Run.seq_assoc]
            | false =>
              simp [hok]
          · rw [if_neg hok, if_neg (fun h => hok h.1)]


/-! ## the closure of `read_and_cut_str` on the records of `for_byte_record_with_terminator` -/

theorem trimRecordSlice_snoc (cur : Bytes) (t : UInt8) : trimRecordSlice (cur ++ [t]) t = some cur := by
  simp [trimRecordSlice]

theorem trimRecordSlice_not_mem (cur : Bytes) (t : UInt8) (h : t ∉ cur) : trimRecordSlice cur t = some cur := by
  unfold trimRecordSlice
  rw [if_neg]
  intro hl
  exact h (List.mem_of_getLast? hl)

theorem stripSuffix_not_mem (cur : Bytes) (t : UInt8) (h : t ∉ cur) : stripSuffix cur [t] = none := by
  unfold stripSuffix
  rw [if_neg]
  intro hs
  rw [List.isSuffixOf_iff_suffix] at hs
  exact h (hs.subset (List.mem_singleton.mpr rfl))

/-- the closure `for_byte_record` hands to `for_byte_record_with_terminator` (io.rs:195-197) -/
def trimmed {σ : Type} (t : UInt8) (f : Closure σ) : Closure σ := fun chunk st =>
  match trimRecordSlice chunk t with
  | none => (Run.panic, false, st)
  | some record => f record st

theorem forByteRecordLoop_eq {σ : Type} (t : UInt8) (f : Closure σ) (stdin : List Bytes) (st : σ) :
    forByteRecordLoop t f stdin st = outerLoop t (trimmed t f) (fuelFor stdin) stdin [] 0 st := rfl

theorem splitRecords_not_mem (t : UInt8) : ∀ (input cur : Bytes), t ∉ cur →
    ∀ r ∈ splitRecords t cur input, t ∉ r := by
  intro input
  induction input with
  | nil =>
    intro cur h r hr
    unfold splitRecords at hr
    split at hr
    · cases hr
    · rw [List.mem_singleton] at hr
      subst hr
      simpa using h
  | cons c tl ih =>
    intro cur h r hr
    unfold splitRecords at hr
    by_cases hc : c = t
    · rw [if_pos hc] at hr
      rcases List.mem_cons.mp hr with rfl | hr
      · simpa using h
      · exact ih [] (by simp) r hr
    · rw [if_neg hc] at hr
      exact ih (c :: cur) (by simp; exact ⟨fun e => hc e.symm, h⟩) r hr

/-- the records of the model contain no terminator -/
theorem records_not_mem (t : UInt8) (input : Bytes) : ∀ r ∈ records t input, t ∉ r :=
  splitRecords_not_mem t input [] (by simp)

/-- **the record sequences agree**: trimming the terminated records (`trim_record_slice`,
    io.rs:196; it never panics on them) gives exactly the records `splitRecords` of
    `Tuc.Model.Text` cuts, in the same order -/
theorem foldRecords_trimmed {σ : Type} (t : UInt8) (f : Closure σ) : ∀ (input cur : Bytes) (st : σ),
    t ∉ cur →
    foldRecords (trimmed t f) (splitWT t cur input) st = foldRecords f (splitRecords t cur.reverse input) st := by
  intro input
  induction input with
  | nil =>
    intro cur st h
    by_cases hc : cur = []
    · subst hc; rfl
    · have hce : cur.isEmpty = false := by cases cur <;> simp_all
      simp only [splitWT, splitRecords, hce, List.isEmpty_reverse, Bool.false_eq_true, if_false, foldRecords,
        List.reverse_reverse]
      simp only [trimmed, trimRecordSlice_not_mem cur t h]
  | cons c tl ih =>
    intro cur st h
    by_cases hc : c = t
    · subst hc
      simp only [splitWT, splitRecords, if_true, foldRecords, List.reverse_reverse]
      have ht : ∀ st, trimmed c f (cur ++ [c]) st = f cur st := by
        intro st; simp only [trimmed, trimRecordSlice_snoc]
      simp only [ht]
      rw [ih [] _ (by simp)]
      rfl
    · simp only [splitWT, splitRecords, if_neg hc]
      have := ih (cur ++ [c]) st (by simp; exact ⟨h, fun e => hc e.symm⟩)
      simpa using this

theorem cutStrClosure_not_mem (opt : Opt) (r : Bytes) (st : List Range × Bytes) (h : opt.eol.byte ∉ r) :
    cutStrClosure opt r st =
      ((cutStr r opt st.1 st.2 [opt.eol.byte]).1, true,
       ((cutStr r opt st.1 st.2 [opt.eol.byte]).2.1, (cutStr r opt st.1 st.2 [opt.eol.byte]).2.2)) := by
  simp only [cutStrClosure, stripSuffix_not_mem r _ h, Option.getD_none]

theorem cutRecords_cons (opt : Opt) (r : Bytes) (t : List Bytes) (fields : List Range) (buf : Bytes) :
    cutRecords opt (r :: t) fields buf =
      (cutStr r opt fields buf [opt.eol.byte]).1.seq
        (cutRecords opt t (cutStr r opt fields buf [opt.eol.byte]).2.1
          (cutStr r opt fields buf [opt.eol.byte]).2.2) := rfl

/-- folding the closure of `read_and_cut_str` (l.472-485) over records without terminator is
    `cutRecords`: the second `strip_suffix` (l.473) finds nothing to strip, the scratch buffers are
    threaded the same way, an `Err` of `cut_str` stops the loop with what was written so far -/
theorem foldRecords_cutStrClosure (opt : Opt) : ∀ (recs : List Bytes) (st : List Range × Bytes),
    (∀ r ∈ recs, opt.eol.byte ∉ r) →
    foldRecords (cutStrClosure opt) recs st = cutRecords opt recs st.1 st.2 := by
  intro recs
  induction recs with
  | nil => intro st _; rfl
  | cons r t ih =>
    intro st h
    have hr := h r (List.mem_cons_self ..)
    have ht : ∀ r' ∈ t, opt.eol.byte ∉ r' := fun r' hr' => h r' (List.mem_cons_of_mem _ hr')
    simp only [foldRecords, cutStrClosure_not_mem opt r st hr, cutRecords_cons, and_true]
    rw [ih _ ht]
    split
    · rfl
    · rename_i hs
      rw [Run.seq_of_not_ok _ _ hs]

/-! ## `read_and_cut_str` -/

theorem totalBytes_lt_fuelFor (stdin : List Bytes) : totalBytes stdin < fuelFor stdin := by
  unfold fuelFor; omega

/-- `for_byte_record_with_terminator` (bstr) on a reader without empty chunks: the closure is
    called on exactly the terminated records of the concatenated input, in order, with its state
    threaded through, until it says `Ok(false)` or `Err`; nothing depends on the chunking -/
theorem forByteRecordWithTerminatorLoop_eq {σ : Type} (t : UInt8) (f : Closure σ) (segs : List Bytes) (st : σ)
    (h : ∀ s ∈ segs, s ≠ []) :
    (forByteRecordWithTerminatorLoop t f segs st).1 = foldRecords f (splitWT t [] segs.flatten) st :=
  outerLoop_spec t f _ segs st h (totalBytes_lt_fuelFor segs)

/-- `for_byte_record` (bstr): the closure is called on exactly `records t (concatenation)` -/
theorem forByteRecordLoop_eq_records {σ : Type} (t : UInt8) (f : Closure σ) (segs : List Bytes) (st : σ)
    (h : ∀ s ∈ segs, s ≠ []) :
    (forByteRecordLoop t f segs st).1 = foldRecords f (records t segs.flatten) st := by
  rw [forByteRecordLoop_eq, outerLoop_spec _ _ _ _ _ h (totalBytes_lt_fuelFor segs),
    foldRecords_trimmed t f segs.flatten [] st (by simp)]
  rfl

/-- the fuel of the `'outer` loop is not observable: any amount above the number of bytes gives
    the run of `forByteRecordWithTerminatorLoop` (which is entered with `2 · bytes + 2`), so
    `hang` never comes from the fuel; the inner loops are entered with `buf.len() + 1` and
    `bytes + 1` units, and `whileFindByte_spec` / `readUntilLoop_spec` hold from there on -/
theorem outerLoop_fuel_irrelevant {σ : Type} (t : UInt8) (f : Closure σ) (segs : List Bytes) (st : σ)
    (h : ∀ s ∈ segs, s ≠ []) (fuel : Nat) (hfuel : totalBytes segs < fuel) :
    (outerLoop t f fuel segs [] 0 st).1 = (forByteRecordWithTerminatorLoop t f segs st).1 := by
  rw [forByteRecordWithTerminatorLoop_eq t f segs st h]
  exact outerLoop_spec t f fuel segs st h hfuel

/-- **Refinement, general engine.**  For every option record and every list of non-empty reads
    the literal `read_and_cut_str` — `for_byte_record`, `for_byte_record_with_terminator`,
    `read_until`, the closure — writes the same bytes and ends with the same status as
    `readAndCutStr` on the concatenation of the reads.  In particular the checked operations
    (`split_at`, the three slices) never panic and no loop runs out of fuel.

    `h` is the `BufRead` contract the loops rely on: an empty `fill_buf()` IS end of input for
    them (io.rs:305, mod.rs:2266), whereas `List.flatten` silently drops an empty chunk; a
    `BufReader` (and the harness' `SegReader`) hands out an empty buffer only at EOF.  The
    `#guard` after the theorem shows that `h` cannot be dropped. -/
theorem readAndCutStrLoop_eq (opt : Opt) (segs : List Bytes) (h : ∀ s ∈ segs, s ≠ []) :
    readAndCutStrLoop opt segs = readAndCutStr opt segs.flatten := by
  unfold readAndCutStrLoop readAndCutStr
  simp only [Run.seq_empty]
  rw [forByteRecordLoop_eq_records _ _ _ _ h,
    foldRecords_cutStrClosure opt _ _ (records_not_mem opt.eol.byte segs.flatten)]

/-- the general engine does not depend on how the input is chunked -/
theorem readAndCutStrLoop_chunking (opt : Opt) (segs segs' : List Bytes) (h : ∀ s ∈ segs, s ≠ [])
    (h' : ∀ s ∈ segs', s ≠ []) (he : segs.flatten = segs'.flatten) :
    readAndCutStrLoop opt segs = readAndCutStrLoop opt segs' := by
  rw [readAndCutStrLoop_eq opt segs h, readAndCutStrLoop_eq opt segs' h', he]

/-- no panic and no endless loop in the literal general engine (for bounds without the index 0 —
    the parser produces no other — and regexes that honour the contract of `find_iter`) -/
theorem readAndCutStrLoop_safe (opt : Opt) (hbag : ∀ bag, opt.regexBag = some bag → bag.OK)
    (hl : LNZ opt.bounds.list) (segs : List Bytes) (h : ∀ s ∈ segs, s ≠ []) :
    (readAndCutStrLoop opt segs).Safe := by
  rw [readAndCutStrLoop_eq opt segs h]
  exact readAndCutStr_safe opt hbag hl _

/-! ## byte mode -/

theorem readToEndLoop_succ (fuel : Nat) (r : List Bytes) (buf : Bytes) (read : Nat) :
    readToEndLoop (fuel + 1) r buf read =
      if ((fillBuf r).length == 0) = true then .ok (read, buf ++ fillBuf r, consume (fillBuf r).length r)
      else readToEndLoop fuel (consume (fillBuf r).length r) (buf ++ fillBuf r) (read + (fillBuf r).length) := rfl

/-- `read_to_end` on a reader without empty chunks: everything, in order; the reader is exhausted -/
theorem readToEndLoop_spec : ∀ (fuel : Nat) (stdin : List Bytes) (buf : Bytes) (read : Nat),
    (∀ s ∈ stdin, s ≠ []) → totalBytes stdin < fuel →
    readToEndLoop fuel stdin buf read = .ok (read + totalBytes stdin, buf ++ stdin.flatten, []) := by
  intro fuel
  induction fuel with
  | zero => intro stdin buf read _ h; omega
  | succ fuel ih =>
    intro stdin buf read hne hfuel
    rw [readToEndLoop_succ]
    cases stdin with
    | nil => simp [fillBuf, consume, totalBytes]
    | cons chunk more =>
      have hc : chunk ≠ [] := hne chunk (List.mem_cons_self ..)
      have hclen : 0 < chunk.length := List.length_pos_iff.mpr hc
      have hmore : ∀ s ∈ more, s ≠ [] := fun s hs => hne s (List.mem_cons_of_mem _ hs)
      have htb : totalBytes (chunk :: more) = chunk.length + totalBytes more := rfl
      have hfb : fillBuf (chunk :: more) = chunk := rfl
      have hz : (chunk.length == 0) = false := by simp; omega
      rw [hfb, hz, StreamLoop.consume_all, ih more _ _ hmore (by omega), htb]
      simp [Nat.add_assoc]

theorem totalBytes_eq_length_flatten (stdin : List Bytes) : totalBytes stdin = stdin.flatten.length := by
  induction stdin with
  | nil => rfl
  | cons c t ih => simp [totalBytes, ih]

/-- `read_bytes_to_end`: `None` iff the input is empty; `buffer` is the input in both cases -/
theorem readBytesToEndLit_eq (segs : List Bytes) (buffer : Bytes) (h : ∀ s ∈ segs, s ≠ []) :
    readBytesToEndLit segs buffer =
      .ok ((if segs.flatten.isEmpty then none else some ()), segs.flatten, []) := by
  unfold readBytesToEndLit
  simp only [TextLoops.clear]
  rw [readToEndLoop_spec _ _ _ _ h (totalBytes_lt_fuelFor segs)]
  simp only [Nat.zero_add, List.nil_append, totalBytes_eq_length_flatten]
  cases segs.flatten <;> simp

/-- the closure of `try_for_each` (cut_bytes.rs:13-33) against the loop of the model -/
theorem tryForEach_cutBytesBody (data : Bytes) (opt : Opt) : ∀ l : List BoF,
    tryForEach (cutBytesBody data opt) l = cutBytesLoop data opt l := by
  intro l
  induction l with
  | nil => rfl
  | cons bof t ih =>
    rw [tryForEach, ih]
    cases bof with
    | filler f => simp [cutBytesBody, cutBytesLoop, Run.seq_ok]
    | bound b =>
      cases hr : b.tryIntoRange data.length with
      | some r =>
        obtain ⟨s, e⟩ := r
        by_cases hse : s ≤ e ∧ e ≤ data.length
        · simp [cutBytesBody, cutBytesLoop, hr, hse, Run.seq_ok]
        · simp [cutBytesBody, cutBytesLoop, hr, hse, Run.seq, Run.panic]
      | none =>
        cases hf : b.fallback with
        | some fb => simp [cutBytesBody, cutBytesLoop, hr, hf, Run.seq_ok]
        | none =>
          cases hg : opt.fallbackOob with
          | some g => simp [cutBytesBody, cutBytesLoop, hr, hf, hg, Run.seq_ok]
          | none => simp [cutBytesBody, cutBytesLoop, hr, hf, hg, Run.seq, Run.fail]

/-- `cut_bytes` is the existing definition -/
theorem cutBytesLit_eq (data : Bytes) (opt : Opt) : cutBytesLit data opt = readAndCutBytes opt data := by
  unfold cutBytesLit readAndCutBytes
  rw [tryForEach_cutBytesBody, Run.seq_empty]

/-- **Refinement, byte mode.**  For every option record and every list of non-empty reads the
    literal `read_and_cut_bytes` (`read_bytes_to_end`, `read_to_end`, `cut_bytes`) is
    `readAndCutBytes` on the concatenation.  `h`: as for `readAndCutStrLoop_eq` (an empty read is
    EOF for `read_to_end`); the `#guard` below shows it cannot be dropped. -/
theorem readAndCutBytesLoop_eq (opt : Opt) (segs : List Bytes) (h : ∀ s ∈ segs, s ≠ []) :
    readAndCutBytesLoop opt segs = readAndCutBytes opt segs.flatten := by
  unfold readAndCutBytesLoop
  simp only [readBytesToEndLit_eq segs [] h, Run.seq_empty, cutBytesLit_eq]


/-- byte mode does not depend on how the input is chunked -/
theorem readAndCutBytesLoop_chunking (opt : Opt) (segs segs' : List Bytes) (h : ∀ s ∈ segs, s ≠ [])
    (h' : ∀ s ∈ segs', s ≠ []) (he : segs.flatten = segs'.flatten) :
    readAndCutBytesLoop opt segs = readAndCutBytesLoop opt segs' := by
  rw [readAndCutBytesLoop_eq opt segs h, readAndCutBytesLoop_eq opt segs' h', he]

/-- no panic and no endless loop in the literal byte mode -/
theorem readAndCutBytesLoop_safe (opt : Opt) (hl : LNZ opt.bounds.list) (segs : List Bytes)
    (h : ∀ s ∈ segs, s ≠ []) : (readAndCutBytesLoop opt segs).Safe := by
  rw [readAndCutBytesLoop_eq opt segs h]
  exact readAndCutBytes_safe opt hl _

/-! ## concrete runs

Options built the way `main` builds them (`boundsListOfString`), delimiter `-`. -/

/-- `tuc -d - -f <bounds>` plus whatever `f` changes -/
def mkOpt (bounds : String) (f : Opt → Opt := id) : Opt :=
  match boundsListOfString bounds.toList with
  | .ok l => f { delimiter := [0x2d], bounds := l }
  | _ => f { delimiter := [0x2d], bounds := ⟨[], .cont⟩ }

def bytesOf (s : String) : Bytes := s.toUTF8.toList

def okS (s : String) : Run := Run.ok (bytesOf s)

/-- the literal general engine on the given reads, the model on their concatenation, and the
    expected run -/
def bothStr (o : Opt) (reads : List String) (expected : Run) : Bool :=
  let segs := reads.map bytesOf
  readAndCutStrLoop o segs == expected && readAndCutStr o segs.flatten == expected

def bothBytes (o : Opt) (reads : List String) (expected : Run) : Bool :=
  let segs := reads.map bytesOf
  readAndCutBytesLoop o segs == expected && readAndCutBytes o segs.flatten == expected

/-- non-vacuity of `readAndCutStrLoop_eq`: a record that straddles three reads, a terminator that
    is the last byte of a read, a final record without terminator -/
example :
    readAndCutStrLoop (mkOpt "2") [[0x61, 0x2d, 0x62, 0x0a, 0x63], [0x63], [0x2d, 0x64, 0x0a], [0x65, 0x2d, 0x66]] =
      readAndCutStr (mkOpt "2") [0x61, 0x2d, 0x62, 0x0a, 0x63, 0x63, 0x2d, 0x64, 0x0a, 0x65, 0x2d, 0x66] :=
  readAndCutStrLoop_eq (mkOpt "2") [[0x61, 0x2d, 0x62, 0x0a, 0x63], [0x63], [0x2d, 0x64, 0x0a], [0x65, 0x2d, 0x66]]
    (by decide)

#guard bothStr (mkOpt "2") ["a-b\nc", "c", "-d\n", "e-f"] (okS "b\nd\nf\n")

/-- non-vacuity of `readAndCutBytesLoop_eq` -/
example :
    readAndCutBytesLoop (mkOpt "2:3,-1" (fun o => { o with boundsType := .bytes }))
        [[0x61, 0x62], [0x63], [0x64, 0x65]] =
      readAndCutBytes (mkOpt "2:3,-1" (fun o => { o with boundsType := .bytes })) [0x61, 0x62, 0x63, 0x64, 0x65] :=
  readAndCutBytesLoop_eq (mkOpt "2:3,-1" (fun o => { o with boundsType := .bytes }))
    [[0x61, 0x62], [0x63], [0x64, 0x65]] (by decide)

#guard bothBytes (mkOpt "2:3,-1" (fun o => { o with boundsType := .bytes })) ["ab", "c", "de"] (okS "bce")

-- the hypothesis of `readAndCutStrLoop_eq` cannot be dropped: an empty read is EOF for
-- `read_until` (mod.rs:2266) — the record "c-" ends there, "d" is the next one and has no field 2 —,
-- invisible to `flatten`
#guard readAndCutStrLoop (mkOpt "2") [bytesOf "a-b\nc-", [], bytesOf "d\n"] == ⟨bytesOf "b\n\n", .fail⟩
#guard readAndCutStr (mkOpt "2") [bytesOf "a-b\nc-", [], bytesOf "d\n"].flatten == okS "b\nd\n"
-- … and EOF for the `'outer` loop (io.rs:305)
#guard readAndCutStrLoop (mkOpt "1") [bytesOf "a\n", [], bytesOf "b\n"] == okS "a\n"
#guard readAndCutStr (mkOpt "1") [bytesOf "a\n", [], bytesOf "b\n"].flatten == okS "a\nb\n"
-- the hypothesis of `readAndCutBytesLoop_eq` cannot be dropped: an empty read ends `read_to_end`
#guard readAndCutBytesLoop (mkOpt "1:" (fun o => { o with boundsType := .bytes }))
  [bytesOf "ab", [], bytesOf "cd"] == okS "ab"
#guard readAndCutBytes (mkOpt "1:" (fun o => { o with boundsType := .bytes }))
  [bytesOf "ab", [], bytesOf "cd"].flatten == okS "abcd"

-- the record that straddles several reads, byte by byte
#guard bothStr (mkOpt "2,1") ["a", "b", "-", "c", "d", "\n"] (okS "cdab\n")
-- a terminator that is the last byte of a read; the next read starts a record
#guard bothStr (mkOpt "1") ["a-b\n", "c-d\n"] (okS "a\nc\n")
-- a terminator that is the first byte of a read (it ends the fragment kept in `bytes`)
#guard bothStr (mkOpt "2") ["a-b", "\nc-d"] (okS "b\nd\n")
-- the final record without terminator, in the same read as complete records / alone in `bytes`
#guard bothStr (mkOpt "1") ["a\nb"] (okS "a\nb\n")
#guard bothStr (mkOpt "1") ["a\n", "b"] (okS "a\nb\n")
-- the empty input; the input that is one terminator; empty records
#guard bothStr (mkOpt "1") [] Run.empty
#guard bothStr (mkOpt "1") ["\n"] (okS "\n")
#guard bothStr (mkOpt "1") ["\n", "\n\n", "a"] (okS "\n\n\na\n")
-- the input ends exactly at the end of a read, with / without terminator
#guard bothStr (mkOpt "2") ["a-b\n", "c-d\n"] (okS "b\nd\n")
#guard bothStr (mkOpt "2") ["a-b\n", "c-d"] (okS "b\nd\n")
-- `cut_str` fails on the 2nd record: status `fail` after the output of the 1st, the 3rd is not
-- read; the failing call is made from the `while let` (l.312) …
#guard bothStr (mkOpt "2") ["a-b\nc\ne-f\n"] ⟨bytesOf "b\n", .fail⟩
-- … and from l.337 (the record straddles two reads)
#guard bothStr (mkOpt "2") ["a-b\n", "c", "\ne-f\n"] ⟨bytesOf "b\n", .fail⟩
-- -z: NUL ends the records, LF is an ordinary byte
#guard bothStr (mkOpt "2" (fun o => { o with eol := .zero })) ["a-b\n\x00c", "-d\x00"] (okS "b\n\x00d\x00")
-- the scratch buffers survive from one call of the closure to the next (`-p`, compressed record)
#guard bothStr (mkOpt "2" (fun o => { o with compressDelimiter := true })) ["a--b\nc", "---d\n"] (okS "b\nd\n")
-- byte mode: one read, byte by byte, the empty input (`None`), out of bounds with / without fallback
#guard bothBytes (mkOpt "2:3" (fun o => { o with boundsType := .bytes })) ["abcd"] (okS "bc")
#guard bothBytes (mkOpt "2:3" (fun o => { o with boundsType := .bytes })) ["a", "b", "c", "d"] (okS "bc")
#guard bothBytes (mkOpt "2:3" (fun o => { o with boundsType := .bytes })) [] Run.empty
#guard bothBytes (mkOpt "1,7" (fun o => { o with boundsType := .bytes })) ["ab", "c"] ⟨bytesOf "a", .fail⟩
#guard bothBytes (mkOpt "1,7=x" (fun o => { o with boundsType := .bytes })) ["ab", "c"] (okS "ax")

/-! ## the loop's record sequence, observed

`for_byte_record` with a closure that writes `<record>` : the records, for every segmentation. -/

def showRecord : Closure Unit := fun record st => (Run.ok ([0x3c] ++ record ++ [0x3e]), true, st)

#guard (StreamLoop.segmentations (bytesOf "ab\n\ncd\ne")).all fun segs =>
  (forByteRecordLoop 0x0a showRecord segs ()).1 == okS "<ab><><cd><e>"
#guard (StreamLoop.segmentations (bytesOf "ab\n\ncd\n")).all fun segs =>
  (forByteRecordWithTerminatorLoop 0x0a showRecord segs ()).1 == okS "<ab\n><\n><cd\n>"
-- a closure that says `Ok(false)` on the second record: the loop stops after it, status `ok`
def stopAtSecond : Closure Nat := fun record n => (Run.ok ([0x3c] ++ record ++ [0x3e]), n == 0, n + 1)

#guard (StreamLoop.segmentations (bytesOf "ab\n\ncd\ne")).all fun segs =>
  (forByteRecordLoop 0x0a stopAtSecond segs 0).1 == okS "<ab><>"

/-! ## exhaustive comparison on a small space

Independent of the proofs (it runs the two definitions): every input of at most 5 bytes over
`{a, -, LF}` × every segmentation into non-empty reads × 10 option records (6 bytes for the first
three), the same over `{a, -, NUL, LF}` up to 5 bytes for `-z`, and byte mode over `{a, b}` up to
6 bytes × 6 bounds. -/

def optsStr : List Opt :=
  [ mkOpt "1", mkOpt "2", mkOpt "1,3" (fun o => { o with join := true }), mkOpt "2:", mkOpt "-1",
    mkOpt "{1}x{3=fb}y", mkOpt "2" (fun o => { o with fallbackOob := some [0x46] }),
    mkOpt "2" (fun o => { o with onlyDelimited := true }),
    mkOpt "1,2" (fun o => { o with compressDelimiter := true, join := true, replaceDelimiter := some [0x2f] }),
    mkOpt "2:3" (fun o => { o with boundsType := .characters, delimiter := [] }) ]

def optsStrZ : List Opt :=
  [ mkOpt "1" (fun o => { o with eol := .zero }), mkOpt "2" (fun o => { o with eol := .zero }) ]

def optsBytes : List Opt :=
  (["1", "2:3", "-1", "3:,1", "x{2}y", "7=F,1"].map fun b => mkOpt b (fun o => { o with boundsType := .bytes }))

/-- number of (option, segmented input) pairs on which literal and model differ -/
def disagreements (lit : Opt → List Bytes → Run) (model : Opt → Bytes → Run) (opts : List Opt)
    (alpha : List UInt8) (n : Nat) : Nat :=
  (opts.map fun o =>
    ((StreamLoop.wordsUpTo alpha n).map fun w =>
      ((StreamLoop.segmentations w).filter fun s => lit o s != model o w).length).sum).sum

def countCases (opts : List Opt) (alpha : List UInt8) (n : Nat) : Nat :=
  opts.length * ((StreamLoop.wordsUpTo alpha n).map fun w => (StreamLoop.segmentations w).length).sum

-- every option text above parses
#guard (optsStr ++ optsStrZ ++ optsBytes).all fun o => !o.bounds.list.isEmpty
#guard countCases optsStr [0x61, 0x2d, 0x0a] 5 == 46660
#guard disagreements readAndCutStrLoop readAndCutStr optsStr [0x61, 0x2d, 0x0a] 5 == 0
#guard countCases (optsStr.take 3) [0x61, 0x2d, 0x0a] 6 == 83982
#guard disagreements readAndCutStrLoop readAndCutStr (optsStr.take 3) [0x61, 0x2d, 0x0a] 6 == 0
#guard countCases optsStrZ [0x61, 0x2d, 0x00, 0x0a] 5 == 37450
#guard disagreements readAndCutStrLoop readAndCutStr optsStrZ [0x61, 0x2d, 0x00, 0x0a] 5 == 0
#guard countCases optsBytes [0x61, 0x62] 6 == 16386
#guard disagreements readAndCutBytesLoop readAndCutBytes optsBytes [0x61, 0x62] 6 == 0

end ReadLoops
end Tuc
